import RaftProofs.ClusterSnapD

/-!
Commit safety of `ClusterSem` with log compaction, part C: **what `compact k` does to a node**
(`CompactOut`, `compact_out`), and the per-call facts of `ClusterCommitY` / `ClusterCommit2P`
(`call_facts`, `call_more`) for a call that may be a compaction; provenance of `MsgAppend`s and
`MsgHeartbeat`s.
-/
namespace RaftModel
namespace Cluster
namespace Snap
open Node Raft Raft.CC RaftProps.C02 RaftProps.C05

/-- **the effect of `compact k`** under the storage contract: nothing but the storage changes, and of
the storage only the entries: the stored log — and with it the logical log — is cut below `k` -/
structure CompactOut (st st' : NState) (k : Nat) : Prop where
  msgs : st'.raft.msgs = st.raft.msgs
  term : st'.raft.term = st.raft.term
  state : st'.raft.state = st.raft.state
  id : st'.raft.id = st.raft.id
  committed : st'.raft.raftLog.committed = st.raft.raftLog.committed
  persisted : st'.raft.raftLog.persisted = st.raft.raftLog.persisted
  unstable : st'.raft.raftLog.unstable = st.raft.raftLog.unstable
  hs : st'.raft.raftLog.store.hardState = st.raft.raftLog.store.hardState
  inv : st'.raft.raftLog.Inv
  abs : st'.raft.raftLog.abs = st.raft.raftLog.abs.compactTo (k - 1)
  sto : storeLog st'.raft.raftLog.store = (storeLog st.raft.raftLog.store).compactTo (k - 1)
  ok : CompactOk st.raft.raftLog k

theorem storeLog_compactTo {s s' : MemStorage} (hw : s.WF) (ci : Nat) (hci : ci ≤ s.lastIndex)
    (h : s.compact ci = .ok s') : storeLog s' = (storeLog s).compactTo (ci - 1) := by
  obtain ⟨s2, h2, _, hfirst, _, hsnap, hents⟩ := RaftProps.C14.store_compact_ok hw ci (.inl hci)
  rw [h] at h2
  cases h2
  have hsl := hw.last_succ
  have hp := hw.first_pos
  by_cases hle : ci ≤ s.firstIndex
  · have h1 : storeLog s' = storeLog s := by
      unfold storeLog
      rw [hfirst, hsnap, hents, Nat.max_eq_left hle, show ci - s.firstIndex = 0 by omega]
      rfl
    have h2 : (storeLog s).compactTo (ci - 1) = storeLog s := by
      unfold LLog.compactTo
      rw [if_pos (by show ci - 1 ≤ s.firstIndex - 1; omega)]
    rw [h1, h2]
  · have hsn := hw.snap_lt
    unfold storeLog LLog.compactTo
    dsimp only
    rw [hfirst, hsnap, hents, Nat.max_eq_right (by omega),
      if_neg (show ¬ ci - 1 ≤ s.firstIndex - 1 by omega),
      if_neg (show ¬ ci - 1 = s.snapshotMetadata.index by omega)]
    congr 2
    omega

theorem compact_out {st st' : NState} {rnd : Option Nat} {k : Nat} {res : OpRes}
    (hinv : st.raft.raftLog.Inv) (hsn : st.raft.raftLog.unstable.snapshot = none)
    (hc : CompactOk st.raft.raftLog k)
    (h : Node.call st rnd (.compact k) = .ok (res, st')) : CompactOut st st' k := by
  unfold Node.call at h
  simp only [applyOp] at h
  split at h
  · rename_i store hcs
    have hcs' : st.raft.raftLog.store.compact k = .ok store := hcs
    cases h
    have hps := hinv.persisted_le_store
    obtain ⟨l', hl', hinv', habs1, _, _, _, _, _, _, _⟩ :=
      RaftProps.C14.compactStore_ok hinv k hc.1 (by have := hc.2; omega)
        (.inl (by have := hc.2; omega))
    have hle : l' = { st.raft.raftLog with store := store } := by
      unfold RaftLog.compactStore at hl'
      rw [hcs'] at hl'
      cases hl'; rfl
    subst hle
    exact ⟨rfl, rfl, rfl, rfl, rfl, rfl, rfl, CV.compact_hs hcs', hinv', habs1 hsn,
      storeLog_compactTo hinv.storeWF k (by have := hc.2; omega) hcs', hc⟩
  · cases h
  · cases h

/-- after a compaction an entry is left above the new snapshot point -/
theorem CompactOut.lt {st st' : NState} {k : Nat} (h : CompactOut st st' k)
    (hinv : st.raft.raftLog.Inv) :
    (st.raft.raftLog.abs.snapIdx < k - 1 → k - 1 < st.raft.raftLog.abs.lastIndex) ∧
    ((storeLog st.raft.raftLog.store).snapIdx < k - 1 →
      k - 1 < (storeLog st.raft.raftLog.store).lastIndex) := by
  have h1 := h.ok.2
  have h2 := hinv.persisted_le_store
  have h3 := hinv.committed_le_last
  have h4 := h.ok.1
  rw [hinv.lastIndex_abs] at h3
  have hsl : (storeLog st.raft.raftLog.store).lastIndex = st.raft.raftLog.store.lastIndex := by
    have := hinv.storeWF.last_succ
    have := hinv.storeWF.first_pos
    unfold storeLog LLog.lastIndex
    dsimp only
    omega
  constructor
  · intro _; omega
  · intro _; rw [hsl]; omega

/-- how a call changes the logical log: as without compaction (`LogRel`), or the call is a compaction -/
def LogRel' (st st' : NState) (op : NodeOp) : Prop :=
  LogRel st.raft st'.raft (CV.opMsg op) ∨ ∃ k, op = .compact k ∧ CompactOut st st' k

variable {cfg : JointConfig} {c0 : Nat} {h : List Sys}

/-- everything the node-level layers say about one `call` / `deliver` step of the history -/
theorem call_facts (H : Hyp2w cfg c0 h) {n : Nat} {a : Sys} {i : Nat} {st st' : NState}
    {rnd : Option Nat} {op : NodeOp} {res : OpRes}
    (ha : h[n]? = some a) (hi : a.node i = some st)
    (hop : appOp op = true ∨ ∃ m, op = .step m ∧ m ∈ a.net ∧ m.to = i)
    (hc : ∀ j, op = .compact j → CompactOk st.raft.raftLog j)
    (hcall : Node.call st rnd op = .ok (res, st')) :
    G (Anet a.net) st.raft (CV.opMsg op) st'.raft ∧ LStep st.raft st'.raft (CV.opMsg op) ∧
    QF st.raft st'.raft ∧ LogRel' st st' op ∧ st.raft.id = i := by
  obtain ⟨s0, _, hall⟩ := H.inv_at
  have I := hall a (mem_of_get ha)
  have hnb := H.nb a (mem_of_get ha)
  have hsn := H.nosnap a (mem_of_get ha)
  have hop1 : appOp op = true ∨ ∃ m, op = .step m ∧ m ∈ a.net := by
    rcases hop with g | ⟨m, g1, g2, _⟩
    · exact .inl g
    · exact .inr ⟨m, g1, g2⟩
  have hop' : op ≠ .drain ∧ ∀ m, op ≠ .rstep m := by
    rcases hop1 with h1 | ⟨m, h1, _⟩
    · constructor
      · intro hc; rw [hc] at h1; cases h1
      · intro m hc; rw [hc] at h1; cases h1
    · rw [h1]
      exact ⟨(by intro hc; cases hc), (by intro m' hc; cases hc)⟩
  have hms : ∀ m, op = .step m → m.msgType ≠ .msgSnapshot := by
    intro m hm
    rcases hop1 with h1 | ⟨m', h1, h2⟩
    · rw [hm] at h1; cases h1
    · rw [hm] at h1; cases h1; exact hsn m h2
  have g := kstep_g (H.mokc n a ha) hnb hsn hi hop1 hcall
  have hw : ∀ m, op = .step m → m.msgType = .msgAppend → MsgOk m := by
    intro m hm hty
    rcases hop1 with h1 | ⟨m', h1, h2⟩
    · rw [hm] at h1; cases h1
    · rw [hm] at h1; cases h1
      exact I.msgOk h2 hty
  have hL := call_lstep st st' rnd op res (I.inv i st hi) (hnb i st hi) hop' hw hc hcall
  have hid := (((hist_all H.hist).1 a (mem_of_get ha)).ids i st hi).1
  have hpend := H.nopend a (mem_of_get ha) i st hi
  by_cases hco : ∃ j, op = .compact j
  · obtain ⟨j, rfl⟩ := hco
    have hout := compact_out (I.inv i st hi) hpend (hc j rfl) hcall
    exact ⟨g, hL, fun x hx _ => .inl (by rw [← hout.msgs]; exact hx), .inr ⟨j, rfl, hout⟩, hid⟩
  · have hnc : ∀ j, op ≠ .compact j := fun j hj => hco ⟨j, hj⟩
    have hq := call_q st st' rnd op res (I.inv i st hi) (hnb i st hi) hop' hms hnc hpend
      (fun x hx hty => by
        rcases g.qlk x hx (by rw [hty]; rfl) with c | c
        · exact .inl c
        · exact .inr c.lead) hcall
    exact ⟨g, hL, hq.q, .inl hq.l, hid⟩

/-- **provenance of `MsgAppend`s** (the record is `Cluster.AppGen`) -/
theorem append_prov (H : Hyp2w cfg c0 h) : ∀ (n : Nat) (s : Sys), h[n]? = some s →
    (∀ i st, s.node i = some st → ∀ x ∈ st.raft.msgs, x.msgType = .msgAppend →
      Gen (AppGen h) n i x) ∧
    (∀ x ∈ s.net, x.msgType = .msgAppend → ∃ i, Gen (AppGen h) n i x) := by
  refine provenance h H.hist H.steps (fun x => x.msgType = .msgAppend) (AppGen h) ?_
  intro n a b i st st' rnd op res ha hb hi hi' hcall hop hco _ x hx hty
  obtain ⟨g, _, hq, _, hid⟩ := call_facts H ha hi hop hco hcall
  rcases g.qlk x hx (by rw [hty]; rfl) with c | c
  · exact .inl c
  · rcases hq x hx hty with d | d
    · exact .inl d
    · right
      exact ⟨b, st', hb, hi', c.lead, c.term.symm, c.frm.trans (g.id.trans hid), (c.app hty).1,
        (c.app hty).2, d⟩

/-- **provenance of `MsgHeartbeat`s** (the record is `Cluster.HbGen`) -/
theorem hb_prov (H : Hyp2w cfg c0 h) : ∀ (n : Nat) (s : Sys), h[n]? = some s →
    (∀ i st, s.node i = some st → ∀ x ∈ st.raft.msgs, x.msgType = .msgHeartbeat →
      Gen (HbGen h) n i x) ∧
    (∀ x ∈ s.net, x.msgType = .msgHeartbeat → ∃ i, Gen (HbGen h) n i x) := by
  refine provenance h H.hist H.steps (fun x => x.msgType = .msgHeartbeat) (HbGen h) ?_
  intro n a b i st st' rnd op res ha hb hi hi' hcall hop hco hnet x hx hty
  obtain ⟨g, _, _, _, hid⟩ := call_facts H ha hi hop hco hcall
  rcases g.qlk x hx (by rw [hty]; rfl) with c | c
  · exact .inl c
  · right
    have hid' : st'.raft.id = i := g.id.trans hid
    refine ⟨b, st', hb, hi', c.lead, c.term.symm, c.frm.trans hid', (c.hb hty).1, ?_⟩
    rcases (c.hb hty).2 with d | d
    · exact .inl d
    · right; rw [hnet, c.term]; exact d

/-- the commit index, the stored entries and the stored hard state over one `call` / `deliver` step of
the history (`Cluster.call_more`; a compaction keeps the commit index and the hard state) -/
theorem call_more (H : Hyp2w cfg c0 h) {n : Nat} {a : Sys} {i : Nat} {st st' : NState}
    {rnd : Option Nat} {op : NodeOp} {res : OpRes}
    (ha : h[n]? = some a) (hi : a.node i = some st)
    (hop : appOp op = true ∨ ∃ m, op = .step m ∧ m ∈ a.net ∧ m.to = i)
    (hc : ∀ j, op = .compact j → CompactOk st.raft.raftLog j)
    (hcall : Node.call st rnd op = .ok (res, st')) :
    Src st st' op ∧
    (SE st.raft st'.raft ∨ op = .stabilize ∨ ∃ k, op = .compact k ∧ CompactOut st st' k) ∧
    HsOut st st' op := by
  obtain ⟨s0, _, hall⟩ := H.inv_at
  have I := hall a (mem_of_get ha)
  have hnb := H.nb a (mem_of_get ha)
  have hsn := H.nosnap a (mem_of_get ha)
  have hop' : op ≠ .drain ∧ ∀ m, op ≠ .rstep m := by
    rcases hop with h1 | ⟨m, h1, _⟩
    · constructor
      · intro hc; rw [hc] at h1; cases h1
      · intro m hc; rw [hc] at h1; cases h1
    · rw [h1]
      exact ⟨(by intro hc; cases hc), (by intro m' hc; cases hc)⟩
  have hms : ∀ m, op = .step m → m.msgType ≠ .msgSnapshot := by
    intro m hm
    rcases hop with h1 | ⟨m', h1, h2, _⟩
    · rw [hm] at h1; cases h1
    · rw [hm] at h1; cases h1; exact hsn m h2
  have hw : ∀ m, op = .step m → m.msgType = .msgAppend → MsgOk m := by
    intro m hm hty
    rcases hop with h1 | ⟨m', h1, h2, _⟩
    · rw [hm] at h1; cases h1
    · rw [hm] at h1; cases h1
      exact I.msgOk h2 hty
  have hs1 := H.nopend a (mem_of_get ha) i st hi
  have hhs := call_hs st st' rnd op res hop' hs1 hcall
  by_cases hco : ∃ j, op = .compact j
  · obtain ⟨j, rfl⟩ := hco
    have hout := compact_out (I.inv i st hi) hs1 (hc j rfl) hcall
    exact ⟨Src.of_eq hout.committed, .inr (.inr ⟨j, rfl, hout⟩), hhs⟩
  · have hnc : ∀ j, op ≠ .compact j := fun j hj => hco ⟨j, hj⟩
    refine ⟨call_src st st' rnd op res (I.inv i st hi) hop' hnc hs1 hcall, ?_, hhs⟩
    rcases call_sto st st' rnd op res (I.inv i st hi) (hnb i st hi) hop' hw hms hnc hs1 hcall with c | c
    · exact .inl c
    · exact .inr (.inl c)

end Snap
end Cluster
end RaftModel
