import RaftProofs.ClusterRead2A
import RaftProofs.ClusterReadM
import RaftProofs.ClusterSnap6D

/-!
Cluster-level ReadIndex safety **with compaction, snapshots and `request_snapshot`**, part 2B: the
hypotheses `RdHypS` (those of the snapshot layer, `Snap5.Hyp3r`, plus the read-specific fields of
`RdHyp`), one step of such a history as the read path sees it (`rd_step`: the delivery of a
`MsgSnapshot` is an ordinary `RdStep.call`, by `snapStep_rd`), and the invariant `pend_ok`.

[Copies of `ClusterReadH.lean` / `ClusterReadI.lean` for the bundle `RdHypS`; the definitions `RegAt`,
`RdStep`, `PendOk`, `HbrIn`, ... are those of `RaftModel.Cluster`.]
-/
namespace RaftModel
namespace Cluster
namespace Snap5
namespace Rd
open Node Raft Raft.CC Raft.RD RaftProps.C02 RaftProps.C05 Snap

/-- **the hypotheses of the read layer on top of the snapshot layer**: `Snap5.Hyp3r` (compaction,
snapshots between nodes, `request_snapshot`; `RaftProofs/ClusterSnap6D.lean`) and the read-specific
fields of `RdHyp` (`RaftProofs/ClusterReadH.lean`) -/
structure RdHypS (cfg : JointConfig) (c0 : Nat) (h : List Sys) : Prop extends Hyp3r cfg c0 h where
  norir : ∀ s ∈ h, ∀ x ∈ s.net, x.msgType ≠ .msgReadIndexResp
  safe : ∀ s ∈ h, ∀ i st, s.node i = some st → st.raft.readOnly.option = .safe
  nori : ∀ s ∈ h, ∀ x ∈ s.net, x.msgType ≠ .msgReadIndex
  uniq : ∀ n1 n2 i1 i2 K, RegAt h n1 i1 K → RegAt h n2 i2 K → n1 = n2
  nonempty : ∀ n i K, RegAt h n i K → K ≠ []

variable {cfg : JointConfig} {c0 : Nat} {h : List Sys}

theorem RdHypS.toHyp3w (H : RdHypS cfg c0 h) : Hyp3w cfg c0 h := H.toHyp3r.toHyp3w
theorem RdHypS.toHyp3a (H : RdHypS cfg c0 h) : Hyp3a cfg c0 h := Hyp3w.toHyp3a H.toHyp3w
theorem RdHypS.toHyp2w (H : RdHypS cfg c0 h) : Hyp2w cfg c0 h := H.toHyp3w.toHyp2w

/-- two registrations of one context are the same step on the same node -/
theorem RdHypS.uniq_node (H : RdHypS cfg c0 h)
    {n1 n2 i1 i2 : Nat} {K : Bytes} (h1 : RegAt h n1 i1 K) (h2 : RegAt h n2 i2 K) :
    n1 = n2 ∧ i1 = i2 := by
  have e := H.uniq n1 n2 i1 i2 K h1 h2
  subst e
  refine ⟨rfl, ?_⟩
  obtain ⟨a, b, st, st', _, _, p1, p2, _, _, p5, _⟩ := h1
  obtain ⟨a', b', st2, st2', _, _, q1, q2, _, _, q5, _⟩ := h2
  rw [p1] at q1; cases q1
  rw [p2] at q2; cases q2
  exact setNode_head_inj (p5.symm.trans q5)


theorem rd_step (H : RdHypS cfg c0 h) {n : Nat} {a b : Sys} (ha : h[n]? = some a)
    (hb : h[n + 1]? = some b) : RdStep cfg a b := by
  have H2 := H.toHyp2w
  have hfa := H2.fix a (mem_of_get ha)
  have hfb := H2.fix b (mem_of_get hb)
  have fin : ∀ (k : Nat) (st st' : NState) (m : Message), a.node k = some st →
      b = a.setNode k st' →
      (∃ V, (V = st.raft.prs.voters ∨ V = st'.raft.prs.voters) ∧ ROut V st.raft m st'.raft) →
      ROut cfg st.raft m st'.raft := by
    intro k st st' m hk hbe ⟨V, hV, ho⟩
    have e1 := hfa k st hk
    have e2 := hfb k st' (by rw [hbe]; exact node_setNode_self a k st')
    rcases hV with c | c
    · rw [← e1, ← c]; exact ho
    · rw [← e2, ← c]; exact ho
  cases H2.steps n a b ha hb with
  | call k st st' rnd op res h1 h2 h3 _ _ _ _ _ _ h4 =>
    by_cases hri : ∃ K, op = .readIndex K
    · obtain ⟨K, e⟩ := hri
      subst e
      refine .read k st st' K rnd res h1 rfl h4 ?_
      unfold Node.call at h4
      simp only [applyOp] at h4
      obtain ⟨raft, hx, hr⟩ := CV.okRes_ok h4
      rw [hr]
      exact riOut_rebase (readIndex_cases hx)
    · have hop : CV.opMsg op = CV.mLocal := by
        cases op <;> first | rfl | (cases h2; done)
      refine .call k st st' CV.mLocal h1 rfl (.inl rfl) (fin k st st' _ h1 rfl ?_)
      rw [← hop]
      refine call_rd st st' rnd op res (fun K hK => hri ⟨K, hK⟩) ?_ ?_ h4
      · intro hc; rw [hc] at h2; cases h2
      · intro m hm
        rcases hm with hm | hm <;> rw [hm] at h2 <;> cases h2
  | deliver k st st' rnd m res h1 h2 h3 _ _ _ h4 =>
    refine .call k st st' m h1 rfl (.inr ⟨h2, h3⟩) (fin k st st' _ h1 rfl ?_)
    by_cases hsn : m.msgType = .msgSnapshot
    · exact ⟨_, .inl rfl, snapStep_rd st st' rnd m res hsn h4⟩
    · have := call_rd st st' rnd (.step m) res (fun K hK => by cases hK) (by intro hc; cases hc) ?_ h4
      · exact this
      · intro m' hm
        have e : m' = m := by
          rcases hm with hm | hm
          · injection hm with hm; exact hm.symm
          · cases hm
        subst e
        exact ⟨H.nori a (mem_of_get ha) m' h2, hsn⟩
  | send k st st' h1 _ _ h3 =>
    refine .send k st st' h1 rfl ?_
    unfold Node.call at h3
    simp only [applyOp] at h3
    cases h3
    rfl
  | restart k st st' c rnd h1 _ h3 _ =>
    exact .restart k st st' h1 rfl (boot_fresh c _ rnd st' h3) (CV.boot_booted c _ rnd st' h3).msgs


/-- a group in which no quorum fits into one node is not a singleton -/
theorem not_singleton (H : Hyp2w cfg c0 h) {s : Sys} (hs : s ∈ h) {i : Nat} {st : NState}
    (hi : s.node i = some st) : st.raft.prs.isSingleton = false := by
  have hv := H.fix s hs i st hi
  cases hsing : st.raft.prs.isSingleton with
  | false => rfl
  | true =>
    exfalso
    unfold ProgressTracker.isSingleton at hsing
    simp only [Bool.and_eq_true, List.isEmpty_iff, beq_iff_eq] at hsing
    obtain ⟨h1, h2⟩ := hsing
    have e1 : cfg.outgoing = [] := by rw [← hv]; exact h1
    have e2 : cfg.incoming.length = 1 := by rw [← hv]; exact h2
    obtain ⟨x, hx⟩ : ∃ x, cfg.incoming = [x] := by
      cases hc : cfg.incoming with
      | nil => rw [hc] at e2; cases e2
      | cons x t =>
        cases t with
        | nil => exact ⟨x, rfl⟩
        | cons y t' => rw [hc] at e2; simp at e2
    have hQ : IsJointQuorum cfg [x] := by
      refine ⟨fun _ => ?_, fun hne => absurd e1 hne⟩
      unfold IsQuorum
      rw [hx]
      simp [majority]
    obtain ⟨k, hk, hne⟩ := H.nolone x [x] hQ
    exact hne (List.mem_singleton.1 hk)

theorem pend_ok (H : RdHypS cfg c0 h) : ∀ (n : Nat) (s : Sys), h[n]? = some s → PendOk s := by
  have H2 := H.toHyp2w
  refine hist_induct h _ ?_ ?_
  · intro s h0
    have hinit := hist_init H2.hist s h0
    have hf : ∀ v st, s.node v = some st → Fresh st.raft := by
      intro v st hv
      obtain ⟨c, store, rnd, _, hb⟩ := hinit.2 v st hv
      exact boot_fresh c store rnd st hb
    refine ⟨fun v st hv K rs hm => ?_, fun v st hv K rs hm => ?_⟩
    · rw [(hf v st hv).1] at hm; cases hm
    · rw [(hf v st hv).1] at hm; cases hm
  · intro n a b ha hb ih
    have hid : ∀ v st, a.node v = some st → st.raft.id = v :=
      fun v st hv => (node_ok H2 ha hv).id
    cases rd_step H ha hb with
    | call k st st' m hk hbe hm ho =>
      subst hbe
      refine ⟨fun v stv hv K rs hmem => ?_, fun v stv hv K rs hmem u hu => ?_⟩
      · rcases node_cases hv with ⟨e1, e2⟩ | ⟨_, e2⟩
        · subst e1; subst e2
          obtain ⟨_, ⟨rs0, g1, g2, _⟩, _⟩ := ho.pend K rs hmem
          rw [g2]; exact ih.req v st hk K rs0 g1
        · exact ih.req v stv e2 K rs hmem
      · rcases node_cases hv with ⟨e1, e2⟩ | ⟨_, e2⟩
        · subst e1; subst e2
          obtain ⟨g0, _, g3⟩ := ho.pend K rs hmem
          rcases g3 u hu with c | c | ⟨rsA, c1, c2⟩
          · exact .inl (c.trans (hid v st hk))
          · right
            rcases hm with q | ⟨q, _⟩
            · rw [c.1] at q; cases q
            · exact ⟨m, q, c.1, c.2.1, c.2.2.1, by rw [g0]; exact c.2.2.2⟩
          · rw [g0]; exact ih.acks v st hk K rsA c1 u c2
        · exact ih.acks v stv e2 K rs hmem u hu
    | read k st st' K' rnd res hk hbe hcall ho =>
      subst hbe
      have key : (∀ K rs, (K, rs) ∈ st'.raft.readOnly.pendingReadIndex →
            reqCtx rs.req = some K ∧ rs.req.frm = 0) ∧
          (∀ K rs, (K, rs) ∈ st'.raft.readOnly.pendingReadIndex →
            ∀ u ∈ rs.acks, u = k ∨ HbrIn a.net u K st'.raft.term) := by
        cases ho with
        | frame hf =>
          rw [hf.ro, hf.term]
          exact ⟨ih.req k st hk, ih.acks k st hk⟩
        | now hs =>
          exfalso
          rcases hs with c | c
          · rw [not_singleton H2 (mem_of_get ha) hk] at c; cases c
          · exact c (H.safe a (mem_of_get ha) k st hk)
        | reg hl hc ro hadd hcore hmsgs =>
          have e1 : st'.raft.readOnly = ro := congrArg RCore.ro hcore
          have e2 : st'.raft.term = st.raft.term := congrArg RCore.term hcore
          rw [e1, e2]
          rcases addRequest_spec hadd with ⟨q1, _⟩ | ⟨_, _, q3, _⟩
          · rw [q1]; exact ⟨ih.req k st hk, ih.acks k st hk⟩
          · rw [q3]
            constructor
            · intro K rs hmem
              rcases List.mem_append.1 hmem with g | g
              · exact ih.req k st hk K rs g
              · rw [List.mem_singleton] at g
                injection g with g1 g2
                subst g1; subst g2
                exact ⟨rfl, rfl⟩
            · intro K rs hmem u hu
              rcases List.mem_append.1 hmem with g | g
              · exact ih.acks k st hk K rs g u hu
              · rw [List.mem_singleton] at g
                injection g with g1 g2
                subst g2
                left
                rw [List.mem_singleton] at hu
                rw [hu]; exact hid k st hk
      refine ⟨fun v stv hv K rs hmem => ?_, fun v stv hv K rs hmem u hu => ?_⟩
      · rcases node_cases hv with ⟨e1, e2⟩ | ⟨_, e2⟩
        · subst e1; subst e2; exact key.1 K rs hmem
        · exact ih.req v stv e2 K rs hmem
      · rcases node_cases hv with ⟨e1, e2⟩ | ⟨_, e2⟩
        · subst e1; subst e2; exact key.2 K rs hmem u hu
        · exact ih.acks v stv e2 K rs hmem u hu
    | send k st st' hk hbe hst =>
      subst hbe
      have hsub : ∀ x ∈ a.net, x ∈ a.net ++ st.raft.msgs := fun x hx => List.mem_append_left _ hx
      refine ⟨fun v stv hv K rs hmem => ?_, fun v stv hv K rs hmem u hu => ?_⟩
      · have hv' : (a.setNode k st').node v = some stv := hv
        rcases node_cases hv' with ⟨e1, e2⟩ | ⟨_, e2⟩
        · subst e1; subst e2
          rw [hst] at hmem
          exact ih.req v st hk K rs hmem
        · exact ih.req v stv e2 K rs hmem
      · have hv' : (a.setNode k st').node v = some stv := hv
        rcases node_cases hv' with ⟨e1, e2⟩ | ⟨_, e2⟩
        · subst e1; subst e2
          rw [hst] at hmem ⊢
          exact (ih.acks v st hk K rs hmem u hu).imp (fun g => g) (fun g => g.mono hsub)
        · exact (ih.acks v stv e2 K rs hmem u hu).imp (fun g => g) (fun g => g.mono hsub)
    | restart k st st' hk hbe hf hq =>
      subst hbe
      refine ⟨fun v stv hv K rs hmem => ?_, fun v stv hv K rs hmem u hu => ?_⟩
      · rcases node_cases hv with ⟨e1, e2⟩ | ⟨_, e2⟩
        · subst e1; subst e2; rw [hf.1] at hmem; cases hmem
        · exact ih.req v stv e2 K rs hmem
      · rcases node_cases hv with ⟨e1, e2⟩ | ⟨_, e2⟩
        · subst e1; subst e2; rw [hf.1] at hmem; cases hmem
        · exact ih.acks v stv e2 K rs hmem u hu


end Rd
end Snap5
end Cluster
end RaftModel
