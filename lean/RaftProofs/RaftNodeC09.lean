import RaftProofs.RaftNodeC05

/-!
Helper lemmas for C09 on the node model (`RaftProps/C09b.lean`): which functions of `src/raft.rs`
leave `pending_conf_index` and the apply cursor `raft_log.applied` alone (`CF`, an anchored relation
in the style of `RaftNodeC16.Frame` / `RaftNodeC05.LS`).
-/
namespace RaftModel

theorem c09_commitTo_applied {l l' : RaftLog} {to : Nat} (h : l.commitTo to = .ok l') :
    l'.applied = l.applied := by
  unfold RaftLog.commitTo at h
  split at h
  · cases h; rfl
  · split at h
    · cases h
    · cases h; rfl

theorem c09_maybeCommit_applied {l l' : RaftLog} {mi t : Nat} {b : Bool}
    (h : l.maybeCommit mi t = .ok (l', b)) : l'.applied = l.applied := by
  unfold RaftLog.maybeCommit at h
  split at h
  · split at h
    · split at h
      · split at h
        · rename_i l2 hct
          cases h
          exact c09_commitTo_applied hct
        · cases h
        · cases h
      · cases h; rfl
    · cases h; rfl
    · cases h
  · cases h; rfl

theorem c09_snapshot_applied (l : RaftLog) (ri : Nat) : (l.snapshot ri).1.applied = l.applied := by
  unfold RaftLog.snapshot
  split
  · split
    · rfl
    · rfl
  · rfl

theorem c09_append_applied {l l' : RaftLog} {es : List Entry} {n : Nat}
    (h : l.append es = .ok (l', n)) : l'.applied = l.applied := by
  unfold RaftLog.append at h
  split at h
  · cases h; rfl
  · split at h
    · cases h
    · split at h
      · cases h
      · split at h
        · cases h; rfl
        · cases h
        · cases h

namespace Raft

/-- anchored: the node `r` has the same `pending_conf_index` and the same apply cursor as `a` -/
def CF (a r : Raft) : Prop :=
  r.pendingConfIndex = a.pendingConfIndex ∧ r.raftLog.applied = a.raftLog.applied

theorem CF.rfl {r : Raft} : CF r r := ⟨Eq.refl _, Eq.refl _⟩

theorem CF.trans {a b c : Raft} (h1 : CF a b) (h2 : CF b c) : CF a c :=
  ⟨h2.1.trans h1.1, h2.2.trans h1.2⟩

/-- any structure update that keeps `raftLog` and `pendingConfIndex` keeps `CF` -/
theorem CF.mk' {a r : Raft} {x1 x2 x3 : Nat} {x4 : List ReadState} {x6 x7 x8 : Nat}
    {x9 : StateRole} {x10 : Bool} {x11 : Nat}
    {x12 : Option Nat} {x14 : ReadOnly} {x15 x16 : Nat} {x17 x18 x19 x20 x21 : Bool}
    {x22 x23 x24 x25 x26 : Nat} {x27 : Int} {x28 : UncommittedState} {x29 : Nat}
    {x30 : ProgressTracker} {x31 : List Message} {x32 : Option Nat} (h0 : CF a r) :
    CF a { term := x1, vote := x2, id := x3, readStates := x4, raftLog := r.raftLog,
           maxInflight := x6, maxMsgSize := x7, pendingRequestSnapshot := x8, state := x9,
           promotable := x10, leaderId := x11, leadTransferee := x12,
           pendingConfIndex := r.pendingConfIndex, readOnly := x14, electionElapsed := x15,
           heartbeatElapsed := x16, checkQuorum := x17, preVote := x18,
           skipBcastCommit := x19, batchAppend := x20, disableProposalForwarding := x21,
           heartbeatTimeout := x22, electionTimeout := x23, randomizedElectionTimeout := x24,
           minElectionTimeout := x25, maxElectionTimeout := x26, priority := x27,
           uncommittedState := x28, maxCommittedSizePerReady := x29, prs := x30, msgs := x31,
           nextRand := x32 } := h0

/-- a structure update of `raftLog` by a log with the same apply cursor -/
theorem CF.log {a r : Raft} {l : RaftLog} (hl : l.applied = r.raftLog.applied) (h0 : CF a r) :
    CF a { r with raftLog := l } := ⟨h0.1, hl.trans h0.2⟩

macro "cf_pre" h:ident : tactic =>
  `(tactic| (frame_dec $h:ident <;> (iterate 2 (try (apply CF.mk')))))

macro "cf_auto" h:ident "[" ls:Lean.Parser.Tactic.SolveByElim.arg,* "]" : tactic =>
  `(tactic| (cf_pre $h:ident <;> (solve_by_elim (maxDepth := 14) [CF.rfl, $ls,*, CF.mk'])))

theorem send_cf {a r r' : Raft} {m : Message} (h : r.send m = .ok r') (h0 : CF a r) :
    CF a r' := by
  rw [send_eq r r' m h]; exact h0

theorem prepareSendSnapshot_cf {a r r' : Raft} {m m' : Message} {pr pr' : Progress} {to : Nat}
    {b : Bool} (h : r.prepareSendSnapshot m pr to = .ok (r', m', pr', b)) (h0 : CF a r) :
    CF a r' := by
  unfold Raft.prepareSendSnapshot at h
  split at h
  · cases h; exact h0
  · simp only [] at h
    have hs := c09_snapshot_applied r.raftLog pr.pendingRequestSnapshot
    split at h
    · cases h; exact CF.log hs h0
    · cases h
    · cases h
    · split at h
      · cases h
      · cases h; exact CF.log hs h0

theorem tryBatching_cf {a r r' : Raft} {to : Nat} {pr pr' : Progress} {ents : List Entry} {b : Bool}
    (h : r.tryBatching to pr ents = .ok (r', pr', b)) (h0 : CF a r) : CF a r' := by
  unfold Raft.tryBatching at h
  split at h
  · cases h; exact h0
  · cases h
  · cases h

theorem maybeSendAppend_cf {a r r' : Raft} {to : Nat} {pr pr' : Progress} {ae b : Bool}
    (h : r.maybeSendAppend to pr ae = .ok (r', pr', b)) (h0 : CF a r) : CF a r' := by
  unfold Raft.maybeSendAppend at h
  cf_auto h [send_cf, prepareSendSnapshot_cf, tryBatching_cf]

theorem sendAppendPr_cf {a r r' : Raft} {to : Nat} {pr pr' : Progress}
    (h : r.sendAppendPr to pr = .ok (r', pr')) (h0 : CF a r) : CF a r' := by
  unfold Raft.sendAppendPr at h
  cf_auto h [maybeSendAppend_cf]

theorem sendAppendAggressivelyPr_cf {a r' : Raft} {to : Nat} {pr' : Progress} :
    ∀ (fuel : Nat) (r : Raft) (pr : Progress),
      sendAppendAggressivelyPr fuel r to pr = .ok (r', pr') → CF a r → CF a r' := by
  intro fuel
  induction fuel with
  | zero => intro r pr h; simp [sendAppendAggressivelyPr] at h
  | succ n ih =>
    intro r pr h h0
    unfold sendAppendAggressivelyPr at h
    split at h
    · rename_i r1 pr1 hm
      exact ih r1 pr1 h (maybeSendAppend_cf hm h0)
    · rename_i r1 pr1 hm
      cases h; exact maybeSendAppend_cf hm h0
    · cases h
    · cases h

theorem sendHeartbeat_cf {a r r' : Raft} {to : Nat} {pr : Progress} {ctx : Option Bytes}
    (h : r.sendHeartbeat to pr ctx = .ok r') (h0 : CF a r) : CF a r' := by
  unfold Raft.sendHeartbeat at h
  exact send_cf h h0

theorem sendAppend_cf {a r r' : Raft} {to : Nat}
    (h : r.sendAppend to = .ok r') (h0 : CF a r) : CF a r' := by
  unfold Raft.sendAppend at h
  cf_auto h [sendAppendPr_cf]

theorem sendAppendAggressively_cf {a r r' : Raft} {to : Nat}
    (h : r.sendAppendAggressively to = .ok r') (h0 : CF a r) : CF a r' := by
  unfold Raft.sendAppendAggressively at h
  cf_auto h [sendAppendAggressivelyPr_cf]

theorem sendTimeoutNow_cf {a r r' : Raft} {to : Nat}
    (h : r.sendTimeoutNow to = .ok r') (h0 : CF a r) : CF a r' := by
  unfold Raft.sendTimeoutNow at h
  exact send_cf h h0

theorem foldl_cf {α : Type} {a r' : Raft} (step : Res Raft → α → Res Raft)
    (hstep : ∀ acc x r1, step acc x = .ok r1 → ∃ r0, acc = .ok r0 ∧ (CF a r0 → CF a r1)) :
    ∀ (l : List α) (acc : Res Raft), l.foldl step acc = .ok r' →
      (∀ r, acc = .ok r → CF a r) → CF a r' := by
  intro l
  induction l with
  | nil => intro acc h h0; exact h0 r' h
  | cons x rest ih =>
    intro acc h h0
    simp only [List.foldl_cons] at h
    refine ih (step acc x) h ?_
    intro r1 h1
    obtain ⟨r0, e0, hf⟩ := hstep acc x r1 h1
    exact hf (h0 r0 e0)

theorem forEachPeer_cf {a r r' : Raft} {f : Raft → Nat → Progress → Res (Raft × Progress)}
    (hf : ∀ r id pr r' pr', f r id pr = .ok (r', pr') → CF a r → CF a r')
    (h : r.forEachPeer f = .ok r') (h0 : CF a r) : CF a r' := by
  unfold Raft.forEachPeer at h
  refine foldl_cf _ ?_ _ _ h (by intro r1 e; cases e; exact h0)
  intro acc id r1 h1
  cases acc with
  | err e => cases h1
  | panic s => cases h1
  | ok r0 =>
    refine ⟨r0, rfl, fun h0 => ?_⟩
    change (if id = r0.id then Res.ok r0 else _) = _ at h1
    cf_auto h1 [hf]

theorem bcastAppend_cf {a r r' : Raft} (h : r.bcastAppend = .ok r') (h0 : CF a r) :
    CF a r' := by
  unfold Raft.bcastAppend at h
  exact forEachPeer_cf (fun r id pr r' pr' h => sendAppendPr_cf h) h h0

theorem bcastHeartbeatWithCtx_cf {a r r' : Raft} {ctx : Option Bytes}
    (h : r.bcastHeartbeatWithCtx ctx = .ok r') (h0 : CF a r) : CF a r' := by
  unfold Raft.bcastHeartbeatWithCtx at h
  refine forEachPeer_cf (fun r id pr r' pr' h h0 => ?_) h h0
  cf_auto h [sendHeartbeat_cf]

theorem bcastHeartbeat_cf {a r r' : Raft} (h : r.bcastHeartbeat = .ok r') (h0 : CF a r) :
    CF a r' := by
  unfold Raft.bcastHeartbeat at h
  exact bcastHeartbeatWithCtx_cf h h0

theorem maybeCommit_cf {a r r' : Raft} {b : Bool} (h : r.maybeCommit = .ok (r', b))
    (h0 : CF a r) : CF a r' := by
  unfold Raft.maybeCommit at h
  split at h
  · cases h
  · cases h
  · split at h
    · cases h
    · cases h
    · rename_i log hm
      cases h
      exact ⟨h0.1, (c09_maybeCommit_applied hm).trans h0.2⟩
    · cases h; exact h0

theorem maybeIncreaseUncommittedSize_cf {a r r' : Raft} {es : List Entry} {b : Bool}
    (h : r.maybeIncreaseUncommittedSize es = (r', b)) (h0 : CF a r) : CF a r' := by
  unfold Raft.maybeIncreaseUncommittedSize at h
  split at h
  cases h
  exact h0

/-- `append_entry` keeps `pending_conf_index` and the apply cursor -/
theorem appendEntry_cf {a r r' : Raft} {es : List Entry} {b : Bool}
    (h : r.appendEntry es = .ok (r', b)) (h0 : CF a r) : CF a r' := by
  unfold Raft.appendEntry at h
  split at h
  · cases h; exact h0
  · rename_i r1 hinc
    have h1 : CF a r1 := maybeIncreaseUncommittedSize_cf hinc h0
    simp only [] at h
    split at h
    · rename_i log n happ
      cases h
      exact CF.log (c09_append_applied happ) h1
    · cases h
    · cases h

theorem handleReadyReadIndex_cf {a r r' : Raft} {req : Message} {i : Nat} {om : Option Message}
    (h : r.handleReadyReadIndex req i = .ok (r', om)) (h0 : CF a r) : CF a r' := by
  unfold Raft.handleReadyReadIndex at h
  cf_auto h [send_cf]

theorem respondReadStates_cf {a r r' : Raft} {rss : List ReadIndexStatus}
    (h : r.respondReadStates rss = .ok r') (h0 : CF a r) : CF a r' := by
  unfold Raft.respondReadStates at h
  refine foldl_cf _ ?_ _ _ h (by intro r1 e; cases e; exact h0)
  intro acc rs r1 h1
  cases acc with
  | err e => cases h1
  | panic s => cases h1
  | ok r0 =>
    refine ⟨r0, rfl, fun h0 => ?_⟩
    change (r0.handleReadyReadIndex rs.req rs.index).bind _ = _ at h1
    cf_auto h1 [handleReadyReadIndex_cf, send_cf]

/-! ### leader side -/

theorem checkQuorumActive_cf {a r r' : Raft} {b : Bool} (h : r.checkQuorumActive = (r', b))
    (h0 : CF a r) : CF a r' := by
  unfold Raft.checkQuorumActive at h
  split at h
  cases h
  exact h0

theorem handleAppendResponseAccepted_cf {a r r' : Raft} {m : Message} {pr : Progress} {op : Bool}
    (h : r.handleAppendResponseAccepted m pr op = .ok r') (h0 : CF a r) : CF a r' := by
  unfold Raft.handleAppendResponseAccepted at h
  cf_auto h [maybeCommit_cf, bcastAppend_cf, sendAppend_cf,
    sendAppendAggressively_cf, sendTimeoutNow_cf]

theorem handleAppendResponse_cf {a r r' : Raft} {m : Message}
    (h : r.handleAppendResponse m = .ok r') (h0 : CF a r) : CF a r' := by
  unfold Raft.handleAppendResponse at h
  cf_auto h [handleAppendResponseAccepted_cf, sendAppend_cf]

theorem handleHeartbeatResponse_cf {a r r' : Raft} {m : Message}
    (h : r.handleHeartbeatResponse m = .ok r') (h0 : CF a r) : CF a r' := by
  unfold Raft.handleHeartbeatResponse at h
  cf_auto h [sendAppendPr_cf, respondReadStates_cf]

theorem handleTransferLeader_cf {a r r' : Raft} {m : Message}
    (h : r.handleTransferLeader m = .ok r') (h0 : CF a r) : CF a r' := by
  unfold Raft.handleTransferLeader at h
  repeat' (first | split at h | (simp only at h; split at h))
  all_goals cf_auto h [sendTimeoutNow_cf, sendAppendPr_cf]

theorem handleSnapshotStatus_cf {a r : Raft} {m : Message} (h0 : CF a r) :
    CF a (r.handleSnapshotStatus m) := by
  unfold Raft.handleSnapshotStatus
  split
  · exact h0
  · split
    · exact h0
    · exact h0

theorem handleUnreachable_cf {a r : Raft} {m : Message} (h0 : CF a r) :
    CF a (r.handleUnreachable m) := by
  unfold Raft.handleUnreachable
  split
  · exact h0
  · split
    · exact h0
    · exact h0

end Raft

/-! ### the tracker's configuration and key set (`ProgressTracker.toCC`) -/

theorem c09_natmap_insert_keys {α : Type} (k : Nat) (v : α) (m : List (Nat × α)) :
    (NatMap.insert k v m).map (·.1) = NatSet.insert k (m.map (·.1)) := by
  induction m with
  | nil => rfl
  | cons p rest ih =>
    obtain ⟨k', v'⟩ := p
    simp only [NatMap.insert, List.map_cons, NatSet.insert]
    split
    · rfl
    · split
      · rename_i h2; simp [h2]
      · simp [ih]

theorem c09_natmap_erase_keys {α : Type} (k : Nat) (m : List (Nat × α)) :
    (NatMap.erase k m).map (·.1) = NatSet.erase k (m.map (·.1)) := by
  unfold NatMap.erase NatSet.erase
  induction m with
  | nil => rfl
  | cons p rest ih =>
    simp only [List.map_cons, List.filter_cons]
    split
    · simp [ih]
    · exact ih

theorem c09_natmap_modify_keys {α : Type} (k : Nat) (f : α → α) (m : List (Nat × α)) :
    (NatMap.modify k f m).map (·.1) = m.map (·.1) := by
  induction m with
  | nil => rfl
  | cons p rest ih =>
    simp only [NatMap.modify, List.map_cons] at ih ⊢
    rw [ih]
    by_cases h : p.1 = k <;> simp [h]

/-- **`ProgressTracker::apply_conf` is `Tracker.applyConf` on the changer's view of the tracker** -/
theorem c09_applyConf_toCC (t : ProgressTracker) (cfg : Configuration) (changes : MapChange)
    (n : Nat) : (t.applyConf cfg changes n).toCC = t.toCC.applyConf cfg changes := by
  unfold ProgressTracker.applyConf ProgressTracker.toCC Tracker.applyConf applyChanges
  simp only [Tracker.mk.injEq, true_and]
  generalize t.progress = m
  induction changes generalizing m with
  | nil => rfl
  | cons c rest ih =>
    simp only [List.foldl_cons]
    rw [ih]
    congr 1
    cases c.2 with
    | add => exact c09_natmap_insert_keys _ _ _
    | remove => exact c09_natmap_erase_keys _ _

theorem c09_set_toCC (t : ProgressTracker) (id : Nat) (p : Progress) :
    (t.set id p).toCC = t.toCC := by
  unfold ProgressTracker.set ProgressTracker.toCC
  simp only [c09_natmap_modify_keys]

namespace Raft

/-- anchored: same configuration and same key set of the progress map -/
def TC (a r : Raft) : Prop := r.prs.toCC = a.prs.toCC

theorem TC.rfl {r : Raft} : TC r r := Eq.refl _

/-- any structure update that keeps `prs` keeps `TC` -/
theorem TC.mk' {a r : Raft} {x1 x2 x3 : Nat} {x4 : List ReadState} {x5 : RaftLog} {x6 x7 x8 : Nat}
    {x9 : StateRole} {x10 : Bool} {x11 : Nat}
    {x12 : Option Nat} {x13 : Nat} {x14 : ReadOnly} {x15 x16 : Nat} {x17 x18 x19 x20 x21 : Bool}
    {x22 x23 x24 x25 x26 : Nat} {x27 : Int} {x28 : UncommittedState} {x29 : Nat}
    {x31 : List Message} {x32 : Option Nat} (h0 : TC a r) :
    TC a { term := x1, vote := x2, id := x3, readStates := x4, raftLog := x5,
           maxInflight := x6, maxMsgSize := x7, pendingRequestSnapshot := x8, state := x9,
           promotable := x10, leaderId := x11, leadTransferee := x12,
           pendingConfIndex := x13, readOnly := x14, electionElapsed := x15,
           heartbeatElapsed := x16, checkQuorum := x17, preVote := x18,
           skipBcastCommit := x19, batchAppend := x20, disableProposalForwarding := x21,
           heartbeatTimeout := x22, electionTimeout := x23, randomizedElectionTimeout := x24,
           minElectionTimeout := x25, maxElectionTimeout := x26, priority := x27,
           uncommittedState := x28, maxCommittedSizePerReady := x29, prs := r.prs, msgs := x31,
           nextRand := x32 } := h0

theorem TC.set {a r : Raft} (id : Nat) (p : Progress) (h0 : TC a r) :
    TC a { r with prs := r.prs.set id p } := by
  show (r.prs.set id p).toCC = _
  rw [c09_set_toCC]; exact h0

macro "tc_pre" h:ident : tactic =>
  `(tactic| (frame_dec $h:ident <;> (iterate 2 (try (apply TC.mk')))))

macro "tc_auto" h:ident "[" ls:Lean.Parser.Tactic.SolveByElim.arg,* "]" : tactic =>
  `(tactic| (tc_pre $h:ident <;> (solve_by_elim (maxDepth := 14) [TC.rfl, $ls,*, TC.mk', TC.set])))

theorem send_tc {a r r' : Raft} {m : Message} (h : r.send m = .ok r') (h0 : TC a r) :
    TC a r' := by
  rw [send_eq r r' m h]; exact h0

theorem prepareSendSnapshot_tc {a r r' : Raft} {m m' : Message} {pr pr' : Progress} {to : Nat}
    {b : Bool} (h : r.prepareSendSnapshot m pr to = .ok (r', m', pr', b)) (h0 : TC a r) :
    TC a r' := by
  unfold Raft.prepareSendSnapshot at h
  tc_auto h [TC.rfl]

theorem tryBatching_tc {a r r' : Raft} {to : Nat} {pr pr' : Progress} {ents : List Entry} {b : Bool}
    (h : r.tryBatching to pr ents = .ok (r', pr', b)) (h0 : TC a r) : TC a r' := by
  unfold Raft.tryBatching at h
  split at h
  · cases h; exact h0
  · cases h
  · cases h

theorem maybeSendAppend_tc {a r r' : Raft} {to : Nat} {pr pr' : Progress} {ae b : Bool}
    (h : r.maybeSendAppend to pr ae = .ok (r', pr', b)) (h0 : TC a r) : TC a r' := by
  unfold Raft.maybeSendAppend at h
  tc_auto h [send_tc, prepareSendSnapshot_tc, tryBatching_tc]

theorem sendAppendPr_tc {a r r' : Raft} {to : Nat} {pr pr' : Progress}
    (h : r.sendAppendPr to pr = .ok (r', pr')) (h0 : TC a r) : TC a r' := by
  unfold Raft.sendAppendPr at h
  tc_auto h [maybeSendAppend_tc]

theorem foldl_tc {α : Type} {a r' : Raft} (step : Res Raft → α → Res Raft)
    (hstep : ∀ acc x r1, step acc x = .ok r1 → ∃ r0, acc = .ok r0 ∧ (TC a r0 → TC a r1)) :
    ∀ (l : List α) (acc : Res Raft), l.foldl step acc = .ok r' →
      (∀ r, acc = .ok r → TC a r) → TC a r' := by
  intro l
  induction l with
  | nil => intro acc h h0; exact h0 r' h
  | cons x rest ih =>
    intro acc h h0
    simp only [List.foldl_cons] at h
    refine ih (step acc x) h ?_
    intro r1 h1
    obtain ⟨r0, e0, hf⟩ := hstep acc x r1 h1
    exact hf (h0 r0 e0)

theorem forEachPeer_tc {a r r' : Raft} {f : Raft → Nat → Progress → Res (Raft × Progress)}
    (hf : ∀ r id pr r' pr', f r id pr = .ok (r', pr') → TC a r → TC a r')
    (h : r.forEachPeer f = .ok r') (h0 : TC a r) : TC a r' := by
  unfold Raft.forEachPeer at h
  refine foldl_tc _ ?_ _ _ h (by intro r1 e; cases e; exact h0)
  intro acc id r1 h1
  cases acc with
  | err e => cases h1
  | panic s => cases h1
  | ok r0 =>
    refine ⟨r0, rfl, fun h0 => ?_⟩
    change (if id = r0.id then Res.ok r0 else _) = _ at h1
    split at h1
    · cases h1; exact h0
    · split at h1
      · cases h1; exact h0
      · rename_i pr hpr
        rw [Res.bind_eq_ok_iff] at h1
        obtain ⟨⟨r2, pr2⟩, hf2, h2⟩ := h1
        cases h2
        exact TC.set _ _ (hf _ _ _ _ _ hf2 h0)

theorem bcastAppend_tc {a r r' : Raft} (h : r.bcastAppend = .ok r') (h0 : TC a r) :
    TC a r' := by
  unfold Raft.bcastAppend at h
  exact forEachPeer_tc (fun r id pr r' pr' h => sendAppendPr_tc h) h h0

theorem c09_modifyProgress_toCC (r : Raft) (id : Nat) (f : Progress → Progress) :
    (r.modifyProgress id f).prs.toCC = r.prs.toCC := by
  unfold Raft.modifyProgress ProgressTracker.toCC
  simp only [c09_natmap_modify_keys]

theorem c09_mapProgress_toCC (r : Raft) (f : Nat → Progress → Progress) :
    (r.mapProgress f).prs.toCC = r.prs.toCC := by
  unfold Raft.mapProgress ProgressTracker.toCC
  simp only [List.map_map, Tracker.mk.injEq, true_and]
  rfl

theorem maybeCommit_tc {a r r' : Raft} {b : Bool} (h : r.maybeCommit = .ok (r', b))
    (h0 : TC a r) : TC a r' := by
  unfold Raft.maybeCommit at h
  split at h
  · cases h
  · cases h
  · split at h
    · cases h
    · cases h
    · rename_i log hm
      cases h
      show (Raft.modifyProgress _ _ _).prs.toCC = _
      rw [c09_modifyProgress_toCC]; exact h0
    · cases h; exact h0

theorem handleReadyReadIndex_tc {a r r' : Raft} {req : Message} {i : Nat} {om : Option Message}
    (h : r.handleReadyReadIndex req i = .ok (r', om)) (h0 : TC a r) : TC a r' := by
  unfold Raft.handleReadyReadIndex at h
  tc_auto h [send_tc]

theorem respondReadStates_tc {a r r' : Raft} {rss : List ReadIndexStatus}
    (h : r.respondReadStates rss = .ok r') (h0 : TC a r) : TC a r' := by
  unfold Raft.respondReadStates at h
  refine foldl_tc _ ?_ _ _ h (by intro r1 e; cases e; exact h0)
  intro acc rs r1 h1
  cases acc with
  | err e => cases h1
  | panic s => cases h1
  | ok r0 =>
    refine ⟨r0, rfl, fun h0 => ?_⟩
    change (r0.handleReadyReadIndex rs.req rs.index).bind _ = _ at h1
    tc_auto h1 [handleReadyReadIndex_tc, send_tc]

theorem c09_reset_toCC (r : Raft) (t : Nat) : (r.reset t).prs.toCC = r.prs.toCC := by
  unfold Raft.reset
  simp only [Raft.abortLeaderTransfer, Raft.resetRandomizedElectionTimeout]
  rw [c09_mapProgress_toCC]
  by_cases h : r.term ≠ t <;> simp [h, ProgressTracker.resetVotes, ProgressTracker.toCC]

theorem reset_tc {a r : Raft} (t : Nat) (h0 : TC a r) : TC a (r.reset t) := by
  unfold TC; rw [c09_reset_toCC]; exact h0

theorem becomeFollower_tc {a r : Raft} (t l : Nat) (h0 : TC a r) : TC a (r.becomeFollower t l) := by
  unfold Raft.becomeFollower
  exact reset_tc t h0

/-- `post_conf_change` keeps the configuration and the key set of the progress map -/
theorem postConfChange_tc {a r r' : Raft} {cs : ConfState} (h : r.postConfChange = .ok (r', cs))
    (h0 : TC a r) : TC a r' ∧ cs = r.prs.conf.toConfState := by
  unfold Raft.postConfChange at h
  simp only [] at h
  split at h
  · cases h
    exact ⟨becomeFollower_tc _ _ (TC.mk' h0), rfl⟩
  · split at h
    · cases h
      exact ⟨TC.mk' h0, rfl⟩
    · rw [Res.bind_eq_ok_iff] at h
      obtain ⟨r1, h1, h⟩ := h
      have t1 : TC a r1 := by
        split at h1
        · rename_i r3 hmc
          exact bcastAppend_tc h1 (maybeCommit_tc hmc (TC.mk' h0))
        · rename_i r3 hmc
          refine forEachPeer_tc ?_ h1 (maybeCommit_tc hmc (TC.mk' h0))
          intro r id pr r' pr' hf h0
          rw [Res.bind_eq_ok_iff] at hf
          obtain ⟨⟨r4, pr4, b4⟩, hf1, hf2⟩ := hf
          cases hf2
          exact maybeSendAppend_tc hf1 h0
        · cases h1
        · cases h1
      rw [Res.bind_eq_ok_iff] at h
      obtain ⟨r2, h2, h⟩ := h
      have t2 : TC a r2 := by
        tc_auto h2 [respondReadStates_tc]
      refine ⟨?_, by cases h; rfl⟩
      tc_auto h [Raft.abortLeaderTransfer]

end Raft
end RaftModel
