import RaftProofs.ClusterConf2B
import RaftProofs.ClusterVoteA
import RaftProofs.RawNodeC06
import RaftProps.C20b

/-!
C09 at the cluster level, second series, part D: **the stored `ConfState` (`raft_log.store.confState`)
is untouched by every function of `src/raft.rs` that `Raft::step` and `Raft::tick` reach**.  Scripted
copy of `RaftProofs/ClusterConf2B.lean` (itself a copy of the commit-index frame of
`RaftProofs/RaftNodeC04.lean`) with `applied` replaced by `store.confState`: `SC P r` is
`P r.raftLog.store.confState`; the base facts are the `…_store` lemmas of `RawNodeC06` / `ClusterVoteA`
(the `RaftLog` operations never touch the storage) and `C20.storeSnapshot_spec`.
-/
namespace RaftModel
namespace Raft
namespace Sc


structure SC (P : ConfState → Prop) (r : Raft) : Prop where
  h : P r.raftLog.store.confState

/-- any structure update that keeps `raft_log` keeps the commit index -/
theorem SC.mk' {P : ConfState → Prop} {r : Raft} {x1 x2 x3 : Nat} {x4 : List ReadState} {x6 x7 x8 : Nat}
    {x9 : StateRole} {x10 : Bool} {x11 : Nat} {x12 : Option Nat} {x13 : Nat} {x14 : ReadOnly}
    {x15 x16 : Nat} {x17 x18 x19 x20 x21 : Bool} {x22 x23 x24 x25 x26 : Nat} {x27 : Int}
    {x28 : UncommittedState} {x29 : Nat} {x30 : ProgressTracker} {x31 : List Message}
    {x32 : Option Nat} (h0 : SC P r) :
    SC P { term := x1, vote := x2, id := x3, readStates := x4, raftLog := r.raftLog,
           maxInflight := x6, maxMsgSize := x7, pendingRequestSnapshot := x8, state := x9,
           promotable := x10, leaderId := x11, leadTransferee := x12, pendingConfIndex := x13,
           readOnly := x14, electionElapsed := x15, heartbeatElapsed := x16, checkQuorum := x17,
           preVote := x18, skipBcastCommit := x19, batchAppend := x20,
           disableProposalForwarding := x21, heartbeatTimeout := x22, electionTimeout := x23,
           randomizedElectionTimeout := x24, minElectionTimeout := x25, maxElectionTimeout := x26,
           priority := x27, uncommittedState := x28, maxCommittedSizePerReady := x29, prs := x30,
           msgs := x31, nextRand := x32 } := ⟨h0.h⟩

theorem SC.of_eq {P : ConfState → Prop} {r r' : Raft} (h : r'.raftLog.store.confState = r.raftLog.store.confState)
    (h0 : SC P r) : SC P r' := ⟨by rw [h]; exact h0.h⟩

/-- decompose `h : f … = .ok …`, then chain the anchored lemmas in the list -/
macro "sc_auto" h:ident "[" ls:Lean.Parser.Tactic.SolveByElim.arg,* "]" : tactic =>
  `(tactic| (frame_dec $h:ident <;> (try injections) <;> (try subst_vars) <;>
      (solve_by_elim (maxDepth := 14) only [*, $ls,*, SC.mk'])))

/-! ### sending: the commit index is untouched -/

theorem send_sc {P : ConfState → Prop} {r r' : Raft} {m : Message} (h : r.send m = .ok r')
    (h0 : SC P r) : SC P r' := by
  rw [send_eq r r' m h]; exact ⟨h0.h⟩

theorem prepareSendSnapshot_sc {P : ConfState → Prop} {r r' : Raft} {m m' : Message} {pr pr' : Progress}
    {to : Nat} {b : Bool} (h : r.prepareSendSnapshot m pr to = .ok (r', m', pr', b))
    (h0 : SC P r) : SC P r' := by
  unfold Raft.prepareSendSnapshot at h
  have hs : ∀ i, (r.raftLog.snapshot i).1.store.confState = r.raftLog.store.confState := by
    intro i
    have key : ({ r.raftLog with store := (r.raftLog.store.snapshot i).1 } : RaftLog).store.confState =
        r.raftLog.store.confState := by
      rcases (RaftProps.C20.storeSnapshot_spec r.raftLog.store i).1 with h1 | h1
      · show (r.raftLog.store.snapshot i).1.confState = _; rw [h1]
      · show (r.raftLog.store.snapshot i).1.confState = _; rw [h1]
    unfold RaftLog.snapshot
    split
    · split
      · rfl
      · exact key
    · exact key
  split at h
  · cases h; exact h0
  · simp only at h
    split at h
    · cases h; exact SC.of_eq (hs _) h0
    · cases h
    · cases h
    · split at h
      · cases h
      · cases h; exact SC.of_eq (hs _) h0

theorem tryBatching_sc {P : ConfState → Prop} {r r' : Raft} {to : Nat} {pr pr' : Progress}
    {ents : List Entry} {b : Bool} (h : r.tryBatching to pr ents = .ok (r', pr', b))
    (h0 : SC P r) : SC P r' := by
  unfold Raft.tryBatching at h
  sc_auto h [send_sc]

theorem maybeSendAppend_sc {P : ConfState → Prop} {r r' : Raft} {to : Nat} {pr pr' : Progress}
    {ae b : Bool} (h : r.maybeSendAppend to pr ae = .ok (r', pr', b)) (h0 : SC P r) :
    SC P r' := by
  unfold Raft.maybeSendAppend at h
  sc_auto h [send_sc, prepareSendSnapshot_sc, tryBatching_sc]

theorem sendAppendPr_sc {P : ConfState → Prop} {r r' : Raft} {to : Nat} {pr pr' : Progress}
    (h : r.sendAppendPr to pr = .ok (r', pr')) (h0 : SC P r) : SC P r' := by
  unfold Raft.sendAppendPr at h
  sc_auto h [maybeSendAppend_sc]

theorem sendAppendAggressivelyPr_sc {P : ConfState → Prop} {r' : Raft} {to : Nat} {pr' : Progress} :
    ∀ (fuel : Nat) (r : Raft) (pr : Progress),
      sendAppendAggressivelyPr fuel r to pr = .ok (r', pr') → SC P r → SC P r' := by
  intro fuel
  induction fuel with
  | zero => intro r pr h; simp [sendAppendAggressivelyPr] at h
  | succ n ih =>
    intro r pr h h0
    unfold sendAppendAggressivelyPr at h
    split at h
    · rename_i r1 pr1 hm
      exact ih r1 pr1 h (maybeSendAppend_sc hm h0)
    · rename_i r1 pr1 hm
      cases h; exact maybeSendAppend_sc hm h0
    · cases h
    · cases h

theorem sendHeartbeat_sc {P : ConfState → Prop} {r r' : Raft} {to : Nat} {pr : Progress}
    {ctx : Option Bytes} (h : r.sendHeartbeat to pr ctx = .ok r') (h0 : SC P r) : SC P r' := by
  unfold Raft.sendHeartbeat at h
  exact send_sc h h0

theorem sendAppend_sc {P : ConfState → Prop} {r r' : Raft} {to : Nat}
    (h : r.sendAppend to = .ok r') (h0 : SC P r) : SC P r' := by
  unfold Raft.sendAppend at h
  sc_auto h [sendAppendPr_sc]

theorem sendAppendAggressively_sc {P : ConfState → Prop} {r r' : Raft} {to : Nat}
    (h : r.sendAppendAggressively to = .ok r') (h0 : SC P r) : SC P r' := by
  unfold Raft.sendAppendAggressively at h
  sc_auto h [sendAppendAggressivelyPr_sc]

theorem sendTimeoutNow_sc {P : ConfState → Prop} {r r' : Raft} {to : Nat}
    (h : r.sendTimeoutNow to = .ok r') (h0 : SC P r) : SC P r' := by
  unfold Raft.sendTimeoutNow at h
  exact send_sc h h0

theorem foldl_sc {α : Type} {P : ConfState → Prop} {r' : Raft} (step : Res Raft → α → Res Raft)
    (hstep : ∀ acc x r1, step acc x = .ok r1 → ∃ r0, acc = .ok r0 ∧ (SC P r0 → SC P r1)) :
    ∀ (l : List α) (acc : Res Raft), l.foldl step acc = .ok r' →
      (∀ r, acc = .ok r → SC P r) → SC P r' := by
  intro l
  induction l with
  | nil => intro acc h h0; exact h0 r' h
  | cons x rest ih =>
    intro acc h h0
    simp only [List.foldl_cons] at h
    refine ih (step acc x) h ?_
    intro r1 h1
    obtain ⟨r0, e0, hf⟩ := hstep acc x r1 h1
    exact hf (h0 r0 e0)

theorem forEachPeer_sc {P : ConfState → Prop} {r r' : Raft}
    {f : Raft → Nat → Progress → Res (Raft × Progress)}
    (hf : ∀ r id pr r' pr', f r id pr = .ok (r', pr') → SC P r → SC P r')
    (h : r.forEachPeer f = .ok r') (h0 : SC P r) : SC P r' := by
  unfold Raft.forEachPeer at h
  refine foldl_sc _ ?_ _ _ h (by intro r1 e; cases e; exact h0)
  intro acc id r1 h1
  cases acc with
  | err e => cases h1
  | panic s => cases h1
  | ok r0 =>
    refine ⟨r0, rfl, fun h0 => ?_⟩
    change (if id = r0.id then Res.ok r0 else _) = _ at h1
    sc_auto h1 [hf]

theorem bcastAppend_sc {P : ConfState → Prop} {r r' : Raft} (h : r.bcastAppend = .ok r')
    (h0 : SC P r) : SC P r' := by
  unfold Raft.bcastAppend at h
  exact forEachPeer_sc (fun r id pr r' pr' h => sendAppendPr_sc h) h h0

theorem bcastHeartbeatWithCtx_sc {P : ConfState → Prop} {r r' : Raft} {ctx : Option Bytes}
    (h : r.bcastHeartbeatWithCtx ctx = .ok r') (h0 : SC P r) : SC P r' := by
  unfold Raft.bcastHeartbeatWithCtx at h
  refine forEachPeer_sc (fun r id pr r' pr' h h0 => ?_) h h0
  sc_auto h [sendHeartbeat_sc]

theorem bcastHeartbeat_sc {P : ConfState → Prop} {r r' : Raft} (h : r.bcastHeartbeat = .ok r')
    (h0 : SC P r) : SC P r' := by
  unfold Raft.bcastHeartbeat at h
  exact bcastHeartbeatWithCtx_sc h h0

/-! ### commit, append, read index -/

theorem modifyProgress_sc {P : ConfState → Prop} {r : Raft} {id : Nat} {f : Progress → Progress}
    (h0 : SC P r) : SC P (r.modifyProgress id f) := ⟨h0.h⟩

theorem mapProgress_sc {P : ConfState → Prop} {r : Raft} {f : Nat → Progress → Progress}
    (h0 : SC P r) : SC P (r.mapProgress f) := ⟨h0.h⟩

theorem maybeCommit_sc {P : ConfState → Prop} {r r' : Raft} {b : Bool} (h : r.maybeCommit = .ok (r', b))
    (h0 : SC P r) : SC P r' := by
  obtain ⟨mci, gc, _, h1 | h1⟩ := Raft.maybeCommit_spec h
  · obtain ⟨_, _, _, _, rfl⟩ := h1
    exact ⟨h0.h⟩
  · obtain ⟨_, rfl⟩ := h1; exact h0

theorem maybeIncreaseUncommittedSize_sc {P : ConfState → Prop} {r r' : Raft} {es : List Entry} {b : Bool}
    (h : r.maybeIncreaseUncommittedSize es = (r', b)) (h0 : SC P r) : SC P r' := by
  unfold Raft.maybeIncreaseUncommittedSize at h
  split at h
  cases h
  exact ⟨h0.h⟩

theorem appendEntry_stcs {r r' : Raft} {es : List Entry} {b : Bool}
    (h : r.appendEntry es = .ok (r', b)) : r'.raftLog.store.confState = r.raftLog.store.confState := by
  unfold Raft.appendEntry at h
  split at h
  · cases h; rfl
  · rename_i r1 hm
    have e1 : r1 = { r with uncommittedState := r1.uncommittedState } := by
      unfold Raft.maybeIncreaseUncommittedSize at hm
      split at hm
      cases hm; rfl
    simp only at h
    split at h
    · rename_i log n ha
      cases h
      have := congrArg MemStorage.confState (C06.append_store ha)
      rw [e1] at this ⊢
      exact this
    · cases h
    · cases h

theorem appendEntry_sc {P : ConfState → Prop} {r r' : Raft} {es : List Entry} {b : Bool}
    (h : r.appendEntry es = .ok (r', b)) (h0 : SC P r) : SC P r' :=
  SC.of_eq (appendEntry_stcs h) h0

theorem handleReadyReadIndex_sc {P : ConfState → Prop} {r r' : Raft} {req : Message} {i : Nat}
    {om : Option Message} (h : r.handleReadyReadIndex req i = .ok (r', om)) (h0 : SC P r) :
    SC P r' := by
  unfold Raft.handleReadyReadIndex at h
  sc_auto h [send_sc]

theorem respondReadStates_sc {P : ConfState → Prop} {r r' : Raft} {rss : List ReadIndexStatus}
    (h : r.respondReadStates rss = .ok r') (h0 : SC P r) : SC P r' := by
  unfold Raft.respondReadStates at h
  refine foldl_sc _ ?_ _ _ h (by intro r1 e; cases e; exact h0)
  intro acc rs r1 h1
  cases acc with
  | err e => cases h1
  | panic s => cases h1
  | ok r0 =>
    refine ⟨r0, rfl, fun h0 => ?_⟩
    change (r0.handleReadyReadIndex rs.req rs.index).bind _ = _ at h1
    sc_auto h1 [handleReadyReadIndex_sc, send_sc]

/-! ### leader side -/

theorem checkQuorumActive_sc {P : ConfState → Prop} {r r' : Raft} {b : Bool}
    (h : r.checkQuorumActive = (r', b)) (h0 : SC P r) : SC P r' := by
  unfold Raft.checkQuorumActive at h
  split at h
  cases h
  exact ⟨h0.h⟩

theorem handleAppendResponseAccepted_sc {P : ConfState → Prop} {r r' : Raft} {m : Message} {pr : Progress}
    {op : Bool} (h : r.handleAppendResponseAccepted m pr op = .ok r')
    (h0 : SC P r) : SC P r' := by
  unfold Raft.handleAppendResponseAccepted at h
  sc_auto h [maybeCommit_sc, bcastAppend_sc, sendAppend_sc, sendAppendAggressively_sc,
    sendTimeoutNow_sc]

theorem handleAppendResponse_sc {P : ConfState → Prop} {r r' : Raft} {m : Message}
    (h : r.handleAppendResponse m = .ok r') (h0 : SC P r) :
    SC P r' := by
  unfold Raft.handleAppendResponse at h
  sc_auto h [handleAppendResponseAccepted_sc, sendAppend_sc]

theorem handleHeartbeatResponse_sc {P : ConfState → Prop} {r r' : Raft} {m : Message}
    (h : r.handleHeartbeatResponse m = .ok r') (h0 : SC P r) : SC P r' := by
  unfold Raft.handleHeartbeatResponse at h
  sc_auto h [sendAppendPr_sc, respondReadStates_sc]

theorem handleTransferLeader_sc {P : ConfState → Prop} {r r' : Raft} {m : Message}
    (h : r.handleTransferLeader m = .ok r') (h0 : SC P r) : SC P r' := by
  unfold Raft.handleTransferLeader at h
  repeat' (first | split at h | (simp only at h; split at h))
  all_goals sc_auto h [sendTimeoutNow_sc, sendAppendPr_sc]

theorem handleSnapshotStatus_sc {P : ConfState → Prop} {r : Raft} {m : Message} (h0 : SC P r) :
    SC P (r.handleSnapshotStatus m) := by
  unfold Raft.handleSnapshotStatus
  split
  · exact h0
  · split
    · exact h0
    · exact ⟨h0.h⟩

theorem handleUnreachable_sc {P : ConfState → Prop} {r : Raft} {m : Message} (h0 : SC P r) :
    SC P (r.handleUnreachable m) := by
  unfold Raft.handleUnreachable
  split
  · exact h0
  · split
    · exact ⟨h0.h⟩
    · exact h0

theorem filterProposalEntry_sc {P : ConfState → Prop} {r r' : Raft} {i : Nat} {e e' : Entry}
    (h : r.filterProposalEntry i e = some (r', e')) (h0 : SC P r) : SC P r' := by
  unfold Raft.filterProposalEntry at h
  sc_auto h [send_sc]

theorem filterProposal_sc {P : ConfState → Prop} : ∀ (es : List Entry) (r r' : Raft) (i : Nat)
    (oes : Option (List Entry)), r.filterProposal i es = (r', oes) → SC P r → SC P r' := by
  intro es
  induction es with
  | nil => intro r r' i oes h h0; simp [Raft.filterProposal] at h; rw [← h.1]; exact h0
  | cons e es ih =>
    intro r r' i oes h h0
    unfold Raft.filterProposal at h
    split at h
    · cases h; exact h0
    · rename_i r1 e1 h1
      have h2 := filterProposalEntry_sc h1 h0
      split at h
      · rename_i r2 es2 h3
        cases h; exact ih _ _ _ _ h3 h2
      · rename_i r2 h3
        cases h; exact ih _ _ _ _ h3 h2

/-! ### role changes -/

theorem reset_raftLog (r : Raft) (t : Nat) : (r.reset t).raftLog = r.raftLog := by
  unfold Raft.reset
  simp only [Raft.mapProgress, Raft.abortLeaderTransfer, Raft.resetRandomizedElectionTimeout]
  split <;> rfl

theorem reset_sc {P : ConfState → Prop} {r : Raft} {t : Nat} (h0 : SC P r) : SC P (r.reset t) := by
  exact SC.of_eq (by rw [reset_raftLog]) h0

theorem becomeFollower_stcs (r : Raft) (t l : Nat) :
    (r.becomeFollower t l).raftLog.store.confState = r.raftLog.store.confState := by
  unfold Raft.becomeFollower
  simp only [reset_raftLog]

theorem becomeFollower_raftLog (r : Raft) (t l : Nat) :
    (r.becomeFollower t l).raftLog = { r.raftLog with maxApplyUnpersistedLogLimit := 0 } := by
  unfold Raft.becomeFollower
  simp only [reset_raftLog]

/-- the log queries do not read `max_apply_unpersisted_log_limit` -/
theorem c04_log_limit_irrelevant (l : RaftLog) (n : Nat) :
    (∀ i, ({ l with maxApplyUnpersistedLogLimit := n } : RaftLog).term i = l.term i) ∧
    (∀ i t, ({ l with maxApplyUnpersistedLogLimit := n } : RaftLog).matchTerm i t = l.matchTerm i t) ∧
    ({ l with maxApplyUnpersistedLogLimit := n } : RaftLog).lastIndex = l.lastIndex :=
  ⟨fun _ => rfl, fun _ _ => rfl, rfl⟩

theorem becomeFollower_sc {P : ConfState → Prop} {r : Raft} {t l : Nat} (h0 : SC P r) :
    SC P (r.becomeFollower t l) := SC.of_eq (becomeFollower_stcs r t l) h0

/- from here on the unifier must not look inside `reset` / `become_follower` (it would, when
`solve_by_elim` tries `becomeFollower_sc` against a structure update) -/
seal Raft.reset Raft.becomeFollower

theorem becomeCandidate_sc {P : ConfState → Prop} {r r' : Raft} (h : r.becomeCandidate = .ok r')
    (h0 : SC P r) : SC P r' := by
  unfold Raft.becomeCandidate at h
  frame_dec h
  exact SC.mk' (reset_sc h0)

theorem becomePreCandidate_sc {P : ConfState → Prop} {r r' : Raft} (h : r.becomePreCandidate = .ok r')
    (h0 : SC P r) : SC P r' := by
  unfold Raft.becomePreCandidate at h
  sc_auto h [reset_sc]

theorem becomeLeader_sc {P : ConfState → Prop} {r r' : Raft} (h : r.becomeLeader = .ok r')
    (h0 : SC P r) : SC P r' := by
  unfold Raft.becomeLeader at h
  sc_auto h [reset_sc, appendEntry_sc]

/-! ### campaigning: the commit index is untouched -/

theorem sendVoteRequests_sc {P : ConfState → Prop} {r r' : Raft} {ct : CampaignType} {vm : MsgType}
    {t : Nat} (h : r.sendVoteRequests ct vm t = .ok r') (h0 : SC P r) : SC P r' := by
  unfold Raft.sendVoteRequests at h
  split at h
  · cases h
  · cases h
  · split at h
    · cases h
    · cases h
    · refine foldl_sc _ ?_ _ _ h (by intro r1 e; cases e; exact h0)
      intro acc id r1 h1
      cases acc with
      | err e => cases h1
      | panic s => cases h1
      | ok r0 =>
        refine ⟨r0, rfl, fun h0 => ?_⟩
        change (if id = r0.id then Res.ok r0 else _) = _ at h1
        sc_auto h1 [send_sc]

theorem pollWith_sc {P : ConfState → Prop} {onPreWin : Raft → Res Raft}
    (hp : ∀ r r', onPreWin r = .ok r' → SC P r → SC P r')
    {r r' : Raft} {frm : Nat} {t : MsgType} {v : Bool} {res : VoteResult}
    (h : pollWith onPreWin r frm t v = .ok (r', res)) (h0 : SC P r) : SC P r' := by
  unfold Raft.pollWith at h
  sc_auto h [hp, becomeLeader_sc, bcastAppend_sc, becomeFollower_sc]

theorem campaignWith_sc {P : ConfState → Prop}
    {poll : Raft → Nat → MsgType → Bool → Res (Raft × VoteResult)}
    (hp : ∀ r f t v r' res, poll r f t v = .ok (r', res) → SC P r → SC P r')
    {r r' : Raft} {ct : CampaignType} (h : campaignWith poll r ct = .ok r') (h0 : SC P r) :
    SC P r' := by
  unfold Raft.campaignWith at h
  simp only at h
  obtain ⟨⟨r1, vm, t⟩, hs, h⟩ := Res.bind_eq_ok h
  have h1 : SC P r1 := by
    sc_auto hs [becomePreCandidate_sc, becomeCandidate_sc]
  obtain ⟨⟨r2, res⟩, hp2, h⟩ := Res.bind_eq_ok h
  have h2 := hp _ _ _ _ _ _ hp2 h1
  sc_auto h [sendVoteRequests_sc]

theorem campaignAfterPreVote_sc {P : ConfState → Prop} {r r' : Raft}
    (h : r.campaignAfterPreVote = .ok r') (h0 : SC P r) : SC P r' := by
  unfold Raft.campaignAfterPreVote at h
  refine campaignWith_sc (fun r f t v r' res hh => pollWith_sc ?_ hh) h h0
  intro r r' hh; cases hh

theorem poll_sc {P : ConfState → Prop} {r r' : Raft} {frm : Nat} {t : MsgType} {v : Bool}
    {res : VoteResult} (h : r.poll frm t v = .ok (r', res)) (h0 : SC P r) : SC P r' := by
  unfold Raft.poll at h
  exact pollWith_sc (fun _ _ hh => campaignAfterPreVote_sc hh) h h0

theorem campaign_sc {P : ConfState → Prop} {r r' : Raft} {ct : CampaignType}
    (h : r.campaign ct = .ok r') (h0 : SC P r) : SC P r' := by
  unfold Raft.campaign at h
  exact campaignWith_sc (fun _ _ _ _ _ _ hh => poll_sc hh) h h0

theorem hup_sc {P : ConfState → Prop} {r r' : Raft} {b : Bool} (h : r.hup b = .ok r') (h0 : SC P r) :
    SC P r' := by
  unfold Raft.hup at h
  sc_auto h [campaign_sc]

/-! ### follower side -/

theorem maybeCommitByVote_stcs {r r' : Raft} {m : Message}
    (h : r.maybeCommitByVote m = .ok r') : r'.raftLog.store.confState = r.raftLog.store.confState := by
  unfold Raft.maybeCommitByVote at h
  split at h
  · cases h; rfl
  · simp only at h
    split at h
    · cases h; rfl
    · split at h
      · cases h
      · cases h
      · cases h; rfl
      · rename_i log hm
        have ha : log.store.confState = r.raftLog.store.confState := congrArg MemStorage.confState (CV.maybeCommit_store hm)
        split at h
        · cases h; exact ha
        · split at h
          · cases h
          · cases h
          · cases h
            exact (becomeFollower_stcs _ _ _).trans ha
          · cases h; exact ha

theorem maybeCommitByVote_sc {P : ConfState → Prop} {r r' : Raft} {m : Message}
    (h : r.maybeCommitByVote m = .ok r') (h0 : SC P r) : SC P r' :=
  SC.of_eq (maybeCommitByVote_stcs h) h0

theorem sendRequestSnapshot_sc {P : ConfState → Prop} {r r' : Raft} (h : r.sendRequestSnapshot = .ok r')
    (h0 : SC P r) : SC P r' := by
  unfold Raft.sendRequestSnapshot at h
  sc_auto h [send_sc]

theorem maybeAppend_stcs {l l' : RaftLog} {idx term c : Nat} {ents : List Entry}
    {res : Option (Nat × Nat)} (h : l.maybeAppend idx term c ents = .ok (l', res)) :
    l'.store.confState = l.store.confState :=
  congrArg MemStorage.confState (CV.maybeAppend_store h)

theorem handleAppendEntries_stcs {r r' : Raft} {m : Message}
    (h : r.handleAppendEntries m = .ok r') : r'.raftLog.store.confState = r.raftLog.store.confState := by
  unfold Raft.handleAppendEntries at h
  split at h
  · exact (sendRequestSnapshot_sc (P := fun x => x = r.raftLog.store.confState) h ⟨rfl⟩).h
  · split at h
    · exact (send_sc (P := fun x => x = r.raftLog.store.confState) h ⟨rfl⟩).h
    · split at h
      · cases h
      · cases h
      · rename_i log ci last hm
        exact (send_sc (P := fun x => x = r.raftLog.store.confState) h ⟨maybeAppend_stcs hm⟩).h
      · rename_i log hm
        have e0 : log.store.confState = r.raftLog.store.confState := maybeAppend_stcs hm
        simp only at h
        split at h
        · cases h
        · cases h
        · cases h
        · first
          | exact (send_sc (P := fun x => x = r.raftLog.store.confState) h ⟨e0⟩).h
          | exact (send_sc (P := fun x => x = r.raftLog.store.confState) h ⟨rfl⟩).h

theorem handleAppendEntries_sc {P : ConfState → Prop} {r r' : Raft} {m : Message}
    (h : r.handleAppendEntries m = .ok r') (h0 : SC P r) : SC P r' :=
  SC.of_eq (handleAppendEntries_stcs h) h0

theorem handleHeartbeat_stcs {r r' : Raft} {m : Message} (h : r.handleHeartbeat m = .ok r') :
    r'.raftLog.store.confState = r.raftLog.store.confState := by
  unfold Raft.handleHeartbeat at h
  split at h
  · cases h
  · cases h
  · rename_i log hc
    simp only at h
    have e1 : r'.raftLog.store.confState = log.store.confState := by
      split at h
      · exact (sendRequestSnapshot_sc (P := fun x => x = log.store.confState) h ⟨rfl⟩).h
      · exact (send_sc (P := fun x => x = log.store.confState) h ⟨rfl⟩).h
    rw [e1]; exact congrArg MemStorage.confState (C06.commitTo_store hc)

theorem handleHeartbeat_sc {P : ConfState → Prop} {r r' : Raft} {m : Message}
    (h : r.handleHeartbeat m = .ok r') (h0 : SC P r) : SC P r' :=
  SC.of_eq (handleHeartbeat_stcs h) h0

/-- away from the leader role `post_conf_change` only recomputes `promotable` -/
theorem postConfChange_nonleader_sc {P : ConfState → Prop} {r r' : Raft} {cs : ConfState}
    (hs : r.state ≠ .leader) (h : r.postConfChange = .ok (r', cs)) (h0 : SC P r) : SC P r' := by
  unfold Raft.postConfChange at h
  have hb : (r.state == StateRole.leader) = false := by
    cases hst : r.state <;> simp_all
  simp only [hb, Bool.and_false, hs, ne_eq, not_false_eq_true, true_or, if_true, if_false,
    Bool.false_eq_true] at h
  sc_auto h [send_sc]

/-- `post_conf_change` (raft.rs:2743) on any node: the commit index does not decrease (a leader
re-evaluates `maybe_commit` under the new configuration) -/
theorem postConfChange_sc {P : ConfState → Prop} {r r' : Raft} {cs : ConfState}
    (h : r.postConfChange = .ok (r', cs)) (h0 : SC P r) :
    SC P r' := by
  unfold Raft.postConfChange at h
  simp only at h
  split at h
  · cases h; exact becomeFollower_sc (SC.mk' h0)
  · split at h
    · cases h; exact SC.mk' h0
    · obtain ⟨r1, hr1, h⟩ := Res.bind_eq_ok h
      have h1 : SC P r1 := by
        split at hr1
        · rename_i r3 hm
          exact bcastAppend_sc hr1 (maybeCommit_sc hm (SC.mk' h0))
        · rename_i r3 hm
          refine forEachPeer_sc ?_ hr1 (maybeCommit_sc hm (SC.mk' h0))
          intro r id pr r' pr' hh hh0
          sc_auto hh [maybeSendAppend_sc]
        · cases hr1
        · cases hr1
      obtain ⟨r2, hr2, h⟩ := Res.bind_eq_ok h
      have h2 : SC P r2 := by
        sc_auto hr2 [respondReadStates_sc]
      sc_auto h [send_sc]

theorem restore_stcs {r r' : Raft} {snap : Snapshot} {b : Bool}
    (h : r.restore snap = .ok (r', b)) : r'.raftLog.store.confState = r.raftLog.store.confState := by
  unfold Raft.restore at h
  simp only at h
  split at h
  · cases h; rfl
  · split at h
    · split at h
      · cases h
      · cases h; exact becomeFollower_stcs _ _ _
    · rename_i hst
      have hf : r.state = .follower := by
        apply Classical.byContradiction; intro hc; exact hst hc
      split at h
      · cases h; rfl
      · split at h
        · cases h
        · cases h
        · split at h
          · rename_i log hc
            cases h
            exact congrArg MemStorage.confState (C06.commitTo_store hc)
          · cases h
          · cases h
        · split at h
          · cases h
          · cases h
          · rename_i log hl
            have hc1 : log.store.confState = r.raftLog.store.confState :=
              congrArg MemStorage.confState (C06.restore_store hl)
            split at h
            · cases h
            · rename_i prs hprs
              obtain ⟨⟨r1, cs1⟩, hpc, h⟩ := Res.bind_eq_ok h
              have e1 : r1.raftLog.store.confState = log.store.confState :=
                (postConfChange_nonleader_sc (P := fun x => x = log.store.confState)
                  (by show r.state ≠ .leader; rw [hf]; simp) hpc ⟨rfl⟩).h
              simp only at h
              split at h
              · cases h
              · split at h
                · cases h
                · split at h
                  · cases h
                  · obtain ⟨⟨pr1, b1⟩, _, h⟩ := Res.bind_eq_ok h
                    cases h
                    show r1.raftLog.store.confState = _
                    rw [e1, hc1]

theorem restore_sc {P : ConfState → Prop} {r r' : Raft} {snap : Snapshot} {b : Bool}
    (h : r.restore snap = .ok (r', b)) (h0 : SC P r) : SC P r' :=
  SC.of_eq (restore_stcs h) h0

theorem handleSnapshot_stcs {r r' : Raft} {m : Message} (h : r.handleSnapshot m = .ok r') :
    ∃ r1 b, r.restore m.snapshot = .ok (r1, b) ∧ r'.raftLog.store.confState = r1.raftLog.store.confState := by
  unfold Raft.handleSnapshot at h
  obtain ⟨⟨r1, b⟩, hr, h⟩ := Res.bind_eq_ok h
  refine ⟨r1, b, hr, ?_⟩
  simp only at h
  split at h
  · exact (send_sc (P := fun x => x = r1.raftLog.store.confState) h ⟨rfl⟩).h
  · exact (send_sc (P := fun x => x = r1.raftLog.store.confState) h ⟨rfl⟩).h

theorem handleSnapshot_sc {P : ConfState → Prop} {r r' : Raft} {m : Message}
    (h : r.handleSnapshot m = .ok r') (h0 : SC P r) :
    SC P r' := by
  obtain ⟨r1, b, hr, e⟩ := handleSnapshot_stcs h
  exact SC.of_eq e (restore_sc hr h0)

/-! ### the dispatchers -/

seal Raft.handleSnapshotStatus Raft.handleUnreachable

theorem stepLeader_sc {P : ConfState → Prop} {r r' : Raft} {m : Message} {e : Option RaftError}
    (h : r.stepLeader m = .ok (r', e)) (h0 : SC P r) :
    SC P r' := by
  unfold Raft.stepLeader at h
  split at h
  case h_4 =>
    sc_auto h [handleReadyReadIndex_sc, send_sc, bcastHeartbeatWithCtx_sc]
  all_goals sc_auto h [bcastHeartbeat_sc, checkQuorumActive_sc, becomeFollower_sc, filterProposal_sc,
    appendEntry_sc, bcastAppend_sc, handleReadyReadIndex_sc, send_sc, bcastHeartbeatWithCtx_sc,
    handleAppendResponse_sc, handleHeartbeatResponse_sc, handleSnapshotStatus_sc,
    handleUnreachable_sc, handleTransferLeader_sc]

theorem stepCandidate_sc {P : ConfState → Prop} {r r' : Raft} {m : Message} {e : Option RaftError}
    (h : r.stepCandidate m = .ok (r', e)) (h0 : SC P r) :
    SC P r' := by
  unfold Raft.stepCandidate at h
  sc_auto h [becomeFollower_sc, handleAppendEntries_sc, handleHeartbeat_sc, handleSnapshot_sc,
    poll_sc, maybeCommitByVote_sc]

theorem stepFollower_sc {P : ConfState → Prop} {r r' : Raft} {m : Message} {e : Option RaftError}
    (h : r.stepFollower m = .ok (r', e)) (h0 : SC P r) :
    SC P r' := by
  unfold Raft.stepFollower at h
  split at h
  case h_8 =>
    split at h
    · simp only at h
      split at h
      · rename_i log b hm
        cases h
        exact SC.of_eq (r := r) (congrArg MemStorage.confState (CV.maybeCommit_store hm)) h0
      · cases h
      · cases h
    · cases h; exact h0
  all_goals sc_auto h [send_sc, handleAppendEntries_sc, handleHeartbeat_sc, handleSnapshot_sc,
    hup_sc]

theorem stepTerm_sc {P : ConfState → Prop} {r r' : Raft} {m : Message} {b : Bool}
    (h : r.stepTerm m = .ok (r', b)) (h0 : SC P r) : SC P r' := by
  unfold Raft.stepTerm at h
  sc_auto h [send_sc, becomeFollower_sc]

theorem stepVote_sc {P : ConfState → Prop} {r r' : Raft} {m : Message}
    (h : r.stepVote m = .ok r') (h0 : SC P r) : SC P r' := by
  unfold Raft.stepVote Raft.stepVoteGrant Raft.stepVoteReject at h
  sc_auto h [send_sc, maybeCommitByVote_sc]

theorem step_sc {P : ConfState → Prop} {r r' : Raft} {m : Message} {e : Option RaftError}
    (h : r.step m = .ok (r', e)) (h0 : SC P r) : SC P r' := by
  unfold Raft.step at h
  sc_auto h [stepTerm_sc, hup_sc, stepVote_sc, stepCandidate_sc, stepFollower_sc,
    stepLeader_sc]

theorem stepIgnore_sc {P : ConfState → Prop} {r r' : Raft} {m : Message}
    (h : r.stepIgnore m = .ok r') (h0 : SC P r) : SC P r' := by
  unfold Raft.stepIgnore at h
  sc_auto h [step_sc]

theorem tickElection_sc {P : ConfState → Prop} {r r' : Raft} {b : Bool}
    (h : r.tickElection = .ok (r', b)) (h0 : SC P r) :
    SC P r' := by
  unfold Raft.tickElection at h
  sc_auto h [stepIgnore_sc]

theorem tickHeartbeat_sc {P : ConfState → Prop} {r r' : Raft} {b : Bool}
    (h : r.tickHeartbeat = .ok (r', b)) (h0 : SC P r) :
    SC P r' := by
  unfold Raft.tickHeartbeat at h
  sc_auto h [stepIgnore_sc]

theorem tick_sc {P : ConfState → Prop} {r r' : Raft} {b : Bool}
    (h : r.tick = .ok (r', b)) (h0 : SC P r) : SC P r' := by
  unfold Raft.tick at h
  sc_auto h [tickElection_sc, tickHeartbeat_sc]


end Sc
end Raft
end RaftModel
