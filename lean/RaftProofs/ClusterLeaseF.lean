import RaftProofs.ClusterLeaseE
import RaftProps.C02c

/-!
Cluster-level lease theorem (C16, second half), part F: the window invariant `ls_WInv t M` of the
cluster semantics — nobody is ahead of term `t`, the transport and the queues are *calm*, no
pre-candidate of term `t` outside `M` has a recorded grant of a member of `M` — and its preservation
by every step of `ClusterSem` between two states that satisfy the window hypotheses `ls_Hyp`.
-/
namespace RaftModel
namespace Cluster
open Node Raft Raft.CV Raft.LS RaftProps.C02

/-- a freshly built node knows no leader -/
theorem ls_new_leaderId {c : Config} {store : MemStorage} {rnd : Option Nat} {r : Raft}
    (h : Raft.new c store rnd = .ok (.ok r)) : r.leaderId = 0 := by
  suffices ∃ d : Raft, r = d.becomeFollower d.term 0 by
    obtain ⟨d, e⟩ := this
    rw [e]; rfl
  unfold Raft.new at h
  frame_dec h
  all_goals first | exact ⟨_, rfl⟩ | skip

theorem ls_boot_leaderId {c : Config} {store : MemStorage} {rnd : Option Nat} {st : NState}
    (h : Node.boot c store rnd = .ok (.ok st)) : st.raft.leaderId = 0 := by
  unfold Node.boot at h
  split at h
  · rename_i raft hn
    cases h
    unfold RawNode.new at hn
    split at hn
    · cases hn
    · exact ls_new_leaderId hn
  · cases h
  · cases h
  · cases h

/-- a message that cannot disturb term `t`: its term is at most `t` — unless it is a pre-vote
request, or a granted pre-vote response which, if it answers a pre-campaign of term `t`
(`term = t + 1`), does not come from a member of `M` —, it is not a `MsgTimeoutNow`, and if it is a
(pre-)vote request it does not carry the transfer context -/
def ls_Calm (t : Nat) (M : List Nat) (x : Message) : Prop :=
  (x.term ≤ t ∨ x.msgType = .msgRequestPreVote ∨
    (x.msgType = .msgRequestPreVoteResponse ∧ x.reject = false ∧ (x.term = t + 1 → x.frm ∉ M))) ∧
  x.msgType ≠ .msgTimeoutNow ∧
  ((x.msgType = .msgRequestVote ∨ x.msgType = .msgRequestPreVote) → x.context ≠ campaignTransfer)

theorem ls_Calm.congr {t : Nat} {M : List Nat} {x y : Message} (h : hd y = hd x)
    (hc : ls_Calm t M y) : ls_Calm t M x := by
  unfold hd at h
  injection h with h1 h2
  injection h2 with h2 h3
  injection h3 with h3 h4
  injection h4 with h4 h5
  unfold ls_Calm at *
  rw [← h1, ← h2, ← h3, ← h4, ← h5]; exact hc

theorem ls_Calm.of_old {t : Nat} {M : List Nat} {q : List Message} {x : Message}
    (hq : ∀ y ∈ q, ls_Calm t M y) (h : Old q x) : ls_Calm t M x := by
  obtain ⟨y, hy, e⟩ := h
  exact (hq y hy).congr e

/-- the window invariant -/
structure ls_WInv (t : Nat) (M : List Nat) (s : Sys) : Prop where
  term : ∀ i st, s.node i = some st → st.raft.term ≤ t
  net : ∀ x ∈ s.net, ls_Calm t M x
  que : ∀ i st, s.node i = some st → ∀ x ∈ st.raft.msgs, ls_Calm t M x
  votes : ∀ i st, s.node i = some st → i ∉ M → st.raft.state = .preCandidate → st.raft.term = t →
    ∀ j ∈ M, (j, true) ∉ st.raft.prs.votes

/-- the hypotheses on a state of the window -/
structure ls_Hyp (t : Nat) (M : List Nat) (cfg : JointConfig) (s : Sys) : Prop where
  lease : ∀ j ∈ M, ∃ st, s.node j = some st ∧ st.raft.term = t ∧ st.raft.checkQuorum = true ∧
    st.raft.leaderId ≠ 0 ∧ st.raft.electionElapsed < st.raft.electionTimeout
  pv : ∀ i st, s.node i = some st → i ∉ M → st.raft.preVote = true
  lt : ∀ i st, s.node i = some st → st.raft.leadTransferee = none
  cfg : FixedCfg cfg s

/-- what one call does to the node it is made on, under the window hypotheses -/
theorem ls_call_node {t : Nat} {M : List Nat} {cfg : JointConfig} (hM : IsJointQuorum cfg M)
    (hne : cfg.incoming ≠ [] ∨ cfg.outgoing ≠ []) {s : Sys} (hinv1 : Inv1 s)
    (hw : ls_WInv t M s) (hs : ls_Hyp t M cfg s) {i : Nat} {st st' : NState}
    (hn : s.node i = some st) {op : NodeOp} (hco : CallOut st op st')
    (hmsg : ∀ m, op = .step m → ls_Calm t M m)
    (hpt : i ∈ M → st'.raft.term = t) (hplt : st'.raft.leadTransferee = none) :
    st'.raft.term ≤ t ∧ (∀ x ∈ st'.raft.msgs, ls_Calm t M x) ∧
    (i ∉ M → st'.raft.state = .preCandidate → st'.raft.term = t →
      ∀ j ∈ M, (j, true) ∉ st'.raft.prs.votes) := by
  obtain ⟨⟨m', hl, htag⟩, hrise⟩ := hco
  have hid : st.raft.id = i := (hinv1.ids i st hn).1
  have hterm0 : st.raft.term ≤ t := hw.term i st hn
  have hcfg : st.raft.prs.voters = cfg := hs.cfg i st hn
  -- the tag is a calm delivered message, or a message built by the application
  have hcalm : op = .step m' → ls_Calm t M m' := hmsg m'
  have htag' : (op = .step m' ∧ ls_Calm t M m') ∨ NoReq m' := by
    rcases htag with g | g
    · exact Or.inl ⟨g, hcalm g⟩
    · exact Or.inr g.2
  -- a quorum of grants meets `M`
  have hquorum : ∀ votes : List (Nat × Bool), Tracker.voteResult cfg votes = .won →
      ∃ v ∈ M, (v, true) ∈ votes := by
    intro votes hwon
    have hq := C02_won_gives_joint_quorum cfg votes hwon
    obtain ⟨v, _, hv1, hv2⟩ := joint_quorums_intersect cfg _ M hne hq hM
    exact ⟨v, hv2, mem_granters hv1⟩
  -- (1) the term
  have hterm : st'.raft.term ≤ t := by
    by_cases hiM : i ∈ M
    · rw [hpt hiM]; exact Nat.le_refl _
    · apply Classical.byContradiction
      intro hgt
      have hlt : st.raft.term < st'.raft.term := by omega
      rcases hrise hlt with ⟨m, hop, hcase⟩ | ⟨hr1, hr2⟩
      · have hcm := hmsg m hop
        rcases hcase with ⟨c1, c2, c3, c4⟩ | ⟨c1, c2, c3, c4, c5⟩ | c
        · rcases c4 with c4 | c4
          · rcases hcm.1 with g | g | g
            · omega
            · exact c2 g
            · exact c3 ⟨g.1, g.2.1⟩
          · exact hcm.2.1 c4
        · have hst : st.raft.term = t := by omega
          have hwon : Tracker.voteResult cfg (st.raft.prs.recordVote m.frm (!m.reject)).votes = .won := by
            have := c02_voted_tally st.raft m.frm (!m.reject)
            rw [hcfg] at this
            rw [← this]; exact c4
          obtain ⟨v, hvM, hv⟩ := hquorum _ hwon
          rcases mem_recordVote st.raft.prs m.frm (!m.reject) v hv with g | ⟨g1, g2⟩
          · exact hw.votes i st hn hiM c1 hst v hvM g
          · have hrj : m.reject = false := by simpa using g2
            have hmt : m.term = t + 1 := by
              rcases c5 with c5 | c5
              · rw [hrj] at c5; cases c5
              · rw [c5, hst]
            rcases hcm.1 with q | q | q
            · omega
            · rw [c2] at q; cases q
            · exact q.2.2 hmt (by rw [← g1]; exact hvM)
        · exact hcm.2.1 c
      · rcases hr2 with g | g
        · have := hs.pv i st hn hiM
          rw [this] at g; cases g
        · have hwon : Tracker.voteResult cfg (st.raft.prs.resetVotes.recordVote st.raft.id true).votes = .won := by
            have : Tracker.voteResult st.raft.prs.voters
                (st.raft.prs.resetVotes.recordVote st.raft.id true).votes = .won := g
            rw [hcfg] at this; exact this
          obtain ⟨v, hvM, hv⟩ := hquorum _ hwon
          rcases mem_recordVote st.raft.prs.resetVotes st.raft.id true v hv with q | ⟨q, _⟩
          · cases q
          · exact hiM (by rw [← hid, ← q]; exact hvM)
  refine ⟨hterm, ?_, ?_⟩
  · -- (2) the queue
    intro x hx
    have hold : Old st.raft.msgs x → ls_Calm t M x := ls_Calm.of_old (hw.que i st hn)
    by_cases ht : x.msgType = .msgTimeoutNow
    · rcases hl.tn with g | ⟨_, g⟩
      · exact hold (g x hx ht)
      · exact absurd hplt g
    · rcases hl.msgs x hx with g | ⟨e1, e2⟩
      · exact hold g
      · refine ⟨?_, ht, ?_⟩
        · rcases e2 with q | q | ⟨q1, q2, q3, q4, q5, q6⟩
          · exact Or.inl (Nat.le_trans q hterm)
          · exact Or.inr (Or.inl q)
          · refine Or.inr (Or.inr ⟨q1, q2, fun hxt hxM => q6 ?_⟩)
            have hiM : i ∈ M := by rw [← hid, ← q3]; exact hxM
            obtain ⟨st0, hn0, k1, k2, k3, k4⟩ := hs.lease i hiM
            rw [hn] at hn0; cases hn0
            have hcm : ls_Calm t M m' := by
              rcases htag' with g | g
              · exact g.2
              · exact absurd q4 g.2.1
            refine ⟨by omega, by omega, hcm.2.2 (Or.inr q4), k2, k3, k4⟩
        · intro hxt hctx
          have := e1 hxt hctx
          rcases htag' with g | g
          · exact g.2.2.1 this
          · exact g.1 this
  · -- (3) the recorded pre-vote grants
    intro hiM hpc hst j hjM hj
    rcases hl.pc hpc j hj with g | ⟨g1, g2, g3, g4⟩ | ⟨g1, g2, g3⟩
    · exact hiM (by rw [← hid, ← g]; exact hjM)
    · rcases htag' with q | q
      · rcases q.2.1 with k | k | k
        · rw [hst] at g4; omega
        · rw [g1] at k; cases k
        · exact k.2.2 (by rw [g4, hst]) (by rw [g3]; exact hjM)
      · exact q.2.2 g1
    · exact hw.votes i st hn hiM g1 (g2.trans hst) j hjM g3

/-- replacing one node (and extending the transport by calm messages) -/
theorem ls_WInv.set {t : Nat} {M : List Nat} {s : Sys} (hw : ls_WInv t M s) {i : Nat} {st' : NState}
    (net' : List Message) (hnet : ∀ x ∈ net', ls_Calm t M x)
    (h1 : st'.raft.term ≤ t) (h2 : ∀ x ∈ st'.raft.msgs, ls_Calm t M x)
    (h3 : i ∉ M → st'.raft.state = .preCandidate → st'.raft.term = t →
      ∀ j ∈ M, (j, true) ∉ st'.raft.prs.votes) :
    ls_WInv t M { (s.setNode i st') with net := net' } := by
  have hnode : ∀ k, ({ (s.setNode i st') with net := net' } : Sys).node k = (s.setNode i st').node k :=
    fun _ => rfl
  refine ⟨?_, hnet, ?_, ?_⟩
  · intro k stk hk
    rw [hnode, node_setNode] at hk
    split at hk
    · cases hk; exact h1
    · exact hw.term k stk hk
  · intro k stk hk
    rw [hnode, node_setNode] at hk
    split at hk
    · cases hk; exact h2
    · exact hw.que k stk hk
  · intro k stk hk
    rw [hnode, node_setNode] at hk
    split at hk
    · rename_i hki
      cases hk; rw [hki]; exact h3
    · exact hw.votes k stk hk

theorem ls_appOp {op : NodeOp} (h : appOp op = true) :
    (op ≠ .drain ∧ ∀ m, op ≠ .rstep m) ∧ ∀ m, op ≠ .step m := by
  refine ⟨⟨?_, ?_⟩, ?_⟩
  · intro e; rw [e] at h; cases h
  · intro m e; rw [e] at h; cases h
  · intro m e; rw [e] at h; cases h

/-- **the window invariant is preserved by every step between two states of the window**; a restart
must find a stored term `≤ t` -/
theorem ls_WInv.step {t : Nat} {M : List Nat} {cfg : JointConfig} (hM : IsJointQuorum cfg M)
    (hne : cfg.incoming ≠ [] ∨ cfg.outgoing ≠ []) {s s' : Sys} (hinv1 : Inv1 s)
    (hw : ls_WInv t M s) (hs : ls_Hyp t M cfg s) (hs' : ls_Hyp t M cfg s') (hstep : Step s s')
    (hrs : ∀ k st, s.node k = some st → IsRestart k s s' →
      st.raft.raftLog.store.hardState.term ≤ t) : ls_WInv t M s' := by
  have hpost : ∀ (i : Nat) (st' : NState), s'.node i = some st' →
      (i ∈ M → st'.raft.term = t) ∧ st'.raft.leadTransferee = none := by
    intro i st' hn'
    refine ⟨fun hiM => ?_, hs'.lt i st' hn'⟩
    obtain ⟨st0, hn0, k1, _⟩ := hs'.lease i hiM
    rw [hn'] at hn0; cases hn0; exact k1
  cases hstep with
  | call i st st' rnd op res hn hop hc =>
    obtain ⟨h1, h2⟩ := ls_appOp hop
    have hco := call_out st st' rnd op res h1 hc
    obtain ⟨p1, p2⟩ := hpost i st' (node_setNode_self s i st')
    obtain ⟨q1, q2, q3⟩ := ls_call_node hM hne hinv1 hw hs hn hco
      (fun m hm => absurd hm (h2 m)) p1 p2
    exact hw.set s.net hw.net q1 q2 q3
  | deliver i st st' rnd m res hn hm hto hc =>
    have hco := call_out st st' rnd (.step m) res
      ⟨(fun e => by cases e), (fun _ e => by cases e)⟩ hc
    obtain ⟨p1, p2⟩ := hpost i st' (node_setNode_self s i st')
    obtain ⟨q1, q2, q3⟩ := ls_call_node hM hne hinv1 hw hs hn hco
      (fun m' hm' => by cases hm'; exact hw.net m hm) p1 p2
    exact hw.set s.net hw.net q1 q2 q3
  | send i st st' hn hp hc =>
    obtain ⟨hcore, hmsgs⟩ := drain_eq st st' hc
    have e1 : st'.raft.term = st.raft.term := congrArg NCore.term hcore
    have e2 : st'.raft.state = st.raft.state := congrArg NCore.state hcore
    have e3 : st'.raft.prs.votes = st.raft.prs.votes := congrArg NCore.votes hcore
    refine hw.set (s.net ++ st.raft.msgs) ?_ (by rw [e1]; exact hw.term i st hn)
      (by rw [hmsgs]; intro x hx; cases hx) ?_
    · intro x hx
      rcases List.mem_append.1 hx with g | g
      · exact hw.net x g
      · exact hw.que i st hn x g
    · rw [e1, e2, e3]; exact hw.votes i st hn
  | restart i st st' c rnd hn hci hb =>
    have hbt := boot_booted c _ rnd st' hb
    have hr : IsRestart i s (s.setNode i st') := ⟨st, st', c, rnd, hn, hci, hb, rfl⟩
    refine hw.set s.net hw.net (by rw [hbt.term]; exact hrs i st hn hr)
      (by rw [hbt.msgs]; intro x hx; cases hx) ?_
    intro _ hpc
    rw [hbt.state] at hpc; cases hpc

/-- **the leader of the window stays the leader** -/
theorem ls_lead_step {t : Nat} {M : List Nat} {cfg : JointConfig} {s s' : Sys} {l : Nat}
    (hlM : l ∈ M) (hw' : ls_WInv t M s') (hs' : ls_Hyp t M cfg s') (hstep : Step s s')
    (hl : leads s l t) : leads s' l t := by
  obtain ⟨stl, hnl, hsl, htl⟩ := hl
  obtain ⟨st1, hn1, k1, _, k3, _⟩ := hs'.lease l hlM
  refine ⟨st1, hn1, ?_, k1⟩
  -- a call on `l` itself
  have hcall : ∀ (st' : NState) (op : NodeOp), s'.node l = some st' → CallOut stl op st' →
      st1.raft.state = .leader := by
    intro st' op hn' hco
    rw [hn1] at hn'; cases hn'
    obtain ⟨⟨m', hli, _⟩, _⟩ := hco
    rcases hli.ld hsl with g | g | g
    · exact g.1
    · have := hw'.term l st1 hn1
      omega
    · exact absurd g k3
  have hsame : ∀ (i : Nat) (sti : NState), l ≠ i → s' = s.setNode i sti ∨
      (∃ net', s' = { (s.setNode i sti) with net := net' }) → st1.raft.state = .leader := by
    intro i sti hli hs'eq
    have : s'.node l = s.node l := by
      rcases hs'eq with e | ⟨net', e⟩
      · rw [e]; exact node_setNode_ne s i l sti hli
      · rw [e]; exact node_setNode_ne s i l sti hli
    rw [hn1, hnl] at this
    cases this; exact hsl
  cases hstep with
  | call i st st' rnd op res hn hop hc =>
    by_cases hli : l = i
    · subst hli
      rw [hnl] at hn; cases hn
      exact hcall st' op (node_setNode_self s l st') (call_out _ _ rnd op res (ls_appOp hop).1 hc)
    · exact hsame i st' hli (Or.inl rfl)
  | deliver i st st' rnd m res hn hm hto hc =>
    by_cases hli : l = i
    · subst hli
      rw [hnl] at hn; cases hn
      exact hcall st' _ (node_setNode_self s l st')
        (call_out _ _ rnd (.step m) res ⟨(fun e => by cases e), (fun _ e => by cases e)⟩ hc)
    · exact hsame i st' hli (Or.inl rfl)
  | send i st st' hn hp hc =>
    by_cases hli : l = i
    · subst hli
      rw [hnl] at hn; cases hn
      obtain ⟨hcore, _⟩ := drain_eq stl st' hc
      have hn' : ({ (s.setNode l st') with net := s.net ++ stl.raft.msgs } : Sys).node l = some st' :=
        node_setNode_self s l st'
      rw [hn1] at hn'; cases hn'
      exact (congrArg NCore.state hcore).trans hsl
    · exact hsame i st' hli (Or.inr ⟨_, rfl⟩)
  | restart i st st' c rnd hn hci hb =>
    by_cases hli : l = i
    · subst hli
      have hn' := node_setNode_self s l st'
      rw [hn1] at hn'; cases hn'
      exact absurd (ls_boot_leaderId hb) k3
    · exact hsame i st' hli (Or.inl rfl)

end Cluster
end RaftModel
