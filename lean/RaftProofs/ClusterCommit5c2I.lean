import RaftProofs.ClusterCommit5c2H

/-!
Cluster-level commit safety **with `batch_append`** (copy of `ClusterCommit2I.lean` over `Hyp2wB`), part 2I: facts about commit events and about the logs of the leader of
one term at different times.
-/
namespace RaftModel
namespace ClusterB
open Node Raft Raft.CC Raft.CB Raft.Bt Cluster RaftProps.C02 RaftProps.C05

variable {cfg : JointConfig} {c0 : Nat} {h : List Sys}

/-- a log of the history: the logical log of node `i` in `h[n]` -/
theorem at_log {s : Sys} {i : Nat} {st : NState} (hi : s.node i = some st) :
    At s (.log i) st.raft.raftLog.abs := ⟨st, hi, rfl⟩

/-- two logs of the history that hold entries of the same term at `q` are equal up to `q` -/
theorem logs_eq_below (H : Hyp2wB cfg c0 h) {n n' : Nat} {s s' : Sys} (hn : h[n]? = some s)
    (hn' : h[n']? = some s') {i j : Nat} {st st' : NState} (hi : s.node i = some st)
    (hj : s'.node j = some st') {q : Nat} {e1 e2 : Entry}
    (h1 : st.raft.raftLog.abs.entryAt q = some e1) (h2 : st'.raft.raftLog.abs.entryAt q = some e2)
    (ht : e1.term = e2.term) :
    ∀ k, k ≤ q → st.raft.raftLog.abs.entryAt k = st'.raft.raftLog.abs.entryAt k :=
  eq_below (agree_all H n n' s s' hn hn' _ _ _ _ (at_log hi) (at_log hj))
    ((node_okB H hn hi).snapIdx.trans (node_okB H hn' hj).snapIdx.symm) h1 h2 ht

/-- the logs of the leader of term `t` at two points of the history hold the same entry at every
index both reach -/
theorem leader_logs_eq (H : Hyp2wB cfg c0 h) {n n' : Nat} {s s' : Sys} (hn : h[n]? = some s)
    (hn' : h[n']? = some s') {l l' t : Nat} {st st' : NState} (hk : s.node l = some st)
    (hk' : s'.node l' = some st') (hs : st.raft.state = .leader) (hs' : st'.raft.state = .leader)
    (ht : st.raft.term = t) (ht' : st'.raft.term = t) {k : Nat}
    (h1 : k ≤ st.raft.raftLog.abs.lastIndex) (h2 : k ≤ st'.raft.raftLog.abs.lastIndex) :
    st.raft.raftLog.abs.entryAt k = st'.raft.raftLog.abs.entryAt k := by
  have o1 := node_okB H hn hk
  have o2 := node_okB H hn' hk'
  by_cases hk0 : k ≤ c0
  · unfold LLog.entryAt
    rw [if_pos (by rw [o1.snapIdx]; exact hk0), if_pos (by rw [o2.snapIdx]; exact hk0)]
  · obtain ⟨e, he⟩ := st.raft.raftLog.abs.entryAt_exists (i := k) (by rw [o1.snapIdx]; omega) h1
    obtain ⟨e', he'⟩ := st'.raft.raftLog.abs.entryAt_exists (i := k) (by rw [o2.snapIdx]; omega) h2
    rcases Nat.le_total n n' with hle | hle
    · obtain ⟨d, rfl⟩ := Nat.exists_eq_add_of_le hle
      obtain ⟨_, _, hkept, _⟩ := leader_log_ext H hn hn' hk hk' hs hs' ht ht'
      rw [he, hkept k e he (by rw [o2.snapIdx]; omega)]
    · obtain ⟨d, rfl⟩ := Nat.exists_eq_add_of_le hle
      obtain ⟨_, _, hkept, _⟩ := leader_log_ext H hn' hn hk' hk hs' hs ht' ht
      rw [he', hkept k e' he' (by rw [o1.snapIdx]; omega)]

/-- what a commit event gives: the committing leader's state after the step -/
theorem Ev.facts (H : Hyp2wB cfg c0 h) {E : Ev} (hE : E.ok h) :
    ∃ a b sta stb, h[E.nE]? = some a ∧ h[E.nE + 1]? = some b ∧ a.node E.l = some sta ∧
      b.node E.l = some stb ∧ stb.raft.state = .leader ∧ stb.raft.term = E.t ∧
      E.c = stb.raft.raftLog.committed ∧ E.gE = stb.raft.raftLog.abs ∧
      E.pE = stb.raft.raftLog.persisted ∧ sta.raft.raftLog.committed < E.c ∧ c0 < E.c ∧
      Has E.gE E.c E.t ∧
      ∃ Q, IsJointQuorum cfg Q ∧ ∀ j ∈ Q, (j = E.l ∧ E.c ≤ E.pE) ∨ Anet a.net j E.t E.c := by
  obtain ⟨a, b, sta, stb, ha, hb, hla, hlb, hs, ht, hc, e1, e2, e3⟩ := hE
  obtain ⟨hterm, Q, hQ, hq⟩ := H.toHypB.commit_step E.nE a b ha hb E.l sta stb hla hlb hs hc
  have oa := node_okB H ha hla
  have ob := node_okB H hb hlb
  have hc0 : c0 < E.c := by
    have := oa.inv.dummy_le_committed
    rw [oa.inv.firstIndex_abs] at this
    simp only [LLog.firstIndex] at this
    rw [oa.snapIdx] at this
    omega
  refine ⟨a, b, sta, stb, ha, hb, hla, hlb, hs, ht, e1, e2, e3, by rw [e1]; exact hc, hc0, ?_,
    Q, hQ, fun j hj => ?_⟩
  · -- the entry at the new commit index carries the leader's term
    rw [ob.inv.term_abs] at hterm
    have hle := ob.inv.committed_le_last
    rw [ob.inv.lastIndex_abs] at hle
    obtain ⟨e, he⟩ := stb.raft.raftLog.abs.entryAt_exists (i := stb.raft.raftLog.committed)
      (by rw [ob.snapIdx, ← e1]; exact hc0) hle
    rw [stb.raft.raftLog.abs.term_of_entry he] at hterm
    rw [e2, e1]
    exact ⟨e, he, by injection hterm with hterm; rw [hterm, ht]⟩
  · rw [e1, e3, ← ht]; exact hq j hj

end ClusterB
end RaftModel
