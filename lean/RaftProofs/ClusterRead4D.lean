import RaftProofs.ClusterRead4C
import RaftProofs.ConfChange

/-!
Cluster-level ReadIndex safety, helper lemmas part D: the operations of `ReadOnly`
(`add_request`, `recv_ack`, `advance`) and `respond_read_states` / `handle_ready_read_index`.
-/
namespace RaftModel
namespace Raft
namespace RD
namespace R4

/-- the request context a `MsgReadIndex` carries -/
def reqCtx (req : Message) : Option Bytes := req.entries.head?.map (·.data)

theorem rd_lookup_mem {β : Type} : ∀ (l : List (Bytes × β)) (k : Bytes) (v : β),
    l.lookup k = some v → (k, v) ∈ l := by
  intro l
  induction l with
  | nil => intro k v h; simp [List.lookup] at h
  | cons p rest ih =>
    intro k v h
    obtain ⟨k', v'⟩ := p
    rw [List.lookup_cons] at h
    by_cases hk : k = k'
    · subst hk
      simp at h
      subst h
      exact List.mem_cons_self
    · have : (k == k') = false := by simpa using hk
      rw [this] at h
      exact List.mem_cons_of_mem _ (ih k v h)

theorem rd_lookup_none {β : Type} : ∀ (l : List (Bytes × β)) (k : Bytes),
    l.lookup k = none → ∀ v, (k, v) ∉ l := by
  intro l
  induction l with
  | nil => intro k _ v h; cases h
  | cons p rest ih =>
    intro k h v hm
    obtain ⟨k', v'⟩ := p
    rw [List.lookup_cons] at h
    by_cases hk : k = k'
    · subst hk; simp at h
    · have : (k == k') = false := by simpa using hk
      rw [this] at h
      rcases List.mem_cons.1 hm with g | g
      · injection g with g1 _; exact hk g1
      · exact ih k h v g

/-! ### `recv_ack` -/

theorem recvAck_spec (ro : ReadOnly) (id : Nat) (K : Bytes) :
    (ro.recvAck id K).1.option = ro.option ∧
    (ro.recvAck id K).1.readIndexQueue = ro.readIndexQueue ∧
    (∀ K' rs, (K', rs) ∈ (ro.recvAck id K).1.pendingReadIndex →
      (∃ rs0, (K', rs0) ∈ ro.pendingReadIndex ∧ rs.req = rs0.req ∧ rs.index = rs0.index) ∧
      ∀ u ∈ rs.acks, (u = id ∧ K' = K) ∨ ∃ rsA, (K', rsA) ∈ ro.pendingReadIndex ∧ u ∈ rsA.acks) ∧
    (∀ acks, (ro.recvAck id K).2 = some acks →
      ∃ rsA, (K, rsA) ∈ ro.pendingReadIndex ∧ ∀ u ∈ acks, u = id ∨ u ∈ rsA.acks) := by
  unfold ReadOnly.recvAck
  split
  · refine ⟨rfl, rfl, fun K' rs h => ⟨⟨rs, h, rfl, rfl⟩, fun u hu => .inr ⟨rs, h, hu⟩⟩, ?_⟩
    intro acks h; cases h
  · rename_i rsA hl
    have hmem := rd_lookup_mem _ _ _ hl
    refine ⟨rfl, rfl, fun K' rs h => ?_, ?_⟩
    · dsimp only at h
      obtain ⟨p, hp, e⟩ := List.mem_map.1 h
      by_cases hk : p.1 = K
      · rw [if_pos hk] at e
        injection e with e1 e2
        subst e2
        refine ⟨⟨p.2, by rw [← e1]; exact hp, rfl, rfl⟩, fun u hu => ?_⟩
        rcases RaftProofs.ConfChange.mem_insert.1 hu with g | g
        · exact .inl ⟨g, by rw [← e1]; exact hk⟩
        · right
          refine ⟨rsA, ?_, g⟩
          rw [← e1, hk]; exact hmem
      · rw [if_neg hk] at e
        subst e
        exact ⟨⟨rs, hp, rfl, rfl⟩, fun u hu => .inr ⟨rs, hp, hu⟩⟩
    · intro acks h
      dsimp only at h
      injection h with h
      subst h
      exact ⟨rsA, hmem, fun u hu => RaftProofs.ConfChange.mem_insert.1 hu⟩

/-! ### `advance` -/

theorem findPos_spec (ro : ReadOnly) (K : Bytes) : ∀ (q : List Bytes) (i j : Nat),
    ro.findPos K q i = .ok (some j) → ∃ p, j = i + p ∧ q[p]? = some K := by
  intro q
  induction q with
  | nil => intro i j h; simp [ReadOnly.findPos] at h
  | cons x rest ih =>
    intro i j h
    unfold ReadOnly.findPos at h
    split at h
    · cases h
    · split at h
      · rename_i hx
        injection h with h
        injection h with h
        exact ⟨0, by omega, by simp [hx]⟩
      · obtain ⟨p, hp, hq⟩ := ih (i + 1) j h
        exact ⟨p + 1, by omega, by simpa using hq⟩

theorem popN_spec : ∀ (n : Nat) (ro : ReadOnly) (acc : List ReadIndexStatus) (ro' : ReadOnly)
    (out : List ReadIndexStatus), ReadOnly.popN n ro acc = .ok (ro', out) →
    ro'.option = ro.option ∧ ro'.readIndexQueue = ro.readIndexQueue.drop n ∧
    (∀ p ∈ ro'.pendingReadIndex, p ∈ ro.pendingReadIndex) ∧
    ∃ popped, out = acc ++ popped ∧ ∀ rs ∈ popped, ∃ (p : Nat) (Kp : Bytes), p < n ∧
      ro.readIndexQueue[p]? = some Kp ∧ (Kp, rs) ∈ ro.pendingReadIndex := by
  intro n
  induction n with
  | zero =>
    intro ro acc ro' out h
    simp only [ReadOnly.popN] at h
    injection h with h
    injection h with h1 h2
    subst h1; subst h2
    exact ⟨rfl, rfl, fun p hp => hp, [], by simp, fun rs hrs => by cases hrs⟩
  | succ n ih =>
    intro ro acc ro' out h
    unfold ReadOnly.popN at h
    split at h
    · cases h
    · rename_i x rest hq
      split at h
      · cases h
      · rename_i st hl
        obtain ⟨h1, h2, h3, popped, h4, h5⟩ := ih _ _ _ _ h
        have hsub : ∀ p ∈ ro.pendingReadIndex.filter (fun p => p.1 != x),
            p ∈ ro.pendingReadIndex := fun p hp => (List.mem_filter.1 hp).1
        refine ⟨h1, ?_, fun p hp => hsub p (h3 p hp), [st] ++ popped, ?_, ?_⟩
        · rw [h2, hq]; rfl
        · rw [h4]; simp
        · intro rs hrs
          rcases List.mem_append.1 hrs with g | g
          · rw [List.mem_singleton.1 g]
            exact ⟨0, x, Nat.succ_pos _, by rw [hq]; rfl, rd_lookup_mem _ _ _ hl⟩
          · obtain ⟨p, Kp, g1, g2, g3⟩ := h5 rs g
            exact ⟨p + 1, Kp, by omega, by rw [hq]; simpa using g2, hsub _ g3⟩

theorem advance_spec {ro ro' : ReadOnly} {K : Bytes} {rss : List ReadIndexStatus}
    (h : ro.advance K = .ok (ro', rss)) :
    ro'.option = ro.option ∧ (∃ d, ro'.readIndexQueue = ro.readIndexQueue.drop d) ∧
    (∀ p ∈ ro'.pendingReadIndex, p ∈ ro.pendingReadIndex) ∧
    ∀ rs ∈ rss, ∃ (p i : Nat) (Kp : Bytes), p ≤ i ∧ ro.readIndexQueue[i]? = some K ∧
      ro.readIndexQueue[p]? = some Kp ∧ (Kp, rs) ∈ ro.pendingReadIndex := by
  unfold ReadOnly.advance at h
  split at h
  · rename_i i hf
    obtain ⟨p0, hp0, hq0⟩ := findPos_spec ro K _ _ _ hf
    obtain ⟨h1, h2, h3, popped, h4, h5⟩ := popN_spec _ _ _ _ _ h
    refine ⟨h1, ⟨_, h2⟩, h3, fun rs hrs => ?_⟩
    rw [h4, List.nil_append] at hrs
    obtain ⟨p, Kp, g1, g2, g3⟩ := h5 rs hrs
    exact ⟨p, i, Kp, by omega, by rw [← hq0]; congr 1; omega, g2, g3⟩
  · injection h with h
    injection h with h1 h2
    subst h1; subst h2
    exact ⟨rfl, ⟨0, rfl⟩, fun p hp => hp, fun rs hrs => by cases hrs⟩
  · cases h
  · cases h

/-! ### the per-call invariant of the read path -/

/-- the delivered message is a heartbeat response of `u` for the context `K` and the term `t` (or one
without a term) -/
def AckBy (m : Message) (u : Nat) (K : Bytes) (t : Nat) : Prop :=
  m.msgType = .msgHeartbeatResponse ∧ m.frm = u ∧ m.context = K ∧ (m.term = t ∨ m.term = 0)

/-- who may be counted as having acknowledged `K` during a call that started in `a` with input `m`:
the node itself, the sender of the delivered heartbeat response, whoever was counted before -/
def AckOk (a : Raft) (m : Message) (K : Bytes) (u : Nat) : Prop :=
  u = a.id ∨ AckBy m u K a.term ∨ ∃ rsA, (K, rsA) ∈ a.readOnly.pendingReadIndex ∧ u ∈ rsA.acks

/-- the read state `x` answers a request `K` that was pending in `a`; it was released because the
joint quorum `acks` of `V` has acknowledged a request `Kack` that is not before `K` in the queue -/
def Ans (V : JointConfig) (a : Raft) (m : Message) (x : ReadState) : Prop :=
  ∃ (K : Bytes) (rs0 : ReadIndexStatus) (Kack : Bytes) (acks : List Nat) (p i : Nat),
    (K, rs0) ∈ a.readOnly.pendingReadIndex ∧ reqCtx rs0.req = some x.requestCtx ∧
    x.index = rs0.index ∧ (rs0.req.frm = 0 ∨ rs0.req.frm = a.id) ∧
    a.readOnly.readIndexQueue[p]? = some K ∧ a.readOnly.readIndexQueue[i]? = some Kack ∧ p ≤ i ∧
    Tracker.hasQuorum V acks = true ∧ ∀ u ∈ acks, AckOk a m Kack u

/-- a heartbeat queued during the call carries no context or one of the queue -/
def HbOk (a : Raft) (x : Message) : Prop :=
  x.msgType = .msgHeartbeat ∧ (x.context = [] ∨ x.context ∈ a.readOnly.readIndexQueue)

/-- a heartbeat response queued during the call answers the delivered heartbeat -/
def HbrOk (a : Raft) (m x : Message) : Prop :=
  x.msgType = .msgHeartbeatResponse ∧ m.msgType = .msgHeartbeat ∧ x.context = m.context ∧
    x.frm = a.id ∧ a.term ≤ x.term

/-- a `MsgReadIndexResp` queued during the call answers a request `K` that was pending in `a` and was
filed by another node (`to = req.from`, `index` = the recorded read index, `entries` = those of the
request); it was released because the joint quorum `acks` of `V` has acknowledged a request `Kack` that
is not before `K` in the queue -/
def RirOk (V : JointConfig) (a : Raft) (m : Message) (x : Message) : Prop :=
  x.msgType = .msgReadIndexResp ∧
  ∃ (K : Bytes) (rs0 : ReadIndexStatus) (Kack : Bytes) (acks : List Nat) (p i : Nat),
    (K, rs0) ∈ a.readOnly.pendingReadIndex ∧ x.entries = rs0.req.entries ∧
    x.index = rs0.index ∧ x.to = rs0.req.frm ∧
    a.readOnly.readIndexQueue[p]? = some K ∧ a.readOnly.readIndexQueue[i]? = some Kack ∧ p ≤ i ∧
    Tracker.hasQuorum V acks = true ∧ ∀ u ∈ acks, AckOk a m Kack u

/-- `r` is an intermediate state of a call that started in `a` with input message `m` (which is not a
`MsgReadIndex` and not a `MsgSnapshot`) -/
structure RInv (a : Raft) (m : Message) (r : Raft) : Prop where
  id : r.id = a.id
  tle : a.term ≤ r.term
  opt : r.readOnly.option = a.readOnly.option
  pend : ∀ K rs, (K, rs) ∈ r.readOnly.pendingReadIndex → r.term = a.term ∧
    (∃ rs0, (K, rs0) ∈ a.readOnly.pendingReadIndex ∧ rs.req = rs0.req ∧ rs.index = rs0.index) ∧
    ∀ u ∈ rs.acks, AckOk a m K u
  queue : ∃ d, r.readOnly.readIndexQueue = a.readOnly.readIndexQueue.drop d
  conf : r.prs.conf = a.prs.conf
  rst : ∀ x ∈ r.readStates, x ∈ a.readStates ∨ m.msgType = .msgReadIndexResp ∨
    Ans a.prs.voters a m x
  msgs : ∀ x ∈ r.msgs, x ∈ a.msgs ∨ rdT x.msgType = false ∨ HbOk a x ∨ HbrOk a m x ∨
    RirOk a.prs.voters a m x

theorem RInv.refl (a : Raft) (m : Message) : RInv a m a :=
  ⟨rfl, Nat.le_refl _, rfl,
    fun _ rs h => ⟨rfl, ⟨rs, h, rfl, rfl⟩, fun _ hu => .inr (.inr ⟨rs, h, hu⟩)⟩,
    ⟨0, rfl⟩, rfl, fun _ h => .inl h, fun _ h => .inl h⟩

theorem RInv.rs {a r r' : Raft} {m : Message} (h : RInv a m r) (hs : RS r r') : RInv a m r' := by
  refine ⟨hs.id.trans h.id, Nat.le_trans h.tle hs.tle, hs.option.trans h.opt, ?_, ?_,
    hs.conf.trans h.conf, ?_, ?_⟩
  · intro K rs hm
    rcases hs.keep with ⟨g1, g2⟩ | g
    · rw [g1] at hm
      obtain ⟨k1, k2⟩ := h.pend K rs hm
      exact ⟨g2.trans k1, k2⟩
    · rw [g] at hm; cases hm
  · rcases hs.keep with ⟨g1, _⟩ | g
    · rw [g1]; exact h.queue
    · exact ⟨a.readOnly.readIndexQueue.length, by rw [g, List.drop_length]; rfl⟩
  · rw [hs.rs]; exact h.rst
  · intro x hx
    by_cases hr : rdT x.msgType = false
    · exact .inr (.inl hr)
    · have : x ∈ rdOf r'.msgs := mem_rdOf.2 ⟨hx, by simpa [isRd] using hr⟩
      rw [hs.rd] at this
      exact h.msgs x (mem_rdOf.1 this).1

theorem RInv.rf {a r r' : Raft} {m : Message} (h : RInv a m r) (hf : RF r r') : RInv a m r' :=
  h.rs hf.toRS

/-- what `send` fills into a heartbeat / heartbeat response built without sender -/
theorem sendFill_rd (r : Raft) (x : Message) (hf : x.frm = 0) (ht : rdT x.msgType = true) :
    (r.sendFill x).frm = r.id ∧ (x.msgType ≠ .msgReadIndex → (r.sendFill x).term = r.term) ∧
    (r.sendFill x).msgType = x.msgType ∧ (r.sendFill x).context = x.context := by
  unfold sendFill
  cases hm : x.msgType <;> rw [hm] at ht <;> simp_all [rdT, isVoteMsg]

/-- queueing one message -/
theorem RInv.send {a r r' : Raft} {m x : Message} (h : RInv a m r) (hsend : r.send x = .ok r')
    (hx : rdT x.msgType = false ∨ HbOk a (r.sendFill x) ∨ HbrOk a m (r.sendFill x)) :
    RInv a m r' := by
  rw [send_eq r r' x hsend]
  refine ⟨h.id, h.tle, h.opt, h.pend, h.queue, h.conf, h.rst, ?_⟩
  intro y hy
  rcases List.mem_append.1 hy with g | g
  · exact h.msgs y g
  · rw [List.mem_singleton.1 g]
    rcases hx with c | c | c
    · exact .inr (.inl (by rw [sendFill_msgType]; exact c))
    · exact .inr (.inr (.inl c))
    · exact .inr (.inr (.inr (.inl c)))

/-! ### `handle_heartbeat` -/

theorem handleHeartbeat_rinv {a r : Raft} {m : Message} (h : RInv a m r)
    (hm : m.msgType = .msgHeartbeat) :
    Res.Post (fun x => RInv a m x) (r.handleHeartbeat m) := by
  unfold handleHeartbeat
  split
  · trivial
  · trivial
  · rename_i log hc
    have h1 : RInv a m { r with raftLog := log } := h.rf (by simp [RF, rcore])
    dsimp only
    split
    · exact Res.post_mono (sendRequestSnapshot_rf _) (fun x hx => h1.rf hx)
    · apply Res.post_intro
      intro r' hs
      refine h1.send hs (.inr (.inr ?_))
      obtain ⟨f1, f2, f3, f4⟩ := sendFill_rd ({ r with raftLog := log } : Raft)
        { msgType := .msgHeartbeatResponse, to := m.frm, context := m.context,
          commit := log.committed } rfl rfl
      exact ⟨f3, hm, f4, f1.trans h.id, by rw [f2 (by simp)]; exact h.tle⟩

/-! ### broadcasting heartbeats -/

theorem foldl_post {β : Type} (I : Raft → Prop) (g : Raft → β → Res Raft) :
    ∀ (l : List β), (∀ r b, b ∈ l → I r → Res.Post I (g r b)) → ∀ (acc : Res Raft),
      Res.Post I acc → Res.Post I (l.foldl (fun acc b => acc.bind (fun r => g r b)) acc) := by
  intro l
  induction l with
  | nil => intro _ acc h; exact h
  | cons b rest ih =>
    intro hg acc h
    simp only [List.foldl_cons]
    apply ih (fun r b' hb' => hg r b' (List.mem_cons_of_mem _ hb'))
    exact Res.post_bind h (fun x hx => hg x b List.mem_cons_self hx)

theorem forEachPeer_post (I : Raft → Prop)
    (f : Raft → Nat → Progress → Res (Raft × Progress))
    (hf : ∀ r id pr, I r → Res.Post (fun x => I x.1) (f r id pr))
    (hset : ∀ r id pr, I r → I { r with prs := r.prs.set id pr }) (r : Raft) (h : I r) :
    Res.Post I (r.forEachPeer f) := by
  unfold forEachPeer
  apply foldl_post I (fun r id => if id = r.id then .ok r
      else match r.prs.get id with
        | none => .ok r
        | some pr => (f r id pr).bind (fun (r, pr) => .ok { r with prs := r.prs.set id pr }))
  · intro r1 id _ h1
    dsimp only
    split
    · exact h1
    · split
      · exact h1
      · exact Res.post_bind (hf r1 id _ h1) (fun x hx => by
          simp only [Res.Post]; exact hset _ _ _ hx)
  · exact h

/-- `bcast_heartbeat_with_ctx`: only heartbeats with the given context are queued -/
theorem bcastHeartbeatWithCtx_out (r : Raft) (ctx : Option Bytes) :
    Res.Post (fun r' => rcore r' = rcore r ∧ ∀ x ∈ r'.msgs, x ∈ r.msgs ∨
        (x.msgType = .msgHeartbeat ∧ x.context = ctx.getD [])) (r.bcastHeartbeatWithCtx ctx) := by
  unfold bcastHeartbeatWithCtx
  apply forEachPeer_post (fun r' => rcore r' = rcore r ∧ ∀ x ∈ r'.msgs, x ∈ r.msgs ∨
        (x.msgType = .msgHeartbeat ∧ x.context = ctx.getD []))
  · intro r1 id pr h1
    unfold sendHeartbeat
    apply Res.post_bind (P := fun r' => rcore r' = rcore r ∧ ∀ x ∈ r'.msgs, x ∈ r.msgs ∨
        (x.msgType = .msgHeartbeat ∧ x.context = ctx.getD []))
    · apply Res.post_intro
      intro r2 hs
      rw [send_eq r1 r2 _ hs]
      refine ⟨h1.1, fun x hx => ?_⟩
      rcases List.mem_append.1 hx with g | g
      · exact h1.2 x g
      · rw [List.mem_singleton.1 g]
        obtain ⟨_, _, f3, f4⟩ := sendFill_rd r1
          { msgType := .msgHeartbeat, to := id, commit := min pr.matched r1.raftLog.committed,
            context := ctx.getD [] } rfl rfl
        exact .inr ⟨f3, f4⟩
    · intro x hx; exact hx
  · intro r1 id pr h1
    exact ⟨by rw [← h1.1]; simp [rcore, ProgressTracker.set], h1.2⟩
  · exact ⟨rfl, fun x hx => .inl hx⟩

theorem bcastHeartbeatWithCtx_rinv {a r : Raft} {m : Message} (h : RInv a m r)
    (ctx : Option Bytes) (hc : ctx.getD [] = [] ∨ ctx.getD [] ∈ a.readOnly.readIndexQueue) :
    Res.Post (fun x => RInv a m x) (r.bcastHeartbeatWithCtx ctx) := by
  apply Res.post_mono (bcastHeartbeatWithCtx_out r ctx)
  intro r' ⟨h1, h2⟩
  have e1 : r'.readOnly = r.readOnly := congrArg RCore.ro h1
  have e2 : r'.term = r.term := congrArg RCore.term h1
  have e3 : r'.readStates = r.readStates := congrArg RCore.rs h1
  have e4 : r'.id = r.id := congrArg RCore.id h1
  have e5 : r'.prs.conf = r.prs.conf := congrArg RCore.conf h1
  refine ⟨e4.trans h.id, by rw [e2]; exact h.tle, by rw [e1]; exact h.opt, ?_, by rw [e1]; exact h.queue,
    e5.trans h.conf, by rw [e3]; exact h.rst, ?_⟩
  · intro K rs hm
    rw [e1] at hm
    rw [e2]
    exact h.pend K rs hm
  · intro x hx
    rcases h2 x hx with g | ⟨g1, g2⟩
    · exact h.msgs x g
    · exact .inr (.inr (.inl ⟨g1, by rw [g2]; exact hc⟩))

theorem bcastHeartbeat_rinv {a r : Raft} {m : Message} (h : RInv a m r) :
    Res.Post (fun x => RInv a m x) r.bcastHeartbeat := by
  unfold bcastHeartbeat
  apply bcastHeartbeatWithCtx_rinv h
  unfold ReadOnly.lastPendingRequestCtx
  cases hl : r.readOnly.readIndexQueue.getLast? with
  | none => exact .inl rfl
  | some c =>
    right
    obtain ⟨d, hd⟩ := h.queue
    have : c ∈ r.readOnly.readIndexQueue := List.mem_of_getLast? hl
    rw [hd] at this
    exact List.mem_of_mem_drop this

end R4
end RD
end Raft
end RaftModel
