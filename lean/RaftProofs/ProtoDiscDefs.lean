import RaftModel.ProtoDisc
import RaftProofs.ProtoCfg

/-!
The discipline layer **PD** over PC (`RaftModel/ProtoDisc.lean`) — definitions and basic lemmas.

* `One l c`: the list `l` holds at most one membership-change entry beyond index `c`;
* what an accepted event of PD is, event by event (`stepD_*`);
* `reach_pc`: every PD history is a PC history.
-/
namespace RaftModel.P

/-! ### "at most one membership-change entry beyond index `c`" -/

def One (l : List LEntry) (c : Nat) : Prop := confCount l ≤ confCount (l.take c) + 1

theorem One.mono {l : List LEntry} {c c' : Nat} (h : One l c) (hc : c ≤ c') : One l c' := by
  unfold One at *
  have := confCount_take_mono l hc
  omega

theorem One.of_len {l : List LEntry} {c : Nat} (h : l.length ≤ c) : One l c := by
  unfold One
  rw [List.take_of_length_le h]
  omega

theorem One.take {l : List LEntry} {c : Nat} (h : One l c) (K : Nat) : One (l.take K) c := by
  unfold One at *
  rw [List.take_take]
  by_cases hk : c ≤ K
  · rw [Nat.min_eq_left hk]
    have := confCount_take_le l K
    omega
  · rw [Nat.min_eq_right (by omega)]
    omega

theorem confCount_snoc (l : List LEntry) (e : LEntry) :
    confCount (l ++ [e]) = confCount l + (if isConf e then 1 else 0) := by
  rw [confCount_append]
  congr 1
  unfold confCount
  by_cases h : isConf e <;> simp [h]

/-- no membership-change entry beyond `a`: the counts agree from `a` on -/
theorem confCount_take_ge {l : List LEntry} {a b : Nat} (h : confCount l = confCount (l.take a)) (hab : a ≤ b) :
    confCount (l.take b) = confCount l := by
  have h1 := confCount_take_mono l hab
  have h2 := confCount_take_le l b
  omega

/-- a node's commit index lies inside its log -/
theorem commit_le_len {s : PSys} (h3 : InvC3 s) (i : Nat) : (s.nodes i).commit ≤ (s.nodes i).log.length := by
  rcases h3.cm i with h0 | ⟨p, hp, h1, _, h2⟩
  · omega
  · have := (h3.cq p hp).2.1
    exact len_of_take_eq h2 (by omega)

/-! ### accepted events of PD, unpacked -/

theorem liftC_ok {D D' : DSys} {r : Except String CSys} (h : liftC D r = .ok D') :
    ∃ S, r = .ok S ∧ D' = { D with pc := S } := by
  cases r with
  | ok S => simp only [liftC] at h; injection h with h; exact ⟨S, rfl, h.symm⟩
  | error x => simp [liftC] at h

/-- an accepted `.base e` of PC is an accepted event of P -/
theorem baseC_ok {S S' : CSys} {e : Event} (h : applyEventC S (.base e) = .ok S') :
    isWinOrCommit e = false ∧ ∃ b, applyEvent S.base e = .ok b ∧ S' = { S with base := b } := by
  simp only [applyEventC] at h
  split at h
  · cases h
  · rename_i hw
    split at h
    · rename_i b hb
      injection h with h
      exact ⟨by simpa using hw, b, hb, h.symm⟩
    · cases h

theorem stepD_pc {D D' : DSys} {e : CEvent} (h : applyEventD D (.pc e) = .ok D') :
    refined e = false ∧ ∃ S, applyEventC D.pc e = .ok S ∧ D' = { D with pc := S } := by
  simp only [applyEventD] at h
  split at h
  · cases h
  · rename_i hr
    exact ⟨by simpa using hr, liftC_ok h⟩

theorem stepD_apply {D D' : DSys} {i k : Nat} (h : applyEventD D (.apply i k) = .ok D') :
    (D.pc.base.nodes i).up = true ∧ D.applied i ≤ k ∧ k ≤ (D.pc.base.nodes i).commit ∧
    D' = { D with applied := updN D.applied i k } := by
  simp only [applyEventD] at h
  split at h
  · rename_i hg
    injection h with h
    exact ⟨hg.1, hg.2.1, hg.2.2, h.symm⟩
  · cases h

theorem stepD_restart {D D' : DSys} {i a : Nat} (h : applyEventD D (.restart i a) = .ok D') :
    a ≤ (D.pc.base.nodes i).dcommit ∧ ∃ S, applyEventC D.pc (.base (.restart i)) = .ok S ∧
    D' = { D with pc := S, applied := updN D.applied i a } := by
  simp only [applyEventD] at h
  split at h
  · rename_i hg
    split at h
    · rename_i S hS
      injection h with h
      exact ⟨hg, S, hS, h.symm⟩
    · cases h
  · cases h

theorem stepD_campaign {D D' : DSys} {i : Nat} (h : applyEventD D (.campaign i) = .ok D') :
    D.applied i ≤ (D.pc.base.nodes i).commit ∧
    confCount ((D.pc.base.nodes i).log.take (D.pc.base.nodes i).commit) =
      confCount ((D.pc.base.nodes i).log.take (D.applied i)) ∧
    ∃ S, applyEventC D.pc (.base (.campaign i)) = .ok S ∧ D' = { D with pc := S } := by
  simp only [applyEventD] at h
  split at h
  · rename_i hg
    exact ⟨hg.1, hg.2, liftC_ok h⟩
  · cases h

theorem stepD_win {D D' : DSys} {i : Nat} {cfg : Cfg} {q : List Nat} {applied : Nat}
    (h : applyEventD D (.win i cfg q applied) = .ok D') :
    applied = D.applied i ∧ ∃ S, applyEventC D.pc (.win i cfg q applied) = .ok S ∧
    D' = { D with pc := S, pconf := updN D.pconf i (D.pc.base.nodes i).log.length } := by
  simp only [applyEventD] at h
  split at h
  · rename_i hg
    split at h
    · rename_i S hS
      injection h with h
      exact ⟨hg, S, hS, h.symm⟩
    · cases h
  · cases h

theorem stepD_leaderAppend {D D' : DSys} {i : Nat} {e : LEntry} (h : applyEventD D (.leaderAppend i e) = .ok D') :
    ∃ S, applyEventC D.pc (.base (.leaderAppend i e)) = .ok S ∧
    ((isConf e = true ∧ D.pconf i ≤ D.applied i ∧
        D' = { D with pc := S, pconf := updN D.pconf i ((D.pc.base.nodes i).log.length + 1) }) ∨
     (isConf e = false ∧ D' = { D with pc := S })) := by
  simp only [applyEventD] at h
  split at h
  · rename_i hc
    split at h
    · rename_i hg
      split at h
      · rename_i S hS
        injection h with h
        exact ⟨S, hS, Or.inl ⟨hc, hg, h.symm⟩⟩
      · cases h
    · cases h
  · rename_i hc
    obtain ⟨S, hS, hD⟩ := liftC_ok h
    exact ⟨S, hS, Or.inr ⟨by simpa using hc, hD⟩⟩

theorem stepD_sendApp {D D' : DSys} {i : Nat} {m : App} (h : applyEventD D (.sendApp i m) = .ok D') :
    m.commit = (D.pc.base.nodes i).commit ∧
    ∃ S, applyEventC D.pc (.base (.sendApp i m)) = .ok S ∧ D' = { D with pc := S } := by
  simp only [applyEventD] at h
  split at h
  · rename_i hg
    exact ⟨hg, liftC_ok h⟩
  · cases h

theorem stepD_recvAppC {D D' : DSys} {i : Nat} {m : App} (h : applyEventD D (.recvAppC i m) = .ok D') :
    ∃ S, applyEventC D.pc (.base (.recvApp i m)) = .ok S ∧
    (((S.base.nodes i).commit < min m.commit (m.prev + m.es.length) ∧
        ∃ S2, applyEventC S (.base (.commitApp i (min m.commit (m.prev + m.es.length)) m)) = .ok S2 ∧
          D' = { D with pc := S2 }) ∨
     (¬ (S.base.nodes i).commit < min m.commit (m.prev + m.es.length) ∧ D' = { D with pc := S })) := by
  simp only [applyEventD] at h
  split at h
  · rename_i S hS
    split at h
    · rename_i hg
      obtain ⟨S2, hS2, hD⟩ := liftC_ok h
      exact ⟨S, hS, Or.inl ⟨hg, S2, hS2, hD⟩⟩
    · rename_i hg
      injection h with h
      exact ⟨S, hS, Or.inr ⟨hg, h.symm⟩⟩
  · cases h

theorem stepD_commitLeader {D D' : DSys} {i c : Nat} {cfg : Cfg} {q : List Nat} {applied : Nat}
    (h : applyEventD D (.commitLeader i c cfg q applied) = .ok D') :
    applied = D.applied i ∧ ∃ S, applyEventC D.pc (.commitLeader i c cfg q applied) = .ok S ∧
    D' = { D with pc := S } := by
  simp only [applyEventD] at h
  split at h
  · rename_i hg
    exact ⟨hg, liftC_ok h⟩
  · cases h

theorem stepD_resp {D D' : DSys} {i rid idx : Nat} {cfg : Cfg} {applied : Nat}
    (h : applyEventD D (.resp i rid idx cfg applied) = .ok D') :
    applied = D.applied i ∧ ∃ S, applyEventC D.pc (.resp i rid idx cfg applied) = .ok S ∧
    D' = { D with pc := S } := by
  simp only [applyEventD] at h
  split at h
  · rename_i hg
    exact ⟨hg, liftC_ok h⟩
  · cases h

theorem stepD_rstate {D D' : DSys} {j rid idx : Nat} {cfg : Cfg} {applied : Nat}
    (h : applyEventD D (.rstate j rid idx cfg applied) = .ok D') :
    (applied = D.applied j ∨ D.pc.base.rd.resps.contains ⟨rid, j, idx⟩ = true) ∧
    ∃ S, applyEventC D.pc (.rstate j rid idx cfg applied) = .ok S ∧ D' = { D with pc := S } := by
  simp only [applyEventD] at h
  split at h
  · rename_i hg
    exact ⟨hg, liftC_ok h⟩
  · cases h

/-! ### every PD history is a PC history -/

/-- a step of PD, seen from PC: no step, one step, or two steps -/
theorem stepD_steps {D D' : DSys} {e : DEvent} (h : applyEventD D e = .ok D') :
    D'.pc = D.pc ∨ (∃ e', applyEventC D.pc e' = .ok D'.pc) ∨
    (∃ e1 e2 S, applyEventC D.pc e1 = .ok S ∧ applyEventC S e2 = .ok D'.pc) := by
  cases e with
  | pc e =>
    obtain ⟨_, S, hS, hD⟩ := stepD_pc h
    subst hD; exact Or.inr (Or.inl ⟨_, hS⟩)
  | apply i k =>
    obtain ⟨_, _, _, hD⟩ := stepD_apply h
    subst hD; exact Or.inl rfl
  | restart i a =>
    obtain ⟨_, S, hS, hD⟩ := stepD_restart h
    subst hD; exact Or.inr (Or.inl ⟨_, hS⟩)
  | campaign i =>
    obtain ⟨_, _, S, hS, hD⟩ := stepD_campaign h
    subst hD; exact Or.inr (Or.inl ⟨_, hS⟩)
  | win i cfg q applied =>
    obtain ⟨_, S, hS, hD⟩ := stepD_win h
    subst hD; exact Or.inr (Or.inl ⟨_, hS⟩)
  | leaderAppend i e =>
    obtain ⟨S, hS, ⟨_, _, hD⟩ | ⟨_, hD⟩⟩ := stepD_leaderAppend h
    · subst hD; exact Or.inr (Or.inl ⟨_, hS⟩)
    · subst hD; exact Or.inr (Or.inl ⟨_, hS⟩)
  | sendApp i m =>
    obtain ⟨_, S, hS, hD⟩ := stepD_sendApp h
    subst hD; exact Or.inr (Or.inl ⟨_, hS⟩)
  | recvAppC i m =>
    obtain ⟨S, hS, ⟨_, S2, hS2, hD⟩ | ⟨_, hD⟩⟩ := stepD_recvAppC h
    · subst hD; exact Or.inr (Or.inr ⟨_, _, S, hS, hS2⟩)
    · subst hD; exact Or.inr (Or.inl ⟨_, hS⟩)
  | commitLeader i c cfg q applied =>
    obtain ⟨_, S, hS, hD⟩ := stepD_commitLeader h
    subst hD; exact Or.inr (Or.inl ⟨_, hS⟩)
  | resp i rid idx cfg applied =>
    obtain ⟨_, S, hS, hD⟩ := stepD_resp h
    subst hD; exact Or.inr (Or.inl ⟨_, hS⟩)
  | rstate j rid idx cfg applied =>
    obtain ⟨_, S, hS, hD⟩ := stepD_rstate h
    subst hD; exact Or.inr (Or.inl ⟨_, hS⟩)

/-- **every PD history is a PC history** -/
theorem reach_pc {D : DSys} (h : ReachPD D) : ReachPC D.pc := by
  induction h with
  | init => exact ReachPC.init
  | step e _ hs ih =>
    rcases stepD_steps hs with h1 | ⟨e', h1⟩ | ⟨e1, e2, S, h1, h2⟩
    · rw [h1]; exact ih
    · exact ReachPC.step e' ih h1
    · exact ReachPC.step e2 (ReachPC.step e1 ih h1) h2

end RaftModel.P
