import RaftProofs.ClusterSnap7A
import RaftProofs.ClusterCommit5O

/-!
Commit safety of `ClusterSem` with log compaction AND `batch_append`, part 7B (C01n): **the leader's
commit step** for the joined bundle `Snap7.Hyp3wB`.

SCRIPTED COPY (`RaftProps/C01n.gen/copy.py`) of `MOKc_kstepb`, `HypB.mokc`, `HypB.commit_step` of
`RaftProofs/ClusterCommit5O.lean` (C01f) over `Snap.KStep` / `Snap7.Hyp3wB`: the per-call relation `Gb`
of the batching layer (`Raft.CB.call_gb`, `ClusterB.kstep_gb`) holds for every `NodeOp`, `compact`
included, so the proofs go through verbatim (the substitutions are listed in `copy.py`).
-/
namespace RaftModel
namespace Cluster
namespace Snap7
open Node Raft Raft.CC Raft.CB Raft.Bt ClusterB RaftProps.C02 RaftProps.C05

variable {cfg : JointConfig} {c0 : Nat} {h : List Sys}

theorem MOKc_kstepb' {s s' : Sys} (hm : MOKc s) (hsn : NoSnapNet s)
    (hstep : Snap.KStep s s') : MOKc s' := by
  have other : ∀ (k : Nat) (stk : NState) (net' : List Message), (∀ x ∈ s.net, x ∈ net') →
      MOK (Anet net') stk.raft → ∀ j stj, j ≠ k → s.node j = some stj → MOK (Anet net') stj.raft :=
    fun k stk net' hsub _ j stj _ hj => (hm j stj hj).mono (fun _ _ _ => Anet.mono hsub)
  cases hstep with
  | call k st st' rnd op res h1 h2 _ _ h4 =>
    intro j stj hj
    have g := kstep_gb hm hsn h1 (.inl h2) h4
    by_cases hjk : j = k
    · subst hjk
      rw [node_setNode_self] at hj; cases hj
      exact g.mok
    · rw [node_setNode_ne s k j st' hjk] at hj
      exact hm j stj hj
  | deliver k st st' rnd m res h1 h2 _ h4 =>
    intro j stj hj
    have g := kstep_gb hm hsn h1 (.inr ⟨m, rfl, h2⟩) h4
    by_cases hjk : j = k
    · subst hjk
      rw [node_setNode_self] at hj; cases hj
      exact g.mok
    · rw [node_setNode_ne s k j st' hjk] at hj
      exact hm j stj hj
  | send k st st' h1 _ _ h3 =>
    intro j stj hj
    have hsub : ∀ x ∈ s.net, x ∈ s.net ++ st.raft.msgs := fun x hx => List.mem_append_left _ hx
    have hj' : (s.setNode k st').node j = some stj := hj
    by_cases hjk : j = k
    · subst hjk
      rw [node_setNode_self] at hj'; cases hj'
      have hf : st'.raft.state = st.raft.state ∧ st'.raft.prs = st.raft.prs ∧
          st'.raft.id = st.raft.id ∧ st'.raft.raftLog = st.raft.raftLog ∧
          st'.raft.term = st.raft.term := by
        unfold Node.call at h3
        simp only [applyOp] at h3
        cases h3; exact ⟨rfl, rfl, rfl, rfl, rfl⟩
      obtain ⟨f1, f2, f3, f4, f5⟩ := hf
      have h0 := (hm j st h1).mono (fun _ _ _ => Anet.mono (net' := s.net ++ st.raft.msgs) hsub)
      constructor
      rw [f1, f2, f3, f4, f5]
      exact h0.h
    · rw [node_setNode_ne s k j st' hjk] at hj'
      exact (hm j stj hj').mono (fun _ _ _ => Anet.mono hsub)
  | restart k st st' c rnd h1 _ h3 =>
    intro j stj hj
    by_cases hjk : j = k
    · subst hjk
      rw [node_setNode_self] at hj; cases hj
      have hb := CV.boot_booted c _ rnd st' h3
      exact ⟨fun hs => by rw [hb.state] at hs; cases hs⟩
    · rw [node_setNode_ne s k j st' hjk] at hj
      exact hm j stj hj

/-- the matched tables are backed by the transport in every state -/
theorem Hyp3wB.mokc (H : Hyp3wB cfg c0 h) : ∀ (n : Nat) (s : Sys), h[n]? = some s → MOKc s := by
  refine hist_induct h (fun _ s => MOKc s) (fun s h0 => MOKc.init (hist_init H.hist s h0)) ?_
  intro n a b ha hb ih
  exact MOKc_kstepb' ih (H.nosnap a (Snap.mem_of_get ha)) (H.steps n a b ha hb)

/-- **the leader's commit step**: when a step moves the commit index of a node that is leader after
the step, the entry at the new commit index carries the leader's term, and a joint quorum of the
leader's voters has `matched` at least the new commit index, each of them accounted for: the leader
itself with `persisted`, or an accepting append response in the transport -/
theorem Hyp3wB.commit_step (H : Hyp3wB cfg c0 h) (n : Nat) (a b : Sys)
    (ha : h[n]? = some a) (hb : h[n + 1]? = some b) (l : Nat) (sta stb : NState)
    (hla : a.node l = some sta) (hlb : b.node l = some stb) (hs : stb.raft.state = .leader)
    (hc : sta.raft.raftLog.committed < stb.raft.raftLog.committed) :
    stb.raft.raftLog.term stb.raft.raftLog.committed = .ok stb.raft.term ∧
    ∃ Q, IsJointQuorum cfg Q ∧ ∀ j ∈ Q,
      (j = l ∧ stb.raft.raftLog.committed ≤ stb.raft.raftLog.persisted) ∨
      Anet a.net j stb.raft.term stb.raft.raftLog.committed := by
  have hm := H.mokc n a ha
  have hsn := H.nosnap a (Snap.mem_of_get ha)
  have hfix := H.fix b (Snap.mem_of_get hb) l stb hlb
  obtain ⟨hid, _⟩ := ((hist_all H.hist).1 b (Snap.mem_of_get hb)).ids l stb hlb
  -- the relation of the step at node `l`
  have key : (∃ m, Gb (Anet a.net) sta.raft m stb.raft) ∨
      stb.raft.raftLog.committed = sta.raft.raftLog.committed ∨ stb.raft.state ≠ .leader := by
    cases H.steps n a b ha hb with
    | call k st st' rnd op res h1 h2 _ _ h4 =>
      by_cases hlk : l = k
      · subst hlk
        rw [node_setNode_self] at hlb; cases hlb
        rw [h1] at hla; cases hla
        exact .inl ⟨_, kstep_gb hm hsn h1 (.inl h2) h4⟩
      · rw [node_setNode_ne a k l st' hlk, hla] at hlb; cases hlb
        exact .inr (.inl rfl)
    | deliver k st st' rnd m res h1 h2 _ h4 =>
      by_cases hlk : l = k
      · subst hlk
        rw [node_setNode_self] at hlb; cases hlb
        rw [h1] at hla; cases hla
        exact .inl ⟨_, kstep_gb hm hsn h1 (.inr ⟨m, rfl, h2⟩) h4⟩
      · rw [node_setNode_ne a k l st' hlk, hla] at hlb; cases hlb
        exact .inr (.inl rfl)
    | send k st st' h1 _ _ h3 =>
      have hlb' : (a.setNode k st').node l = some stb := hlb
      by_cases hlk : l = k
      · subst hlk
        rw [node_setNode_self] at hlb'; cases hlb'
        rw [h1] at hla; cases hla
        right; left
        unfold Node.call at h3
        simp only [applyOp] at h3
        cases h3; rfl
      · rw [node_setNode_ne a k l st' hlk, hla] at hlb'; cases hlb'
        exact .inr (.inl rfl)
    | restart k st st' c rnd h1 _ h3 =>
      by_cases hlk : l = k
      · subst hlk
        rw [node_setNode_self] at hlb; cases hlb
        right; right
        rw [(CV.boot_booted c _ rnd stb h3).state]; intro hcc; cases hcc
      · rw [node_setNode_ne a k l st' hlk, hla] at hlb; cases hlb
        exact .inr (.inl rfl)
  rcases key with ⟨_, g⟩ | g | g
  · rcases g.lc hs with e | ⟨⟨Q, hQ, hQm⟩, hterm⟩
    · omega
    · refine ⟨hterm, Q, by rw [← hfix]; exact hQ, fun j hj => ?_⟩
      obtain ⟨x, hx, hle⟩ := hQm j hj
      rcases g.mok.h hs j x hx with d | ⟨d1, d2⟩ | d
      · omega
      · left; exact ⟨d1.trans hid, Nat.le_trans hle d2⟩
      · right; exact Anet.anti _ _ _ _ hle d
  · omega
  · exact absurd hs g

end Snap7
end Cluster
end RaftModel
