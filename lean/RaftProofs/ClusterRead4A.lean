import RaftProofs.ClusterVoteF

/-!
Cluster-level ReadIndex safety (`RaftProps.C08c`), helper lemmas part A: the part of the node state the
read path uses (`rcore`: the `ReadOnly` bookkeeping, the term, the read states, the id, the
configuration; and the queue projected on its heartbeats and heartbeat responses) and the frame lemmas
`RF` of the sending / replication helpers of the node model (the proofs follow
`RaftProofs/ClusterVoteA.lean` line by line).
-/
namespace RaftModel
namespace Raft
namespace RD
namespace R4

/-- the two message types that carry a read-request context -/
def rdT : MsgType → Bool
  | .msgHeartbeat | .msgHeartbeatResponse | .msgReadIndexResp | .msgReadIndex => true
  | _ => false

/-- a heartbeat or a heartbeat response -/
def isRd (x : Message) : Bool := rdT x.msgType

theorem isRd_of_type {x : Message} (h : rdT x.msgType = false) : isRd x = false := h

/-- the heartbeats and heartbeat responses of an outgoing queue, in order -/
def rdOf (l : List Message) : List Message := l.filter isRd

@[simp] theorem rdOf_append (a b : List Message) : rdOf (a ++ b) = rdOf a ++ rdOf b := by
  simp [rdOf]

theorem rdOf_single_ne (m : Message) (h : isRd m = false) : rdOf [m] = [] := by
  simp [rdOf, h]

theorem mem_rdOf {l : List Message} {x : Message} : x ∈ rdOf l ↔ x ∈ l ∧ isRd x = true := by
  simp [rdOf]

/-- the part of the node state the read path reads (everything but the queue) -/
structure RCore where
  ro : ReadOnly
  term : Nat
  rs : List ReadState
  id : Nat
  conf : Configuration

def rcore (r : Raft) : RCore :=
  { ro := r.readOnly, term := r.term, rs := r.readStates, id := r.id, conf := r.prs.conf }

/-- `r'` differs from `r` only outside `rcore`, and the same heartbeats / heartbeat responses are
queued -/
def RF (r r' : Raft) : Prop := rcore r' = rcore r ∧ rdOf r'.msgs = rdOf r.msgs

theorem RF.refl (r : Raft) : RF r r := ⟨rfl, rfl⟩
theorem RF.trans {a b c : Raft} (h1 : RF a b) (h2 : RF b c) : RF a c :=
  ⟨h2.1.trans h1.1, h2.2.trans h1.2⟩

theorem RF.ro {r r' : Raft} (h : RF r r') : r'.readOnly = r.readOnly := congrArg RCore.ro h.1
theorem RF.term {r r' : Raft} (h : RF r r') : r'.term = r.term := congrArg RCore.term h.1
theorem RF.rs {r r' : Raft} (h : RF r r') : r'.readStates = r.readStates := congrArg RCore.rs h.1
theorem RF.id {r r' : Raft} (h : RF r r') : r'.id = r.id := congrArg RCore.id h.1
theorem RF.conf {r r' : Raft} (h : RF r r') : r'.prs.conf = r.prs.conf := congrArg RCore.conf h.1
theorem RF.voters {r r' : Raft} (h : RF r r') : r'.prs.voters = r.prs.voters := by
  unfold ProgressTracker.voters; rw [h.conf]
theorem RF.rd {r r' : Raft} (h : RF r r') : rdOf r'.msgs = rdOf r.msgs := h.2


/-! ### sending -/

theorem send_rf (r : Raft) (m : Message) (hm : rdT m.msgType = false) :
    Res.Post (fun r' => RF r r') (r.send m) := by
  apply Res.post_intro
  intro r' h
  rw [send_eq r r' m h]
  have : isRd (r.sendFill m) = false := isRd_of_type (by rw [sendFill_msgType]; exact hm)
  simp [RF, rcore, rdOf_single_ne _ this]

theorem tryBatchingLoop_rd (committed to : Nat) (pr : Progress) (ents : List Entry) :
    ∀ msgs, Res.Post (fun x => rdOf x.1 = rdOf msgs) (tryBatchingLoop committed to pr ents msgs) := by
  intro msgs
  induction msgs with
  | nil => simp [tryBatchingLoop, Res.Post]
  | cons msg rest ih =>
    unfold tryBatchingLoop
    split
    · rename_i hc
      have hne : ∀ (e : List Entry) (c : Nat),
          isRd ({ msg with entries := e, commit := c } : Message) = false := by
        intro e c; exact isRd_of_type (by simp [hc.1, rdT])
      have hne0 : isRd msg = false := isRd_of_type (by simp [hc.1, rdT])
      split
      · split
        · simp [Res.Post]
        · simp only
          split
          · trivial
          · split
            · simp [Res.Post, rdOf, hne]
            · trivial
            · trivial
      · have := hne msg.entries committed
        simp [Res.Post, rdOf, hne0, this]
    · split
      · rename_i rest' pr' b heq
        have := Res.Post.of_eq ih heq
        simp only [Res.Post] at this ⊢
        simp only [rdOf, List.filter_cons] at this ⊢
        rw [this]
      · trivial
      · trivial

theorem tryBatching_rf (r : Raft) (to : Nat) (pr : Progress) (ents : List Entry) :
    Res.Post (fun x => RF r x.1) (r.tryBatching to pr ents) := by
  unfold tryBatching
  split
  · rename_i msgs pr' b heq
    have := Res.Post.of_eq (tryBatchingLoop_rd _ _ _ _ _) heq
    simp only [Res.Post] at this ⊢
    simp [RF, rcore, this]
  · trivial
  · trivial

theorem prepareSendSnapshot_rf (r : Raft) (m : Message) (pr : Progress) (to : Nat) :
    Res.Post (fun x => RF r x.1 ∧ (x.2.2.2 = true → x.2.1.msgType = .msgSnapshot))
      (r.prepareSendSnapshot m pr to) := by
  unfold prepareSendSnapshot
  split
  · simp [Res.Post, RF.refl]
  · simp only
    split
    · simp [Res.Post, RF, rcore]
    · trivial
    · trivial
    · split
      · trivial
      · simp [Res.Post, RF, rcore]

/-- the snapshot fallback of `maybe_send_append` -/
theorem snapSend_rf (r0 r : Raft) (m : Message) (pr : Progress) (to : Nat) (h0 : RF r0 r) :
    Res.Post (fun x => RF r0 x.1)
      (match r.prepareSendSnapshot m pr to with
        | .ok (r, m, pr, true) => (r.send m).bind (fun r => .ok (r, pr, true))
        | .ok (r, _, pr, false) => .ok (r, pr, false)
        | .err e => .err e
        | .panic s => .panic s : Res (Raft × Progress × Bool)) := by
  split
  · rename_i r1 m1 pr1 heq
    have h1 := Res.Post.of_eq (prepareSendSnapshot_rf _ _ _ _) heq
    dsimp only at h1
    have hm : rdT m1.msgType = false := by rw [h1.2 rfl]; rfl
    exact Res.post_bind (send_rf r1 m1 hm) (fun a ha => by
      simp only [Res.Post]; exact (h0.trans h1.1).trans ha)
  · rename_i r1 m1 pr1 heq
    have h1 := Res.Post.of_eq (prepareSendSnapshot_rf _ _ _ _) heq
    dsimp only at h1
    simp only [Res.Post]; exact h0.trans h1.1
  · trivial
  · trivial

theorem maybeSendAppend_rf (r : Raft) (to : Nat) (pr : Progress) (ae : Bool) :
    Res.Post (fun x => RF r x.1) (r.maybeSendAppend to pr ae) := by
  unfold maybeSendAppend
  split
  · simp [Res.Post, RF.refl]
  · simp only
    split
    · exact snapSend_rf r r _ _ _ (RF.refl r)
    · generalize r.raftLog.entries pr.nextIdx (some r.maxMsgSize) true = E
      generalize r.raftLog.term (pr.nextIdx - 1) = T
      cases E with
      | panic s => trivial
      | ok ents =>
        simp only
        split
        · simp [Res.Post, RF.refl]
        · split
          · trivial
          · cases T with
            | panic s => trivial
            | err e => exact snapSend_rf r r _ _ _ (RF.refl r)
            | ok term =>
              simp only
              have hb : Res.Post (fun x => RF r x.1)
                  (if r.batchAppend then r.tryBatching to pr ents else .ok (r, pr, false)) := by
                split
                · exact tryBatching_rf _ _ _ _
                · simp [Res.Post, RF.refl]
              split
              · rename_i r1 pr1 heq
                exact Res.Post.of_eq (P := fun x => RF r x.1) hb heq
              · rename_i r1 pr1 heq
                have h1 : RF r r1 := Res.Post.of_eq (P := fun x => RF r x.1) hb heq
                split
                · rename_i m2 pr2 heq2
                  have h2 := Res.Post.of_eq (prepareSendEntries_type _ _ _ _ _) heq2
                  dsimp only at h2
                  have hm : rdT m2.msgType = false := by rw [h2]; rfl
                  exact Res.post_bind (send_rf r1 m2 hm) (fun a ha => by
                    simp only [Res.Post]; exact h1.trans ha)
                · trivial
                · trivial
              · trivial
              · trivial
      | err e =>
        simp only
        split
        · simp [Res.Post, RF.refl]
        · split
          · trivial
          · cases T with
            | panic s => trivial
            | err e' =>
              simp only
              split
              · contradiction
              · simp [Res.Post, RF.refl]
              · exact snapSend_rf r r _ _ _ (RF.refl r)
            | ok term =>
              simp only
              split
              · contradiction
              · simp [Res.Post, RF.refl]
              · exact snapSend_rf r r _ _ _ (RF.refl r)

theorem set_rf (r : Raft) (id : Nat) (pr : Progress) :
    RF r { r with prs := r.prs.set id pr } := by
  simp [RF, rcore, ProgressTracker.set]

theorem sendAppendPr_rf (r : Raft) (to : Nat) (pr : Progress) :
    Res.Post (fun x => RF r x.1) (r.sendAppendPr to pr) := by
  unfold sendAppendPr
  exact Res.post_bind (maybeSendAppend_rf r to pr true) (fun a ha => by
    simp only [Res.Post]; exact ha)

theorem sendAppendAggressivelyPr_rf (fuel : Nat) : ∀ (r : Raft) (to : Nat) (pr : Progress),
    Res.Post (fun x => RF r x.1) (sendAppendAggressivelyPr fuel r to pr) := by
  induction fuel with
  | zero => intro r to pr; unfold sendAppendAggressivelyPr; trivial
  | succ n ih =>
    intro r to pr
    unfold sendAppendAggressivelyPr
    split
    · rename_i r1 pr1 heq
      have h1 : RF r r1 :=
        Res.Post.of_eq (P := fun x => RF r x.1) (maybeSendAppend_rf _ _ _ _) heq
      exact Res.post_mono (ih r1 to pr1) (fun a ha => h1.trans ha)
    · rename_i r1 pr1 heq
      exact Res.Post.of_eq (P := fun x => RF r x.1) (maybeSendAppend_rf _ _ _ _) heq
    · trivial
    · trivial

theorem sendAppend_rf (r : Raft) (to : Nat) :
    Res.Post (fun x => RF r x) (r.sendAppend to) := by
  unfold sendAppend
  split
  · trivial
  · exact Res.post_bind (sendAppendPr_rf r to _) (fun a ha => by
      simp only [Res.Post]; exact RF.trans ha (set_rf _ _ _))

theorem sendAppendAggressively_rf (r : Raft) (to : Nat) :
    Res.Post (fun x => RF r x) (r.sendAppendAggressively to) := by
  unfold sendAppendAggressively
  split
  · trivial
  · exact Res.post_bind (sendAppendAggressivelyPr_rf _ r to _) (fun a ha => by
      simp only [Res.Post]; exact RF.trans ha (set_rf _ _ _))

theorem sendTimeoutNow_rf (r : Raft) (to : Nat) :
    Res.Post (fun x => RF r x) (r.sendTimeoutNow to) := by
  unfold sendTimeoutNow
  exact send_rf r _ rfl

theorem foldl_rf {β : Type} (g : Raft → β → Res Raft)
    (hg : ∀ r b, Res.Post (fun x => RF r x) (g r b)) (r0 : Raft) :
    ∀ (l : List β) (acc : Res Raft), Res.Post (fun x => RF r0 x) acc →
      Res.Post (fun x => RF r0 x) (l.foldl (fun acc b => acc.bind (fun r => g r b)) acc) := by
  intro l
  induction l with
  | nil => intro acc h; exact h
  | cons b rest ih =>
    intro acc h
    simp only [List.foldl_cons]
    apply ih
    exact Res.post_bind h (fun a ha => Res.post_mono (hg a b) (fun x hx => ha.trans hx))

theorem forEachPeer_rf (r : Raft) (f : Raft → Nat → Progress → Res (Raft × Progress))
    (hf : ∀ r id pr, Res.Post (fun x => RF r x.1) (f r id pr)) :
    Res.Post (fun x => RF r x) (r.forEachPeer f) := by
  unfold forEachPeer
  apply foldl_rf (fun r id => if id = r.id then .ok r
      else match r.prs.get id with
        | none => .ok r
        | some pr => (f r id pr).bind (fun (r, pr) => .ok { r with prs := r.prs.set id pr }))
  · intro r1 id
    dsimp only
    split
    · exact RF.refl _
    · split
      · exact RF.refl _
      · exact Res.post_bind (hf r1 id _) (fun a ha => by
          simp only [Res.Post]; exact RF.trans ha (set_rf _ _ _))
  · exact RF.refl _

theorem bcastAppend_rf (r : Raft) : Res.Post (fun x => RF r x) r.bcastAppend := by
  unfold bcastAppend
  exact forEachPeer_rf r _ (fun r id pr => sendAppendPr_rf r id pr)

theorem modifyProgress_rf (r : Raft) (id : Nat) (f : Progress → Progress) :
    RF r (r.modifyProgress id f) := by
  simp [RF, rcore, modifyProgress]

theorem mapProgress_rf (r : Raft) (f : Nat → Progress → Progress) :
    RF r (r.mapProgress f) := by
  simp [RF, rcore, mapProgress]

theorem maybeCommit_rf (r : Raft) : Res.Post (fun x => RF r x.1) r.maybeCommit := by
  unfold maybeCommit
  split
  · trivial
  · trivial
  · split
    · trivial
    · trivial
    · rename_i log hmc
      simp only [Res.Post]
      exact RF.trans (by simp [RF, rcore]) (modifyProgress_rf _ _ _)
    · exact RF.refl _

theorem appendEntry_rf (r : Raft) (es : List Entry) :
    Res.Post (fun x => RF r x.1) (r.appendEntry es) := by
  unfold appendEntry
  split
  · exact RF.refl _
  · rename_i r1 heq
    have h1 : RF r r1 := by
      unfold maybeIncreaseUncommittedSize at heq
      simp only [Prod.mk.injEq] at heq
      rw [← heq.1]; simp [RF, rcore]
    simp only
    split
    · rename_i log k ha
      simp only [Res.Post]; exact h1.trans (by simp [RF, rcore])
    · trivial
    · trivial

end R4
end RD
end Raft
end RaftModel
