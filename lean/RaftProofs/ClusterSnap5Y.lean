import RaftProofs.ClusterSnap5Z
import RaftProofs.ClusterSnap5B

/-!
Commit safety of `ClusterSem` with compaction, snapshots **and `request_snapshot`**, part 5Y: the
bundles compared.  `Snap5.KStep` is `Snap2.KStep` (the same contract, `SnapSend` included), and the
hypotheses of `RaftProps/C01h.lean` (`Snap2.Hyp3w`, with `noreq`) imply those of this development
(`Snap5.Hyp3w`, with `reqok` in its place): a node without a pending request satisfies `ReqOk`.
-/
namespace RaftModel
namespace Cluster
namespace Snap5
open Node Raft Raft.CC RaftProps.C02 RaftProps.C05 Snap

theorem SnapSend.of_snap2 {st st' : NState} (h : Snap2.SnapSend st st') : SnapSend st st' := h

/-- the contract-abiding steps of `ClusterSnap2C` are those of this development -/
theorem KStep.of_snap2 {a b : Sys} (hs : Snap2.KStep a b) : KStep a b := by
  cases hs with
  | call i st st' rnd op res h1 h2 h3 h4 h5 h6 h7 h8 h9 h10 =>
    exact .call a i st st' rnd op res h1 h2 h3 h4 h5 h6 h7 h8 h9 h10
  | deliver i st st' rnd m res h1 h2 h3 h4 h5 h6 h7 =>
    exact .deliver a i st st' rnd m res h1 h2 h3 h4 h5 h6 h7
  | send i st st' h1 h2 h3 h4 => exact .send a i st st' h1 h2 h3 h4
  | restart i st st' c rnd h1 h2 h3 h4 => exact .restart a i st st' c rnd h1 h2 h3 h4

theorem KStep.to_snap2 {a b : Sys} (hs : KStep a b) : Snap2.KStep a b := by
  cases hs with
  | call i st st' rnd op res h1 h2 h3 h4 h5 h6 h7 h8 h9 h10 =>
    exact .call a i st st' rnd op res h1 h2 h3 h4 h5 h6 h7 h8 h9 h10
  | deliver i st st' rnd m res h1 h2 h3 h4 h5 h6 h7 =>
    exact .deliver a i st st' rnd m res h1 h2 h3 h4 h5 h6 h7
  | send i st st' h1 h2 h3 h4 => exact .send a i st st' h1 h2 h3 h4
  | restart i st st' c rnd h1 h2 h3 h4 => exact .restart a i st st' c rnd h1 h2 h3 h4

/-- "no pending request" implies `ReqOk` -/
theorem ReqOk.of_noReq {s : Sys} (h : Snap2.NoReq s) : ReqOk s :=
  fun i st hi hne => absurd (h i st hi) hne

/-- **the hypotheses of `RaftProps/C01h.lean` imply those of this development** -/
theorem Hyp3w.of_snap2 {cfg : JointConfig} {c0 : Nat} {h : List Sys} (H : Snap2.Hyp3w cfg c0 h) :
    Hyp3w cfg c0 h :=
  { hist := H.hist, fix := H.fix, ne := H.ne, nd1 := H.nd1, nd2 := H.nd2, init := H.init,
    steps := fun n a b ha hb => KStep.of_snap2 (H.steps n a b ha hb),
    nb := H.nb, reqok := fun s hs => ReqOk.of_noReq (H.noreq s hs),
    nolone := H.nolone, first0 := H.first0, initc := H.initc, pend0 := H.pend0,
    snapt0 := H.snapt0, snapidx := H.snapidx }

/-- **`Raft::request_snapshot`, completely** (a step towards deriving `reqok`): the call is dropped
(nothing changes), or — on a non-leader without a pending request — the request index is the last index
of the log, which is untouched, and one message is queued -/
theorem requestSnapshot_out {r r' : Raft} {e : Option RaftError}
    (h : r.requestSnapshot = .ok (r', e)) :
    r' = r ∨
    (r.state ≠ .leader ∧ r.pendingRequestSnapshot = 0 ∧
      r'.pendingRequestSnapshot = r.raftLog.lastIndex ∧ r'.raftLog = r.raftLog ∧
      r'.state = r.state ∧ ∃ x, r'.msgs = r.msgs ++ [x]) := by
  unfold Raft.requestSnapshot at h
  split at h
  · cases h; exact .inl rfl
  · rename_i hnl
    split at h
    · cases h; exact .inl rfl
    · split at h
      · cases h; exact .inl rfl
      · split at h
        · cases h; exact .inl rfl
        · rename_i hp
          simp only at h
          split at h
          · cases h
          · cases h
          · split at h
            · obtain ⟨r1, h1, h⟩ := Res.bind_eq_ok h
              cases h
              unfold Raft.sendRequestSnapshot at h1
              simp only at h1
              split at h1
              · have heq := send_eq _ _ _ h1
                right
                refine ⟨hnl, by omega, ?_, ?_, ?_, ?_⟩
                · rw [heq]
                · rw [heq]
                · rw [heq]
                · rw [heq]; exact ⟨_, rfl⟩
              · cases h1
              · cases h1
            · cases h; exact .inl rfl

/-- **a follower with a pending snapshot request does not append** (`Raft::handle_append_entries`
answers with the request again; a step towards deriving `reqok`) -/
theorem handleAppendEntries_req {r r' : Raft} {m : Message} (hp : r.pendingRequestSnapshot ≠ 0)
    (h : r.handleAppendEntries m = .ok r') :
    r'.raftLog = r.raftLog ∧ r'.pendingRequestSnapshot = r.pendingRequestSnapshot ∧
    r'.state = r.state ∧ ∃ x, r'.msgs = r.msgs ++ [x] := by
  unfold Raft.handleAppendEntries at h
  rw [if_pos hp] at h
  unfold Raft.sendRequestSnapshot at h
  simp only at h
  split at h
  · have heq := send_eq _ _ _ h
    rw [heq]
    exact ⟨rfl, rfl, rfl, _, rfl⟩
  · cases h
  · cases h

/-- **the bundle of `RaftProps/C01i.lean`**: `Snap2.Hyp3w` (C01h) with the proof gap `noreq` ("no node
ever has a pending snapshot request") replaced by the strictly weaker, invariant-shaped `reqok` ("the
log of a node with a pending snapshot request ends at or before the requested index").  *Partial*:
`reqok` is an invariant of the model (the request index is `last_index` at the time of the request,
`handle_append_entries` refuses to append while a request is pending, `become_candidate` /
`become_leader` clear the request, a restored snapshot clears it), but it is not derived here — that
needs one more per-call relation that tracks `pending_request_snapshot` through every `NodeOp`. -/
abbrev Hyp3r_partial (cfg : JointConfig) (c0 : Nat) (h : List Sys) : Prop := Hyp3w cfg c0 h

/-- `reqok` is strictly weaker than `noreq`: the history `rx_hist` satisfies the new bundle, and in
one of its states a node has a pending request -/
theorem rx_not_noReq : ¬ ∀ s ∈ rx_hist, Snap2.NoReq s := by
  intro hall
  have hm : rx_t2 ∈ rx_hist := by
    unfold rx_hist rx_tail
    exact List.mem_append_right _ (List.mem_cons_of_mem _ List.mem_cons_self)
  have h2 : rx_t2.node 2 = some rx_b11 := node_setNode_self rx_t1 2 rx_b11
  have := hall rx_t2 hm 2 rx_b11 h2
  revert this
  decide

end Snap5
end Cluster
end RaftModel
