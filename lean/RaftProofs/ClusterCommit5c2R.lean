import RaftProofs.ClusterCommit5c2Q

/-!
Cluster-level commit safety **with `batch_append`** (copy of `ClusterCommit2R.lean` over the bundles without `NoBatch`), part 2R: **a leader's queue holds no acknowledgement** (`leader_no_ack`):
a candidate or leader whose vote request for its term is in the transport has no accepting append
response with a positive index queued — the request was handed over together with everything queued
before, and such responses are only queued by followers.  With `nolone` every leader is in that
situation.
-/
namespace RaftModel
namespace ClusterB
open Node Raft Raft.CC RaftProps.C02 RaftProps.C05 Raft.CB Raft.Bt Cluster

variable {cfg : JointConfig} {c0 : Nat} {h : List Sys}

/-- a real vote request of `x` that is around carries a term `x` has reached -/
theorem req_term_le (H : Hyp2wB cfg c0 h) {n : Nat} {a : Sys} (ha : h[n]? = some a) {x : Nat}
    {st : NState} {q : Message} (hx : a.node x = some st) (hq : q ∈ a.net ∨ q ∈ st.raft.msgs)
    (hty : q.msgType = .msgRequestVote) (hfrm : q.frm = x) : q.term ≤ st.raft.term := by
  have I1 := (hist_all H.hist).1 a (mem_of_get ha)
  have hrv : CV.isRVm q = true := by simp [CV.isRVm, hty]
  have hge : CV.Ge st.raft q.term (tgt q) := by
    rcases hq with g | g
    · obtain ⟨stq, h1, hok, _⟩ := I1.net q g hrv
      rw [hfrm, hx] at h1; cases h1
      exact hok.2.2.2.1
    · exact (I1.queue x st hx q g hrv).2.2.2.1
  rcases hge with c | ⟨c, _⟩ <;> omega

def CandQ (s : Sys) : Prop :=
  ∀ x st, s.node x = some st → (st.raft.state = .candidate ∨ st.raft.state = .leader) →
    (∃ q ∈ s.net, q.msgType = .msgRequestVote ∧ q.frm = x ∧ q.term = st.raft.term) →
    ∀ a ∈ st.raft.msgs, isAck a → a.index = 0

theorem cand_q (H : Hyp2wB cfg c0 h) : ∀ (n : Nat) (s : Sys), h[n]? = some s → CandQ s := by
  have hall1 := (hist_all H.hist).1
  refine hist_induct h _ ?_ ?_
  · intro s h0 x st hx _ _ a ha
    rw [init_queue (hist_init H.hist s h0) x st hx] at ha; cases ha
  · intro n a b ha hb ih
    have I1 := hall1 a (mem_of_get ha)
    have hstep := H.steps n a b ha hb
    have callCase : ∀ (k : Nat) (st st' : NState) (rnd : Option Nat) (op : NodeOp) (res : OpRes),
        a.node k = some st → (appOp op = true ∨ ∃ m, op = .step m ∧ m ∈ a.net ∧ m.to = k) →
        (∀ j, op ≠ .compact j) → Node.call st rnd op = .ok (res, st') → b = a.setNode k st' →
        CandQ b := by
      intro k st st' rnd op res h1 hop hnc h4 hbe
      have hnet : b.net = a.net := by rw [hbe]; rfl
      intro x stx hx hs ⟨q, hq, hty, hfrm, hterm⟩ y hy hack
      rw [hnet] at hq
      by_cases hxk : x = k
      · subst hxk
        have hxb : b.node x = some st' := by rw [hbe]; exact node_setNode_self a x st'
        rw [hxb] at hx; cases hx
        apply Classical.byContradiction
        intro hidx
        obtain ⟨_, hL, _, _⟩ := call_factsB H ha hb h1 hxb hnet hop hnc h4
        have hqt := req_term_le H ha h1 (.inl hq) hty hfrm
        rcases fresh_ack H ha hb h1 hxb hnet hop hnc h4 hy hack hidx with c | ⟨_, _, _, c⟩
        · -- the response was queued before: the node was candidate / leader of this term already
          have hold : (st.raft.state = .candidate ∨ st.raft.state = .leader) ∧
              st.raft.term = st'.raft.term := by
            rcases hs with hs | hs
            · rcases hL.rt.cand hs with d | ⟨d1, d2⟩
              · omega
              · exact ⟨.inl d2, d1⟩
            · rcases hL.rt.lead hs with d | ⟨d1, d2⟩
              · omega
              · exact ⟨d2, d1⟩
          exact hidx (ih x st h1 hold.1 ⟨q, hq, hty, hfrm, by rw [hold.2]; exact hterm⟩ y c hack)
        · rcases hs with hs | hs <;> rw [c] at hs <;> cases hs
      · have hxa : a.node x = some stx := by
          rw [hbe, node_setNode_ne a k x st' hxk] at hx; exact hx
        exact ih x stx hxa hs ⟨q, hq, hty, hfrm, hterm⟩ y hy hack
    cases hstep with
    | call k st st' rnd op res h1 h2 h3 _ h4 =>
      exact callCase k st st' rnd op res h1 (.inl h2) h3 h4 rfl
    | deliver k st st' rnd m res h1 h2 h3 h4 =>
      exact callCase k st st' rnd (.step m) res h1 (.inr ⟨m, rfl, h2, h3⟩)
        (fun j hc => by cases hc) h4 rfl
    | send k st st' h1 h2 _ h3 =>
      have hf : st'.raft.msgs = [] := by
        unfold Node.call at h3
        simp only [applyOp] at h3
        cases h3; rfl
      intro x stx hx hs ⟨q, hq, hty, hfrm, hterm⟩ y hy hack
      have hx' : (a.setNode k st').node x = some stx := hx
      have hq' : q ∈ a.net ++ st.raft.msgs := hq
      by_cases hxk : x = k
      · subst hxk
        rw [node_setNode_self] at hx'; cases hx'
        rw [hf] at hy; cases hy
      · rw [node_setNode_ne a k x st' hxk] at hx'
        refine ih x stx hx' hs ⟨q, ?_, hty, hfrm, hterm⟩ y hy hack
        rcases List.mem_append.1 hq' with c | c
        · exact c
        · have hrv : CV.isRVm q = true := by simp [CV.isRVm, hty]
          have := (I1.queue k st h1 q c hrv).1
          exact absurd (hfrm.symm.trans this) hxk
    | restart k st st' c rnd h1 h2 h3 =>
      intro x stx hx hs ⟨q, hq, hty, hfrm, hterm⟩ y hy hack
      by_cases hxk : x = k
      · subst hxk
        rw [node_setNode_self] at hx; cases hx
        rw [(CV.boot_booted c _ rnd st' h3).state] at hs
        rcases hs with hs | hs <;> cases hs
      · rw [node_setNode_ne a k x st' hxk] at hx
        exact ih x stx hx hs ⟨q, hq, hty, hfrm, hterm⟩ y hy hack

/-- **a leader's queue holds no acknowledgement** -/
theorem leader_no_ack (H : Hyp2wB cfg c0 h) {n : Nat} {s : Sys} (hn : h[n]? = some s) {l : Nat}
    {st : NState} (hl : s.node l = some st) (hs : st.raft.state = .leader) :
    ∀ a ∈ st.raft.msgs, isAck a → a.index = 0 := by
  have hall := hist_all H.hist
  have hm := mem_of_get hn
  have I1 := hall.1 s hm
  have I2 := hall.2.1 cfg H.fix s hm
  obtain ⟨Q, hQ, hQg⟩ := I2.lead l st hl hs
  obtain ⟨j, hj, hjl⟩ := H.nolone l Q hQ
  rcases hQg j hj with c | ⟨g, hg, g1, g2, g3, g4, g5⟩
  · exact absurd c hjl
  · have hrv : CV.isRVm g = true := by simp [CV.isRVm, g1, g2]
    obtain ⟨stj, _, hok, _⟩ := I1.net g hg hrv
    obtain ⟨q, hq, q1, q2, q3⟩ := hok.2.2.2.2 g1
    exact cand_q H n s hn l st hl (.inr hs) ⟨q, hq, q1, by rw [q2, g4], by rw [q3, g5]⟩

end ClusterB
end RaftModel
