import RaftProofs.ClusterCommit5c3B

/-!
Cluster-level commit safety **with `batch_append`** (copy of `ClusterCommit3C.lean` over the bundles without `NoBatch`), part 3C: the induction steps for the storage components: the stored commit
index is not ahead (`scm_step`) and is covered by a past commit event (`ncts_step`).
-/
namespace RaftModel
namespace ClusterB
open Node Raft Raft.CC RaftProps.C02 RaftProps.C05 Raft.CB Raft.Bt Cluster

variable {cfg : JointConfig} {c0 : Nat} {h : List Sys}

/-- `commit_apply j` returns only for `j = 0` or `j` within the commit index -/
theorem commitApply_call_le {st st' : NState} {rnd : Option Nat} {j : Nat} {res : OpRes}
    (h : Node.call st rnd (.commitApply j) = .ok (res, st')) :
    j = 0 ∨ j ≤ st.raft.raftLog.committed := by
  unfold Node.call at h
  simp only [applyOp, Node.commitApply] at h
  split at h
  · rename_i r2 hb
    rw [Res.bind_eq_ok_iff] at hb
    obtain ⟨r1, h1, h2⟩ := hb
    have e1 : r1.raftLog = ({ st.raft with nextRand := rnd } : Raft).raftLog := by
      split at h1
      · split at h1
        · cases h1
          unfold Raft.reduceUncommittedSize
          split <;> rfl
        · cases h1; rfl
        · cases h1
      · cases h1; rfl
    unfold Raft.commitApply Raft.commitApplyInternal at h2
    simp only [Bool.not_false, if_true] at h2
    split at h2
    · cases h2
    · cases h2
    · rename_i log hl
      unfold RaftLog.appliedTo at hl
      split at hl
      · rename_i h0; exact .inl h0
      · split at hl
        · cases hl
        · rename_i hr
          right
          rw [e1] at hr
          have : ¬ (st.raft.raftLog.committed < j) := fun hc => hr (.inl hc)
          omega
  · cases h
  · cases h

theorem Covered.le {m cm cm' term : Nat} {g : LLog} (hc : Covered h c0 m cm term g)
    (hle : cm' ≤ cm) : Covered h c0 m cm' term g := by
  rcases hc with c | ⟨E, h1, h2, h3, h4, h5⟩
  · exact .inl (by omega)
  · exact .inr ⟨E, h1, h2, by omega, h4, h5.mono hle⟩

theorem Covered.eq {m cm term : Nat} {g g' : LLog} (hc : Covered h c0 m cm term g)
    (he : EqUpTo g' g cm) : Covered h c0 m cm term g' := by
  rcases hc with c | ⟨E, h1, h2, h3, h4, h5⟩
  · exact .inl c
  · exact .inr ⟨E, h1, h2, h3, h4, he.trans h5⟩

theorem scm_step (H : Hyp3aB cfg c0 h) {n : Nat} (S : SAll h c0 n) {a b : Sys}
    (ha : h[n]? = some a) (hb : h[n + 1]? = some b) :
    ∀ v st', b.node v = some st' →
      st'.raft.raftLog.store.hardState.commit ≤ st'.raft.raftLog.committed := by
  intro v st' hvb
  have H2 := H.toHyp2wB
  have Sa := S n a (Nat.le_refl _) ha
  obtain ⟨k, stk, stk', hka, hkb, hoth, hs⟩ := stp_of H2 ha hb
  by_cases hvk : v = k
  · subst hvk
    rw [hkb] at hvb; cases hvb
    cases hs with
    | restart c rnd hboot hnet =>
      have hbt := CV.boot_booted c _ rnd st' hboot
      rw [hbt.hs]
      rcases boot_committed c _ rnd st' hboot with e | ⟨e1, _⟩
      · rw [e]; exact Nat.le_refl _
      · rw [e1]; exact Nat.zero_le _
    | send hp hu hq hsame hnet =>
      rw [hsame.1]; exact Sa.scm v stk hka
    | call rnd op res hop hnc hca hcall hnet =>
      obtain ⟨hsrc, _, hhs⟩ := call_moreB H2 ha hb hka hkb hnet hop hnc hcall
      have h0 := Sa.scm v stk hka
      rcases hhs with c | ⟨j, rfl, c⟩ | ⟨_, c⟩
      · rw [c]; exact Nat.le_trans h0 hsrc.1
      · rw [c]
        show j ≤ _
        rcases commitApply_call_le hcall with d | d
        · omega
        · exact Nat.le_trans d hsrc.1
      · rw [c]; exact Nat.le_trans h0 hsrc.1
  · have hva : a.node v = some st' := by rw [← hoth v hvk]; exact hvb
    exact Sa.scm v st' hva

theorem ncts_step (H : Hyp3aB cfg c0 h) {n : Nat} (S : SAll h c0 n) {a b : Sys}
    (ha : h[n]? = some a) (hb : h[n + 1]? = some b) :
    ∀ v st', b.node v = some st' →
      Covered h c0 (n + 1) st'.raft.raftLog.store.hardState.commit
        st'.raft.raftLog.store.hardState.term (storeLog st'.raft.raftLog.store) := by
  intro v st' hvb
  have H2 := H.toHyp2wB
  have Sa := S n a (Nat.le_refl _) ha
  obtain ⟨k, stk, stk', hka, hkb, hoth, hs⟩ := stp_of H2 ha hb
  by_cases hvk : v = k
  · subst hvk
    have hkb' := hkb
    rw [hkb] at hvb; cases hvb
    have oa := node_okB H2 ha hka
    have ob := node_okB H2 hb hkb'
    cases hs with
    | restart c rnd hboot hnet =>
      have hbt := CV.boot_booted c _ rnd st' hboot
      obtain ⟨_, _, hsl⟩ := boot_log c _ rnd st' oa.inv.storeWF hboot
      rw [hbt.hs, hsl]
      exact (Sa.ncts v stk hka).mono (Nat.le_succ _) (Nat.le_refl _)
    | send hp hu hq hsame hnet =>
      rw [hsame.1]
      exact (Sa.ncts v stk hka).mono (Nat.le_succ _) (Nat.le_refl _)
    | call rnd op res hop hnc hca hcall hnet =>
      obtain ⟨hsrc, hse, hhs⟩ := call_moreB H2 ha hb hka hkb hnet hop hnc hcall
      by_cases hst : op = .stabilize
      · subst hst
        obtain ⟨k1, k2, k3, _, k5, _, _, _⟩ := stabilize_out oa.inv oa.snap hcall
        have hcm : st'.raft.raftLog.store.hardState.commit =
            stk.raft.raftLog.store.hardState.commit := by
          rcases hhs with c | ⟨j, c, _⟩ | ⟨_, c⟩
          · rw [c]
          · cases c
          · exact c
        rw [hcm, k2.1, k5]
        refine (((Sa.nctm v stk hka).le (Sa.scm v stk hka)).eq (fun j _ => ?_)).mono
          (Nat.le_succ _) (Nat.le_refl _)
        rw [← ob.inv.abs_store_all ob.snap k1 j, k3]
      · have hsl : storeLog st'.raft.raftLog.store = storeLog stk.raft.raftLog.store := by
          rcases hse with c | c
          · exact c.se.storeLog
          · exact absurd c hst
        rw [hsl]
        rcases hhs with c | ⟨j, rfl, c⟩ | ⟨c, _⟩
        · rw [c]; exact (Sa.ncts v stk hka).mono (Nat.le_succ _) (Nat.le_refl _)
        · rw [c]
          show Covered h c0 (n + 1) j stk.raft.raftLog.store.hardState.term _
          obtain ⟨hj1, hj2⟩ := hca j rfl
          rw [hj2.1]
          have hjc : j ≤ stk.raft.raftLog.committed := by
            rcases commitApply_call_le hcall with d | d
            · omega
            · exact d
          refine (((Sa.nctm v stk hka).le hjc).eq (fun i hi => ?_)).mono
            (Nat.le_succ _) (Nat.le_refl _)
          exact (oa.inv.abs_store_persisted oa.snap (by omega)).symm
        · exact absurd c hst
  · have hva : a.node v = some st' := by rw [← hoth v hvk]; exact hvb
    exact (Sa.ncts v st' hva).mono (Nat.le_succ _) (Nat.le_refl _)

end ClusterB
end RaftModel
