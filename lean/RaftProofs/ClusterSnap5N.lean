import RaftProofs.ClusterSnap5M

/-!
[Copy of `ClusterSnap2N.lean` for the development `Snap5` (with `request_snapshot`): `NoReq` is replaced by
`ReqOk`, `SnapCase.restored` is widened — see `ClusterSnap5A.lean`, `RaftProps/C01i.lean`.]

Commit safety of `ClusterSem` with compaction and snapshots, part 2N (as `ClusterSnapM`): the nodes that
do not step (`sm_other`), where the messages of the transport come from (`app_src`, `hb_src`,
`vote_src`, and **`snap_src`** for `MsgSnapshot`s), the anchor of an accepted batch, and a freshly queued
acknowledgement.
-/
namespace RaftModel
namespace Cluster
namespace Snap5
open Node Raft Raft.CC RaftProps.C02 RaftProps.C05 Snap

variable {cfg : JointConfig} {c0 : Nat} {h : List Sys}

/-- **the components for a node that does not step** -/
theorem sm_other (H : Hyp2w cfg c0 h) {n : Nat} {a b : Sys} (ha : h[n]? = some a)
    (hb : h[n + 1]? = some b) (Sa : Sm h c0 n a) {k : Nat} {stk stk' : NState}
    (hk : a.node k = some stk) (hs : Stp a b k stk stk') {v : Nat} (hvk : v ≠ k) {st : NState}
    (hva : a.node v = some st) :
    -- acknowledgements of `v` that are around were around before
    (∀ x, (x ∈ b.net ∨ x ∈ st.raft.msgs) → isAck x → x.index ≠ 0 → x.frm = v →
      (x ∈ a.net ∨ x ∈ st.raft.msgs)) ∧
    (∀ x, x ∈ b.net → isAck x → x.index ≠ 0 → x.frm = v → x ∈ a.net) ∧
    (∀ g, (g ∈ b.net ∨ g ∈ st.raft.msgs) → isGrant g → g.frm = v →
      (g ∈ a.net ∨ g ∈ st.raft.msgs)) := by
  have I1 := (hist_all H.hist).1 a (mem_of_get ha)
  obtain ⟨hq, _⟩ := ack_inv H n a ha
  have hnetack : ∀ x, x ∈ b.net → isAck x → x.index ≠ 0 → x.frm = v → x ∈ a.net := by
    intro x hx hack hidx hfrm
    rcases hs.net_sub x hx with c | c
    · exact c
    · exact absurd ((hq k stk hk x c hack hidx).1.symm.trans hfrm).symm hvk
  refine ⟨fun x hx hack hidx hfrm => ?_, hnetack, fun g hg hig hfrm => ?_⟩
  · rcases hx with c | c
    · exact .inl (hnetack x c hack hidx hfrm)
    · exact .inr c
  · rcases hg with c | c
    · rcases hs.net_sub g c with d | d
      · exact .inl d
      · have hrv : CV.isRVm g = true := by simp [CV.isRVm, hig.1, hig.2]
        exact absurd ((I1.queue k stk hk g d hrv).1.symm.trans hfrm).symm hvk
    · exact .inr c


theorem Covered.mono {h : List Sys} {c0 m m' cm term term' : Nat} {g : LLog}
    (hc : Covered h c0 m cm term g) (hm : m ≤ m') (ht : term ≤ term') :
    Covered h c0 m' cm term' g := by
  rcases hc with c | ⟨E, h1, h2, h3, h4, h5⟩
  · exact .inl c
  · exact .inr ⟨E, h1, Nat.lt_of_lt_of_le h2 hm, h3, Nat.le_trans h4 ht, h5⟩

theorem Promise.mono {h : List Sys} {c0 m m' : Nat} {a : Message} {g : LLog}
    (hp : Promise h c0 m a g) (hm : m ≤ m') : Promise h c0 m' a g := by
  obtain ⟨L, h1, h2⟩ := hp
  exact ⟨L, h1.mono hm, h2⟩

/-- what is known about the sender of a `MsgAppend` -/
structure AppSrc (h : List Sys) (c0 n : Nat) (m : Message) (L : LLog) (cL : Nat) : Prop where
  ll : LeaderLog h c0 n m.term L
  snap : L.snapIdx = c0
  ents : ∀ e ∈ m.entries, L.entryAt e.index = some e
  contig : ContigFrom (m.index + 1) m.entries
  anchor : m.logTerm ≠ 0 → c0 < m.index → Has L m.index m.logTerm
  last : m.index + m.entries.length ≤ L.lastIndex
  commit : m.commit ≤ cL
  cle : cL ≤ L.lastIndex
  cov : Covered h c0 n cL m.term L
  tnz : m.term ≠ 0

theorem app_src (H : Hyp3a cfg c0 h) {n : Nat} (S : SAll h c0 n) {a : Sys} (ha : h[n]? = some a)
    {m : Message} (hm : m ∈ a.net) (hty : m.msgType = .msgAppend) :
    ∃ L cL, AppSrc h c0 n m L cL := by
  obtain ⟨i, n0, hn0, s1, st, h1, h2, h3, h4, h5, h6, h7, h8⟩ :=
    (append_prov H.toHyp2w n a ha).2 m hm hty
  have o := node_ok H.toHyp2w h1 h2
  have I := (ghost_inv H.toHyp2w n0 s1 h1).node i st h2
  have hents := subw_entries h8
  have hanchor : st.raft.raftLog.abs.term m.index = .ok m.logTerm := by
    rw [← o.inv.term_abs]; exact h7
  refine ⟨FL h c0 st, st.raft.raftLog.committed,
    ⟨n0, s1, i, st, hn0, h1, h2, h3, h4, rfl⟩, I.log.snap, fun e he => I.log.entry (hents e he), h8.1,
    fun hz hi => I.log.entry_of_term hanchor hz hi, ?_, h6, ?_, ?_,
    append_term_ne_zero H.toHyp2w ha hm hty⟩
  · -- the batch ends inside the sender's log
    rw [I.log.last]
    by_cases hE : m.entries = []
    · rw [hE]
      simp only [List.length_nil, Nat.add_zero]
      rcases H.anch a (mem_of_get ha) m hm hty with c | c
      · unfold LLog.term at hanchor
        split at hanchor
        · rename_i hout
          injection hanchor with hanchor
          exact absurd hanchor.symm c
        · rename_i hin; omega
      · have := I.log.le
        have := snap_le_last st.raft.raftLog.abs
        omega
    · obtain ⟨e, he⟩ := List.exists_mem_of_ne_nil _ hE
      have hlast : m.entries.getLast? = some (m.entries.getLast hE) := List.getLast?_eq_getLast hE
      have hidx := ContigFrom.getLast h8.1 hlast
      have hin := hents _ (List.getLast_mem hE)
      have := (st.raft.raftLog.abs.entryAt_lt hin).2
      omega
  · rw [I.log.last, ← o.inv.lastIndex_abs]; exact o.inv.committed_le_last
  · exact ((S n0 s1 hn0 h1).nctm i st h2).mono hn0 (Nat.le_of_eq h4)

/-- **the anchor of an accepted batch**: a log that matches the anchor of a `MsgAppend` equals the
sender's log up to the anchor -/
theorem anchor_eq (H : Hyp3a cfg c0 h) {n : Nat} {a : Sys} (ha : h[n]? = some a) {v : Nat}
    {st : NState} (hv : a.node v = some st) {m : Message} (hm : m ∈ a.net)
    (hty : m.msgType = .msgAppend) {N : Nat} {L : LLog} {cL : Nat} (src : AppSrc h c0 N m L cL)
    (hmt : st.raft.raftLog.abs.matchTerm m.index m.logTerm = true) :
    EqUpTo (FL h c0 st) L m.index := by
  have I := (ghost_inv H.toHyp2w n a ha).node v st hv
  by_cases hle : m.index ≤ c0
  · intro k hk
    unfold LLog.entryAt
    rw [if_pos (by rw [I.log.snap]; omega), if_pos (by rw [src.snap]; omega)]
  · rcases H.anch a (mem_of_get ha) m hm hty with c | c
    · exact eq_ll H.toHyp2w ha hv src.ll (I.log.has_of_match hmt c (by omega))
        (src.anchor c (by omega))
    · exact absurd c hle

/-- what is known about the sender of a `MsgHeartbeat` -/
structure HbSrc (h : List Sys) (c0 n : Nat) (net : List Message) (m : Message) (L : LLog)
    (cL : Nat) : Prop where
  ll : LeaderLog h c0 n m.term L
  commit : m.commit ≤ cL
  cle : cL ≤ L.lastIndex
  cov : Covered h c0 n cL m.term L
  ack : m.commit = 0 ∨ ∃ x ∈ net, isAck x ∧ x.frm = m.to ∧ x.term = m.term ∧ m.commit ≤ x.index

theorem hb_src (H : Hyp3a cfg c0 h) {n : Nat} (S : SAll h c0 n) {a : Sys} (ha : h[n]? = some a)
    {m : Message} (hm : m ∈ a.net) (hty : m.msgType = .msgHeartbeat) :
    ∃ L cL, HbSrc h c0 n a.net m L cL := by
  obtain ⟨i, n0, hn0, s1, st, h1, h2, h3, h4, h5, h6, h7⟩ :=
    (hb_prov H.toHyp2w n a ha).2 m hm hty
  have o := node_ok H.toHyp2w h1 h2
  refine ⟨FL h c0 st, st.raft.raftLog.committed,
    ⟨n0, s1, i, st, hn0, h1, h2, h3, h4, rfl⟩, h6, ?_, ?_, ?_⟩
  · rw [fl_last H.toHyp2w h1 h2, ← o.inv.lastIndex_abs]; exact o.inv.committed_le_last
  · exact ((S n0 s1 hn0 h1).nctm i st h2).mono hn0 (Nat.le_of_eq h4)
  · rcases h7 with c | ⟨x, hx, hack, hfrm, hterm, hidx⟩
    · exact .inl c
    · by_cases hz : m.commit = 0
      · exact .inl hz
      · right
        have hmono := (hist_all H.hist).2.2 n0 n s1 a hn0 h1 ha
        have hxa : x ∈ a.net := steps_net hmono x hx
        have hx0 : x.index ≠ 0 := by omega
        have := ((ack_inv H.toHyp2w n0 s1 h1).2 x hx hack hx0).2
        rcases hterm with d | d
        · exact ⟨x, hxa, hack, hfrm, d, hidx⟩
        · exact absurd d this

/-- **provenance of the (pre-)vote messages** -/
theorem vote_prov (H : Hyp2w cfg c0 h) : ∀ (n : Nat) (s : Sys), h[n]? = some s →
    (∀ i st, s.node i = some st → ∀ x ∈ st.raft.msgs, isVoteMsg x.msgType = true →
      Gen (VoteGen h) n i x) ∧
    (∀ x ∈ s.net, isVoteMsg x.msgType = true → ∃ i, Gen (VoteGen h) n i x) := by
  refine provenance H.toHyp (fun x => isVoteMsg x.msgType = true)
    (fun x hx hc => by rw [hc] at hx; cases hx) (VoteGen h) ?_
  intro n a b i st st' rnd op res ha hb hi hi' hcall hop hnc hns hpn _ _ x hx hty
  obtain ⟨g, _, _, _, _⟩ := call_facts H ha hi hop hnc hns hpn hcall
  rcases g.qvk x hx hty with c | c
  · exact .inl c
  · exact .inr ⟨b, st', hb, hi', c⟩

/-- **the commit point of a (pre-)vote message of the transport**: none, or the sender's log held an
entry of that term there, its commit index was at least that — and was covered by a past commit
event —, and the message's term is the sender's term then (plus one for a pre-vote request; a response
that carries a commit point is a rejection) -/
theorem vote_src (H : Hyp2w cfg c0 h) {n : Nat} (S : SAll h c0 n) {a : Sys} (ha : h[n]? = some a)
    {m : Message} (hm : m ∈ a.net) (hty : isVoteMsg m.msgType = true) :
    m.commit = 0 ∨ ∃ (n0 : Nat) (s0 : Sys) (w : Nat) (stw : NState), n0 ≤ n ∧ h[n0]? = some s0 ∧
      s0.node w = some stw ∧ m.commit ≤ stw.raft.raftLog.committed ∧
      stw.raft.raftLog.abs.term m.commit = .ok m.commitTerm ∧ VT stw.raft.term m ∧
      Covered h c0 n stw.raft.raftLog.committed stw.raft.term (FL h c0 stw) := by
  obtain ⟨w, n0, hn0, s0, stw, h1, h2, h3⟩ := (vote_prov H n a ha).2 m hm hty
  rcases h3 with c | ⟨c1, c2, c3⟩
  · exact .inl c
  · right
    have o := node_ok H h1 h2
    refine ⟨n0, s0, w, stw, hn0, h1, h2, c1, by rw [← o.inv.term_abs]; exact c2, c3, ?_⟩
    exact ((S n0 s0 hn0 h1).nctm w stw h2).mono hn0 (Nat.le_refl _)

/-- **a freshly queued acknowledgement, completely**: it answers a `MsgAppend` of the transport of the
node's (new) term; either the batch was accepted and the response acknowledges its end, or the log is
untouched and the response acknowledges the commit index -/
theorem fresh_ack2 (H : Hyp2w cfg c0 h) {n : Nat} {a b : Sys} (ha : h[n]? = some a)
    (hb : h[n + 1]? = some b) {k : Nat}
    {st st' : NState} {rnd : Option Nat} {op : NodeOp} {res : OpRes} (h1 : a.node k = some st)
    (hkb : b.node k = some st')
    (hop : appOp op = true ∨ ∃ m, op = .step m ∧ m ∈ a.net ∧ m.to = k)
    (hnc : ∀ j, op = .compact j → CompactOk st.raft.raftLog j)
    (hns : ∀ m, op = .step m → m.msgType ≠ .msgSnapshot)
    (hpn : st.raft.raftLog.unstable.snapshot = none)
    (h4 : Node.call st rnd op = .ok (res, st'))
    {x : Message} (hx : x ∈ st'.raft.msgs) (hold : x ∉ st.raft.msgs) (hack : isAck x)
    (hidx : x.index ≠ 0) :
    x.frm = k ∧ x.term = st'.raft.term ∧ st'.raft.state = .follower ∧
    ∃ m, op = .step m ∧ m ∈ a.net ∧ m.msgType = .msgAppend ∧ m.term = x.term ∧
      ((FAcc (FL h c0 st) (FL h c0 st') m ∧
          st.raft.raftLog.abs.matchTerm m.index m.logTerm = true ∧
          x.index = m.index + m.entries.length) ∨
       (FL h c0 st' = FL h c0 st ∧ x.index = st.raft.raftLog.committed ∧
          st'.raft.raftLog.committed = st.raft.raftLog.committed)) := by
  obtain ⟨s0, _, hall⟩ := H.inv_at
  have I := hall a (mem_of_get ha)
  rcases fresh_ack H ha h1 hop hnc hns hpn h4 hx hack hidx with c | ⟨c1, c2, c3, c4⟩
  · exact absurd c hold
  refine ⟨c1, c2, c4, ?_⟩
  obtain ⟨g, _, _, _, hid⟩ := call_facts H ha h1 hop hnc hns hpn h4
  rcases g.qak x hx hack with c | c
  · exact absurd c hold
  rcases c.src with d | ⟨_, d2, _, _⟩
  · exact absurd d hidx
  rcases hop with g1 | ⟨m, rfl, g2, g3⟩
  · cases op <;> first | (cases g1; done) | (cases d2; done)
  · have hty : m.msgType = .msgAppend := d2
    have hok := I.msgOk g2 hty
    have hag := I.agree .net (msgLog m) (.log k) _ ⟨m, g2, hty, rfl⟩ ⟨st, h1, rfl⟩
    have hmt := append_term_ne_zero H ha g2 hty
    cases append_call (I.inv k st h1) hty hok hag h4 with
    | noacc hl hc hq =>
      rcases hq x hx with e | e | e | ⟨e1, _, e3⟩
      · exact absurd e hold
      · exact absurd e hidx
      · rw [hack.2] at e; cases e
      · refine ⟨m, rfl, g2, hty, ?_, .inr ⟨FL_same hl, e1, hc⟩⟩
        rcases e3 with e | e
        · rw [c2]; exact e
        · exact absurd e hmt
    | acc ha' _ hci _ ht hq =>
      rcases hq x hx with e | ⟨_, e⟩
      · exact absurd e hold
      · refine ⟨m, rfl, g2, hty, ?_,
          .inl ⟨facc_call H ha hb h1 hkb g2 g3 (hns m rfl) hpn h4 ha' hci, ha'.anchor, e⟩⟩
        rcases ht with e | e
        · rw [c2]; exact e
        · exact absurd e hmt



/-- the snapshot of a storage sits at its recorded commit index -/
theorem snapshotCore_index {s : MemStorage} {sn : Snapshot} (h : s.snapshotCore = .ok sn) :
    sn.metadata.index = s.hardState.commit := by
  unfold MemStorage.snapshotCore at h
  dsimp only at h
  split at h
  · cases h; rfl
  · split at h
    · split at h
      · cases h
      · split at h
        · cases h
        · split at h
          · cases h
          · cases h; rfl
    · cases h

/-- what is known about the sender of a `MsgSnapshot`: a leader of the message's term whose ghost log
holds the snapshot point, which is covered by a past commit event -/
structure SnapSrc (h : List Sys) (c0 n : Nat) (m : Message) (L : LLog) : Prop where
  ll : LeaderLog h c0 n m.term L
  hi : c0 < m.snapshot.metadata.index
  has : Has L m.snapshot.metadata.index m.snapshot.metadata.term
  cov : Covered h c0 n m.snapshot.metadata.index m.term L
  tnz : m.term ≠ 0

theorem snap_src (H : Hyp3a cfg c0 h) {n : Nat} (S : SAll h c0 n) {a : Sys} (ha : h[n]? = some a)
    {m : Message} (hm : m ∈ a.net) (hty : m.msgType = .msgSnapshot) :
    ∃ L, SnapSrc h c0 n m L := by
  have H2 := H.toHyp2w
  obtain ⟨i, n1, hn1, n0, a0, b0, st, st', e1, ha0, hb0, hi, hi', hlead, hterm, _, htle, hsn, hpn⟩ :=
    (snap_prov H2 n a ha).2 m hm hty
  subst e1
  obtain ⟨s0, _, hall⟩ := H2.inv_at
  have hi0 := H.snapidx a (mem_of_get ha) m hm hty
  have Ia := (ghost_inv H2 n0 a0 ha0).node i st hi
  have Ib := (ghost_inv H2 (n0 + 1) b0 hb0).node i st' hi'
  have oa := node_ok H2 ha0 hi
  have hidx := snapshotCore_index hsn
  obtain ⟨es, hes, hest⟩ := snapshotCore_ok Ia oa.inv.storeWF
    (fun e he => (hall a0 (mem_of_get ha0)).nz (.store i) _ ⟨st, hi, rfl⟩ e.index e
      ((storeLog_contig oa.inv.storeWF).entryAt_of_mem he)) hsn hi0
  have Sa := S n0 a0 (by omega) ha0
  have hscm := Sa.scm i st hi
  -- the stored ghost log and the logical ghost log agree up to the recorded commit index
  have hfs : ∀ k, k ≤ m.snapshot.metadata.index →
      (FS h c0 st).entryAt k = (FL h c0 st).entryAt k := by
    intro k hk
    exact covered_agree H2 S Ia.sto.snap Ia.log.snap (Sa.ncts i st hi) (Sa.nctm i st hi)
      (by omega) (by omega) k (by rw [← hidx]; exact hk) (by rw [hidx] at hk; omega)
  -- the step keeps the ghost log up to the commit index
  have hkeep : ∀ k, k ≤ m.snapshot.metadata.index →
      (FL h c0 st').entryAt k = (FL h c0 st).entryAt k := by
    intro k hk
    have hcl : k ≤ st.raft.raftLog.abs.lastIndex := by
      have := oa.inv.committed_le_last
      rw [oa.inv.lastIndex_abs] at this
      rw [hidx] at hk
      omega
    cases fnode_step H2 ha0 hb0 hi hi' with
    | same hl _ => exact hl k
    | grew es hg hl _ => exact hl k hcl
    | acc _ _ _ _ _ _ _ _ hs _ => rw [hs] at hlead; cases hlead
    | restart _ hs _ => rw [hs] at hlead; cases hlead
    | restored _ _ _ _ _ _ _ _ hs _ => rw [hs] at hlead; cases hlead
  have heq : ∀ k, k ≤ m.snapshot.metadata.index →
      (FL h c0 st').entryAt k = (FS h c0 st).entryAt k :=
    fun k hk => (hkeep k hk).trans (hfs k hk).symm
  refine ⟨FL h c0 st', ⟨n0 + 1, b0, i, st', hn1, hb0, hi', hlead, hterm, rfl⟩, hi0,
    ⟨es, by rw [heq _ (Nat.le_refl _)]; exact hes, hest⟩, ?_, snap_term_ne_zero H2 ha hm hty⟩
  rcases Sa.ncts i st hi with c | ⟨E, h1, h2, h3, h4, h5⟩
  · rw [← hidx] at c; omega
  · refine .inr ⟨E, h1, by omega, by rw [hidx]; exact h3, ?_, fun k hk => ?_⟩
    · have := (term_le H n0 a0 ha0).sle i st hi
      omega
    · rw [heq k hk]; exact h5 k (by rw [← hidx]; exact hk)

end Snap5
end Cluster
end RaftModel
