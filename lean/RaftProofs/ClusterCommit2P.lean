import RaftProofs.ClusterCommit2O

/-!
Cluster-level commit safety, part 2P: the hypotheses of the main induction (`Hyp3a`), `stabilize`
completely, and everything the node-level layers say about the commit index and the storage over one
`call` / `deliver` step of a history (`call_more`).
-/
namespace RaftModel
namespace Cluster
open Node Raft Raft.CC RaftProps.C02 RaftProps.C05

/-- where a `MsgReadIndexResp` comes from: some node led the message's term at some earlier point, with
a commit index that covered the message's index -/
def RirSrc (h : List Sys) (n : Nat) (x : Message) : Prop :=
  ∃ n0 s0 w stw, n0 ≤ n ∧ h[n0]? = some s0 ∧ s0.node w = some stw ∧ stw.raft.state = .leader ∧
    stw.raft.term = x.term ∧ x.index ≤ stw.raft.raftLog.committed

/-- **the hypotheses of the main induction** on top of `Hyp2w` — two facts about the messages of the
transport that the induction uses (both are *derived* from the other hypotheses in
`RaftProofs/ClusterCommit4L.lean`: `Hyp3w → Hyp3a`), and one hypothesis on the initial state
(`snapt0`):
* `anch`: a `MsgAppend` is anchored inside its sender's log (`log_term ≠ 0` unless the anchor is the
  common snapshot point) — follows from `next_idx ≤ last_index + 1` for every progress of a leader;
* `rirs`: a `MsgReadIndexResp` was sent by a leader of its term whose commit index covered its index —
  follows from "every pending read index is at most the commit index";
* `snapt0` (a hypothesis on the initial state, like `InitOk`'s bound on the terms of the initial
  entries): the term an initial storage records for the common snapshot point `c0` is not above the
  initial term of any node. -/
structure Hyp3a (cfg : JointConfig) (c0 : Nat) (h : List Sys) : Prop extends Hyp2w cfg c0 h where
  anch : ∀ s ∈ h, ∀ x ∈ s.net, x.msgType = .msgAppend → x.logTerm ≠ 0 ∨ x.index ≤ c0
  rirs : ∀ n s, h[n]? = some s → ∀ x ∈ s.net, x.msgType = .msgReadIndexResp → RirSrc h n x
  snapt0 : ∀ s0, h[0]? = some s0 → ∀ i sti, s0.node i = some sti → ∀ t0,
    sti.raft.raftLog.abs.snapTerm = some t0 → ∀ j stj, s0.node j = some stj → t0 ≤ stj.raft.term

/-- **the hypotheses of the commit layer without proof gaps about the transport**: `Hyp2w` and the
hypothesis `snapt0` on the initial state (`anch` and `rirs` of `Hyp3a` are derived) -/
structure Hyp3w (cfg : JointConfig) (c0 : Nat) (h : List Sys) : Prop extends Hyp2w cfg c0 h where
  snapt0 : ∀ s0, h[0]? = some s0 → ∀ i sti, s0.node i = some sti → ∀ t0,
    sti.raft.raftLog.abs.snapTerm = some t0 → ∀ j stj, s0.node j = some stj → t0 ≤ stj.raft.term

/-- the hypotheses of the commit layer as first stated (`RaftProps/C01c.lean`), with the two former
proof gaps `norir` (in `Hyp2`) and `anch` -/
structure Hyp3 (cfg : JointConfig) (c0 : Nat) (h : List Sys) : Prop extends Hyp2 cfg c0 h where
  anch : ∀ s ∈ h, ∀ x ∈ s.net, x.msgType = .msgAppend → x.logTerm ≠ 0 ∨ x.index ≤ c0
  snapt0 : ∀ s0, h[0]? = some s0 → ∀ i sti, s0.node i = some sti → ∀ t0,
    sti.raft.raftLog.abs.snapTerm = some t0 → ∀ j stj, s0.node j = some stj → t0 ≤ stj.raft.term

theorem Hyp3.toHyp3a {cfg : JointConfig} {c0 : Nat} {h : List Sys} (H : Hyp3 cfg c0 h) :
    Hyp3a cfg c0 h :=
  { toHyp2w := H.toHyp2.toHyp2w, anch := H.anch, snapt0 := H.snapt0,
    rirs := fun n s hn x hx hty =>
      absurd hty (H.norir s (List.mem_iff_getElem?.2 ⟨n, hn⟩) x hx) }

theorem Hyp3.toHyp3w {cfg : JointConfig} {c0 : Nat} {h : List Sys} (H : Hyp3 cfg c0 h) :
    Hyp3w cfg c0 h :=
  { toHyp2w := H.toHyp2.toHyp2w, snapt0 := H.snapt0 }

/-- **`stabilize`**: nothing is left unstable, term and vote are in the storage; role, term, queue,
logical log and cursors are untouched -/
theorem stabilize_out {st st' : NState} {rnd : Option Nat} {res : OpRes}
    (hinv : st.raft.raftLog.Inv) (hsn : st.raft.raftLog.unstable.snapshot = none)
    (h : Node.call st rnd .stabilize = .ok (res, st')) :
    st'.raft.raftLog.unstable.entries = [] ∧ hsPersisted st' ∧
    st'.raft.raftLog.abs = st.raft.raftLog.abs ∧ st'.raft.msgs = st.raft.msgs ∧
    st'.raft.term = st.raft.term ∧ st'.raft.state = st.raft.state ∧
    st'.raft.raftLog.committed = st.raft.raftLog.committed ∧
    st'.raft.raftLog.persisted = st.raft.raftLog.persisted := by
  unfold Node.call at h
  simp only [applyOp] at h
  have hinv' : ({ st.raft with nextRand := rnd } : Raft).raftLog.Inv := hinv
  obtain ⟨e1, e2⟩ := stabilize_abs (st := { st with raft := { st.raft with nextRand := rnd } })
    hinv' hsn h
  unfold Node.stabilize at h
  simp only [] at h
  split at h
  · rename_i l hl0
    have hl : st.raft.raftLog.stabilise = .ok l := hl0
    cases h
    obtain ⟨l2, k1, _, _, k4, k5, _, k7, _⟩ := RaftProps.C14.stabilise_ok hinv hsn
    rw [hl] at k1
    cases k1
    exact ⟨k7, ⟨rfl, rfl⟩, e1, e2, rfl, rfl, k4, k5⟩
  · cases h
  · cases h

variable {cfg : JointConfig} {c0 : Nat} {h : List Sys}

/-- the term recorded for the snapshot point never changes -/
theorem snapTerm_const (H : Hyp2w cfg c0 h) : ∀ (n : Nat) (s : Sys), h[n]? = some s →
    ∀ v st, s.node v = some st → ∃ s0 st0, h[0]? = some s0 ∧ s0.node v = some st0 ∧
      st.raft.raftLog.abs.snapTerm = st0.raft.raftLog.abs.snapTerm := by
  refine hist_induct h _ ?_ ?_
  · intro s h0 v st hv
    exact ⟨s, st, h0, hv, rfl⟩
  · intro n a b ha hb ih v stb hvb
    obtain ⟨sta, hva⟩ := step_node_back (H.steps n a b ha hb).step v stb hvb
    obtain ⟨s0, st0, h0, hv0, he⟩ := ih v sta hva
    refine ⟨s0, st0, h0, hv0, ?_⟩
    rw [← he]
    cases node_step H ha hb hva hvb with
    | same hl => rw [hl]
    | grew es hg => rw [hg.abs]
    | acc m _ _ _ hacc _ _ _ _ => exact hacc.snap.2
    | restart hl _ _ =>
      rw [hl, RaftLog.abs_none (node_ok H ha hva).snap]
      rfl

/-- the term of the common snapshot point is not above the initial term of any node, in every state -/
theorem Hyp3a.snapt (H : Hyp3a cfg c0 h) : ∀ s ∈ h, ∀ i st, s.node i = some st → ∀ t0,
    st.raft.raftLog.abs.snapTerm = some t0 →
    ∀ s0, h[0]? = some s0 → ∀ j st0, s0.node j = some st0 → t0 ≤ st0.raft.term := by
  intro s hs i st hi t0 ht0 s0 h0 j st0 hj
  obtain ⟨n, hn⟩ := List.mem_iff_getElem?.1 hs
  obtain ⟨s0', sti, h0', hi0, he⟩ := snapTerm_const H.toHyp2w n s hn i st hi
  rw [h0] at h0'; cases h0'
  exact H.snapt0 s0 h0 i sti hi0 t0 (by rw [← he]; exact ht0) j st0 hj

theorem Hyp3.snapt (H : Hyp3 cfg c0 h) : ∀ s ∈ h, ∀ i st, s.node i = some st → ∀ t0,
    st.raft.raftLog.abs.snapTerm = some t0 →
    ∀ s0, h[0]? = some s0 → ∀ j st0, s0.node j = some st0 → t0 ≤ st0.raft.term :=
  H.toHyp3a.snapt

/-- the commit index and the storage over one `call` / `deliver` step of the history -/
theorem call_more (H : Hyp2w cfg c0 h) {n : Nat} {a : Sys} {i : Nat} {st st' : NState}
    {rnd : Option Nat} {op : NodeOp} {res : OpRes}
    (ha : h[n]? = some a) (hi : a.node i = some st)
    (hop : appOp op = true ∨ ∃ m, op = .step m ∧ m ∈ a.net ∧ m.to = i)
    (hc : ∀ j, op ≠ .compact j)
    (hcall : Node.call st rnd op = .ok (res, st')) :
    Src st st' op ∧ (SE st.raft st'.raft ∨ op = .stabilize) ∧ HsOut st st' op := by
  obtain ⟨s0, _, hall⟩ := H.inv_at
  have I := hall a (mem_of_get ha)
  have hnb := H.nb a (mem_of_get ha)
  have hsn := H.nosnap a (mem_of_get ha)
  have hop' : op ≠ .drain ∧ ∀ m, op ≠ .rstep m := by
    rcases hop with h1 | ⟨m, h1, _⟩
    · constructor
      · intro hc; rw [hc] at h1; cases h1
      · intro m hc; rw [hc] at h1; cases h1
    · rw [h1]
      exact ⟨(by intro hc; cases hc), (by intro m' hc; cases hc)⟩
  have hms : ∀ m, op = .step m → m.msgType ≠ .msgSnapshot := by
    intro m hm
    rcases hop with h1 | ⟨m', h1, h2, _⟩
    · rw [hm] at h1; cases h1
    · rw [hm] at h1; cases h1; exact hsn m h2
  have hw : ∀ m, op = .step m → m.msgType = .msgAppend → MsgOk m := by
    intro m hm hty
    rcases hop with h1 | ⟨m', h1, h2, _⟩
    · rw [hm] at h1; cases h1
    · rw [hm] at h1; cases h1
      exact I.msgOk h2 hty
  have hs1 := (H.shape a (mem_of_get ha) i st hi).1
  exact ⟨call_src st st' rnd op res (I.inv i st hi) hop' hc hs1 hcall,
    call_sto st st' rnd op res (I.inv i st hi) (hnb i st hi) hop' hw hms hc hs1 hcall,
    call_hs st st' rnd op res hop' hs1 hcall⟩

end Cluster
end RaftModel
