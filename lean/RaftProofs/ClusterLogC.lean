import RaftProofs.ClusterLogB

/-!
Cluster-level Log Matching, helper lemmas part C: what `append_entry`, `become_leader`, the
elections, `restore` and finally `Raft::step` do to the logical log **and** to the queue of
`MsgAppend`s and the stored entries.  The case analysis is `step_log` of `RaftProofs/RaftNodeC05.lean`
with `LS` strengthened to `K0` and `Appended` / `Won` / `Restored` carrying the queue facts.
-/
namespace RaftModel
namespace Raft

theorem SubW.mono {x : Message} {g h : LLog} (hx : SubW x g) (hs : Sub g h) : SubW x h :=
  ⟨hx.1, hx.2.trans hs⟩

/-- the queue / storage half of a call whose final logical log is `r`'s: same stored entries, same
batching flag, and every queued `MsgAppend` was queued in `a` or is a sub-log of `r`'s logical log -/
structure QS (a r : Raft) : Prop where
  ents : r.raftLog.store.entries = a.raftLog.store.entries
  smeta : r.raftLog.store.snapshotMetadata = a.raftLog.store.snapshotMetadata
  ba : r.batchAppend = a.batchAppend
  q : ∀ x ∈ r.msgs, x.msgType = .msgAppend → x ∈ a.msgs ∨ SubW x r.raftLog.abs

/-- … for a call that replaced the logical log: every queued `MsgAppend` was queued in `a` or is a
sub-log of the logical log of `a` -/
structure QN (a r : Raft) : Prop where
  ents : r.raftLog.store.entries = a.raftLog.store.entries
  smeta : r.raftLog.store.snapshotMetadata = a.raftLog.store.snapshotMetadata
  ba : r.batchAppend = a.batchAppend
  q : ∀ x ∈ r.msgs, x.msgType = .msgAppend → x ∈ a.msgs ∨ SubW x a.raftLog.abs

theorem K0.qs {a r : Raft} (h : K0 a r) : QS a r :=
  ⟨h.ls.ents, h.ls.smeta, h.ba, fun x hx hty => by rw [h.abs]; exact h.q x hx hty⟩

theorem K.rfl' {r : Raft} : K0 r r := ⟨LogSameS.rfl, Eq.refl _, fun _ hx _ => .inl hx⟩

theorem K0.trans {a b c : Raft} (h1 : K0 a b) (h2 : K0 b c) : K0 a c := by
  refine ⟨h1.ls.trans h2.ls, h2.ba.trans h1.ba, fun x hx hty => ?_⟩
  rcases h2.q x hx hty with h | h
  · exact h1.q x h hty
  · right; rw [← h1.abs]; exact h

/-- the standing assumptions move along `K0` -/
theorem K0.std {a r : Raft} (h : K0 a r) (hi : a.raftLog.Inv) (hb : a.batchAppend = false) :
    r.raftLog.Inv ∧ r.batchAppend = false := ⟨h.inv hi, h.ba.trans hb⟩

/-- `K` from `r` on, composed with `K0` up to `r` -/
theorem K0.then {a r r' : Raft} (h : K0 a r) (hi : a.raftLog.Inv) (hb : a.batchAppend = false)
    (h2 : K r r') : K0 a r' :=
  h.trans (h2 (h.std hi hb).1 (h.std hi hb).2)

theorem QS.anchor {a r r' : Raft} (h0 : K0 a r) (hext : Sub r.raftLog.abs r'.raftLog.abs)
    (h : QS r r') : QS a r' := by
  refine ⟨h.ents.trans h0.ls.ents, h.smeta.trans h0.ls.smeta, h.ba.trans h0.ba, fun x hx hty => ?_⟩
  rcases h.q x hx hty with c | c
  · rcases h0.q x c hty with d | d
    · exact .inl d
    · right; rw [← h0.abs] at d; exact d.mono hext
  · exact .inr c

theorem QS.right {a r r' : Raft} (h : QS a r) (h1 : K0 r r') : QS a r' := by
  refine ⟨h1.ls.ents.trans h.ents, h1.ls.smeta.trans h.smeta, h1.ba.trans h.ba, fun x hx hty => ?_⟩
  rcases h1.q x hx hty with c | c
  · rcases h.q x c hty with d | d
    · exact .inl d
    · right; rw [h1.abs]; exact d
  · right; rw [h1.abs]; exact c

theorem K0.qn {a r : Raft} (h : K0 a r) : QN a r := ⟨h.ls.ents, h.ls.smeta, h.ba, h.q⟩

/-! ### `append_entry` -/

theorem appendEntry_fields {r r' : Raft} {es : List Entry} {b : Bool}
    (h : r.appendEntry es = .ok (r', b)) :
    r'.msgs = r.msgs ∧ r'.batchAppend = r.batchAppend ∧ r'.raftLog.store = r.raftLog.store := by
  unfold Raft.appendEntry at h
  split at h
  · cases h; exact ⟨rfl, rfl, rfl⟩
  · rename_i r1 hinc
    have hl1 : r1.raftLog = r.raftLog ∧ r1.msgs = r.msgs ∧ r1.batchAppend = r.batchAppend := by
      unfold Raft.maybeIncreaseUncommittedSize at hinc
      split at hinc
      cases hinc; exact ⟨rfl, rfl, rfl⟩
    simp only [] at h
    split at h
    · rename_i log k happ
      cases h
      exact ⟨hl1.2.1, hl1.2.2, (RaftModel.C06.append_store happ).trans (by rw [hl1.1])⟩
    · cases h
    · cases h

/-- `Appended` with the queue facts -/
structure AppendedK (a r : Raft) (es : List Entry) : Prop where
  app : Appended a r es
  qs : QS a r

theorem Appended.sub {a r : Raft} {es : List Entry} (h : Appended a r es) :
    Sub a.raftLog.abs r.raftLog.abs := by
  rw [h.abs]; exact Sub.append _ _

theorem AppendedK.anchor {a r r' : Raft} {es : List Entry} (h0 : K0 a r)
    (h : AppendedK r r' es) : AppendedK a r' es :=
  ⟨Appended.anchor h0.ls.same h.app, QS.anchor h0 h.app.sub h.qs⟩

theorem AppendedK.right {a r r' : Raft} {es : List Entry} (h : AppendedK a r es)
    (h1 : K0 r r') (h2 : Frame r r') : AppendedK a r' es :=
  ⟨h.app.right h1.ls.same h2, h.qs.right h1⟩

theorem appendEntry_k {r r' : Raft} {es : List Entry} {b : Bool} (hinv : r.raftLog.Inv)
    (hs : r.state = .leader) (h : r.appendEntry es = .ok (r', b)) :
    (b = false ∧ r' = r) ∨
    (b = true ∧ es = [] ∧ K0 r r' ∧ Frame r r') ∨
    (b = true ∧ AppendedK r r' (stampFrom r.term (r.raftLog.lastIndex + 1) es) ∧ Frame r r') := by
  obtain ⟨f1, f2, f3⟩ := appendEntry_fields h
  rcases appendEntry_cases hinv hs h with c | ⟨c1, c2, c3, c4⟩ | ⟨c1, c2, c3⟩
  · exact .inl c
  · refine .inr (.inl ⟨c1, c2, ⟨⟨c3, by rw [f3], by rw [f3]⟩, f2, fun x hx _ => .inl (by rw [← f1]; exact hx)⟩, c4⟩)
  · refine .inr (.inr ⟨c1, ⟨c2, ⟨by rw [f3], by rw [f3], f2, fun x hx _ => .inl (by rw [← f1]; exact hx)⟩⟩, c3⟩)

/-! ### `become_leader`, elections -/

/-- `Won` with the queue facts -/
def WonK (a r : Raft) : Prop := AppendedK a r [leaderNoop r.term (a.raftLog.lastIndex + 1)]

theorem WonK.won {a r : Raft} (h : WonK a r) : Won a r := h.app

theorem WonK.right {a r r' : Raft} (h : WonK a r) (h1 : K0 r r') (h2 : Frame r r') : WonK a r' := by
  unfold WonK
  rw [h2.term]
  exact AppendedK.right h h1 h2

theorem reset_k0 {a r : Raft} (t : Nat) (h0 : K0 a r) : K0 a (r.reset t) :=
  ⟨by rw [reset_raftLog]; exact h0.ls, by rw [reset_batchAppend]; exact h0.ba,
   by rw [reset_msgs]; exact h0.q⟩

theorem becomeLeader_k {a r r' : Raft} (hinv : a.raftLog.Inv) (h0 : K0 a r)
    (h : r.becomeLeader = .ok r') : WonK a r' := by
  unfold Raft.becomeLeader at h
  split at h
  · cases h
  · simp only [] at h
    split at h
    · cases h
    · split at h
      · cases h
      · rename_i pr hpr
        have hl : K0 a (r.reset r.term) := reset_k0 _ h0
        split at h
        · rename_i r2 happ
          cases h
          rcases appendEntry_k (by exact hl.inv hinv) (by rfl) happ with ⟨hb, _⟩ | ⟨_, he, _⟩ | ⟨_, hA, hfr⟩
          · cases hb
          · cases he
          · have hA' := AppendedK.anchor (a := a) (by exact hl) hA
            unfold WonK
            rw [hfr.term, ← LS.last hl.ls.same]
            exact hA'
        · cases h
        · cases h
        · cases h

theorem pollWith_k {a r r' : Raft} {onPreWin : Raft → Res Raft} {frm : Nat} {t : MsgType}
    {v : Bool} {res : VoteResult}
    (hpre : ∀ r r', K0 a r → onPreWin r = .ok r' → K0 a r' ∨ WonK a r')
    (hinv : a.raftLog.Inv) (hnb : a.batchAppend = false) (h0 : K0 a r)
    (h : pollWith onPreWin r frm t v = .ok (r', res)) :
    K0 a r' ∨ WonK a r' := by
  unfold Raft.pollWith at h
  simp only at h
  generalize hres : (r.prs.recordVote frm v).tallyVotes.2.2 = res0 at h
  cases res0 with
  | won =>
    simp only at h
    split at h
    · rw [Res.bind_eq_ok_iff] at h
      obtain ⟨r2, h1, h2⟩ := h
      cases h2
      exact hpre _ _ (by exact h0) h1
    · rw [Res.bind_eq_ok_iff] at h
      obtain ⟨r2, h1, h2⟩ := h
      cases h2
      rw [Res.bind_eq_ok_iff] at h1
      obtain ⟨r3, h3, h4⟩ := h1
      have hw := becomeLeader_k hinv (by exact h0) h3
      have hb3 : r3.batchAppend = false := (hw.qs.ba.trans hnb)
      exact .inr (hw.right (bcastAppend_k h4 K.rfl hw.app.inv hb3) (bcastAppend_frame h4 Frame.rfl))
  | lost =>
    simp only at h
    cases h
    exact .inl (becomeFollower_k _ _ (fun _ _ => by exact h0) hinv hnb)
  | pending =>
    simp only at h
    cases h
    exact .inl h0

theorem campaignWith_k {a r r' : Raft}
    {poll : Raft → Nat → MsgType → Bool → Res (Raft × VoteResult)} {ct : CampaignType}
    (hpoll : ∀ r frm t v r' res, K0 a r → poll r frm t v = .ok (r', res) → K0 a r' ∨ WonK a r')
    (hinv : a.raftLog.Inv) (hnb : a.batchAppend = false)
    (h0 : K0 a r) (h : campaignWith poll r ct = .ok r') : K0 a r' ∨ WonK a r' := by
  unfold Raft.campaignWith at h
  rw [Res.bind_eq_ok_iff] at h
  obtain ⟨⟨r1, vm, t⟩, h1, h2⟩ := h
  have hl1 : K0 a r1 ∧ vm ≠ .msgAppend := by
    split at h1
    · rw [Res.bind_eq_ok_iff] at h1
      obtain ⟨r0, h3, h4⟩ := h1
      split at h4
      · cases h4
      · cases h4; exact ⟨becomePreCandidate_k h3 (fun _ _ => h0) hinv hnb, by decide⟩
    · rw [Res.bind_eq_ok_iff] at h1
      obtain ⟨r0, h3, h4⟩ := h1
      cases h4; exact ⟨becomeCandidate_k h3 (fun _ _ => h0) hinv hnb, by decide⟩
  obtain ⟨hl1, hvm⟩ := hl1
  simp only at h2
  rw [Res.bind_eq_ok_iff] at h2
  obtain ⟨⟨r2, res⟩, h5, h6⟩ := h2
  simp only at h6
  rcases hpoll _ _ _ _ _ _ hl1 h5 with hl2 | hw
  · split at h6
    · cases h6; exact .inl hl2
    · exact .inl (sendVoteRequests_k hvm h6 (fun _ _ => hl2) hinv hnb)
  · split at h6
    · cases h6; exact .inr hw
    · exact .inr (hw.right (sendVoteRequests_k hvm h6 K.rfl hw.app.inv (hw.qs.ba.trans hnb))
        (RaftProps.C16.sendVoteRequests_frame h6 Frame.rfl))

theorem campaignAfterPreVote_k {a r r' : Raft} (hinv : a.raftLog.Inv) (hnb : a.batchAppend = false)
    (h0 : K0 a r) (h : r.campaignAfterPreVote = .ok r') : K0 a r' ∨ WonK a r' := by
  unfold Raft.campaignAfterPreVote at h
  refine campaignWith_k ?_ hinv hnb h0 h
  intro r1 frm t v r2 res hl hp
  exact pollWith_k (fun _ _ _ hc => by cases hc) hinv hnb hl hp

theorem poll_k {a r r' : Raft} {frm : Nat} {t : MsgType} {v : Bool} {res : VoteResult}
    (hinv : a.raftLog.Inv) (hnb : a.batchAppend = false) (h0 : K0 a r)
    (h : r.poll frm t v = .ok (r', res)) : K0 a r' ∨ WonK a r' := by
  unfold Raft.poll at h
  exact pollWith_k (fun _ _ hl hc => campaignAfterPreVote_k hinv hnb hl hc) hinv hnb h0 h

theorem campaign_k {a r r' : Raft} {ct : CampaignType} (hinv : a.raftLog.Inv)
    (hnb : a.batchAppend = false) (h0 : K0 a r)
    (h : r.campaign ct = .ok r') : K0 a r' ∨ WonK a r' := by
  unfold Raft.campaign at h
  exact campaignWith_k (fun _ _ _ _ _ _ hl hp => poll_k hinv hnb hl hp) hinv hnb h0 h

theorem hup_k {a r r' : Raft} {tl : Bool} (hinv : a.raftLog.Inv) (hnb : a.batchAppend = false)
    (h0 : K0 a r) (h : r.hup tl = .ok r') : K0 a r' ∨ (WonK a r' ∧ r.state ≠ .leader) := by
  unfold Raft.hup at h
  split at h
  · cases h; exact .inl h0
  · rename_i hnl
    have key : ∀ ct, r.campaign ct = .ok r' → K0 a r' ∨ (WonK a r' ∧ r.state ≠ .leader) := by
      intro ct hc
      rcases campaign_k hinv hnb h0 hc with c | c
      · exact .inl c
      · exact .inr ⟨c, hnl⟩
    split at h
    · cases h; exact .inl h0
    · split at h
      · cases h
      · cases h
      · cases h; exact .inl h0
      · split at h
        · cases h; exact .inl h0
        · split at h
          · exact key _ h
          · split at h
            · exact key _ h
            · exact key _ h

/-! ### `step_leader` -/

theorem handleReadyReadIndex_k1 {a r r' : Raft} {req : Message} {i : Nat} {om : Option Message}
    (h : r.handleReadyReadIndex req i = .ok (r', om)) (h0 : K a r) : K a r' :=
  (handleReadyReadIndex_k h h0).1

theorem sendReadIndexResp_k {a r r1 r' : Raft} {req m' : Message} {i : Nat}
    (h : r.handleReadyReadIndex req i = .ok (r1, some m')) (hs : r1.send m' = .ok r')
    (h0 : K a r) : K a r' :=
  send_k hs (by rw [(handleReadyReadIndex_k h h0).2 m' rfl]; rfl) (handleReadyReadIndex_k h h0).1

theorem stepLeader_k {a r r' : Raft} {m : Message} {e : Option RaftError}
    (hinv : a.raftLog.Inv) (hnb : a.batchAppend = false) (h0 : K0 a r) (hs : r.state = .leader)
    (h : r.stepLeader m = .ok (r', e)) :
    K0 a r' ∨
    (m.msgType = .msgPropose ∧ e = none ∧ ∃ es, es.length = m.entries.length ∧
      AppendedK a r' (stampFrom r.term (a.raftLog.lastIndex + 1) es)) := by
  have h0' : K a r := fun _ _ => h0
  unfold Raft.stepLeader at h
  split at h
  · refine .inl ?_
    have : K a r' := by k_auto h [bcastHeartbeat_k]
    exact this hinv hnb
  · refine .inl ?_
    have : K a r' := by k_auto h [checkQuorumActive_k, becomeFollower_k]
    exact this hinv hnb
  · rename_i hm
    split at h
    · cases h
    · split at h
      · cases h; exact .inl h0
      · split at h
        · cases h; exact .inl h0
        · split at h
          · rename_i r1 hf
            cases h
            exact .inl (filterProposal_k _ _ _ _ _ hf h0' hinv hnb)
          · rename_i r1 es hf
            have hl1 : K0 a r1 := filterProposal_k _ _ _ _ _ hf h0' hinv hnb
            have hf1 : Frame r r1 := filterProposal_frame _ _ _ _ _ hf Frame.rfl
            have hlen := filterProposal_length _ _ _ _ _ hf
            obtain ⟨hi1, hb1⟩ := hl1.std hinv hnb
            split at h
            · rename_i r2 happ
              cases h
              rcases appendEntry_k hi1 (hf1.state.trans hs) happ with
                ⟨_, he⟩ | ⟨hb, _⟩ | ⟨hb, _⟩
              · rw [he]; exact .inl hl1
              · cases hb
              · cases hb
            · rename_i r2 happ
              rw [Res.bind_eq_ok_iff] at h
              obtain ⟨r3, hb, h3⟩ := h
              cases h3
              rcases appendEntry_k hi1 (hf1.state.trans hs) happ with
                ⟨hb', _⟩ | ⟨_, _, hl2, _⟩ | ⟨_, hA, hf2⟩
              · cases hb'
              · have hl12 := hl1.trans hl2
                exact .inl (hl12.then hinv hnb (bcastAppend_k hb K.rfl))
              · refine .inr ⟨hm, rfl, es, hlen, ?_⟩
                have hA1 := AppendedK.anchor hl1 hA
                have hA' := hA1.right
                  (bcastAppend_k hb K.rfl hA1.app.inv (hA1.qs.ba.trans hnb))
                  (bcastAppend_frame hb Frame.rfl)
                rw [hf1.term, hl1.ls.same.last] at hA'
                exact hA'
            · cases h
            · cases h
  · refine .inl ?_
    have : K a r' := by
      k_auto h [handleReadyReadIndex_k1, sendReadIndexResp_k, bcastHeartbeatWithCtx_k]
    exact this hinv hnb
  · refine .inl ?_
    have : K a r' := by k_auto h [handleAppendResponse_k]
    exact this hinv hnb
  · refine .inl ?_
    have : K a r' := by k_auto h [handleHeartbeatResponse_k]
    exact this hinv hnb
  · cases h; exact .inl (handleSnapshotStatus_k h0' hinv hnb)
  · cases h; exact .inl (handleUnreachable_k h0' hinv hnb)
  · refine .inl ?_
    have : K a r' := by k_auto h [handleTransferLeader_k]
    exact this hinv hnb
  · cases h; exact .inl h0

/-! ### snapshots -/

/-- `Restored` with the queue facts: nothing but non-`MsgAppend` messages were queued -/
structure RestoredK (a r : Raft) (sn : Snapshot) : Prop where
  res : Restored a r sn
  qn : QN a r

theorem K0.qn_send {a r r' : Raft} {m : Message} (h0 : QN a r) (h : r.send m = .ok r')
    (hm : m.msgType ≠ .msgAppend) : QN a r' := by
  rw [send_eq r r' m h]
  refine ⟨h0.ents, h0.smeta, h0.ba, fun x hx hty => ?_⟩
  rcases List.mem_append.1 hx with hx | hx
  · exact h0.q x hx hty
  · rw [List.mem_singleton.1 hx, sendFill_msgType] at hty
    exact absurd hty hm

theorem restore_k {a r r' : Raft} {snap : Snapshot} {b : Bool} (hinv : a.raftLog.Inv)
    (hnb : a.batchAppend = false) (h0 : K0 a r) (h : r.restore snap = .ok (r', b)) :
    K0 a r' ∨ (b = true ∧ RestoredK a r' snap) := by
  have h0' : K a r := fun _ _ => h0
  unfold Raft.restore at h
  simp only [] at h
  split at h
  · cases h; exact .inl h0
  · rename_i hge
    split at h
    · split at h
      · cases h
      · cases h; exact .inl (becomeFollower_k _ _ h0' hinv hnb)
    · rename_i hfol
      split at h
      · cases h; exact .inl h0
      · split at h
        · cases h
        · cases h
        · split at h
          · rename_i log hc
            cases h; exact .inl (K.log (logS_commitTo hc) h0' hinv hnb)
          · cases h
          · cases h
        · split at h
          · cases h
          · cases h
          · rename_i log hr
            split at h
            · cases h
            · rename_i prs hprs
              have hst : ¬ (({ r with raftLog := log, prs := prs } : Raft).state = .leader) := by
                show ¬ (r.state = .leader)
                intro hc
                rw [hc] at hfol
                exact hfol (by decide)
              rw [RaftProps.C20.postConfChange_nonleader _ hst] at h
              simp only [Res.bind] at h
              split at h
              · cases h
              · split at h
                · cases h
                · split at h
                  · cases h
                  · split at h
                    rotate_left
                    · cases h
                    · cases h
                    cases h
                    have hri := h0.inv hinv
                    obtain ⟨l', hr', hinv', habs', hcm', _, _⟩ :=
                      (RaftProps.C14.C14_restore_spec r.raftLog hri snap).1 (by omega)
                    rw [hr] at hr'
                    cases hr'
                    have hsto := RaftModel.C06.restore_store hr
                    refine .inr ⟨rfl, ⟨⟨habs', hinv', Nat.le_trans h0.ls.same.commit (by omega),
                      by show _ ≤ log.committed; omega⟩, ?_⟩⟩
                    refine ⟨?_, ?_, h0.ba, h0.q⟩
                    · show log.store.entries = _; rw [hsto]; exact h0.ls.ents
                    · show log.store.snapshotMetadata = _; rw [hsto]; exact h0.ls.smeta

theorem handleSnapshot_k {a r r' : Raft} {m : Message} (hinv : a.raftLog.Inv)
    (hnb : a.batchAppend = false) (h0 : K0 a r)
    (h : r.handleSnapshot m = .ok r') : K0 a r' ∨ RestoredK a r' m.snapshot := by
  unfold Raft.handleSnapshot at h
  rw [Res.bind_eq_ok_iff] at h
  obtain ⟨⟨r1, ok⟩, hr, h2⟩ := h
  simp only [] at h2
  rcases restore_k hinv hnb h0 hr with hl | ⟨_, hR⟩
  · split at h2
    · exact .inl (send_k h2 rfl (fun _ _ => hl) hinv hnb)
    · exact .inl (send_k h2 rfl (fun _ _ => hl) hinv hnb)
  · split at h2
    · exact .inr ⟨hR.res.right (send_ls h2 LS.rfl), K0.qn_send hR.qn h2 (by intro hc; cases hc)⟩
    · exact .inr ⟨hR.res.right (send_ls h2 LS.rfl), K0.qn_send hR.qn h2 (by intro hc; cases hc)⟩

/-! ### `step_follower`, `step_candidate`, `step` -/

theorem stepFollower_k {a r r' : Raft} {m : Message} {e : Option RaftError}
    (hinv : a.raftLog.Inv) (hnb : a.batchAppend = false) (h0 : K0 a r) (hs : r.state = .follower)
    (h : r.stepFollower m = .ok (r', e)) :
    K0 a r' ∨ (m.msgType = .msgTimeoutNow ∧ WonK a r') ∨
    (m.msgType = .msgAppend ∧ ∃ r0, K0 a r0 ∧ r0.state = .follower ∧
      r0.handleAppendEntries m = .ok r') ∨
    (m.msgType = .msgSnapshot ∧ RestoredK a r' m.snapshot) := by
  have h0' : K a r := fun _ _ => h0
  have fwd : ∀ (x : Nat), m.msgType ≠ .msgAppend →
      (r.send { m with to := x }).bind (fun r => Res.ok (r, (none : Option RaftError))) = .ok (r', e) →
      K0 a r' := by
    intro x hne hh
    rw [Res.bind_eq_ok_iff] at hh
    obtain ⟨r1, h1, h2⟩ := hh
    cases h2
    exact send_k h1 (by simp [hne]) h0' hinv hnb
  unfold Raft.stepFollower at h
  split at h
  · rename_i hm
    refine .inl ?_
    split at h
    · cases h; exact h0
    · split at h
      · cases h; exact h0
      · exact fwd _ (by rw [hm]; decide) h
  · rename_i hm
    rw [Res.bind_eq_ok_iff] at h
    obtain ⟨r1, h1, h2⟩ := h
    cases h2
    exact .inr (.inr (.inl ⟨hm, { r with electionElapsed := 0, leaderId := m.frm }, h0, hs, h1⟩))
  · rw [Res.bind_eq_ok_iff] at h
    obtain ⟨r1, h1, h2⟩ := h
    cases h2
    exact .inl (handleHeartbeat_k h1 (by exact h0') hinv hnb)
  · rename_i hm
    rw [Res.bind_eq_ok_iff] at h
    obtain ⟨r1, h1, h2⟩ := h
    cases h2
    rcases handleSnapshot_k hinv hnb (by exact h0) h1 with c | c
    · exact .inl c
    · exact .inr (.inr (.inr ⟨hm, c⟩))
  · rename_i hm
    refine .inl ?_
    split at h
    · cases h; exact h0
    · exact fwd _ (by rw [hm]; decide) h
  · rename_i hm
    split at h
    · rw [Res.bind_eq_ok_iff] at h
      obtain ⟨r1, h1, h2⟩ := h
      cases h2
      rcases hup_k hinv hnb h0 h1 with c | ⟨c, _⟩
      · exact .inl c
      · exact .inr (.inl ⟨hm, c⟩)
    · cases h; exact .inl h0
  · rename_i hm
    refine .inl ?_
    split at h
    · cases h; exact h0
    · exact fwd _ (by rw [hm]; decide) h
  · split at h
    · simp only [] at h
      split at h
      · rename_i log b hmc
        cases h
        exact .inl (K.log (r := { r with readStates := _ }) (logS_maybeCommit hmc) (by exact h0') hinv hnb)
      · cases h
      · cases h
    · cases h; exact .inl h0
  · cases h; exact .inl h0

theorem stepCandidate_k {a r r' : Raft} {m : Message} {e : Option RaftError}
    (hinv : a.raftLog.Inv) (hnb : a.batchAppend = false) (h0 : K0 a r)
    (h : r.stepCandidate m = .ok (r', e)) :
    K0 a r' ∨
    ((m.msgType = .msgRequestVoteResponse ∨ m.msgType = .msgRequestPreVoteResponse) ∧ WonK a r') ∨
    (m.msgType = .msgAppend ∧ ∃ r0, K0 a r0 ∧ r0.state = .follower ∧
      r0.handleAppendEntries m = .ok r') ∨
    (m.msgType = .msgSnapshot ∧ RestoredK a r' m.snapshot) := by
  have h0' : K a r := fun _ _ => h0
  have votes : ∀ (hm : m.msgType = .msgRequestVoteResponse ∨ m.msgType = .msgRequestPreVoteResponse),
      ((r.poll m.frm m.msgType (!m.reject)).bind (fun (p : Raft × VoteResult) =>
        (p.1.maybeCommitByVote m).bind (fun r => Res.ok (r, (none : Option RaftError))))) = .ok (r', e) →
      K0 a r' ∨
      ((m.msgType = .msgRequestVoteResponse ∨ m.msgType = .msgRequestPreVoteResponse) ∧ WonK a r') ∨
      (m.msgType = .msgAppend ∧ ∃ r0, K0 a r0 ∧ r0.state = .follower ∧
        r0.handleAppendEntries m = .ok r') ∨
      (m.msgType = .msgSnapshot ∧ RestoredK a r' m.snapshot) := by
    intro hm h
    rw [Res.bind_eq_ok_iff] at h
    obtain ⟨⟨r1, res⟩, h1, h2⟩ := h
    simp only [] at h2
    rw [Res.bind_eq_ok_iff] at h2
    obtain ⟨r2, h3, h4⟩ := h2
    cases h4
    rcases poll_k hinv hnb h0 h1 with c | c
    · exact .inl (maybeCommitByVote_k h3 (fun _ _ => c) hinv hnb)
    · have := RaftProps.C16.maybeCommitByVote_leader c.app.leader h3
      rw [this]
      exact .inr (.inl ⟨hm, c⟩)
  have hbf : ∀ t l, K0 a (r.becomeFollower t l) := fun t l => becomeFollower_k t l h0' hinv hnb
  unfold Raft.stepCandidate at h
  split at h
  · cases h; exact .inl h0
  · rename_i hm
    split at h
    · cases h
    · rw [Res.bind_eq_ok_iff] at h
      obtain ⟨r1, h1, h2⟩ := h
      cases h2
      exact .inr (.inr (.inl ⟨hm, _, hbf _ _,
        RaftProps.C20.becomeFollower_state _ _ _, h1⟩))
  · split at h
    · cases h
    · rw [Res.bind_eq_ok_iff] at h
      obtain ⟨r1, h1, h2⟩ := h
      cases h2
      exact .inl (handleHeartbeat_k h1 (fun _ _ => hbf _ _) hinv hnb)
  · rename_i hm
    split at h
    · cases h
    · rw [Res.bind_eq_ok_iff] at h
      obtain ⟨r1, h1, h2⟩ := h
      cases h2
      rcases handleSnapshot_k hinv hnb (hbf _ _) h1 with c | c
      · exact .inl c
      · exact .inr (.inr (.inr ⟨hm, c⟩))
  · rename_i hm
    split at h
    · cases h; exact .inl h0
    · split at h
      · cases h; exact .inl h0
      · exact votes (.inr hm) h
  · rename_i hm
    split at h
    · cases h; exact .inl h0
    · split at h
      · cases h; exact .inl h0
      · exact votes (.inl hm) h
  · cases h; exact .inl h0

/-- **`Raft::step`: every way the logical log, the queue of `MsgAppend`s and the stored entries can
change** (batching off).  `step_log` with the queue facts. -/
theorem step_k {r r' : Raft} {m : Message} {e : Option RaftError} (hinv : r.raftLog.Inv)
    (hnb : r.batchAppend = false) (h : r.step m = .ok (r', e)) :
    K0 r r' ∨
    (m.msgType = .msgPropose ∧ r.state = .leader ∧ r'.term = r.term ∧ e = none ∧
      ∃ es, es.length = m.entries.length ∧
        AppendedK r r' (stampFrom r.term (r.raftLog.lastIndex + 1) es)) ∨
    ((m.msgType = .msgHup ∨ m.msgType = .msgTimeoutNow ∨ m.msgType = .msgRequestVoteResponse ∨
        m.msgType = .msgRequestPreVoteResponse) ∧
      (r.state ≠ .leader ∨ (r.term < m.term ∧ m.term ≤ r'.term)) ∧ WonK r r') ∨
    (m.msgType = .msgAppend ∧ (r.state ≠ .leader ∨ (r.term < m.term ∧ m.term ≤ r'.term)) ∧
      ∃ r0, K0 r r0 ∧ r0.state = .follower ∧ r0.handleAppendEntries m = .ok r') ∨
    (m.msgType = .msgSnapshot ∧ (r.state ≠ .leader ∨ (r.term < m.term ∧ m.term ≤ r'.term)) ∧
      RestoredK r r' m.snapshot) := by
  have hstep := h
  unfold Raft.step at h
  split at h
  · cases h
  · cases h
  · rename_i r1 ht
    cases h
    exact .inl (stepTerm_k ht K.rfl hinv hnb)
  · rename_i r1 ht
    have hl1 : K0 r r1 := stepTerm_k ht K.rfl hinv hnb
    have hc := RaftProps.C20.stepTerm_ok_cases r r1 m ht
    have hnl : r1.state ≠ .leader → (r.state ≠ .leader ∨ (r.term < m.term ∧ m.term ≤ r'.term)) := by
      intro h1
      rcases hc with c | ⟨c, l, c2⟩
      · rw [c] at h1; exact .inl h1
      · refine .inr ⟨c, ?_⟩
        have ht1 : r1.term = m.term := by rw [c2]; exact (becomeFollower_term_vote r m.term l).1
        rcases RaftProps.C16.step_after_preamble ht hstep with c3 | c3
        · omega
        · rcases c3 with ⟨_, _, c4, _⟩ | ⟨_, c4, _⟩ <;> omega
    split at h
    · rename_i hm
      rw [Res.bind_eq_ok_iff] at h
      obtain ⟨r2, h1, h2⟩ := h
      cases h2
      rcases hup_k hinv hnb hl1 h1 with c | ⟨c, c2⟩
      · exact .inl c
      · exact .inr (.inr (.inl ⟨.inl hm, hnl c2, c⟩))
    · split at h
      · rename_i r2 hv
        cases h; exact .inl (stepVote_k hv (fun _ _ => hl1) hinv hnb)
      · cases h
      · cases h
    · split at h
      · rename_i r2 hv
        cases h; exact .inl (stepVote_k hv (fun _ _ => hl1) hinv hnb)
      · cases h
      · cases h
    · split at h
      · rename_i hst
        have hn : r1.state ≠ .leader := by rw [hst]; decide
        rcases stepCandidate_k hinv hnb hl1 h with c | ⟨hm, c⟩ | ⟨hm, c⟩ | ⟨hm, c⟩
        · exact .inl c
        · refine .inr (.inr (.inl ⟨?_, hnl hn, c⟩))
          rcases hm with hm | hm
          · exact .inr (.inr (.inl hm))
          · exact .inr (.inr (.inr hm))
        · exact .inr (.inr (.inr (.inl ⟨hm, hnl hn, c⟩)))
        · exact .inr (.inr (.inr (.inr ⟨hm, hnl hn, c⟩)))
      · rename_i hst
        have hn : r1.state ≠ .leader := by rw [hst]; decide
        rcases stepCandidate_k hinv hnb hl1 h with c | ⟨hm, c⟩ | ⟨hm, c⟩ | ⟨hm, c⟩
        · exact .inl c
        · refine .inr (.inr (.inl ⟨?_, hnl hn, c⟩))
          rcases hm with hm | hm
          · exact .inr (.inr (.inl hm))
          · exact .inr (.inr (.inr hm))
        · exact .inr (.inr (.inr (.inl ⟨hm, hnl hn, c⟩)))
        · exact .inr (.inr (.inr (.inr ⟨hm, hnl hn, c⟩)))
      · rename_i hst
        have hn : r1.state ≠ .leader := by rw [hst]; decide
        rcases stepFollower_k hinv hnb hl1 hst h with c | ⟨hm, c⟩ | ⟨hm, c⟩ | ⟨hm, c⟩
        · exact .inl c
        · exact .inr (.inr (.inl ⟨.inr (.inl hm), hnl hn, c⟩))
        · exact .inr (.inr (.inr (.inl ⟨hm, hnl hn, c⟩)))
        · exact .inr (.inr (.inr (.inr ⟨hm, hnl hn, c⟩)))
      · rename_i hst
        have hr : r1 = r := by
          rcases hc with c | ⟨_, l, c⟩
          · exact c
          · rw [c, RaftProps.C20.becomeFollower_state] at hst; cases hst
        subst hr
        rcases stepLeader_k hinv hnb K.rfl' hst h with c | ⟨hm, he, es, hlen, c⟩
        · exact .inl c
        · exact .inr (.inl ⟨hm, hst, RaftProps.C16.stepLeader_term h, he, es, hlen, c⟩)

end Raft
end RaftModel
