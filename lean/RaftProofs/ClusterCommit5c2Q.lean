import RaftProofs.ClusterCommit5c2P

/-!
Cluster-level commit safety **with `batch_append`** (copy of `ClusterCommit2Q.lean` over the bundles without `NoBatch`), part 2Q: **no entry is ahead of its holder's term** (`term_le`): every
entry of a node's logical log has a term at most the node's term, every stored entry a term at most
the stored term, every entry of a `MsgAppend` a term at most the message's term.
-/
namespace RaftModel
namespace ClusterB
open Node Raft Raft.CC RaftProps.C02 RaftProps.C05 Raft.CB Raft.Bt Cluster

variable {cfg : JointConfig} {c0 : Nat} {h : List Sys}

structure TermLe (s : Sys) : Prop where
  log : ∀ i st, s.node i = some st → ∀ e ∈ st.raft.raftLog.abs.ents, e.term ≤ st.raft.term
  sto : ∀ i st, s.node i = some st → ∀ e ∈ st.raft.raftLog.store.entries,
    e.term ≤ st.raft.raftLog.store.hardState.term
  que : ∀ i st, s.node i = some st → ∀ x ∈ st.raft.msgs, x.msgType = .msgAppend →
    ∀ e ∈ x.entries, e.term ≤ x.term
  net : ∀ x ∈ s.net, x.msgType = .msgAppend → ∀ e ∈ x.entries, e.term ≤ x.term

theorem term_le (H : Hyp2wB cfg c0 h) : ∀ (n : Nat) (s : Sys), h[n]? = some s → TermLe s := by
  refine hist_induct h _ ?_ ?_
  · intro s h0
    have hinit := hist_init H.hist s h0
    obtain ⟨hnet, sto, hboot, hwf, _, hbound⟩ := H.init s h0
    have key : ∀ i st, s.node i = some st →
        st.raft.term = (sto i).hardState.term ∧
        st.raft.raftLog.store.hardState = (sto i).hardState ∧
        st.raft.raftLog.abs.ents = (sto i).entries ∧
        st.raft.raftLog.store.entries = (sto i).entries := by
      intro i st hi
      obtain ⟨c, rnd, hb⟩ := hboot i st hi
      have hbt := CV.boot_booted c _ rnd st hb
      obtain ⟨_, h2, h3⟩ := boot_log c _ rnd st (hwf i st hi).1 hb
      refine ⟨hbt.term, hbt.hs, by rw [h2]; rfl, ?_⟩
      have : (storeLog st.raft.raftLog.store).ents = (storeLog (sto i)).ents := by rw [h3]
      exact this
    refine ⟨fun i st hi e he => ?_, fun i st hi e he => ?_, fun i st hi x hx => ?_,
      fun x hx => ?_⟩
    · obtain ⟨k1, _, k3, _⟩ := key i st hi
      rw [k3] at he
      rw [k1]; exact hbound i i st st hi hi e he
    · obtain ⟨_, k2, _, k4⟩ := key i st hi
      rw [k4] at he
      rw [k2]; exact hbound i i st st hi hi e he
    · rw [init_queue hinit i st hi] at hx; cases hx
    · rw [hnet] at hx; cases hx
  · intro n a b ha hb ih
    obtain ⟨s0, _, hall⟩ := H.inv_at
    have I := hall a (mem_of_get ha)
    have hstep := H.steps n a b ha hb
    -- the stepping node `k`; every other node is untouched
    have other : ∀ (k : Nat) (stk' : NState) (net' : List Message),
        (∀ x ∈ net', x ∈ a.net ∨ ∃ st, a.node k = some st ∧ x ∈ st.raft.msgs) →
        (∀ st, a.node k = some st →
          (∀ e ∈ stk'.raft.raftLog.abs.ents, e.term ≤ stk'.raft.term) ∧
          (∀ e ∈ stk'.raft.raftLog.store.entries,
            e.term ≤ stk'.raft.raftLog.store.hardState.term) ∧
          (∀ x ∈ stk'.raft.msgs, x.msgType = .msgAppend → ∀ e ∈ x.entries, e.term ≤ x.term)) →
        a.node k ≠ none →
        TermLe { (a.setNode k stk') with net := net' } := by
      intro k stk' net' hnet hk hne
      obtain ⟨stk, hstk⟩ := Option.ne_none_iff_exists'.1 hne
      obtain ⟨k1, k2, k3⟩ := hk stk hstk
      have hnode : ∀ i st, ({ (a.setNode k stk') with net := net' } : Sys).node i = some st →
          (i = k ∧ st = stk') ∨ (i ≠ k ∧ a.node i = some st) := by
        intro i st hi
        have hi' : (a.setNode k stk').node i = some st := hi
        by_cases hik : i = k
        · subst hik
          rw [node_setNode_self] at hi'; cases hi'
          exact .inl ⟨rfl, rfl⟩
        · rw [node_setNode_ne a k i stk' hik] at hi'
          exact .inr ⟨hik, hi'⟩
      refine ⟨fun i st hi => ?_, fun i st hi => ?_, fun i st hi => ?_, fun x hx => ?_⟩
      · rcases hnode i st hi with ⟨_, rfl⟩ | ⟨_, c⟩
        · exact k1
        · exact ih.log i st c
      · rcases hnode i st hi with ⟨_, rfl⟩ | ⟨_, c⟩
        · exact k2
        · exact ih.sto i st c
      · rcases hnode i st hi with ⟨_, rfl⟩ | ⟨_, c⟩
        · exact k3
        · exact ih.que i st c
      · rcases hnet x hx with c | ⟨st, c1, c2⟩
        · exact ih.net x c
        · exact ih.que k st c1 x c2
    -- a `call` / `deliver` step at node `k`
    have callCase : ∀ (k : Nat) (st st' : NState) (rnd : Option Nat) (op : NodeOp) (res : OpRes),
        a.node k = some st → (appOp op = true ∨ ∃ m, op = .step m ∧ m ∈ a.net ∧ m.to = k) →
        (∀ j, op ≠ .compact j) → Node.call st rnd op = .ok (res, st') → b = a.setNode k st' →
        TermLe b := by
      intro k st st' rnd op res h1 hop hnc h4 hbe
      have hkb : b.node k = some st' := by rw [hbe]; exact node_setNode_self a k st'
      have hnetb : b.net = a.net := by rw [hbe]; rfl
      obtain ⟨g, hL, hq, hid⟩ := call_factsB H ha hb h1 hkb hnetb hop hnc h4
      obtain ⟨_, hse, hhs⟩ := call_moreB H ha hb h1 hkb hnetb hop hnc h4
      have oa := node_okB H ha h1
      have ob := node_okB H hb hkb
      -- the logical log
      have hlog : ∀ e ∈ st'.raft.raftLog.abs.ents, e.term ≤ st'.raft.term := by
        intro e he
        have hold : ∀ e ∈ st.raft.raftLog.abs.ents, e.term ≤ st'.raft.term :=
          fun e he => Nat.le_trans (ih.log k st h1 e he) hL.rt.le
        cases node_step H ha hb h1 hkb with
        | same hl => rw [hl] at he; exact hold e he
        | grew es hg =>
          rw [hg.abs] at he
          rcases List.mem_append.1 he with c | c
          · exact hold e c
          · exact Nat.le_of_eq (hg.terms e c)
        | acc m hm hty hto hacc _ _ _ ht =>
          rcases hacc.cases with c | ⟨_, _, c⟩
          · rw [c] at he; exact hold e he
          · have hc' : st'.raft.raftLog.abs.Contig := abs_Contig ob.inv
            rcases c e.index e (hc'.entryAt_of_mem he) with d | d
            · exact hold e (st.raft.raftLog.abs.entryAt_mem d)
            · have := ih.net m hm hty e d
              rcases ht with t1 | t1 <;> omega
        | restart _ hs' _ =>
          -- a `call` never ends like a restart with a different log; use the stored bound anyway
          rename_i hl' ht'
          rw [hl'] at he
          rw [ht']
          exact ih.sto k st h1 e he
      -- the stored entries
      have hsto : ∀ e ∈ st'.raft.raftLog.store.entries,
          e.term ≤ st'.raft.raftLog.store.hardState.term := by
        intro e he
        by_cases hst : op = .stabilize
        · subst hst
          obtain ⟨k1, k2, k3, _, k5, _⟩ := stabilize_out oa.inv oa.snap h4
          rw [k2.1, k5]
          have hc' : (storeLog st'.raft.raftLog.store).Contig := storeLog_contig ob.inv.storeWF
          have he' : (storeLog st'.raft.raftLog.store).entryAt e.index = some e :=
            hc'.entryAt_of_mem he
          rw [← ob.inv.abs_store_all ob.snap k1 e.index, k3] at he'
          exact ih.log k st h1 e (st.raft.raftLog.abs.entryAt_mem he')
        · rcases hse with c | c
          · rw [c.se.1] at he
            have h0 := ih.sto k st h1 e he
            rcases hhs with d | ⟨j, _, d⟩ | ⟨d, _⟩
            · rw [d]; exact h0
            · rw [d]; exact h0
            · exact absurd d hst
          · exact absurd c hst
      -- the queue
      have hque : ∀ x ∈ st'.raft.msgs, x.msgType = .msgAppend → ∀ e ∈ x.entries, e.term ≤ x.term := by
        intro x hx hty e he
        have hlead : x ∈ st.raft.msgs ∨ st'.raft.state = .leader := by
          rcases g.qlk x hx (by rw [hty]; rfl) with c | c | c
          · exact .inl c
          · exact .inr c.lead
          · exact .inr c.1
        rcases hlead with c | c
        · exact ih.que k st h1 x c hty e he
        · -- a leader's queued append (fresh or batched) is a slice of its log
          obtain ⟨hterm, _, _, hsub⟩ := leader_queueB H hb hkb c hx hty
          rw [hterm]
          exact hlog e (st'.raft.raftLog.abs.entryAt_mem (subw_entries hsub e he))
      have := other k st' a.net (fun x hx => .inl hx) (fun _ _ => ⟨hlog, hsto, hque⟩)
        (by rw [h1]; intro hc; cases hc)
      rw [hbe]
      exact this
    cases hstep with
    | call k st st' rnd op res h1 h2 h3 _ h4 =>
      exact callCase k st st' rnd op res h1 (.inl h2) h3 h4 rfl
    | deliver k st st' rnd m res h1 h2 h3 h4 =>
      exact callCase k st st' rnd (.step m) res h1 (.inr ⟨m, rfl, h2, h3⟩)
        (fun j hc => by cases hc) h4 rfl
    | send k st st' h1 h2 _ h3 =>
      have hf : st'.raft.msgs = [] ∧ st'.raft.raftLog = st.raft.raftLog ∧
          st'.raft.term = st.raft.term := by
        unfold Node.call at h3
        simp only [applyOp] at h3
        cases h3; exact ⟨rfl, rfl, rfl⟩
      obtain ⟨f1, f2, f3⟩ := hf
      refine other k st' (a.net ++ st.raft.msgs) (fun x hx => ?_) (fun st2 h2' => ?_)
        (by rw [h1]; intro hc; cases hc)
      · rcases List.mem_append.1 hx with c | c
        · exact .inl c
        · exact .inr ⟨st, h1, c⟩
      · rw [h1] at h2'; cases h2'
        refine ⟨by rw [f2, f3]; exact ih.log k st h1, by rw [f2]; exact ih.sto k st h1, ?_⟩
        intro x hx; rw [f1] at hx; cases hx
    | restart k st st' c rnd h1 h2 h3 =>
      have hbt := CV.boot_booted c _ rnd st' h3
      obtain ⟨_, habs, hsl⟩ := boot_log c _ rnd st' (I.inv k st h1).storeWF h3
      refine other k st' a.net (fun x hx => .inl hx) (fun st2 h2' => ?_)
        (by rw [h1]; intro hc; cases hc)
      rw [h1] at h2'; cases h2'
      have e1 : (storeLog st'.raft.raftLog.store).ents = (storeLog st.raft.raftLog.store).ents := by
        rw [hsl]
      refine ⟨?_, ?_, ?_⟩
      · rw [habs, hbt.term]; exact ih.sto k st h1
      · intro e he
        rw [hbt.hs]
        exact ih.sto k st h1 e (by
          have : e ∈ (storeLog st'.raft.raftLog.store).ents := he
          rw [e1] at this; exact this)
      · intro x hx; rw [hbt.msgs] at hx; cases hx

end ClusterB
end RaftModel
