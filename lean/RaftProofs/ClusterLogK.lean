import RaftProofs.ClusterLogJ

/-!
Cluster-level Log Matching, part K: the contract-abiding steps `CStep`, the transitions `Trans` they
induce, the initial states `InitOk`, and the induction along a history.
-/
namespace RaftModel
namespace Cluster
open Node Raft

/-- no node of the state batches appends (`Config::batch_append = false`, never switched on) -/
def NoBatch (s : Sys) : Prop := ∀ i st, s.node i = some st → st.raft.batchAppend = false

/-- **a step of `ClusterSem` whose application call obeys the storage contract**: the same four rules
as `Cluster.Step`; the only extra premise is on `call`: `compact k` is called only with
`k ≤ committed` and `k ≤ persisted` (`CompactOk`) -/
inductive CStep : Sys → Sys → Prop where
  | call (s : Sys) (i : Nat) (st st' : NState) (rnd : Option Nat) (op : NodeOp) (res : OpRes) :
      s.node i = some st → appOp op = true →
      (∀ k, op = .compact k → CompactOk st.raft.raftLog k) →
      Node.call st rnd op = .ok (res, st') →
      CStep s (s.setNode i st')
  | deliver (s : Sys) (i : Nat) (st st' : NState) (rnd : Option Nat) (m : Message) (res : OpRes) :
      s.node i = some st → m ∈ s.net → m.to = i → Node.call st rnd (.step m) = .ok (res, st') →
      CStep s (s.setNode i st')
  | send (s : Sys) (i : Nat) (st st' : NState) :
      s.node i = some st → hsPersisted st → Node.call st none .drain = .ok (.ok, st') →
      CStep s { (s.setNode i st') with net := s.net ++ st.raft.msgs }
  | restart (s : Sys) (i : Nat) (st st' : NState) (c : Config) (rnd : Option Nat) :
      s.node i = some st → c.id = i → Node.boot c st.raft.raftLog.store rnd = .ok (.ok st') →
      CStep s (s.setNode i st')

theorem CStep.step {s s' : Sys} (h : CStep s s') : Step s s' := by
  cases h with
  | call i st st' rnd op res h1 h2 _ h3 => exact Step.call s i st st' rnd op res h1 h2 h3
  | deliver i st st' rnd m res h1 h2 h3 h4 => exact Step.deliver s i st st' rnd m res h1 h2 h3 h4
  | send i st st' h1 h2 h3 => exact Step.send s i st st' h1 h2 h3
  | restart i st st' c rnd h1 h2 h3 => exact Step.restart s i st st' c rnd h1 h2 h3

/-- what the invariant knows of a transported `MsgAppend` -/
theorem InvL.msgOk {own : Nat → Nat → Prop} {ini : Entry → Prop} {s : Sys} (I : InvL own ini s) {m : Message} (hm : m ∈ s.net)
    (hty : m.msgType = .msgAppend) : MsgOk m := by
  have hc := I.wfn m hm hty
  refine ⟨hc, fun e he => ?_⟩
  have hcg : (msgLog m).Contig := hc
  exact I.nz .net (msgLog m) ⟨m, hm, hty, rfl⟩ e.index e (hcg.entryAt_of_mem he)

/-- the transition of a call / a delivery -/
theorem trans_call {own : Nat → Nat → Prop} {ini : Entry → Prop} {s : Sys} (I : InvL own ini s) (hnb : NoBatch s)
    {k : Nat} {st st' : NState} {rnd : Option Nat} {op : NodeOp} {res : OpRes}
    (hk : s.node k = some st)
    (hop : appOp op = true ∨ ∃ m, op = .step m ∧ m ∈ s.net)
    (hc : ∀ j, op = .compact j → CompactOk st.raft.raftLog j)
    (h : Node.call st rnd op = .ok (res, st')) :
    Trans s (s.setNode k st') k st st'
      (st'.raft.raftLog.store.hardState.term = st'.raft.term) False := by
  have hop' : op ≠ .drain ∧ ∀ m, op ≠ .rstep m := by
    rcases hop with h1 | ⟨m, h1, _⟩
    · constructor
      · intro hc; rw [hc] at h1; cases h1
      · intro m hc; rw [hc] at h1; cases h1
    · rw [h1]
      exact ⟨(by intro hc; cases hc), (by intro m' hc; cases hc)⟩
  have hw : ∀ m, op = .step m → m.msgType = .msgAppend → MsgOk m := by
    intro m hm hty
    rcases hop with h1 | ⟨m', h1, h2⟩
    · rw [hm] at h1; cases h1
    · rw [hm] at h1; cases h1
      exact I.msgOk h2 hty
  have hL := call_lstep st st' rnd op res (I.inv k st hk) (hnb k st hk) hop' hw hc h
  have hN := CV.call_nstep st st' rnd op res h
  have hm : (CV.opMsg op).msgType = .msgAppend → CV.opMsg op ∈ s.net := by
    intro hty
    rcases hop with h1 | ⟨m, h1, h2⟩
    · cases op <;> first | (cases h1; done) | (cases hty; done)
    · rw [h1]; exact h2
  refine ⟨hk, node_setNode_self s k st', fun j hj => node_setNode_ne s k j st' hj,
    prov_node hk hL.eff hm, fun hp => Nat.le_of_eq hp.symm, .inl ⟨hL.rt, fun hc => hc⟩,
    fun hc => hc.elim, hN.hs, fun h1 h2 h3 => (hL.eff.keep h1 h2 h3).1, hL.eff.inv, ?_,
    fun x hx => .inl hx⟩
  intro x hx hty
  rcases hL.eff.q x hx hty with c | c | c
  · exact I.wfq k st x hk c hty
  · exact c.1
  · exact c.1

/-- the transition of `send` -/
theorem trans_send {own : Nat → Nat → Prop} {ini : Entry → Prop} {s : Sys} (I : InvL own ini s)
    {k : Nat} {st st' : NState} (hk : s.node k = some st) (hp : hsPersisted st)
    (h : Node.call st none .drain = .ok (.ok, st')) :
    Trans s { (s.setNode k st') with net := s.net ++ st.raft.msgs } k st st' True False := by
  have hl : st'.raft.raftLog = st.raft.raftLog ∧ st'.raft.msgs = [] ∧ st'.raft.term = st.raft.term ∧
      st'.raft.state = st.raft.state := by
    unfold Node.call at h
    simp only [applyOp] at h
    cases h
    exact ⟨rfl, rfl, rfl, rfl⟩
  obtain ⟨hl1, hl2, hl3, hl4⟩ := hl
  refine ⟨hk, node_setNode_self s k _, fun j hj => node_setNode_ne s k j _ hj,
    prov_send hk hl1 hl2 True trivial, fun _ => (by rw [hl1, hl3]; exact Nat.le_of_eq hp.1.symm),
    .inl ⟨RT.rfl.ts hl3 hl4, fun hc => hc⟩, fun hc => hc.elim, .inl ⟨by rw [hl1], by rw [hl1]⟩,
    fun _ _ _ => (by rw [hl1]; exact Nat.le_refl _), (by rw [hl1]; exact I.inv k st hk),
    fun x hx => (by rw [hl2] at hx; cases hx), fun x hx => ?_⟩
  exact List.mem_append.1 hx

/-- the transition of a restart -/
theorem trans_restart {own : Nat → Nat → Prop} {ini : Entry → Prop} {s : Sys} (I : InvL own ini s)
    {k : Nat} {st st' : NState} {c : Config} {rnd : Option Nat} (hk : s.node k = some st)
    (h : Node.boot c st.raft.raftLog.store rnd = .ok (.ok st')) :
    Trans s (s.setNode k st') k st st' False True := by
  have hb := CV.boot_booted c _ rnd st' h
  obtain ⟨hinv', habs, hsl⟩ := boot_log c _ rnd st' (I.inv k st hk).storeWF h
  have hoth : ∀ j, j ≠ k → (s.setNode k st').node j = s.node j :=
    fun j hj => node_setNode_ne s k j st' hj
  have hself : (s.setNode k st').node k = some st' := node_setNode_self s k st'
  refine ⟨hk, hself, hoth, prov_restart hk habs hsl hb.msgs, fun hc => hc.elim,
    .inr ⟨hb.state, hb.term, trivial, fun hc => hc⟩, ?_, .inl ⟨by rw [hb.hs], by rw [hb.hs]⟩,
    fun _ h2 _ => (by rw [hb.state] at h2; cases h2), hinv', fun x hx => (by rw [hb.msgs] at hx; cases hx),
    fun x hx => .inl hx⟩
  -- after a restart every link comes from a durable place
  intro _ loc' g' hat i e he
  have hatS : At s (.store k) (storeLog st.raft.raftLog.store) := ⟨st, hk, rfl⟩
  by_cases hof : OfK k loc'
  · cases loc' with
    | log j =>
      have hj : j = k := hof
      subst hj
      obtain ⟨st2, h1, h2⟩ := hat
      rw [hself] at h1
      cases h1
      subst h2
      exact ⟨.store j, _, hatS, by rw [← habs]; exact he, fun hv => hv⟩
    | store j =>
      have hj : j = k := hof
      subst hj
      obtain ⟨st2, h1, h2⟩ := hat
      rw [hself] at h1
      cases h1
      subst h2
      exact ⟨.store j, _, hatS, by rw [← hsl]; exact he, fun hv => hv⟩
    | queue j =>
      have hj : j = k := hof
      subst hj
      obtain ⟨st2, x, h1, hx, _⟩ := hat
      rw [hself] at h1
      cases h1
      rw [hb.msgs] at hx
      cases hx
    | net => exact absurd hof (by intro h; cases h)
  · by_cases hn : loc' = .net
    · subst hn
      exact ⟨.net, g', hat, he, fun hv => hv⟩
    · refine ⟨loc', g', at_other hoth hof hn hat, he, fun hv => hof ?_⟩
      cases loc' with
      | log j => exact hv
      | queue j => exact hv
      | store j => exact hv.elim
      | net => exact hv.elim

/-- **one contract-abiding step preserves the invariant** -/
theorem InvL.cstep {own : Nat → Nat → Prop} {ini : Entry → Prop} {s s' : Sys}
    (huniq : ∀ i j t, own i t → own j t → i = j)
    (hown' : ∀ i t, leads s' i t → own i t)
    (I : InvL own ini s) (hnb : NoBatch s) (hstep : CStep s s') : InvL own ini s' := by
  cases hstep with
  | call i st st' rnd op res h1 h2 h3 h4 =>
    exact I.trans huniq hown' (trans_call I hnb h1 (.inl h2) h3 h4)
  | deliver i st st' rnd m res h1 h2 _ h4 =>
    exact I.trans huniq hown' (trans_call I hnb h1 (.inr ⟨m, rfl, h2⟩)
      (fun j hc => by cases hc) h4)
  | send i st st' h1 h2 h3 => exact I.trans huniq hown' (trans_send I h1 h2 h3)
  | restart i st st' c rnd h1 _ h3 => exact I.trans huniq hown' (trans_restart I h1 h3)

/-! ### initial states -/

/-- **the initial states the theorems cover**: every node was booted (`RawNode::new`) from a storage
`sto i` such that
* each storage is well-formed (entries contiguous after the snapshot point — `MemStorage`'s own
  invariant) and holds no entry of term 0,
* the stored logs agree pairwise (e.g. they are all empty, or all copies / prefixes of one log),
* no stored entry has a term above the stored term of any node (nobody can still campaign for a term
  that already has entries: an initial state is a state in which all earlier terms are over). -/
def InitOk (s : Sys) : Prop :=
  s.net = [] ∧ ∃ sto : Nat → MemStorage,
    (∀ i st, s.node i = some st → ∃ c rnd, Node.boot c (sto i) rnd = .ok (.ok st)) ∧
    (∀ i st, s.node i = some st → (sto i).WF ∧ ∀ e ∈ (sto i).entries, e.term ≠ 0) ∧
    (∀ i j sti stj, s.node i = some sti → s.node j = some stj →
      Agree (storeLog (sto i)) (storeLog (sto j))) ∧
    (∀ i j sti stj, s.node i = some sti → s.node j = some stj →
      ∀ e ∈ (sto i).entries, e.term ≤ (sto j).hardState.term)

/-- the entries of a state -/
def EntriesOf (s : Sys) (e : Entry) : Prop := ∃ loc g i, At s loc g ∧ g.entryAt i = some e

theorem InvL.init {own : Nat → Nat → Prop} {s : Sys} (h : InitOk s) : InvL own (EntriesOf s) s := by
  obtain ⟨hnet, sto, hboot, hwf, hag, hbound⟩ := h
  -- every chain of the state is the stored log of some node's storage
  have chain : ∀ loc g, At s loc g → ∃ i st, s.node i = some st ∧ g = storeLog (sto i) := by
    intro loc g hat
    cases loc with
    | log i =>
      obtain ⟨st, h1, h2⟩ := hat
      obtain ⟨c, rnd, hb⟩ := hboot i st h1
      exact ⟨i, st, h1, h2.trans (boot_log c _ rnd st (hwf i st h1).1 hb).2.1⟩
    | store i =>
      obtain ⟨st, h1, h2⟩ := hat
      obtain ⟨c, rnd, hb⟩ := hboot i st h1
      exact ⟨i, st, h1, h2.trans (boot_log c _ rnd st (hwf i st h1).1 hb).2.2⟩
    | queue i =>
      obtain ⟨st, x, h1, hx, _⟩ := hat
      obtain ⟨c, rnd, hb⟩ := hboot i st h1
      rw [(CV.boot_booted c _ rnd st hb).msgs] at hx
      cases hx
    | net =>
      obtain ⟨x, hx, _⟩ := hat
      rw [hnet] at hx
      cases hx
  have booted : ∀ i st, s.node i = some st → st.raft.state = .follower ∧
      st.raft.term = (sto i).hardState.term ∧
      st.raft.raftLog.store.hardState.term = (sto i).hardState.term := by
    intro i st h1
    obtain ⟨c, rnd, hb⟩ := hboot i st h1
    have b := CV.boot_booted c _ rnd st hb
    exact ⟨b.state, b.term, by rw [b.hs]⟩
  have bound : ∀ loc g, At s loc g → ∀ i e, g.entryAt i = some e →
      ∀ k st, s.node k = some st → e.term ≤ (sto k).hardState.term := by
    intro loc g hat i e he k st hk
    obtain ⟨j, stj, hj, hg⟩ := chain loc g hat
    subst hg
    exact hbound j k stj st hj hk e ((storeLog (sto j)).entryAt_mem he)
  refine ⟨?_, ?_, ?_, ?_, ?_, ?_, ?_, ?_, ?_, fun loc g hat i e he => .inl ⟨loc, g, i, hat, he⟩⟩
  · intro i st h1
    obtain ⟨c, rnd, hb⟩ := hboot i st h1
    exact (boot_log c _ rnd st (hwf i st h1).1 hb).1
  · intro i st h1 hs
    rw [(booted i st h1).1] at hs
    rcases hs with hs | hs <;> cases hs
  · intro i st x h1 hx
    obtain ⟨c, rnd, hb⟩ := hboot i st h1
    rw [(CV.boot_booted c _ rnd st hb).msgs] at hx
    cases hx
  · intro x hx
    rw [hnet] at hx
    cases hx
  · intro loc g hat i e he
    obtain ⟨j, stj, hj, hg⟩ := chain loc g hat
    subst hg
    exact (hwf j stj hj).2 e ((storeLog (sto j)).entryAt_mem he)
  · intro l1 g1 l2 g2 h1 h2
    obtain ⟨i, sti, hi, hg1⟩ := chain l1 g1 h1
    obtain ⟨j, stj, hj, hg2⟩ := chain l2 g2 h2
    subst hg1 hg2
    exact hag i j sti stj hi hj
  · intro k t st _ hk hcl loc g hat i e he heq
    have hb := booted k st hk
    have := bound loc g hat i e he k st hk
    rcases hcl with c | ⟨_, c⟩
    · omega
    · rw [hb.1] at c; cases c
  · intro k t st _ hk hst loc g hat _ i e he heq
    have hb := booted k st hk
    have := bound loc g hat i e he k st hk
    omega
  · intro k st hk hl
    rw [(booted k st hk).1] at hl
    cases hl

/-! ### along a history -/

/-- the node that leads term `t` somewhere in the list -/
def Owner (h : List Sys) (k t : Nat) : Prop := ∃ s ∈ h, leads s k t

/-- **the invariant holds in every state** of a list of states that starts in an `InitOk` state,
proceeds by contract-abiding steps, never batches, and has at most one leading node per term -/
theorem invL_all (h : List Sys)
    (huniq : ∀ i j t, Owner h i t → Owner h j t → i = j)
    (hinit : ∀ s : Sys, h[0]? = some s → InitOk s)
    (hsteps : ∀ (n : Nat) (a b : Sys), h[n]? = some a → h[n + 1]? = some b → CStep a b)
    (hnb : ∀ s ∈ h, NoBatch s) (s0 : Sys) (h0 : h[0]? = some s0) :
    ∀ (n : Nat) (s : Sys), h[n]? = some s → InvL (Owner h) (EntriesOf s0) s := by
  intro n
  induction n with
  | zero =>
    intro s hs
    rw [h0] at hs
    cases hs
    exact InvL.init (hinit s0 h0)
  | succ n ih =>
    intro s hs
    have hlt : n + 1 < h.length := by
      rcases Nat.lt_or_ge (n + 1) h.length with c | c
      · exact c
      · rw [List.getElem?_eq_none c] at hs; cases hs
    have ha : h[n]? = some h[n] := List.getElem?_eq_some_iff.2 ⟨by omega, rfl⟩
    have hmem : s ∈ h := List.mem_iff_getElem?.2 ⟨n + 1, hs⟩
    exact (ih _ ha).cstep huniq (fun i t hl => ⟨s, hmem, hl⟩)
      (hnb _ (List.mem_iff_getElem?.2 ⟨n, ha⟩)) (hsteps n _ s ha hs)

end Cluster
end RaftModel
