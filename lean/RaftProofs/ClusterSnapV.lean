import RaftProofs.ClusterSnapU

/-!
Commit safety of `ClusterSem`, part V: **snapshots need a contract clause** — a kernel-evaluated
history in which `MemStorage::snapshot(request_index)` *relabels* a snapshot (finding (a) of the C01c
report) and a follower ends up with a commit index no leader has reached.

The history of `ClusterSnapU` up to the moment node 2 has persisted entry 2 and handed its
acknowledgement to the transport (which never delivers it: node 1's commit index stays 1), continued by:

1. the application of node 1 applies entry 1 (`commit_apply 1`): its storage records commit index 1;
2. the application of node 2 calls `request_snapshot`: node 2 queues a rejecting `MsgAppendResponse`
   with `request_snapshot = 2` (its last index), and sends it;
3. node 1 is delivered the request: `prepare_send_snapshot` asks its storage for a snapshot with
   `request_index = 2`; the storage's snapshot is at its commit index **1**, and
   `MemStorage::snapshot` sets the metadata index to the requested **2** — the `MsgSnapshot` claims
   index 2 with the term of index 1; node 1 sends it;
4. node 2 is delivered the snapshot and restores it (a requested snapshot is not fast-forwarded):
   its commit index is now **2**.

Every step obeys `Snap.KStep`; what is violated is the clause of the storage contract that the
commit layer needs for snapshots: *a storage answers `snapshot(request_index)` only when its snapshot
index is at least `request_index`* (`SnapshotTemporarilyUnavailable` otherwise).
-/
namespace RaftModel
namespace Cluster
namespace Snap
open Node Raft Raft.CC RaftProps.C02 RaftProps.C05

def dx_a13 := c02x_st (Node.call cx_a12 none (.commitApply 1))
def dx_b10 := c02x_st (Node.call cx_b9 none .requestSnapshot)
def dx_b11 := c02x_st (Node.call dx_b10 none .drain)
/-- the snapshot request of node 2 -/
def dx_req := dx_b10.raft.msgs.head!
def dx_a14 := c02x_st (Node.call dx_a13 none (.step dx_req))
def dx_a15 := c02x_st (Node.call dx_a14 none .drain)
/-- the relabelled `MsgSnapshot` of node 1 -/
def dx_snap := dx_a14.raft.msgs.head!
def dx_b12 := c02x_st (Node.call dx_b11 none (.step dx_snap))

def dx_s22 : Sys := cx_s21.setNode 1 dx_a13
def dx_s23 : Sys := dx_s22.setNode 2 dx_b10
def dx_s24 : Sys := { (dx_s23.setNode 2 dx_b11) with net := dx_s23.net ++ dx_b10.raft.msgs }
def dx_s25 : Sys := dx_s24.setNode 1 dx_a14
def dx_s26 : Sys := { (dx_s25.setNode 1 dx_a15) with net := dx_s25.net ++ dx_a14.raft.msgs }
def dx_s27 : Sys := dx_s26.setNode 2 dx_b12

def dx_mid : List Sys := [cx_s15, cx_s16, cx_s17, cx_s18, cx_s19, cx_s20, cx_s21]
def dx_tail : List Sys := [dx_s22, dx_s23, dx_s24, dx_s25, dx_s26, dx_s27]
def dx_hist : List Sys := c01x_hist ++ dx_mid ++ dx_tail

set_option maxRecDepth 100000 in
theorem dx_ksteps_tail : Chained KStep (cx_s21 :: dx_tail) := by
  refine ⟨?_, ?_, ?_, ?_, ?_, ?_, trivial⟩
  · exact KStep.call _ 1 cx_a12 dx_a13 none (.commitApply 1) _ rfl rfl
      (fun k hc => by cases hc)
      (fun k hc => by cases hc; exact ⟨by decide, by decide, by decide⟩) (c02x_out _ (by decide))
  · exact KStep.call _ 2 cx_b9 dx_b10 none .requestSnapshot _ rfl rfl
      (fun k hc => by cases hc) (fun k hc => by cases hc) (c02x_out _ (by decide))
  · exact KStep.send _ 2 dx_b10 dx_b11 rfl ⟨by decide, by decide⟩
      (fun _ => ⟨by decide, rfl⟩) rfl
  · exact KStep.deliver _ 1 dx_a13 dx_a14 none dx_req _ rfl
      (List.mem_append_right _ (c02x_head_mem _ (by decide))) (by decide) (c02x_out _ (by decide))
  · exact KStep.send _ 1 dx_a14 dx_a15 rfl ⟨by decide, by decide⟩
      (fun hc => absurd (by decide) hc) rfl
  · exact KStep.deliver _ 2 dx_b11 dx_b12 none dx_snap _ rfl
      (List.mem_append_right _ (c02x_head_mem _ (by decide))) (by decide) (c02x_out _ (by decide))

theorem dx_ksteps : Chained KStep dx_hist := by
  have h1 : Chained KStep c01x_hist := Chained.mono (fun _ _ hc => KStep.of_old hc) _ c01x_ksteps
  obtain ⟨k1, k2, k3, k4, k5, k6, k7, _⟩ := cx_ksteps_tail
  have hmid : Chained KStep (c01x_s14 :: dx_mid ++ dx_tail) := by
    obtain ⟨t1, t2⟩ := dx_ksteps_tail
    exact ⟨k1, k2, k3, k4, k5, k6, k7, t1, t2⟩
  have := chained_append (c05x_hist ++ [c01x_s11, c01x_s12, c01x_s13]) c01x_s14 (dx_mid ++ dx_tail)
    (by simpa [c01x_hist] using h1) hmid
  simpa [dx_hist, c01x_hist] using this

theorem dx_history : History dx_hist := by
  have := chained_history [] c02x_s0 (History.init _ c02x_init) _
    (Chained.mono (fun _ _ hc => hc.step) _ dx_ksteps)
  simpa [dx_hist, dx_mid, dx_tail, c01x_hist, c05x_hist, c02x_hist] using this

/-- fixed voters, no batching, and no leader has a commit index above 1 -/
def dx_chk (s : Sys) : Bool :=
  c02x_fixed s && c05x_nobatch s &&
  s.nodes.all (fun p => decide (p.2.raft.state = .leader → p.2.raft.raftLog.committed ≤ 1))

theorem dx_chk_ok (s : Sys) (h : dx_chk s = true) :
    FixedCfg c02x_cfg s ∧ NoBatch s ∧
    ∀ i st, s.node i = some st → st.raft.state = .leader → st.raft.raftLog.committed ≤ 1 := by
  unfold dx_chk at h
  simp only [Bool.and_eq_true] at h
  obtain ⟨⟨h1, h2⟩, h3⟩ := h
  refine ⟨c02x_fixed_ok s h1, c05x_nobatch_ok s h2, fun i st hi => ?_⟩
  rw [List.all_eq_true] at h3
  exact of_decide_eq_true (h3 _ (c02_lookup_mem s.nodes i st hi))

set_option maxRecDepth 100000 in
theorem dx_chk_all : ∀ s ∈ dx_hist, dx_chk s = true := by
  intro s hs
  simp only [dx_hist, dx_mid, dx_tail, c01x_hist, c05x_hist, c02x_hist, List.cons_append,
    List.nil_append, List.mem_cons, List.not_mem_nil, or_false, List.append_assoc] at hs
  rcases hs with rfl | rfl | rfl | rfl | rfl | rfl | rfl | rfl | rfl | rfl | rfl | rfl | rfl |
    rfl | rfl | rfl | rfl | rfl | rfl | rfl | rfl | rfl | rfl | rfl | rfl | rfl | rfl | rfl <;>
    decide

end Snap
end Cluster
end RaftModel
