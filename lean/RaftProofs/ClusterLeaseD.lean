import RaftProofs.ClusterLeaseC

/-!
Cluster-level lease theorem (C16, second half), helper lemmas part D: `LInv` through the term
preamble, the vote arm, `Raft::step`, `RawNode::step`, `tick` and `apply_conf_change`.
-/
namespace RaftModel
namespace Raft
namespace LS
open VoteOb

theorem NT.mf {a r r' : Raft} (hn : NT a r) (hf : MF r r') : NT a r' := by
  intro x hx ht
  rcases hf.msgs x hx with ⟨y, hy, e⟩ | hp
  · obtain ⟨z, hz, e'⟩ := hn y hy (by rw [hd_type e]; exact ht)
    exact ⟨z, hz, e'.trans e⟩
  · exact absurd ht (plainT_tn hp.1)

theorem NT.send {a r r' : Raft} {x : Message} (hn : NT a r) (hs : r.send x = .ok r')
    (hne : x.msgType ≠ .msgTimeoutNow) : NT a r' := by
  rw [send_eq r r' x hs]
  intro y hy ht
  rcases List.mem_append.1 hy with g | g
  · exact hn y g ht
  · rw [List.mem_singleton.1 g, sendFill_msgType] at ht
    exact absurd ht hne

theorem NT.rf (a : Raft) : NT a a := fun _ hx _ => Old.of_mem hx

/-! ### the term preamble -/

def isVR (m : Message) : Prop := m.msgType = .msgRequestVote ∨ m.msgType = .msgRequestPreVote

theorem stepTerm_linv {a r1 : Raft} {m : Message} {b : Bool} (hc : a.stepTerm m = .ok (r1, b)) :
    LInv a m r1 ∧ NT a r1 ∧ (a.state = .leader → r1.state = .leader ∨ a.term < r1.term) ∧
    (b = true → isVR m → ¬ Dropped a m) ∧
    (b = true → m.msgType = .msgRequestVote → m.term ≤ r1.term) := by
  have h0 := LInv.refl a m
  have same : ∀ b', (b' = true → isVR m → ¬ Dropped a m) →
      (b' = true → m.msgType = .msgRequestVote → m.term ≤ a.term) →
      LInv a m a ∧ NT a a ∧ (a.state = .leader → a.state = .leader ∨ a.term < a.term) ∧
      (b' = true → isVR m → ¬ Dropped a m) ∧
      (b' = true → m.msgType = .msgRequestVote → m.term ≤ a.term) :=
    fun b' g1 g2 => ⟨h0, NT.rf a, fun hl => Or.inl hl, g1, g2⟩
  unfold stepTerm at hc
  split at hc
  · rename_i hz
    cases hc
    exact same true (fun _ _ hd => hd.1 hz) (fun _ _ => by rw [hz]; exact Nat.zero_le _)
  · rename_i hz
    split at hc
    · rename_i hgt
      simp only at hc
      split at hc
      · cases hc
        exact same false (fun hb => by cases hb) (fun hb => by cases hb)
      · rename_i hlease
        have hnd : isVR m → ¬ Dropped a m := by
          intro hty hd
          exact hlease ⟨hty, hd.2.2.1, hd.2.2.2.1, hd.2.2.2.2.1, hd.2.2.2.2.2⟩
        split at hc
        · rename_i hpv
          cases hc
          refine same true (fun _ => hnd) ?_
          intro _ hrv
          rcases hpv with g | g <;> rw [hrv] at g
          · cases g
          · cases g.1
        · have fin : ∀ l, LInv a m (a.becomeFollower m.term l) ∧ NT a (a.becomeFollower m.term l) ∧
              (a.state = .leader → (a.becomeFollower m.term l).state = .leader ∨
                a.term < (a.becomeFollower m.term l).term) ∧
              (true = true → isVR m → ¬ Dropped a m) ∧
              (true = true → m.msgType = .msgRequestVote → m.term ≤ (a.becomeFollower m.term l).term) := by
            intro l
            obtain ⟨_, e2, _, _, _, e6, _⟩ := becomeFollower_all a m.term l
            refine ⟨becomeFollower_linv h0 (NT.rf a) m.term l (Nat.le_of_lt hgt) (fun _ => Or.inl hgt),
              ?_, fun _ => Or.inr (by rw [e2]; exact hgt), fun _ => hnd,
              fun _ _ => by rw [e2]; exact Nat.le_refl _⟩
            intro x hx; rw [e6] at hx; exact fun _ => Old.of_mem hx
          split at hc
          · cases hc; exact fin _
          · cases hc; exact fin _
    · rename_i hngt
      split at hc
      · split at hc
        · split at hc
          · rename_i r2 hs
            cases hc
            have hf := send_mf hs rfl MF.rf
            exact ⟨h0.mf hf, (NT.rf a).mf hf, fun hl => Or.inl (hf.state.trans hl),
              (fun hb => by cases hb), (fun hb => by cases hb)⟩
          · cases hc
          · cases hc
        · split at hc
          · split at hc
            · rename_i r2 hs
              cases hc
              have hx := CV.sendFill_resp_fields a
                { msgType := .msgRequestPreVoteResponse, to := m.frm, term := a.term, reject := true }
                (Or.inr rfl) rfl
              have hsame := send_eq a r1 _ hs
              refine ⟨send_linv h0 hs (by simp) ⟨fun hy => ?_, Or.inl (by rw [hx.2.2.2.1]; exact Nat.le_refl _)⟩,
                (NT.rf a).send hs (by simp), fun hl => Or.inl (by rw [hsame]; exact hl),
                (fun hb => by cases hb), (fun hb => by cases hb)⟩
              rw [hx.1] at hy
              rcases hy with hy | hy <;> cases hy
            · cases hc
            · cases hc
          · cases hc
            exact same false (fun hb => by cases hb) (fun hb => by cases hb)
      · rename_i hnlt
        cases hc
        exact same true (fun _ _ hd => hngt hd.2.1) (fun _ _ => by omega)

/-! ### the vote arm -/

theorem stepVote_linv {a r r' : Raft} {m : Message} (h : LInv a m r) (hnd : ¬ Dropped a m)
    (hrv : m.msgType = .msgRequestVote → m.term ≤ r.term) (hc : r.stepVote m = .ok r') :
    LInv a m r' := by
  unfold stepVote at hc
  split at hc
  · cases hc
  · rename_i t ht
    have hty : (m.msgType = .msgRequestVote ∧ t = .msgRequestVoteResponse) ∨
        (m.msgType = .msgRequestPreVote ∧ t = .msgRequestPreVoteResponse) := by
      cases hmt : m.msgType <;> rw [hmt] at ht <;> simp [voteRespMsgType] at ht
      · exact Or.inl ⟨rfl, ht.symm⟩
      · exact Or.inr ⟨rfl, ht.symm⟩
    have hm : ¬ isTA m := by
      rintro (g | g) <;> rcases hty with ⟨q, _⟩ | ⟨q, _⟩ <;> rw [q] at g <;> cases g
    have htr : t = .msgRequestVoteResponse ∨ t = .msgRequestPreVoteResponse :=
      hty.imp (fun g => g.2) (fun g => g.2)
    have htn : t ≠ .msgTimeoutNow := by rcases htr with g | g <;> rw [g] <;> decide
    have hnr : ∀ x : Message, x.msgType = t →
        ¬ (x.msgType = .msgRequestVote ∨ x.msgType = .msgRequestPreVote) := by
      intro x hx hy
      rw [hx] at hy
      rcases htr with g | g <;> rw [g] at hy <;> rcases hy with hy | hy <;> cases hy
    split at hc
    · -- granted
      unfold stepVoteGrant at hc
      split at hc
      · rename_i r1 hs
        have hx := CV.sendFill_resp_fields r
          { msgType := t, to := m.frm, reject := false, term := m.term } htr rfl
        have h1 : LInv a m r1 := by
          refine send_linv h hs htn ⟨fun hy => absurd hy (hnr _ hx.1), ?_⟩
          rcases hty with ⟨q1, q2⟩ | ⟨q1, q2⟩
          · left; rw [hx.2.2.2.1]; exact hrv q1
          · right; right
            exact ⟨hx.1.trans q2, hx.2.2.2.2, hx.2.1.trans h.id, q1, hx.2.2.2.1, hnd⟩
        split at hc
        · cases hc; exact h1.mf (MF.mk' MF.rf)
        · cases hc; exact h1
      · cases hc
      · cases hc
    · -- refused
      unfold stepVoteReject at hc
      split at hc
      · cases hc
      · cases hc
      · rename_i c ct _
        split at hc
        · rename_i r1 hs
          have hx := CV.sendFill_resp_fields r
            { msgType := t, to := m.frm, reject := true, term := r.term, commit := c, commitTerm := ct }
            htr rfl
          have h1 : LInv a m r1 :=
            send_linv h hs htn ⟨fun hy => absurd hy (hnr _ hx.1),
              Or.inl (by rw [hx.2.2.2.1]; exact Nat.le_refl _)⟩
          split at hc
          · exact (maybeCommitByVote_linv hm m h1 hc).1
          · cases hc; exact h1
        · cases hc
        · cases hc
    · cases hc
    · cases hc

/-! ### `Raft::step` -/

/-- everything `step` does after the term preamble -/
theorem step_after_linv {a r r1 r' : Raft} {m : Message} {e : Option RaftError}
    (hst : r.stepTerm m = .ok (r1, true)) (h : LInv a m r1) (hnt : NT a r1)
    (hnl : a.state = .leader → r1.state = .leader ∨ a.term < r1.term)
    (hnd : isVR m → ¬ Dropped a m) (hrv : m.msgType = .msgRequestVote → m.term ≤ r1.term)
    (hc : r.step m = .ok (r', e)) : LInv a m r' := by
  unfold step at hc
  rw [hst] at hc
  simp only at hc
  have hnl' : r1.state ≠ .leader → a.state = .leader → a.term < r1.term :=
    fun hne hl => (hnl hl).resolve_left hne
  split at hc
  · rename_i hty
    have hm : ¬ isTA m := by rintro (g | g) <;> rw [hty] at g <;> cases g
    rw [Res.bind_eq_ok_iff] at hc
    obtain ⟨r2, h1, h2⟩ := hc
    cases h2
    exact (hup_linv hm h (fun hx => by cases hx) h1).1
  · rename_i hty
    split at hc
    · rename_i r2 hv
      cases hc
      exact stepVote_linv h (hnd (Or.inl hty)) hrv hv
    · cases hc
    · cases hc
  · rename_i hty
    split at hc
    · rename_i r2 hv
      cases hc
      exact stepVote_linv h (hnd (Or.inr hty)) hrv hv
    · cases hc
    · cases hc
  · split at hc
    · rename_i hs
      exact stepCandidate_linv h (hnl' (by rw [hs]; decide)) hc
    · rename_i hs
      exact stepCandidate_linv h (hnl' (by rw [hs]; decide)) hc
    · rename_i hs
      exact stepFollower_linv h hs (hnl' (by rw [hs]; decide)) hc
    · exact stepLeader_linv h hnt hc

/-- **`Raft::step`**, from the state the call started in -/
theorem step_linv {a r' : Raft} {m : Message} {e : Option RaftError}
    (hc : a.step m = .ok (r', e)) : LInv a m r' := by
  have hc' := hc
  unfold step at hc'
  split at hc'
  · cases hc'
  · cases hc'
  · rename_i r1 hst
    cases hc'
    exact (stepTerm_linv hst).1
  · rename_i r1 hst
    obtain ⟨g1, g2, g3, g4, g5⟩ := stepTerm_linv hst
    exact step_after_linv hst g1 g2 g3 (g4 rfl) (g5 rfl) hc

/-- a message the node builds itself (term 0), stepped in an intermediate state -/
theorem stepLocal_linv {a r r' : Raft} {m : Message} {e : Option RaftError} (h : LInv a m r)
    (hz : m.term = 0) (hm : ¬ isTA m) (hvr : ¬ isVR m)
    (hnl : a.state = .leader → r.state = .leader ∨ a.term < r.term)
    (hc : r.step m = .ok (r', e)) : LInv a m r' := by
  have hst : r.stepTerm m = .ok (r, true) := by unfold stepTerm; simp [hz]
  exact step_after_linv hst h (h.nt hm) hnl (fun g => absurd g hvr)
    (fun g => absurd (Or.inl g) hvr) hc

/-- tags whose clauses are all vacuous: the invariant can be re-tagged -/
def Inert (m : Message) : Prop :=
  m.msgType ≠ .msgTimeoutNow ∧ m.msgType ≠ .msgRequestPreVote ∧
  m.msgType ≠ .msgRequestPreVoteResponse ∧ ¬ isTA m

theorem LInv.retag {a r : Raft} {m m' : Message} (h : LInv a m r) (hi : Inert m) : LInv a m' r := by
  refine ⟨h.id, h.tm, ?_, Or.inl (h.nt hi.2.2.2), ?_, h.ld⟩
  · intro x hx
    rcases h.msgs x hx with g | g
    · exact Or.inl g
    · right
      refine ⟨fun h1 h2 => absurd (g.1 h1 h2) hi.1, ?_⟩
      rcases g.2 with q | q | q
      · exact Or.inl q
      · exact Or.inr (Or.inl q)
      · exact absurd q.2.2.2.1 hi.2.1
  · intro hs j hj
    rcases h.pc hs j hj with q | q | q
    · exact Or.inl q
    · exact absurd q.1 hi.2.2.1
    · exact Or.inr (Or.inr q)

/-- the same invariant seen from a start state that differs only outside what `LInv` reads
(clocks, the random draw) -/
theorem LInv.rebase {a a' r : Raft} {m : Message} (h : LInv a' m r)
    (hi : m.msgType ≠ .msgRequestPreVote ∨ (Dropped a m → Dropped a' m))
    (e1 : a'.id = a.id) (e2 : a'.term = a.term) (e3 : a'.state = a.state)
    (e4 : a'.prs.votes = a.prs.votes) (e5 : a'.msgs = a.msgs) : LInv a m r := by
  refine ⟨h.id.trans e1, by rw [← e2]; exact h.tm, ?_, ?_, ?_, ?_⟩
  · intro x hx
    rcases h.msgs x hx with g | g
    · rw [e5] at g; exact Or.inl g
    · right
      refine ⟨g.1, ?_⟩
      rcases g.2 with q | q | q
      · exact Or.inl q
      · exact Or.inr (Or.inl q)
      · rcases hi with hi | hi
        · exact absurd q.2.2.2.1 hi
        · exact Or.inr (Or.inr ⟨q.1, q.2.1, q.2.2.1.trans e1, q.2.2.2.1, q.2.2.2.2.1,
            fun hd => q.2.2.2.2.2 (hi hd)⟩)
  · rcases h.tn with g | g
    · left; intro x hx ht; have := g x hx ht; rw [e5] at this; exact this
    · exact Or.inr g
  · intro hs j hj
    rcases h.pc hs j hj with q | q | q
    · exact Or.inl (q.trans e1)
    · exact Or.inr (Or.inl q)
    · rw [e3, e2, e4] at q; exact Or.inr (Or.inr q)
  · rw [← e3, ← e2]; exact h.ld

theorem stepIgnore_linv {a r' : Raft} {m : Message} (hc : a.stepIgnore m = .ok r') :
    LInv a m r' := by
  unfold stepIgnore at hc
  rw [Res.bind_eq_ok_iff] at hc
  obtain ⟨⟨r1, e⟩, h1, h2⟩ := hc
  cases h2
  exact step_linv h1

/-- **`RawNode::step`** -/
theorem rawStep_linv {a r' : Raft} {m : Message} {e : Option RaftError}
    (hc : RawNode.step a m = .ok (r', e)) : LInv a m r' := by
  unfold RawNode.step at hc
  split at hc
  · cases hc; exact LInv.refl a m
  · split at hc
    · exact step_linv hc
    · cases hc; exact LInv.refl a m

/-! ### `tick`, `apply_conf_change` -/

theorem inert_local : Inert CV.mLocal := by
  unfold Inert isTA CV.mLocal
  simp

theorem inert_new {to : Nat} {t : MsgType} {frm : Option Nat} (h1 : t ≠ .msgTimeoutNow)
    (h2 : t ≠ .msgRequestPreVote) (h3 : t ≠ .msgRequestPreVoteResponse)
    (h4 : t ≠ .msgTransferLeader) (h5 : t ≠ .msgAppendResponse) : Inert (newMessage to t frm) :=
  ⟨h1, h2, h3, fun g => g.elim h4 h5⟩

theorem tickElection_linv {a r' : Raft} {b : Bool} (hc : a.tickElection = .ok (r', b)) :
    LInv a CV.mLocal r' := by
  unfold tickElection at hc
  simp only at hc
  split at hc
  · cases hc; exact (LInv.refl a CV.mLocal).mf (MF.mk' MF.rf)
  · rw [Res.bind_eq_ok_iff] at hc
    obtain ⟨r1, h1, h2⟩ := hc
    cases h2
    have := stepIgnore_linv h1
    exact (this.rebase (a := a) (Or.inl (by simp [newMessage])) rfl rfl rfl rfl rfl).retag
      (inert_new (by decide) (by decide) (by decide) (by decide) (by decide))

theorem tickHeartbeat_linv {a r' : Raft} {b : Bool}
    (hc : a.tickHeartbeat = .ok (r', b)) : LInv a CV.mLocal r' := by
  unfold tickHeartbeat at hc
  simp only at hc
  rw [Res.bind_eq_ok_iff] at hc
  obtain ⟨⟨r4, hr⟩, h1, h2⟩ := hc
  -- the state after the check-quorum round
  have L4 : LInv a CV.mLocal r4 := by
    split at h1
    · rw [Res.bind_eq_ok_iff] at h1
      obtain ⟨⟨r3, hr3⟩, h3, h4⟩ := h1
      have L3 : LInv a CV.mLocal r3 := by
        split at h3
        · rw [Res.bind_eq_ok_iff] at h3
          obtain ⟨r3', h5, h6⟩ := h3
          cases h6
          have := stepIgnore_linv h5
          exact (this.rebase (a := a) (Or.inl (by simp [newMessage])) rfl rfl rfl rfl rfl).retag
            (inert_new (by decide) (by decide) (by decide) (by decide) (by decide))
        · cases h3; exact (LInv.refl a CV.mLocal).mf (MF.mk' MF.rf)
      dsimp only at h4
      split at h4
      · cases h4
        exact L3.upd rfl (Nat.le_refl _) rfl (Or.inl (L3.nt inert_local.2.2.2)) L3.pc L3.ld
      · cases h4; exact L3
    · cases h1; exact (LInv.refl a CV.mLocal).mf (MF.mk' MF.rf)
  dsimp only at h2
  split at h2
  · cases h2; exact L4
  · rename_i hl
    have hl' : r4.state = .leader := by
      apply Classical.byContradiction; intro hne; exact hl hne
    split at h2
    · rw [Res.bind_eq_ok_iff] at h2
      obtain ⟨r5, h5, h6⟩ := h2
      cases h6
      unfold stepIgnore at h5
      rw [Res.bind_eq_ok_iff] at h5
      obtain ⟨⟨r6, e⟩, h7, h8⟩ := h5
      cases h8
      have hb : Inert (newMessage 0 .msgBeat (some r4.id)) :=
        inert_new (by decide) (by decide) (by decide) (by decide) (by decide)
      have L5 : LInv a (newMessage 0 .msgBeat (some r4.id)) ({ r4 with heartbeatElapsed := 0 } : Raft) :=
        (L4.mf (MF.mk' MF.rf)).retag inert_local
      exact (stepLocal_linv L5 rfl hb.2.2.2 (by unfold isVR newMessage; simp)
        (fun _ => Or.inl hl') h7).retag hb
    · cases h2; exact L4

theorem tick_linv {a r' : Raft} {b : Bool} (hc : a.tick = .ok (r', b)) : LInv a CV.mLocal r' := by
  unfold tick at hc
  split at hc
  · exact tickElection_linv hc
  · exact tickElection_linv hc
  · exact tickElection_linv hc
  · exact tickHeartbeat_linv hc

theorem applyConfChange_linv {a r' : Raft} {cc : ConfChangeV2} {x : Except ErrKind ConfState}
    (hc : a.applyConfChange cc = .ok (r', x)) : LInv a CV.mLocal r' ∧ r'.term = a.term := by
  unfold applyConfChange at hc
  simp only at hc
  split at hc
  · cases hc; exact ⟨LInv.refl _ _, rfl⟩
  · rename_i cfg changes _
    rw [Res.bind_eq_ok_iff] at hc
    obtain ⟨⟨r1, cs⟩, h1, h2⟩ := hc
    cases h2
    have L1 : LInv a CV.mLocal
        ({ a with prs := a.prs.applyConf cfg changes a.raftLog.lastIndex } : Raft) := by
      refine (LInv.refl a CV.mLocal).mf ?_
      unfold ProgressTracker.applyConf
      exact MF.mk' MF.rf
    obtain ⟨q1, q2⟩ := postConfChange_linv inert_local.2.2.2 L1 h1
    exact ⟨q1, q2⟩

end LS
end Raft
end RaftModel
