import RaftProofs.ClusterSnapV
import RaftProofs.ClusterCommit4L

/-!
Commit safety of `ClusterSem` with log compaction, part 3A (towards discharging `anch` and `norir` for
the compaction layer, as `ClusterCommit4I/4J` do for the layer without compaction):

* `compact_frame`, `call_pr'`: the per-call relation of `ClusterCommit4A–4I` **for every `NodeOp`,
  `compact` included** (a compaction touches only the storage: role, tracker, pending reads, queue,
  last index and commit index are untouched);
* prefixes of a history: `Snap.Hyp`, `Snap.Hyp2w` are closed under taking a non-empty prefix;
* `hyp3a_take`: the cluster invariant `Cluster.CI` (reused verbatim: it does not mention the
  hypotheses) on all states of a prefix gives `Snap.Hyp3a` for that prefix.
-/
namespace RaftModel
namespace Cluster
namespace Snap
open Node Raft Raft.CC Raft.CP RaftProps.C02 RaftProps.C05

variable {cfg : JointConfig} {c0 : Nat} {h : List Sys}

/-! ### `compact` in the per-call relation -/

/-- what `compact k` leaves alone (next to `CompactOut`): the tracker, the pending reads, the last
index of the log -/
theorem compact_frame {st st' : NState} {rnd : Option Nat} {k : Nat} {res : OpRes}
    (hinv : st.raft.raftLog.Inv) (hsn : st.raft.raftLog.unstable.snapshot = none)
    (hc : CompactOk st.raft.raftLog k)
    (h : Node.call st rnd (.compact k) = .ok (res, st')) :
    st'.raft.prs = st.raft.prs ∧ st'.raft.readOnly = st.raft.readOnly ∧
    st'.raft.raftLog.lastIndex = st.raft.raftLog.lastIndex := by
  have ho := compact_out hinv hsn hc h
  have hlast : st'.raft.raftLog.lastIndex = st.raft.raftLog.lastIndex := by
    rw [ho.inv.lastIndex_abs, hinv.lastIndex_abs, ho.abs]
    refine compactTo_lastIndex _ _ ?_
    have h1 := hc.1
    have h2 := hinv.committed_le_last
    rw [hinv.lastIndex_abs] at h2
    omega
  unfold Node.call at h
  simp only [applyOp] at h
  split at h
  · cases h; exact ⟨rfl, rfl, hlast⟩
  · cases h
  · cases h

/-- **one call of a node, `compact` included** (`Raft.CP.call_pr` with its premise "the op is not a
compaction" replaced by the storage contract `CompactOk`) -/
theorem call_pr' (st st' : NState) (rnd : Option Nat) (op : NodeOp) (res : OpRes)
    (hinv : st.raft.raftLog.Inv) (hnb : st.raft.batchAppend = false)
    (hop : op ≠ .drain ∧ ∀ m, op ≠ .rstep m)
    (hc : ∀ k, op = .compact k → CompactOk st.raft.raftLog k)
    (hsn : st.raft.raftLog.unstable.snapshot = none)
    (hms : ∀ m, op = .step m → m.msgType ≠ .msgSnapshot)
    (hpo : st.raft.state = .leader →
      QSnap st.raft.msgs ∨ PAll st.raft.raftLog.lastIndex st.raft.prs)
    (hrd : st.raft.state = .leader → ∀ p ∈ st.raft.readOnly.pendingReadIndex,
      p.2.index ≤ st.raft.raftLog.committed)
    (hB : ∀ m, op = .step m → st.raft.state = .leader → m.msgType = .msgAppendResponse →
      m.reject = false → (m.term = 0 ∨ m.term = st.raft.term) →
      m.index ≤ st.raft.raftLog.lastIndex)
    (h : Node.call st rnd op = .ok (res, st')) : PR st.raft st'.raft := by
  by_cases hco : ∃ j, op = .compact j
  · obtain ⟨j, rfl⟩ := hco
    have ho := compact_out hinv hsn (hc j rfl) h
    obtain ⟨f1, f2, f3⟩ := compact_frame hinv hsn (hc j rfl) h
    exact PR.of_same (PW.start hinv hnb hpo hrd).pr ho.state f1 f2 ho.msgs
      (Nat.le_of_eq f3.symm) (Nat.le_of_eq ho.committed.symm)
  · exact call_pr st st' rnd op res hinv hnb hop (fun k hk => hco ⟨k, hk⟩) hsn hms hpo hrd hB h

/-! ### prefixes -/

theorem Hyp.take (H : Hyp cfg h) {k : Nat} (hk : 0 < k) : Hyp cfg (h.take k) where
  hist := History.take H.hist k hk
  fix := fun s hs => H.fix s (List.mem_of_mem_take hs)
  ne := H.ne
  nd1 := H.nd1
  nd2 := H.nd2
  init := fun s h0 => H.init s (get_take h0).1
  steps := fun n a b ha hb => H.steps n a b (get_take ha).1 (get_take hb).1
  nb := fun s hs => H.nb s (List.mem_of_mem_take hs)
  nosnap := fun s hs => H.nosnap s (List.mem_of_mem_take hs)

theorem Hyp2w.take (H : Hyp2w cfg c0 h) {k : Nat} (hk : 0 < k) : Hyp2w cfg c0 (h.take k) where
  toHyp := H.toHyp.take hk
  nolone := H.nolone
  nopend := fun s hs => H.nopend s (List.mem_of_mem_take hs)
  first0 := fun s h0 => H.first0 s (get_take h0).1
  initc := fun s h0 => H.initc s (get_take h0).1

/-- the hypotheses of the main induction for a prefix all of whose states satisfy `CI` -/
theorem hyp3a_take (H : Hyp3w cfg c0 h) {k : Nat} (hk : 0 < k)
    (hci : ∀ m s, m < k → h[m]? = some s → CI h c0 m s) : Hyp3a cfg c0 (h.take k) where
  toHyp2w := H.toHyp2w.take hk
  anch := by
    intro s hs x hx hty
    obtain ⟨m, hm⟩ := List.mem_iff_getElem?.1 hs
    obtain ⟨hm', hlt⟩ := get_take hm
    exact (hci m s hlt hm').na x hx hty
  rirs := by
    intro n s hn x hx hty
    obtain ⟨hn', hlt⟩ := get_take hn
    obtain ⟨n0, s0, w, stw, h1, h2, h3⟩ := (hci n s hlt hn').nr x hx hty
    exact ⟨n0, s0, w, stw, h1, by rw [take_get (by omega)]; exact h2, h3⟩
  snapt0 := fun s0 h0 => H.snapt0 s0 (get_take h0).1

end Snap
end Cluster
end RaftModel
