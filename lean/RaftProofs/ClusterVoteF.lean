import RaftProofs.ClusterVoteE
import RaftModel.Cluster

/-!
Cluster-level election safety, helper lemmas part F: what ONE call of `Node.call` (any `NodeOp`) and
`Node.boot` do to the part of a node the vote argument reads.
-/
namespace RaftModel
namespace Raft
namespace CV
open VoteOb Node

/-- what a call may do to the stored `(term, vote)`: nothing; write the current pair (`stabilize`);
raise the stored term keeping the stored vote (`persist_snap` of a snapshot of a later term) -/
def HsRel (a r : Raft) : Prop :=
  (r.raftLog.store.hardState.term = a.raftLog.store.hardState.term ∧
    r.raftLog.store.hardState.vote = a.raftLog.store.hardState.vote) ∨
  (r.raftLog.store.hardState.term = r.term ∧ r.raftLog.store.hardState.vote = r.vote ∧
    r.term = a.term ∧ r.vote = a.vote) ∨
  (a.raftLog.store.hardState.term < r.raftLog.store.hardState.term ∧
    r.raftLog.store.hardState.vote = a.raftLog.store.hardState.vote)

/-- one call on a node: `VInv` without the clause on the storage, plus `HsRel` -/
structure NStep (a : Raft) (m : Message) (r : Raft) : Prop where
  id : r.id = a.id
  hs : HsRel a r
  tv : TV a r
  pk : r.promotable = a.promotable ∨ r.promotable = Joint.contains r.prs.voters r.id
  nf : r.state ≠ .follower → a.state ≠ .follower ∨ r.promotable = true
  msgs : ∀ x ∈ r.msgs, isRVm x = true → x ∈ a.msgs ∨ Fresh a m r x
  cand : r.state = .candidate → ∀ j, (j, true) ∈ r.prs.votes → Backed a m r.term j
  lead : r.state = .leader →
    (a.state = .leader ∧ a.term = r.term) ∨
    ∃ Q, IsJointQuorum r.prs.voters Q ∧ ∀ j ∈ Q, Backed a m r.term j

theorem VInv.nstep {a r : Raft} {m : Message} (h : VInv a m r) : NStep a m r :=
  ⟨h.id, Or.inl ⟨by rw [h.hs], by rw [h.hs]⟩, h.tv, h.pk, h.nf, h.msgs, h.cand, h.lead⟩

/-- the call started from `a` with the random draw set -/
theorem VInv.rebaseRand {a r : Raft} {m : Message} {rnd : Option Nat}
    (h : VInv ({ a with nextRand := rnd } : Raft) m r) : VInv a m r :=
  ⟨h.id, h.hs, h.tv, h.pk, h.nf, h.msgs, h.cand, h.lead⟩

/-- replacing the log of the result -/
theorem VInv.nstepLog {a r : Raft} {m : Message} (h : VInv a m r) (l : RaftLog)
    (hhs : HsRel a ({ r with raftLog := l } : Raft)) : NStep a m ({ r with raftLog := l } : Raft) :=
  ⟨h.id, hhs, h.tv, h.pk, h.nf, h.msgs, h.cand, h.lead⟩

/-- a call that started from `a` with another log -/
theorem VInv.nstepFrom {a r : Raft} {m : Message} {l : RaftLog}
    (h : VInv ({ a with raftLog := l } : Raft) m r) (hhs : HsRel a r) : NStep a m r :=
  ⟨h.id, hhs, h.tv, h.pk, h.nf, h.msgs, h.cand, h.lead⟩

theorem unitRes_ok {st : NState} {x : Res (Raft × Option RaftError)} {res : OpRes} {st' : NState}
    (h : unitRes st x = .ok (res, st')) : ∃ raft e, x = .ok (raft, e) ∧ st'.raft = raft := by
  unfold unitRes at h
  split at h
  · cases h; exact ⟨_, _, rfl, rfl⟩
  · cases h; exact ⟨_, _, rfl, rfl⟩
  · cases h
  · cases h

theorem okRes_ok {st : NState} {x : Res Raft} {res : OpRes} {st' : NState}
    (h : okRes st x = .ok (res, st')) : ∃ raft, x = .ok raft ∧ st'.raft = raft := by
  unfold okRes at h
  split at h
  · cases h; exact ⟨_, rfl, rfl⟩
  · cases h
  · cases h

/-- `on_entries_fetched`: a stale context changes nothing; otherwise the node is leader of the given term, the
peer has a progress, and the call is `send_append(to)` / `send_append_aggressively(to)` -/
theorem onEntriesFetched_ok {st : NState} {to term : Nat} {aggr : Bool} {res : OpRes} {st' : NState}
    (h : applyOp st (.onEntriesFetched to term aggr) = .ok (res, st')) :
    st' = st ∨
    (st.raft.term = term ∧ st.raft.state = .leader ∧ (st.raft.prs.get to).isSome = true ∧
      ∃ raft, (st.raft.sendAppendAggressively to = .ok raft ∨ st.raft.sendAppend to = .ok raft) ∧
        st' = { st with raft := raft }) := by
  simp only [applyOp] at h
  split at h
  · cases h; exact Or.inl rfl
  · rename_i hg
    split at h
    · cases h; exact Or.inl rfl
    · rename_i hp
      right
      have hg' : st.raft.term = term ∧ st.raft.state = .leader := by
        constructor
        · apply Classical.byContradiction; intro hc; exact hg (Or.inl hc)
        · apply Classical.byContradiction; intro hc; exact hg (Or.inr hc)
      refine ⟨hg'.1, hg'.2, ?_, ?_⟩
      · cases hq : st.raft.prs.get to with
        | none => rw [hq] at hp; exact absurd rfl hp
        | some _ => rfl
      · unfold okRes at h
        split at h
        · rename_i raft hx
          cases h
          refine ⟨raft, ?_, rfl⟩
          cases aggr with
          | true => left; simpa using hx
          | false => right; simpa using hx
        · cases h
        · cases h

/-- the message a call is tagged with: the stepped message, or a local one -/
def opMsg : NodeOp → Message
  | .step m => m
  | .rstep m => m
  | _ => mLocal

theorem compact_hs {s s' : MemStorage} {k : Nat} (h : s.compact k = .ok s') :
    s'.hardState = s.hardState := by
  unfold MemStorage.compact at h
  split at h
  · cases h; rfl
  · split at h
    · cases h
    · split at h
      · cases h; rfl
      · split at h
        · cases h
        · split at h
          · cases h
          · cases h; rfl

theorem hsRel_same {a r : Raft}
    (h : r.raftLog.store.hardState = a.raftLog.store.hardState) : HsRel a r :=
  Or.inl ⟨by rw [h], by rw [h]⟩

/-- **one call of a node, any `NodeOp`** -/
theorem call_nstep (st st' : NState) (rnd : Option Nat) (op : NodeOp) (res : OpRes)
    (h : Node.call st rnd op = .ok (res, st')) : NStep st.raft (opMsg op) st'.raft := by
  unfold Node.call at h
  have hrefl : VInv st.raft mLocal ({ st.raft with nextRand := rnd } : Raft) :=
    (VInv.refl st.raft mLocal).vf (by simp [VF, ncore])
  cases op with
  | tick =>
    simp only [applyOp] at h
    split at h
    · rename_i raft b heq
      cases h
      exact (Res.Post.of_eq (tick_vinv _) heq).rebaseRand.nstep
    · cases h
    · cases h
  | step m =>
    simp only [applyOp] at h
    obtain ⟨raft, e, hx, hr⟩ := unitRes_ok h
    rw [hr]
    exact (Res.Post.of_eq (rawStep_vinv _ m) hx).rebaseRand.nstep
  | rstep m =>
    simp only [applyOp] at h
    obtain ⟨raft, e, hx, hr⟩ := unitRes_ok h
    rw [hr]
    exact (Res.Post.of_eq (step_vinv (VInv.refl _ m)) hx).rebaseRand.nstep
  | propose c d =>
    simp only [applyOp] at h
    obtain ⟨raft, e, hx, hr⟩ := unitRes_ok h
    rw [hr]
    exact (Res.Post.of_eq (localStep_vinv _ _ rfl) hx).rebaseRand.nstep
  | proposeCc t c d =>
    simp only [applyOp] at h
    obtain ⟨raft, e, hx, hr⟩ := unitRes_ok h
    rw [hr]
    exact (Res.Post.of_eq (localStep_vinv _ _ rfl) hx).rebaseRand.nstep
  | readIndex c =>
    simp only [applyOp] at h
    obtain ⟨raft, hx, hr⟩ := okRes_ok h
    rw [hr]
    exact (Res.Post.of_eq (localStepIgnore_vinv _ _ rfl) hx).rebaseRand.nstep
  | transferLeader x =>
    simp only [applyOp] at h
    obtain ⟨raft, hx, hr⟩ := okRes_ok h
    rw [hr]
    exact (Res.Post.of_eq (localStepIgnore_vinv _ _ rfl) hx).rebaseRand.nstep
  | campaign =>
    simp only [applyOp] at h
    obtain ⟨raft, e, hx, hr⟩ := unitRes_ok h
    rw [hr]
    exact (Res.Post.of_eq (localStep_vinv _ _ rfl) hx).rebaseRand.nstep
  | ping =>
    simp only [applyOp] at h
    obtain ⟨raft, hx, hr⟩ := okRes_ok h
    rw [hr]
    exact (hrefl.vf (Res.Post.of_eq (ping_vf _) hx)).nstep
  | requestSnapshot =>
    simp only [applyOp] at h
    obtain ⟨raft, e, hx, hr⟩ := unitRes_ok h
    rw [hr]
    exact (hrefl.vf (Res.Post.of_eq (P := fun x => VF _ x.1) (requestSnapshot_vf _) hx)).nstep
  | reportUnreachable x =>
    simp only [applyOp] at h
    obtain ⟨raft, hx, hr⟩ := okRes_ok h
    rw [hr]
    exact (Res.Post.of_eq (localStepIgnore_vinv _ _ rfl) hx).rebaseRand.nstep
  | reportSnapshot x f =>
    simp only [applyOp] at h
    obtain ⟨raft, hx, hr⟩ := okRes_ok h
    rw [hr]
    exact (Res.Post.of_eq (localStepIgnore_vinv _ _ rfl) hx).rebaseRand.nstep
  | applyConfChange cc =>
    simp only [applyOp] at h
    split at h
    · rename_i raft cs heq
      cases h
      exact (Res.Post.of_eq (applyConfChange_vinv _ cc) heq).rebaseRand.nstep
    · rename_i raft e heq
      cases h
      exact (Res.Post.of_eq (applyConfChange_vinv _ cc) heq).rebaseRand.nstep
    · cases h
    · cases h
  | stabilize =>
    simp only [applyOp, Node.stabilize] at h
    split at h
    · rename_i l _
      cases h
      exact hrefl.nstepLog _ (Or.inr (Or.inl ⟨rfl, rfl, rfl, rfl⟩))
    · cases h
    · cases h
  | onPersistEntries i t =>
    simp only [applyOp] at h
    obtain ⟨raft, hx, hr⟩ := okRes_ok h
    rw [hr]
    exact (hrefl.vf (Res.Post.of_eq (onPersistEntries_vf _ _ _) hx)).nstep
  | persistSnap =>
    simp only [applyOp, Node.persistSnap] at h
    split at h
    · cases h; exact hrefl.nstep
    · rename_i s _
      split at h
      · cases h; exact hrefl.nstep
      · cases h
      · rename_i store hap
        split at h
        · cases h
        · cases h
        · rename_i l hl
          split at h
          · rename_i raft hop
            cases h
            have hf := Res.Post.of_eq (onPersistSnap_vf _ _) hop
            have hv : VInv ({ st.raft with raftLog := l } : Raft) mLocal raft :=
              ((VInv.refl _ mLocal).vf (by simp [VF, ncore])).vf hf
            refine hv.nstepFrom ?_
            have e1 : raft.raftLog.store.hardState = store.hardState := by
              rw [hf.hs]; show l.store.hardState = _; rw [C06.stableSnap_store hl]
            have e2 : store.hardState = { st.raft.raftLog.store.hardState with
                term := max st.raft.raftLog.store.hardState.term s.metadata.term,
                commit := s.metadata.index } := by
              unfold MemStorage.applySnapshot at hap
              dsimp only at hap
              split at hap
              · cases hap
              · cases hap; rfl
            unfold HsRel
            rw [e1, e2]
            by_cases hmax : st.raft.raftLog.store.hardState.term < s.metadata.term
            · right; right
              exact ⟨by show _ < max _ _; omega, rfl⟩
            · left
              exact ⟨by show max _ _ = _; omega, rfl⟩
          · cases h
          · cases h
  | commitApply k =>
    simp only [applyOp, Node.commitApply] at h
    split at h
    · rename_i r2 hb
      rw [Res.bind_eq_ok_iff] at hb
      obtain ⟨r1, h1, h2⟩ := hb
      have hv1 : VInv st.raft mLocal r1 := by
        split at h1
        · split at h1
          · cases h1; exact hrefl.vf (reduceUncommittedSize_vf _ _)
          · cases h1; exact hrefl
          · cases h1
        · cases h1; exact hrefl
      have hv2 : VInv st.raft mLocal r2 := hv1.vf (Res.Post.of_eq (commitApply_vf _ _) h2)
      cases h
      split
      · exact hv2.nstepLog _ (Or.inl ⟨by rw [← hv2.hs], by rw [← hv2.hs]⟩)
      · exact hv2.nstep
    · cases h
    · cases h
  | compact k =>
    simp only [applyOp] at h
    split at h
    · rename_i store hc
      cases h
      exact hrefl.nstepLog _ (hsRel_same (compact_hs hc))
    · cases h
    · cases h
  | drain =>
    simp only [applyOp] at h
    cases h
    have hv : VInv st.raft mLocal
        ({ ({ st.raft with nextRand := rnd } : Raft) with msgs := [], readStates := [] } : Raft) :=
      hrefl.of_ncore rfl (by intro x hx; cases hx)
    exact hv.nstep
  | triggerSnap =>
    simp only [applyOp] at h
    cases h
    exact hrefl.nstepLog _ (hsRel_same rfl)
  | triggerLog b =>
    simp only [applyOp] at h
    cases h
    exact hrefl.nstepLog _ (hsRel_same rfl)
  | setPriority p =>
    simp only [applyOp] at h
    cases h
    exact (hrefl.vf (by simp [VF, ncore, Raft.setPriority])).nstep
  | setBatchAppend b =>
    simp only [applyOp] at h
    cases h
    exact (hrefl.vf (by simp [VF, ncore, Raft.setBatchAppend])).nstep
  | skipBcastCommit b =>
    simp only [applyOp] at h
    cases h
    exact (hrefl.vf (by simp [VF, ncore, Raft.setSkipBcastCommit])).nstep
  | setCheckQuorum b =>
    simp only [applyOp] at h
    cases h
    exact (hrefl.vf (by simp [VF, ncore, Raft.setCheckQuorum])).nstep
  | adjustMaxInflight id cap =>
    simp only [applyOp] at h
    obtain ⟨raft, hx, hr⟩ := okRes_ok h
    rw [hr]
    exact (hrefl.vf (Res.Post.of_eq (adjustMaxInflightMsgs_vf _ _ _) hx)).nstep
  | maybeFreeInflightBuffers =>
    simp only [applyOp] at h
    cases h
    have hf : VF ({ st.raft with nextRand := rnd } : Raft)
        (Raft.maybeFreeInflightBuffers ({ st.raft with nextRand := rnd } : Raft)) :=
      mapProgress_vf _ _
    exact (hrefl.vf hf).nstep
  | enableGroupCommit b =>
    simp only [applyOp] at h
    obtain ⟨raft, hx, hr⟩ := okRes_ok h
    rw [hr]
    exact (hrefl.vf (Res.Post.of_eq (enableGroupCommit_vf _ _) hx)).nstep
  | assignCommitGroups v =>
    simp only [applyOp] at h
    obtain ⟨raft, hx, hr⟩ := okRes_ok h
    rw [hr]
    exact (hrefl.vf (Res.Post.of_eq (assignCommitGroups_vf _ _) hx)).nstep
  | clearCommitGroup =>
    simp only [applyOp] at h
    cases h
    have hf : VF ({ st.raft with nextRand := rnd } : Raft)
        (Raft.clearCommitGroup ({ st.raft with nextRand := rnd } : Raft)) :=
      mapProgress_vf _ _
    exact (hrefl.vf hf).nstep
  | checkGroupCommitConsistent =>
    simp only [applyOp] at h
    split at h
    · cases h; exact hrefl.nstep
    · cases h; exact hrefl.nstep
    · cases h
    · cases h
  | setMaxApplyUnpersistedLogLimit x =>
    simp only [applyOp] at h
    cases h
    exact (hrefl.vf (by simp [VF, ncore, Raft.setMaxApplyUnpersistedLogLimit])).nstep
  | setMaxCommittedSizePerReady x =>
    simp only [applyOp] at h
    cases h
    exact (hrefl.vf (by simp [VF, ncore, Raft.setMaxCommittedSizePerReady])).nstep
  | onEntriesFetched to term aggr =>
    rcases onEntriesFetched_ok h with h | ⟨-, -, -, raft, hx, h⟩
    · cases h; exact hrefl.nstep
    · cases h
      rcases hx with hx | hx
      · exact (hrefl.vf (Res.Post.of_eq (sendAppendAggressively_vf _ _) hx)).nstep
      · exact (hrefl.vf (Res.Post.of_eq (sendAppend_vf _ _) hx)).nstep

/-- `drain` clears the queue and changes nothing else the vote argument reads -/
theorem drain_eq (st st' : NState) (h : Node.call st none .drain = .ok (.ok, st')) :
    ncore st'.raft = ncore st.raft ∧ st'.raft.msgs = [] := by
  unfold Node.call at h
  simp only [applyOp] at h
  cases h
  exact ⟨rfl, rfl⟩

/-! ### `RawNode::new` -/

/-- what a freshly booted node looks like -/
structure Booted (c : Config) (store : MemStorage) (r : Raft) : Prop where
  id : r.id = c.id
  idnz : c.id ≠ 0
  msgs : r.msgs = []
  state : r.state = .follower
  term : r.term = store.hardState.term
  vote : r.vote = store.hardState.vote
  hs : r.raftLog.store.hardState = store.hardState
  prom : r.promotable = Joint.contains r.prs.voters r.id

theorem postConfChange_follower_eq (r : Raft) (hs : r.state = .follower) :
    r.postConfChange = .ok ({ r with promotable := Joint.contains r.prs.voters r.id },
      r.prs.conf.toConfState) := by
  unfold Raft.postConfChange
  simp [hs]

theorem commitApplyInternal_msgs (r : Raft) (applied : Nat) (skip : Bool) (hs : r.state ≠ .leader) :
    Res.Post (fun x => x.msgs = r.msgs) (r.commitApplyInternal applied skip) := by
  unfold commitApplyInternal
  dsimp only
  split
  · trivial
  · trivial
  · split
    · rename_i hc
      exact absurd hc.2.2.2 hs
    · rfl

theorem raftNew_booted (c : Config) (store : MemStorage) (rnd : Option Nat) (r : Raft)
    (hid : c.id ≠ 0) (h : Raft.new c store rnd = .ok (.ok r)) : Booted c store r := by
  unfold Raft.new at h
  split at h
  · cases h
  · dsimp only at h
    split at h
    · cases h
    · cases h
    · rename_i log hnew
      have hlog : log.store = store := by
        unfold RaftLog.new at hnew
        split at hnew
        · cases hnew
        · cases hnew; rfl
      split at h
      · cases h
      · rename_i prs _
        rw [postConfChange_follower_eq _ rfl] at h
        simp only [Res.bind] at h
        split at h
        · cases h
        · generalize hr1 : (if store.initialState.1 ≠ {} then
            Raft.loadState _ store.initialState.1 else Res.ok _) = r1 at h
          cases r1 with
          | ok b =>
            dsimp only [Res.bind] at h
            generalize hr2 : (if c.applied > 0 then b.commitApplyInternal c.applied true
              else Res.ok b) = r2 at h
            cases r2 with
            | ok d =>
              dsimp only [Res.bind] at h
              cases h
              -- the state after `load_state`
              have hb : b.id = c.id ∧ b.msgs = [] ∧ b.state = .follower ∧
                  b.term = store.hardState.term ∧ b.vote = store.hardState.vote ∧
                  b.raftLog.store.hardState = store.hardState ∧
                  b.promotable = Joint.contains b.prs.voters b.id := by
                by_cases hhs : store.hardState ≠ {}
                · have hhs' : store.initialState.1 ≠ {} := hhs
                  rw [if_pos hhs'] at hr1
                  change Raft.loadState _ store.hardState = _ at hr1
                  unfold Raft.loadState at hr1
                  split at hr1
                  · cases hr1
                  · cases hr1
                    exact ⟨rfl, rfl, rfl, rfl, rfl, by show log.store.hardState = _; rw [hlog], rfl⟩
                · have hhs' : ¬ store.initialState.1 ≠ {} := hhs
                  rw [if_neg hhs'] at hr1
                  cases hr1
                  have e : store.hardState = {} := by
                    apply Classical.byContradiction; intro hc; exact hhs hc
                  refine ⟨rfl, rfl, rfl, ?_, ?_, by show log.store.hardState = _; rw [hlog], rfl⟩
                  · rw [e]
                  · rw [e]
              have hd : VF b d := by
                by_cases hca : c.applied > 0
                · rw [if_pos hca] at hr2
                  exact Res.Post.of_eq (commitApplyInternal_vf _ _ _) hr2
                · rw [if_neg hca] at hr2
                  cases hr2; exact VF.refl _
              obtain ⟨b1, b2, b3, b4, b5, b6, b7⟩ := hb
              have hk := c02_becomeFollower_keep d d.term 0
              obtain ⟨f1, _, _, f4, f5⟩ := c02_becomeFollower_fields d d.term 0
              refine ⟨hk.id.trans (hd.id.trans b1), hid, ?_, f1, ?_, ?_, ?_, ?_⟩
              · rw [hk.msgs]
                have := hd.rv
                rw [b2] at this
                -- the queue of `d`: `commit_apply_internal` on a follower queues nothing
                by_cases hca : c.applied > 0
                · rw [if_pos hca] at hr2
                  have := Res.Post.of_eq (commitApplyInternal_msgs b c.applied true (by rw [b3]; decide)) hr2
                  rw [this]; exact b2
                · rw [if_neg hca] at hr2
                  cases hr2; exact b2
              · rw [f4, hd.term, b4]
              · rw [f5, hd.vote, b5]; simp
              · rw [hk.log.store, hd.hs, b6]
              · rw [becomeFollower_promotable, hd.promotable, b7]
                unfold ProgressTracker.voters
                rw [hk.conf, hd.conf, hk.id, hd.id]
            | err e => cases h
            | panic s => cases h
          | err e => cases h
          | panic s => cases h

theorem boot_booted (c : Config) (store : MemStorage) (rnd : Option Nat) (st : NState)
    (h : Node.boot c store rnd = .ok (.ok st)) : Booted c store st.raft := by
  unfold Node.boot at h
  split at h
  · rename_i raft hn
    cases h
    unfold RawNode.new at hn
    split at hn
    · cases hn
    · rename_i hid
      exact raftNew_booted c store rnd raft hid hn
  · cases h
  · cases h
  · cases h

end CV
end Raft
end RaftModel
