import RaftProofs.ProtoCDefs

/-!
`InvB` (shape of the ghost logs, ghost quorum evidence of every election, up-to-date checks recorded
with generated / released grants) holds initially and is preserved by every event of P.
-/
namespace RaftModel.P

theorem invB_init (c0 : Cfg) : InvB init := by
  constructor
  · intro t; exact ⟨[], by simp [init], by simp, by simp [init]⟩
  · intro p hp; simp [init] at hp
  · intro i t v c gh hm; simp [init] at hm
  · intro p hp; simp [init] at hp
  · intro ec hec; simp [init] at hec

/-- frame lemma: a step that changes node `i` only and leaves the ghost history alone; the grants in
the new outbox are old ones or satisfy the up-to-date check -/
theorem invB_node (c0 : Cfg) (s : PSys) (h : InvB s) (i : Nat) (n : PNode) (s' : PSys)
    (hn : s'.nodes = upd s.nodes i n) (hll : s'.llog = s.llog) (helog : s'.elog = s.elog)
    (hel : s'.elected = s.elected) (hrgv : s'.rgv = s.rgv) (hec : s'.ecfgs = s.ecfgs)
    (hg : ∀ t v c gh, OMsg.grant t v c gh ∈ n.outbox →
      OMsg.grant t v c gh ∈ (s.nodes i).outbox ∨ upToDate gh.clt gh.cli gh.vlog = true) :
    InvB s' := by
  constructor
  · rw [hll, helog]; exact h.ll
  · rw [hel, hrgv, helog, hec]; exact h.eq
  · intro j t v c gh hm
    rw [hn] at hm
    by_cases hj : j = i
    · subst hj
      simp only [upd, if_true] at hm
      rcases hg t v c gh hm with h1 | h1
      · exact h.gto j t v c gh h1
      · exact h1
    · simp only [upd, hj, if_false] at hm
      exact h.gto j t v c gh hm
  · rw [hrgv]; exact h.gt
  · intro ec hx; rw [hec] at hx
    obtain ⟨j, hj⟩ := h.ee ec hx
    exact ⟨j, by rw [hel]; exact hj⟩

/-- a grant in an outbox extended by one acknowledgement was there before -/
theorem grant_of_append_ack {l : List OMsg} {t v c : Nat} {gh : VGhost} {t' f idx : Nat} {pre : List LEntry}
    (h : OMsg.grant t v c gh ∈ l ++ [OMsg.ack t' f idx pre]) : OMsg.grant t v c gh ∈ l := by
  rcases List.mem_append.1 h with h | h
  · exact h
  · rw [List.mem_singleton] at h; cases h

theorem upToDate_self (l : List LEntry) : upToDate (lastTerm l) l.length l = true := by
  simp [upToDate]

/-! ### the two events that change the ghost logs -/

theorem invB_win (s s' : PSys) (i : Nat) (c0 : Cfg) (q : List Nat)
    (h : applyEvent s (.win i c0 q) = .ok s') (hV : InvV (vsys s)) (hL : InvL s) (hB : InvB s) :
    InvB s' := by
  obtain ⟨hrole, hq, hall, hrg, hs', _, hadj, _⟩ := win_guard h
  have hf := win_fresh s hV hL i c0 q hrole hq hall hadj
  subst hs'
  constructor
  · intro t
    by_cases ht : t = (s.nodes i).term
    · subst ht
      refine ⟨[], ?_, ?_, ?_⟩
      · simp only [updT, if_true, List.append_nil]
      · intro e he; cases he
      · intro e he
        simp only [updT, if_true] at he
        have hle := (hL.tle i).1 e he
        have hne' : e.term ≠ (s.nodes i).term := by
          intro heq
          obtain ⟨k, hk⟩ := List.getElem?_of_mem he
          have := PFL_mem (keep_log s hL i) k e hk
          rw [heq, hL.nole _ (fun j hj => hf ⟨j, hj⟩)] at this
          simp at this
        omega
    · simp only [updT, ht, if_false]; exact hB.ll t
  · intro p hp
    rcases List.mem_cons.1 hp with hp | hp
    · subst hp
      refine ⟨c0, q, List.mem_cons_self, hq, ?_⟩
      intro v hv
      obtain ⟨p', hp', h1, h2, h3, h4⟩ := hrg v hv
      refine ⟨p'.2, ?_, h2, ?_⟩
      · show (_, p'.2) ∈ s.rgv
        rw [← h1]; exact hp'
      · simp only [updT, if_true]
        rw [← h3, ← h4]; exact hB.gt p' hp'
    · have hne' : p.1 ≠ (s.nodes i).term := fun he => hf ⟨p.2, by rw [← he]; exact hp⟩
      obtain ⟨c', q', hc', hq', hall'⟩ := hB.eq p hp
      refine ⟨c', q', List.mem_cons_of_mem _ hc', hq', ?_⟩
      simp only [updT, hne', if_false]; exact hall'
  · intro j t v c gh hm
    by_cases hj : j = i
    · subst hj
      simp only [upd, if_true] at hm
      exact hB.gto j t v c gh hm
    · simp only [upd, hj, if_false] at hm
      exact hB.gto j t v c gh hm
  · exact hB.gt
  · intro ec hx
    rcases List.mem_cons.1 hx with hx | hx
    · subst hx; exact ⟨i, List.mem_cons_self⟩
    · obtain ⟨j, hj⟩ := hB.ee ec hx
      exact ⟨j, List.mem_cons_of_mem _ hj⟩

theorem invB_lappend (c0 : Cfg) (s : PSys) (i : Nat) (e : LEntry) (hL : InvL s) (hB : InvB s)
    (hrole : (s.nodes i).role = 2) (het : e.term = (s.nodes i).term) :
    InvB { s with nodes := upd s.nodes i { s.nodes i with log := (s.nodes i).log ++ [e] }, llog := updT s.llog (s.nodes i).term ((s.nodes i).log ++ [e]) } := by
  constructor
  · intro t
    by_cases ht : t = (s.nodes i).term
    · subst ht
      obtain ⟨r, hr, hrt, helt⟩ := hB.ll (s.nodes i).term
      refine ⟨r ++ [e], ?_, ?_, helt⟩
      · simp only [updT, if_true]
        rw [hL.ll i hrole, hr, List.append_assoc]
      · intro x hx
        rcases List.mem_append.1 hx with hx | hx
        · exact hrt x hx
        · rw [List.mem_singleton.1 hx]; exact het
    · simp only [updT, ht, if_false]; exact hB.ll t
  · exact hB.eq
  · intro j t v c gh hm
    by_cases hj : j = i
    · subst hj
      simp only [upd, if_true] at hm
      exact hB.gto j t v c gh hm
    · simp only [upd, hj, if_false] at hm
      exact hB.gto j t v c gh hm
  · exact hB.gt
  · exact hB.ee

/-! ### release -/

theorem invB_release (c0 : Cfg) (s s' : PSys) (i : Nat) (key : OMsg)
    (h : applyEvent s (.release i key) = .ok s') (hB : InvB s) : InvB s' := by
  simp only [applyEvent, ok] at h
  split at h
  · split at h
    · rename_i m hm
      split at h
      · rename_i hg
        cases m with
        | ack t f idx pre =>
          simp only [addReleased] at h
          cases h
          exact ⟨hB.ll, hB.eq, hB.gto, hB.gt, hB.ee⟩
        | voteReq t c lt li => simp [OMsg.isAck] at hg
        | grant t vv c gh => simp [OMsg.isAck] at hg
      · cases h
    · cases h
  · split at h
    · rename_i k hk
      split at h
      · rename_i m hm
        split at h
        · rename_i hg
          have hmem : m ∈ (s.nodes i).outbox := List.mem_of_getElem? hm
          have hbase : InvB { s with nodes := upd s.nodes i { s.nodes i with outbox := (s.nodes i).outbox.eraseIdx k } } :=
            invB_node c0 s hB i _ _ rfl rfl rfl rfl rfl rfl
              (fun t v c gh hx => Or.inl (List.mem_of_mem_eraseIdx hx))
          cases m with
          | voteReq t c lt li =>
            simp only [addReleased] at h
            cases h
            exact ⟨hbase.ll, hbase.eq, hbase.gto, hbase.gt, hbase.ee⟩
          | grant t vv c gh =>
            simp only [addReleased] at h
            cases h
            refine ⟨hbase.ll, ?_, hbase.gto, ?_, hbase.ee⟩
            · intro p hp
              obtain ⟨c', q, hc', hq, hall⟩ := hbase.eq p hp
              refine ⟨c', q, hc', hq, ?_⟩
              intro v hv
              obtain ⟨gh', h1, h2, h3⟩ := hall v hv
              exact ⟨gh', List.mem_cons_of_mem _ h1, h2, h3⟩
            · intro p hp
              rcases List.mem_cons.1 hp with hp | hp
              · subst hp; exact hB.gto i t vv c gh hmem
              · exact hB.gt p hp
          | ack t f idx pre =>
            have := hg.2.2
            simp [OMsg.isAck] at this
        · cases h
      · cases h
    · cases h

/-! ### all events -/

set_option maxHeartbeats 800000 in
theorem invB_step (c0 : Cfg) (s s' : PSys) (e : Event)
    (h : applyEvent s e = .ok s')
    (hV : InvV (vsys s)) (hR : InvR s) (hL : InvL s) (hA : InvA s) (hB : InvB s) : InvB s' := by
  cases e with
  | read r =>
    simp only [applyEvent, ok] at h
    split at h
    · cases h; exact ⟨hB.ll, hB.eq, hB.gto, hB.gt, hB.ee⟩
    · cases h
  | bump i t =>
    simp only [applyEvent, ok] at h
    split at h
    · cases h
      exact invB_node c0 s hB i _ _ rfl rfl rfl rfl rfl rfl (fun _ _ _ _ hm => Or.inl hm)
    · cases h
  | campaign i =>
    simp only [applyEvent, ok] at h
    split at h
    · cases h
      refine invB_node c0 s hB i _ _ rfl rfl rfl rfl rfl rfl ?_
      intro t v c gh hm
      simp only [List.mem_append, List.mem_cons, List.not_mem_nil, or_false] at hm
      rcases hm with hm | hm | hm
      · exact Or.inl hm
      · cases hm
      · right
        injection hm with _ _ _ hgh
        subst hgh
        exact upToDate_self _
    · cases h
  | grant i c =>
    simp only [applyEvent, ok] at h
    split at h
    · rename_i r hr
      split at h
      · cases h
        refine invB_node c0 s hB i _ _ rfl rfl rfl rfl rfl rfl ?_
        intro t v c' gh hm
        simp only [List.mem_append, List.mem_singleton] at hm
        rcases hm with hm | hm
        · exact Or.inl hm
        · right
          injection hm with _ _ _ hgh
          subst hgh
          have := List.find?_some hr
          simp only [decide_eq_true_eq] at this
          exact this.2.2
      · cases h
    · cases h
  | rdy i =>
    simp only [applyEvent, ok] at h
    split at h
    · cases h
      exact invB_node c0 s hB i _ _ rfl rfl rfl rfl rfl rfl (fun _ _ _ _ hm => Or.inl hm)
    · cases h
  | persist i k =>
    simp only [applyEvent, ok] at h
    split at h
    · split at h
      · cases h
        exact invB_node c0 s hB i _ _ rfl rfl rfl rfl rfl rfl (fun _ _ _ _ hm => Or.inl hm)
      · cases h
    · cases h
  | release i key => exact invB_release c0 s s' i key h hB
  | crash i =>
    simp only [applyEvent, ok] at h
    split at h
    · cases h
      exact invB_node c0 s hB i _ _ rfl rfl rfl rfl rfl rfl (fun _ _ _ _ hm => by cases hm)
    · cases h
  | restart i =>
    simp only [applyEvent, ok] at h
    split at h
    · cases h
      refine invB_node c0 s hB i _ _ rfl rfl rfl rfl rfl rfl ?_
      intro t v c gh hm
      simp only [List.mem_filter, OMsg.isAck] at hm
      exact absurd hm.2 (by simp)
    · cases h
  | win i cfg q =>
    exact invB_win s s' i cfg q h hV hL hB
  | stepDown i =>
    simp only [applyEvent, ok] at h
    split at h
    · cases h
      exact invB_node c0 s hB i _ _ rfl rfl rfl rfl rfl rfl (fun _ _ _ _ hm => Or.inl hm)
    · cases h
  | leaderAppend i e =>
    simp only [applyEvent, ok] at h
    split at h
    · rename_i hg; cases h
      exact invB_lappend c0 s i e hL hB hg.2.1 hg.2.2
    · cases h
  | sendApp i m =>
    simp only [applyEvent, ok] at h
    split at h
    · cases h; exact ⟨hB.ll, hB.eq, hB.gto, hB.gt, hB.ee⟩
    · cases h
  | recvApp i m =>
    simp only [applyEvent, ok] at h
    split at h
    · cases h
      exact invB_node c0 s hB i _ _ rfl rfl rfl rfl rfl rfl (fun _ _ _ _ hm => Or.inl (grant_of_append_ack hm))
    · cases h
  | ackCommitted i =>
    simp only [applyEvent, ok] at h
    split at h
    · cases h
      exact invB_node c0 s hB i _ _ rfl rfl rfl rfl rfl rfl (fun _ _ _ _ hm => Or.inl (grant_of_append_ack hm))
    · cases h
  | ackSelf i idx =>
    simp only [applyEvent, ok] at h
    split at h
    · cases h
      exact invB_node c0 s hB i _ _ rfl rfl rfl rfl rfl rfl (fun _ _ _ _ hm => Or.inl (grant_of_append_ack hm))
    · cases h
  | commitLeader i c cfg q =>
    simp only [applyEvent, ok] at h
    split at h
    · cases h
      exact invB_node c0 s hB i _ _ rfl rfl rfl rfl rfl rfl (fun _ _ _ _ hm => Or.inl hm)
    · cases h
  | commitApp i c m =>
    simp only [applyEvent, ok] at h
    split at h
    · cases h
      exact invB_node c0 s hB i _ _ rfl rfl rfl rfl rfl rfl (fun _ _ _ _ hm => Or.inl hm)
    · cases h
  | commitHB i c m =>
    simp only [applyEvent, ok] at h
    split at h
    · cases h
      exact invB_node c0 s hB i _ _ rfl rfl rfl rfl rfl rfl (fun _ _ _ _ hm => Or.inl hm)
    · cases h
  | commitClaim i m =>
    simp only [applyEvent, ok] at h
    split at h
    · cases h
      exact invB_node c0 s hB i _ _ rfl rfl rfl rfl rfl rfl (fun _ _ _ _ hm => Or.inl hm)
    · cases h
  | sendHB i to c =>
    simp only [applyEvent, ok] at h
    split at h
    · cases h; exact ⟨hB.ll, hB.eq, hB.gto, hB.gt, hB.ee⟩
    · cases h
  | claim i idx =>
    simp only [applyEvent, ok] at h
    split at h
    · cases h; exact ⟨hB.ll, hB.eq, hB.gto, hB.gt, hB.ee⟩
    · cases h
  | sendSnap i idx =>
    simp only [applyEvent, ok] at h
    split at h
    · cases h; exact ⟨hB.ll, hB.eq, hB.gto, hB.gt, hB.ee⟩
    · cases h
  | installSnap i t idx sterm =>
    simp only [applyEvent, ok] at h
    split at h
    · split at h
      · cases h
        exact invB_node c0 s hB i _ _ rfl rfl rfl rfl rfl rfl (fun _ _ _ _ hm => Or.inl (grant_of_append_ack hm))
      · cases h
    · cases h
  | commitSnap i t idx sterm =>
    simp only [applyEvent, ok] at h
    split at h
    · split at h
      · cases h
        exact invB_node c0 s hB i _ _ rfl rfl rfl rfl rfl rfl (fun _ _ _ _ hm => Or.inl hm)
      · cases h
    · cases h
  | bootstrap i donor idx =>
    simp only [applyEvent, ok] at h
    split at h
    · cases h
      exact invB_node c0 s hB i _ _ rfl rfl rfl rfl rfl rfl (fun _ _ _ _ hm => Or.inl hm)
    · cases h

theorem invB_reachR (s : PSys) (h : Reach s) : InvB s := by
  induction h with
  | init => exact invB_init ⟨[], []⟩
  | step e hr hs ih =>
    exact invB_step ⟨[], []⟩ _ _ e hs (invV_reachR _ hr) (invR_reachR _ hr) (invL_reachR _ hr)
      (invA_reachR _ hr) ih

theorem invB_reach (c0 : Cfg) (_hne : c0.incoming ≠ [] ∨ c0.outgoing ≠ []) (s : PSys) (h : ReachC c0 s) :
    InvB s := invB_reachR s (reach_of_reachC h)

end RaftModel.P
