import RaftProofs.ClusterConfE

/-!
C09 at the cluster level, part F: the campaign guard through `tick` and through EVERY `NodeOp`
(`call_elected`): a call starts an election only if it is `tick`, `campaign`, or a stepped
`MsgTimeoutNow` (`MsgHup` too for a direct `Raft::step`), and only when `HupGuard` held in the state
the call started from.
-/
namespace RaftModel
namespace Raft
open VoteOb Node

/-- a leader stepping its own `MsgCheckQuorum` / `MsgBeat` stays leader or steps down -/
theorem step_leader_local {r r' : Raft} {m : Message} {e : Option RaftError}
    (hs : r.state = .leader) (h0 : m.term = 0)
    (hm : m.msgType = .msgCheckQuorum ∨ m.msgType = .msgBeat) (h : r.step m = .ok (r', e)) :
    r'.state = .leader ∨ r'.state = .follower := by
  obtain ⟨r1, b, ht, hc⟩ := c02_step_cases h
  have hr1 : r1 = r := by
    rcases c02_stepTerm_cases ht with ⟨e1, _⟩ | ⟨_, _, hne, _⟩ | ⟨_, hlt, _⟩
    · exact e1
    · exact absurd h0 hne
    · omega
  subst hr1
  rcases hc with ⟨_, e1⟩ | ⟨_, ⟨hm', _⟩ | ⟨hm', _⟩ | ⟨_, _, _, ⟨hs', _⟩ | ⟨hs', _⟩ | ⟨_, hl⟩⟩⟩
  · subst e1; exact .inl hs
  · rcases hm with g | g <;> (rw [g] at hm'; cases hm')
  · rcases hm with g | g <;> (rcases hm' with q | q <;> (rw [g] at q; cases q))
  · rcases hs' with g | g <;> (rw [hs] at g; cases g)
  · rw [hs] at hs'; cases hs'
  · rcases c02_stepLeader_cases hl with fr | ⟨g, _⟩
    · exact .inl (fr.state.trans hs)
    · exact .inr g

theorem stepIgnore_leader_local {r r' : Raft} {m : Message}
    (hs : r.state = .leader) (h0 : m.term = 0)
    (hm : m.msgType = .msgCheckQuorum ∨ m.msgType = .msgBeat) (h : r.stepIgnore m = .ok r') :
    r'.state = .leader ∨ r'.state = .follower := by
  unfold Raft.stepIgnore at h
  rw [Res.bind_eq_ok_iff] at h
  obtain ⟨⟨r1, e⟩, hs1, h⟩ := h
  cases h
  exact step_leader_local hs h0 hm hs1

/-- a leader's tick never makes it a candidate -/
theorem tickHeartbeat_state {r r' : Raft} {b : Bool} (hs : r.state = .leader)
    (h : r.tickHeartbeat = .ok (r', b)) : r'.state = .leader ∨ r'.state = .follower := by
  unfold Raft.tickHeartbeat at h
  simp only [] at h
  rw [Res.bind_eq_ok_iff] at h
  obtain ⟨⟨r1, b1⟩, hs1, h⟩ := h
  have h1 : r1.state = .leader ∨ r1.state = .follower := by
    split at hs1
    · rw [Res.bind_eq_ok_iff] at hs1
      obtain ⟨⟨r2, b2⟩, hs2, hs1⟩ := hs1
      have h2 : r2.state = .leader ∨ r2.state = .follower := by
        split at hs2
        · rw [Res.bind_eq_ok_iff] at hs2
          obtain ⟨r3, hs3, hs2⟩ := hs2
          cases hs2
          exact stepIgnore_leader_local (by exact hs) rfl (.inl rfl) hs3
        · cases hs2; exact .inl hs
      simp only [] at hs1
      split at hs1
      · cases hs1; exact h2
      · cases hs1; exact h2
    · cases hs1; exact .inl hs
  simp only [] at h
  split at h
  · cases h; exact h1
  · rename_i hl
    have hl' : r1.state = .leader := by
      apply Classical.byContradiction; intro hc; exact hl hc
    split at h
    · rw [Res.bind_eq_ok_iff] at h
      obtain ⟨r3, hs3, h⟩ := h
      cases h
      exact stepIgnore_leader_local (by exact hl') rfl (.inr rfl) hs3
    · cases h; exact h1

/-- **`tick`**: an election is started (election timeout) only when the guard holds -/
theorem tick_elected {r r' : Raft} {b : Bool} (h : r.tick = .ok (r', b)) (hel : Elected r r') :
    HupGuard r := by
  have hE : r.tickElection = .ok (r', b) → HupGuard r := by
    intro h
    unfold Raft.tickElection at h
    simp only [] at h
    split at h
    · cases h
      exact absurd hel (not_elected_same rfl rfl)
    · rw [Res.bind_eq_ok_iff] at h
      obtain ⟨r1, hs, h⟩ := h
      cases h
      unfold Raft.stepIgnore at hs
      rw [Res.bind_eq_ok_iff] at hs
      obtain ⟨⟨r2, e⟩, hs2, hs⟩ := hs
      cases hs
      exact (step_elected hs2 hel).1
  unfold Raft.tick at h
  split at h
  · exact hE h
  · exact hE h
  · exact hE h
  · rename_i hs
    exfalso
    rcases tickHeartbeat_state hs h with g | g
    · exact not_elected_leader g hel
    · exact not_elected_follower g hel

/-- `apply_conf_change` keeps role and term, or a removed leader steps down -/
theorem applyConfChange_state {r r' : Raft} {cc : ConfChangeV2} {x : Except ErrKind ConfState}
    (h : r.applyConfChange cc = .ok (r', x)) :
    (r'.state = r.state ∧ r'.term = r.term) ∨ r'.state = .follower := by
  unfold Raft.applyConfChange at h
  simp only [] at h
  split at h
  · cases h; exact .inl ⟨rfl, rfl⟩
  · rename_i cfg changes _
    rw [Res.bind_eq_ok_iff] at h
    obtain ⟨⟨r1, cs⟩, hp, h⟩ := h
    cases h
    have := Res.Post.of_eq (CV.postConfChange_cases _) hp
    rcases this with ⟨_, _, e⟩ | e | ⟨r2, hf, e⟩
    · right
      have e' : r1 = _ := e
      rw [e']; rfl
    · left
      have e' : r1 = _ := e
      rw [e']; exact ⟨rfl, rfl⟩
    · left
      have e' : r1 = _ := e
      rw [e']
      have h1 := hf.state
      have h2 := hf.term
      split
      · split
        · exact ⟨h1, h2⟩
        · exact ⟨h1, h2⟩
      · exact ⟨h1, h2⟩

theorem vf_not_elected {a r r' : Raft} (h0 : a.state = r.state ∧ a.term = r.term)
    (h : CV.VF r r') : ¬ Elected a r' :=
  not_elected_same (h.state.trans h0.1.symm) (h.term.trans h0.2.symm)

/-- the calls that can start an election -/
def electOp : NodeOp → Prop
  | .tick => True
  | .campaign => True
  | .step m => m.msgType = .msgTimeoutNow
  | .rstep m => m.msgType = .msgHup ∨ m.msgType = .msgTimeoutNow
  | _ => False

/-- **one call of a node, any `NodeOp`**: if it starts an election, the guard held before the call,
and the call is `tick` (election timeout), `campaign`, or a stepped `MsgTimeoutNow` (transfer) —
for a direct `Raft::step` also a `MsgHup` -/
theorem call_elected (st st' : NState) (rnd : Option Nat) (op : NodeOp) (res : OpRes)
    (h : Node.call st rnd op = .ok (res, st')) (hel : Elected st.raft st'.raft) :
    HupGuard st.raft ∧ electOp op := by
  unfold Node.call at h
  have h0 : st.raft.state = ({ st.raft with nextRand := rnd } : Raft).state ∧
      st.raft.term = ({ st.raft with nextRand := rnd } : Raft).term := ⟨rfl, rfl⟩
  have viaStep : ∀ (m : Message) (raft : Raft) (e : Option RaftError),
      ({ st.raft with nextRand := rnd } : Raft).step m = .ok (raft, e) → st'.raft = raft →
      HupGuard st.raft ∧ (m.msgType = .msgHup ∨ m.msgType = .msgTimeoutNow) := by
    intro m raft e hx hr
    rw [hr] at hel
    have hel' : Elected ({ st.raft with nextRand := rnd } : Raft) raft := hel
    have key := step_elected hx hel'
    exact key
  have viaIgnore : ∀ (m : Message) (raft : Raft),
      ({ st.raft with nextRand := rnd } : Raft).stepIgnore m = .ok raft → st'.raft = raft →
      HupGuard st.raft ∧ (m.msgType = .msgHup ∨ m.msgType = .msgTimeoutNow) := by
    intro m raft hx hr
    unfold Raft.stepIgnore at hx
    rw [Res.bind_eq_ok_iff] at hx
    obtain ⟨⟨r1, e⟩, hs1, hx⟩ := hx
    cases hx
    exact viaStep m _ e hs1 hr
  have viaVF : ∀ raft : Raft, CV.VF ({ st.raft with nextRand := rnd } : Raft) raft →
      st'.raft = raft → False := by
    intro raft hf hr
    rw [hr] at hel
    exact vf_not_elected h0 hf hel
  cases op with
  | tick =>
    simp only [applyOp] at h
    split at h
    · rename_i raft b heq
      cases h
      have hel' : Elected ({ st.raft with nextRand := rnd } : Raft) raft := hel
      have key : HupGuard ({ st.raft with nextRand := rnd } : Raft) := tick_elected heq hel'
      exact ⟨key, trivial⟩
    · cases h
    · cases h
  | step m =>
    simp only [applyOp] at h
    obtain ⟨raft, e, hx, hr⟩ := CV.unitRes_ok h
    unfold RawNode.step at hx
    split at hx
    · cases hx
      rw [hr] at hel
      exact absurd hel (not_elected_same rfl rfl)
    · rename_i hloc
      split at hx
      · obtain ⟨g, hm⟩ := viaStep m raft e hx hr
        refine ⟨g, ?_⟩
        rcases hm with hm | hm
        · rw [hm] at hloc; exact absurd rfl hloc
        · exact hm
      · cases hx
        rw [hr] at hel
        exact absurd hel (not_elected_same rfl rfl)
  | rstep m =>
    simp only [applyOp] at h
    obtain ⟨raft, e, hx, hr⟩ := CV.unitRes_ok h
    exact viaStep m raft e hx hr
  | propose c d =>
    simp only [applyOp] at h
    obtain ⟨raft, e, hx, hr⟩ := CV.unitRes_ok h
    obtain ⟨_, hm⟩ := viaStep _ raft e hx hr
    rcases hm with hm | hm <;> cases hm
  | proposeCc t c d =>
    simp only [applyOp] at h
    obtain ⟨raft, e, hx, hr⟩ := CV.unitRes_ok h
    obtain ⟨_, hm⟩ := viaStep _ raft e hx hr
    rcases hm with hm | hm <;> cases hm
  | readIndex c =>
    simp only [applyOp] at h
    obtain ⟨raft, hx, hr⟩ := CV.okRes_ok h
    obtain ⟨_, hm⟩ := viaIgnore _ raft hx hr
    rcases hm with hm | hm <;> cases hm
  | transferLeader x =>
    simp only [applyOp] at h
    obtain ⟨raft, hx, hr⟩ := CV.okRes_ok h
    obtain ⟨_, hm⟩ := viaIgnore _ raft hx hr
    rcases hm with hm | hm <;> cases hm
  | campaign =>
    simp only [applyOp] at h
    obtain ⟨raft, e, hx, hr⟩ := CV.unitRes_ok h
    exact ⟨(viaStep _ raft e hx hr).1, trivial⟩
  | ping =>
    simp only [applyOp] at h
    obtain ⟨raft, hx, hr⟩ := CV.okRes_ok h
    exact (viaVF raft (Res.Post.of_eq (CV.ping_vf _) hx) hr).elim
  | requestSnapshot =>
    simp only [applyOp] at h
    obtain ⟨raft, e, hx, hr⟩ := CV.unitRes_ok h
    exact (viaVF raft (Res.Post.of_eq (P := fun x => CV.VF _ x.1) (CV.requestSnapshot_vf _) hx) hr).elim
  | reportUnreachable x =>
    simp only [applyOp] at h
    obtain ⟨raft, hx, hr⟩ := CV.okRes_ok h
    obtain ⟨_, hm⟩ := viaIgnore _ raft hx hr
    rcases hm with hm | hm <;> cases hm
  | reportSnapshot x f =>
    simp only [applyOp] at h
    obtain ⟨raft, hx, hr⟩ := CV.okRes_ok h
    obtain ⟨_, hm⟩ := viaIgnore _ raft hx hr
    rcases hm with hm | hm <;> cases hm
  | applyConfChange cc =>
    exfalso
    simp only [applyOp] at h
    split at h
    · rename_i raft cs heq
      cases h
      rcases applyConfChange_state heq with ⟨g1, g2⟩ | g
      · exact not_elected_same g1 g2 hel
      · exact not_elected_follower g hel
    · rename_i raft e heq
      cases h
      rcases applyConfChange_state heq with ⟨g1, g2⟩ | g
      · exact not_elected_same g1 g2 hel
      · exact not_elected_follower g hel
    · cases h
    · cases h
  | stabilize =>
    exfalso
    simp only [applyOp, Node.stabilize] at h
    split at h
    · cases h; exact not_elected_same rfl rfl hel
    · cases h
    · cases h
  | onPersistEntries i t =>
    simp only [applyOp] at h
    obtain ⟨raft, hx, hr⟩ := CV.okRes_ok h
    exact (viaVF raft (Res.Post.of_eq (CV.onPersistEntries_vf _ _ _) hx) hr).elim
  | persistSnap =>
    exfalso
    simp only [applyOp, Node.persistSnap] at h
    split at h
    · cases h; exact not_elected_same rfl rfl hel
    · split at h
      · cases h; exact not_elected_same rfl rfl hel
      · cases h
      · split at h
        · cases h
        · cases h
        · split at h
          · rename_i raft hop
            cases h
            have hf := Res.Post.of_eq (CV.onPersistSnap_vf _ _) hop
            exact not_elected_same hf.state hf.term hel
          · cases h
          · cases h
  | commitApply k =>
    exfalso
    simp only [applyOp, Node.commitApply] at h
    split at h
    · rename_i r2 hb
      rw [Res.bind_eq_ok_iff] at hb
      obtain ⟨r1, h1, h2⟩ := hb
      have hv1 : r1.state = st.raft.state ∧ r1.term = st.raft.term := by
        split at h1
        · split at h1
          · cases h1
            have hf := CV.reduceUncommittedSize_vf ({ st.raft with nextRand := rnd } : Raft) ‹_›
            exact ⟨hf.state, hf.term⟩
          · cases h1; exact ⟨rfl, rfl⟩
          · cases h1
        · cases h1; exact ⟨rfl, rfl⟩
      have hf2 := Res.Post.of_eq (CV.commitApply_vf _ _) h2
      have hv2 : r2.state = st.raft.state ∧ r2.term = st.raft.term :=
        ⟨hf2.state.trans hv1.1, hf2.term.trans hv1.2⟩
      cases h
      refine not_elected_same ?_ ?_ hel
      · show (if _ then _ else r2).state = _
        split
        · exact hv2.1
        · exact hv2.1
      · show (if _ then _ else r2).term = _
        split
        · exact hv2.2
        · exact hv2.2
    · cases h
    · cases h
  | compact k =>
    exfalso
    simp only [applyOp] at h
    split at h
    · cases h; exact not_elected_same rfl rfl hel
    · cases h
    · cases h
  | drain =>
    simp only [applyOp] at h
    cases h
    exact absurd hel (not_elected_same rfl rfl)
  | triggerSnap =>
    simp only [applyOp] at h
    cases h
    exact absurd hel (not_elected_same rfl rfl)
  | triggerLog b =>
    simp only [applyOp] at h
    cases h
    exact absurd hel (not_elected_same rfl rfl)
  | setPriority p =>
    simp only [applyOp] at h
    cases h
    exact absurd hel (not_elected_same rfl rfl)
  | setBatchAppend b =>
    simp only [applyOp] at h
    cases h
    exact absurd hel (not_elected_same rfl rfl)
  | skipBcastCommit b =>
    simp only [applyOp] at h
    cases h
    exact absurd hel (not_elected_same rfl rfl)
  | setCheckQuorum b =>
    simp only [applyOp] at h
    cases h
    exact absurd hel (not_elected_same rfl rfl)
  | adjustMaxInflight id cap =>
    simp only [applyOp] at h
    obtain ⟨raft, hx, hr⟩ := CV.okRes_ok h
    exact (viaVF raft (Res.Post.of_eq (CV.adjustMaxInflightMsgs_vf _ _ _) hx) hr).elim
  | maybeFreeInflightBuffers =>
    simp only [applyOp] at h
    cases h
    have hf : CV.VF ({ st.raft with nextRand := rnd } : Raft)
        (Raft.maybeFreeInflightBuffers ({ st.raft with nextRand := rnd } : Raft)) :=
      CV.mapProgress_vf _ _
    exact (viaVF _ hf rfl).elim
  | enableGroupCommit b =>
    simp only [applyOp] at h
    obtain ⟨raft, hx, hr⟩ := CV.okRes_ok h
    exact (viaVF raft (Res.Post.of_eq (CV.enableGroupCommit_vf _ _) hx) hr).elim
  | assignCommitGroups v =>
    simp only [applyOp] at h
    obtain ⟨raft, hx, hr⟩ := CV.okRes_ok h
    exact (viaVF raft (Res.Post.of_eq (CV.assignCommitGroups_vf _ _) hx) hr).elim
  | clearCommitGroup =>
    simp only [applyOp] at h
    cases h
    have hf : CV.VF ({ st.raft with nextRand := rnd } : Raft)
        (Raft.clearCommitGroup ({ st.raft with nextRand := rnd } : Raft)) :=
      CV.mapProgress_vf _ _
    exact (viaVF _ hf rfl).elim
  | checkGroupCommitConsistent =>
    exfalso
    simp only [applyOp] at h
    split at h
    · cases h; exact not_elected_same rfl rfl hel
    · cases h; exact not_elected_same rfl rfl hel
    · cases h
    · cases h
  | setMaxApplyUnpersistedLogLimit x =>
    simp only [applyOp] at h
    cases h
    exact absurd hel (not_elected_same rfl rfl)
  | setMaxCommittedSizePerReady x =>
    simp only [applyOp] at h
    cases h
    exact absurd hel (not_elected_same rfl rfl)
  | onEntriesFetched to term aggr =>
    exfalso
    rcases CV.onEntriesFetched_ok h with h | ⟨-, -, -, raft, hx, h⟩
    · cases h; exact not_elected_same rfl rfl hel
    · cases h
      rcases hx with hx | hx
      · exact viaVF raft (Res.Post.of_eq (CV.sendAppendAggressively_vf _ _) hx) rfl
      · exact viaVF raft (Res.Post.of_eq (CV.sendAppend_vf _ _) hx) rfl

/-- candidate or pre-candidate after the call, with (role, term) changed -/
def Elected0 (r r' : Raft) : Prop := Cand r' ∧ ¬ (r'.state = r.state ∧ r'.term = r.term)

theorem Elected.zero {r r' : Raft} (h : Elected r r') : Elected0 r r' := ⟨h.1, h.2.1⟩

theorem ne0_same {r r' : Raft} (h1 : r'.state = r.state) (h2 : r'.term = r.term) :
    ¬ Elected0 r r' := fun h => h.2 ⟨h1, h2⟩

theorem ne0_follower {r r' : Raft} (h1 : r'.state = .follower) : ¬ Elected0 r r' := by
  intro h
  rcases h.1 with g | g <;> (rw [h1] at g; cases g)

theorem ne0_leader {r r' : Raft} (h1 : r'.state = .leader) : ¬ Elected0 r r' := by
  intro h
  rcases h.1 with g | g <;> (rw [h1] at g; cases g)

theorem vf_ne0 {a r r' : Raft} (h0 : a.state = r.state ∧ a.term = r.term)
    (h : CV.VF r r') : ¬ Elected0 a r' :=
  ne0_same (h.state.trans h0.1.symm) (h.term.trans h0.2.symm)

/-- `tick`: any change into a candidacy is guarded (the stepped message is a `MsgHup`) -/
theorem tick_elected0 {r r' : Raft} {b : Bool} (h : r.tick = .ok (r', b)) (hel : Elected0 r r') :
    HupGuard r := by
  have hE : r.tickElection = .ok (r', b) → HupGuard r := by
    intro h
    unfold Raft.tickElection at h
    simp only [] at h
    split at h
    · cases h
      exact absurd hel (ne0_same rfl rfl)
    · rw [Res.bind_eq_ok_iff] at h
      obtain ⟨r1, hs, h⟩ := h
      cases h
      unfold Raft.stepIgnore at hs
      rw [Res.bind_eq_ok_iff] at hs
      obtain ⟨⟨r2, e⟩, hs2, hs⟩ := hs
      cases hs
      rcases step_cand_routes hs2 hel.1 hel.2 with ⟨g, _⟩ | ⟨_, _, hm⟩
      · exact g
      · cases hm
  unfold Raft.tick at h
  split at h
  · exact hE h
  · exact hE h
  · exact hE h
  · rename_i hs
    exfalso
    rcases tickHeartbeat_state hs h with g | g
    · exact ne0_leader g hel
    · exact ne0_follower g hel

/-- the routes into a candidacy, per call -/
def Routes (st st' : NState) (op : NodeOp) : Prop :=
  (HupGuard st.raft ∧ electOp op) ∨
  (st.raft.state = .preCandidate ∧ st'.raft.state = .candidate ∧
    ∃ m, (op = .step m ∨ op = .rstep m) ∧ m.msgType = .msgRequestPreVoteResponse)

/-- **one call of a node, any `NodeOp`: every route into a candidacy.**  If after the call the node is
candidate or pre-candidate and (role, term) changed, then the guard held before the call and the call
is `tick`, `campaign` or a stepped `MsgTimeoutNow` (`MsgHup` for a direct `Raft::step`) — or the node
was a pre-candidate, is now candidate, and the call stepped a `MsgRequestPreVoteResponse` (it won its
pre-vote: `campaign_after_pre_vote`, which raft-rs does not guard again) -/
theorem call_cand_routes (st st' : NState) (rnd : Option Nat) (op : NodeOp) (res : OpRes)
    (h : Node.call st rnd op = .ok (res, st')) (hel : Elected0 st.raft st'.raft) :
    Routes st st' op := by
  unfold Node.call at h
  have h0 : st.raft.state = ({ st.raft with nextRand := rnd } : Raft).state ∧
      st.raft.term = ({ st.raft with nextRand := rnd } : Raft).term := ⟨rfl, rfl⟩
  have viaStep : ∀ (m : Message) (raft : Raft) (e : Option RaftError),
      ({ st.raft with nextRand := rnd } : Raft).step m = .ok (raft, e) → st'.raft = raft →
      (HupGuard st.raft ∧ (m.msgType = .msgHup ∨ m.msgType = .msgTimeoutNow)) ∨
      (st.raft.state = .preCandidate ∧ st'.raft.state = .candidate ∧
        m.msgType = .msgRequestPreVoteResponse) := by
    intro m raft e hx hr
    rw [hr] at hel ⊢
    have hel' : Elected0 ({ st.raft with nextRand := rnd } : Raft) raft := hel
    have key := step_cand_routes hx hel'.1 hel'.2
    exact key
  have viaIgnore : ∀ (m : Message) (raft : Raft),
      ({ st.raft with nextRand := rnd } : Raft).stepIgnore m = .ok raft → st'.raft = raft →
      (HupGuard st.raft ∧ (m.msgType = .msgHup ∨ m.msgType = .msgTimeoutNow)) ∨
      (st.raft.state = .preCandidate ∧ st'.raft.state = .candidate ∧
        m.msgType = .msgRequestPreVoteResponse) := by
    intro m raft hx hr
    unfold Raft.stepIgnore at hx
    rw [Res.bind_eq_ok_iff] at hx
    obtain ⟨⟨r1, e⟩, hs1, hx⟩ := hx
    cases hx
    exact viaStep m _ e hs1 hr
  have viaVF : ∀ raft : Raft, CV.VF ({ st.raft with nextRand := rnd } : Raft) raft →
      st'.raft = raft → False := by
    intro raft hf hr
    rw [hr] at hel
    exact vf_ne0 h0 hf hel
  cases op with
  | tick =>
    simp only [applyOp] at h
    split at h
    · rename_i raft b heq
      cases h
      have hel' : Elected0 ({ st.raft with nextRand := rnd } : Raft) raft := hel
      have key : HupGuard ({ st.raft with nextRand := rnd } : Raft) := tick_elected0 heq hel'
      exact .inl ⟨key, trivial⟩
    · cases h
    · cases h
  | step m =>
    simp only [applyOp] at h
    obtain ⟨raft, e, hx, hr⟩ := CV.unitRes_ok h
    unfold RawNode.step at hx
    split at hx
    · cases hx
      rw [hr] at hel
      exact absurd hel (ne0_same rfl rfl)
    · rename_i hloc
      split at hx
      · rcases viaStep m raft e hx hr with ⟨g, hm⟩ | ⟨g1, g2, g3⟩
        · refine .inl ⟨g, ?_⟩
          rcases hm with hm | hm
          · rw [hm] at hloc; exact absurd rfl hloc
          · exact hm
        · exact .inr ⟨g1, g2, m, .inl rfl, g3⟩
      · cases hx
        rw [hr] at hel
        exact absurd hel (ne0_same rfl rfl)
  | rstep m =>
    simp only [applyOp] at h
    obtain ⟨raft, e, hx, hr⟩ := CV.unitRes_ok h
    rcases viaStep m raft e hx hr with g | ⟨g1, g2, g3⟩
    · exact .inl g
    · exact .inr ⟨g1, g2, m, .inr rfl, g3⟩
  | propose c d =>
    simp only [applyOp] at h
    obtain ⟨raft, e, hx, hr⟩ := CV.unitRes_ok h
    rcases viaStep _ raft e hx hr with ⟨_, hm⟩ | ⟨_, _, hm⟩
    · rcases hm with hm | hm <;> cases hm
    · cases hm
  | proposeCc t c d =>
    simp only [applyOp] at h
    obtain ⟨raft, e, hx, hr⟩ := CV.unitRes_ok h
    rcases viaStep _ raft e hx hr with ⟨_, hm⟩ | ⟨_, _, hm⟩
    · rcases hm with hm | hm <;> cases hm
    · cases hm
  | readIndex c =>
    simp only [applyOp] at h
    obtain ⟨raft, hx, hr⟩ := CV.okRes_ok h
    rcases viaIgnore _ raft hx hr with ⟨_, hm⟩ | ⟨_, _, hm⟩
    · rcases hm with hm | hm <;> cases hm
    · cases hm
  | transferLeader x =>
    simp only [applyOp] at h
    obtain ⟨raft, hx, hr⟩ := CV.okRes_ok h
    rcases viaIgnore _ raft hx hr with ⟨_, hm⟩ | ⟨_, _, hm⟩
    · rcases hm with hm | hm <;> cases hm
    · cases hm
  | campaign =>
    simp only [applyOp] at h
    obtain ⟨raft, e, hx, hr⟩ := CV.unitRes_ok h
    rcases viaStep _ raft e hx hr with ⟨g, _⟩ | ⟨_, _, hm⟩
    · exact .inl ⟨g, trivial⟩
    · cases hm
  | ping =>
    simp only [applyOp] at h
    obtain ⟨raft, hx, hr⟩ := CV.okRes_ok h
    exact (viaVF raft (Res.Post.of_eq (CV.ping_vf _) hx) hr).elim
  | requestSnapshot =>
    simp only [applyOp] at h
    obtain ⟨raft, e, hx, hr⟩ := CV.unitRes_ok h
    exact (viaVF raft (Res.Post.of_eq (P := fun x => CV.VF _ x.1) (CV.requestSnapshot_vf _) hx) hr).elim
  | reportUnreachable x =>
    simp only [applyOp] at h
    obtain ⟨raft, hx, hr⟩ := CV.okRes_ok h
    rcases viaIgnore _ raft hx hr with ⟨_, hm⟩ | ⟨_, _, hm⟩
    · rcases hm with hm | hm <;> cases hm
    · cases hm
  | reportSnapshot x f =>
    simp only [applyOp] at h
    obtain ⟨raft, hx, hr⟩ := CV.okRes_ok h
    rcases viaIgnore _ raft hx hr with ⟨_, hm⟩ | ⟨_, _, hm⟩
    · rcases hm with hm | hm <;> cases hm
    · cases hm
  | applyConfChange cc =>
    exfalso
    simp only [applyOp] at h
    split at h
    · rename_i raft cs heq
      cases h
      rcases applyConfChange_state heq with ⟨g1, g2⟩ | g
      · exact ne0_same g1 g2 hel
      · exact ne0_follower g hel
    · rename_i raft e heq
      cases h
      rcases applyConfChange_state heq with ⟨g1, g2⟩ | g
      · exact ne0_same g1 g2 hel
      · exact ne0_follower g hel
    · cases h
    · cases h
  | stabilize =>
    exfalso
    simp only [applyOp, Node.stabilize] at h
    split at h
    · cases h; exact ne0_same rfl rfl hel
    · cases h
    · cases h
  | onPersistEntries i t =>
    simp only [applyOp] at h
    obtain ⟨raft, hx, hr⟩ := CV.okRes_ok h
    exact (viaVF raft (Res.Post.of_eq (CV.onPersistEntries_vf _ _ _) hx) hr).elim
  | persistSnap =>
    exfalso
    simp only [applyOp, Node.persistSnap] at h
    split at h
    · cases h; exact ne0_same rfl rfl hel
    · split at h
      · cases h; exact ne0_same rfl rfl hel
      · cases h
      · split at h
        · cases h
        · cases h
        · split at h
          · rename_i raft hop
            cases h
            have hf := Res.Post.of_eq (CV.onPersistSnap_vf _ _) hop
            exact ne0_same hf.state hf.term hel
          · cases h
          · cases h
  | commitApply k =>
    exfalso
    simp only [applyOp, Node.commitApply] at h
    split at h
    · rename_i r2 hb
      rw [Res.bind_eq_ok_iff] at hb
      obtain ⟨r1, h1, h2⟩ := hb
      have hv1 : r1.state = st.raft.state ∧ r1.term = st.raft.term := by
        split at h1
        · split at h1
          · cases h1
            have hf := CV.reduceUncommittedSize_vf ({ st.raft with nextRand := rnd } : Raft) ‹_›
            exact ⟨hf.state, hf.term⟩
          · cases h1; exact ⟨rfl, rfl⟩
          · cases h1
        · cases h1; exact ⟨rfl, rfl⟩
      have hf2 := Res.Post.of_eq (CV.commitApply_vf _ _) h2
      have hv2 : r2.state = st.raft.state ∧ r2.term = st.raft.term :=
        ⟨hf2.state.trans hv1.1, hf2.term.trans hv1.2⟩
      cases h
      refine ne0_same ?_ ?_ hel
      · show (if _ then _ else r2).state = _
        split
        · exact hv2.1
        · exact hv2.1
      · show (if _ then _ else r2).term = _
        split
        · exact hv2.2
        · exact hv2.2
    · cases h
    · cases h
  | compact k =>
    exfalso
    simp only [applyOp] at h
    split at h
    · cases h; exact ne0_same rfl rfl hel
    · cases h
    · cases h
  | drain =>
    simp only [applyOp] at h
    cases h
    exact absurd hel (ne0_same rfl rfl)
  | triggerSnap =>
    simp only [applyOp] at h
    cases h
    exact absurd hel (ne0_same rfl rfl)
  | triggerLog b =>
    simp only [applyOp] at h
    cases h
    exact absurd hel (ne0_same rfl rfl)
  | setPriority p =>
    simp only [applyOp] at h
    cases h
    exact absurd hel (ne0_same rfl rfl)
  | setBatchAppend b =>
    simp only [applyOp] at h
    cases h
    exact absurd hel (ne0_same rfl rfl)
  | skipBcastCommit b =>
    simp only [applyOp] at h
    cases h
    exact absurd hel (ne0_same rfl rfl)
  | setCheckQuorum b =>
    simp only [applyOp] at h
    cases h
    exact absurd hel (ne0_same rfl rfl)
  | adjustMaxInflight id cap =>
    simp only [applyOp] at h
    obtain ⟨raft, hx, hr⟩ := CV.okRes_ok h
    exact (viaVF raft (Res.Post.of_eq (CV.adjustMaxInflightMsgs_vf _ _ _) hx) hr).elim
  | maybeFreeInflightBuffers =>
    simp only [applyOp] at h
    cases h
    have hf : CV.VF ({ st.raft with nextRand := rnd } : Raft)
        (Raft.maybeFreeInflightBuffers ({ st.raft with nextRand := rnd } : Raft)) :=
      CV.mapProgress_vf _ _
    exact (viaVF _ hf rfl).elim
  | enableGroupCommit b =>
    simp only [applyOp] at h
    obtain ⟨raft, hx, hr⟩ := CV.okRes_ok h
    exact (viaVF raft (Res.Post.of_eq (CV.enableGroupCommit_vf _ _) hx) hr).elim
  | assignCommitGroups v =>
    simp only [applyOp] at h
    obtain ⟨raft, hx, hr⟩ := CV.okRes_ok h
    exact (viaVF raft (Res.Post.of_eq (CV.assignCommitGroups_vf _ _) hx) hr).elim
  | clearCommitGroup =>
    simp only [applyOp] at h
    cases h
    have hf : CV.VF ({ st.raft with nextRand := rnd } : Raft)
        (Raft.clearCommitGroup ({ st.raft with nextRand := rnd } : Raft)) :=
      CV.mapProgress_vf _ _
    exact (viaVF _ hf rfl).elim
  | checkGroupCommitConsistent =>
    exfalso
    simp only [applyOp] at h
    split at h
    · cases h; exact ne0_same rfl rfl hel
    · cases h; exact ne0_same rfl rfl hel
    · cases h
    · cases h
  | setMaxApplyUnpersistedLogLimit x =>
    simp only [applyOp] at h
    cases h
    exact absurd hel (ne0_same rfl rfl)
  | setMaxCommittedSizePerReady x =>
    simp only [applyOp] at h
    cases h
    exact absurd hel (ne0_same rfl rfl)
  | onEntriesFetched to term aggr =>
    exfalso
    rcases CV.onEntriesFetched_ok h with h | ⟨-, -, -, raft, hx, h⟩
    · cases h; exact ne0_same rfl rfl hel
    · cases h
      rcases hx with hx | hx
      · exact viaVF raft (Res.Post.of_eq (CV.sendAppendAggressively_vf _ _) hx) rfl
      · exact viaVF raft (Res.Post.of_eq (CV.sendAppend_vf _ _) hx) rfl

/-- a freshly booted node is a follower -/
theorem boot_not_elected {c : Config} {store : MemStorage} {rnd : Option Nat} {st' : NState}
    (a : Raft) (h : Node.boot c store rnd = .ok (.ok st')) : ¬ Elected a st'.raft :=
  not_elected_follower (CV.boot_booted c store rnd st' h).state

end Raft
end RaftModel
