import RaftProofs.ClusterCommit4L

/-!
Cluster-level flow control (C13), part M: provenance of the `MsgAppend`s and `MsgHeartbeat`s of a
history of `ClusterSem` — each was queued by a node that, in the state the queueing step ended in,
was the leader of the message's term and had reached the advertised commit index; a heartbeat's
commit index is moreover covered by an accepting `MsgAppendResponse` of the addressee for that term
which was in the transport at that moment (the per-call relation `Raft.CC.G` of the commit layer,
clauses `qlk` / `LkOK`), and — under `Hyp3w` — the addressee's log agreed with a log of that term's
leader up to the acknowledged index when it queued the acknowledgement (`Sm.a2m`).
-/
namespace RaftModel
namespace Cluster
namespace Flow
open Node Raft Raft.CC RaftProps.C02 RaftProps.C05

variable {cfg : JointConfig} {c0 : Nat} {h : List Sys}

/-- a `MsgAppend` or a `MsgHeartbeat` -/
def isAH (x : Message) : Prop := x.msgType = .msgAppend ∨ x.msgType = .msgHeartbeat

/-- what is recorded about a `MsgAppend` / `MsgHeartbeat` when it is queued -/
def FlowGen (h : List Sys) (n i : Nat) (x : Message) : Prop :=
  ∃ s st, h[n]? = some s ∧ s.node i = some st ∧ st.raft.state = .leader ∧
    st.raft.term = x.term ∧ x.frm = i ∧ x.commit ≤ st.raft.raftLog.committed ∧
    (x.msgType = .msgHeartbeat → x.commit = 0 ∨ Anet s.net x.to x.term x.commit)

/-- **provenance of `MsgAppend`s and `MsgHeartbeat`s** under the weakest bundle of the commit layer -/
theorem flow_prov (H : Hyp cfg h) : ∀ (n : Nat) (s : Sys), h[n]? = some s →
    (∀ i st, s.node i = some st → ∀ x ∈ st.raft.msgs, isAH x → Gen (FlowGen h) n i x) ∧
    (∀ x ∈ s.net, isAH x → ∃ i, Gen (FlowGen h) n i x) := by
  refine provenance h H.hist H.steps isAH (FlowGen h) ?_
  intro n a b i st st' rnd op res ha hb hi hi' hcall hop hnc hnet x hx hty
  have hop1 : appOp op = true ∨ ∃ m, op = .step m ∧ m ∈ a.net := by
    rcases hop with g | ⟨m, g1, g2, _⟩
    · exact .inl g
    · exact .inr ⟨m, g1, g2⟩
  have g := kstep_g (H.mokc n a ha) (H.nb a (mem_of_get ha)) (H.nosnap a (mem_of_get ha)) hi hop1
    hcall
  have hid : st.raft.id = i := (((hist_all H.hist).1 a (mem_of_get ha)).ids i st hi).1
  have hlk : lkT x.msgType = true := by
    rcases hty with t | t <;> rw [t] <;> rfl
  rcases g.qlk x hx hlk with c | c
  · exact .inl c
  · right
    refine ⟨b, st', hb, hi', c.lead, c.term.symm, c.frm.trans (g.id.trans hid), ?_, ?_⟩
    · rcases hty with t | t
      · exact (c.app t).1
      · exact (c.hb t).1
    · intro t
      rcases (c.hb t).2 with d | d
      · exact .inl d
      · right; rw [hnet, c.term]; exact d

/-- the point of the history at which the message was queued -/
theorem flow_point (H : Hyp cfg h) {n : Nat} {s : Sys} (hn : h[n]? = some s) {x : Message}
    (hx : x ∈ s.net ∨ ∃ i st, s.node i = some st ∧ x ∈ st.raft.msgs) (hty : isAH x) :
    ∃ n0 s0 st0, n0 ≤ n ∧ h[n0]? = some s0 ∧ s0.node x.frm = some st0 ∧
      st0.raft.state = .leader ∧ st0.raft.term = x.term ∧
      x.commit ≤ st0.raft.raftLog.committed ∧
      (x.msgType = .msgHeartbeat → x.commit = 0 ∨ Anet s0.net x.to x.term x.commit) := by
  have hp := flow_prov H n s hn
  have key : ∃ i, Gen (FlowGen h) n i x := by
    rcases hx with c | ⟨i, st, hi, c⟩
    · exact hp.2 x c hty
    · exact ⟨i, hp.1 i st hi x c hty⟩
  obtain ⟨i, n0, hle, s0, st0, h1, h2, h3, h4, h5, h6, h7⟩ := key
  subst h5
  exact ⟨n0, s0, st0, hle, h1, h2, h3, h4, h6, h7⟩

/-- **what an acknowledgement in the transport promises** (under `Hyp3w`): the acknowledging node
queued it in a state `h[n1]` in which its logical log agreed, up to the acknowledged index, with a log
that the leader of the acknowledgement's term held at some point `≤ n1`, and that log reaches the
acknowledged index -/
theorem ack_promise (H : Hyp3w cfg c0 h) {n : Nat} {s : Sys} (hn : h[n]? = some s) {a : Message}
    (ha : a ∈ s.net) (hack : isAck a) (hidx : c0 < a.index) :
    ∃ n1 s1 stj L, n1 ≤ n ∧ h[n1]? = some s1 ∧ s1.node a.frm = some stj ∧ a ∈ stj.raft.msgs ∧
      stj.raft.term = a.term ∧ LeaderLog h n1 a.term L ∧ a.index ≤ L.lastIndex ∧
      EqUpTo stj.raft.raftLog.abs L a.index := by
  have H3 := H.toHyp3a
  have H2 := H.toHyp2w
  have hx0 : a.index ≠ 0 := by omega
  obtain ⟨i, n1, hle, s1, stj, h1, h2, h3, h4, h5⟩ := (ack_prov H2 n s hn).2 a ha ⟨hack, hx0⟩
  obtain ⟨L, hL, hlast, heq⟩ := (sm_all H3 h1).a2m i stj h2 a (.inr h3) hack h5 hidx h4
  subst h5
  exact ⟨n1, s1, stj, L, hle, h1, h2, h3, h4.symm, hL, hlast, heq⟩

end Flow
end Cluster
end RaftModel
