import RaftModel.Quorum

/-!
Helper lemmas for C11 (quorum arithmetic): the stable descending sort is a sorted permutation, the
element at position `majority n - 1` of a descending list is the largest value reached by a
majority, a closed form of the group-commit scan, vote counting as `countP`, and the pigeonhole
lemma behind quorum intersection.
-/
namespace RaftModel
open List

/-! ### specification vocabulary (set-level, independent of any list order) -/

/-- acknowledged index of voter `v` (`unwrap_or_default`: no entry counts as index 0) -/
def ackIdx (ack : Nat → Option Index) (v : Nat) : Nat := ((ack v).getD default).index

/-- commit group of voter `v` (no entry counts as group 0 = "no group") -/
def ackGrp (ack : Nat → Option Index) (v : Nat) : Nat := ((ack v).getD default).groupId

/-- number of voters of `vs` that acknowledged at least index `i` -/
def ackCount (vs : List Nat) (ack : Nat → Option Index) (i : Nat) : Nat :=
  vs.countP (fun v => decide (i ≤ ackIdx ack v))

/-- `i` is acknowledged by a majority of `vs` -/
def QuorumAcked (vs : List Nat) (ack : Nat → Option Index) (i : Nat) : Prop :=
  majority vs.length ≤ ackCount vs ack i

/-- the voters with acknowledged index `≥ i` span at least two (non-zero) commit groups -/
def TwoGroups (vs : List Nat) (ack : Nat → Option Index) (i : Nat) : Prop :=
  ∃ v ∈ vs, ∃ w ∈ vs, i ≤ ackIdx ack v ∧ i ≤ ackIdx ack w ∧
    ackGrp ack v ≠ 0 ∧ ackGrp ack w ≠ 0 ∧ ackGrp ack v ≠ ackGrp ack w

/-- number of voters that granted / have not answered -/
def yesCount (vs : List Nat) (check : Nat → Option Bool) : Nat :=
  vs.countP (fun v => check v == some true)
def missingCount (vs : List Nat) (check : Nat → Option Bool) : Nat :=
  vs.countP (fun v => check v == none)

/-- `A` (any list of ids, possibly containing non-voters) contains a majority of `vs` -/
def IsQuorum (vs A : List Nat) : Prop :=
  majority vs.length ≤ vs.countP (fun v => decide (v ∈ A))

/-- `A` contains a majority of each non-empty half -/
def IsJointQuorum (c : JointConfig) (A : List Nat) : Prop :=
  (c.incoming ≠ [] → IsQuorum c.incoming A) ∧ (c.outgoing ≠ [] → IsQuorum c.outgoing A)

/-- `i` is acknowledged by a majority of each non-empty half -/
def JointQuorumAcked (c : JointConfig) (ack : Nat → Option Index) (i : Nat) : Prop :=
  (c.incoming ≠ [] → QuorumAcked c.incoming ack i) ∧
  (c.outgoing ≠ [] → QuorumAcked c.outgoing ack i)

theorem majority_pos (n : Nat) : 0 < majority n := by simp [majority]
theorem majority_le (n : Nat) (h : 0 < n) : majority n ≤ n := by
  simp only [majority]; omega
theorem two_majorities (n : Nat) : n < majority n + majority n := by
  simp only [majority]; omega

theorem ackCount_perm {vs vs' : List Nat} (h : vs ~ vs') (ack : Nat → Option Index) (i : Nat) :
    ackCount vs ack i = ackCount vs' ack i := h.countP_eq _

theorem ackCount_anti (vs : List Nat) (ack : Nat → Option Index) {i j : Nat} (h : i ≤ j) :
    ackCount vs ack j ≤ ackCount vs ack i := by
  apply countP_mono_left
  intro v _ hv
  simp only [decide_eq_true_eq] at hv ⊢
  omega

theorem TwoGroups.anti {vs : List Nat} {ack : Nat → Option Index} {i j : Nat} (h : i ≤ j)
    (t : TwoGroups vs ack j) : TwoGroups vs ack i := by
  obtain ⟨v, hv, w, hw, h1, h2, h3⟩ := t
  exact ⟨v, hv, w, hw, by omega, by omega, h3⟩

theorem TwoGroups.perm {vs vs' : List Nat} (h : vs ~ vs') {ack : Nat → Option Index} {i : Nat}
    (t : TwoGroups vs ack i) : TwoGroups vs' ack i := by
  obtain ⟨v, hv, w, hw, h3⟩ := t
  exact ⟨v, h.mem_iff.1 hv, w, h.mem_iff.1 hw, h3⟩

namespace Majority

/-! ### the sort -/

/-- descending by index -/
def Desc (l : List Index) : Prop := l.Pairwise (fun a b => b.index ≤ a.index)

theorem insertDesc_perm (x : Index) (l : List Index) : insertDesc x l ~ x :: l := by
  induction l with
  | nil => exact Perm.refl _
  | cons y ys ih =>
    simp only [insertDesc]
    split
    · exact Perm.refl _
    · exact ((perm_cons y).2 ih).trans (Perm.swap x y ys)

theorem sortDesc_perm (l : List Index) : sortDesc l ~ l := by
  induction l with
  | nil => exact Perm.refl _
  | cons x xs ih => exact (insertDesc_perm x _).trans ((perm_cons x).2 ih)

theorem insertDesc_desc (x : Index) (l : List Index) (h : Desc l) : Desc (insertDesc x l) := by
  induction l with
  | nil => simp [insertDesc, Desc]
  | cons y ys ih =>
    unfold Desc at h
    rw [pairwise_cons] at h
    simp only [insertDesc]
    split
    · rename_i hyx
      unfold Desc
      rw [pairwise_cons, pairwise_cons]
      refine ⟨?_, h⟩
      intro z hz
      rcases mem_cons.1 hz with rfl | hz
      · exact hyx
      · have := h.1 z hz; omega
    · rename_i hyx
      unfold Desc
      rw [pairwise_cons]
      refine ⟨?_, ih h.2⟩
      intro z hz
      rcases mem_cons.1 ((insertDesc_perm x ys).mem_iff.1 hz) with rfl | hz
      · omega
      · exact h.1 z hz

theorem sortDesc_desc (l : List Index) : Desc (sortDesc l) := by
  induction l with
  | nil => simp [sortDesc, Desc]
  | cons x xs ih => exact insertDesc_desc x _ ih

/-! ### position `k` of a descending list -/

theorem desc_count_ge (l : List Index) (h : Desc l) (k : Nat) (x : Index) (hk : l[k]? = some x) :
    k + 1 ≤ l.countP (fun a => decide (x.index ≤ a.index)) := by
  induction l generalizing k with
  | nil => simp at hk
  | cons a l ih =>
    unfold Desc at h
    rw [pairwise_cons] at h
    cases k with
    | zero =>
      simp only [getElem?_cons_zero, Option.some.injEq] at hk
      subst hk
      simp
    | succ k =>
      simp only [getElem?_cons_succ] at hk
      have hx : x ∈ l := mem_of_getElem? hk
      have := h.1 x hx
      have := ih h.2 k hk
      rw [countP_cons_of_pos (by simpa using h.1 x hx)]
      omega

theorem desc_count_lt (l : List Index) (h : Desc l) (k : Nat) (x : Index) (hk : l[k]? = some x)
    (i : Nat) (hi : x.index < i) : l.countP (fun a => decide (i ≤ a.index)) ≤ k := by
  induction l generalizing k with
  | nil => simp
  | cons a l ih =>
    unfold Desc at h
    rw [pairwise_cons] at h
    cases k with
    | zero =>
      simp only [getElem?_cons_zero, Option.some.injEq] at hk
      subst hk
      have : countP (fun a => decide (i ≤ a.index)) (a :: l) = 0 := by
        rw [countP_eq_zero]
        intro b hb
        rcases mem_cons.1 hb with rfl | hb
        · simp; omega
        · have := h.1 b hb; simp; omega
      omega
    | succ k =>
      simp only [getElem?_cons_succ] at hk
      have := ih h.2 k hk
      rw [countP_cons]
      split <;> omega

theorem desc_getLast_le (l : List Index) (h : Desc l) (x : Index) (hl : l.getLast? = some x) :
    x ∈ l ∧ ∀ a ∈ l, x.index ≤ a.index := by
  obtain ⟨ys, rfl⟩ := getLast?_eq_some_iff.1 hl
  refine ⟨by simp, ?_⟩
  intro a ha
  unfold Desc at h
  rw [pairwise_append] at h
  rcases mem_append.1 ha with ha | ha
  · exact h.2.2 a ha x (by simp)
  · simp at ha; subst ha; exact Nat.le_refl _

/-! ### `committed_index` unfolded: no index/unwrap site fires -/

theorem acks_length (vs : List Nat) (ack : Nat → Option Index) : (acks vs ack).length = vs.length := by
  simp [acks]

theorem sorted_length (vs : List Nat) (ack : Nat → Option Index) :
    (sortDesc (acks vs ack)).length = vs.length := by
  rw [(sortDesc_perm _).length_eq, acks_length]

theorem committedIndex_unfold (vs : List Nat) (ack : Nat → Option Index) (hne : vs ≠ []) (gc : Bool) :
    ∃ qi last, (sortDesc (acks vs ack))[majority vs.length - 1]? = some qi ∧
      (sortDesc (acks vs ack)).getLast? = some last ∧
      committedIndex vs ack gc =
        (if gc then gcScan qi.index last.index qi.groupId true (sortDesc (acks vs ack))
         else (qi.index, false)) ∧
      committedIndexR vs ack gc = .ok (committedIndex vs ack gc) := by
  have hlen := sorted_length vs ack
  have hpos : 0 < vs.length := length_pos_iff.2 hne
  have hq : majority vs.length - 1 < (sortDesc (acks vs ack)).length := by
    simp only [majority, hlen]; omega
  have hne' : sortDesc (acks vs ack) ≠ [] := by
    intro h; rw [h] at hlen; simp at hlen; omega
  obtain ⟨qi, hqi⟩ : ∃ qi, (sortDesc (acks vs ack))[majority vs.length - 1]? = some qi :=
    ⟨_, getElem?_eq_getElem hq⟩
  obtain ⟨last, hlast⟩ : ∃ last, (sortDesc (acks vs ack)).getLast? = some last :=
    ⟨_, getLast?_eq_some_getLast hne'⟩
  have hemp : vs.isEmpty = false := by cases vs <;> simp_all
  refine ⟨qi, last, hqi, hlast, ?_, ?_⟩
  · simp only [committedIndex, hemp, hlen, hqi, hlast]
    cases gc <;> simp
  · simp only [committedIndexR, committedIndex, hemp, hlen, hqi, hlast]
    cases gc <;> simp

theorem committedIndexR_eq (vs : List Nat) (ack : Nat → Option Index) (gc : Bool) :
    committedIndexR vs ack gc = .ok (committedIndex vs ack gc) := by
  by_cases hne : vs = []
  · subst hne; simp [committedIndexR, committedIndex]
  · obtain ⟨_, _, _, _, _, h⟩ := committedIndex_unfold vs ack hne gc
    exact h

/-! ### plain quorum index -/

theorem countP_sorted (vs : List Nat) (ack : Nat → Option Index) (i : Nat) :
    (sortDesc (acks vs ack)).countP (fun a => decide (i ≤ a.index)) = ackCount vs ack i := by
  rw [(sortDesc_perm _).countP_eq, acks, countP_map]
  rfl

theorem mem_sorted {vs : List Nat} {ack : Nat → Option Index} {a : Index} :
    a ∈ sortDesc (acks vs ack) ↔ ∃ v ∈ vs, (ack v).getD default = a := by
  rw [(sortDesc_perm _).mem_iff, acks, mem_map]

/-- the plain quorum index is reached by a majority, no larger index is, and some voter
acknowledged exactly it -/
theorem quorumIndex_spec (vs : List Nat) (ack : Nat → Option Index) (hne : vs ≠ []) :
    QuorumAcked vs ack (committedIndex vs ack false).1 ∧
    (∀ i, (committedIndex vs ack false).1 < i → ¬ QuorumAcked vs ack i) ∧
    (∃ v ∈ vs, ackIdx ack v = (committedIndex vs ack false).1) ∧
    (committedIndex vs ack false).2 = false := by
  obtain ⟨qi, last, hqi, _, he, _⟩ := committedIndex_unfold vs ack hne false
  simp only [Bool.false_eq_true, if_false] at he
  rw [he]
  have hd := sortDesc_desc (acks vs ack)
  have hpos : 0 < majority vs.length := majority_pos _
  refine ⟨?_, ?_, ?_, rfl⟩
  · have := desc_count_ge _ hd _ _ hqi
    rw [countP_sorted] at this
    simp only [QuorumAcked]; omega
  · intro i hi
    have := desc_count_lt _ hd _ _ hqi i hi
    rw [countP_sorted] at this
    simp only [QuorumAcked]; omega
  · obtain ⟨v, hv, e⟩ := mem_sorted.1 (mem_of_getElem? hqi)
    exact ⟨v, hv, by simp [ackIdx, e]⟩

/-- there is exactly one "largest index acknowledged by a majority" -/
theorem quorumIndex_unique (vs : List Nat) (ack : Nat → Option Index) (r r' : Nat)
    (h1 : QuorumAcked vs ack r) (h2 : ∀ i, r < i → ¬ QuorumAcked vs ack i)
    (h1' : QuorumAcked vs ack r') (h2' : ∀ i, r' < i → ¬ QuorumAcked vs ack i) : r = r' := by
  rcases Nat.lt_trichotomy r r' with h | h | h
  · exact absurd h1' (h2 r' h)
  · exact h
  · exact absurd h1 (h2' r h)

theorem QuorumAcked.perm {vs vs' : List Nat} (h : vs ~ vs') {ack : Nat → Option Index} {i : Nat} :
    QuorumAcked vs ack i ↔ QuorumAcked vs' ack i := by
  simp only [QuorumAcked, ackCount_perm h, h.length_eq]

/-! ### closed form of the group-commit scan -/

/-- the element at which the scan returns early, if any -/
def firstOther : Nat → List Index → Option Index
  | _, [] => none
  | c, m :: ms =>
    if m.groupId = 0 then firstOther c ms
    else if c = 0 then firstOther m.groupId ms
    else if c = m.groupId then firstOther c ms
    else some m

theorem gcScan_eq (qci lastIdx c : Nat) (single : Bool) (l : List Index) :
    gcScan qci lastIdx c single l =
      match firstOther c l with
      | some m => (min m.index qci, true)
      | none => if single && l.all (fun m => decide (m.groupId ≠ 0)) then (qci, false)
                else (lastIdx, false) := by
  induction l generalizing c single with
  | nil => simp [gcScan, firstOther]
  | cons m ms ih =>
    simp only [gcScan, firstOther]
    by_cases h0 : m.groupId = 0
    · simp only [h0, if_true, ih]
      split <;> simp [h0]
    · simp only [h0, if_false]
      by_cases hc : c = 0
      · simp only [hc, if_true, ih]
        split <;> simp [h0]
      · simp only [hc, if_false]
        by_cases hcm : c = m.groupId
        · simp only [hcm, if_true, ih]
          split <;> simp [h0]
        · simp [hcm]

theorem firstOther_some (c : Nat) (l : List Index) (m : Index) (h : firstOther c l = some m) :
    ∃ pre post c', l = pre ++ m :: post ∧ m.groupId ≠ 0 ∧ c' ≠ 0 ∧ c' ≠ m.groupId ∧
      (∀ a ∈ pre, a.groupId = 0 ∨ a.groupId = c') ∧ (c ≠ 0 → c' = c) ∧
      (c = 0 → ∃ a ∈ pre, a.groupId = c') := by
  induction l generalizing c with
  | nil => simp [firstOther] at h
  | cons x xs ih =>
    simp only [firstOther] at h
    by_cases h0 : x.groupId = 0
    · simp only [h0, if_true] at h
      obtain ⟨pre, post, c', e, h1, h2, h3, h4, h5, h6⟩ := ih c h
      refine ⟨x :: pre, post, c', by simp [e], h1, h2, h3, ?_, h5, ?_⟩
      · intro a ha
        rcases mem_cons.1 ha with rfl | ha
        · exact Or.inl h0
        · exact h4 a ha
      · intro hc
        obtain ⟨a, ha, e⟩ := h6 hc
        exact ⟨a, mem_cons_of_mem _ ha, e⟩
    · simp only [h0, if_false] at h
      by_cases hc : c = 0
      · simp only [hc, if_true] at h
        obtain ⟨pre, post, c', e, h1, h2, h3, h4, h5, _⟩ := ih x.groupId h
        have hc' : c' = x.groupId := h5 h0
        refine ⟨x :: pre, post, c', by simp [e], h1, h2, h3, ?_, ?_, ?_⟩
        · intro a ha
          rcases mem_cons.1 ha with rfl | ha
          · exact Or.inr hc'.symm
          · exact h4 a ha
        · intro hcn; exact absurd hc hcn
        · intro _; exact ⟨x, mem_cons_self, hc'.symm⟩
      · simp only [hc, if_false] at h
        by_cases hcm : c = x.groupId
        · simp only [hcm, if_true] at h
          obtain ⟨pre, post, c', e, h1, h2, h3, h4, h5, _⟩ := ih x.groupId h
          have hc' : c' = x.groupId := h5 h0
          refine ⟨x :: pre, post, c', by simp [e], h1, h2, h3, ?_, ?_, ?_⟩
          · intro a ha
            rcases mem_cons.1 ha with rfl | ha
            · exact Or.inr hc'.symm
            · exact h4 a ha
          · intro _; rw [hc', hcm]
          · intro hcz; exact absurd hcz hc
        · simp only [hcm, if_false, Option.some.injEq] at h
          subst h
          exact ⟨[], xs, c, rfl, h0, hc, hcm, by simp, fun _ => rfl, fun hcz => absurd hcz hc⟩

theorem firstOther_none (c : Nat) (l : List Index) (h : firstOther c l = none) :
    ∃ c', (c ≠ 0 → c' = c) ∧ ∀ a ∈ l, a.groupId = 0 ∨ a.groupId = c' := by
  induction l generalizing c with
  | nil => exact ⟨c, fun _ => rfl, by simp⟩
  | cons x xs ih =>
    simp only [firstOther] at h
    by_cases h0 : x.groupId = 0
    · simp only [h0, if_true] at h
      obtain ⟨c', h1, h2⟩ := ih c h
      refine ⟨c', h1, ?_⟩
      intro a ha
      rcases mem_cons.1 ha with rfl | ha
      · exact Or.inl h0
      · exact h2 a ha
    · simp only [h0, if_false] at h
      by_cases hc : c = 0
      · simp only [hc, if_true] at h
        obtain ⟨c', h1, h2⟩ := ih x.groupId h
        refine ⟨c', fun hcn => absurd hc hcn, ?_⟩
        intro a ha
        rcases mem_cons.1 ha with rfl | ha
        · exact Or.inr (h1 h0).symm
        · exact h2 a ha
      · simp only [hc, if_false] at h
        by_cases hcm : c = x.groupId
        · simp only [hcm, if_true] at h
          obtain ⟨c', h1, h2⟩ := ih x.groupId h
          refine ⟨c', fun _ => by rw [h1 h0, hcm], ?_⟩
          intro a ha
          rcases mem_cons.1 ha with rfl | ha
          · exact Or.inr (h1 h0).symm
          · exact h2 a ha
        · simp [hcm] at h

/-- list-level "two groups at or above `i`" -/
def TG (l : List Index) (i : Nat) : Prop :=
  ∃ a ∈ l, ∃ b ∈ l, i ≤ a.index ∧ i ≤ b.index ∧ a.groupId ≠ 0 ∧ b.groupId ≠ 0 ∧
    a.groupId ≠ b.groupId

theorem TG_sorted (vs : List Nat) (ack : Nat → Option Index) (i : Nat) :
    TG (sortDesc (acks vs ack)) i ↔ TwoGroups vs ack i := by
  constructor
  · rintro ⟨a, ha, b, hb, h⟩
    obtain ⟨v, hv, rfl⟩ := mem_sorted.1 ha
    obtain ⟨w, hw, rfl⟩ := mem_sorted.1 hb
    exact ⟨v, hv, w, hw, h⟩
  · rintro ⟨v, hv, w, hw, h⟩
    exact ⟨_, mem_sorted.2 ⟨v, hv, rfl⟩, _, mem_sorted.2 ⟨w, hw, rfl⟩, h⟩

/-- what the scan computes on a descending list, when started from the group of an element `qi` of
the list whose index is `qci` -/
theorem gcScan_spec (l : List Index) (hd : Desc l) (qi : Index) (hqi : qi ∈ l) (lastIdx : Nat) :
    let r := gcScan qi.index lastIdx qi.groupId true l
    (TG l 0 → r.2 = true ∧ r.1 ≤ qi.index ∧ TG l r.1 ∧
      ∀ i, r.1 < i → i ≤ qi.index → ¬ TG l i) ∧
    (¬ TG l 0 → (∀ a ∈ l, a.groupId ≠ 0) → r = (qi.index, false)) ∧
    (¬ TG l 0 → (∃ a ∈ l, a.groupId = 0) → r = (lastIdx, false)) := by
  intro r
  have hr : r = gcScan qi.index lastIdx qi.groupId true l := rfl
  rw [gcScan_eq] at hr
  cases hfo : firstOther qi.groupId l with
  | some m =>
    rw [hfo] at hr
    simp only at hr
    obtain ⟨pre, post, c', e, h1, h2, h3, h4, h5, h6⟩ := firstOther_some _ _ _ hfo
    have hd' := hd
    unfold Desc at hd'
    rw [e, pairwise_append, pairwise_cons] at hd'
    obtain ⟨_, ⟨hmpost, _⟩, hprepost⟩ := hd'
    have hml : m ∈ l := by rw [e]; simp
    -- the witness pair at level r.1
    have hTG : TG l r.1 := by
      rw [hr]
      by_cases hc : qi.groupId = 0
      · obtain ⟨a, ha, hag⟩ := h6 hc
        have ham : m.index ≤ a.index := hprepost a ha m (by simp)
        refine ⟨a, by rw [e]; simp [ha], m, hml, ?_, ?_, by omega, h1, by omega⟩
        · simp only; exact Nat.le_trans (Nat.min_le_left _ _) ham
        · simp only; exact Nat.min_le_left _ _
      · have hcq := h5 hc
        refine ⟨qi, hqi, m, hml, ?_, ?_, hc, h1, by omega⟩
        · simp only; exact Nat.min_le_right _ _
        · simp only; exact Nat.min_le_left _ _
    have hmax : ∀ i, r.1 < i → i ≤ qi.index → ¬ TG l i := by
      rw [hr]
      simp only
      intro i hi hiq
      have hmi : m.index < i := by
        rcases Nat.le_total m.index qi.index with h | h
        · rw [Nat.min_eq_left h] at hi; exact hi
        · rw [Nat.min_eq_right h] at hi; omega
      rintro ⟨a, ha, b, hb, hia, hib, hag, hbg, hab⟩
      have inpre : ∀ z ∈ l, i ≤ z.index → z ∈ pre := by
        intro z hz hiz
        rw [e] at hz
        rcases mem_append.1 hz with hz | hz
        · exact hz
        · rcases mem_cons.1 hz with rfl | hz
          · omega
          · have := hmpost z hz; omega
      have ha' := h4 a (inpre a ha hia)
      have hb' := h4 b (inpre b hb hib)
      omega
    refine ⟨fun _ => ⟨by rw [hr], by rw [hr]; exact Nat.min_le_right _ _, hTG, hmax⟩, ?_, ?_⟩
    · intro hn; exact absurd (by
        obtain ⟨a, ha, b, hb, _, _, h⟩ := hTG
        exact ⟨a, ha, b, hb, Nat.zero_le _, Nat.zero_le _, h⟩) hn
    · intro hn; exact absurd (by
        obtain ⟨a, ha, b, hb, _, _, h⟩ := hTG
        exact ⟨a, ha, b, hb, Nat.zero_le _, Nat.zero_le _, h⟩) hn
  | none =>
    rw [hfo] at hr
    simp only [Bool.true_and] at hr
    obtain ⟨c', _, hall⟩ := firstOther_none _ _ hfo
    have hnT : ¬ TG l 0 := by
      rintro ⟨a, ha, b, hb, _, _, hag, hbg, hab⟩
      have := hall a ha
      have := hall b hb
      omega
    refine ⟨fun h => absurd h hnT, ?_, ?_⟩
    · intro _ hnz
      rw [hr, if_pos]
      rw [all_eq_true]
      intro a ha
      simpa using hnz a ha
    · intro _ ⟨a, ha, hz⟩
      rw [hr, if_neg]
      rw [all_eq_true]
      intro hall'
      have := hall' a ha
      simp [hz] at this

/-- **what group commit computes**, in terms of the voter set only -/
theorem groupCommit_spec (vs : List Nat) (ack : Nat → Option Index) (hne : vs ≠ []) :
    let q := (committedIndex vs ack false).1
    let r := committedIndex vs ack true
    (TwoGroups vs ack 0 → r.2 = true ∧ r.1 ≤ q ∧ TwoGroups vs ack r.1 ∧
      ∀ i, r.1 < i → i ≤ q → ¬ TwoGroups vs ack i) ∧
    (¬ TwoGroups vs ack 0 → (∀ v ∈ vs, ackGrp ack v ≠ 0) → r = (q, false)) ∧
    (¬ TwoGroups vs ack 0 → (∃ v ∈ vs, ackGrp ack v = 0) →
      r.2 = false ∧ (∃ v ∈ vs, ackIdx ack v = r.1) ∧ ∀ w ∈ vs, r.1 ≤ ackIdx ack w) := by
  intro q r
  obtain ⟨qi, last, hqi, hlast, he, _⟩ := committedIndex_unfold vs ack hne true
  obtain ⟨qi', _, hqi', _, he', _⟩ := committedIndex_unfold vs ack hne false
  rw [hqi] at hqi'
  simp only [Option.some.injEq] at hqi'
  subst hqi'
  simp only [if_true] at he
  simp only [Bool.false_eq_true, if_false] at he'
  have hq : q = qi.index := by simp only [q, he']
  have hr : r = gcScan qi.index last.index qi.groupId true (sortDesc (acks vs ack)) := he
  have hd := sortDesc_desc (acks vs ack)
  obtain ⟨s1, s2, s3⟩ := gcScan_spec _ hd qi (mem_of_getElem? hqi) last.index
  simp only [TG_sorted] at s1 s2 s3
  rw [← hr] at s1 s2 s3
  rw [← hq] at s1 s2
  refine ⟨s1, ?_, ?_⟩
  · intro hn hall
    apply s2 hn
    intro a ha
    obtain ⟨v, hv, rfl⟩ := mem_sorted.1 ha
    exact hall v hv
  · intro hn ⟨v, hv, hz⟩
    have := s3 hn ⟨_, mem_sorted.2 ⟨v, hv, rfl⟩, hz⟩
    rw [this]
    obtain ⟨hmem, hmin⟩ := desc_getLast_le _ hd last hlast
    obtain ⟨w, hw, e⟩ := mem_sorted.1 hmem
    refine ⟨rfl, ⟨w, hw, by simp [ackIdx, e]⟩, ?_⟩
    intro u hu
    exact hmin _ (mem_sorted.2 ⟨u, hu, rfl⟩)

/-! ### votes -/

theorem voteCount_eq (check : Nat → Option Bool) (vs : List Nat) (y m : Nat) :
    voteCount check vs (y, m) = (y + yesCount vs check, m + missingCount vs check) := by
  induction vs generalizing y m with
  | nil => simp [voteCount, yesCount, missingCount]
  | cons v vs ih =>
    simp only [voteCount]
    cases hc : check v with
    | none =>
      simp only [ih, yesCount, missingCount, countP_cons, hc]
      simp; omega
    | some b =>
      cases b <;> simp only [ih, yesCount, missingCount, countP_cons, hc] <;> simp <;> omega

theorem voteResult_eq (vs : List Nat) (check : Nat → Option Bool) :
    voteResult vs check =
      if vs = [] then .won
      else if majority vs.length ≤ yesCount vs check then .won
      else if majority vs.length ≤ yesCount vs check + missingCount vs check then .pending
      else .lost := by
  cases vs with
  | nil => simp [voteResult]
  | cons v vs =>
    simp only [voteResult, voteCount_eq, isEmpty_cons, Bool.false_eq_true, if_false, Nat.zero_add]
    simp

end Majority

/-! ### pigeonhole -/

/-- two predicates that each hold on a majority of a list hold together on some element -/
theorem countP_majorities_meet (vs : List Nat) (p q : Nat → Bool)
    (hp : majority vs.length ≤ vs.countP p) (hq : majority vs.length ≤ vs.countP q) :
    ∃ v ∈ vs, p v = true ∧ q v = true := by
  have key : ∀ l : List Nat, l.countP p + l.countP q ≤ l.length + l.countP (fun v => p v && q v) := by
    intro l
    induction l with
    | nil => simp
    | cons a l ih =>
      simp only [countP_cons, length_cons]
      cases p a <;> cases q a <;> simp <;> omega
  have h2 := two_majorities vs.length
  have : 0 < vs.countP (fun v => p v && q v) := by have := key vs; omega
  obtain ⟨v, hv, hpq⟩ := countP_pos_iff.1 this
  simp only [Bool.and_eq_true] at hpq
  exact ⟨v, hv, hpq.1, hpq.2⟩

/-- **Quorum intersection** (pigeonhole on duplicate-free lists): two duplicate-free sub-lists of
`vs`, each holding a majority of `vs`, share an element. -/
theorem majorities_intersect (vs A B : List Nat) (_hvs : vs.Nodup) (hA : A ⊆ vs) (hB : B ⊆ vs)
    (hAn : A.Nodup) (hBn : B.Nodup) (hAm : majority vs.length ≤ A.length)
    (hBm : majority vs.length ≤ B.length) : ∃ v, v ∈ A ∧ v ∈ B := by
  apply Classical.byContradiction
  intro hno
  have hdis : ∀ a ∈ A, ∀ b ∈ B, a ≠ b := by
    intro a ha b hb hab
    subst hab
    exact hno ⟨a, ha, hb⟩
  have hnd : (A ++ B).Nodup := nodup_append.2 ⟨hAn, hBn, hdis⟩
  have hsub : A ++ B ⊆ vs := by
    intro x hx
    rcases mem_append.1 hx with h | h
    · exact hA h
    · exact hB h
  have := hnd.length_le_of_subset hsub
  have := two_majorities vs.length
  simp only [length_append] at *
  omega

theorem quorums_intersect (vs A B : List Nat) (hA : IsQuorum vs A) (hB : IsQuorum vs B) :
    ∃ v ∈ vs, v ∈ A ∧ v ∈ B := by
  obtain ⟨v, hv, h1, h2⟩ := countP_majorities_meet vs _ _ hA hB
  exact ⟨v, hv, by simpa using h1, by simpa using h2⟩

theorem joint_quorums_intersect (c : JointConfig) (A B : List Nat)
    (hne : c.incoming ≠ [] ∨ c.outgoing ≠ [])
    (hA : IsJointQuorum c A) (hB : IsJointQuorum c B) :
    ∃ v, (v ∈ c.incoming ∨ v ∈ c.outgoing) ∧ v ∈ A ∧ v ∈ B := by
  rcases hne with h | h
  · obtain ⟨v, hv, h1, h2⟩ := quorums_intersect _ A B (hA.1 h) (hB.1 h)
    exact ⟨v, Or.inl hv, h1, h2⟩
  · obtain ⟨v, hv, h1, h2⟩ := quorums_intersect _ A B (hA.2 h) (hB.2 h)
    exact ⟨v, Or.inr hv, h1, h2⟩

end RaftModel
