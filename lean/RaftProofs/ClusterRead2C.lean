import RaftProofs.ClusterRead2B

/-!
Cluster-level ReadIndex safety with compaction and snapshots, part 2C: `occ_issued`, `late_not_occ`,
`hbr_floor` for the bundle `RdHypS` [copies of `ClusterReadJ.lean` / `ClusterReadK.lean`; the
definitions `Occ`, `Issued`, `Late`, `FloorOK`, `HbrFloor` are those of `RaftModel.Cluster`].
-/
namespace RaftModel
namespace Cluster
namespace Snap5
namespace Rd
open Node Raft Raft.CC Raft.RD RaftProps.C02 RaftProps.C05 Snap

variable {cfg : JointConfig} {c0 : Nat} {h : List Sys}

theorem occ_issued (H : RdHypS cfg c0 h) : ∀ (k : Nat) (s : Sys), h[k]? = some s →
    ∀ K, K ≠ [] → Occ s K → Issued h k K := by
  have H2 := H.toHyp2w
  refine hist_induct h _ ?_ ?_
  · intro s h0 K _ hocc
    exfalso
    have hinit := hist_init H2.hist s h0
    rcases hocc with ⟨v, st, hv, ho⟩ | ⟨x, hx, _⟩
    · obtain ⟨c, store, rnd, _, hb⟩ := hinit.2 v st hv
      obtain ⟨f1, f2, f3⟩ := boot_fresh c store rnd st hb
      have f4 := (CV.boot_booted c store rnd st hb).msgs
      rcases ho with ⟨rs, g⟩ | g | ⟨x, g, _⟩ | ⟨x, g, _⟩
      · rw [f1] at g; cases g
      · rw [f2] at g; cases g
      · rw [f4] at g; cases g
      · rw [f3] at g; cases g
    · rw [hinit.1] at hx; cases hx
  · intro n a b ha hb ih K hK hocc
    have up : Occ a K → Issued h (n + 1) K := fun g => (ih K hK g).mono (Nat.le_succ n)
    have PA := pend_ok H n a ha
    cases rd_step H ha hb with
    | call k st st' m hk hbe hm ho =>
      subst hbe
      rcases hocc with ⟨v, stv, hv, hoc⟩ | ⟨x, hx, g⟩
      · rcases node_cases hv with ⟨e1, e2⟩ | ⟨_, e2⟩
        · subst e1; subst e2
          apply up
          rcases hoc with ⟨rs, g⟩ | g | ⟨x, g1, g2, g3⟩ | ⟨x, g1, g2⟩
          · obtain ⟨_, ⟨rs0, q, _⟩, _⟩ := ho.pend K rs g
            exact .inl ⟨v, st, hk, .inl ⟨rs0, q⟩⟩
          · obtain ⟨d, hd⟩ := ho.queue
            rw [hd] at g
            exact .inl ⟨v, st, hk, .inr (.inl (List.mem_of_mem_drop g))⟩
          · rcases ho.msgs x g1 with c | c | c | c
            · exact .inl ⟨v, st, hk, .inr (.inr (.inl ⟨x, c, g2, g3⟩))⟩
            · rw [c] at g2; cases g2
            · rcases c.2 with c | c
              · exact absurd (g3.symm.trans c) hK
              · rw [g3] at c; exact .inl ⟨v, st, hk, .inr (.inl c)⟩
            · rcases hm with q | ⟨q, _⟩
              · rw [c.2.1] at q; cases q
              · exact .inr ⟨m, q, by rw [c.2.1]; rfl, c.2.2.1.symm.trans g3⟩
          · rcases ho.rst x g1 with c | c | ⟨K0, rs0, _, _, _, _, c1, c2, _⟩
            · exact .inl ⟨v, st, hk, .inr (.inr (.inr ⟨x, c, g2⟩))⟩
            · exfalso
              rcases hm with q | ⟨q, _⟩
              · rw [c] at q; cases q
              · exact H.norir a (mem_of_get ha) m q c
            · have := (PA.req v st hk K0 rs0 c1).1
              rw [c2] at this
              injection this with this
              rw [g2] at this
              exact .inl ⟨v, st, hk, .inl ⟨rs0, by rw [this]; exact c1⟩⟩
        · exact up (.inl ⟨v, stv, e2, hoc⟩)
      · exact up (.inr ⟨x, hx, g⟩)
    | read k st st' K' rnd res hk hbe hcall ho =>
      subst hbe
      rcases hocc with ⟨v, stv, hv, hoc⟩ | ⟨x, hx, g⟩
      · rcases node_cases hv with ⟨e1, e2⟩ | ⟨_, e2⟩
        · subst e1; subst e2
          cases ho with
          | frame hf =>
            apply up
            refine .inl ⟨v, st, hk, ?_⟩
            rcases hoc with ⟨rs, g⟩ | g | ⟨x, g1, g2, g3⟩ | ⟨x, g1, g2⟩
            · rw [hf.ro] at g; exact .inl ⟨rs, g⟩
            · rw [hf.ro] at g; exact .inr (.inl g)
            · have : x ∈ rdOf stv.raft.msgs := mem_rdOf.2 ⟨g1, g2⟩
              rw [hf.rd] at this
              exact .inr (.inr (.inl ⟨x, (mem_rdOf.1 this).1, g2, g3⟩))
            · rw [hf.rs] at g1; exact .inr (.inr (.inr ⟨x, g1, g2⟩))
          | now hs =>
            exfalso
            rcases hs with c | c
            · rw [not_singleton H2 (mem_of_get ha) hk] at c; cases c
            · exact c (H.safe a (mem_of_get ha) v st hk)
          | reg hl hc ro hadd hcore hmsgs =>
            have e1 : stv.raft.readOnly = ro := congrArg RCore.ro hcore
            have e3 : stv.raft.readStates = st.raft.readStates := congrArg RCore.rs hcore
            -- `K'` is pending after the call: it was pending before, or this call registers it
            have hK' : K = K' → Issued h (n + 1) K := by
              intro e
              subst e
              rcases addRequest_spec hadd with ⟨_, rs, q2⟩ | ⟨q1, _, q3, _⟩
              · exact up (.inl ⟨v, st, hk, .inl ⟨rs, q2⟩⟩)
              · refine ⟨n, v, Nat.lt_succ_self n, a, _, st, stv, rnd, res, ha, hb, hk, hcall, rfl, q1, ?_⟩
                rw [e1, q3]
                exact ⟨_, List.mem_append_right _ (List.mem_singleton.2 rfl)⟩
            rcases hoc with ⟨rs, g⟩ | g | ⟨x, g1, g2, g3⟩ | ⟨x, g1, g2⟩
            · rw [e1] at g
              rcases addRequest_spec hadd with ⟨q1, _⟩ | ⟨_, _, q3, _⟩
              · rw [q1] at g; exact up (.inl ⟨v, st, hk, .inl ⟨rs, g⟩⟩)
              · rw [q3] at g
                rcases List.mem_append.1 g with g | g
                · exact up (.inl ⟨v, st, hk, .inl ⟨rs, g⟩⟩)
                · rw [List.mem_singleton] at g
                  injection g with g
                  exact hK' g
            · rw [e1] at g
              rcases addRequest_spec hadd with ⟨q1, _⟩ | ⟨_, _, _, q4⟩
              · rw [q1] at g; exact up (.inl ⟨v, st, hk, .inr (.inl g)⟩)
              · rw [q4] at g
                rcases List.mem_append.1 g with g | g
                · exact up (.inl ⟨v, st, hk, .inr (.inl g)⟩)
                · exact hK' (List.mem_singleton.1 g)
            · rcases hmsgs x g1 with c | ⟨_, c⟩
              · exact up (.inl ⟨v, st, hk, .inr (.inr (.inl ⟨x, c, g2, g3⟩))⟩)
              · exact hK' (g3.symm.trans c)
            · rw [e3] at g1
              exact up (.inl ⟨v, st, hk, .inr (.inr (.inr ⟨x, g1, g2⟩))⟩)
        · exact up (.inl ⟨v, stv, e2, hoc⟩)
      · exact up (.inr ⟨x, hx, g⟩)
    | send k st st' hk hbe hst =>
      subst hbe
      apply up
      rcases hocc with ⟨v, stv, hv, hoc⟩ | ⟨x, hx, g⟩
      · have hv' : (a.setNode k st').node v = some stv := hv
        rcases node_cases hv' with ⟨e1, e2⟩ | ⟨_, e2⟩
        · subst e1; subst e2
          refine .inl ⟨v, st, hk, ?_⟩
          unfold OccN at hoc
          rw [hst] at hoc
          rcases hoc with ⟨rs, g⟩ | g | ⟨x, g1, _⟩ | ⟨x, g1, _⟩
          · exact .inl ⟨rs, g⟩
          · exact .inr (.inl g)
          · cases g1
          · cases g1
        · exact .inl ⟨v, stv, e2, hoc⟩
      · have hx' : x ∈ a.net ++ st.raft.msgs := hx
        rcases List.mem_append.1 hx' with c | c
        · exact .inr ⟨x, c, g⟩
        · exact .inl ⟨k, st, hk, .inr (.inr (.inl ⟨x, c, g⟩))⟩
    | restart k st st' hk hbe hf hq =>
      subst hbe
      apply up
      rcases hocc with ⟨v, stv, hv, hoc⟩ | ⟨x, hx, g⟩
      · rcases node_cases hv with ⟨e1, e2⟩ | ⟨_, e2⟩
        · subst e1; subst e2
          exfalso
          rcases hoc with ⟨rs, g⟩ | g | ⟨x, g, _⟩ | ⟨x, g, _⟩
          · rw [hf.1] at g; cases g
          · rw [hf.2.1] at g; cases g
          · rw [hq] at g; cases g
          · rw [hf.2.2] at g; cases g
        · exact .inl ⟨v, stv, e2, hoc⟩
      · exact .inr ⟨x, hx, g⟩


theorem late_not_occ (H : RdHypS cfg c0 h) {n0 k : Nat} {s : Sys} (hk : h[k]? = some s)
    (hle : k ≤ n0) {K : Bytes} (hL : Late h n0 K) : ¬ Occ s K := by
  intro ho
  obtain ⟨n, i, h1, h2⟩ := occ_issued H k s hk K hL.1 ho
  have := hL.2 n i h2
  omega


theorem hbr_floor (H : RdHypS cfg c0 h) {n0 : Nat} {s0 : Sys} (hn0 : h[n0]? = some s0) :
    ∀ (k : Nat) (s : Sys), h[k]? = some s → HbrFloor h n0 s0 s := by
  have H2 := H.toHyp2w
  refine hist_induct h _ ?_ ?_
  · intro s h0
    have hinit := hist_init H2.hist s h0
    refine ⟨fun v st hv x hx => ?_, fun x hx => ?_⟩
    · rw [init_queue hinit v st hv] at hx; cases hx
    · rw [hinit.1] at hx; cases hx
  · intro n a b ha hb ih
    cases rd_step H ha hb with
    | call k st st' m hk hbe hm ho =>
      subst hbe
      refine ⟨fun v stv hv x hx hty hL => ?_, ih.net⟩
      rcases node_cases hv with ⟨e1, e2⟩ | ⟨_, e2⟩
      · subst e1; subst e2
        rcases ho.msgs x hx with c | c | c | c
        · exact ih.q v st hk x c hty hL
        · rw [hty] at c; cases c
        · rw [c.1] at hty; cases hty
        · -- a fresh response: the step is after `n0`
          have hle : n0 ≤ n := by
            apply Classical.byContradiction
            intro hc
            exact late_not_occ H hb (by omega) hL
              (.inl ⟨v, stv, node_setNode_self a v stv, .inr (.inr (.inl ⟨x, hx, by rw [hty]; rfl, rfl⟩))⟩)
          intro τ hτ
          obtain ⟨st2, q1, q2, _⟩ := hτ.later H2.hist hn0 ha hle
          have hid := (node_ok H2 ha hk).id
          rw [c.2.2.2.1, hid, hk] at q1
          cases q1
          exact Nat.le_trans q2 c.2.2.2.2
      · exact ih.q v stv e2 x hx hty hL
    | read k st st' K' rnd res hk hbe hcall ho =>
      subst hbe
      refine ⟨fun v stv hv x hx hty hL => ?_, ih.net⟩
      rcases node_cases hv with ⟨e1, e2⟩ | ⟨_, e2⟩
      · subst e1; subst e2
        cases ho with
        | frame hf =>
          have : x ∈ rdOf stv.raft.msgs := mem_rdOf.2 ⟨hx, by unfold isRd; rw [hty]; rfl⟩
          rw [hf.rd] at this
          exact ih.q v st hk x (mem_rdOf.1 this).1 hty hL
        | now hs =>
          exfalso
          rcases hs with c | c
          · rw [not_singleton H2 (mem_of_get ha) hk] at c; cases c
          · exact c (H.safe a (mem_of_get ha) v st hk)
        | reg hl hc ro hadd hcore hmsgs =>
          rcases hmsgs x hx with c | ⟨c, _⟩
          · exact ih.q v st hk x c hty hL
          · rw [c] at hty; cases hty
      · exact ih.q v stv e2 x hx hty hL
    | send k st st' hk hbe hst =>
      subst hbe
      refine ⟨fun v stv hv x hx hty hL => ?_, fun x hx hty hL => ?_⟩
      · have hv' : (a.setNode k st').node v = some stv := hv
        rcases node_cases hv' with ⟨e1, e2⟩ | ⟨_, e2⟩
        · subst e1; subst e2
          rw [hst] at hx; cases hx
        · exact ih.q v stv e2 x hx hty hL
      · have hx' : x ∈ a.net ++ st.raft.msgs := hx
        rcases List.mem_append.1 hx' with c | c
        · exact ih.net x c hty hL
        · exact ih.q k st hk x c hty hL
    | restart k st st' hk hbe hf hq =>
      subst hbe
      refine ⟨fun v stv hv x hx hty hL => ?_, ih.net⟩
      rcases node_cases hv with ⟨e1, e2⟩ | ⟨_, e2⟩
      · subst e1; subst e2
        rw [hq] at hx; cases hx
      · exact ih.q v stv e2 x hx hty hL


end Rd
end Snap5
end Cluster
end RaftModel
