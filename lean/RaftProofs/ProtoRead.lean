import RaftProofs.ProtoReadDefs

/-!
The **read-index layer** of P — proofs.

`InvRd` (RaftProofs/ProtoReadDefs.lean) holds initially, is preserved by every event of P (the 25
protocol events and the 5 read events), hence holds in every reachable state.  Consequences: every
read state handed to the application (and every released response) is a `SafeAnswer`; what `issue`
records, and that it stays valid forever.

Structure of the proof:
* `step_shape`: every event leaves `s.cmts` / `s.acks` / `s.ccfgs` alone or conses one element at the
  head (`ccfgs` in step with `cmts`), and only read events touch `s.rd`; hence `cmtsAt` / `acksAt` /
  `ccfgsAt` below the old length are stable (`cmtsAt_stable`, `acksAt_stable`, `ccfgsAt_stable`) and every clause except `lcm` is transported (`invRd_transport`);
* `lcm_step`: the clause `lcm` (a leader's commit index covers its own commits) for the 25 events;
* `invRd_read`: the five read events (`start_covers`, `read_confirmed` are the two real arguments).
-/
namespace RaftModel.P

/-! ### list facts -/

theorem drop_cons_stable {α : Type} (x : α) (l : List α) (n : Nat) (hn : n ≤ l.length) :
    (x :: l).drop ((x :: l).length - n) = l.drop (l.length - n) := by
  have : (x :: l).length - n = (l.length - n) + 1 := by simp only [List.length_cons]; omega
  rw [this, List.drop_succ_cons]

/-- the `n` oldest leader commits are not affected by a step that leaves `cmts` alone or conses onto it -/
theorem cmtsAt_stable {s s' : PSys} (h : s'.cmts = s.cmts ∨ ∃ x, s'.cmts = x :: s.cmts) {n : Nat}
    (hn : n ≤ s.cmts.length) : cmtsAt s' n = cmtsAt s n := by
  unfold cmtsAt
  rcases h with h | ⟨x, h⟩
  · rw [h]
  · rw [h]; exact drop_cons_stable x _ n hn

/-- the same for the released acknowledgements -/
theorem acksAt_stable {s s' : PSys} (h : s'.acks = s.acks ∨ ∃ x, s'.acks = x :: s.acks) {n : Nat}
    (hn : n ≤ s.acks.length) : acksAt s' n = acksAt s n := by
  unfold acksAt
  rcases h with h | ⟨x, h⟩
  · rw [h]
  · rw [h]; exact drop_cons_stable x _ n hn

/-- the same for the configuration ghosts of the leader commits -/
theorem ccfgsAt_stable {s s' : PSys} (h : s'.ccfgs = s.ccfgs ∨ ∃ x, s'.ccfgs = x :: s.ccfgs) {n : Nat}
    (hn : n ≤ s.ccfgs.length) : ccfgsAt s' n = ccfgsAt s n := by
  unfold ccfgsAt
  rcases h with h | ⟨x, h⟩
  · rw [h]
  · rw [h]; exact drop_cons_stable x _ n hn

/-- `ccfgs` is as long as `cmts` (they are consed in step) -/
theorem ccfgs_length {s : PSys} (h3 : InvC3 s) : s.ccfgs.length = s.cmts.length := by
  rw [← h3.cc, List.length_map]

theorem cmtsAt_sub {s : PSys} {n : Nat} {p : Nat × Nat} (h : p ∈ cmtsAt s n) : p ∈ s.cmts := by
  unfold cmtsAt at h; exact List.mem_of_mem_drop h

theorem acksAt_sub {s : PSys} {n : Nat} {a : Ack} (h : a ∈ acksAt s n) : a ∈ s.acks := by
  unfold acksAt at h; exact List.mem_of_mem_drop h

theorem cmtsAt_full (s : PSys) : cmtsAt s s.cmts.length = s.cmts := by
  unfold cmtsAt; rw [Nat.sub_self, List.drop_zero]

theorem ccfgsAt_full (s : PSys) : ccfgsAt s s.ccfgs.length = s.ccfgs := by
  unfold ccfgsAt; rw [Nat.sub_self, List.drop_zero]

theorem acksAt_full (s : PSys) : acksAt s s.acks.length = s.acks := by
  unfold acksAt; rw [Nat.sub_self, List.drop_zero]

/-- two records of a list with pairwise distinct request contexts and the same context are equal -/
theorem rid_unique {l : List ReadRec} (h : l.Pairwise (fun a b => a.rid ≠ b.rid)) {a b : ReadRec}
    (ha : a ∈ l) (hb : b ∈ l) (he : a.rid = b.rid) : a = b := by
  induction l with
  | nil => cases ha
  | cons x l ih =>
    rw [List.pairwise_cons] at h
    rcases List.mem_cons.mp ha with ha | ha <;> rcases List.mem_cons.mp hb with hb | hb
    · rw [ha, hb]
    · rw [ha] at he; exact absurd he (h.1 b hb)
    · rw [hb] at he; exact absurd he.symm (h.1 a ha)
    · exact ih h.2 ha hb

/-- the term at a valid index is the term of an entry of the list -/
theorem termAt_mem {l : List LEntry} {k : Nat} (h0 : 0 < k) (hk : k ≤ l.length) :
    ∃ e ∈ l, termAt l k = e.term := by
  have hlt : k - 1 < l.length := by omega
  refine ⟨l[k - 1], List.getElem_mem hlt, ?_⟩
  unfold termAt
  rw [if_neg (by omega), List.getElem?_eq_getElem hlt]

/-! ### the shape of a step -/

def Event.isRead : Event → Bool
  | .read _ => true
  | _ => false

theorem addReleased_shape (s : PSys) (m : OMsg) :
    (addReleased s m).rd = s.rd ∧ (addReleased s m).cmts = s.cmts ∧
    ((addReleased s m).acks = s.acks ∨ ∃ x, (addReleased s m).acks = x :: s.acks) ∧
    (addReleased s m).ccfgs = s.ccfgs := by
  cases m with
  | voteReq t c lt li => exact ⟨rfl, rfl, Or.inl rfl, rfl⟩
  | grant t v c gh => exact ⟨rfl, rfl, Or.inl rfl, rfl⟩
  | ack t f idx pre => exact ⟨rfl, rfl, Or.inr ⟨_, rfl⟩, rfl⟩

/-- a read-index event, unpacked -/
theorem read_apply {s s' : PSys} {r : REvent} (h : applyEvent s (.read r) = .ok s') :
    ∃ rd, applyRead s r = .ok rd ∧ s' = { s with rd := rd } := by
  simp only [applyEvent, ok] at h
  split at h
  · rename_i rd heq; cases h; exact ⟨rd, heq, rfl⟩
  · cases h

/-- only read events touch the read bookkeeping; `cmts` and `acks` grow at the head, by at most one
element per step -/
theorem step_shape (s s' : PSys) (e : Event) (h : applyEvent s e = .ok s') :
    (e.isRead = false → s'.rd = s.rd) ∧ (s'.cmts = s.cmts ∨ ∃ x, s'.cmts = x :: s.cmts) ∧
    (s'.acks = s.acks ∨ ∃ x, s'.acks = x :: s.acks) ∧
    (s'.ccfgs = s.ccfgs ∨ ∃ x, s'.ccfgs = x :: s.ccfgs) := by
  cases e with
  | read r =>
    obtain ⟨rd, hs⟩ := read_frame h
    subst hs
    exact ⟨fun h => by simp [Event.isRead] at h, Or.inl rfl, Or.inl rfl, Or.inl rfl⟩
  | commitLeader i c cfg q =>
    simp only [applyEvent, ok] at h
    split at h
    · cases h; exact ⟨fun _ => rfl, Or.inr ⟨_, rfl⟩, Or.inl rfl, Or.inr ⟨_, rfl⟩⟩
    · cases h
  | release i key =>
    simp only [applyEvent, ok] at h
    split at h
    · split at h
      · split at h
        · cases h
          exact ⟨fun _ => (addReleased_shape _ _).1, Or.inl (addReleased_shape _ _).2.1, (addReleased_shape _ _).2.2.1,
            Or.inl (addReleased_shape _ _).2.2.2⟩
        · cases h
      · cases h
    · split at h
      · split at h
        · split at h
          · cases h
            exact ⟨fun _ => (addReleased_shape _ _).1, Or.inl (addReleased_shape _ _).2.1, (addReleased_shape _ _).2.2.1,
            Or.inl (addReleased_shape _ _).2.2.2⟩
          · cases h
        · cases h
      · cases h
  | grant i c | persist i k | installSnap i t idx sterm | commitSnap i t idx sterm =>
    simp only [applyEvent, ok] at h
    split at h
    · split at h
      · cases h; exact ⟨fun _ => rfl, Or.inl rfl, Or.inl rfl, Or.inl rfl⟩
      · cases h
    · cases h
  | bump i t | campaign i | rdy i | crash i | restart i | stepDown i | sendApp i m | recvApp i m
  | ackCommitted i | ackSelf i idx | win i cfg q | leaderAppend i e | commitApp i c m | commitHB i c m
  | commitClaim i m | sendHB i to c | claim i idx | sendSnap i idx | bootstrap i donor idx =>
    simp only [applyEvent, ok] at h
    split at h
    · cases h; exact ⟨fun _ => rfl, Or.inl rfl, Or.inl rfl, Or.inl rfl⟩
    · cases h

/-! ### the clause `lcm`: a leader's commit index covers its own commits -/

def Lcm (s : PSys) : Prop :=
  ∀ i, (s.nodes i).role = 2 → ∀ p ∈ s.cmts, p.1 = (s.nodes i).term → p.2 ≤ (s.nodes i).commit

theorem ne02 : (0 : Nat) = 2 → False := by decide
theorem ne12 : (1 : Nat) = 2 → False := by decide

theorem lcm_same {s s' : PSys} (h : Lcm s) (hn : s'.nodes = s.nodes) (hc : s'.cmts = s.cmts) : Lcm s' := by
  intro j hj p hp ht
  rw [hc] at hp
  rw [hn] at hj ht ⊢
  exact h j hj p hp ht

/-- frame: node `i` is replaced by `n`; if `n` is a leader then node `i` was one, of the same term and
with a commit index not above the new one -/
theorem lcm_node {s s' : PSys} (h : Lcm s) (i : Nat) (n : PNode) (hn : s'.nodes = upd s.nodes i n)
    (hc : s'.cmts = s.cmts)
    (hk : n.role = 2 → (s.nodes i).role = 2 ∧ n.term = (s.nodes i).term ∧ (s.nodes i).commit ≤ n.commit) :
    Lcm s' := by
  intro j hj p hp ht
  rw [hc] at hp
  rw [hn] at hj ht ⊢
  by_cases hji : j = i
  · subst hji
    simp only [upd, if_true] at hj ht ⊢
    obtain ⟨h1, h2, h3⟩ := hk hj
    have := h j h1 p hp (by rw [ht, h2])
    omega
  · simp only [upd, hji, if_false] at hj ht ⊢
    exact h j hj p hp ht

theorem lcm_step (s s' : PSys) (e : Event)
    (h : applyEvent s e = .ok s') (hV : InvV (vsys s)) (hL : InvL s)
    (h3 : InvC3 s) (hl : Lcm s) : Lcm s' := by
  cases e with
  | read r =>
    obtain ⟨rd, hs⟩ := read_frame h
    subst hs
    exact hl
  | win i cfg q =>
    obtain ⟨hrole, hq, hall, _, hs', _, hadj, _⟩ := win_guard h
    have hf := win_fresh s hV hL i cfg q hrole hq hall hadj
    subst hs'
    intro j hj p hp ht
    by_cases hji : j = i
    · subst hji
      exfalso
      simp only [upd, if_true] at ht
      apply hf
      have := (h3.cq p hp).2.2.2.1
      rw [ht] at this; exact this
    · simp only [upd, hji, if_false] at hj ht ⊢
      exact hl j hj p hp ht
  | commitLeader i c cfg q =>
    simp only [applyEvent, ok] at h
    split at h
    · rename_i hg
      cases h
      intro j hj p hp ht
      by_cases hji : j = i
      · subst hji
        simp only [upd, if_true] at hj ht ⊢
        rcases List.mem_cons.mp hp with hp | hp
        · rw [hp]; exact Nat.le_refl _
        · have h1 := hl j hg.2.1 p hp ht
          have h2 := hg.2.2.1
          omega
      · simp only [upd, hji, if_false] at hj ht ⊢
        rcases List.mem_cons.mp hp with hp | hp
        · exfalso
          apply hji
          rw [hp] at ht
          exact leader_unique (vsys s) hV i j (by simpa [vsys, vproj] using hg.2.1)
            (by simpa [vsys, vproj] using hj) (by simpa [vsys, vproj] using ht.symm)
        · exact hl j hj p hp ht
    · cases h
  | release i key =>
    simp only [applyEvent, ok] at h
    split at h
    · split at h
      · split at h
        · cases h
          exact lcm_same hl (addReleased_llog _ _).2.2.1 (addReleased_llog _ _).2.2.2.1
        · cases h
      · cases h
    · split at h
      · split at h
        · split at h
          · cases h
            exact lcm_node hl i _ (addReleased_llog _ _).2.2.1 (addReleased_llog _ _).2.2.2.1
              (fun h => ⟨h, rfl, Nat.le_refl _⟩)
          · cases h
        · cases h
      · cases h
  | bump i t | crash i | restart i | stepDown i | recvApp i m =>
    simp only [applyEvent, ok] at h
    split at h
    · cases h; exact lcm_node hl i _ rfl rfl (fun h => (ne02 h).elim)
    · cases h
  | grant i c | installSnap i t idx sterm =>
    simp only [applyEvent, ok] at h
    split at h
    · split at h
      · cases h; exact lcm_node hl i _ rfl rfl (fun h => (ne02 h).elim)
      · cases h
    · cases h
  | campaign i =>
    simp only [applyEvent, ok] at h
    split at h
    · cases h; exact lcm_node hl i _ rfl rfl (fun h => (ne12 h).elim)
    · cases h
  | rdy i | leaderAppend i e | ackCommitted i | ackSelf i idx =>
    simp only [applyEvent, ok] at h
    split at h
    · cases h; exact lcm_node hl i _ rfl rfl (fun h => ⟨h, rfl, Nat.le_refl _⟩)
    · cases h
  | persist i k =>
    simp only [applyEvent, ok] at h
    split at h
    · split at h
      · cases h; exact lcm_node hl i _ rfl rfl (fun h => ⟨h, rfl, Nat.le_refl _⟩)
      · cases h
    · cases h
  | sendApp i m | sendHB i to c | claim i idx | sendSnap i idx =>
    simp only [applyEvent, ok] at h
    split at h
    · cases h; exact hl
    · cases h
  | commitApp i c m =>
    simp only [applyEvent, ok] at h
    split at h
    · rename_i hg
      cases h; exact lcm_node hl i _ rfl rfl (fun h => ⟨h, rfl, Nat.le_of_lt hg.2.2.2.1⟩)
    · cases h
  | commitHB i c m =>
    simp only [applyEvent, ok] at h
    split at h
    · rename_i hg
      cases h; exact lcm_node hl i _ rfl rfl (fun h => ⟨h, rfl, Nat.le_of_lt hg.2.2.2.2.1⟩)
    · cases h
  | commitClaim i m =>
    simp only [applyEvent, ok] at h
    split at h
    · rename_i hg
      cases h; exact lcm_node hl i _ rfl rfl (fun h => ⟨h, rfl, Nat.le_of_lt hg.2.2.1⟩)
    · cases h
  | commitSnap i t idx sterm =>
    simp only [applyEvent, ok] at h
    split at h
    · split at h
      · rename_i hg
        cases h; exact lcm_node hl i _ rfl rfl (fun h => ⟨h, rfl, Nat.le_of_lt hg.2.2.1⟩)
      · cases h
    · cases h
  | bootstrap i donor idx =>
    simp only [applyEvent, ok] at h
    split at h
    · rename_i hg
      cases h
      refine lcm_node hl i _ rfl rfl (fun h => ?_)
      have h0 := hg.2.2.2.2.2.2.2.2.2.2.1
      have h' : (s.nodes i).role = 2 := h
      omega
    · cases h

/-! ### transport of the other clauses along a step that does not touch `s.rd` -/

theorem invRd_transport {s s' : PSys} (hRd : InvRd s) (hrd : s'.rd = s.rd)
    (hcm : s'.cmts = s.cmts ∨ ∃ x, s'.cmts = x :: s.cmts)
    (hak : s'.acks = s.acks ∨ ∃ x, s'.acks = x :: s.acks)
    (hcf : s'.ccfgs = s.ccfgs ∨ ∃ x, s'.ccfgs = x :: s.ccfgs)
    (hlen : s.ccfgs.length = s.cmts.length) (hl : Lcm s') : InvRd s' := by
  have hF : ∀ r ∈ s.rd.issued, ccfgsAt s' r.ncm = ccfgsAt s r.ncm :=
    fun r hr => ccfgsAt_stable hcf (by rw [hlen]; exact (hRd.bnd r hr).1)
  have hC : ∀ r ∈ s.rd.issued, cmtsAt s' r.ncm = cmtsAt s r.ncm :=
    fun r hr => cmtsAt_stable hcm (hRd.bnd r hr).1
  have hA : ∀ r ∈ s.rd.issued, acksAt s' r.nak = acksAt s r.nak :=
    fun r hr => acksAt_stable hak (hRd.bnd r hr).2
  refine ⟨?_, ?_, ?_, ?_, ?_, hl, ?_⟩
  · rw [hrd]; exact hRd.uniq
  · intro r hr
    rw [hrd] at hr
    have := hRd.bnd r hr
    have h1 : s.cmts.length ≤ s'.cmts.length := by
      rcases hcm with h | ⟨x, h⟩ <;> rw [h] <;> simp
    have h2 : s.acks.length ≤ s'.acks.length := by
      rcases hak with h | ⟨x, h⟩ <;> rw [h] <;> simp
    omega
  · intro r hr p hp
    rw [hrd] at hr
    rw [hC r hr] at hp
    obtain ⟨cfg, q, hm, hq, hv⟩ := hRd.qe r hr p hp
    refine ⟨cfg, q, ?_, hq, ?_⟩
    · rw [hF r hr]; exact hm
    · rw [hA r hr]; exact hv
  · intro x hx
    rw [hrd] at hx
    obtain ⟨r, hr, h1, h2⟩ := hRd.st x hx
    refine ⟨r, by rw [hrd]; exact hr, h1, ?_⟩
    rw [hC r hr]; exact h2
  · intro x hx
    rw [hrd] at hx
    obtain ⟨r, hr, h1, h2⟩ := hRd.hb x hx
    refine ⟨r, by rw [hrd]; exact hr, h1, ?_⟩
    rw [hA r hr]; exact h2
  · intro d hd
    rw [hrd] at hd
    have hs := hRd.safe d hd
    unfold SafeAnswer at hs ⊢
    obtain ⟨r, hr, h1, h2, h3⟩ := hs
    refine ⟨r, by rw [hrd]; exact hr, h1, h2, ?_⟩
    rw [hC r hr]; exact h3

/-! ### the two arguments of the read layer -/

theorem dterm_le_term {s : PSys} (hV : InvV (vsys s)) (i : Nat) :
    (s.nodes i).dterm ≤ (s.nodes i).term := by
  have := hV.dv i
  simp only [le2, VNode.d, VNode.vol, vsys, vproj] at this
  omega

/-- a released acknowledgement carries a term not beyond its sender's current term -/
theorem ack_term_le {s : PSys} (hI : InvAll s) {a : Ack} (ha : a ∈ s.acks) :
    a.term ≤ (s.nodes a.frm).term :=
  Nat.le_trans (hI.r.ak a ha) (dterm_le_term hI.v a.frm)

/-- a leader that has committed an entry of its own term: its commit index covers every leader commit
of a term not beyond its own -/
theorem start_covers {s : PSys} (hI : InvAll s) (hl : Lcm s) (i : Nat)
    (hrole : (s.nodes i).role = 2) (h0 : 0 < (s.nodes i).commit)
    (hta : termAt (s.nodes i).log (s.nodes i).commit = (s.nodes i).term)
    (p : Nat × Nat) (hp : p ∈ s.cmts) (hle : p.1 ≤ (s.nodes i).term) : p.2 ≤ (s.nodes i).commit := by
  by_cases he : p.1 = (s.nodes i).term
  · exact hl i hrole p hp he
  · have hlt : p.1 < (s.nodes i).term := by omega
    have hel : Elected s (s.nodes i).term := ⟨i, (hI.v.ld i (by simpa [vsys, vproj] using hrole)).1⟩
    have hlog := hI.l.ll i hrole
    obtain ⟨r, hr, _, het⟩ := hI.b.ll (s.nodes i).term
    have h1 := hI.c.lc p hp _ hlt hel
    have hlen := len_of_take_eq h1 (hI.c.c3.cq p hp).2.1
    by_cases hc : (s.nodes i).commit ≤ (s.elog (s.nodes i).term).length
    · exfalso
      rw [hlog, hr, termAt_append_left _ _ hc] at hta
      obtain ⟨e, hem, het'⟩ := termAt_mem h0 hc
      have := het e hem
      omega
    · omega

/-- a leader whose leadership in its term was confirmed by a quorum after it registered request `rid`
with read index `idx`: `idx` covers every leader commit that existed when `rid` was issued -/
theorem read_confirmed {s : PSys} (cfg : Cfg)
    (hI : InvAll s) (hRd : InvRd s) (i rid idx : Nat) (r : ReadRec) (hr : r ∈ s.rd.issued)
    (hrid : r.rid = rid)
    (hst : (⟨rid, i, (s.nodes i).term, idx⟩ : ReadStart) ∈ s.rd.started)
    (hq : rdQuorum s cfg i (s.nodes i).term rid = true)
    (hcf : rdCfgOk s cfg (s.nodes i).term r.ncm = true) :
    ∀ p ∈ cmtsAt s r.ncm, p.2 ≤ idx := by
  obtain ⟨r', hr', hrid', hcov⟩ := hRd.st _ hst
  have e1 : r' = r := rid_unique hRd.uniq hr' hr (hrid'.trans hrid.symm)
  rw [e1] at hcov
  intro p hp
  apply hcov p hp
  show p.1 ≤ (s.nodes i).term
  obtain ⟨cfgp, q, hm, hq1, hq2⟩ := hRd.qe r hr p hp
  unfold rdCfgOk at hcf
  simp only [List.all_eq_true, Bool.or_eq_true, decide_eq_true_eq] at hcf
  have hor : adjOk cfgp cfg = true ∨ p.1 ≤ (s.nodes i).term := hcf (p, cfgp) hm
  by_cases hle : p.1 ≤ (s.nodes i).term
  · exact hle
  have hadj : adjOk cfgp cfg = true := hor.resolve_right hle
  unfold rdQuorum at hq
  obtain ⟨w, hw1, hw2⟩ := adj_intersect cfgp cfg hadj q _ hq1 hq
  obtain ⟨a, ha, hat, haf, _⟩ := hq2 w hw1
  have has : a ∈ s.acks := acksAt_sub ha
  rw [← hat]
  rcases List.mem_cons.mp hw2 with hw | hw
  · have := ack_term_le hI has
    rw [haf, hw] at this; exact this
  · rw [List.mem_map] at hw
    obtain ⟨h, hh, hf⟩ := hw
    rw [List.mem_filter] at hh
    obtain ⟨hh1, hh2⟩ := hh
    have hh2' := of_decide_eq_true hh2
    obtain ⟨r'', hr'', hrid'', hb⟩ := hRd.hb h hh1
    have e2 : r'' = r := rid_unique hRd.uniq hr'' hr (by rw [hrid'', hh2'.1, hrid])
    rw [e2] at hb
    have := hb a ha (by rw [haf, hf])
    omega

/-! ### the read events -/

theorem invRd_read (s s' : PSys) (r : REvent)
    (h : applyEvent s (.read r) = .ok s') (hI : InvAll s)
    (hRd : InvRd s) : InvRd s' := by
  obtain ⟨rd, hrd, hs'⟩ := read_apply h
  subst hs'
  cases r with
  | issue i rid =>
    simp only [applyRead] at hrd
    split at hrd
    · rename_i hg
      injection hrd with hrd
      subst hrd
      have hnew : ∀ b ∈ s.rd.issued, rid ≠ b.rid := by
        intro b hb he
        apply hg.2
        simp only [List.any_eq_true, decide_eq_true_eq]
        exact ⟨b, hb, he.symm⟩
      refine ⟨?_, ?_, ?_, ?_, ?_, hRd.lcm, ?_⟩
      · exact List.pairwise_cons.mpr ⟨hnew, hRd.uniq⟩
      · intro r hr
        rcases List.mem_cons.mp hr with hr | hr
        · rw [hr]; exact ⟨Nat.le_refl _, Nat.le_refl _⟩
        · exact hRd.bnd r hr
      · intro r hr p hp
        rcases List.mem_cons.mp hr with hr | hr
        · rw [hr] at hp ⊢
          have hp' : p ∈ s.cmts := cmtsAt_sub hp
          obtain ⟨_, _, _, _, cfg, q, hm, hq, hacks⟩ := hI.c.c3.cq p hp'
          refine ⟨cfg, q, ?_, hq, ?_⟩
          · show (p, cfg) ∈ ccfgsAt _ s.cmts.length
            rw [← ccfgs_length hI.c.c3]
            exact (ccfgsAt_full s).symm ▸ hm
          intro v hv
          obtain ⟨a, ha, h1⟩ := hacks v hv
          refine ⟨a, ?_, h1⟩
          show a ∈ s.acks.drop (s.acks.length - s.acks.length)
          rw [Nat.sub_self, List.drop_zero]; exact ha
        · exact hRd.qe r hr p hp
      · intro x hx
        obtain ⟨r, hr, h1⟩ := hRd.st x hx
        exact ⟨r, List.mem_cons_of_mem _ hr, h1⟩
      · intro x hx
        obtain ⟨r, hr, h1⟩ := hRd.hb x hx
        exact ⟨r, List.mem_cons_of_mem _ hr, h1⟩
      · intro d hd
        have hs := hRd.safe d hd
        unfold SafeAnswer at hs ⊢
        obtain ⟨r, hr, h1⟩ := hs
        exact ⟨r, List.mem_cons_of_mem _ hr, h1⟩
    · cases hrd
  | start i rid =>
    simp only [applyRead] at hrd
    split at hrd
    · rename_i hg
      injection hrd with hrd
      subst hrd
      refine ⟨hRd.uniq, hRd.bnd, hRd.qe, ?_, hRd.hb, hRd.lcm, hRd.safe⟩
      intro x hx
      rcases List.mem_cons.mp hx with hx | hx
      · have hany := hg.2.2.1
        simp only [List.any_eq_true, decide_eq_true_eq] at hany
        obtain ⟨r, hr, hrid⟩ := hany
        refine ⟨r, hr, by rw [hx]; exact hrid, ?_⟩
        intro p hp hle
        rw [hx] at hle ⊢
        exact start_covers hI hRd.lcm i hg.2.1 hg.2.2.2.1 hg.2.2.2.2 p (cmtsAt_sub hp) hle
      · exact hRd.st x hx
    · cases hrd
  | hback v =>
    simp only [applyRead] at hrd
    split at hrd
    · rename_i hg
      injection hrd with hrd
      subst hrd
      refine ⟨hRd.uniq, hRd.bnd, hRd.qe, hRd.st, ?_, hRd.lcm, hRd.safe⟩
      intro h hh
      rcases List.mem_append.mp hh with hh | hh
      · rw [List.mem_map] at hh
        obtain ⟨x, hx, hxe⟩ := hh
        rw [List.mem_filter] at hx
        obtain ⟨r, hr, hrid, _⟩ := hRd.st x hx.1
        subst hxe
        refine ⟨r, hr, hrid, ?_⟩
        intro a ha haf
        have haf' : a.frm = v := haf
        have := ack_term_le hI (acksAt_sub ha)
        rw [haf'] at this
        exact this
      · exact hRd.hb h hh
    · cases hrd
  | resp i rid idx cfg =>
    simp only [applyRead] at hrd
    split at hrd
    · rename_i r hfind
      split at hrd
      · rename_i hg
        injection hrd with hrd
        subst hrd
        have hr := List.mem_of_find?_eq_some hfind
        have hrid : r.rid = rid := by simpa using List.find?_some hfind
        refine ⟨hRd.uniq, hRd.bnd, hRd.qe, hRd.st, hRd.hb, hRd.lcm, ?_⟩
        intro d hd
        rcases hd with hd | hd
        · rcases List.mem_cons.mp hd with hd | hd
          · unfold SafeAnswer
            refine ⟨r, hr, by rw [hd]; exact hrid, by rw [hd], ?_⟩
            rw [hd]
            exact read_confirmed cfg hI hRd i rid idx r hr hrid
              (by simpa using hg.2.2.1) hg.2.2.2.1 hg.2.2.2.2
          · exact hRd.safe d (Or.inl hd)
        · exact hRd.safe d (Or.inr hd)
      · cases hrd
    · cases hrd
  | rstate j rid idx cfg =>
    simp only [applyRead] at hrd
    split at hrd
    · rename_i r hfind
      split at hrd
      · rename_i hg
        injection hrd with hrd
        subst hrd
        have hr := List.mem_of_find?_eq_some hfind
        have hrid : r.rid = rid := by simpa using List.find?_some hfind
        refine ⟨hRd.uniq, hRd.bnd, hRd.qe, hRd.st, hRd.hb, hRd.lcm, ?_⟩
        intro d hd
        rcases hd with hd | hd
        · exact hRd.safe d (Or.inl hd)
        · rcases List.mem_cons.mp hd with hd | hd
          · rcases hg.2.2 with hin | hloc
            · rw [hd]
              exact hRd.safe _ (Or.inl (by simpa using hin))
            · unfold SafeAnswer
              refine ⟨r, hr, by rw [hd]; exact hrid, by rw [hd]; exact hg.2.1, ?_⟩
              rw [hd]
              exact read_confirmed cfg hI hRd j rid idx r hr hrid
                (by simpa using hloc.2.1) hloc.2.2.1 hloc.2.2.2
          · exact hRd.safe d (Or.inr hd)
      · cases hrd
    · cases hrd

/-! ### the invariant -/

theorem invRd_init : InvRd init := by
  constructor
  · simp [init]
  · intro r hr; simp [init] at hr
  · intro r hr; simp [init] at hr
  · intro x hx; simp [init] at hx
  · intro x hx; simp [init] at hx
  · intro i _ p hp; simp [init] at hp
  · intro d hd; simp [init] at hd

theorem invRd_step (s s' : PSys) (e : Event)
    (h : applyEvent s e = .ok s') (hI : InvAll s) (hI' : InvAll s')
    (hRd : InvRd s) : InvRd s' := by
  by_cases hr : e.isRead = true
  · cases e with
    | read r => exact invRd_read s s' r h hI hRd
    | _ => simp [Event.isRead] at hr
  · have sh := step_shape s s' e h
    exact invRd_transport hRd (sh.1 (by simpa using hr)) sh.2.1 sh.2.2.1 sh.2.2.2 (ccfgs_length hI.c.c3)
      (lcm_step s s' e h hI.v hI.l hI.c.c3 hRd.lcm)

/-- `InvRd` holds in every reachable state (all histories, configurations may change) -/
theorem invRd_reachR (s : PSys) (h : Reach s) : InvRd s := by
  induction h with
  | init => exact invRd_init
  | step e hr hs ih =>
    exact invRd_step _ _ e hs (invAll_reachR _ hr) (invAll_reachR _ (.step e hr hs)) ih

/-- corollary: the fixed-configuration histories -/
theorem invRd_reach (c0 : Cfg) (hne : c0.incoming ≠ [] ∨ c0.outgoing ≠ []) (s : PSys) (h : ReachC c0 s) :
    InvRd s :=
  invRd_reachR s (reach_of_reachC h)

/-! ### consequences -/

/-- every read state handed to the application is safe -/
theorem read_done_safeR (s : PSys) (h : Reach s) (d : ReadResp) (hd : d ∈ s.rd.done) : SafeAnswer s d :=
  (invRd_reachR s h).safe d (Or.inr hd)

/-- every released read-index response is safe -/
theorem read_resp_safeR (s : PSys) (h : Reach s) (d : ReadResp) (hd : d ∈ s.rd.resps) : SafeAnswer s d :=
  (invRd_reachR s h).safe d (Or.inl hd)

/-- corollary for the fixed-configuration histories -/
theorem read_done_safe (c0 : Cfg) (hne : c0.incoming ≠ [] ∨ c0.outgoing ≠ []) (s : PSys) (h : ReachC c0 s)
    (d : ReadResp) (hd : d ∈ s.rd.done) : SafeAnswer s d :=
  (invRd_reach c0 hne s h).safe d (Or.inr hd)

/-- corollary for the fixed-configuration histories -/
theorem read_resp_safe (c0 : Cfg) (hne : c0.incoming ≠ [] ∨ c0.outgoing ≠ []) (s : PSys) (h : ReachC c0 s)
    (d : ReadResp) (hd : d ∈ s.rd.resps) : SafeAnswer s d :=
  (invRd_reach c0 hne s h).safe d (Or.inl hd)

/-- a request context identifies its record -/
theorem issued_rid_unique {s : PSys} (hRd : InvRd s) {a b : ReadRec}
    (ha : a ∈ s.rd.issued) (hb : b ∈ s.rd.issued) (he : a.rid = b.rid) : a = b :=
  rid_unique hRd.uniq ha hb he

/-- what `issue` records: the new record is at the head of `issued`, carries the request context, the
issuing node and the current numbers of leader commits and released acknowledgements (so `cmtsAt` /
`acksAt` of the post-state at these numbers are the current `cmts` / `acks`); the context was unused -/
theorem issue_records (s s' : PSys) (i rid : Nat) (h : applyEvent s (.read (.issue i rid)) = .ok s') :
    ∃ r, s'.rd.issued = r :: s.rd.issued ∧ r.rid = rid ∧ r.node = i ∧
      r.ncm = s.cmts.length ∧ r.nak = s.acks.length ∧
      s'.cmts = s.cmts ∧ s'.acks = s.acks ∧ cmtsAt s' r.ncm = s.cmts ∧ acksAt s' r.nak = s.acks ∧
      ∀ r' ∈ s.rd.issued, r'.rid ≠ rid := by
  obtain ⟨rd, hrd, hs'⟩ := read_apply h
  subst hs'
  simp only [applyRead] at hrd
  split at hrd
  · rename_i hg
    injection hrd with hrd
    subst hrd
    refine ⟨⟨rid, i, s.cmts.length, s.acks.length⟩, rfl, rfl, rfl, rfl, rfl, rfl, rfl, ?_, ?_, ?_⟩
    · exact cmtsAt_full s
    · exact acksAt_full s
    · intro b hb he
      apply hg.2
      simp only [List.any_eq_true, decide_eq_true_eq]
      exact ⟨b, hb, he⟩
  · cases hrd

/-- issued requests are never forgotten -/
theorem issued_step (s s' : PSys) (e : Event) (h : applyEvent s e = .ok s') :
    ∀ r ∈ s.rd.issued, r ∈ s'.rd.issued := by
  by_cases hr : e.isRead = true
  · cases e with
    | read r =>
      obtain ⟨rd, hrd, hs'⟩ := read_apply h
      subst hs'
      cases r with
      | issue i rid =>
        simp only [applyRead] at hrd
        split at hrd
        · injection hrd with hrd; subst hrd; intro r hr; exact List.mem_cons_of_mem _ hr
        · cases hrd
      | start i rid =>
        simp only [applyRead] at hrd
        split at hrd
        · injection hrd with hrd; subst hrd; exact fun r hr => hr
        · cases hrd
      | hback v =>
        simp only [applyRead] at hrd
        split at hrd
        · injection hrd with hrd; subst hrd; exact fun r hr => hr
        · cases hrd
      | resp i rid idx cfg =>
        simp only [applyRead] at hrd
        split at hrd
        · split at hrd
          · injection hrd with hrd; subst hrd; exact fun r hr => hr
          · cases hrd
        · cases hrd
      | rstate j rid idx cfg =>
        simp only [applyRead] at hrd
        split at hrd
        · split at hrd
          · injection hrd with hrd; subst hrd; exact fun r hr => hr
          · cases hrd
        · cases hrd
    | _ => simp [Event.isRead] at hr
  · rw [(step_shape s s' e h).1 (by simpa using hr)]
    exact fun r hr => hr

/-- **forever**: along any history, an issued record stays issued, and the commits / released
acknowledgements it refers to (the `ncm` / `nak` oldest ones) stay the same lists -/
theorem issued_run (es : List Event) : ∀ (s s' : PSys), run s es = .ok s' →
    ∀ r ∈ s.rd.issued, r.ncm ≤ s.cmts.length → r.nak ≤ s.acks.length →
      r ∈ s'.rd.issued ∧ cmtsAt s' r.ncm = cmtsAt s r.ncm ∧ acksAt s' r.nak = acksAt s r.nak := by
  induction es with
  | nil =>
    intro s s' h r hr _ _
    simp only [run] at h
    cases h
    exact ⟨hr, rfl, rfl⟩
  | cons e es ih =>
    intro s s' h r hr h1 h2
    simp only [run] at h
    split at h
    · rename_i s1 hs1
      have sh := step_shape s s1 e hs1
      have l1 : s.cmts.length ≤ s1.cmts.length := by
        rcases sh.2.1 with h | ⟨x, h⟩ <;> rw [h] <;> simp
      have l2 : s.acks.length ≤ s1.acks.length := by
        rcases sh.2.2.1 with h | ⟨x, h⟩ <;> rw [h] <;> simp
      obtain ⟨a, b, c⟩ := ih s1 s' h r (issued_step s s1 e hs1 r hr) (by omega) (by omega)
      exact ⟨a, b.trans (cmtsAt_stable sh.2.1 h1), c.trans (acksAt_stable sh.2.2.1 h2)⟩
    · cases h

/-- what `issue` records stays valid forever: after `issue i rid` in state `s` and any further history
leading to a state `s2` satisfying `InvRd` (e.g. any reachable one), the record with context `rid` is
unique, was issued on `i`, and refers to exactly the leader commits / released acknowledgements of `s` -/
theorem issue_records_forever (s s1 s2 : PSys) (i rid : Nat) (es : List Event)
    (h : applyEvent s (.read (.issue i rid)) = .ok s1) (hrun : run s1 es = .ok s2) (hRd : InvRd s2) :
    ∃ r ∈ s2.rd.issued, r.rid = rid ∧ r.node = i ∧ cmtsAt s2 r.ncm = s.cmts ∧ acksAt s2 r.nak = s.acks ∧
      ∀ r' ∈ s2.rd.issued, r'.rid = rid → r' = r := by
  obtain ⟨r, hiss, hrid, hnode, hncm, hnak, hc, ha, hcm, hak, _⟩ := issue_records s s1 i rid h
  have hmem : r ∈ s1.rd.issued := by rw [hiss]; exact List.mem_cons_self
  obtain ⟨a, b, c⟩ := issued_run es s1 s2 hrun r hmem (by rw [hncm, hc]; exact Nat.le_refl _)
    (by rw [hnak, ha]; exact Nat.le_refl _)
  refine ⟨r, a, hrid, hnode, b.trans hcm, c.trans hak, ?_⟩
  intro r' hr' he
  exact rid_unique hRd.uniq hr' a (he.trans hrid.symm)

end RaftModel.P
