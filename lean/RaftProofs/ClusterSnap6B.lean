import RaftProofs.ClusterSnap6A
import RaftProps.C17

/-!
Commit safety of `ClusterSem` with compaction, snapshots and `request_snapshot`, part 6B (towards
deriving `reqok`): **who may touch `pending_request_snapshot`, and who may extend the log of a node
with a pending request**.

`RQ.Q r r'`: the pending snapshot request was dropped, or it is unchanged and a node that is not leader
is still not leader and its log has not grown.  Every function of `Raft::step` and `Raft::tick`
satisfies it (`step_q`, `tick_q`; the organisation follows `Rel` of `RaftNodeC17.lean` /
`RaftProps/C17.lean`): `reset` (`become_candidate`, `become_leader`) and a successful `restore` clear
the request, `become_follower` keeps it, `handle_append_entries` does not append while a request is
pending, and `append_entry` runs only on a leader.  The only function that sets a request is
`Raft::request_snapshot` (`ClusterSnap5Y`, `requestSnapshot_out`).
-/
namespace RaftModel
namespace Raft
namespace RQ
open RaftProps.C17

def Q (r r' : Raft) : Prop :=
  r'.pendingRequestSnapshot = 0 ∨
  (r'.pendingRequestSnapshot = r.pendingRequestSnapshot ∧
    (r.state ≠ .leader → r'.state ≠ .leader ∧ r'.raftLog.lastIndex ≤ r.raftLog.lastIndex))

theorem Q.refl (r : Raft) : Q r r := Or.inr ⟨rfl, fun h => ⟨h, Nat.le_refl _⟩⟩

theorem Q.trans {a b c : Raft} (h1 : Q a b) (h2 : Q b c) : Q a c := by
  rcases h2 with h2 | ⟨h2, h2'⟩
  · exact Or.inl h2
  · rcases h1 with h1 | ⟨h1, h1'⟩
    · exact Or.inl (h2.trans h1)
    · refine Or.inr ⟨h2.trans h1, fun h => ?_⟩
      obtain ⟨b1, b2⟩ := h1' h
      obtain ⟨c1, c2⟩ := h2' b1
      exact ⟨c1, Nat.le_trans c2 b2⟩

theorem FrameP.toQ {r r' : Raft} (h : FrameP r r') : Q r r' :=
  Or.inr ⟨h.pend, fun hs => ⟨by rw [h.state]; exact hs, Nat.le_of_eq h.last⟩⟩

theorem Q.of_zero {r r' : Raft} (h : r'.pendingRequestSnapshot = 0) : Q r r' := Or.inl h

theorem Q.of_same {r r' : Raft} (h1 : r'.pendingRequestSnapshot = r.pendingRequestSnapshot)
    (h2 : r'.state = r.state) (h3 : r'.raftLog.lastIndex = r.raftLog.lastIndex) : Q r r' :=
  Or.inr ⟨h1, fun hs => ⟨by rw [h2]; exact hs, Nat.le_of_eq h3⟩⟩

theorem Q.of_nl {r r' : Raft} (h1 : r'.pendingRequestSnapshot = r.pendingRequestSnapshot)
    (h2 : r'.state ≠ .leader) (h3 : r'.raftLog.lastIndex = r.raftLog.lastIndex) : Q r r' :=
  Or.inr ⟨h1, fun _ => ⟨h2, Nat.le_of_eq h3⟩⟩

theorem Q.of_leader {r r' : Raft} (h1 : r'.pendingRequestSnapshot = r.pendingRequestSnapshot)
    (hs : r.state = .leader) : Q r r' := Or.inr ⟨h1, fun h => absurd hs h⟩

/-- the invariant: the log of a node with a pending snapshot request ends at or before the requested
index, and such a node is not leader -/
def ReqI (r : Raft) : Prop :=
  r.pendingRequestSnapshot ≠ 0 →
    r.state ≠ .leader ∧ r.raftLog.lastIndex ≤ r.pendingRequestSnapshot

theorem Q.keeps {r r' : Raft} (h : Q r r') (hi : ReqI r) : ReqI r' := by
  intro hp
  rcases h with h | ⟨h1, h2⟩
  · exact absurd h hp
  · rw [h1] at hp
    obtain ⟨a1, a2⟩ := hi hp
    obtain ⟨b1, b2⟩ := h2 a1
    exact ⟨b1, by rw [h1]; exact Nat.le_trans b2 a2⟩

/-! ### role changes -/

theorem reset_pend_rq (r : Raft) (t : Nat) : (r.reset t).pendingRequestSnapshot = 0 := by
  unfold reset
  simp only [mapProgress, abortLeaderTransfer, resetRandomizedElectionTimeout]

theorem reset_log_rq (r : Raft) (t : Nat) : (r.reset t).raftLog = r.raftLog := by
  unfold reset
  simp only [mapProgress, abortLeaderTransfer, resetRandomizedElectionTimeout]
  split <;> rfl

theorem becomeFollower_last_rq (r : Raft) (t l : Nat) :
    (r.becomeFollower t l).raftLog.lastIndex = r.raftLog.lastIndex := by
  unfold becomeFollower
  exact lastIndex_congr (by simp only [reset_log_rq]) (by simp only [reset_log_rq])
    (by simp only [reset_log_rq])

theorem becomeFollower_q (r : Raft) (t l : Nat) : Q r (r.becomeFollower t l) :=
  Q.of_nl rfl (by rw [becomeFollower_state]; intro hc; cases hc) (becomeFollower_last_rq r t l)

theorem becomeCandidate_q (r : Raft) : Res.Post (fun x => Q r x) r.becomeCandidate := by
  unfold becomeCandidate
  split
  · trivial
  · split
    · trivial
    · exact Res.post_ok (Q.of_zero (reset_pend_rq r (r.term + 1)))

theorem becomePreCandidate_q (r : Raft) : Res.Post (fun x => Q r x) r.becomePreCandidate := by
  unfold becomePreCandidate
  split
  · trivial
  · exact Res.post_ok (Q.of_nl rfl (by intro hc; cases hc) rfl)

theorem appendEntry_ps (r : Raft) (es : List Entry) :
    Res.Post (fun x => x.1.pendingRequestSnapshot = r.pendingRequestSnapshot ∧ x.1.state = r.state)
      (r.appendEntry es) := by
  unfold appendEntry
  split
  · exact ⟨rfl, rfl⟩
  · rename_i r1 heq
    have h1 : r1.pendingRequestSnapshot = r.pendingRequestSnapshot ∧ r1.state = r.state := by
      unfold maybeIncreaseUncommittedSize at heq
      simp only [Prod.mk.injEq] at heq
      rw [← heq.1]; exact ⟨rfl, rfl⟩
    simp only
    split
    · simp only [Res.Post]; exact h1
    · trivial
    · trivial

/-- `append_entry` on a leader -/
theorem appendEntry_q (r : Raft) (es : List Entry) (hs : r.state = .leader) :
    Res.Post (fun x => Q r x.1) (r.appendEntry es) :=
  Res.post_mono (appendEntry_ps r es) (fun _ ha => Q.of_leader ha.1 hs)

theorem becomeLeader_q (r : Raft) : Res.Post (fun x => Q r x) r.becomeLeader := by
  unfold becomeLeader
  split
  · trivial
  · dsimp only
    split
    · trivial
    · split
      · trivial
      · split
        · rename_i r1 heq
          have h1 := Res.Post.of_eq (appendEntry_ps _ _) heq
          exact Res.post_ok (Q.of_zero (h1.1.trans (reset_pend_rq r r.term)))
        · trivial
        · trivial
        · trivial

theorem pollWith_q (onPreWin : Raft → Res Raft) (hp : ∀ r, Res.Post (fun x => Q r x) (onPreWin r))
    (r : Raft) (frm : Nat) (t : MsgType) (vote : Bool) :
    Res.Post (fun x => Q r x.1) (pollWith onPreWin r frm t vote) := by
  unfold pollWith
  dsimp only
  have h0 : Q r { r with prs := r.prs.recordVote frm vote } := Q.of_same rfl rfl rfl
  split
  · split
    · exact Res.post_bind (hp _) (fun a ha => h0.trans ha)
    · apply Res.post_bind (P := fun x => Q r x)
      · exact Res.post_bind (becomeLeader_q _) (fun a ha =>
          Res.post_mono (bcastAppend_fp a) (fun x hx => (h0.trans ha).trans hx.toQ))
      · intro a ha; exact ha
  · exact Res.post_ok (h0.trans (becomeFollower_q _ _ _))
  · exact Res.post_ok h0

theorem campaignWith_q (poll : Raft → Nat → MsgType → Bool → Res (Raft × VoteResult))
    (hp : ∀ r f t v, Res.Post (fun x => Q r x.1) (poll r f t v)) (r : Raft) (ct : CampaignType) :
    Res.Post (fun x => Q r x) (campaignWith poll r ct) := by
  unfold campaignWith
  dsimp only
  apply Res.post_bind (P := fun x => Q r x.1)
  · split
    · apply Res.post_bind (becomePreCandidate_q r)
      intro a ha
      split
      · trivial
      · exact ha
    · exact Res.post_bind (becomeCandidate_q r) (fun a ha => ha)
  · intro a ha
    obtain ⟨r1, voteMsg, term⟩ := a
    dsimp only at ha ⊢
    apply Res.post_bind (hp r1 r1.id voteMsg true)
    intro b hb
    obtain ⟨r2, res⟩ := b
    dsimp only at hb ⊢
    split
    · exact ha.trans hb
    · exact Res.post_mono (sendVoteRequests_fp r2 ct voteMsg term)
        (fun x hx => (ha.trans hb).trans hx.toQ)

theorem campaignAfterPreVote_q (r : Raft) : Res.Post (fun x => Q r x) r.campaignAfterPreVote := by
  unfold campaignAfterPreVote
  exact campaignWith_q _ (fun r f t v => pollWith_q _ (by intro _; trivial) r f t v) r _

theorem poll_q (r : Raft) (frm : Nat) (t : MsgType) (vote : Bool) :
    Res.Post (fun x => Q r x.1) (r.poll frm t vote) := by
  unfold poll
  exact pollWith_q _ campaignAfterPreVote_q r frm t vote

theorem campaign_q (r : Raft) (ct : CampaignType) : Res.Post (fun x => Q r x) (r.campaign ct) := by
  unfold campaign
  exact campaignWith_q _ poll_q r ct

theorem hup_q (r : Raft) (b : Bool) : Res.Post (fun x => Q r x) (r.hup b) := by
  unfold hup
  split
  · exact Q.refl _
  · split
    · exact Q.refl _
    · split
      · trivial
      · trivial
      · exact Q.refl _
      · split
        · exact Q.refl _
        · split
          · exact campaign_q _ _
          · split <;> exact campaign_q _ _

theorem maybeCommitByVote_q (r : Raft) (m : Message) :
    Res.Post (fun x => Q r x) (r.maybeCommitByVote m) := by
  unfold maybeCommitByVote
  split
  · exact Q.refl _
  · dsimp only
    split
    · exact Q.refl _
    · split
      · trivial
      · trivial
      · exact Q.refl _
      · rename_i log hc
        have hf : Q r { r with raftLog := log } := (FrameP.of_log' (logMaybeCommit_pc hc)).toQ
        split
        · exact hf
        · split
          · trivial
          · trivial
          · exact hf.trans (becomeFollower_q _ _ _)
          · exact hf

/-! ### the follower side -/

theorem handleAppendEntries_q (r : Raft) (m : Message) :
    Res.Post (fun x => Q r x) (r.handleAppendEntries m) := by
  unfold handleAppendEntries
  split
  · exact Res.post_mono (sendRequestSnapshot_fp r) (fun x hx => hx.toQ)
  · rename_i hp
    have hp0 : r.pendingRequestSnapshot = 0 := Classical.byContradiction (fun hc => hp hc)
    split
    · exact Res.post_mono (send_fp r _) (fun x hx => Q.of_zero (hx.pend.trans hp0))
    · split
      · trivial
      · trivial
      · exact Res.post_mono (send_fp _ _) (fun x hx => Q.of_zero (hx.pend.trans hp0))
      · dsimp only
        split
        · trivial
        · trivial
        · trivial
        · exact Res.post_mono (send_fp _ _) (fun x hx => Q.of_zero (hx.pend.trans hp0))

theorem handleHeartbeat_fp (r : Raft) (m : Message) :
    Res.Post (fun x => FrameP r x) (r.handleHeartbeat m) := by
  unfold handleHeartbeat
  split
  · trivial
  · trivial
  · rename_i log hc
    have hf : FrameP r { r with raftLog := log } := FrameP.of_log' (logCommitTo_pc hc)
    dsimp only
    split
    · exact Res.post_mono (sendRequestSnapshot_fp _) (fun x hx => hf.trans hx)
    · exact Res.post_mono (send_fp _ _) (fun x hx => hf.trans hx)

theorem restore_q (r : Raft) (snap : Snapshot) : Res.Post (fun x => Q r x.1) (r.restore snap) := by
  unfold restore
  dsimp only
  split
  · exact Res.post_ok (Q.refl _)
  · split
    · split
      · trivial
      · exact Res.post_ok (becomeFollower_q _ _ _)
    · split
      · exact Res.post_ok (Q.refl _)
      · split
        · trivial
        · trivial
        · split
          · rename_i log hc
            exact Res.post_ok (FrameP.of_log' (logCommitTo_pc hc)).toQ
          · trivial
          · trivial
        · split
          · trivial
          · trivial
          · split
            · trivial
            · apply Res.post_bind (P := fun _ => True)
              · exact Res.post_intro (fun _ _ => trivial)
              · intro a _
                obtain ⟨r1, cs⟩ := a
                dsimp only
                split
                · trivial
                · split
                  · trivial
                  · split
                    · trivial
                    · apply Res.post_bind (P := fun _ => True)
                      · exact Res.post_intro (fun _ _ => trivial)
                      · intro b _
                        exact Res.post_ok (Q.of_zero rfl)

theorem handleSnapshot_q (r : Raft) (m : Message) :
    Res.Post (fun x => Q r x) (r.handleSnapshot m) := by
  unfold handleSnapshot
  apply Res.post_bind (restore_q r m.snapshot)
  intro a ha
  obtain ⟨r1, ok⟩ := a
  dsimp only at ha ⊢
  split
  · exact Res.post_mono (send_fp r1 _) (fun x hx => ha.trans hx.toQ)
  · exact Res.post_mono (send_fp r1 _) (fun x hx => ha.trans hx.toQ)

theorem stepCandidate_q (r : Raft) (m : Message) :
    Res.Post (fun x => Q r x.1) (r.stepCandidate m) := by
  unfold stepCandidate
  split
  · exact Res.post_ok (Q.refl _)
  · split
    · trivial
    · exact Res.post_bind (handleAppendEntries_q _ m) (fun a ha =>
        Q.trans (becomeFollower_q _ _ _) ha)
  · split
    · trivial
    · exact Res.post_bind (handleHeartbeat_fp _ m) (fun a ha =>
        Q.trans (becomeFollower_q _ _ _) ha.toQ)
  · split
    · trivial
    · exact Res.post_bind (handleSnapshot_q _ m) (fun a ha =>
        Q.trans (becomeFollower_q _ _ _) ha)
  · split
    · exact Res.post_ok (Q.refl _)
    · split
      · exact Res.post_ok (Q.refl _)
      · apply Res.post_bind (poll_q r _ _ _)
        intro a ha
        exact Res.post_bind (maybeCommitByVote_q a.1 m) (fun b hb => Q.trans ha hb)
  · split
    · exact Res.post_ok (Q.refl _)
    · split
      · exact Res.post_ok (Q.refl _)
      · apply Res.post_bind (poll_q r _ _ _)
        intro a ha
        exact Res.post_bind (maybeCommitByVote_q a.1 m) (fun b hb => Q.trans ha hb)
  · exact Res.post_ok (Q.refl _)

theorem stepFollower_q (r : Raft) (m : Message) :
    Res.Post (fun x => Q r x.1) (r.stepFollower m) := by
  unfold stepFollower
  split
  · split
    · exact Res.post_ok (Q.refl _)
    · split
      · exact Res.post_ok (Q.refl _)
      · exact Res.post_bind (send_fp r _) (fun a ha => ha.toQ)
  · exact Res.post_bind (handleAppendEntries_q _ m) (fun a ha =>
      Q.trans (Q.of_same rfl rfl rfl) ha)
  · exact Res.post_bind (handleHeartbeat_fp _ m) (fun a ha =>
      Q.trans (Q.of_same rfl rfl rfl) ha.toQ)
  · exact Res.post_bind (handleSnapshot_q _ m) (fun a ha => Q.trans (Q.of_same rfl rfl rfl) ha)
  · split
    · exact Res.post_ok (Q.refl _)
    · exact Res.post_bind (send_fp r _) (fun a ha => ha.toQ)
  · split
    · exact Res.post_bind (hup_q r true) (fun a ha => ha)
    · exact Res.post_ok (Q.refl _)
  · split
    · exact Res.post_ok (Q.refl _)
    · exact Res.post_bind (send_fp r _) (fun a ha => ha.toQ)
  · split
    · dsimp only
      split
      · rename_i log b hc
        exact Res.post_ok (Q.trans (Q.of_same rfl rfl rfl)
          (FrameP.of_log' (r := { r with readStates := _ }) (logMaybeCommit_pc hc)).toQ)
      · trivial
      · trivial
    · exact Res.post_ok (Q.refl _)
  · exact Res.post_ok (Q.refl _)

theorem stepTerm_q (r : Raft) (m : Message) : Res.Post (fun x => Q r x.1) (r.stepTerm m) := by
  unfold stepTerm
  split
  · exact Res.post_ok (Q.refl _)
  · split
    · dsimp only
      split
      · exact Res.post_ok (Q.refl _)
      · split
        · exact Res.post_ok (Q.refl _)
        · split
          · exact Res.post_ok (becomeFollower_q _ _ _)
          · exact Res.post_ok (becomeFollower_q _ _ _)
    · split
      · split
        · split
          · rename_i r1 heq
            exact Res.post_ok (Res.Post.of_eq (P := fun x => FrameP r x) (send_fp r _) heq).toQ
          · trivial
          · trivial
        · split
          · split
            · rename_i r1 heq
              exact Res.post_ok (Res.Post.of_eq (P := fun x => FrameP r x) (send_fp r _) heq).toQ
            · trivial
            · trivial
          · exact Res.post_ok (Q.refl _)
      · exact Res.post_ok (Q.refl _)

theorem stepVote_q (r : Raft) (m : Message) : Res.Post (fun x => Q r x) (r.stepVote m) := by
  unfold stepVote
  split
  · trivial
  · rename_i respType hrt
    split
    · unfold stepVoteGrant
      split
      · rename_i r1 heq
        have h1 := (Res.Post.of_eq (P := fun x => FrameP r x) (send_fp r _) heq).toQ
        split
        · exact Res.post_ok (Q.trans h1 (Q.of_same rfl rfl rfl))
        · exact Res.post_ok h1
      · trivial
      · trivial
    · unfold stepVoteReject
      split
      · trivial
      · trivial
      · split
        · rename_i r1 heq
          have h1 := (Res.Post.of_eq (P := fun x => FrameP r x) (send_fp r _) heq).toQ
          split
          · exact Res.post_mono (maybeCommitByVote_q r1 m) (fun x hx => Q.trans h1 hx)
          · exact Res.post_ok h1
        · trivial
        · trivial
    · trivial
    · trivial

/-! ### the leader side -/

theorem handleAppendResponseAccepted_fp (r : Raft) (m : Message) (pr : Progress) (op : Bool) :
    Res.Post (fun r' => FrameP r r') (r.handleAppendResponseAccepted m pr op) := by
  unfold handleAppendResponseAccepted
  apply Res.post_bind (P := fun _ => True)
  · split <;> try trivial
    split <;> trivial
  · intro pr1 _
    dsimp only
    have h0 : FrameP r { r with prs := r.prs.set m.frm pr1 } := set_fp r m.frm pr1
    apply Res.post_bind (P := fun x => FrameP r x)
    · split
      · rename_i r1 heq
        have h1 : FrameP _ r1 := Res.Post.of_eq (P := fun x => FrameP _ x.1) (maybeCommit_fp _) heq
        split
        · exact Res.post_mono (bcastAppend_fp r1) (fun a ha => (h0.trans h1).trans ha)
        · exact h0.trans h1
      · rename_i r1 heq
        have h1 : FrameP _ r1 := Res.Post.of_eq (P := fun x => FrameP _ x.1) (maybeCommit_fp _) heq
        split
        · exact Res.post_mono (sendAppend_fp r1 m.frm) (fun a ha => (h0.trans h1).trans ha)
        · exact h0.trans h1
      · trivial
      · trivial
    · intro r1 h1
      apply Res.post_bind (P := fun x => FrameP r x)
      · exact Res.post_mono (sendAppendAggressively_fp r1 m.frm) (fun a ha => h1.trans ha)
      · intro r2 h2
        split
        · split
          · trivial
          · split
            · exact Res.post_mono (sendTimeoutNow_fp r2 m.frm) (fun a ha => h2.trans ha)
            · exact h2
        · exact h2

theorem handleAppendResponse_fp (r : Raft) (m : Message) :
    Res.Post (fun r' => FrameP r r') (r.handleAppendResponse m) := by
  unfold handleAppendResponse
  apply Res.post_bind (P := fun _ => True)
  · split
    · split <;> trivial
    · trivial
  · intro npi _
    split
    · exact Res.post_ok (FrameP.refl _)
    · dsimp only
      split
      · split
        · trivial
        · trivial
        · exact Res.post_mono (sendAppend_fp _ m.frm)
            (fun a ha => ((set_fp r m.frm _).trans ha))
        · exact Res.post_ok (set_fp r m.frm _)
      · split
        · trivial
        · trivial
        · exact Res.post_ok (set_fp r m.frm _)
        · exact handleAppendResponseAccepted_fp r m _ _

theorem transferStart_fp (r0 r : Raft) (x : Nat) (h0 : FrameP r0 r) :
    Res.Post (fun a => FrameP r0 a) (transferStart r x) := by
  unfold transferStart
  split
  · exact Res.post_ok h0
  · dsimp only
    have h1 : FrameP r0 { r with electionElapsed := 0, leadTransferee := some x } :=
      h0.trans (by simp [FrameP, pcore])
    split
    · trivial
    · split
      · exact Res.post_mono (sendTimeoutNow_fp _ x) (fun a ha => h1.trans ha)
      · exact Res.post_bind (sendAppendPr_fp _ x _) (fun a ha => by
          simp only [Res.Post]; exact (h1.trans ha).trans (set_fp _ _ _))

theorem handleTransferLeader_fp (r : Raft) (m : Message) :
    Res.Post (fun a => FrameP r a) (r.handleTransferLeader m) := by
  rw [handleTransferLeader_eq]
  split
  · exact Res.post_ok (FrameP.refl _)
  · split
    · exact Res.post_ok (FrameP.refl _)
    · split
      · split
        · exact Res.post_ok (FrameP.refl _)
        · exact transferStart_fp r _ _ (by simp [FrameP, pcore, abortLeaderTransfer])
      · exact transferStart_fp r _ _ (FrameP.refl _)

/-- `step_leader` on a leader -/
theorem stepLeader_q (r : Raft) (m : Message) (hs : r.state = .leader) :
    Res.Post (fun x => Q r x.1) (r.stepLeader m) := by
  unfold stepLeader
  split
  · -- MsgBeat
    exact Res.post_bind (bcastHeartbeat_fp r) (fun a ha => ha.toQ)
  · -- MsgCheckQuorum
    have hq := checkQuorumActive_fp r
    split
    rename_i r1 active heq
    rw [heq] at hq
    split
    · exact Res.post_ok (hq.toQ.trans (becomeFollower_q _ _ _))
    · exact hq.toQ
  · -- MsgPropose
    split
    · trivial
    · split
      · exact Res.post_ok (Q.refl _)
      · split
        · exact Res.post_ok (Q.refl _)
        · have hf := filterProposal_fp m.entries r 0
          split
          · rename_i r1 heq
            rw [heq] at hf; exact hf.toQ
          · rename_i r1 es heq
            rw [heq] at hf
            have hs1 : r1.state = .leader := hf.state.trans hs
            split
            · rename_i r2 heq2
              exact hf.toQ.trans (Res.Post.of_eq (P := fun x => Q r1 x.1) (appendEntry_q r1 es hs1) heq2)
            · rename_i r2 heq2
              have h3 : Q r1 r2 :=
                Res.Post.of_eq (P := fun x => Q r1 x.1) (appendEntry_q r1 es hs1) heq2
              exact Res.post_bind (bcastAppend_fp r2) (fun a ha => (hf.toQ.trans h3).trans ha.toQ)
            · trivial
            · trivial
  · -- MsgReadIndex
    have hans : ∀ r0 : Raft, FrameP r r0 → Res.Post (fun x => Q r x.1)
        ((r0.handleReadyReadIndex m r0.raftLog.committed).bind (fun (r, om) =>
          match om with
          | some m' => (r.send m').bind (fun r => .ok (r, none))
          | none => .ok (r, (none : Option RaftError)))) := by
      intro r0 h0
      apply Res.post_bind (handleReadyReadIndex_fp r0 m _)
      intro a ha
      obtain ⟨r1, om⟩ := a
      dsimp only at ha ⊢
      split
      · rename_i m'
        exact Res.post_bind (send_fp r1 m') (fun x hx => ((h0.trans ha).trans hx).toQ)
      · exact (h0.trans ha).toQ
    split
    · trivial
    · trivial
    · exact Res.post_ok (Q.refl _)
    · dsimp only
      split
      · exact hans r (FrameP.refl r)
      · split
        · split
          · trivial
          · apply Res.post_bind (P := fun _ => True)
            · exact Res.post_intro (fun _ _ => trivial)
            · intro ro _
              exact Res.post_bind (bcastHeartbeatWithCtx_fp _ _) (fun a ha =>
                (FrameP.trans (by simp [FrameP, pcore]) ha).toQ)
        · exact hans r (FrameP.refl r)
  · exact Res.post_bind (handleAppendResponse_fp r m) (fun a ha => ha.toQ)
  · exact Res.post_bind (handleHeartbeatResponse_fp r m) (fun a ha => ha.toQ)
  · exact (handleSnapshotStatus_fp r m).toQ
  · exact (handleUnreachable_fp r m).toQ
  · exact Res.post_bind (handleTransferLeader_fp r m) (fun a ha => ha.toQ)
  · exact Res.post_ok (Q.refl _)

/-- **`Raft::step`, every state and message**: the pending snapshot request is dropped, or kept by a
node whose log does not grow and that does not become leader -/
theorem step_q (r : Raft) (m : Message) : Res.Post (fun x => Q r x.1) (r.step m) := by
  unfold step
  split
  · trivial
  · trivial
  · rename_i r1 heq
    exact Res.post_ok (Res.Post.of_eq (P := fun x => Q r x.1) (stepTerm_q r m) heq)
  · rename_i r1 heq
    have ht : Q r r1 := Res.Post.of_eq (P := fun x => Q r x.1) (stepTerm_q r m) heq
    split
    · exact Res.post_bind (hup_q r1 false) (fun a ha => ht.trans ha)
    · split
      · rename_i r2 hv
        exact Res.post_ok (ht.trans (Res.Post.of_eq (P := fun x => Q r1 x) (stepVote_q r1 m) hv))
      · trivial
      · trivial
    · split
      · rename_i r2 hv
        exact Res.post_ok (ht.trans (Res.Post.of_eq (P := fun x => Q r1 x) (stepVote_q r1 m) hv))
      · trivial
      · trivial
    · split
      · exact Res.post_mono (stepCandidate_q r1 m) (fun a ha => ht.trans ha)
      · exact Res.post_mono (stepCandidate_q r1 m) (fun a ha => ht.trans ha)
      · exact Res.post_mono (stepFollower_q r1 m) (fun a ha => ht.trans ha)
      · rename_i hl
        exact Res.post_mono (stepLeader_q r1 m hl) (fun a ha => ht.trans ha)

theorem stepIgnore_q (r : Raft) (m : Message) : Res.Post (fun x => Q r x) (r.stepIgnore m) := by
  unfold stepIgnore
  exact Res.post_bind (step_q r m) (fun a ha => Res.post_ok ha)

/-- a tick (`tick_election` or `tick_heartbeat`) -/
theorem tick_q (r : Raft) : Res.Post (fun x => Q r x.1) r.tick := by
  have hE : Res.Post (fun x => Q r x.1) r.tickElection := by
    unfold tickElection
    dsimp only
    split
    · exact Res.post_ok (Q.of_same rfl rfl rfl)
    · apply Res.post_bind (stepIgnore_q _ _)
      intro a ha
      exact Res.post_ok (Q.trans (Q.of_same rfl rfl rfl) ha)
  have hH : Res.Post (fun x => Q r x.1) r.tickHeartbeat := by
    unfold tickHeartbeat
    dsimp only
    apply Res.post_bind (P := fun x => Q r x.1)
    · split
      · apply Res.post_bind (P := fun x => Q r x.1)
        · split
          · apply Res.post_bind (stepIgnore_q _ _)
            intro a ha
            exact Res.post_ok (Q.trans (Q.of_same rfl rfl rfl) ha)
          · exact Res.post_ok (Q.of_same rfl rfl rfl)
        · intro a ha
          split
          · exact Res.post_ok (ha.trans (Q.of_same rfl rfl rfl))
          · exact Res.post_ok ha
      · exact Res.post_ok (Q.of_same rfl rfl rfl)
    · intro a ha
      split
      · exact Res.post_ok ha
      · split
        · apply Res.post_bind (stepIgnore_q _ _)
          intro b hb
          exact Res.post_ok (ha.trans (Q.trans (Q.of_same rfl rfl rfl) hb))
        · exact Res.post_ok ha
  unfold tick
  split <;> assumption

end RQ
end Raft
end RaftModel
