import RaftProofs.ClusterCommit2M

/-!
Cluster-level commit safety, part 2N: **why the commit index of one call moved** (`call_src`): it never
decreases; if it grew, the node is the leader after the call, or the call delivered a message that
carries the evidence (`CommitEvidence`, checked against a state holding the logical log of the start
state).
-/
namespace RaftModel
namespace Raft
namespace CC
open Node CV RaftProps.C04

/-- message types that carry no commit evidence and are not an append response -/
def quietTy (t : MsgType) : Prop :=
  t ≠ .msgAppend ∧ t ≠ .msgHeartbeat ∧ t ≠ .msgSnapshot ∧ isVoteMsg t = false ∧
  t ≠ .msgReadIndexResp ∧ t ≠ .msgAppendResponse

theorem step_quiet_ceq {r r' : Raft} {m : Message} {e : Option RaftError} (hq : quietTy m.msgType)
    (h : r.step m = .ok (r', e)) : r'.raftLog.committed = r.raftLog.committed := by
  rcases C04_step_commit_sources r r' m e h with c | ⟨_, r1, _, ⟨_, c, _⟩ | ⟨_, ev⟩⟩
  · exact c
  · exact absurd c hq.2.2.2.2.2
  · cases ev with
    | append ht _ _ => exact absurd ht hq.1
    | heartbeat ht _ _ => exact absurd ht hq.2.1
    | snapshot ht _ => exact absurd ht hq.2.2.1
    | byVote ht _ _ _ _ => rw [hq.2.2.2.1] at ht; cases ht
    | readIndexResp ht _ _ _ => exact absurd ht hq.2.2.2.2.1

theorem stepIgnore_quiet_ceq {r r' : Raft} {m : Message} (hq : quietTy m.msgType)
    (h : r.stepIgnore m = .ok r') : r'.raftLog.committed = r.raftLog.committed := by
  unfold Raft.stepIgnore at h
  obtain ⟨⟨r1, e⟩, hs, h⟩ := Res.bind_eq_ok h
  cases h
  exact step_quiet_ceq hq hs

theorem quiet_of {t : MsgType} (h1 : t ≠ .msgAppend) (h2 : t ≠ .msgHeartbeat)
    (h3 : t ≠ .msgSnapshot) (h4 : isVoteMsg t = false) (h5 : t ≠ .msgReadIndexResp)
    (h6 : t ≠ .msgAppendResponse) : quietTy t := ⟨h1, h2, h3, h4, h5, h6⟩

/-- `tick` never moves the commit index -/
theorem tick_ceq {r r' : Raft} {b : Bool} (h : r.tick = .ok (r', b)) :
    r'.raftLog.committed = r.raftLog.committed := by
  have qh : ∀ x : Option Nat, quietTy (newMessage 0 .msgHup x).msgType := fun _ =>
    quiet_of (by intro hc; cases hc) (by intro hc; cases hc) (by intro hc; cases hc) rfl
      (by intro hc; cases hc) (by intro hc; cases hc)
  have qc : ∀ x : Option Nat, quietTy (newMessage 0 .msgCheckQuorum x).msgType := fun _ =>
    quiet_of (by intro hc; cases hc) (by intro hc; cases hc) (by intro hc; cases hc) rfl
      (by intro hc; cases hc) (by intro hc; cases hc)
  have qb : ∀ x : Option Nat, quietTy (newMessage 0 .msgBeat x).msgType := fun _ =>
    quiet_of (by intro hc; cases hc) (by intro hc; cases hc) (by intro hc; cases hc) rfl
      (by intro hc; cases hc) (by intro hc; cases hc)
  by_cases hs : r.state = .leader
  · unfold Raft.tick at h
    rw [hs] at h
    simp only at h
    unfold Raft.tickHeartbeat at h
    simp only at h
    obtain ⟨⟨r1, b1⟩, h1, h⟩ := Res.bind_eq_ok h
    have hl1 : r1.raftLog.committed = r.raftLog.committed := by
      split at h1
      · obtain ⟨⟨r2, b2⟩, h2, h1⟩ := Res.bind_eq_ok h1
        have hl2 : r2.raftLog.committed = r.raftLog.committed := by
          split at h2
          · obtain ⟨r3, h3, h2⟩ := Res.bind_eq_ok h2
            cases h2
            have := stepIgnore_quiet_ceq (qc _) h3
            exact this
          · cases h2; rfl
        simp only at h1
        split at h1
        · cases h1; exact hl2
        · cases h1; exact hl2
      · cases h1; rfl
    simp only at h
    split at h
    · cases h; exact hl1
    · split at h
      · obtain ⟨r3, h3, h⟩ := Res.bind_eq_ok h
        cases h
        have := stepIgnore_quiet_ceq (qb _) h3
        exact this.trans hl1
      · cases h; exact hl1
  · have hel : r.tickElection = .ok (r', b) := by
      unfold Raft.tick at h
      cases hst : r.state <;> rw [hst] at h <;> first | exact h | exact absurd hst hs
    unfold Raft.tickElection at hel
    simp only at hel
    split at hel
    · cases hel; rfl
    · obtain ⟨r3, h3, hel⟩ := Res.bind_eq_ok hel
      cases hel
      have := stepIgnore_quiet_ceq (qh _) h3
      exact this

/-- `on_persist_entries` on a node that is not the leader keeps the commit index -/
theorem onPersistEntries_nl {r r' : Raft} {i t : Nat} (hs : r.state ≠ .leader)
    (h : r.onPersistEntries i t = .ok r') : r'.raftLog.committed = r.raftLog.committed := by
  unfold Raft.onPersistEntries at h
  split at h
  · cases h
  · cases h
  · rename_i log upd hp
    have hlog : log.committed = r.raftLog.committed := by
      unfold RaftLog.maybePersist at hp
      frame_dec hp <;> rfl
    simp only [] at h
    rw [if_neg (by intro hc; exact hs hc.2)] at h
    cases h
    exact hlog

theorem postConfChange_nl {r r' : Raft} {cs : ConfState} (hs : r.state ≠ .leader)
    (h : r.postConfChange = .ok (r', cs)) : r'.raftLog.committed = r.raftLog.committed := by
  unfold Raft.postConfChange at h
  simp only at h
  have hb : (r.state == StateRole.leader) = false := by
    cases hst : r.state <;> first | rfl | exact absurd hst hs
  split at h
  · rename_i hc
    simp [hb] at hc
  · rw [if_pos (.inl hs)] at h
    cases h; rfl

theorem applyConfChange_nl {r r' : Raft} {cc : ConfChangeV2} {res : Except ErrKind ConfState}
    (hs : r.state ≠ .leader) (h : r.applyConfChange cc = .ok (r', res)) :
    r'.raftLog.committed = r.raftLog.committed := by
  unfold Raft.applyConfChange at h
  simp only at h
  split at h
  · cases h; rfl
  · obtain ⟨⟨r1, cs⟩, h1, h⟩ := Res.bind_eq_ok h
    cases h
    have := postConfChange_nl ?_ h1
    · exact this
    · exact hs

theorem enableGroupCommit_nl {r r' : Raft} {b : Bool} (hs : r.state ≠ .leader)
    (h : r.enableGroupCommit b = .ok r') : r'.raftLog.committed = r.raftLog.committed := by
  unfold Raft.enableGroupCommit at h
  simp only at h
  rw [if_neg (by intro hc; exact hs hc.1)] at h
  cases h; rfl

theorem assignCommitGroups_nl {r r' : Raft} {ids : List (Nat × Nat)} (hs : r.state ≠ .leader)
    (h : r.assignCommitGroups ids = .ok r') : r'.raftLog.committed = r.raftLog.committed := by
  unfold Raft.assignCommitGroups at h
  simp only at h
  obtain ⟨r1, h1, h⟩ := Res.bind_eq_ok h
  have key : ∀ (ids : List (Nat × Nat)) (acc : Res Raft) (r1 : Raft),
      (∀ x, acc = .ok x → x.raftLog.committed = r.raftLog.committed ∧ x.state ≠ .leader) →
      ids.foldl (fun (acc : Res Raft) (p : Nat × Nat) =>
        acc.bind (fun r =>
          if p.2 = 0 then .panic "raft.assign_commit_groups.assert"
          else .ok (r.modifyProgress p.1 (fun pr => { pr with commitGroupId := p.2 })))) acc
        = .ok r1 →
      r1.raftLog.committed = r.raftLog.committed ∧ r1.state ≠ .leader := by
    intro ids
    induction ids with
    | nil => intro acc r1 hacc hf; exact hacc r1 hf
    | cons p ps ih =>
      intro acc r1 hacc hf
      rw [List.foldl_cons] at hf
      refine ih _ r1 ?_ hf
      intro x hx
      obtain ⟨y, hy, hx⟩ := Res.bind_eq_ok hx
      split at hx
      · cases hx
      · cases hx
        have := hacc y hy
        exact this
  obtain ⟨k1, k2⟩ := key ids (.ok r) r1 (fun x hx => by cases hx; exact ⟨rfl, hs⟩) h1
  rw [if_neg (by intro hc; exact k2 hc.1)] at h
  cases h
  exact k1

end CC
end Raft
end RaftModel
