import RaftProofs.RaftNode

/-!
Frame lemmas about the node model (`RaftModel.Raft*`) used by `RaftProps.C16`: which functions of
`src/raft.rs` leave `term`, `vote`, `state`, `leader_id` (and the configuration flags) untouched.
-/
namespace RaftModel

theorem Res.bind_eq_ok {α β : Type} {x : Res α} {f : α → Res β} {b : β}
    (h : x.bind f = .ok b) : ∃ a, x = .ok a ∧ f a = .ok b := by
  cases x with
  | ok a => exact ⟨a, rfl, h⟩
  | err e => cases h
  | panic s => cases h

theorem Res.bind_eq_ok_iff {α β : Type} {x : Res α} {f : α → Res β} {b : β} :
    x.bind f = .ok b ↔ ∃ a, x = .ok a ∧ f a = .ok b := by
  constructor
  · exact Res.bind_eq_ok
  · rintro ⟨a, rfl, h⟩; exact h

theorem ite_eq_iff_or {α : Type} {c : Prop} [Decidable c] {x y z : α} :
    (if c then x else y) = z ↔ (c ∧ x = z) ∨ (¬ c ∧ y = z) := by
  by_cases hc : c <;> simp [hc]

namespace Raft

/-- the part of the node state that the property C16 talks about: `term`, `vote`, role, known
leader, and the static identity / configuration flags -/
structure Frame (r r' : Raft) : Prop where
  term : r'.term = r.term
  vote : r'.vote = r.vote
  state : r'.state = r.state
  leaderId : r'.leaderId = r.leaderId
  id : r'.id = r.id
  checkQuorum : r'.checkQuorum = r.checkQuorum
  preVote : r'.preVote = r.preVote

theorem Frame.rfl {r : Raft} : Frame r r := ⟨Eq.refl _, Eq.refl _, Eq.refl _, Eq.refl _, Eq.refl _, Eq.refl _, Eq.refl _⟩

theorem Frame.trans {a b c : Raft} (h1 : Frame a b) (h2 : Frame b c) : Frame a c :=
  ⟨h2.term.trans h1.term, h2.vote.trans h1.vote, h2.state.trans h1.state,
   h2.leaderId.trans h1.leaderId, h2.id.trans h1.id, h2.checkQuorum.trans h1.checkQuorum,
   h2.preVote.trans h1.preVote⟩

theorem Frame.upd {a r r' : Raft} (h : Frame r r') (h0 : Frame a r) : Frame a r' := h0.trans h

/-- any structure update of the fields outside the frame keeps the frame -/
theorem Frame.mk' {a r : Raft} {x4 : List ReadState} {x5 : RaftLog} {x6 x7 x8 : Nat} {x10 : Bool}
    {x12 : Option Nat} {x13 : Nat} {x14 : ReadOnly} {x15 x16 : Nat} {x19 x20 x21 : Bool}
    {x22 x23 x24 x25 x26 : Nat} {x27 : Int} {x28 : UncommittedState} {x29 : Nat}
    {x30 : ProgressTracker} {x31 : List Message} {x32 : Option Nat} (h0 : Frame a r) :
    Frame a { term := r.term, vote := r.vote, id := r.id, readStates := x4, raftLog := x5,
              maxInflight := x6, maxMsgSize := x7, pendingRequestSnapshot := x8, state := r.state,
              promotable := x10, leaderId := r.leaderId, leadTransferee := x12,
              pendingConfIndex := x13, readOnly := x14, electionElapsed := x15,
              heartbeatElapsed := x16, checkQuorum := r.checkQuorum, preVote := r.preVote,
              skipBcastCommit := x19, batchAppend := x20, disableProposalForwarding := x21,
              heartbeatTimeout := x22, electionTimeout := x23, randomizedElectionTimeout := x24,
              minElectionTimeout := x25, maxElectionTimeout := x26, priority := x27,
              uncommittedState := x28, maxCommittedSizePerReady := x29, prs := x30, msgs := x31,
              nextRand := x32 } :=
  h0.trans ⟨Eq.refl _, Eq.refl _, Eq.refl _, Eq.refl _, Eq.refl _, Eq.refl _, Eq.refl _⟩

/-- closes `Frame r r'` when `r'` is (after `cases h`) a structure update of `r` on other fields -/
macro "frame_triv" : tactic =>
  `(tactic| first
    | exact Frame.rfl
    | exact ⟨Eq.refl _, Eq.refl _, Eq.refl _, Eq.refl _, Eq.refl _, Eq.refl _, Eq.refl _⟩)

/-- split the hypothesis `h : f … = .ok …` along every `if` / `match` of the unfolded body and close
the branches that end in a plain structure update (or are impossible) -/
macro "frame_split" h:ident : tactic =>
  `(tactic| ((repeat' (first | split at $h:ident | (simp only at $h:ident; split at $h:ident))) <;>
      (try (first | (cases $h:ident; done) | (cases $h:ident; frame_triv)))))

/-- decompose `h : f … = .ok …` recursively: case-split every `if` / `match`, turn `x.bind f = .ok b`
into `x = .ok a` and `f a = .ok b` (decomposing both), discard impossible branches and substitute
`.ok a = .ok b` -/
syntax "frame_dec " ident : tactic
macro_rules
  | `(tactic| frame_dec $h:ident) => `(tactic|
      first
      | (split at $h:ident <;> frame_dec $h:ident)
      | (rw [Res.bind_eq_ok_iff] at $h:ident; refine Exists.elim $h:ident ?_; clear $h:ident;
         intro _ hx; refine And.elim ?_ hx; clear hx; intro hx $h:ident;
         (frame_dec hx <;> frame_dec $h:ident))
      | (simp only at $h:ident; split at $h:ident <;> frame_dec $h:ident)
      | (rw [ite_eq_iff_or] at $h:ident; refine Or.elim $h:ident ?_ ?_ <;> clear $h:ident <;>
         intro hx <;> refine And.elim ?_ hx <;> clear hx <;> intro _ $h:ident <;> frame_dec $h:ident)
      | (cases $h:ident; done)
      | (cases $h:ident)
      | skip)

macro "frame_pre" h:ident : tactic =>
  `(tactic| (frame_dec $h:ident <;> (iterate 2 (try (apply Frame.mk')))))

/-- `frame_pre`, then chaining the anchored frame lemmas given in the list over the hypotheses
collected on the way -/
macro "frame_auto" h:ident "[" ls:Lean.Parser.Tactic.SolveByElim.arg,* "]" : tactic =>
  `(tactic| (frame_pre $h:ident <;> (solve_by_elim (maxDepth := 14) [Frame.rfl, $ls,*, Frame.mk'])))

/-! Every lemma below is *anchored*: from `Frame a r` and `f r = .ok r'` conclude `Frame a r'`, so that
`solve_by_elim` can chain them backwards from the final state without a free transitivity rule. -/

theorem send_frame {a r r' : Raft} {m : Message} (h : r.send m = .ok r') (h0 : Frame a r) :
    Frame a r' := by
  rw [send_eq r r' m h]; exact h0.trans (by frame_triv)

theorem prepareSendSnapshot_frame {a r r' : Raft} {m m' : Message} {pr pr' : Progress} {to : Nat}
    {b : Bool} (h : r.prepareSendSnapshot m pr to = .ok (r', m', pr', b)) (h0 : Frame a r) :
    Frame a r' := by
  refine h0.trans ?_
  unfold Raft.prepareSendSnapshot at h
  frame_split h

theorem tryBatching_frame {a r r' : Raft} {to : Nat} {pr pr' : Progress} {ents : List Entry} {b : Bool}
    (h : r.tryBatching to pr ents = .ok (r', pr', b)) (h0 : Frame a r) : Frame a r' := by
  refine h0.trans ?_
  unfold Raft.tryBatching at h
  frame_split h

theorem maybeSendAppend_frame {a r r' : Raft} {to : Nat} {pr pr' : Progress} {ae b : Bool}
    (h : r.maybeSendAppend to pr ae = .ok (r', pr', b)) (h0 : Frame a r) : Frame a r' := by
  refine h0.trans ?_
  unfold Raft.maybeSendAppend at h
  frame_auto h [send_frame, prepareSendSnapshot_frame, tryBatching_frame]

theorem sendAppendPr_frame {a r r' : Raft} {to : Nat} {pr pr' : Progress}
    (h : r.sendAppendPr to pr = .ok (r', pr')) (h0 : Frame a r) : Frame a r' := by
  unfold Raft.sendAppendPr at h
  frame_auto h [maybeSendAppend_frame]

theorem sendAppendAggressivelyPr_frame {a r' : Raft} {to : Nat} {pr' : Progress} :
    ∀ (fuel : Nat) (r : Raft) (pr : Progress),
      sendAppendAggressivelyPr fuel r to pr = .ok (r', pr') → Frame a r → Frame a r' := by
  intro fuel
  induction fuel with
  | zero => intro r pr h; simp [sendAppendAggressivelyPr] at h
  | succ n ih =>
    intro r pr h h0
    unfold sendAppendAggressivelyPr at h
    split at h
    · rename_i r1 pr1 hm
      exact ih r1 pr1 h (maybeSendAppend_frame hm h0)
    · rename_i r1 pr1 hm
      cases h; exact maybeSendAppend_frame hm h0
    · cases h
    · cases h

theorem sendHeartbeat_frame {a r r' : Raft} {to : Nat} {pr : Progress} {ctx : Option Bytes}
    (h : r.sendHeartbeat to pr ctx = .ok r') (h0 : Frame a r) : Frame a r' := by
  unfold Raft.sendHeartbeat at h
  exact send_frame h h0

theorem sendAppend_frame {a r r' : Raft} {to : Nat}
    (h : r.sendAppend to = .ok r') (h0 : Frame a r) : Frame a r' := by
  unfold Raft.sendAppend at h
  frame_auto h [sendAppendPr_frame]

theorem sendAppendAggressively_frame {a r r' : Raft} {to : Nat}
    (h : r.sendAppendAggressively to = .ok r') (h0 : Frame a r) : Frame a r' := by
  unfold Raft.sendAppendAggressively at h
  frame_auto h [sendAppendAggressivelyPr_frame]

theorem sendTimeoutNow_frame {a r r' : Raft} {to : Nat}
    (h : r.sendTimeoutNow to = .ok r') (h0 : Frame a r) : Frame a r' := by
  unfold Raft.sendTimeoutNow at h
  exact send_frame h h0

/-- folding a frame-preserving step over a list, in the `Res` monad -/
theorem foldl_frame {α : Type} {a r' : Raft} (step : Res Raft → α → Res Raft)
    (hstep : ∀ acc x r1, step acc x = .ok r1 → ∃ r0, acc = .ok r0 ∧ (Frame a r0 → Frame a r1)) :
    ∀ (l : List α) (acc : Res Raft), l.foldl step acc = .ok r' →
      (∀ r, acc = .ok r → Frame a r) → Frame a r' := by
  intro l
  induction l with
  | nil => intro acc h h0; exact h0 r' h
  | cons x rest ih =>
    intro acc h h0
    simp only [List.foldl_cons] at h
    refine ih (step acc x) h ?_
    intro r1 h1
    obtain ⟨r0, e0, hf⟩ := hstep acc x r1 h1
    exact hf (h0 r0 e0)

theorem forEachPeer_frame {a r r' : Raft} {f : Raft → Nat → Progress → Res (Raft × Progress)}
    (hf : ∀ r id pr r' pr', f r id pr = .ok (r', pr') → Frame a r → Frame a r')
    (h : r.forEachPeer f = .ok r') (h0 : Frame a r) : Frame a r' := by
  unfold Raft.forEachPeer at h
  refine foldl_frame _ ?_ _ _ h (by intro r1 e; cases e; exact h0)
  intro acc id r1 h1
  cases acc with
  | err e => cases h1
  | panic s => cases h1
  | ok r0 =>
    refine ⟨r0, rfl, fun h0 => ?_⟩
    change (if id = r0.id then Res.ok r0 else _) = _ at h1
    frame_auto h1 [hf]

theorem bcastAppend_frame {a r r' : Raft} (h : r.bcastAppend = .ok r') (h0 : Frame a r) :
    Frame a r' := by
  unfold Raft.bcastAppend at h
  exact forEachPeer_frame (fun r id pr r' pr' h => sendAppendPr_frame h) h h0

theorem bcastHeartbeatWithCtx_frame {a r r' : Raft} {ctx : Option Bytes}
    (h : r.bcastHeartbeatWithCtx ctx = .ok r') (h0 : Frame a r) : Frame a r' := by
  unfold Raft.bcastHeartbeatWithCtx at h
  refine forEachPeer_frame (fun r id pr r' pr' h h0 => ?_) h h0
  frame_auto h [sendHeartbeat_frame]

theorem bcastHeartbeat_frame {a r r' : Raft} (h : r.bcastHeartbeat = .ok r') (h0 : Frame a r) :
    Frame a r' := by
  unfold Raft.bcastHeartbeat at h
  exact bcastHeartbeatWithCtx_frame h h0

theorem maybeCommit_frame {a r r' : Raft} {b : Bool} (h : r.maybeCommit = .ok (r', b))
    (h0 : Frame a r) : Frame a r' := by
  unfold Raft.maybeCommit at h
  simp only [Raft.modifyProgress] at h
  frame_auto h [send_frame]

theorem maybeIncreaseUncommittedSize_frame {a r r' : Raft} {es : List Entry} {b : Bool}
    (h : r.maybeIncreaseUncommittedSize es = (r', b)) (h0 : Frame a r) : Frame a r' := by
  unfold Raft.maybeIncreaseUncommittedSize at h
  split at h
  cases h
  exact Frame.mk' h0

theorem appendEntry_frame {a r r' : Raft} {es : List Entry} {b : Bool}
    (h : r.appendEntry es = .ok (r', b)) (h0 : Frame a r) : Frame a r' := by
  unfold Raft.appendEntry at h
  frame_auto h [maybeIncreaseUncommittedSize_frame]

theorem handleReadyReadIndex_frame {a r r' : Raft} {req : Message} {i : Nat} {om : Option Message}
    (h : r.handleReadyReadIndex req i = .ok (r', om)) (h0 : Frame a r) : Frame a r' := by
  unfold Raft.handleReadyReadIndex at h
  frame_auto h [send_frame]

theorem respondReadStates_frame {a r r' : Raft} {rss : List ReadIndexStatus}
    (h : r.respondReadStates rss = .ok r') (h0 : Frame a r) : Frame a r' := by
  unfold Raft.respondReadStates at h
  refine foldl_frame _ ?_ _ _ h (by intro r1 e; cases e; exact h0)
  intro acc rs r1 h1
  cases acc with
  | err e => cases h1
  | panic s => cases h1
  | ok r0 =>
    refine ⟨r0, rfl, fun h0 => ?_⟩
    change (r0.handleReadyReadIndex rs.req rs.index).bind _ = _ at h1
    frame_auto h1 [handleReadyReadIndex_frame, send_frame]

/-! ### leader side -/

theorem checkQuorumActive_frame {a r r' : Raft} {b : Bool} (h : r.checkQuorumActive = (r', b))
    (h0 : Frame a r) : Frame a r' := by
  unfold Raft.checkQuorumActive at h
  split at h
  cases h
  exact Frame.mk' h0

theorem handleAppendResponseAccepted_frame {a r r' : Raft} {m : Message} {pr : Progress} {op : Bool}
    (h : r.handleAppendResponseAccepted m pr op = .ok r') (h0 : Frame a r) : Frame a r' := by
  unfold Raft.handleAppendResponseAccepted at h
  frame_auto h [maybeCommit_frame, bcastAppend_frame, sendAppend_frame,
    sendAppendAggressively_frame, sendTimeoutNow_frame]

theorem handleAppendResponse_frame {a r r' : Raft} {m : Message}
    (h : r.handleAppendResponse m = .ok r') (h0 : Frame a r) : Frame a r' := by
  unfold Raft.handleAppendResponse at h
  frame_auto h [handleAppendResponseAccepted_frame, sendAppend_frame]

theorem handleHeartbeatResponse_frame {a r r' : Raft} {m : Message}
    (h : r.handleHeartbeatResponse m = .ok r') (h0 : Frame a r) : Frame a r' := by
  unfold Raft.handleHeartbeatResponse at h
  frame_auto h [sendAppendPr_frame, respondReadStates_frame]

theorem handleTransferLeader_cont_frame {a r r' : Raft} {frm : Nat}
    (h : (if frm = r.id then Res.ok r
          else
            let r : Raft := { r with electionElapsed := 0, leadTransferee := some frm }
            match r.prs.get frm with
            | none => .panic "raft.handle_transfer_leader.unwrap"
            | some pr =>
              if pr.matched = r.raftLog.lastIndex then r.sendTimeoutNow frm
              else (r.sendAppendPr frm pr).bind
                (fun (r, pr) => .ok { r with prs := r.prs.set frm pr })) = .ok r')
    (h0 : Frame a r) : Frame a r' := by
  frame_auto h [sendTimeoutNow_frame, sendAppendPr_frame]

theorem handleTransferLeader_frame {a r r' : Raft} {m : Message}
    (h : r.handleTransferLeader m = .ok r') (h0 : Frame a r) : Frame a r' := by
  unfold Raft.handleTransferLeader at h
  repeat' (first | split at h | (simp only at h; split at h))
  all_goals frame_auto h [sendTimeoutNow_frame, sendAppendPr_frame]

theorem handleSnapshotStatus_frame {a r : Raft} {m : Message} (h0 : Frame a r) :
    Frame a (r.handleSnapshotStatus m) := by
  unfold Raft.handleSnapshotStatus
  split
  · exact h0
  · split
    · exact h0
    · exact Frame.mk' h0

theorem handleUnreachable_frame {a r : Raft} {m : Message} (h0 : Frame a r) :
    Frame a (r.handleUnreachable m) := by
  unfold Raft.handleUnreachable
  split
  · exact h0
  · split
    · exact Frame.mk' h0
    · exact h0

theorem filterProposalEntry_frame {a r r' : Raft} {i : Nat} {e e' : Entry}
    (h : r.filterProposalEntry i e = some (r', e')) (h0 : Frame a r) : Frame a r' := by
  unfold Raft.filterProposalEntry at h
  frame_auto h [send_frame]

theorem filterProposal_frame {a : Raft} : ∀ (es : List Entry) (r r' : Raft) (i : Nat)
    (oes : Option (List Entry)), r.filterProposal i es = (r', oes) → Frame a r → Frame a r' := by
  intro es
  induction es with
  | nil => intro r r' i oes h h0; simp [Raft.filterProposal] at h; rw [← h.1]; exact h0
  | cons e es ih =>
    intro r r' i oes h h0
    unfold Raft.filterProposal at h
    split at h
    · cases h; exact h0
    · rename_i r1 e1 h1
      have h2 := filterProposalEntry_frame h1 h0
      split at h
      · rename_i r2 es2 h3
        cases h; exact ih _ _ _ _ h3 h2
      · rename_i r2 h3
        cases h; exact ih _ _ _ _ h3 h2

/-! ### follower side -/

theorem sendRequestSnapshot_frame {a r r' : Raft} (h : r.sendRequestSnapshot = .ok r')
    (h0 : Frame a r) : Frame a r' := by
  unfold Raft.sendRequestSnapshot at h
  frame_auto h [send_frame]

theorem handleAppendEntries_frame {a r r' : Raft} {m : Message}
    (h : r.handleAppendEntries m = .ok r') (h0 : Frame a r) : Frame a r' := by
  unfold Raft.handleAppendEntries at h
  frame_auto h [send_frame, sendRequestSnapshot_frame]

theorem handleHeartbeat_frame {a r r' : Raft} {m : Message}
    (h : r.handleHeartbeat m = .ok r') (h0 : Frame a r) : Frame a r' := by
  unfold Raft.handleHeartbeat at h
  frame_auto h [send_frame, sendRequestSnapshot_frame]

/-- away from the leader role `post_conf_change` only recomputes `promotable` -/
theorem postConfChange_nonleader {a r r' : Raft} {cs : ConfState} (hs : r.state ≠ .leader)
    (h : r.postConfChange = .ok (r', cs)) (h0 : Frame a r) : Frame a r' := by
  unfold Raft.postConfChange at h
  have hb : (r.state == StateRole.leader) = false := by
    cases hst : r.state <;> simp_all
  simp only [hb, Bool.and_false, hs, ne_eq, not_false_eq_true, true_or, if_true, if_false, Bool.false_eq_true] at h
  frame_auto h [send_frame]

theorem postConfChange_follower {a r : Raft} {log : RaftLog} {prs : ProgressTracker}
    {p : Raft × ConfState} (hs : r.state = .follower)
    (h : ({ r with raftLog := log, prs := prs } : Raft).postConfChange = .ok p) (h0 : Frame a r) :
    Frame a p.1 := by
  obtain ⟨r', cs⟩ := p
  exact postConfChange_nonleader (by simp [hs]) h (Frame.mk' h0)

theorem restore_frame {a r r' : Raft} {snap : Snapshot} {b : Bool} (hs : r.state = .follower)
    (h : r.restore snap = .ok (r', b)) (h0 : Frame a r) : Frame a r' := by
  unfold Raft.restore at h
  have hne : ¬ (r.state ≠ .follower) := by simp [hs]
  simp only [hne, if_false] at h
  frame_auto h [send_frame, postConfChange_follower]

theorem handleSnapshot_frame {a r r' : Raft} {m : Message} (hs : r.state = .follower)
    (h : r.handleSnapshot m = .ok r') (h0 : Frame a r) : Frame a r' := by
  unfold Raft.handleSnapshot at h
  frame_auto h [send_frame, restore_frame]

end Raft
end RaftModel
