import RaftProofs.ClusterRead4O

/-!
Cluster-level ReadIndex safety for **forwarded** reads, part 4P: **non-vacuity** (kernel-evaluated).  The
history `c08z_hist` (24 states): the first 22 states of F17's history `c08y_hist` (node 1 leads term 1 and
has committed index 1; follower 2 calls `read_index([9])`; the forwarded `MsgReadIndex` reaches node 1, which
registers `[9]`, sends heartbeats with the context, receives node 2's `MsgHeartbeatResponse([9], term 1)` and
queues the `MsgReadIndexResp`), continued honestly: node 1 hands its queue to the transport and the
`MsgReadIndexResp` is delivered to node 2, whose application finds the read state `([9], 1)`.
-/
namespace RaftModel
namespace Cluster
open Node Raft Raft.CC RaftProps.C02 RaftProps.C05

def c08z_a12 := c02x_st (Node.call c08y_a11 none .drain)
/-- node 1's answer to node 2's forwarded read -/
def c08z_resp := (c08y_a11.raft.msgs.filter (fun x => x.msgType == .msgReadIndexResp)).head!
def c08z_b11 := c02x_st (Node.call c08y_b10 none (.step c08z_resp))

def c08z_s22 : Sys :=
  { (c08y_s21.setNode 1 c08z_a12) with net := c08y_s21.net ++ c08y_a11.raft.msgs }
def c08z_s23 : Sys := c08z_s22.setNode 2 c08z_b11

def c08z_hist : List Sys :=
  c01x_hist ++ [c08y_s15, c08y_s16, c08y_s17, c08y_s18, c08y_s19, c08y_s20, c08y_s21, c08z_s22, c08z_s23]

set_option maxRecDepth 100000 in
theorem c08z_ksteps : Chained KStep c08z_hist := by
  refine ⟨?_, ?_, ?_, ?_, ?_, ?_, ?_, ?_, ?_, ?_, ?_, ?_, ?_, ?_, ?_, ?_, ?_, ?_, ?_, ?_, ?_, ?_, ?_, trivial⟩
  · exact KStep.call _ 1 (c02x_boot 1) c02x_a1 none .campaign _ rfl rfl
      (fun k hc => by cases hc) (fun k hc => by cases hc) (c02x_out _ (by decide))
  · exact KStep.call _ 1 c02x_a1 c02x_a2 none .stabilize _ rfl rfl
      (fun k hc => by cases hc) (fun k hc => by cases hc) (c02x_out _ (by decide))
  · exact KStep.send _ 1 c02x_a2 c02x_a3 rfl ⟨by decide, by decide⟩
      (fun _ => ⟨by decide, rfl⟩) rfl
  · exact KStep.deliver _ 2 (c02x_boot 2) c02x_b1 none c02x_req _ rfl
      (c02x_head_mem _ (by decide)) (by decide) (c02x_out _ (by decide))
  · exact KStep.call _ 2 c02x_b1 c02x_b2 none .stabilize _ rfl rfl
      (fun k hc => by cases hc) (fun k hc => by cases hc) (c02x_out _ (by decide))
  · exact KStep.send _ 2 c02x_b2 c02x_b3 rfl ⟨by decide, by decide⟩
      (fun _ => ⟨by decide, rfl⟩) rfl
  · exact KStep.deliver _ 1 c02x_a3 c02x_a4 none c02x_resp _ rfl
      (List.mem_append_right _ (c02x_head_mem _ (by decide))) (by decide) (c02x_out _ (by decide))
  · exact KStep.call _ 1 c02x_a4 c05x_a5 none .stabilize _ rfl rfl
      (fun k hc => by cases hc) (fun k hc => by cases hc) (c02x_out _ (by decide))
  · exact KStep.send _ 1 c05x_a5 c05x_a6 rfl ⟨by decide, by decide⟩
      (fun _ => ⟨by decide, rfl⟩) rfl
  · exact KStep.deliver _ 2 c02x_b3 c05x_b4 none c05x_app _ rfl
      (List.mem_append_right _ (c02x_head_mem _ (by decide))) (by decide) (c02x_out _ (by decide))
  · exact KStep.call _ 1 c05x_a6 c01x_a7 none (.onPersistEntries 1 1) _ rfl rfl
      (fun k hc => by cases hc) (fun k hc => by cases hc) (c02x_out _ (by decide))
  · exact KStep.call _ 2 c05x_b4 c01x_b5 none .stabilize _ rfl rfl
      (fun k hc => by cases hc) (fun k hc => by cases hc) (c02x_out _ (by decide))
  · exact KStep.send _ 2 c01x_b5 c01x_b6 rfl ⟨by decide, by decide⟩
      (fun _ => ⟨by decide, rfl⟩) rfl
  · exact KStep.deliver _ 1 c01x_a7 c01x_a8 none c01x_ack _ rfl
      (List.mem_append_right _ (c02x_head_mem _ (by decide))) (by decide) (c02x_out _ (by decide))
  · exact KStep.call _ 2 c01x_b6 c08y_b7 none (.readIndex c08y_K) _ rfl rfl
      (fun k hc => by cases hc) (fun k hc => by cases hc) (c02x_out _ (by decide))
  · exact KStep.send _ 2 c08y_b7 c08y_b8 rfl ⟨by decide, by decide⟩
      (fun _ => ⟨by decide, rfl⟩) rfl
  · exact KStep.deliver _ 1 c01x_a8 c08y_a9 none c08y_fwd _ rfl
      (by decide) (by decide) (c02x_out _ (by decide))
  · exact KStep.send _ 1 c08y_a9 c08y_a10 rfl ⟨by decide, by decide⟩
      (fun hc => absurd (by decide) hc) rfl
  · exact KStep.deliver _ 2 c08y_b8 c08y_b9 none c08y_hb _ rfl
      (by decide) (by decide) (c02x_out _ (by decide))
  · exact KStep.send _ 2 c08y_b9 c08y_b10 rfl ⟨by decide, by decide⟩
      (fun _ => ⟨by decide, rfl⟩) rfl
  · exact KStep.deliver _ 1 c08y_a10 c08y_a11 none c08y_hbr _ rfl
      (by decide) (by decide) (c02x_out _ (by decide))
  · exact KStep.send _ 1 c08y_a11 c08z_a12 rfl ⟨by decide, by decide⟩
      (fun hc => absurd (by decide) hc) rfl
  · exact KStep.deliver _ 2 c08y_b10 c08z_b11 none c08z_resp _ rfl
      (by decide) (by decide) (c02x_out _ (by decide))

theorem c08z_history : History c08z_hist := by
  have := chained_history [] c02x_s0 (History.init _ c02x_init) _
    (Chained.mono (fun _ _ hc => hc.step) _ c08z_ksteps)
  simpa [c08z_hist, c01x_hist, c05x_hist, c02x_hist] using this

/-- what the commit layer assumes about one message of the transport, without `norir` -/
def c08z_msgOk (x : Message) : Prop := x.msgType ≠ .msgSnapshot

instance (x : Message) : Decidable (c08z_msgOk x) := by unfold c08z_msgOk; infer_instance

/-- the state-wise hypotheses: those of the commit layer (without `norir` / `anch`) and `Safe` -/
def c08z_chk (s : Sys) : Bool :=
  c02x_fixed s && c05x_nobatch s && s.net.all (fun x => decide (c08z_msgOk x)) &&
  s.nodes.all (fun p => c01x_nodeOk p.2) &&
  s.nodes.all (fun p => decide (p.2.raft.readOnly.option = .safe))

set_option maxRecDepth 100000 in
theorem c08z_chk_all : ∀ s ∈ c08z_hist, c08z_chk s = true := by
  intro s hs
  simp only [c08z_hist, c01x_hist, c05x_hist, c02x_hist, List.cons_append, List.nil_append,
    List.mem_cons, List.not_mem_nil, or_false] at hs
  rcases hs with rfl | rfl | rfl | rfl | rfl | rfl | rfl | rfl | rfl | rfl | rfl | rfl | rfl | rfl | rfl | rfl | rfl | rfl | rfl | rfl | rfl | rfl | rfl | rfl <;> decide

theorem c08z_chk_ok (s : Sys) (h : c08z_chk s = true) :
    FixedCfg c02x_cfg s ∧ NoBatch s ∧ (∀ x ∈ s.net, c08z_msgOk x) ∧
    (∀ i st, s.node i = some st → c01x_nodeOk st = true) ∧
    (∀ i st, s.node i = some st → st.raft.readOnly.option = .safe) := by
  unfold c08z_chk at h
  simp only [Bool.and_eq_true] at h
  obtain ⟨⟨⟨⟨h1, h2⟩, h3⟩, h4⟩, h5⟩ := h
  refine ⟨c02x_fixed_ok s h1, c05x_nobatch_ok s h2, fun x hx => ?_, fun i st hi => ?_, fun i st hi => ?_⟩
  · rw [List.all_eq_true] at h3
    exact of_decide_eq_true (h3 x hx)
  · rw [List.all_eq_true] at h4
    exact h4 _ (c02_lookup_mem s.nodes i st hi)
  · rw [List.all_eq_true] at h5
    exact of_decide_eq_true (h5 _ (c02_lookup_mem s.nodes i st hi))

theorem c08z_safe : ∀ s ∈ c08z_hist, ∀ i st, s.node i = some st →
    st.raft.readOnly.option = .safe :=
  fun s hs => (c08z_chk_ok s (c08z_chk_all s hs)).2.2.2.2

set_option maxRecDepth 100000 in
/-- the history satisfies every hypothesis of the commit layer (`Hyp3w`: a `MsgReadIndexResp` IS in the
transport) -/
theorem c08z_hyp3w : Hyp3w c02x_cfg 0 c08z_hist := by
  have h0 : c08z_hist[0]? = some c02x_s0 := rfl
  have hall := fun s hs => c08z_chk_ok s (c08z_chk_all s hs)
  have hnode : ∀ s ∈ c08z_hist, ∀ i st, s.node i = some st →
      st.raft.raftLog.unstable.snapshot = none ∧ st.raft.raftLog.store.firstIndex = 1 ∧
      (st.raft.raftLog.abs.snapTerm = some 0 ∨ st.raft.raftLog.abs.snapTerm = none) := by
    intro s hs i st hi
    have := (hall s hs).2.2.2.1 i st hi
    unfold c01x_nodeOk at this
    simp only [Bool.and_eq_true, Bool.or_eq_true, decide_eq_true_eq, Option.isNone_iff_eq_none] at this
    exact ⟨this.1.1, this.1.2, this.2⟩
  refine ⟨⟨⟨c08z_history, fun s hs => (hall s hs).1, by decide, by decide, by decide, ?_,
    chained_at _ c08z_ksteps, fun s hs => (hall s hs).2.1, fun s hs x hx => (hall s hs).2.2.1 x hx⟩,
    c01x_nolone, fun s hs i st hi => ⟨(hnode s hs i st hi).1, (hnode s hs i st hi).2.1⟩, ?_⟩, ?_⟩
  · intro s hs
    rw [h0] at hs; cases hs
    exact c05x_initOk
  · intro s hs i st hi
    rw [h0] at hs; cases hs
    have hm := c02_lookup_mem _ i st hi
    simp only [c02x_s0, List.mem_cons, Prod.mk.injEq, List.not_mem_nil, or_false] at hm
    rcases hm with ⟨rfl, rfl⟩ | ⟨rfl, rfl⟩ | ⟨rfl, rfl⟩ <;> decide
  · intro s hs i st hi t0 ht0 j st0 _
    rcases (hnode s (mem_of_get hs) i st hi).2.2 with c | c
    · rw [c] at ht0; cases ht0; exact Nat.zero_le _
    · rw [c] at ht0; cases ht0

set_option maxRecDepth 100000 in
/-- step 14 is a forwarding `read_index([9])` call on follower 2 -/
theorem c08z_fwdAt : FwdAt c08z_hist 14 2 c08y_K :=
  ⟨c01x_s14, c08y_s15, c01x_b6, c08y_b7, none, _, rfl, rfl, rfl, c02x_out _ (by decide), rfl,
    by decide, by decide, c08y_fwd, by decide, by decide, by decide, by decide⟩

set_option maxRecDepth 100000 in
/-- step 16: the forwarded `MsgReadIndex([9])` is registered by leader 1 with read index 1 -/
theorem c08z_fwdRegAt : FwdRegAt c08z_hist 16 1 c08y_fwd c08y_K 1 := by
  refine ⟨c08y_s16, c08y_s17, c01x_a8, c08y_a9, none, _, rfl, rfl, rfl, by decide, by decide,
    by decide, c02x_out _ (by decide), rfl, ?_, (c08y_a9.raft.readOnly.pendingReadIndex.head!).2,
    by decide, by decide⟩
  intro rs hrs
  have : c01x_a8.raft.readOnly.pendingReadIndex = [] := by decide
  rw [this] at hrs
  cases hrs

set_option maxRecDepth 100000 in
/-- the last state: node 2 holds the read state `([9], 1)` -/
theorem c08z_read_state :
    ∃ s st, c08z_hist[23]? = some s ∧ s.node 2 = some st ∧
      ({ index := 1, requestCtx := c08y_K } : ReadState) ∈ st.raft.readStates :=
  ⟨c08z_s23, c08z_b11, rfl, rfl, by decide⟩

end Cluster
end RaftModel
