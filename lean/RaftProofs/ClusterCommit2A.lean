import RaftProofs.ClusterCommitZ

/-!
Cluster-level commit safety, part 2A: `Raft::step` on a `MsgAppend`, unfolded: either
`handle_append_entries` runs on a follower state that differs from the start state only in role, term
and bookkeeping, or the log is untouched.
-/
namespace RaftModel
namespace Raft
namespace CC

theorem stepTerm_append_term {r r1 : Raft} {m : Message} (h : r.stepTerm m = .ok (r1, true))
    (hty : m.msgType = .msgAppend) : m.term = r1.term ∨ m.term = 0 := by
  unfold Raft.stepTerm at h
  split at h
  · rename_i h0; exact .inr h0
  · split at h
    · simp only at h
      split at h
      · cases h
      · split at h
        · rename_i hpv
          rw [hty] at hpv
          rcases hpv with c | ⟨c, _⟩ <;> cases c
        · split at h
          · cases h; exact .inl (becomeFollower_term_vote _ _ _).1.symm
          · cases h; exact .inl (becomeFollower_term_vote _ _ _).1.symm
    · split at h
      · split at h
        · split at h <;> cases h
        · split at h
          · split at h <;> cases h
          · cases h
      · cases h
        left; omega

/-- the states the term preamble can hand to the dispatch, seen from the log -/
def SameLog (r r0 : Raft) : Prop :=
  r0.msgs = r.msgs ∧ r0.id = r.id ∧ r.term ≤ r0.term ∧
  (r0.raftLog = r.raftLog ∨ r0.raftLog = { r.raftLog with maxApplyUnpersistedLogLimit := 0 })

theorem SameLog.abs {r r0 : Raft} (h : SameLog r r0) : r0.raftLog.abs = r.raftLog.abs := by
  rcases h.2.2.2 with e | e <;> rw [e] <;> rfl

theorem SameLog.committed {r r0 : Raft} (h : SameLog r r0) :
    r0.raftLog.committed = r.raftLog.committed := by
  rcases h.2.2.2 with e | e <;> rw [e]

theorem SameLog.inv {r r0 : Raft} (h : SameLog r r0) (hi : r.raftLog.Inv) : r0.raftLog.Inv := by
  rcases h.2.2.2 with e | e <;> rw [e]
  · exact hi
  · exact (c05_limit_same r.raftLog 0).inv hi

theorem stepTerm_sameLog {r r1 : Raft} {m : Message} (h : r.stepTerm m = .ok (r1, true)) :
    SameLog r r1 := by
  rcases RaftProps.C16.stepTerm_true h with g | ⟨hlt, _, _, l, g⟩
  · rw [g]; exact ⟨rfl, rfl, Nat.le_refl _, .inl rfl⟩
  · rw [g]
    exact ⟨becomeFollower_msgs _ _ _, becomeFollower_id _ _ _,
      by rw [(becomeFollower_term_vote _ _ _).1]; omega, .inr (becomeFollower_raftLog _ _ _)⟩

/-- **`step` on a `MsgAppend`** -/
theorem step_append_unfold {r r' : Raft} {m : Message} {e : Option RaftError}
    (hm : m.msgType = .msgAppend) (h : r.step m = .ok (r', e)) :
    (∃ r0, r0.handleAppendEntries m = .ok r' ∧ r0.state = .follower ∧ SameLog r r0 ∧
      (m.term = r0.term ∨ m.term = 0)) ∨
    (r'.raftLog = r.raftLog ∧ r'.id = r.id ∧ ∀ x ∈ r'.msgs, x ∈ r.msgs ∨ x.index = 0) := by
  unfold Raft.step at h
  split at h
  · cases h
  · cases h
  · rename_i r1 hst
    cases h
    right
    -- the message was consumed by the preamble
    unfold Raft.stepTerm at hst
    split at hst
    · cases hst
    · split at hst
      · simp only at hst
        split at hst
        · cases hst; exact ⟨rfl, rfl, fun _ hx => .inl hx⟩
        · split at hst
          · cases hst
          · split at hst <;> cases hst
      · split at hst
        · split at hst
          · split at hst
            · rename_i r2 hs
              cases hst
              rw [send_eq _ _ _ hs]
              refine ⟨rfl, rfl, fun x hx => ?_⟩
              rcases List.mem_append.1 hx with g | g
              · exact .inl g
              · right
                rw [List.mem_singleton.1 g]
                exact (sendFill_ack r _ rfl rfl).2.2.1
            · cases hst
            · cases hst
          · split at hst
            · rename_i hpv; rw [hm] at hpv; cases hpv
            · cases hst; exact ⟨rfl, rfl, fun _ hx => .inl hx⟩
        · cases hst
  · rename_i r1 hst
    have hsl := stepTerm_sameLog hst
    have htm := stepTerm_append_term hst hm
    rw [hm] at h
    simp only [] at h
    split at h
    · -- pre-candidate
      unfold Raft.stepCandidate at h
      rw [hm] at h
      simp only [] at h
      split at h
      · cases h
      · obtain ⟨r2, h2, h⟩ := Res.bind_eq_ok h
        cases h
        left
        refine ⟨_, h2, (RaftProps.C16.becomeFollower_proj _ _ _).1, ?_, ?_⟩
        · exact ⟨(becomeFollower_msgs _ _ _).trans hsl.1, (becomeFollower_id _ _ _).trans hsl.2.1,
            by rw [(becomeFollower_term_vote _ _ _).1]; rename_i hne; have := hsl.2.2.1; omega,
            by
              rw [becomeFollower_raftLog]
              rcases hsl.2.2.2 with e1 | e1 <;> rw [e1] <;> exact .inr rfl⟩
        · left; exact (becomeFollower_term_vote _ _ _).1.symm
    · unfold Raft.stepCandidate at h
      rw [hm] at h
      simp only [] at h
      split at h
      · cases h
      · obtain ⟨r2, h2, h⟩ := Res.bind_eq_ok h
        cases h
        left
        refine ⟨_, h2, (RaftProps.C16.becomeFollower_proj _ _ _).1, ?_, ?_⟩
        · exact ⟨(becomeFollower_msgs _ _ _).trans hsl.1, (becomeFollower_id _ _ _).trans hsl.2.1,
            by rw [(becomeFollower_term_vote _ _ _).1]; rename_i hne; have := hsl.2.2.1; omega,
            by
              rw [becomeFollower_raftLog]
              rcases hsl.2.2.2 with e1 | e1 <;> rw [e1] <;> exact .inr rfl⟩
        · left; exact (becomeFollower_term_vote _ _ _).1.symm
    · rename_i hs
      unfold Raft.stepFollower at h
      rw [hm] at h
      simp only [] at h
      obtain ⟨r2, h2, h⟩ := Res.bind_eq_ok h
      cases h
      left
      exact ⟨_, h2, hs, ⟨hsl.1, hsl.2.1, hsl.2.2.1, hsl.2.2.2⟩, htm⟩
    · unfold Raft.stepLeader at h
      rw [hm] at h
      simp only [] at h
      cases h
      right
      rcases hsl.2.2.2 with e1 | e1
      · exact ⟨e1, hsl.2.1, fun x hx => .inl (by rw [← hsl.1]; exact hx)⟩
      · -- a leader is handed over unchanged
        rename_i hs
        rcases RaftProps.C16.stepTerm_true hst with g | ⟨_, _, _, l, g⟩
        · rw [g]; exact ⟨rfl, rfl, fun _ hx => .inl hx⟩
        · rw [g, (RaftProps.C16.becomeFollower_proj _ _ _).1] at hs; cases hs

end CC
end Raft
end RaftModel
