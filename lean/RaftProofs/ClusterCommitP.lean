import RaftProofs.ClusterCommitO

/-!
Cluster-level commit safety, helper lemmas part P: **one call of a node as `G`** (`call_g`), for every
`NodeOp` the cluster semantics uses.
-/
namespace RaftModel
namespace Raft
namespace CC
open VoteOb Node

theorem relog_g' {A : Nat → Nat → Nat → Prop} {r r' : Raft} {m : Message} (hmok : MOK A r)
    (hid : r'.id = r.id) (hs : r'.state = r.state) (ht : r'.term = r.term)
    (hp : mfun r'.prs = mfun r.prs) (hq : r'.msgs = r.msgs)
    (hc : r'.raftLog.committed = r.raftLog.committed)
    (hpe : r.raftLog.persisted ≤ r'.raftLog.persisted) : G A r m r' :=
  ((G.start hmok).old_relog Old.rfl rfl hid hs ht hp hq hc hpe).1

theorem mapProgress_g {A : Nat → Nat → Nat → Prop} {r : Raft} {m : Message} (hmok : MOK A r)
    (f : Nat → Progress → Progress) (hf : ∀ j pr, (f j pr).matched = pr.matched) :
    G A r m (r.mapProgress f) :=
  (G.start hmok).setPrs (p := (r.mapProgress f).prs) (mfun_mapProgress r f hf) rfl

/-- **one call of a node** — every `NodeOp` the cluster semantics uses (`step` for a delivered
message, and the application's calls) — for a node that does not batch and whose `matched` values are
accounted for; a delivered message is not a snapshot, and a delivered accepting append response is
backed by `A` -/
theorem call_g (A : Nat → Nat → Nat → Prop) (hA : ∀ j t x y, y ≤ x → A j t x → A j t y)
    (st st' : NState) (rnd : Option Nat) (op : NodeOp) (res : OpRes)
    (hnb : st.raft.batchAppend = false) (hmok : MOK A st.raft)
    (hop : op ≠ .drain ∧ ∀ m, op ≠ .rstep m)
    (hms : ∀ m, op = .step m → m.msgType ≠ .msgSnapshot)
    (hin : ∀ m, op = .step m → ∀ t, AckIn m t → A m.frm t m.index)
    (h : Node.call st rnd op = .ok (res, st')) : G A st.raft (CV.opMsg op) st'.raft := by
  unfold Node.call at h
  have hmok' : MOK A ({ st.raft with nextRand := rnd } : Raft) := ⟨hmok.h⟩
  have hnb' : ({ st.raft with nextRand := rnd } : Raft).batchAppend = false := hnb
  refine G.rebase (a' := ({ st.raft with nextRand := rnd } : Raft)) ?_ rfl rfl rfl
  cases op with
  | tick =>
    simp only [applyOp] at h
    split at h
    · rename_i raft b heq
      cases h
      exact tick_g hA hnb' hmok' heq
    · cases h
    · cases h
  | step m =>
    simp only [applyOp] at h
    obtain ⟨raft, e, hx, hr⟩ := CV.unitRes_ok h
    rw [hr]
    unfold RawNode.step at hx
    split at hx
    · cases hx; exact G.start hmok'
    · split at hx
      · exact step_g hA hnb' (hms m rfl) (hin m rfl) hx (G.start hmok') Old.rfl rfl
      · cases hx; exact G.start hmok'
  | rstep m => exact absurd rfl (hop.2 m)
  | propose c d =>
    simp only [applyOp] at h
    obtain ⟨raft, e, hx, hr⟩ := CV.unitRes_ok h
    rw [hr]
    exact localStep_g hA hnb' hmok' (by intro hc; cases hc) (by intro hc; cases hc)
      (by intro hc; cases hc) hx
  | proposeCc t c d =>
    simp only [applyOp] at h
    obtain ⟨raft, e, hx, hr⟩ := CV.unitRes_ok h
    rw [hr]
    exact localStep_g hA hnb' hmok' (by intro hc; cases hc) (by intro hc; cases hc)
      (by intro hc; cases hc) hx
  | readIndex c =>
    simp only [applyOp] at h
    obtain ⟨raft, hx, hr⟩ := CV.okRes_ok h
    rw [hr]
    exact localStepIgnore_g hA hnb' hmok' (by intro hc; cases hc) (by intro hc; cases hc)
      (by intro hc; cases hc) hx
  | transferLeader x =>
    simp only [applyOp] at h
    obtain ⟨raft, hx, hr⟩ := CV.okRes_ok h
    rw [hr]
    exact localStepIgnore_g hA hnb' hmok' (by intro hc; cases hc) (by intro hc; cases hc)
      (by intro hc; cases hc) hx
  | campaign =>
    simp only [applyOp] at h
    obtain ⟨raft, e, hx, hr⟩ := CV.unitRes_ok h
    rw [hr]
    exact localStep_g hA hnb' hmok' (by intro hc; cases hc) (by intro hc; cases hc)
      (by intro hc; cases hc) hx
  | ping =>
    simp only [applyOp] at h
    obtain ⟨raft, hx, hr⟩ := CV.okRes_ok h
    rw [hr]
    have hsf := ping_sf hx SF.rfl
    by_cases hs : ({ st.raft with nextRand := rnd } : Raft).state = .leader
    · exact (G.start hmok').sf hA hsf (.inl hs)
    · refine (G.start hmok').sf hA hsf (.inr ?_)
      unfold RawNode.ping Raft.ping at hx
      rw [if_neg hs] at hx
      cases hx
      exact fun _ hx => hx
  | requestSnapshot =>
    simp only [applyOp] at h
    obtain ⟨raft, e, hx, hr⟩ := CV.unitRes_ok h
    rw [hr]
    unfold RawNode.requestSnapshot Raft.requestSnapshot at hx
    split at hx
    · cases hx; exact G.start hmok'
    · split at hx
      · cases hx; exact G.start hmok'
      · split at hx
        · cases hx; exact G.start hmok'
        · split at hx
          · cases hx; exact G.start hmok'
          · simp only [] at hx
            split at hx
            · cases hx
            · cases hx
            · split at hx
              · obtain ⟨r1, h1, hx⟩ := Res.bind_eq_ok hx
                cases hx
                have g0 : G A ({ st.raft with nextRand := rnd } : Raft) (CV.opMsg .requestSnapshot)
                    ({ st.raft with nextRand := rnd } : Raft) := G.start hmok'
                exact sendRequestSnapshot_g h1 (g0.of_fields rfl rfl rfl rfl rfl rfl)
              · cases hx; exact G.start hmok'
  | reportUnreachable x =>
    simp only [applyOp] at h
    obtain ⟨raft, hx, hr⟩ := CV.okRes_ok h
    rw [hr]
    exact localStepIgnore_g hA hnb' hmok' (by intro hc; cases hc) (by intro hc; cases hc)
      (by intro hc; cases hc) hx
  | reportSnapshot x f =>
    simp only [applyOp] at h
    obtain ⟨raft, hx, hr⟩ := CV.okRes_ok h
    rw [hr]
    exact localStepIgnore_g hA hnb' hmok' (by intro hc; cases hc) (by intro hc; cases hc)
      (by intro hc; cases hc) hx
  | applyConfChange cc =>
    simp only [applyOp] at h
    split at h
    · rename_i raft cs heq
      cases h
      exact applyConfChange_g hA hnb' hmok' heq
    · rename_i raft e heq
      cases h
      exact applyConfChange_g hA hnb' hmok' heq
    · cases h
    · cases h
  | stabilize =>
    simp only [applyOp] at h
    obtain ⟨L, e1, e2, e3⟩ := stabilize_shape h
    rw [e1]
    exact relog_g hmok' e2 (Nat.le_of_eq e3.symm)
  | onPersistEntries i t =>
    simp only [applyOp] at h
    obtain ⟨raft, hx, hr⟩ := CV.okRes_ok h
    rw [hr]
    exact onPersistEntries_g hA hnb' hmok' hx
  | persistSnap =>
    simp only [applyOp] at h
    obtain ⟨L, e1, e2, e3⟩ := persistSnap_shape h
    rw [e1]
    exact relog_g hmok' e2 e3
  | commitApply k =>
    simp only [applyOp] at h
    exact (nodeCommitApply_g (st := { st with raft := { st.raft with nextRand := rnd } }) hmok' h).1
  | compact k =>
    simp only [applyOp] at h
    split at h
    · cases h
      exact relog_g' hmok' rfl rfl rfl rfl rfl rfl (Nat.le_refl _)
    · cases h
    · cases h
  | drain => exact absurd rfl hop.1
  | triggerSnap =>
    simp only [applyOp] at h
    cases h
    exact relog_g' hmok' rfl rfl rfl rfl rfl rfl (Nat.le_refl _)
  | triggerLog b =>
    simp only [applyOp] at h
    cases h
    exact relog_g' hmok' rfl rfl rfl rfl rfl rfl (Nat.le_refl _)
  | setPriority p =>
    simp only [applyOp] at h
    cases h
    exact G.mk' (G.start hmok')
  | setBatchAppend b =>
    simp only [applyOp] at h
    cases h
    exact G.mk' (G.start hmok')
  | skipBcastCommit b =>
    simp only [applyOp] at h
    cases h
    exact G.mk' (G.start hmok')
  | setCheckQuorum b =>
    simp only [applyOp] at h
    cases h
    exact G.mk' (G.start hmok')
  | adjustMaxInflight id cap =>
    simp only [applyOp] at h
    obtain ⟨raft, hx, hr⟩ := CV.okRes_ok h
    rw [hr]
    unfold Raft.adjustMaxInflightMsgs at hx
    split at hx
    · cases hx; exact G.start hmok'
    · rename_i pr hg
      split at hx
      · cases hx
        exact (G.start hmok').setPrs (mfun_set _ _ _ (fun old ho => by
          rw [hg] at ho; cases ho; rfl)) rfl
      · cases hx
  | maybeFreeInflightBuffers =>
    simp only [applyOp] at h
    cases h
    exact mapProgress_g hmok' (fun _ pr => { pr with ins := pr.ins.maybeFreeBuffer }) (fun _ _ => rfl)
  | enableGroupCommit b =>
    simp only [applyOp] at h
    obtain ⟨raft, hx, hr⟩ := CV.okRes_ok h
    rw [hr]
    exact enableGroupCommit_g hA hnb' hmok' hx
  | assignCommitGroups v =>
    simp only [applyOp] at h
    obtain ⟨raft, hx, hr⟩ := CV.okRes_ok h
    rw [hr]
    exact assignCommitGroups_g hA hnb' hmok' hx
  | clearCommitGroup =>
    simp only [applyOp] at h
    cases h
    exact mapProgress_g hmok' (fun _ pr => { pr with commitGroupId := 0 }) (fun _ _ => rfl)
  | checkGroupCommitConsistent =>
    simp only [applyOp] at h
    split at h
    · cases h; exact G.start hmok'
    · cases h; exact G.start hmok'
    · cases h
    · cases h
  | setMaxApplyUnpersistedLogLimit x =>
    simp only [applyOp] at h
    cases h
    exact relog_g' hmok' rfl rfl rfl rfl rfl rfl (Nat.le_refl _)
  | setMaxCommittedSizePerReady x =>
    simp only [applyOp] at h
    cases h
    exact G.mk' (G.start hmok')
  | onEntriesFetched to term aggr =>
    rcases CV.onEntriesFetched_ok h with h | ⟨-, hld, -, raft, hx, h⟩
    · cases h; exact G.start hmok'
    · cases h
      rcases hx with hx | hx
      · exact (G.start hmok').sf hA (sendAppendAggressively_sf hnb' hx SF.rfl) (.inl hld)
      · exact (G.start hmok').sf hA (sendAppend_sf hnb' hx SF.rfl) (.inl hld)

end CC
end Raft
end RaftModel
