import RaftProofs.ClusterCommitA

/-!
Commit safety of `ClusterSem` with snapshots between nodes, part 4A: **the per-call relation of
`ClusterCommit4A–4I` without the escape "a `MsgSnapshot` is queued"** (namespace `Raft.CS`; the files
`ClusterSnap4A–4I` are copies of `ClusterCommit4A–4I` in which only what is listed here differs).

`PW a r` ("`r` is an intermediate state of a call that started in `a`") speaks about

* **progress within the log** (`po`): on a leader every progress has `matched ≤ last_index`,
  `next_idx ≤ last_index + 1`, and — **new** — a progress in the `Snapshot` state has its pending
  snapshot within the log *or equal to the snapshot index of a `MsgSnapshot` in the queue* (`POk`,
  `FS`: the storage decides what index a snapshot has; the cluster level knows, from the `SnapSend`
  contract, that it is the recorded commit index).  `Raft.CP.POk` demanded `state ≠ Snapshot` and
  escaped to `QSnap` ("the node is mute"); here `QSnap` is `False` (the name is kept so that the
  statements keep their shape);
* pending reads (`rd`), the anchors of queued `MsgAppend`s (`qa`, `qf`), queued `MsgReadIndexResp`s
  (`qr`), as before, without the escape.

What changes downstream: `POk.becomeProbe` needs the pending snapshot within the log — in
`handle_append_response` because the snapshot is caught up (`pending ≤ matched`), in
`handle_snapshot_status` from the new hypothesis `hQ` of `step_pw` / `call_pr` (every queued
`MsgSnapshot` names an index within the log); `maybe_send_append` on the snapshot path queues the
`MsgSnapshot` whose index becomes the pending snapshot (`PW.pushSnap`, `POk.becomeSnapshot`).

This file: the definitions, the frame lemmas, `send` and the progress bookkeeping.
-/
namespace RaftModel
namespace Raft
namespace CS

/-- the message types the relation speaks about -/
def wqT : MsgType → Bool
  | .msgAppend | .msgSnapshot | .msgReadIndexResp => true
  | _ => false

/-- the escape "a `MsgSnapshot` is queued" of `Raft.CP` is **gone** (it is unsound once snapshots are
really sent): the name is kept, as `False`, so that the statements keep their shape -/
def QSnap (_ms : List Message) : Prop := False

theorem QSnap.mono {ms ms' : List Message} (h : QSnap ms) (_hs : ∀ x ∈ ms, x ∈ ms') : QSnap ms' :=
  h.elim

/-- a `MsgSnapshot` with snapshot index `i` is in the queue -/
def FS (ms : List Message) (i : Nat) : Prop :=
  ∃ x ∈ ms, x.msgType = .msgSnapshot ∧ x.snapshot.metadata.index = i

theorem FS.mono {ms ms' : List Message} {i : Nat} (h : FS ms i)
    (hs : ∀ x ∈ ms, x ∈ ms') : FS ms' i := by
  obtain ⟨x, hx, h2, h3⟩ := h
  exact ⟨x, hs x hx, h2, h3⟩

theorem QSnap.append_left {ms : List Message} (l : List Message) (h : QSnap ms) : QSnap (ms ++ l) :=
  h.mono (fun _ hx => List.mem_append_left _ hx)

/-- a progress within a log whose last index is `li` -/
def POk (ms : List Message) (li : Nat) (pr : Progress) : Prop :=
  pr.matched ≤ li ∧ pr.nextIdx ≤ li + 1 ∧
    (pr.state = .snapshot → pr.pendingSnapshot ≤ li ∨ FS ms pr.pendingSnapshot)

theorem POk.mono {ms ms' : List Message} {li li' : Nat} {pr : Progress}
    (h : POk ms li pr) (hle : li ≤ li') (hs : ∀ x ∈ ms, x ∈ ms') : POk ms' li' pr :=
  ⟨Nat.le_trans h.1 hle, by have := h.2.1; omega, fun hst => by
    rcases h.2.2 hst with c | c
    · exact .inl (Nat.le_trans c hle)
    · exact .inr (c.mono hs)⟩

theorem POk.app {ms : List Message} {li : Nat} {pr : Progress}
    (h : POk ms li pr) (l : List Message) : POk (ms ++ l) li pr :=
  h.mono (Nat.le_refl _) (fun _ hx => List.mem_append_left _ hx)

/-- only `matched`, `next_idx`, the state and the pending snapshot matter -/
theorem POk.congr {ms : List Message} {li : Nat} {pr pr' : Progress} (h : POk ms li pr)
    (h1 : pr'.matched = pr.matched)
    (h2 : pr'.nextIdx = pr.nextIdx) (h3 : pr'.state = pr.state)
    (h4 : pr'.pendingSnapshot = pr.pendingSnapshot := by rfl) : POk ms li pr' := by
  unfold POk at *
  rw [h1, h2, h3, h4]; exact h

/-- every progress of the tracker is within the log -/
def PAll (ms : List Message) (li : Nat) (t : ProgressTracker) : Prop :=
  ∀ p ∈ t.progress, POk ms li p.2

theorem PAll.mono {ms ms' : List Message} {li li' : Nat} {t : ProgressTracker}
    (h : PAll ms li t) (hle : li ≤ li') (hs : ∀ x ∈ ms, x ∈ ms') :
    PAll ms' li' t := fun p hp => (h p hp).mono hle hs

theorem PAll.app {ms : List Message} {li : Nat} {t : ProgressTracker}
    (h : PAll ms li t) (l : List Message) : PAll (ms ++ l) li t :=
  h.mono (Nat.le_refl _) (fun _ hx => List.mem_append_left _ hx)

theorem mem_of_lookup {α : Type} {l : List (Nat × α)} {k : Nat} {v : α}
    (h : l.lookup k = some v) : (k, v) ∈ l := by
  induction l with
  | nil => cases h
  | cons x rest ih =>
    obtain ⟨k', v'⟩ := x
    by_cases hk : k = k'
    · subst hk
      simp at h
      subst h
      exact List.mem_cons_self
    · have : (k == k') = false := by simpa using hk
      simp only [List.lookup_cons, this] at h
      exact List.mem_cons_of_mem _ (ih h)

theorem PAll.get {ms : List Message} {li : Nat} {t : ProgressTracker} (h : PAll ms li t) {id : Nat} {pr : Progress}
    (hg : t.get id = some pr) : POk ms li pr := h (id, pr) (mem_of_lookup hg)

theorem PAll.set {ms : List Message} {li : Nat} {t : ProgressTracker} (h : PAll ms li t) (id : Nat) {pr : Progress}
    (hp : POk ms li pr) : PAll ms li (t.set id pr) := by
  intro p hp'
  simp only [ProgressTracker.set, NatMap.modify, List.mem_map] at hp'
  obtain ⟨q, hq, rfl⟩ := hp'
  split
  · exact hp
  · exact h q hq

theorem PAll.modify {ms : List Message} {li : Nat} {t : ProgressTracker} (h : PAll ms li t) (id : Nat)
    (f : Progress → Progress) (hf : ∀ pr, POk ms li pr → POk ms li (f pr)) :
    PAll ms li { t with progress := NatMap.modify id f t.progress } := by
  intro p hp'
  simp only [NatMap.modify, List.mem_map] at hp'
  obtain ⟨q, hq, rfl⟩ := hp'
  split
  · exact hf _ (h q hq)
  · exact h q hq

theorem PAll.map {ms : List Message} {li : Nat} {t : ProgressTracker} (h : PAll ms li t) (f : Nat → Progress → Progress)
    (hf : ∀ id pr, POk ms li pr → POk ms li (f id pr)) :
    PAll ms li { t with progress := t.progress.map (fun p => (p.1, f p.1 p.2)) } := by
  intro p hp'
  simp only [List.mem_map] at hp'
  obtain ⟨q, hq, rfl⟩ := hp'
  exact hf _ _ (h q hq)

theorem mem_insert {α : Type} {k : Nat} {v : α} {l : List (Nat × α)} {p : Nat × α}
    (h : p ∈ NatMap.insert k v l) : p = (k, v) ∨ p ∈ l := by
  induction l with
  | nil => simp [NatMap.insert] at h; exact .inl h
  | cons x rest ih =>
    obtain ⟨k', v'⟩ := x
    unfold NatMap.insert at h
    split at h
    · rcases List.mem_cons.1 h with c | c
      · exact .inl c
      · exact .inr c
    · split at h
      · rcases List.mem_cons.1 h with c | c
        · exact .inl c
        · exact .inr (List.mem_cons_of_mem _ c)
      · rcases List.mem_cons.1 h with c | c
        · exact .inr (by rw [c]; exact List.mem_cons_self)
        · rcases ih c with d | d
          · exact .inl d
          · exact .inr (List.mem_cons_of_mem _ d)

/-- the relation on the fields it reads -/
structure PWP (a : Raft) (st : StateRole) (l : RaftLog) (t : ProgressTracker) (ro : ReadOnly)
    (b : Bool) (ms : List Message) : Prop where
  inv : l.Inv
  nb : b = false
  po : st = .leader → QSnap ms ∨ PAll ms l.lastIndex t
  rd : st = .leader → ∀ p ∈ ro.pendingReadIndex, p.2.index ≤ l.committed
  qa : ∀ x ∈ ms, x.msgType = .msgAppend → x ∈ a.msgs ∨ QSnap ms ∨ x.index ≤ l.lastIndex
  qr : ∀ x ∈ ms, x.msgType = .msgReadIndexResp → x ∈ a.msgs ∨ x.index ≤ l.committed
  sn : ∀ x ∈ a.msgs, x.msgType = .msgSnapshot → x ∈ ms
  /-- the first index of the log has not moved down since the start of the call … -/
  fi : a.raftLog.firstIndex ≤ l.firstIndex
  /-- … and every new `MsgAppend` is anchored at or above the snapshot point (its entries were read
  from the log: below the first index `RaftLog::entries` answers `Compacted`, and a `MsgSnapshot` is
  queued instead) -/
  qf : ∀ x ∈ ms, x.msgType = .msgAppend →
    x ∈ a.msgs ∨ QSnap ms ∨ a.raftLog.firstIndex ≤ x.index + 1

/-- **the per-call relation** -/
def PW (a r : Raft) : Prop := PWP a r.state r.raftLog r.prs r.readOnly r.batchAppend r.msgs

theorem PW.inv {a r : Raft} (h : PW a r) : r.raftLog.Inv := PWP.inv h
theorem PW.nb {a r : Raft} (h : PW a r) : r.batchAppend = false := PWP.nb h
theorem PW.po {a r : Raft} (h : PW a r) :
    r.state = .leader → QSnap r.msgs ∨ PAll r.msgs r.raftLog.lastIndex r.prs := PWP.po h
theorem PW.rd {a r : Raft} (h : PW a r) :
    r.state = .leader → ∀ p ∈ r.readOnly.pendingReadIndex, p.2.index ≤ r.raftLog.committed :=
  PWP.rd h
theorem PW.qa {a r : Raft} (h : PW a r) : ∀ x ∈ r.msgs, x.msgType = .msgAppend →
    x ∈ a.msgs ∨ QSnap r.msgs ∨ x.index ≤ r.raftLog.lastIndex := PWP.qa h
theorem PW.qr {a r : Raft} (h : PW a r) : ∀ x ∈ r.msgs, x.msgType = .msgReadIndexResp →
    x ∈ a.msgs ∨ x.index ≤ r.raftLog.committed := PWP.qr h
theorem PW.sn {a r : Raft} (h : PW a r) : ∀ x ∈ a.msgs, x.msgType = .msgSnapshot → x ∈ r.msgs :=
  PWP.sn h
theorem PW.fi {a r : Raft} (h : PW a r) : a.raftLog.firstIndex ≤ r.raftLog.firstIndex := PWP.fi h
theorem PW.qf {a r : Raft} (h : PW a r) : ∀ x ∈ r.msgs, x.msgType = .msgAppend →
    x ∈ a.msgs ∨ QSnap r.msgs ∨ a.raftLog.firstIndex ≤ x.index + 1 := PWP.qf h

/-- the start of a call -/
theorem PW.start {a : Raft} (hinv : a.raftLog.Inv) (hnb : a.batchAppend = false)
    (hpo : a.state = .leader → QSnap a.msgs ∨ PAll a.msgs a.raftLog.lastIndex a.prs)
    (hrd : a.state = .leader → ∀ p ∈ a.readOnly.pendingReadIndex, p.2.index ≤ a.raftLog.committed) :
    PW a a :=
  ⟨hinv, hnb, hpo, hrd, fun _ hx _ => .inl hx, fun _ hx _ => .inl hx, fun _ hx _ => hx,
    Nat.le_refl _, fun _ hx _ => .inl hx⟩

/-- any structure update that keeps the role, the log, the tracker, the pending reads, the batching
flag and the queue keeps `PW` -/
theorem PW.mk' {a r : Raft} {x1 x2 x3 : Nat} {x4 : List ReadState} {x6 x7 x8 : Nat}
    {x10 : Bool} {x11 : Nat}
    {x12 : Option Nat} {x13 : Nat} {x15 x16 : Nat} {x17 x18 x19 x21 : Bool}
    {x22 x23 x24 x25 x26 : Nat} {x27 : Int} {x28 : UncommittedState} {x29 : Nat}
    {x32 : Option Nat} (h0 : PW a r) :
    PW a { term := x1, vote := x2, id := x3, readStates := x4, raftLog := r.raftLog,
           maxInflight := x6, maxMsgSize := x7, pendingRequestSnapshot := x8, state := r.state,
           promotable := x10, leaderId := x11, leadTransferee := x12,
           pendingConfIndex := x13, readOnly := r.readOnly, electionElapsed := x15,
           heartbeatElapsed := x16, checkQuorum := x17, preVote := x18,
           skipBcastCommit := x19, batchAppend := r.batchAppend, disableProposalForwarding := x21,
           heartbeatTimeout := x22, electionTimeout := x23, randomizedElectionTimeout := x24,
           minElectionTimeout := x25, maxElectionTimeout := x26, priority := x27,
           uncommittedState := x28, maxCommittedSizePerReady := x29, prs := r.prs, msgs := r.msgs,
           nextRand := x32 } := h0

/-- replacing the log by one that represents the same logical log -/
theorem PW.log {a r : Raft} {l : RaftLog} (hl : LogSame r.raftLog l) (h0 : PW a r) :
    PW a { r with raftLog := l } := by
  have hfi : l.firstIndex = r.raftLog.firstIndex := by
    rw [(hl.inv h0.inv).firstIndex_abs, h0.inv.firstIndex_abs, hl.abs]
  refine ⟨hl.inv h0.inv, h0.nb, fun hs => ?_, fun hs p hp => ?_, fun x hx hty => ?_,
    fun x hx hty => ?_, h0.sn, by rw [hfi]; exact h0.fi, h0.qf⟩
  · show QSnap r.msgs ∨ PAll r.msgs l.lastIndex r.prs
    rw [hl.last]; exact h0.po hs
  · exact Nat.le_trans (h0.rd hs p hp) hl.commit
  · show x ∈ a.msgs ∨ QSnap r.msgs ∨ x.index ≤ l.lastIndex
    rw [hl.last]; exact h0.qa x hx hty
  · rcases h0.qr x hx hty with c | c
    · exact .inl c
    · exact .inr (Nat.le_trans c hl.commit)

/-- replacing the tracker -/
theorem PW.prs {a r : Raft} {t : ProgressTracker} (h0 : PW a r)
    (ht : r.state = .leader → QSnap r.msgs ∨ PAll r.msgs r.raftLog.lastIndex t) :
    PW a { r with prs := t } :=
  ⟨h0.inv, h0.nb, ht, h0.rd, h0.qa, h0.qr, h0.sn, h0.fi, h0.qf⟩

/-- writing back one progress -/
theorem PW.setPr {a r : Raft} {id : Nat} {pr : Progress} (h0 : PW a r)
    (hp : QSnap r.msgs ∨ POk r.msgs r.raftLog.lastIndex pr) :
    PW a { r with prs := r.prs.set id pr } := by
  refine h0.prs (fun hs => ?_)
  rcases hp with c | c
  · exact .inl c
  · rcases h0.po hs with d | d
    · exact .inl d
    · exact .inr (d.set id c)

/-- leaving the leader role (or staying outside it) with log, queue and flag untouched -/
theorem PW.nonleader {a r : Raft} (h0 : PW a r) {st : StateRole} {t : ProgressTracker}
    {ro : ReadOnly} (hst : st ≠ .leader) :
    PWP a st r.raftLog t ro r.batchAppend r.msgs :=
  ⟨h0.inv, h0.nb, fun h => absurd h hst, fun h => absurd h hst, h0.qa, h0.qr, h0.sn, h0.fi, h0.qf⟩

/-! ### `send` -/

/-- queueing a message of a type the relation does not speak about -/
theorem send_pw {a r r' : Raft} {m : Message} (h : r.send m = .ok r')
    (hm : wqT m.msgType = false) (h0 : PW a r) : PW a r' := by
  rw [send_eq r r' m h]
  have hty : wqT (r.sendFill m).msgType = false := by rw [sendFill_msgType]; exact hm
  refine ⟨h0.inv, h0.nb, fun hs => ?_, h0.rd, fun x hx hx' => ?_, fun x hx hx' => ?_,
    fun x hx hx' => List.mem_append_left _ (h0.sn x hx hx'), h0.fi, fun x hx hx' => ?_⟩
  · rcases h0.po hs with c | c
    · exact .inl (c.append_left _)
    · exact .inr (c.app _)
  · rcases List.mem_append.1 hx with hx | hx
    · rcases h0.qa x hx hx' with c | c | c
      · exact .inl c
      · exact .inr (.inl (c.append_left _))
      · exact .inr (.inr c)
    · rw [List.mem_singleton.1 hx] at hx'
      rw [hx'] at hty; cases hty
  rotate_left
  · rcases List.mem_append.1 hx with hx | hx
    · rcases h0.qf x hx hx' with c | c | c
      · exact .inl c
      · exact .inr (.inl (c.append_left _))
      · exact .inr (.inr c)
    · rw [List.mem_singleton.1 hx] at hx'
      rw [hx'] at hty; cases hty
  · rcases List.mem_append.1 hx with hx | hx
    · exact h0.qr x hx hx'
    · rw [List.mem_singleton.1 hx] at hx'
      rw [hx'] at hty; cases hty

/-- appending one message to the queue, in general -/
theorem PW.push {a r : Raft} (h0 : PW a r) (x : Message)
    (ha : x.msgType = .msgAppend → QSnap r.msgs ∨ x.index ≤ r.raftLog.lastIndex)
    (hr : x.msgType = .msgReadIndexResp → x.index ≤ r.raftLog.committed)
    (hf : x.msgType = .msgAppend → QSnap r.msgs ∨ r.raftLog.firstIndex ≤ x.index + 1) :
    PW a { r with msgs := r.msgs ++ [x] } := by
  refine ⟨h0.inv, h0.nb, fun hs => ?_, h0.rd, fun y hy hy' => ?_, fun y hy hy' => ?_,
    fun y hy hy' => List.mem_append_left _ (h0.sn y hy hy'), h0.fi, fun y hy hy' => ?_⟩
  rotate_right
  · rcases List.mem_append.1 hy with hy | hy
    · rcases h0.qf y hy hy' with c | c | c
      · exact .inl c
      · exact .inr (.inl (c.append_left _))
      · exact .inr (.inr c)
    · rw [List.mem_singleton.1 hy] at hy' ⊢
      rcases hf hy' with c | c
      · exact .inr (.inl (c.append_left _))
      · exact .inr (.inr (Nat.le_trans h0.fi c))
  · rcases h0.po hs with c | c
    · exact .inl (c.append_left _)
    · exact .inr (c.app _)
  · rcases List.mem_append.1 hy with hy | hy
    · rcases h0.qa y hy hy' with c | c | c
      · exact .inl c
      · exact .inr (.inl (c.append_left _))
      · exact .inr (.inr c)
    · rw [List.mem_singleton.1 hy] at hy' ⊢
      rcases ha hy' with c | c
      · exact .inr (.inl (c.append_left _))
      · exact .inr (.inr c)
  · rcases List.mem_append.1 hy with hy | hy
    · exact h0.qr y hy hy'
    · rw [List.mem_singleton.1 hy] at hy' ⊢
      exact .inr (hr hy')

/-- queueing a `MsgSnapshot` (the tracker is replaced at the same time) -/
theorem PW.pushSnap {a r : Raft} (h0 : PW a r) (x : Message) (hx : x.msgType = .msgSnapshot)
    (t : ProgressTracker)
    (ht : r.state = .leader → PAll (r.msgs ++ [x]) r.raftLog.lastIndex t) :
    PW a { r with msgs := r.msgs ++ [x], prs := t } := by
  refine ⟨h0.inv, h0.nb, fun hs => .inr (ht hs), h0.rd, fun y hy hy' => ?_, fun y hy hy' => ?_,
    fun y hy hy' => List.mem_append_left _ (h0.sn y hy hy'), h0.fi, fun y hy hy' => ?_⟩
  · rcases List.mem_append.1 hy with hy | hy
    · rcases h0.qa y hy hy' with c | c | c
      · exact .inl c
      · exact c.elim
      · exact .inr (.inr c)
    · rw [List.mem_singleton.1 hy, hx] at hy'; cases hy'
  · rcases List.mem_append.1 hy with hy | hy
    · exact h0.qr y hy hy'
    · rw [List.mem_singleton.1 hy, hx] at hy'; cases hy'
  · rcases List.mem_append.1 hy with hy | hy
    · rcases h0.qf y hy hy' with c | c | c
      · exact .inl c
      · exact c.elim
      · exact .inr (.inr c)
    · rw [List.mem_singleton.1 hy, hx] at hy'; cases hy'

end CS
end Raft
end RaftModel

