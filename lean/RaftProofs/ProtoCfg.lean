import RaftProofs.ProtoCfgInv
import RaftProofs.ProtoCfgRead

/-!
# PC: the cross-history configuration guards of P are redundant

On every state reachable in PC (`RaftModel/ProtoCfg.lean`) the *local* conditions PC checks at a
`win` / `commitLeader` (the configuration is the one of the membership changes applied so far, and
at most one further membership change sits in the winner's log / the committed prefix) together
with the configuration-free part of P's guard (`winCore` / `commitCore`) **imply** the
cross-history part of P's guard (`winAdj` / `commitAdj`).  So the cross-history guard is never the
reason for a rejection, every PC history is a P history (`reach_base`), and every theorem about P
holds for PC with no assumption about how the configurations of different events relate.

Files: `ProtoCfgDefs` (guard split, `InvCfg`, minimal-record lemma), `ProtoCfgE` (`InvE`: a vote
decided before its term had a leader was decided against a log older than the term),
`ProtoCfgK` (the two implications from the invariants), `ProtoCfgInv` (`InvCfg` is inductive),
`ProtoCfgRead` (the same for the read-index events `resp` / leader-local `rstate`: their guard
`rdCfgOk` is implied by "the configuration is the one of the applied membership changes and the
leader's version did not go backwards").
-/
namespace RaftModel.P

/-- every invariant of P holds on the P state underlying a reachable PC state -/
theorem invAll_reachPC (S : CSys) (hr : ReachPC S) : InvAll S.base := invAll_reachR _ (reach_base hr)

/-- **K (win)**: the cross-history part of the guard of `win` is implied -/
theorem win_adj_redundant (S : CSys) (hr : ReachPC S) (i : Nat) (cfg : Cfg) (q : List Nat) (applied : Nat)
    (hloc : applied ≤ (S.base.nodes i).commit ∧
            confCount (S.base.nodes i).log ≤ confCount ((S.base.nodes i).log.take applied) + 1 ∧
            S.vtab[confCount ((S.base.nodes i).log.take applied)]? = some cfg)
    (hcore : winCore S.base i cfg q = true) : winAdj S.base i cfg = true :=
  win_adj_of_inv S (invAll_reachR _ (reach_base hr)) (invE_reachR _ (reach_base hr)) (invCfg_reach hr)
    i cfg q applied hloc hcore

/-- **K (commitLeader)**: the cross-history part of the guard of `commitLeader` is implied -/
theorem commit_adj_redundant (S : CSys) (hr : ReachPC S) (i c : Nat) (cfg : Cfg) (q : List Nat) (applied : Nat)
    (hloc : applied ≤ (S.base.nodes i).commit ∧
            confCount ((S.base.nodes i).log.take c) ≤ confCount ((S.base.nodes i).log.take applied) + 1 ∧
            S.vtab[confCount ((S.base.nodes i).log.take applied)]? = some cfg)
    (hcore : commitCore S.base i c cfg q = true) : commitAdj S.base i c cfg = true :=
  commit_adj_of_inv S (invAll_reachR _ (reach_base hr)) (invCfg_reach hr) i c cfg q applied hloc hcore

/-- a later leader was elected with the prefix a leader is about to commit — before the commit is recorded -/
theorem commit_lc_redundant (S : CSys) (hr : ReachPC S) (i c : Nat) (cfg : Cfg) (q : List Nat) (applied : Nat)
    (hloc : applied ≤ (S.base.nodes i).commit ∧
            confCount ((S.base.nodes i).log.take c) ≤ confCount ((S.base.nodes i).log.take applied) + 1 ∧
            S.vtab[confCount ((S.base.nodes i).log.take applied)]? = some cfg)
    (hcore : commitCore S.base i c cfg q = true) (te : Nat) (hlt : (S.base.nodes i).term < te)
    (hel : Elected S.base te) : (S.base.elog te).take c = (S.base.nodes i).log.take c := by
  have hI := invAll_reachR _ (reach_base hr)
  rw [hI.l.ll i (commitCore_unpack hcore).2.1]
  exact commit_lc_new S hI (invCfg_reach hr) i c cfg q applied hloc hcore te hlt hel

/-! ### PC accepts `win` / `commitLeader` iff the local conditions and the core guard hold -/

/-- the local condition of PC's `win` -/
def winLocal (S : CSys) (i : Nat) (cfg : Cfg) (applied : Nat) : Prop :=
  applied ≤ (S.base.nodes i).commit ∧
  confCount (S.base.nodes i).log ≤ confCount ((S.base.nodes i).log.take applied) + 1 ∧
  S.vtab[confCount ((S.base.nodes i).log.take applied)]? = some cfg

/-- the local condition of PC's `commitLeader` -/
def commitLocal (S : CSys) (i c : Nat) (cfg : Cfg) (applied : Nat) : Prop :=
  applied ≤ (S.base.nodes i).commit ∧
  confCount ((S.base.nodes i).log.take c) ≤ confCount ((S.base.nodes i).log.take applied) + 1 ∧
  S.vtab[confCount ((S.base.nodes i).log.take applied)]? = some cfg ∧
  verMono S (S.base.nodes i).term (confCount ((S.base.nodes i).log.take applied)) = true

/-- what K needs of it -/
theorem commitLocal.k {S : CSys} {i c : Nat} {cfg : Cfg} {applied : Nat} (h : commitLocal S i c cfg applied) :
    applied ≤ (S.base.nodes i).commit ∧
    confCount ((S.base.nodes i).log.take c) ≤ confCount ((S.base.nodes i).log.take applied) + 1 ∧
    S.vtab[confCount ((S.base.nodes i).log.take applied)]? = some cfg := ⟨h.1, h.2.1, h.2.2.1⟩

/-- the state of PC after `win i cfg _ applied` -/
def winPostC (S : CSys) (i : Nat) (cfg : Cfg) (applied : Nat) : CSys :=
  { S with base := winPost S.base i cfg,
           evs := ((S.base.nodes i).term, confCount ((S.base.nodes i).log.take applied)) :: S.evs }

/-- the state of PC after `commitLeader i c cfg _ applied` -/
def commitPostC (S : CSys) (i c : Nat) (cfg : Cfg) (applied : Nat) : CSys :=
  { S with base := commitPost S.base i c cfg,
           cvs := (((S.base.nodes i).term, c), confCount ((S.base.nodes i).log.take applied)) :: S.cvs }

/-- in any state: PC's `win` succeeds iff local ∧ core ∧ cross-history -/
theorem winC_split (S : CSys) (i : Nat) (cfg : Cfg) (q : List Nat) (applied : Nat) (S' : CSys) :
    applyEventC S (.win i cfg q applied) = .ok S' ↔
      (winLocal S i cfg applied ∧ winCore S.base i cfg q = true ∧ winAdj S.base i cfg = true ∧
        S' = winPostC S i cfg applied) := by
  constructor
  · intro h
    simp only [applyEventC] at h
    split at h
    · rename_i hloc
      split at h
      · rename_i b hb
        cases h
        obtain ⟨h1, h2, h3⟩ := (win_split S.base i cfg q b).1 hb
        subst h3
        exact ⟨hloc, h1, h2, rfl⟩
      · cases h
    · cases h
  · rintro ⟨hloc, h1, h2, h3⟩
    have hb := (win_split S.base i cfg q _).2 ⟨h1, h2, rfl⟩
    subst h3
    unfold winLocal at hloc
    simp only [applyEventC]
    rw [if_pos hloc, hb]
    rfl

/-- in any state: PC's `commitLeader` succeeds iff local ∧ core ∧ cross-history -/
theorem commitC_split (S : CSys) (i c : Nat) (cfg : Cfg) (q : List Nat) (applied : Nat) (S' : CSys) :
    applyEventC S (.commitLeader i c cfg q applied) = .ok S' ↔
      (commitLocal S i c cfg applied ∧ commitCore S.base i c cfg q = true ∧ commitAdj S.base i c cfg = true ∧
        S' = commitPostC S i c cfg applied) := by
  constructor
  · intro h
    simp only [applyEventC] at h
    split at h
    · rename_i hloc
      split at h
      · rename_i b hb
        cases h
        obtain ⟨h1, h2, h3⟩ := (commit_split S.base i c cfg q b).1 hb
        subst h3
        exact ⟨hloc, h1, h2, rfl⟩
      · cases h
    · cases h
  · rintro ⟨hloc, h1, h2, h3⟩
    have hb := (commit_split S.base i c cfg q _).2 ⟨h1, h2, rfl⟩
    subst h3
    unfold commitLocal at hloc
    simp only [applyEventC]
    rw [if_pos hloc, hb]
    rfl

/-- **on reachable states PC accepts `win` iff the local condition and the configuration-free part
of P's guard hold**: the cross-history guard is never the reason for a rejection -/
theorem winC_accepts_iff (S : CSys) (hr : ReachPC S) (i : Nat) (cfg : Cfg) (q : List Nat) (applied : Nat) :
    (∃ S', applyEventC S (.win i cfg q applied) = .ok S') ↔
      (winLocal S i cfg applied ∧ winCore S.base i cfg q = true) := by
  constructor
  · rintro ⟨S', h⟩
    obtain ⟨h1, h2, _⟩ := (winC_split S i cfg q applied S').1 h
    exact ⟨h1, h2⟩
  · rintro ⟨h1, h2⟩
    exact ⟨_, (winC_split S i cfg q applied _).2 ⟨h1, h2, win_adj_redundant S hr i cfg q applied h1 h2, rfl⟩⟩

/-- ... and the resulting state is the known one -/
theorem winC_accepts (S : CSys) (hr : ReachPC S) (i : Nat) (cfg : Cfg) (q : List Nat) (applied : Nat)
    (hloc : winLocal S i cfg applied) (hcore : winCore S.base i cfg q = true) :
    applyEventC S (.win i cfg q applied) = .ok (winPostC S i cfg applied) :=
  (winC_split S i cfg q applied _).2 ⟨hloc, hcore, win_adj_redundant S hr i cfg q applied hloc hcore, rfl⟩

/-- **on reachable states PC accepts `commitLeader` iff the local condition and the
configuration-free part of P's guard hold** -/
theorem commitC_accepts_iff (S : CSys) (hr : ReachPC S) (i c : Nat) (cfg : Cfg) (q : List Nat) (applied : Nat) :
    (∃ S', applyEventC S (.commitLeader i c cfg q applied) = .ok S') ↔
      (commitLocal S i c cfg applied ∧ commitCore S.base i c cfg q = true) := by
  constructor
  · rintro ⟨S', h⟩
    obtain ⟨h1, h2, _⟩ := (commitC_split S i c cfg q applied S').1 h
    exact ⟨h1, h2⟩
  · rintro ⟨h1, h2⟩
    exact ⟨_, (commitC_split S i c cfg q applied _).2
      ⟨h1, h2, commit_adj_redundant S hr i c cfg q applied h1.k h2, rfl⟩⟩

theorem commitC_accepts (S : CSys) (hr : ReachPC S) (i c : Nat) (cfg : Cfg) (q : List Nat) (applied : Nat)
    (hloc : commitLocal S i c cfg applied) (hcore : commitCore S.base i c cfg q = true) :
    applyEventC S (.commitLeader i c cfg q applied) = .ok (commitPostC S i c cfg applied) :=
  (commitC_split S i c cfg q applied _).2
    ⟨hloc, hcore, commit_adj_redundant S hr i c cfg q applied hloc.k hcore, rfl⟩

/-- the same, read as a statement about P: on the P state underlying a reachable PC state, P's own
`win` is accepted as soon as its configuration-free guard and PC's local condition hold -/
theorem win_accepted_by_P (S : CSys) (hr : ReachPC S) (i : Nat) (cfg : Cfg) (q : List Nat) (applied : Nat)
    (hloc : winLocal S i cfg applied) (hcore : winCore S.base i cfg q = true) :
    applyEvent S.base (.win i cfg q) = .ok (winPost S.base i cfg) :=
  (win_split S.base i cfg q _).2 ⟨hcore, win_adj_redundant S hr i cfg q applied hloc hcore, rfl⟩

theorem commit_accepted_by_P (S : CSys) (hr : ReachPC S) (i c : Nat) (cfg : Cfg) (q : List Nat) (applied : Nat)
    (hloc : commitLocal S i c cfg applied) (hcore : commitCore S.base i c cfg q = true) :
    applyEvent S.base (.commitLeader i c cfg q) = .ok (commitPost S.base i c cfg) :=
  (commit_split S.base i c cfg q _).2 ⟨hcore, commit_adj_redundant S hr i c cfg q applied hloc.k hcore, rfl⟩

/-! ### the read-index events -/

/-- **K (read)**: the cross-history part of the guard of `resp` / leader-local `rstate` is implied -/
theorem read_adj_redundant (S : CSys) (hr : ReachPC S) (i rid idx : Nat) (cfg : Cfg) (applied : Nat) (r : ReadRec)
    (hfind : S.base.rd.issued.find? (fun r => r.rid = rid) = some r)
    (hloc : applied ≤ (S.base.nodes i).commit ∧
            S.vtab[confCount ((S.base.nodes i).log.take applied)]? = some cfg ∧
            verMono S (S.base.nodes i).term (confCount ((S.base.nodes i).log.take applied)) = true)
    (hcore : respCore S.base i rid idx cfg = true) :
    rdCfgOk S.base cfg (S.base.nodes i).term r.ncm = true :=
  read_adj_of_inv S (invAll_reachR _ (reach_base hr)) (invRd_reachR _ (reach_base hr)) (invCfg_reach hr)
    i rid idx cfg applied r hfind hloc hcore

/-- the local condition of PC's `resp` / leader-local `rstate` -/
def readLocal (S : CSys) (i : Nat) (cfg : Cfg) (applied : Nat) : Prop :=
  applied ≤ (S.base.nodes i).commit ∧
  S.vtab[confCount ((S.base.nodes i).log.take applied)]? = some cfg ∧
  verMono S (S.base.nodes i).term (confCount ((S.base.nodes i).log.take applied)) = true

/-- the state of P after `resp _ rid idx _` for the request record `r` -/
def respPost (s : PSys) (rid idx : Nat) (r : ReadRec) : PSys :=
  { s with rd := { s.rd with resps := ⟨rid, r.node, idx⟩ :: s.rd.resps } }

/-- the state of P after `rstate j rid idx _` -/
def rstatePost (s : PSys) (j rid idx : Nat) : PSys :=
  { s with rd := { s.rd with done := ⟨rid, j, idx⟩ :: s.rd.done } }

/-- **P's `resp` succeeds iff the request is known and the configuration-free part and the
cross-history part of its guard hold** -/
theorem resp_split (s : PSys) (i rid idx : Nat) (cfg : Cfg) (s' : PSys) :
    applyEvent s (.read (.resp i rid idx cfg)) = .ok s' ↔
      ∃ r, s.rd.issued.find? (fun r => r.rid = rid) = some r ∧ respCore s i rid idx cfg = true ∧
        rdCfgOk s cfg (s.nodes i).term r.ncm = true ∧ s' = respPost s rid idx r := by
  constructor
  · intro h
    obtain ⟨rd, hrd, hs'⟩ := read_apply h
    subst hs'
    simp only [applyRead] at hrd
    split at hrd
    · rename_i r hfind
      split at hrd
      · rename_i hg
        injection hrd with hrd
        subst hrd
        refine ⟨r, hfind, ?_, hg.2.2.2.2, rfl⟩
        simp only [respCore, Bool.and_eq_true, decide_eq_true_eq]
        exact ⟨⟨⟨hg.1, hg.2.1⟩, hg.2.2.1⟩, hg.2.2.2.1⟩
      · cases hrd
    · cases hrd
  · rintro ⟨r, hfind, hcore, hcf, hs'⟩
    simp only [respCore, Bool.and_eq_true, decide_eq_true_eq] at hcore
    obtain ⟨⟨⟨h1, h2⟩, h3⟩, h4⟩ := hcore
    subst hs'
    simp only [applyEvent, applyRead, hfind]
    rw [if_pos ⟨h1, h2, h3, h4, hcf⟩]
    rfl

/-- **P's `rstate` succeeds iff the request is known, was issued on this running node, and either
the answer is a released response or the guard of a leader-local read holds** -/
theorem rstate_split (s : PSys) (j rid idx : Nat) (cfg : Cfg) (s' : PSys) :
    applyEvent s (.read (.rstate j rid idx cfg)) = .ok s' ↔
      ∃ r, s.rd.issued.find? (fun r => r.rid = rid) = some r ∧ (s.nodes j).up = true ∧ r.node = j ∧
        (s.rd.resps.contains ⟨rid, j, idx⟩ = true ∨
          (respCore s j rid idx cfg = true ∧ rdCfgOk s cfg (s.nodes j).term r.ncm = true)) ∧
        s' = rstatePost s j rid idx := by
  constructor
  · intro h
    obtain ⟨rd, hrd, hs'⟩ := read_apply h
    subst hs'
    simp only [applyRead] at hrd
    split at hrd
    · rename_i r hfind
      split at hrd
      · rename_i hg
        injection hrd with hrd
        subst hrd
        refine ⟨r, hfind, hg.1, hg.2.1, ?_, rfl⟩
        rcases hg.2.2 with hin | hl
        · exact Or.inl hin
        · refine Or.inr ⟨?_, hl.2.2.2⟩
          simp only [respCore, Bool.and_eq_true, decide_eq_true_eq]
          exact ⟨⟨⟨hg.1, hl.1⟩, hl.2.1⟩, hl.2.2.1⟩
      · cases hrd
    · cases hrd
  · rintro ⟨r, hfind, hup, hnode, hor, hs'⟩
    subst hs'
    have hg : (s.nodes j).up = true ∧ r.node = j ∧ (s.rd.resps.contains ⟨rid, j, idx⟩ = true ∨
        ((s.nodes j).role = 2 ∧ s.rd.started.contains ⟨rid, j, (s.nodes j).term, idx⟩ = true ∧
          rdQuorum s cfg j (s.nodes j).term rid = true ∧ rdCfgOk s cfg (s.nodes j).term r.ncm = true)) := by
      refine ⟨hup, hnode, ?_⟩
      rcases hor with hin | ⟨hcore, hcf⟩
      · exact Or.inl hin
      · simp only [respCore, Bool.and_eq_true, decide_eq_true_eq] at hcore
        obtain ⟨⟨⟨_, h2⟩, h3⟩, h4⟩ := hcore
        exact Or.inr ⟨h2, h3, h4, hcf⟩
    simp only [applyEvent, applyRead, hfind]
    rw [if_pos hg]
    rfl

/-- in any state: PC's `resp` succeeds iff local ∧ known request ∧ core ∧ cross-history -/
theorem respC_split (S : CSys) (i rid idx : Nat) (cfg : Cfg) (applied : Nat) (S' : CSys) :
    applyEventC S (.resp i rid idx cfg applied) = .ok S' ↔
      (readLocal S i cfg applied ∧ ∃ r, S.base.rd.issued.find? (fun r => r.rid = rid) = some r ∧
        respCore S.base i rid idx cfg = true ∧ rdCfgOk S.base cfg (S.base.nodes i).term r.ncm = true ∧
        S' = { S with base := respPost S.base rid idx r }) := by
  constructor
  · intro h
    simp only [applyEventC] at h
    split at h
    · rename_i hloc
      split at h
      · rename_i b hb
        cases h
        obtain ⟨r, h1, h2, h3, h4⟩ := (resp_split S.base i rid idx cfg b).1 hb
        subst h4
        exact ⟨hloc, r, h1, h2, h3, rfl⟩
      · cases h
    · cases h
  · rintro ⟨hloc, r, h1, h2, h3, h4⟩
    have hb := (resp_split S.base i rid idx cfg _).2 ⟨r, h1, h2, h3, rfl⟩
    subst h4
    unfold readLocal at hloc
    simp only [applyEventC]
    rw [if_pos hloc, hb]

/-- in any state: PC's `rstate` succeeds iff the request is known, was issued on this running node,
and the answer is a released response or local ∧ core ∧ cross-history -/
theorem rstateC_split (S : CSys) (j rid idx : Nat) (cfg : Cfg) (applied : Nat) (S' : CSys) :
    applyEventC S (.rstate j rid idx cfg applied) = .ok S' ↔
      (∃ r, S.base.rd.issued.find? (fun r => r.rid = rid) = some r ∧ (S.base.nodes j).up = true ∧ r.node = j ∧
        (S.base.rd.resps.contains ⟨rid, j, idx⟩ = true ∨
          (readLocal S j cfg applied ∧ respCore S.base j rid idx cfg = true ∧
            rdCfgOk S.base cfg (S.base.nodes j).term r.ncm = true)) ∧
        S' = { S with base := rstatePost S.base j rid idx }) := by
  constructor
  · intro h
    simp only [applyEventC] at h
    split at h
    · rename_i hloc
      split at h
      · rename_i b hb
        cases h
        obtain ⟨r, h1, h2, h3, h4, h5⟩ := (rstate_split S.base j rid idx cfg b).1 hb
        subst h5
        refine ⟨r, h1, h2, h3, ?_, rfl⟩
        by_cases hin : S.base.rd.resps.contains ⟨rid, j, idx⟩ = true
        · exact Or.inl hin
        · exact Or.inr ⟨hloc.resolve_left hin, h4.resolve_left hin⟩
      · cases h
    · cases h
  · rintro ⟨r, h1, h2, h3, h4, h5⟩
    have hb := (rstate_split S.base j rid idx cfg _).2 ⟨r, h1, h2, h3,
      h4.elim Or.inl (fun h => Or.inr ⟨h.2.1, h.2.2⟩), rfl⟩
    subst h5
    have hloc : S.base.rd.resps.contains ⟨rid, j, idx⟩ = true ∨ readLocal S j cfg applied :=
      h4.elim Or.inl (fun h => Or.inr h.1)
    unfold readLocal at hloc
    simp only [applyEventC]
    rw [if_pos hloc, hb]

/-- a registered request is a known one -/
theorem started_find {s : PSys} (hRd : InvRd s) {x : ReadStart} (hx : x ∈ s.rd.started) :
    ∃ r, s.rd.issued.find? (fun r => r.rid = x.rid) = some r := by
  obtain ⟨r, hr, hrid, _⟩ := hRd.st x hx
  cases hf : s.rd.issued.find? (fun r => decide (r.rid = x.rid)) with
  | some r0 => exact ⟨r0, rfl⟩
  | none =>
    rw [List.find?_eq_none] at hf
    have := hf r hr
    simp [hrid] at this

/-- **on reachable states PC accepts `resp` iff the local condition and the configuration-free part
of P's guard hold**: the cross-history guard is never the reason for a rejection -/
theorem respC_accepts_iff (S : CSys) (hr : ReachPC S) (i rid idx : Nat) (cfg : Cfg) (applied : Nat) :
    (∃ S', applyEventC S (.resp i rid idx cfg applied) = .ok S') ↔
      (readLocal S i cfg applied ∧ respCore S.base i rid idx cfg = true) := by
  constructor
  · rintro ⟨S', h⟩
    obtain ⟨h1, r, _, h2, _⟩ := (respC_split S i rid idx cfg applied S').1 h
    exact ⟨h1, h2⟩
  · rintro ⟨h1, h2⟩
    obtain ⟨r, hfind⟩ := started_find (invRd_reachR _ (reach_base hr)) (respCore_unpack h2).2.2.1
    exact ⟨_, (respC_split S i rid idx cfg applied _).2
      ⟨h1, r, hfind, h2, read_adj_redundant S hr i rid idx cfg applied r hfind h1 h2, rfl⟩⟩

/-- **on reachable states PC accepts `rstate` iff the request is known, was issued on this running
node, and the answer is a released response or the local condition and the configuration-free part
of P's guard of a leader-local read hold** -/
theorem rstateC_accepts_iff (S : CSys) (hr : ReachPC S) (j rid idx : Nat) (cfg : Cfg) (applied : Nat) :
    (∃ S', applyEventC S (.rstate j rid idx cfg applied) = .ok S') ↔
      (∃ r, S.base.rd.issued.find? (fun r => r.rid = rid) = some r ∧ (S.base.nodes j).up = true ∧ r.node = j ∧
        (S.base.rd.resps.contains ⟨rid, j, idx⟩ = true ∨
          (readLocal S j cfg applied ∧ respCore S.base j rid idx cfg = true))) := by
  constructor
  · rintro ⟨S', h⟩
    obtain ⟨r, h1, h2, h3, h4, _⟩ := (rstateC_split S j rid idx cfg applied S').1 h
    exact ⟨r, h1, h2, h3, h4.elim Or.inl (fun h => Or.inr ⟨h.1, h.2.1⟩)⟩
  · rintro ⟨r, h1, h2, h3, h4⟩
    refine ⟨_, (rstateC_split S j rid idx cfg applied _).2 ⟨r, h1, h2, h3, ?_, rfl⟩⟩
    rcases h4 with hin | ⟨hl, hc⟩
    · exact Or.inl hin
    · exact Or.inr ⟨hl, hc, read_adj_redundant S hr j rid idx cfg applied r h1 hl hc⟩

/-- the same, read as a statement about P: on the P state underlying a reachable PC state, P's own
`resp` is accepted as soon as its configuration-free guard and PC's local condition hold -/
theorem resp_accepted_by_P (S : CSys) (hr : ReachPC S) (i rid idx : Nat) (cfg : Cfg) (applied : Nat)
    (hloc : readLocal S i cfg applied) (hcore : respCore S.base i rid idx cfg = true) :
    ∃ b, applyEvent S.base (.read (.resp i rid idx cfg)) = .ok b := by
  obtain ⟨r, hfind⟩ := started_find (invRd_reachR _ (reach_base hr)) (respCore_unpack hcore).2.2.1
  exact ⟨_, (resp_split S.base i rid idx cfg _).2
    ⟨r, hfind, hcore, read_adj_redundant S hr i rid idx cfg applied r hfind hloc hcore, rfl⟩⟩

end RaftModel.P
