import RaftProofs.ClusterSnapC

/-!
Commit safety of `ClusterSem` with log compaction, part E: the nodes of a history under `Snap.Hyp2`
(`node_ok`), **what one step does to the log of one node** (`node_step`: as `Cluster.node_step`, plus
the compaction case), and the chains of a history (`HistChain`) with the ghost logs of a node
(`FL`, `FS`).
-/
namespace RaftModel
namespace Cluster
namespace Snap
open Node Raft Raft.CC RaftProps.C02 RaftProps.C05

variable {cfg : JointConfig} {c0 : Nat} {h : List Sys}

/-- the shape of every node of a history under `Hyp2` -/
structure NodeOk (i : Nat) (st : NState) : Prop where
  inv : st.raft.raftLog.Inv
  snap : st.raft.raftLog.unstable.snapshot = none
  sidx : (storeLog st.raft.raftLog.store).snapIdx = st.raft.raftLog.abs.snapIdx
  sterm : (storeLog st.raft.raftLog.store).snapTerm = st.raft.raftLog.abs.snapTerm
  id : st.raft.id = i
  nb : st.raft.batchAppend = false

theorem node_ok (H : Hyp2w cfg c0 h) {n : Nat} {s : Sys} (hn : h[n]? = some s) {i : Nat}
    {st : NState} (hi : s.node i = some st) : NodeOk i st := by
  obtain ⟨s0, _, hall⟩ := H.inv_at
  have hm := mem_of_get hn
  have h1 := H.nopend s hm i st hi
  refine ⟨(hall s hm).inv i st hi, h1, ?_, ?_, (((hist_all H.hist).1 s hm).ids i st hi).1,
    H.nb s hm i st hi⟩
  · rw [RaftLog.abs_none h1]; rfl
  · rw [RaftLog.abs_none h1]; rfl

/-- the snapshot point is not beyond the commit index -/
theorem NodeOk.snap_le {i : Nat} {st : NState} (o : NodeOk i st) :
    st.raft.raftLog.abs.snapIdx ≤ st.raft.raftLog.committed := by
  have := o.inv.dummy_le_committed
  rw [o.inv.firstIndex_abs] at this
  simp only [LLog.firstIndex] at this
  omega

/-- what one step does to one node -/
inductive NodeStep (a : Sys) (v : Nat) (sta stb : NState) : Prop
  /-- the logical log is untouched (another node stepped, a `send`, or a call that keeps the log) -/
  | same (hl : stb.raft.raftLog.abs = sta.raft.raftLog.abs)
  /-- a leader appended entries of its term -/
  | grew (es : List Entry) (hg : Appended sta.raft stb.raft es)
  /-- a `MsgAppend` of the transport was accepted -/
  | acc (m : Message) (hm : m ∈ a.net) (hty : m.msgType = .msgAppend) (hto : m.to = v)
      (ha : Accepted sta.raft.raftLog.abs stb.raft.raftLog.abs m)
      (hc : stb.raft.raftLog.committed =
        max sta.raft.raftLog.committed (min m.commit (m.index + m.entries.length)))
      (hci : sta.raft.raftLog.committed ≤ m.index)
      (hs : stb.raft.state = .follower) (ht : m.term = stb.raft.term ∨ m.term = 0)
  /-- crash and restart: the log is the stored one -/
  | restart (hl : stb.raft.raftLog.abs = storeLog sta.raft.raftLog.store)
      (hs : stb.raft.state = .follower)
      (ht : stb.raft.term = sta.raft.raftLog.store.hardState.term)
  /-- the application compacted the storage -/
  | compacted (k : Nat) (ho : CompactOut sta stb k)

/-- what a `call` / `deliver` step does to the logical log of its node -/
inductive CallStep (a : Sys) (v : Nat) (sta stb : NState) : Prop
  | same (hl : stb.raft.raftLog.abs = sta.raft.raftLog.abs)
  | grew (es : List Entry) (hg : Appended sta.raft stb.raft es)
  | acc (m : Message) (hm : m ∈ a.net) (hty : m.msgType = .msgAppend) (hto : m.to = v)
      (ha : Accepted sta.raft.raftLog.abs stb.raft.raftLog.abs m)
      (hc : stb.raft.raftLog.committed =
        max sta.raft.raftLog.committed (min m.commit (m.index + m.entries.length)))
      (hci : sta.raft.raftLog.committed ≤ m.index)
      (hs : stb.raft.state = .follower) (ht : m.term = stb.raft.term ∨ m.term = 0)
  | compacted (k : Nat) (ho : CompactOut sta stb k)

/-- a call that is not a compaction: as without compaction (`Cluster.CallStep`) -/
theorem call_step0 (H : Hyp2w cfg c0 h) {n : Nat} {a : Sys} (ha : h[n]? = some a) {k : Nat}
    {st st' : NState} {rnd : Option Nat} {op : NodeOp} {res : OpRes} (h1 : a.node k = some st)
    (hop : appOp op = true ∨ ∃ m, op = .step m ∧ m ∈ a.net ∧ m.to = k)
    (hnc : ∀ j, op ≠ .compact j)
    (h4 : Node.call st rnd op = .ok (res, st')) :
    Cluster.CallStep a k st st' := by
  obtain ⟨s0, _, hall⟩ := H.inv_at
  have I := hall a (mem_of_get ha)
  have generic : (∀ m, op = .step m → m.msgType ≠ .msgAppend) → Cluster.CallStep a k st st' := by
    intro hna
    obtain ⟨_, _, _, hl, _⟩ := call_facts H ha h1 hop (fun j hj => absurd hj (hnc j)) h4
    rcases hl with (c | ⟨es, c⟩ | c) | ⟨j, c, _⟩
    · exact .same c
    · exact .grew es c
    · rcases hop with h2 | ⟨m, rfl, _, _⟩
      · cases op <;> first | (cases h2; done) | (cases c; done)
      · exact absurd c (hna m rfl)
    · exact absurd c (hnc j)
  rcases hop with h2 | ⟨m, rfl, h2, h3⟩
  · exact generic (fun m hm => by rw [hm] at h2; cases h2)
  · by_cases hty : m.msgType = .msgAppend
    · have hok := I.msgOk h2 hty
      have hag := I.agree .net (msgLog m) (.log k) _ ⟨m, h2, hty, rfl⟩ ⟨st, h1, rfl⟩
      cases append_call (I.inv k st h1) hty hok hag h4 with
      | noacc hl _ _ => exact .same hl
      | acc ha' hc hci hs ht _ => exact .acc m h2 hty h3 ha' hc hci hs ht
    · exact generic (fun m' hm' => by cases hm'; exact hty)

theorem call_step (H : Hyp2w cfg c0 h) {n : Nat} {a : Sys} (ha : h[n]? = some a) {k : Nat}
    {st st' : NState} {rnd : Option Nat} {op : NodeOp} {res : OpRes} (h1 : a.node k = some st)
    (hop : appOp op = true ∨ ∃ m, op = .step m ∧ m ∈ a.net ∧ m.to = k)
    (hco : ∀ j, op = .compact j → CompactOk st.raft.raftLog j)
    (h4 : Node.call st rnd op = .ok (res, st')) :
    CallStep a k st st' := by
  by_cases hcomp : ∃ j, op = .compact j
  · obtain ⟨j, rfl⟩ := hcomp
    obtain ⟨s0, _, hall⟩ := H.inv_at
    exact .compacted j (compact_out ((hall a (mem_of_get ha)).inv k st h1)
      (H.nopend a (mem_of_get ha) k st h1) (hco j rfl) h4)
  · cases call_step0 H ha h1 hop (fun j hj => hcomp ⟨j, hj⟩) h4 with
    | same hl => exact .same hl
    | grew es hg => exact .grew es hg
    | acc m hm hty hto ha' hc hci hs ht => exact .acc m hm hty hto ha' hc hci hs ht

theorem CallStep.node {a : Sys} {v : Nat} {sta stb : NState} (hs : CallStep a v sta stb) :
    NodeStep a v sta stb := by
  cases hs with
  | same hl => exact .same hl
  | grew es hg => exact .grew es hg
  | acc m hm hty hto ha hc hci hs ht => exact .acc m hm hty hto ha hc hci hs ht
  | compacted k ho => exact .compacted k ho

theorem node_step (H : Hyp2w cfg c0 h) {n : Nat} {a b : Sys} (ha : h[n]? = some a)
    (hb : h[n + 1]? = some b) {v : Nat} {sta stb : NState} (hva : a.node v = some sta)
    (hvb : b.node v = some stb) : NodeStep a v sta stb := by
  obtain ⟨s0, _, hall⟩ := H.inv_at
  have I := hall a (mem_of_get ha)
  have other : ∀ (k : Nat) (st' : NState), v ≠ k → (a.setNode k st').node v = some stb →
      NodeStep a v sta stb := by
    intro k st' hvk hb'
    rw [node_setNode_ne a k v st' hvk, hva] at hb'
    cases hb'
    exact .same rfl
  cases H.steps n a b ha hb with
  | call k st st' rnd op res h1 h2 h3 _ h4 =>
    by_cases hvk : v = k
    · subst hvk
      rw [node_setNode_self] at hvb
      rw [h1] at hva
      cases hva; cases hvb
      exact (call_step H ha h1 (.inl h2) h3 h4).node
    · exact other k st' hvk hvb
  | deliver k st st' rnd m res h1 h2 h3 h4 =>
    by_cases hvk : v = k
    · subst hvk
      rw [node_setNode_self] at hvb
      rw [h1] at hva
      cases hva; cases hvb
      exact (call_step H ha h1 (.inr ⟨m, rfl, h2, h3⟩) (fun j hc => by cases hc) h4).node
    · exact other k st' hvk hvb
  | send k st st' h1 _ _ h3 =>
    have hvb' : (a.setNode k st').node v = some stb := hvb
    by_cases hvk : v = k
    · subst hvk
      rw [node_setNode_self] at hvb'
      rw [h1] at hva
      cases hva; cases hvb'
      refine .same ?_
      unfold Node.call at h3
      simp only [applyOp] at h3
      cases h3; rfl
    · exact other k st' hvk hvb'
  | restart k st st' c rnd h1 _ h3 =>
    by_cases hvk : v = k
    · subst hvk
      rw [node_setNode_self] at hvb
      rw [h1] at hva
      cases hva; cases hvb
      have hbt := CV.boot_booted c _ rnd stb h3
      obtain ⟨_, habs, _⟩ := boot_log c _ rnd stb (I.inv v sta h1).storeWF h3
      exact .restart habs hbt.state hbt.term
    · exact other k st' hvk hvb

/-! ### the chains of a history, and the ghost logs of a node -/

/-- a chain that sits somewhere in some state of the history -/
def HistChain (h : List Sys) (g : LLog) : Prop :=
  ∃ (m : Nat) (s : Sys) (loc : Loc), h[m]? = some s ∧ At s loc g

/-- the chains of a history agree pairwise (Log Matching across time) -/
theorem hist_agree (H : Hyp2w cfg c0 h) : ∀ g g', HistChain h g → HistChain h g' → Agree g g' := by
  rintro g g' ⟨m, s, l, hm, hat⟩ ⟨m', s', l', hm', hat'⟩
  exact agree_all H m m' s s' hm hm' l l' g g' hat hat'

theorem hist_log {n : Nat} {s : Sys} (hn : h[n]? = some s) {i : Nat} {st : NState}
    (hi : s.node i = some st) : HistChain h st.raft.raftLog.abs :=
  ⟨n, s, .log i, hn, st, hi, rfl⟩

theorem hist_store {n : Nat} {s : Sys} (hn : h[n]? = some s) {i : Nat} {st : NState}
    (hi : s.node i = some st) : HistChain h (storeLog st.raft.raftLog.store) :=
  ⟨n, s, .store i, hn, st, hi, rfl⟩

/-- the uncompacted logical log of a node -/
noncomputable def FL (h : List Sys) (c0 : Nat) (st : NState) : LLog :=
  fl (HistChain h) c0 st.raft.raftLog.abs

/-- the uncompacted stored log of a node -/
noncomputable def FS (h : List Sys) (c0 : Nat) (st : NState) : LLog :=
  fl (HistChain h) c0 (storeLog st.raft.raftLog.store)

end Snap
end Cluster
end RaftModel
