import RaftProofs.ClusterSnapH

/-!
Commit safety of `ClusterSem` with log compaction, part I: `req_inv` (a candidate's vote requests
describe the end of its log — a compaction keeps the end of the log), `cand_q` and `leader_no_ack` of
`ClusterCommit2G/2R` for `Snap.Hyp2`.
-/
namespace RaftModel
namespace Cluster
namespace Snap
open Node Raft Raft.CC RaftProps.C02 RaftProps.C05

variable {cfg : JointConfig} {c0 : Nat} {h : List Sys}

/-- a compaction that leaves an entry keeps the end of the log -/
theorem compactTo_last (g : LLog) (k : Nat) (hk : g.snapIdx < k → k < g.lastIndex) :
    (g.compactTo k).lastTerm = g.lastTerm ∧ (g.compactTo k).lastIndex = g.lastIndex := by
  by_cases hle : k ≤ g.snapIdx
  · have : g.compactTo k = g := by unfold LLog.compactTo; rw [if_pos hle]
    rw [this]; exact ⟨rfl, rfl⟩
  · have hk' := hk (by omega)
    have hl := compactTo_lastIndex g k (Nat.le_of_lt hk')
    refine ⟨?_, hl⟩
    obtain ⟨e, he⟩ := g.entryAt_exists (i := g.lastIndex) (by omega) (Nat.le_refl _)
    have he' : (g.compactTo k).entryAt g.lastIndex = some e := by
      rw [LLog.compactTo_entryAt g k _ (Nat.le_of_lt hk'), if_neg (by omega)]; exact he
    unfold LLog.lastTerm
    rw [hl, g.term_of_entry he, (g.compactTo k).term_of_entry he']


theorem req_inv (H : Hyp2w cfg c0 h) : ∀ (n : Nat) (s : Sys), h[n]? = some s → ReqInv s := by
  have hall1 := (hist_all H.hist).1
  refine hist_induct h _ ?_ ?_
  · intro s h0 x st hx hs
    obtain ⟨c, store, rnd, _, hb⟩ := (hist_init H.hist s h0).2 x st hx
    rw [(CV.boot_booted c store rnd st hb).state] at hs; cases hs
  · intro n a b ha hb ih
    have I1 := hall1 a (mem_of_get ha)
    have hstep := H.steps n a b ha hb
    -- a real vote request of `x` that was around before the step, at a term `x` had not reached
    have noOld : ∀ x st q, a.node x = some st → (q ∈ a.net ∨ q ∈ st.raft.msgs) →
        q.msgType = .msgRequestVote → q.frm = x → q.term ≤ st.raft.term := by
      intro x st q hx hq hty hfrm
      have hrv : CV.isRVm q = true := by simp [CV.isRVm, hty]
      have hge : CV.Ge st.raft q.term (tgt q) := by
        rcases hq with g | g
        · obtain ⟨stq, h1, hok, _⟩ := I1.net q g hrv
          rw [hfrm, hx] at h1; cases h1
          exact hok.2.2.2.1
        · exact (I1.queue x st hx q g hrv).2.2.2.1
      rcases hge with c | ⟨c, _⟩ <;> omega
    have callCase : ∀ (k : Nat) (st st' : NState) (rnd : Option Nat) (op : NodeOp) (res : OpRes),
        a.node k = some st → (appOp op = true ∨ ∃ m, op = .step m ∧ m ∈ a.net ∧ m.to = k) →
        (∀ j, op = .compact j → CompactOk st.raft.raftLog j) → Node.call st rnd op = .ok (res, st') → b = a.setNode k st' →
        ReqInv b := by
      intro k st st' rnd op res h1 hop hnc h4 hbe
      intro x stx hx hs q hq hty hfrm hterm
      by_cases hxk : x = k
      · subst hxk
        have hxb : b.node x = some st' := by rw [hbe]; exact node_setNode_self a x st'
        rw [hxb] at hx; cases hx
        obtain ⟨g, hL, _, _, _⟩ := call_facts H ha h1 hop hnc h4
        have hnet : b.net = a.net := by rw [hbe]; rfl
        -- a request queued in this call is accurate
        have fresh : q ∈ st'.raft.msgs → q ∉ st.raft.msgs →
            q.index = st'.raft.raftLog.lastIndex ∧ st'.raft.raftLog.lastTerm = .ok q.logTerm := by
          intro hq1 hq2
          rcases g.qrq q hq1 hty with c | c
          · exact absurd c hq2
          · exact ⟨c.last, c.lt⟩
        rcases hL.rt.cand hs with c | ⟨c1, c2⟩
        · -- the node became candidate of a new term in this step: every request of it is fresh
          have hold : ¬ (q ∈ a.net ∨ q ∈ st.raft.msgs) := by
            intro hc
            have := noOld x st q h1 hc hty hfrm
            omega
          rcases hq with g1 | g1
          · rw [hnet] at g1; exact absurd (.inl g1) hold
          · exact fresh g1 (fun hc => hold (.inr hc))
        · -- it was candidate of the term before: its log is untouched
          have hns := node_step H ha hb h1 hxb
          have hi1 := (node_ok H ha h1).inv
          have hi2 := (node_ok H hb hxb).inv
          have he12 : st'.raft.raftLog.lastIndex = st.raft.raftLog.lastIndex ∧
              st'.raft.raftLog.lastTerm = st.raft.raftLog.lastTerm := by
            rw [hi1.lastIndex_abs, hi2.lastIndex_abs, hi1.lastTerm_abs, hi2.lastTerm_abs]
            cases hns with
            | same hl => rw [hl]; exact ⟨rfl, rfl⟩
            | grew es hg => rw [hg.leader] at hs; cases hs
            | acc m _ _ _ _ _ _ hs' _ => rw [hs'] at hs; cases hs
            | restart _ hs' _ => rw [hs'] at hs; cases hs
            | compacted j ho =>
              rw [ho.abs]
              obtain ⟨k1, k2⟩ := compactTo_last _ (j - 1) (ho.lt hi1).1
              exact ⟨k2, k1⟩
          obtain ⟨e1, e2⟩ := he12
          by_cases hold : q ∈ a.net ∨ q ∈ st.raft.msgs
          · have := ih x st h1 c2 q hold hty hfrm (by omega)
            rw [e1, e2]; exact this
          · rcases hq with g1 | g1
            · rw [hnet] at g1; exact absurd (.inl g1) hold
            · exact fresh g1 (fun hc => hold (.inr hc))
      · have hxa : a.node x = some stx := by
          rw [hbe, node_setNode_ne a k x st' hxk] at hx; exact hx
        have hnet : b.net = a.net := by rw [hbe]; rfl
        rw [hnet] at hq
        exact ih x stx hxa hs q hq hty hfrm hterm
    cases hstep with
    | call k st st' rnd op res h1 h2 h3 _ h4 =>
      exact callCase k st st' rnd op res h1 (.inl h2) h3 h4 rfl
    | deliver k st st' rnd m res h1 h2 h3 h4 =>
      exact callCase k st st' rnd (.step m) res h1 (.inr ⟨m, rfl, h2, h3⟩)
        (fun j hc => by cases hc) h4 rfl
    | send k st st' h1 h2 _ h3 =>
      have hf : st'.raft.msgs = [] ∧ st'.raft.state = st.raft.state ∧
          st'.raft.raftLog = st.raft.raftLog ∧ st'.raft.term = st.raft.term := by
        unfold Node.call at h3
        simp only [applyOp] at h3
        cases h3; exact ⟨rfl, rfl, rfl, rfl⟩
      obtain ⟨f1, f2, f3, f4⟩ := hf
      intro x stx hx hs q hq hty hfrm hterm
      have hx' : (a.setNode k st').node x = some stx := hx
      have hq' : q ∈ a.net ++ st.raft.msgs ∨ q ∈ stx.raft.msgs := hq
      by_cases hxk : x = k
      · subst hxk
        rw [node_setNode_self] at hx'; cases hx'
        rw [f3]
        rw [f2] at hs
        rw [f4] at hterm
        refine ih x st h1 hs q ?_ hty hfrm hterm
        rcases hq' with g | g
        · exact (List.mem_append.1 g).imp (fun c => c) (fun c => c)
        · rw [f1] at g; cases g
      · rw [node_setNode_ne a k x st' hxk] at hx'
        refine ih x stx hx' hs q ?_ hty hfrm hterm
        rcases hq' with g | g
        · rcases List.mem_append.1 g with c | c
          · exact .inl c
          · -- a queued real vote request carries its sender
            have hrv : CV.isRVm q = true := by simp [CV.isRVm, hty]
            have := (I1.queue k st h1 q c hrv).1
            exact absurd (hfrm.symm.trans this) hxk
        · exact .inr g
    | restart k st st' c rnd h1 h2 h3 =>
      intro x stx hx hs q hq hty hfrm hterm
      by_cases hxk : x = k
      · subst hxk
        rw [node_setNode_self] at hx; cases hx
        rw [(CV.boot_booted c _ rnd st' h3).state] at hs; cases hs
      · rw [node_setNode_ne a k x st' hxk] at hx
        exact ih x stx hx hs q hq hty hfrm hterm


/-- a real vote request of `x` that is around carries a term `x` has reached -/
theorem req_term_le (H : Hyp2w cfg c0 h) {n : Nat} {a : Sys} (ha : h[n]? = some a) {x : Nat}
    {st : NState} {q : Message} (hx : a.node x = some st) (hq : q ∈ a.net ∨ q ∈ st.raft.msgs)
    (hty : q.msgType = .msgRequestVote) (hfrm : q.frm = x) : q.term ≤ st.raft.term := by
  have I1 := (hist_all H.hist).1 a (mem_of_get ha)
  have hrv : CV.isRVm q = true := by simp [CV.isRVm, hty]
  have hge : CV.Ge st.raft q.term (tgt q) := by
    rcases hq with g | g
    · obtain ⟨stq, h1, hok, _⟩ := I1.net q g hrv
      rw [hfrm, hx] at h1; cases h1
      exact hok.2.2.2.1
    · exact (I1.queue x st hx q g hrv).2.2.2.1
  rcases hge with c | ⟨c, _⟩ <;> omega

theorem cand_q (H : Hyp2w cfg c0 h) : ∀ (n : Nat) (s : Sys), h[n]? = some s → CandQ s := by
  have hall1 := (hist_all H.hist).1
  refine hist_induct h _ ?_ ?_
  · intro s h0 x st hx _ _ a ha
    rw [init_queue (hist_init H.hist s h0) x st hx] at ha; cases ha
  · intro n a b ha hb ih
    have I1 := hall1 a (mem_of_get ha)
    have hstep := H.steps n a b ha hb
    have callCase : ∀ (k : Nat) (st st' : NState) (rnd : Option Nat) (op : NodeOp) (res : OpRes),
        a.node k = some st → (appOp op = true ∨ ∃ m, op = .step m ∧ m ∈ a.net ∧ m.to = k) →
        (∀ j, op = .compact j → CompactOk st.raft.raftLog j) → Node.call st rnd op = .ok (res, st') → b = a.setNode k st' →
        CandQ b := by
      intro k st st' rnd op res h1 hop hnc h4 hbe
      have hnet : b.net = a.net := by rw [hbe]; rfl
      intro x stx hx hs ⟨q, hq, hty, hfrm, hterm⟩ y hy hack
      rw [hnet] at hq
      by_cases hxk : x = k
      · subst hxk
        have hxb : b.node x = some st' := by rw [hbe]; exact node_setNode_self a x st'
        rw [hxb] at hx; cases hx
        apply Classical.byContradiction
        intro hidx
        obtain ⟨_, hL, _, _⟩ := call_facts H ha h1 hop hnc h4
        have hqt := req_term_le H ha h1 (.inl hq) hty hfrm
        rcases fresh_ack H ha h1 hop hnc h4 hy hack hidx with c | ⟨_, _, _, c⟩
        · -- the response was queued before: the node was candidate / leader of this term already
          have hold : (st.raft.state = .candidate ∨ st.raft.state = .leader) ∧
              st.raft.term = st'.raft.term := by
            rcases hs with hs | hs
            · rcases hL.rt.cand hs with d | ⟨d1, d2⟩
              · omega
              · exact ⟨.inl d2, d1⟩
            · rcases hL.rt.lead hs with d | ⟨d1, d2⟩
              · omega
              · exact ⟨d2, d1⟩
          exact hidx (ih x st h1 hold.1 ⟨q, hq, hty, hfrm, by rw [hold.2]; exact hterm⟩ y c hack)
        · rcases hs with hs | hs <;> rw [c] at hs <;> cases hs
      · have hxa : a.node x = some stx := by
          rw [hbe, node_setNode_ne a k x st' hxk] at hx; exact hx
        exact ih x stx hxa hs ⟨q, hq, hty, hfrm, hterm⟩ y hy hack
    cases hstep with
    | call k st st' rnd op res h1 h2 h3 _ h4 =>
      exact callCase k st st' rnd op res h1 (.inl h2) h3 h4 rfl
    | deliver k st st' rnd m res h1 h2 h3 h4 =>
      exact callCase k st st' rnd (.step m) res h1 (.inr ⟨m, rfl, h2, h3⟩)
        (fun j hc => by cases hc) h4 rfl
    | send k st st' h1 h2 _ h3 =>
      have hf : st'.raft.msgs = [] := by
        unfold Node.call at h3
        simp only [applyOp] at h3
        cases h3; rfl
      intro x stx hx hs ⟨q, hq, hty, hfrm, hterm⟩ y hy hack
      have hx' : (a.setNode k st').node x = some stx := hx
      have hq' : q ∈ a.net ++ st.raft.msgs := hq
      by_cases hxk : x = k
      · subst hxk
        rw [node_setNode_self] at hx'; cases hx'
        rw [hf] at hy; cases hy
      · rw [node_setNode_ne a k x st' hxk] at hx'
        refine ih x stx hx' hs ⟨q, ?_, hty, hfrm, hterm⟩ y hy hack
        rcases List.mem_append.1 hq' with c | c
        · exact c
        · have hrv : CV.isRVm q = true := by simp [CV.isRVm, hty]
          have := (I1.queue k st h1 q c hrv).1
          exact absurd (hfrm.symm.trans this) hxk
    | restart k st st' c rnd h1 h2 h3 =>
      intro x stx hx hs ⟨q, hq, hty, hfrm, hterm⟩ y hy hack
      by_cases hxk : x = k
      · subst hxk
        rw [node_setNode_self] at hx; cases hx
        rw [(CV.boot_booted c _ rnd st' h3).state] at hs
        rcases hs with hs | hs <;> cases hs
      · rw [node_setNode_ne a k x st' hxk] at hx
        exact ih x stx hx hs ⟨q, hq, hty, hfrm, hterm⟩ y hy hack

/-- **a leader's queue holds no acknowledgement** -/
theorem leader_no_ack (H : Hyp2w cfg c0 h) {n : Nat} {s : Sys} (hn : h[n]? = some s) {l : Nat}
    {st : NState} (hl : s.node l = some st) (hs : st.raft.state = .leader) :
    ∀ a ∈ st.raft.msgs, isAck a → a.index = 0 := by
  have hall := hist_all H.hist
  have hm := mem_of_get hn
  have I1 := hall.1 s hm
  have I2 := hall.2.1 cfg H.fix s hm
  obtain ⟨Q, hQ, hQg⟩ := I2.lead l st hl hs
  obtain ⟨j, hj, hjl⟩ := H.nolone l Q hQ
  rcases hQg j hj with c | ⟨g, hg, g1, g2, g3, g4, g5⟩
  · exact absurd c hjl
  · have hrv : CV.isRVm g = true := by simp [CV.isRVm, g1, g2]
    obtain ⟨stj, _, hok, _⟩ := I1.net g hg hrv
    obtain ⟨q, hq, q1, q2, q3⟩ := hok.2.2.2.2 g1
    exact cand_q H n s hn l st hl (.inr hs) ⟨q, hq, q1, by rw [q2, g4], by rw [q3, g5]⟩


end Snap
end Cluster
end RaftModel
