import RaftProofs.ClusterConf2A
import RaftProofs.ClusterConf2B

/-!
C09 at the cluster level, second series, part C: **the apply cursor stays at or below the commit
index** (`AppOk`: `applied ≤ committed`; with `RaftLog.Inv`, `committed ≤ last_index`, this is the
cursor half of `LogOk`) — through every `NodeOp` (`call_appOk`), `send`, and a `restart` that obeys the
**restart contract** `Config.applied ≤` the stored commit index (`BootOk`; `Raft::new` takes
`Config.applied` unchecked: `RaftProps.PDGuards.PD_restart_gap`).  No log invariant, no compaction
contract, no batching hypothesis is needed for this half.
-/
namespace RaftModel
namespace Raft
open Node

/-- the apply cursor is at or below the commit index -/
def AppOk (r : Raft) : Prop := r.raftLog.applied ≤ r.raftLog.committed

theorem AppOk.of {a r : Raft} (h0 : AppOk a) (h1 : r.raftLog.applied = a.raftLog.applied)
    (h2 : a.raftLog.committed ≤ r.raftLog.committed) : AppOk r := by
  unfold AppOk at *; omega

theorem AppOk.of_cf_ls {a r : Raft} (h0 : AppOk a) (h1 : CF a r) (h2 : LS a r) : AppOk r :=
  h0.of h1.2 h2.commit

theorem step_appOk {r r' : Raft} {m : Message} {e : Option RaftError} (h0 : AppOk r)
    (h : r.step m = .ok (r', e)) : AppOk r' :=
  h0.of (Ap.step_ap (P := fun x => x = r.raftLog.applied) h ⟨rfl⟩).h
    (step_cle (c := r.raftLog.committed) h ⟨Nat.le_refl _⟩).h

theorem stepIgnore_appOk {r r' : Raft} {m : Message} (h0 : AppOk r)
    (h : r.stepIgnore m = .ok r') : AppOk r' :=
  h0.of (Ap.stepIgnore_ap (P := fun x => x = r.raftLog.applied) h ⟨rfl⟩).h
    (stepIgnore_cle (c := r.raftLog.committed) h ⟨Nat.le_refl _⟩).h

theorem tick_appOk {r r' : Raft} {b : Bool} (h0 : AppOk r) (h : r.tick = .ok (r', b)) :
    AppOk r' :=
  h0.of (Ap.tick_ap (P := fun x => x = r.raftLog.applied) h ⟨rfl⟩).h
    (tick_cle (c := r.raftLog.committed) h ⟨Nat.le_refl _⟩).h

theorem applyConfChange_appOk {r r' : Raft} {cc : ConfChangeV2} {res : Except ErrKind ConfState}
    (h0 : AppOk r) (h : r.applyConfChange cc = .ok (r', res)) : AppOk r' := by
  have ha : Ap.AP (fun x => x = r.raftLog.applied) r' := by
    have h0 : Ap.AP (fun x => x = r.raftLog.applied) r := ⟨rfl⟩
    unfold Raft.applyConfChange at h
    ap_auto h [Ap.postConfChange_ap]
  have hc : CP (fun x => r.raftLog.committed ≤ x) r' := by
    have h0 : CP (fun x => r.raftLog.committed ≤ x) r := ⟨Nat.le_refl _⟩
    unfold Raft.applyConfChange at h
    c04_auto h [postConfChange_cle]
  exact h0.of ha.h hc.h

theorem requestSnapshot_appOk {r r' : Raft} {e : Option RaftError} (h0 : AppOk r)
    (h : r.requestSnapshot = .ok (r', e)) : AppOk r' := by
  have ha : Ap.AP (fun x => x = r.raftLog.applied) r' := by
    have h0 : Ap.AP (fun x => x = r.raftLog.applied) r := ⟨rfl⟩
    unfold Raft.requestSnapshot at h
    ap_auto h [Ap.sendRequestSnapshot_ap, Ap.send_ap]
  have hc : CP (fun x => x = r.raftLog.committed) r' := by
    have h0 : CP (fun x => x = r.raftLog.committed) r := ⟨rfl⟩
    unfold Raft.requestSnapshot at h
    c04_auto h [sendRequestSnapshot_cp, send_cp]
  exact h0.of ha.h (Nat.le_of_eq hc.h.symm)

/-- `Raft::commit_apply` (the checked form): the cursor moves to an index at or below the commit
index, which stays -/
theorem commitApply_appOk {r r' : Raft} {k : Nat} (h0 : AppOk r) (h : r.commitApply k = .ok r') :
    AppOk r' := by
  have hc := RaftProps.C04.C04_commitApply_keeps_commit r r' k h
  unfold Raft.commitApply Raft.commitApplyInternal at h
  simp only [Bool.not_false, if_true] at h
  split at h
  · cases h
  · cases h
  · rename_i log hl
    have hlog : log.applied ≤ r.raftLog.committed := by
      unfold RaftLog.appliedTo at hl
      split at hl
      · cases hl; exact h0
      · split at hl
        · cases hl
        · rename_i hn
          cases hl
          show k ≤ r.raftLog.committed
          omega
    have ha : Ap.AP (fun x => x ≤ r.raftLog.committed) r' := by
      have h0 : Ap.AP (fun x => x ≤ r.raftLog.committed) ({ r with raftLog := log } : Raft) :=
        ⟨hlog⟩
      ap_auto h [Ap.appendEntry_ap]
    unfold AppOk
    rw [hc]
    exact ha.h

end Raft

namespace Node
open Raft

theorem stabilize_cursors {st st' : NState} {res : OpRes} (h : Node.stabilize st = .ok (res, st')) :
    st'.raft.raftLog.applied = st.raft.raftLog.applied ∧
    st'.raft.raftLog.committed = st.raft.raftLog.committed := by
  unfold Node.stabilize at h
  simp only [] at h
  split at h
  · rename_i l hl0
    cases h
    have : l.applied = st.raft.raftLog.applied ∧ l.committed = st.raft.raftLog.committed := by
      split at hl0
      · cases hl0; exact ⟨rfl, rfl⟩
      · split at hl0
        · unfold RaftLog.stableEntries at hl0
          split at hl0
          · cases hl0; exact ⟨rfl, rfl⟩
          · cases hl0
          · cases hl0
        · cases hl0
        · cases hl0
    exact this
  · cases h
  · cases h

theorem persistSnap_appOk {st st' : NState} {res : OpRes} (h0 : AppOk st.raft)
    (h : Node.persistSnap st = .ok (res, st')) : AppOk st'.raft := by
  unfold Node.persistSnap at h
  simp only [] at h
  split at h
  · cases h; exact h0
  · split at h
    · cases h; exact h0
    · cases h
    · rename_i sn _ store _
      split at h
      · cases h
      · cases h
      · rename_i l hl
        have hl' : l.applied = st.raft.raftLog.applied ∧ l.committed = st.raft.raftLog.committed := by
          unfold RaftLog.stableSnap at hl
          split at hl
          · cases hl; exact ⟨rfl, rfl⟩
          · cases hl
          · cases hl
        split at h
        · rename_i raft hp
          cases h
          have a1 := (onPersistSnap_abs hp).2.2.2
          have a2 := RaftProps.C04.C04_onPersistSnap_keeps_commit _ _ _ hp
          exact h0.of (a1.trans hl'.1) (Nat.le_of_eq (a2.trans hl'.2).symm)
        · cases h
        · cases h

theorem nodeCommitApply_appOk {st st' : NState} {res : OpRes} {k : Nat} (h0 : AppOk st.raft)
    (h : Node.commitApply st k = .ok (res, st')) : AppOk st'.raft := by
  unfold Node.commitApply at h
  simp only [] at h
  split at h
  · rename_i r hb
    cases h
    rw [Res.bind_eq_ok_iff] at hb
    obtain ⟨r1, hr1, hb⟩ := hb
    have h1 : AppOk r1 := by
      have e : r1.raftLog = st.raft.raftLog := by
        split at hr1
        · split at hr1
          · cases hr1
            unfold Raft.reduceUncommittedSize
            split <;> rfl
          · cases hr1; rfl
          · cases hr1
        · cases hr1; rfl
      unfold AppOk; rw [e]; exact h0
    have h2 := commitApply_appOk h1 hb
    split
    · exact h2
    · exact h2
  · cases h
  · cases h

/-- **one call of a node, any `NodeOp`, keeps `applied ≤ committed`** -/
theorem call_appOk (st st' : NState) (rnd : Option Nat) (op : NodeOp) (res : OpRes)
    (h0 : AppOk st.raft) (h : Node.call st rnd op = .ok (res, st')) : AppOk st'.raft := by
  unfold Node.call at h
  have h0' : AppOk ({ st.raft with nextRand := rnd } : Raft) := h0
  have viaEq : ∀ raft : Raft, raft.raftLog.applied = st.raft.raftLog.applied →
      raft.raftLog.committed = st.raft.raftLog.committed → AppOk raft :=
    fun raft a b => h0.of a (Nat.le_of_eq b.symm)
  cases op with
  | tick =>
    simp only [applyOp] at h
    split at h
    · rename_i raft b heq
      cases h
      exact tick_appOk h0' heq
    · cases h
    · cases h
  | step m =>
    simp only [applyOp] at h
    obtain ⟨raft, e, hx, hr⟩ := CV.unitRes_ok h
    rw [hr]
    unfold RawNode.step at hx
    split at hx
    · cases hx; exact h0'
    · split at hx
      · exact step_appOk h0' hx
      · cases hx; exact h0'
  | rstep m =>
    simp only [applyOp] at h
    obtain ⟨raft, e, hx, hr⟩ := CV.unitRes_ok h
    rw [hr]
    exact step_appOk h0' hx
  | propose c d =>
    simp only [applyOp] at h
    obtain ⟨raft, e, hx, hr⟩ := CV.unitRes_ok h
    rw [hr]
    exact step_appOk h0' hx
  | proposeCc t c d =>
    simp only [applyOp] at h
    obtain ⟨raft, e, hx, hr⟩ := CV.unitRes_ok h
    rw [hr]
    exact step_appOk h0' hx
  | readIndex c =>
    simp only [applyOp] at h
    obtain ⟨raft, hx, hr⟩ := CV.okRes_ok h
    rw [hr]
    exact stepIgnore_appOk h0' hx
  | transferLeader x =>
    simp only [applyOp] at h
    obtain ⟨raft, hx, hr⟩ := CV.okRes_ok h
    rw [hr]
    exact stepIgnore_appOk h0' hx
  | campaign =>
    simp only [applyOp] at h
    obtain ⟨raft, e, hx, hr⟩ := CV.unitRes_ok h
    rw [hr]
    exact step_appOk h0' hx
  | ping =>
    simp only [applyOp] at h
    obtain ⟨raft, hx, hr⟩ := CV.okRes_ok h
    rw [hr]
    change Raft.ping _ = _ at hx
    unfold Raft.ping at hx
    have hcf : CF ({ st.raft with nextRand := rnd } : Raft) raft := by
      cf_auto hx [bcastHeartbeat_cf]
    have hls : LS ({ st.raft with nextRand := rnd } : Raft) raft := by
      ls_auto hx [bcastHeartbeat_ls]
    exact h0'.of_cf_ls hcf hls
  | requestSnapshot =>
    simp only [applyOp] at h
    obtain ⟨raft, e, hx, hr⟩ := CV.unitRes_ok h
    rw [hr]
    exact requestSnapshot_appOk h0' hx
  | reportUnreachable x =>
    simp only [applyOp] at h
    obtain ⟨raft, hx, hr⟩ := CV.okRes_ok h
    rw [hr]
    exact stepIgnore_appOk h0' hx
  | reportSnapshot x f =>
    simp only [applyOp] at h
    obtain ⟨raft, hx, hr⟩ := CV.okRes_ok h
    rw [hr]
    exact stepIgnore_appOk h0' hx
  | applyConfChange cc =>
    simp only [applyOp] at h
    split at h
    · rename_i raft cs heq
      cases h
      exact applyConfChange_appOk h0' heq
    · rename_i raft e heq
      cases h
      exact applyConfChange_appOk h0' heq
    · cases h
    · cases h
  | stabilize =>
    simp only [applyOp] at h
    obtain ⟨a, b⟩ := stabilize_cursors (st := { st with raft := { st.raft with nextRand := rnd } }) h
    exact viaEq _ a b
  | onPersistEntries i t =>
    simp only [applyOp] at h
    obtain ⟨raft, hx, hr⟩ := CV.okRes_ok h
    rw [hr]
    obtain ⟨_, _, _, a4⟩ := onPersistEntries_abs hx
    exact h0'.of a4 (RaftProps.C04.C04_commit_monotone_onPersistEntries _ _ _ _ hx)
  | persistSnap =>
    simp only [applyOp] at h
    exact persistSnap_appOk (st := { st with raft := { st.raft with nextRand := rnd } }) h0' h
  | commitApply k =>
    simp only [applyOp] at h
    exact nodeCommitApply_appOk (st := { st with raft := { st.raft with nextRand := rnd } }) h0' h
  | compact k =>
    simp only [applyOp] at h
    split at h
    · cases h; exact viaEq _ rfl rfl
    · cases h
    · cases h
  | drain =>
    simp only [applyOp] at h
    cases h
    exact viaEq _ rfl rfl
  | triggerSnap =>
    simp only [applyOp] at h
    cases h
    exact viaEq _ rfl rfl
  | triggerLog b =>
    simp only [applyOp] at h
    cases h
    exact viaEq _ rfl rfl
  | setPriority p =>
    simp only [applyOp] at h
    cases h
    exact viaEq _ rfl rfl
  | setBatchAppend b =>
    simp only [applyOp] at h
    cases h
    exact viaEq _ rfl rfl
  | skipBcastCommit b =>
    simp only [applyOp] at h
    cases h
    exact viaEq _ rfl rfl
  | setCheckQuorum b =>
    simp only [applyOp] at h
    cases h
    exact viaEq _ rfl rfl
  | adjustMaxInflight id cap =>
    simp only [applyOp] at h
    obtain ⟨raft, hx, hr⟩ := CV.okRes_ok h
    rw [hr]
    unfold Raft.adjustMaxInflightMsgs at hx
    split at hx
    · cases hx; exact h0'
    · split at hx
      · cases hx; exact viaEq _ rfl rfl
      · cases hx
  | maybeFreeInflightBuffers =>
    simp only [applyOp] at h
    cases h
    exact viaEq _ rfl rfl
  | enableGroupCommit b =>
    simp only [applyOp] at h
    obtain ⟨raft, hx, hr⟩ := CV.okRes_ok h
    rw [hr]
    unfold Raft.enableGroupCommit at hx
    have hcf : CF ({ st.raft with nextRand := rnd } : Raft) raft := by
      cf_auto hx [maybeCommit_cf, bcastAppend_cf]
    have hls : LS ({ st.raft with nextRand := rnd } : Raft) raft := by
      ls_auto hx [maybeCommit_ls, bcastAppend_ls]
    exact h0'.of_cf_ls hcf hls
  | assignCommitGroups v =>
    simp only [applyOp] at h
    obtain ⟨raft, hx, hr⟩ := CV.okRes_ok h
    rw [hr]
    obtain ⟨hcf, hls⟩ := assignCommitGroups_cf_ls hx
    exact h0'.of_cf_ls hcf hls
  | clearCommitGroup =>
    simp only [applyOp] at h
    cases h
    exact viaEq _ rfl rfl
  | checkGroupCommitConsistent =>
    simp only [applyOp] at h
    split at h
    · cases h; exact h0
    · cases h; exact h0
    · cases h
    · cases h
  | setMaxApplyUnpersistedLogLimit x =>
    simp only [applyOp] at h
    cases h
    exact viaEq _ rfl rfl
  | setMaxCommittedSizePerReady x =>
    simp only [applyOp] at h
    cases h
    exact viaEq _ rfl rfl
  | onEntriesFetched to term aggr =>
    rcases CV.onEntriesFetched_ok h with h | ⟨-, -, -, raft, hx, h⟩
    · cases h; exact h0
    · cases h
      rcases hx with hx | hx
      · exact h0'.of_cf_ls (sendAppendAggressively_cf hx CF.rfl) (sendAppendAggressively_ls hx LS.rfl)
      · exact h0'.of_cf_ls (sendAppend_cf hx CF.rfl) (sendAppend_ls hx LS.rfl)

/-- **the restart contract**: the application boots the node with an applied index at or below the
commit index of the stored hard state -/
def BootOk (c : Config) (store : MemStorage) : Prop := c.applied ≤ store.hardState.commit

theorem boot_appOk (c : Config) (store : MemStorage) (rnd : Option Nat) (st : NState)
    (hc : BootOk c store) (h : Node.boot c store rnd = .ok (.ok st)) : AppOk st.raft := by
  unfold Node.boot at h
  split at h
  · rename_i raft hn
    cases h
    unfold RawNode.new at hn
    split at hn
    · cases hn
    · obtain ⟨a1, a2, a3⟩ := RaftProps.PDGuards.PD_restart_new c store rnd raft hn
      unfold AppOk BootOk at *
      show raft.raftLog.applied ≤ raft.raftLog.committed
      rw [a1, a2]
      by_cases hs : store.hardState = {}
      · have : store.hardState.commit = 0 := by rw [hs]
        rw [if_neg (by omega), if_neg (by simpa using hs)]
        exact Nat.le_refl _
      · have := (a3 hs).1
        rw [if_pos hs]
        split
        · exact hc
        · exact this
  · cases h
  · cases h
  · cases h

theorem boot_applied (c : Config) (store : MemStorage) (rnd : Option Nat) (st : NState)
    (h : Node.boot c store rnd = .ok (.ok st)) :
    st.raft.raftLog.applied = (if c.applied > 0 then c.applied else store.firstIndex - 1) := by
  unfold Node.boot at h
  split at h
  · rename_i raft hn
    cases h
    unfold RawNode.new at hn
    split at hn
    · cases hn
    · exact (RaftProps.PDGuards.PD_restart_new c store rnd raft hn).1
  · cases h
  · cases h
  · cases h

end Node

namespace Cluster
open Node Raft

/-- the apply cursor of every node is at or below its commit index -/
def AppAll (s : Sys) : Prop := ∀ i st, s.node i = some st → AppOk st.raft

theorem AppAll.setNode {s : Sys} (h : AppAll s) (k : Nat) (st' : NState) (hk : AppOk st'.raft) :
    AppAll (s.setNode k st') := by
  intro i st hi
  by_cases hik : i = k
  · subst hik
    rw [node_setNode_self] at hi; cases hi; exact hk
  · rw [node_setNode_ne s k i st' hik] at hi
    exact h i st hi

/-- one labelled step: the restart contract is asked of `restart` labels only -/
theorem AppAll.lstep {s s' : Sys} {l : Label} (h : AppAll s) (hs : LStep s l s')
    (hc : ∀ i c rnd st, l = .restart i c rnd → s.node i = some st →
      BootOk c st.raft.raftLog.store) : AppAll s' := by
  cases hs with
  | call i st st' rnd op res h1 _ h3 => exact h.setNode i st' (call_appOk st st' rnd op res (h i st h1) h3)
  | deliver i st st' rnd m res h1 _ _ h4 =>
    exact h.setNode i st' (call_appOk st st' rnd (.step m) res (h i st h1) h4)
  | send i st st' h1 _ h3 =>
    have := h.setNode i st' (call_appOk st st' none .drain _ (h i st h1) h3)
    intro j stj hj
    exact this j stj hj
  | restart i st st' c rnd h1 _ h3 =>
    exact h.setNode i st' (boot_appOk c _ rnd st' (hc i c rnd st rfl h1) h3)

/-- **the initial clause with the restart contract**: `InitSto`, and the boot obeyed `BootOk` -/
def InitSto2 (s : Sys) : Prop :=
  ∀ i st, s.node i = some st → ∃ c sto rnd,
    Node.boot c sto rnd = .ok (.ok st) ∧ sto.WF ∧ (∀ e ∈ sto.entries, e.term ≠ 0) ∧ BootOk c sto

theorem InitSto2.initSto {s : Sys} (h : InitSto2 s) : InitSto s := by
  intro i st hi
  obtain ⟨c, sto, rnd, h1, h2, h3, _⟩ := h i st hi
  exact ⟨c, sto, rnd, h1, h2, h3⟩

theorem InitSto2.appAll {s : Sys} (h : InitSto2 s) : AppAll s := by
  intro i st hi
  obtain ⟨c, sto, rnd, h1, _, _, h4⟩ := h i st hi
  exact boot_appOk c sto rnd st h4 h1

/-- the restart contract along a history: every `restart` step boots with `BootOk` -/
def RestartsOk (h : List Sys) : Prop :=
  ∀ (n : Nat) (a b : Sys), h[n]? = some a → h[n + 1]? = some b →
    ∀ i c rnd st, LStep a (.restart i c rnd) b → a.node i = some st →
      BootOk c st.raft.raftLog.store

/-- a sufficient check on the states alone: after every step, every node's apply cursor is at or
below the commit index its storage recorded before the step (then whatever `Config.applied` a
`restart` used was 0 or that cursor) -/
theorem restartsOk_of_cursor {h : List Sys}
    (hc : ∀ (n : Nat) (a b : Sys) (i : Nat) (st st' : NState), h[n]? = some a → h[n + 1]? = some b →
      a.node i = some st → b.node i = some st' →
      st'.raft.raftLog.applied ≤ st.raft.raftLog.store.hardState.commit) : RestartsOk h := by
  intro n a b ha hb i c rnd st hl hi
  cases hl with
  | restart _ st0 st' _ _ g1 g2 g3 =>
    rw [hi] at g1; cases g1
    have e := boot_applied c _ rnd st' g3
    have := hc n a _ i st st' ha hb hi (node_setNode_self _ _ _)
    unfold BootOk
    by_cases h0 : c.applied > 0
    · rw [if_pos h0] at e; omega
    · omega

/-- **`applied ≤ committed` in every state of a history** whose boots obey the restart contract -/
theorem appAll_hist {h : List Sys} (hh : History h) (hrs : RestartsOk h)
    (hinit : ∀ s, h[0]? = some s → InitSto2 s) :
    ∀ (n : Nat) (s : Sys), h[n]? = some s → AppAll s := by
  intro n
  induction n with
  | zero => intro s hs; exact (hinit s hs).appAll
  | succ n ih =>
    intro s hs
    have hlt : n + 1 < h.length := by
      apply Classical.byContradiction
      intro hc
      rw [List.getElem?_eq_none (by omega)] at hs
      cases hs
    have ha : h[n]? = some h[n] := List.getElem?_eq_getElem (by omega)
    obtain ⟨l, hl⟩ := step_iff_lstep.1 (hist_step_at hh n _ s ha hs)
    refine (ih _ ha).lstep hl ?_
    intro i c rnd st e hi
    subst e
    exact hrs n _ s ha hs i c rnd st hl hi

/-- **`LogOk` in every state of a history** — representation invariant and apply cursor —, under:
the compaction contract (`CStep`), no batching, well-formed initial storages, and the restart contract
(`Config.applied ≤` stored commit index at every boot) -/
theorem logOk_hist_full {h : List Sys} (hh : History h)
    (hcon : ∀ (n : Nat) (a b : Sys), h[n]? = some a → h[n + 1]? = some b → CStep a b)
    (hnb : ∀ s ∈ h, NoBatch s) (hrs : RestartsOk h)
    (hinit : ∀ s, h[0]? = some s → InitSto2 s) :
    ∀ s ∈ h, LogOk s := by
  intro s hs i st hi
  obtain ⟨n, hn⟩ := List.mem_iff_getElem?.1 hs
  have hinv := logInv_hist hh hcon hnb (fun s h0 => (hinit s h0).initSto) s hs i st hi
  have hap : st.raft.raftLog.applied ≤ st.raft.raftLog.committed := appAll_hist hh hrs hinit n s hn i st hi
  exact ⟨hinv, Nat.le_trans hap hinv.committed_le_last⟩

end Cluster
end RaftModel
