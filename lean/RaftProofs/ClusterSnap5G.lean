import RaftProofs.ClusterSnap5F

/-!
[Copy of `ClusterSnap2G.lean` for the development `Snap5` (with `request_snapshot`): `NoReq` is replaced by
`ReqOk`, `SnapCase.restored` is widened — see `ClusterSnap5A.lean`, `RaftProps/C01i.lean`.]

Commit safety of `ClusterSem` with compaction and snapshots, part 2G: **what one step does to the
ghost logs** (`fcall_step`, `fnode_step`): as `ClusterSnapG`, plus the restoration of a snapshot — the
new ghost log is the uncompacted version of the snapshot point.
-/
namespace RaftModel
namespace Cluster
namespace Snap5
open Node Raft Raft.CC RaftProps.C02 RaftProps.C05 Snap

variable {cfg : JointConfig} {c0 : Nat} {h : List Sys}

/-- with nothing unstable the two ghost logs of a node coincide -/
theorem FL_eq_FS {i : Nat} {st : NState} (o : NodeOk i st)
    (hp : st.raft.raftLog.unstable.snapshot = none)
    (he : st.raft.raftLog.unstable.entries = []) : FL h c0 st = FS h c0 st := by
  unfold FL FS; rw [abs_eq_storeLog o.inv hp he]

/-- the two ghost logs of a node hold the same entries up to `persisted` (no snapshot pending) -/
theorem NodeFull.persisted {i n : Nat} {st : NState} (I : NodeFull h c0 n st) (o : NodeOk i st)
    (hp : st.raft.raftLog.unstable.snapshot = none) {k : Nat}
    (hk : k ≤ st.raft.raftLog.persisted) : (FL h c0 st).entryAt k = (FS h c0 st).entryAt k := by
  by_cases hpk : k ≤ st.raft.raftLog.abs.snapIdx
  · exact I.pre hp k hpk
  · rw [I.log.ents k (by omega), I.sto.ents k (by rw [o.sidx hp]; omega)]
    exact o.inv.abs_store_persisted hp hk

/-- what one step does to the ghost log of one node -/
inductive FNodeStep (h : List Sys) (c0 : Nat) (a : Sys) (v : Nat) (sta stb : NState) : Prop
  /-- untouched (another node stepped, a `send`, a call that keeps the log, a compaction, the
  installation of the pending snapshot) -/
  | same (hl : ∀ k, (FL h c0 stb).entryAt k = (FL h c0 sta).entryAt k)
      (hli : stb.raft.raftLog.abs.lastIndex = sta.raft.raftLog.abs.lastIndex)
  /-- a leader appended entries of its term -/
  | grew (es : List Entry) (hg : Appended sta.raft stb.raft es)
      (hl : ∀ k, k ≤ sta.raft.raftLog.abs.lastIndex →
        (FL h c0 stb).entryAt k = (FL h c0 sta).entryAt k)
      (hnew : ∀ k e, (FL h c0 stb).entryAt k = some e → sta.raft.raftLog.abs.lastIndex < k → e ∈ es)
  /-- a `MsgAppend` of the transport was accepted -/
  | acc (m : Message) (hm : m ∈ a.net) (hty : m.msgType = .msgAppend) (hto : m.to = v)
      (ha : FAcc (FL h c0 sta) (FL h c0 stb) m)
      (hanc : sta.raft.raftLog.abs.matchTerm m.index m.logTerm = true)
      (hc : stb.raft.raftLog.committed =
        max sta.raft.raftLog.committed (min m.commit (m.index + m.entries.length)))
      (hci : sta.raft.raftLog.committed ≤ m.index)
      (hs : stb.raft.state = .follower) (ht : m.term = stb.raft.term ∨ m.term = 0)
  /-- crash and restart: the log is the stored one -/
  | restart (hl : FL h c0 stb = FS h c0 sta)
      (hs : stb.raft.state = .follower)
      (ht : stb.raft.term = sta.raft.raftLog.store.hardState.term)
  /-- the snapshot of a `MsgSnapshot` of the transport replaced the log -/
  | restored (m : Message) (hm : m ∈ a.net) (hty : m.msgType = .msgSnapshot) (hto : m.to = v)
      (hl : stb.raft.raftLog.abs = LLog.ofSnapshot m.snapshot)
      (hc : stb.raft.raftLog.committed = m.snapshot.metadata.index)
      (hle : sta.raft.raftLog.committed ≤ m.snapshot.metadata.index)
      (hnm : sta.raft.raftLog.matchTerm m.snapshot.metadata.index m.snapshot.metadata.term ≠
        .ok true ∨ sta.raft.raftLog.lastIndex ≤ m.snapshot.metadata.index)
      (hs : stb.raft.state = .follower) (ht : m.term = stb.raft.term ∨ m.term = 0)

theorem fcall_node {a : Sys} {v : Nat} {sta stb : NState} (hs : FCallStep h c0 a v sta stb) :
    FNodeStep h c0 a v sta stb := by
  cases hs with
  | same hl hli => exact .same hl hli
  | grew es hg hl hnew => exact .grew es hg hl hnew
  | acc m hm hty hto ha hanc hc hci hs ht => exact .acc m hm hty hto ha hanc hc hci hs ht

/-- a call that is not a compaction keeps the ghost log up to the snapshot point -/
theorem ghost_low (H : Hyp2w cfg c0 h) {n : Nat} {a b : Sys} (ha : h[n]? = some a)
    (hb : h[n + 1]? = some b) {k : Nat} {st st' : NState} {rnd : Option Nat} {op : NodeOp}
    {res : OpRes} (hka : a.node k = some st) (hkb : b.node k = some st')
    (hop : appOp op = true ∨ ∃ m, op = .step m ∧ m ∈ a.net ∧ m.to = k)
    (hnc : ∀ j, op ≠ .compact j) (hns : ∀ m, op = .step m → m.msgType ≠ .msgSnapshot)
    (hpn : st.raft.raftLog.unstable.snapshot = none)
    (hcall : Node.call st rnd op = .ok (res, st')) :
    st'.raft.raftLog.abs.snapIdx = st.raft.raftLog.abs.snapIdx ∧
    ∀ i, i ≤ st.raft.raftLog.abs.snapIdx → (FL h c0 st').entryAt i = (FL h c0 st).entryAt i := by
  have Ia := (ghost_inv H n a ha).node k st hka
  have Ib := (ghost_inv H (n + 1) b hb).node k st' hkb
  have oa := node_ok H ha hka
  have ob := node_ok H hb hkb
  have hcs0 := call_step0 H ha hka hop hnc hns hpn hcall
  obtain ⟨k1, k2, k3⟩ := callstep_keeps (c0 := c0) hcs0
    ⟨oa.inv, hpn, oa.sidx hpn, oa.sterm hpn, oa.id, oa.nb⟩ Ia.log.ne
  have hF1 := Ia.log.splice k1 k2 (abs_Contig ob.inv) (hist_log hb hkb) k3 Ib.log.ne
  have hlo1 : (FL h c0 st).snapIdx ≤ st'.raft.raftLog.abs.snapIdx := by
    rw [Ia.log.snap, k1]; exact Ia.log.le
  have hlo2 : st'.raft.raftLog.abs.snapIdx ≤ (FL h c0 st).lastIndex := by
    rw [Ia.log.last, k1]; exact snap_le_last _
  refine ⟨k1, fun i hi => ?_⟩
  have := fl_eq (hist_agree H) hF1 i
  rw [splice_low hlo1 hlo2 (by rw [k1]; exact hi)] at this
  exact this

/-- the ghost version of a batch accepted in a step of the history -/
theorem facc_call (H : Hyp2w cfg c0 h) {n : Nat} {a b : Sys} (ha : h[n]? = some a)
    (hb : h[n + 1]? = some b) {k : Nat} {st st' : NState} {rnd : Option Nat} {m : Message}
    {res : OpRes} (hka : a.node k = some st) (hkb : b.node k = some st')
    (hm : m ∈ a.net) (hto : m.to = k) (hty : m.msgType ≠ .msgSnapshot)
    (hpn : st.raft.raftLog.unstable.snapshot = none)
    (hcall : Node.call st rnd (.step m) = .ok (res, st'))
    (hacc : Accepted st.raft.raftLog.abs st'.raft.raftLog.abs m)
    (hci : st.raft.raftLog.committed ≤ m.index) :
    FAcc (FL h c0 st) (FL h c0 st') m := by
  have Ia := (ghost_inv H n a ha).node k st hka
  have Ib := (ghost_inv H (n + 1) b hb).node k st' hkb
  have oa := node_ok H ha hka
  obtain ⟨_, hlow⟩ := ghost_low H ha hb hka hkb (.inr ⟨m, rfl, hm, hto⟩)
    (fun j hc => by cases hc) (fun m' hm' => by cases hm'; exact hty) hpn hcall
  exact facc_of Ia.log Ib.log hacc hlow (by have := oa.snap_le; omega)

/-- **what a `call` / `deliver` step does to the ghost log of its node** -/
theorem fcall_step (H : Hyp2w cfg c0 h) {n : Nat} {a b : Sys} (ha : h[n]? = some a)
    (hb : h[n + 1]? = some b) {k : Nat} {st st' : NState} {rnd : Option Nat} {op : NodeOp}
    {res : OpRes} (hka : a.node k = some st) (hkb : b.node k = some st')
    (hop : appOp op = true ∨ ∃ m, op = .step m ∧ m ∈ a.net ∧ m.to = k)
    (hco : ∀ j, op = .compact j → CompactOk st.raft.raftLog j)
    (hns : ∀ m, op = .step m → m.msgType ≠ .msgSnapshot)
    (hpn : st.raft.raftLog.unstable.snapshot = none)
    (hcall : Node.call st rnd op = .ok (res, st')) : FCallStep h c0 a k st st' := by
  have Ia := (ghost_inv H n a ha).node k st hka
  have Ib := (ghost_inv H (n + 1) b hb).node k st' hkb
  have oa := node_ok H ha hka
  have ob := node_ok H hb hkb
  by_cases hcomp : ∃ j, op = .compact j
  · obtain ⟨j, rfl⟩ := hcomp
    have ho := compact_out oa.inv hpn (hco j rfl) hcall
    obtain ⟨l1, _⟩ := ho.lt oa.inv
    have hF1 := (Ia.log.compact l1).congr ho.abs
    refine .same (fl_eq (hist_agree H) hF1) ?_
    rw [ho.abs]
    by_cases hle : j - 1 ≤ st.raft.raftLog.abs.snapIdx
    · unfold LLog.compactTo; rw [if_pos hle]
    · exact compactTo_lastIndex _ _ (Nat.le_of_lt (l1 (by omega)))
  · have hnc : ∀ j, op ≠ .compact j := fun j hj => hcomp ⟨j, hj⟩
    have hcs0 := call_step0 H ha hka hop hnc hns hpn hcall
    obtain ⟨k1, hlow⟩ := ghost_low H ha hb hka hkb hop hnc hns hpn hcall
    cases hcs0 with
    | same hl => exact .same (fun _ => by rw [FL_same hl]) (by rw [hl])
    | grew es hg =>
      refine .grew es hg (fun i hi => ?_) (fun i e he hi => ?_)
      · by_cases hip : i ≤ st.raft.raftLog.abs.snapIdx
        · exact hlow i hip
        · rw [Ib.log.ents i (by rw [k1]; omega), Ia.log.ents i (by omega), hg.abs]
          exact RaftProps.C05.c05_append_entryAt _ _ _ hi
      · have hsl := snap_le_last st.raft.raftLog.abs
        rw [Ib.log.ents i (by rw [k1]; omega), hg.abs, LLog.append_entryAt_new _ _ _ hi] at he
        exact List.mem_of_getElem? he
    | acc m hm hty hto hacc hc hci hs ht =>
      have hp : st.raft.raftLog.abs.snapIdx ≤ m.index := by have := oa.snap_le; omega
      exact .acc m hm hty hto (facc_of Ia.log Ib.log hacc hlow hp) hacc.anchor hc hci hs ht


/-- **what one step does to the ghost log of one node** -/
theorem fnode_step (H : Hyp2w cfg c0 h) {n : Nat} {a b : Sys} (ha : h[n]? = some a)
    (hb : h[n + 1]? = some b) {v : Nat} {sta stb : NState} (hva : a.node v = some sta)
    (hvb : b.node v = some stb) : FNodeStep h c0 a v sta stb := by
  obtain ⟨k, stk, stk', hka, hkb, hoth, hs⟩ := H.stp ha hb
  by_cases hvk : v = k
  · subst hvk
    rw [hka] at hva; cases hva
    rw [hkb] at hvb; cases hvb
    have same : stb.raft.raftLog.abs = sta.raft.raftLog.abs → FNodeStep h c0 a v sta stb :=
      fun hl => .same (fun _ => by rw [FL_same hl]) (by rw [hl])
    cases hs with
    | call rnd op res hop hco _ hns hpn _ hcall _ _ =>
      exact fcall_node (fcall_step H ha hb hka hkb hop hco hns hpn hcall)
    | snap rnd m hm hto hty _ hout _ =>
      cases hout with
      | skip hr => exact same (by rw [hr])
      | handled x hsf ht _ _ _ _ _ _ _ hsto hcase =>
        cases hcase with
        | kept hu _ _ _ => exact same (abs_of_eq hsto hu)
        | ffwd hu _ _ _ _ _ _ => exact same (abs_of_eq hsto hu)
        | restored hle hnm hu hc _ _ =>
          refine .restored m hm hty hto ?_ hc hle hnm hsf ht
          rw [RaftLog.abs_some (sn := m.snapshot) (by rw [hu]; rfl), hu]
          rfl
    | psnap rnd _ hout _ _ =>
      cases hout with
      | noop hr => exact same (by rw [hr])
      | done sn L _ hr _ habs _ _ _ _ _ _ _ => exact same (by rw [hr]; exact habs)
    | send _ _ _ hsame _ _ => exact same (by rw [hsame.1])
    | restart c rnd hboot _ =>
      have hbt := CV.boot_booted c _ rnd stb hboot
      obtain ⟨_, habs, _⟩ := boot_log c _ rnd stb (node_ok H ha hka).inv.storeWF hboot
      exact .restart (FL_restart habs) hbt.state hbt.term
  · rw [hoth v hvk, hva] at hvb
    cases hvb
    exact .same (fun _ => rfl) rfl

end Snap5
end Cluster
end RaftModel
