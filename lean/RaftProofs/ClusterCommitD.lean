import RaftProofs.ClusterCommitC

/-!
Cluster-level commit safety, helper lemmas part D: the anchored per-call relation `G A a m r` ("`r` is
an intermediate state of a call that started in `a` with input message `m`") for the commit layer:

* `mok`: on a leader every `matched` is `0`, the leader's own (`≤ persisted`), or backed by `A` — the
  abstract predicate "an accepting append response of that node, for that term, with at least that
  index is in the transport" (the input message of the call included);
* `lc`: a leader's commit index is the one the call started with, or `maybe_commit` moved it: a joint
  quorum has `matched ≥ committed` and the entry at `committed` carries the leader's term;
* what the messages queued during the call say, related to the state the call ends in.
-/
namespace RaftModel
namespace Raft
namespace CC

/-- an accepting append response -/
def isAck (x : Message) : Prop := x.msgType = .msgAppendResponse ∧ x.reject = false

/-- the delivered message is an accepting append response for term `t` (or carries no term) -/
def AckIn (m : Message) (t : Nat) : Prop :=
  m.msgType = .msgAppendResponse ∧ m.reject = false ∧ (m.term = t ∨ m.term = 0)

/-- every `matched` of a leader is accounted for -/
structure MOK (A : Nat → Nat → Nat → Prop) (r : Raft) : Prop where
  h : r.state = .leader → ∀ j x, mfun r.prs j = some x →
    x = 0 ∨ (j = r.id ∧ x ≤ r.raftLog.persisted) ∨ A j r.term x

/-- the leader's commit rule held when the commit index was set -/
def LCok (r : Raft) : Prop :=
  (∃ Q, IsJointQuorum r.prs.voters Q ∧
    ∀ v ∈ Q, ∃ x, mfun r.prs v = some x ∧ r.raftLog.committed ≤ x) ∧
  r.raftLog.term r.raftLog.committed = .ok r.term

/-- a leader-side message queued during the call -/
structure LkOK (A : Nat → Nat → Nat → Prop) (r : Raft) (x : Message) : Prop where
  lead : r.state = .leader
  term : x.term = r.term
  frm : x.frm = r.id
  app : x.msgType = .msgAppend →
    x.commit ≤ r.raftLog.committed ∧ r.raftLog.term x.index = .ok x.logTerm
  hb : x.msgType = .msgHeartbeat →
    x.commit ≤ r.raftLog.committed ∧ (x.commit = 0 ∨ A x.to r.term x.commit)

/-- an accepting append response queued during the call -/
structure AkOK (m : Message) (r : Raft) (x : Message) : Prop where
  term : x.term = r.term
  frm : x.frm = r.id
  src : x.index = 0 ∨ (r.state = .follower ∧ m.msgType = .msgAppend ∧ x.to = m.frm ∧
      (x.index ≤ r.raftLog.committed ∨ x.index = m.index + m.entries.length))

/-- the term of a (pre-)vote message that carries a commit point: the sender's term — plus one for a
pre-vote request —, and a response that carries one is a rejection -/
def VT (t : Nat) (x : Message) : Prop :=
  (x.msgType = .msgRequestPreVote → x.term = t + 1) ∧
  (x.msgType ≠ .msgRequestPreVote → x.term = t) ∧
  (x.msgType = .msgRequestPreVoteResponse ∨ x.msgType = .msgRequestVoteResponse → x.reject = true)

/-- the commit evidence of a (pre-)vote message queued during the call -/
def VkOK (r : Raft) (x : Message) : Prop :=
  x.commit = 0 ∨ (x.commit ≤ r.raftLog.committed ∧ r.raftLog.term x.commit = .ok x.commitTerm ∧
    VT r.term x)

/-- a real vote request queued during the call describes the end of the sender's log -/
structure RqOK (r : Raft) (x : Message) : Prop where
  term : x.term = r.term
  last : x.index = r.raftLog.lastIndex
  lt : r.raftLog.lastTerm = .ok x.logTerm

structure G (A : Nat → Nat → Nat → Prop) (a : Raft) (m : Message) (r : Raft) : Prop where
  id : r.id = a.id
  mok : MOK A r
  lc : r.state = .leader → r.raftLog.committed = a.raftLog.committed ∨ LCok r
  qlk : ∀ x ∈ r.msgs, lkT x.msgType = true → x ∈ a.msgs ∨ LkOK A r x
  qak : ∀ x ∈ r.msgs, isAck x → x ∈ a.msgs ∨ AkOK m r x
  qvk : ∀ x ∈ r.msgs, isVoteMsg x.msgType = true → x ∈ a.msgs ∨ VkOK r x
  qrq : ∀ x ∈ r.msgs, x.msgType = .msgRequestVote → x ∈ a.msgs ∨ RqOK r x

/-- nothing has been queued yet in this call -/
def Old (a r : Raft) : Prop := ∀ x ∈ r.msgs, x ∈ a.msgs

theorem Old.rfl {a : Raft} : Old a a := fun _ h => h

theorem G.start {A : Nat → Nat → Nat → Prop} {a : Raft} {m : Message} (hm : MOK A a) : G A a m a :=
  ⟨rfl, hm, fun _ => .inl rfl, fun _ h _ => .inl h, fun _ h _ => .inl h, fun _ h _ => .inl h,
    fun _ h _ => .inl h⟩

/-- with nothing queued, only the state clauses matter -/
theorem G.of_old {A : Nat → Nat → Nat → Prop} {a r : Raft} {m : Message} (ho : Old a r)
    (hid : r.id = a.id) (hm : MOK A r)
    (hl : r.state = .leader → r.raftLog.committed = a.raftLog.committed ∨ LCok r) : G A a m r :=
  ⟨hid, hm, hl, fun x h _ => .inl (ho x h), fun x h _ => .inl (ho x h), fun x h _ => .inl (ho x h),
    fun x h _ => .inl (ho x h)⟩

/-- a state that is not a leader satisfies the state clauses trivially -/
theorem G.of_old_nl {A : Nat → Nat → Nat → Prop} {a r : Raft} {m : Message} (ho : Old a r)
    (hid : r.id = a.id) (hs : r.state ≠ .leader) : G A a m r :=
  G.of_old ho hid ⟨fun h => absurd h hs⟩ (fun h => absurd h hs)

theorem MOK.of_core {A : Nat → Nat → Nat → Prop} {r r' : Raft} (h : MOK A r)
    (hc : score r' = score r) : MOK A r' := by
  constructor
  have e1 : r'.state = r.state := congrArg SCore.state hc
  have e2 : mfun r'.prs = mfun r.prs := congrArg SCore.mtab hc
  have e3 : r'.id = r.id := congrArg SCore.id hc
  have e4 : r'.raftLog.persisted = r.raftLog.persisted := congrArg SCore.persisted hc
  have e5 : r'.term = r.term := congrArg SCore.term hc
  rw [e1, e2, e3, e4, e5]
  exact h.h

theorem LCok.of_core {r r' : Raft} (h : LCok r) (hc : score r' = score r) : LCok r' := by
  have e2 : mfun r'.prs = mfun r.prs := congrArg SCore.mtab hc
  have e3 : r'.prs.conf = r.prs.conf := congrArg SCore.conf hc
  have e4 : r'.raftLog.committed = r.raftLog.committed := congrArg SCore.committed hc
  have e5 : r'.term = r.term := congrArg SCore.term hc
  have e6 : r'.raftLog.term = r.raftLog.term := congrArg SCore.tm hc
  unfold LCok ProgressTracker.voters at *
  rw [e2, e3, e4, e5, e6]
  exact h

/-- **lifting a sending helper**: on a leader, or when nothing new was queued -/
theorem G.sf {A : Nat → Nat → Nat → Prop} {a r r' : Raft} {m : Message}
    (hA : ∀ j t x y, y ≤ x → A j t x → A j t y)
    (h0 : G A a m r) (h1 : SF r r')
    (hl : r.state = .leader ∨ ∀ x ∈ r'.msgs, x ∈ r.msgs) : G A a m r' := by
  have hc := h1.core
  have e1 : r'.state = r.state := h1.state
  have e3 : r'.id = r.id := h1.id
  have e4 : r'.raftLog.committed = r.raftLog.committed := h1.committed
  have e5 : r'.term = r.term := h1.term
  have e6 : r'.raftLog.term = r.raftLog.term := h1.tm
  -- a message of the old queue or a `Sent` one
  have hq : ∀ x ∈ r'.msgs, x ∈ r.msgs ∨ (r.state = .leader ∧ Sent (score r) x) := by
    intro x hx
    rcases hl with hl | hl
    · rcases h1.q x hx with g | g
      · exact .inl g
      · exact .inr ⟨hl, g⟩
    · exact .inl (hl x hx)
  refine ⟨e3.trans h0.id, h0.mok.of_core hc, fun hs => ?_, ?_, ?_, ?_, ?_⟩
  · rw [e1] at hs
    rcases h0.lc hs with g | g
    · left; rw [e4]; exact g
    · right; exact g.of_core hc
  · intro x hx hty
    rcases hq x hx with g | ⟨hs, g⟩
    · rcases h0.qlk x g hty with g2 | g2
      · exact .inl g2
      · right
        exact ⟨e1.trans g2.lead, g2.term.trans e5.symm, g2.frm.trans e3.symm,
          fun hh => by rw [e4, e6]; exact g2.app hh, fun hh => by rw [e4, e5]; exact g2.hb hh⟩
    · right
      refine ⟨e1.trans hs, g.term.trans e5.symm, g.frm.trans e3.symm,
        fun hh => by rw [e4, e6, (g.app hh).1]; exact ⟨Nat.le_refl _, (g.app hh).2⟩, fun hh => ?_⟩
      obtain ⟨c1, mv, c2, c3, c4⟩ := g.hb hh
      rw [e4, e5]
      refine ⟨c1, ?_⟩
      rcases h0.mok.h hs x.to mv c2 with d | ⟨d, _⟩ | d
      · left; omega
      · exact absurd d c4
      · right; exact hA _ _ _ _ c3 d
  · intro x hx hty
    rcases hq x hx with g | ⟨_, g⟩
    · rcases h0.qak x g hty with g2 | g2
      · exact .inl g2
      · right
        refine ⟨g2.term.trans e5.symm, g2.frm.trans e3.symm, ?_⟩
        rw [e1, e4]; exact g2.src
    · have := g.ty; rw [hty.1] at this; cases this
  · intro x hx hty
    rcases hq x hx with g | ⟨_, g⟩
    · rcases h0.qvk x g hty with g2 | g2
      · exact .inl g2
      · right; unfold VkOK at *; rw [e4, e6, e5]; exact g2
    · have := g.ty
      cases hm : x.msgType <;> rw [hm] at this hty <;> first | (cases this; done) | (cases hty; done)
  · intro x hx hty
    rcases hq x hx with g | ⟨_, g⟩
    · rcases h0.qrq x g hty with g2 | g2
      · exact .inl g2
      · right
        exact ⟨g2.term.trans e5.symm, g2.last.trans h1.last.symm, h1.lterm.trans g2.lt⟩
    · have := g.ty; rw [hty] at this; cases this

theorem Old.sf_nl {a r r' : Raft} (ho : Old a r) (h : ∀ x ∈ r'.msgs, x ∈ r.msgs) : Old a r' :=
  fun x hx => ho x (h x hx)

end CC
end Raft
end RaftModel
