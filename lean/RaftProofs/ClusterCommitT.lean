import RaftProofs.ClusterCommitS

/-!
Cluster-level commit safety, part T: the extended standing hypotheses (`Hyp2w`), the *term floor* of a
node (a lower bound of both its in-memory and its stored term, never lost), and: whoever leads a term
has that term in its storage (no quorum fits into one node, so a leader has been granted a vote by
somebody else, whose grant answers a request that was sent with the term persisted).
-/
namespace RaftModel
namespace Cluster
open Node Raft Raft.CC RaftProps.C02

/-- **the hypotheses of the commit layer** on top of `Hyp` (see the report for each):
* `nolone`: no joint quorum of `cfg` fits into a single node (at least two voters are needed to win);
* `shape` (**proof gap**: snapshots and log compaction are not covered): no node ever has a pending
  snapshot and every storage keeps its first index `c0 + 1`;
* `initc`: in the initial state every commit index is `c0` (nothing beyond the common snapshot point is
  committed yet).

(`Hyp2w` is `Hyp2` without the former proof gap `norir`, which the layers above no longer need.) -/
structure Hyp2w (cfg : JointConfig) (c0 : Nat) (h : List Sys) : Prop extends Hyp cfg h where
  nolone : ∀ i Q, IsJointQuorum cfg Q → ∃ k ∈ Q, k ≠ i
  shape : ∀ s ∈ h, ∀ i st, s.node i = some st →
    st.raft.raftLog.unstable.snapshot = none ∧ st.raft.raftLog.store.firstIndex = c0 + 1
  initc : ∀ s : Sys, h[0]? = some s → ∀ i st, s.node i = some st → st.raft.raftLog.committed = c0

/-- the hypotheses of the commit layer as first stated (`RaftProps/C01c.lean`): `Hyp2w` and
* `norir` (a former **proof gap**, discharged in `RaftProps/C01d.lean`): no `MsgReadIndexResp` is ever
  in the transport. -/
structure Hyp2 (cfg : JointConfig) (c0 : Nat) (h : List Sys) : Prop extends Hyp2w cfg c0 h where
  norir : ∀ s ∈ h, ∀ x ∈ s.net, x.msgType ≠ .msgReadIndexResp

/-- `τ` is a lower bound of the in-memory and of the stored term of node `k` -/
def TermFloor (s : Sys) (k τ : Nat) : Prop :=
  ∃ st, s.node k = some st ∧ τ ≤ st.raft.term ∧ τ ≤ st.raft.raftLog.store.hardState.term

theorem TermFloor.step {s s' : Sys} {k τ : Nat} (hstep : Step s s') (h : TermFloor s k τ) :
    TermFloor s' k τ := by
  obtain ⟨st, hk, h1, h2⟩ := h
  obtain ⟨st', hk', hmem, hrel⟩ := C06_cluster_step_term_vote s s' hstep k st hk
  refine ⟨st', hk', ?_, ?_⟩
  · rcases hmem with g | ⟨_, g, _⟩
    · rcases g with g | ⟨g, _⟩ <;> omega
    · omega
  · rcases hrel with ⟨g, _⟩ | ⟨g1, _, g3, _⟩ | ⟨g, _⟩ <;> omega

theorem TermFloor.steps {s s' : Sys} {k τ : Nat} (hs : Steps s s') (h : TermFloor s k τ) :
    TermFloor s' k τ := by
  induction hs with
  | refl => exact h
  | tail b c _ hbc ih => exact ih.step hbc

theorem TermFloor.later {h : List Sys} (hh : History h) {n n' : Nat} {s s' : Sys} {k τ : Nat}
    (hn : h[n]? = some s) (hn' : h[n']? = some s') (hle : n ≤ n') (hf : TermFloor s k τ) :
    TermFloor s' k τ :=
  hf.steps ((hist_all hh).2.2 n n' s s' hle hn hn')

/-- **a leader's term is in its storage** -/
theorem leader_floor {cfg : JointConfig} {c0 : Nat} {h : List Sys} (H : Hyp2w cfg c0 h) {s : Sys}
    (hs : s ∈ h) {k τ : Nat} (hl : leads s k τ) : TermFloor s k τ := by
  obtain ⟨st, hk, hst, hterm⟩ := hl
  have hall := hist_all H.hist
  have I1 := hall.1 s hs
  have I2 := hall.2.1 cfg H.fix s hs
  obtain ⟨Q, hQ, hQg⟩ := I2.lead k st hk hst
  obtain ⟨j, hj, hjk⟩ := H.nolone k Q hQ
  rcases hQg j hj with e | ⟨g, hg, g1, g2, g3, g4, g5⟩
  · exact absurd e hjk
  · -- the grant `g` answers a request of `k` that is in the transport
    have hrv : CV.isRVm g = true := by simp [CV.isRVm, g1, g2]
    obtain ⟨stj, _, hok, _⟩ := I1.net g hg hrv
    obtain ⟨q, hq, q1, q2, q3⟩ := hok.2.2.2.2 g1
    have hrvq : CV.isRVm q = true := by simp [CV.isRVm, q1]
    obtain ⟨stk, hstk, hokq, hges⟩ := I1.net q hq hrvq
    rw [q2, g4, hk] at hstk
    cases hstk
    refine ⟨st, hk, Nat.le_of_eq hterm.symm, ?_⟩
    rw [q3, g5, hterm] at hges
    rcases hges with c | ⟨c, _⟩ <;> omega

end Cluster
end RaftModel
