import RaftProofs.ClusterCommit5cW
import RaftProofs.ClusterCommit5Z

/-!
Cluster-level commit safety **with `batch_append`** (copy of `ClusterCommitY.lean` over `Hyp2wB`; `call_facts`
is `call_factsB` of `ClusterCommit5O.lean`), part Y: the provenance of `MsgAppend`s and `MsgHeartbeat`s: each was queued by the node that led its term
at that moment, is a slice of that leader's log, and carries a commit index the leader had reached.
-/
namespace RaftModel
namespace ClusterB
open Node Raft Raft.CC Raft.CB Raft.Bt Cluster RaftProps.C02 RaftProps.C05

variable {cfg : JointConfig} {c0 : Nat} {h : List Sys}

/-- what is recorded about a `MsgAppend` when it is queued -/
def AppGen (h : List Sys) (n i : Nat) (x : Message) : Prop :=
  ∃ s st, h[n]? = some s ∧ s.node i = some st ∧ st.raft.state = .leader ∧
    st.raft.term = x.term ∧ x.frm = i ∧ x.commit ≤ st.raft.raftLog.committed ∧
    st.raft.raftLog.term x.index = .ok x.logTerm ∧ SubW x st.raft.raftLog.abs

/-- what is recorded about a `MsgHeartbeat` when it is queued -/
def HbGen (h : List Sys) (n i : Nat) (x : Message) : Prop :=
  ∃ s st, h[n]? = some s ∧ s.node i = some st ∧ st.raft.state = .leader ∧
    st.raft.term = x.term ∧ x.frm = i ∧ x.commit ≤ st.raft.raftLog.committed ∧
    (x.commit = 0 ∨ Anet s.net x.to x.term x.commit)

/-- **provenance of `MsgAppend`s** -/
theorem append_prov (H : Hyp2wB cfg c0 h) : ∀ (n : Nat) (s : Sys), h[n]? = some s →
    (∀ i st, s.node i = some st → ∀ x ∈ st.raft.msgs, x.msgType = .msgAppend →
      Gen (AppGen h) n i x) ∧
    (∀ x ∈ s.net, x.msgType = .msgAppend → ∃ i, Gen (AppGen h) n i x) := by
  refine provenance h H.hist H.steps (fun x => x.msgType = .msgAppend) (AppGen h) ?_
  intro n a b i st st' rnd op res ha hb hi hi' hcall hop hnc hnet x hx hty
  obtain ⟨g, _, _, hid⟩ := call_factsB H ha hb hi hi' hnet hop hnc hcall
  rcases g.qlk x hx (by rw [hty]; rfl) with c | c | c
  · exact .inl c
  · right
    obtain ⟨_, _, _, d⟩ := leader_queueB H hb hi' c.lead hx hty
    exact ⟨b, st', hb, hi', c.lead, c.term.symm, c.frm.trans (g.id.trans hid), (c.app hty).1,
      (c.app hty).2, d⟩
  · -- a message of the start queue that was batched onto: described by the leader's queue invariant
    right
    obtain ⟨d1, d2, d3, d4⟩ := leader_queueB H hb hi' c.1 hx hty
    exact ⟨b, st', hb, hi', c.1, d1.symm, d2, c.2.1, d3, d4⟩

/-- **provenance of `MsgHeartbeat`s** -/
theorem hb_prov (H : Hyp2wB cfg c0 h) : ∀ (n : Nat) (s : Sys), h[n]? = some s →
    (∀ i st, s.node i = some st → ∀ x ∈ st.raft.msgs, x.msgType = .msgHeartbeat →
      Gen (HbGen h) n i x) ∧
    (∀ x ∈ s.net, x.msgType = .msgHeartbeat → ∃ i, Gen (HbGen h) n i x) := by
  refine provenance h H.hist H.steps (fun x => x.msgType = .msgHeartbeat) (HbGen h) ?_
  intro n a b i st st' rnd op res ha hb hi hi' hcall hop hnc hnet x hx hty
  obtain ⟨g, _, _, hid⟩ := call_factsB H ha hb hi hi' hnet hop hnc hcall
  rcases g.qlk x hx (by rw [hty]; rfl) with c | c | c
  · exact .inl c
  · right
    have hid' : st'.raft.id = i := g.id.trans hid
    refine ⟨b, st', hb, hi', c.lead, c.term.symm, c.frm.trans hid', (c.hb hty).1, ?_⟩
    rcases (c.hb hty).2 with d | d
    · exact .inl d
    · right; rw [hnet, c.term]; exact d
  · obtain ⟨_, _, y, _, hbat⟩ := c
    rw [hbat.msgType] at hty; cases hty

end ClusterB
end RaftModel
