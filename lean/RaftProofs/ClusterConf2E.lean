import RaftProofs.ClusterConf2C
import RaftProofs.ClusterConf2D

/-!
C09 at the cluster level, second series, part E: **who writes the stored `ConfState`**
(`raft_log.store.confState`, what a restarted node restores its configuration from) and the
application's record `appCs`: through every `NodeOp`, `send`, `restart`, labelled steps and runs.
-/
namespace RaftModel
namespace Raft
open Node

theorem commitApplyInternal_sc {P : ConfState → Prop} {r r' : Raft} {k : Nat} {skip : Bool}
    (h : r.commitApplyInternal k skip = .ok r') (h0 : Sc.SC P r) : Sc.SC P r' := by
  unfold Raft.commitApplyInternal at h
  cases skip with
  | false =>
    simp only [Bool.not_false, if_true] at h
    split at h
    · cases h
    · cases h
    · rename_i log hl
      have hlog : log.store = r.raftLog.store := C06.appliedTo_store hl
      have h0 : Sc.SC P ({ r with raftLog := log } : Raft) :=
        ⟨by show P log.store.confState; rw [hlog]; exact h0.h⟩
      sc_auto h [Sc.appendEntry_sc]
  | true =>
    simp only [Bool.not_true, Bool.false_eq_true, if_false] at h
    split at h
    · cases h
    · cases h
    · rename_i log hl
      have hlog : log.store = r.raftLog.store := by
        split at hl
        · cases hl
        · cases hl; rfl
      have h0 : Sc.SC P ({ r with raftLog := log } : Raft) :=
        ⟨by show P log.store.confState; rw [hlog]; exact h0.h⟩
      sc_auto h [Sc.appendEntry_sc]

theorem step_storedCs {r r' : Raft} {m : Message} {e : Option RaftError}
    (h : r.step m = .ok (r', e)) : r'.raftLog.store.confState = r.raftLog.store.confState :=
  (Sc.step_sc (P := fun x => x = r.raftLog.store.confState) h ⟨rfl⟩).h

theorem stepIgnore_storedCs {r r' : Raft} {m : Message}
    (h : r.stepIgnore m = .ok r') : r'.raftLog.store.confState = r.raftLog.store.confState :=
  (Sc.stepIgnore_sc (P := fun x => x = r.raftLog.store.confState) h ⟨rfl⟩).h

end Raft

namespace Node
open Raft

/-- what one call does to the stored `ConfState` -/
def StoredCs (st st' : NState) : NodeOp → Prop
  | .commitApply _ =>
    st'.raft.raftLog.store.confState = st.raft.raftLog.store.confState ∨
      st'.raft.raftLog.store.confState = st.appCs
  | .persistSnap =>
    st'.raft.raftLog.store.confState = st.raft.raftLog.store.confState ∨
      ∃ sn, st.raft.raftLog.unstable.snapshot = some sn ∧
        st'.raft.raftLog.store.confState = sn.metadata.confState ∧
        st'.appCs = sn.metadata.confState
  | _ => st'.raft.raftLog.store.confState = st.raft.raftLog.store.confState

theorem msAppend_confState {s s' : MemStorage} {ents : List Entry} (h : s.append ents = .ok s') :
    s'.confState = s.confState := by
  unfold MemStorage.append at h
  split at h
  · cases h; rfl
  · split at h
    · cases h
    · split at h
      · cases h
      · simp only [] at h
        split at h
        · cases h
        · cases h; rfl

theorem msCompact_confState {s s' : MemStorage} {k : Nat} (h : s.compact k = .ok s') :
    s'.confState = s.confState := by
  unfold MemStorage.compact at h
  split at h
  · cases h; rfl
  · split at h
    · cases h
    · split at h
      · cases h; rfl
      · split at h
        · cases h
        · split at h
          · cases h
          · cases h; rfl

theorem stabilize_storedCs {st st' : NState} {res : OpRes} (h : Node.stabilize st = .ok (res, st')) :
    st'.raft.raftLog.store.confState = st.raft.raftLog.store.confState := by
  unfold Node.stabilize at h
  simp only [] at h
  split at h
  · rename_i l hl0
    cases h
    show l.store.confState = _
    split at hl0
    · cases hl0; rfl
    · split at hl0
      · rename_i store hap
        rw [C06.stableEntries_store hl0]
        exact msAppend_confState hap
      · cases hl0
      · cases hl0
  · cases h
  · cases h

theorem onPersistSnap_storedCs {r r' : Raft} {index : Nat} (h : r.onPersistSnap index = .ok r') :
    r'.raftLog.store.confState = r.raftLog.store.confState := by
  unfold Raft.onPersistSnap at h
  split at h
  · rename_i log b hp
    cases h
    unfold RaftLog.maybePersistSnap at hp
    split at hp
    · split at hp
      · cases hp
      · split at hp
        · cases hp
        · cases hp; rfl
    · cases hp; rfl
  · cases h
  · cases h

theorem onPersistEntries_storedCs {r r' : Raft} {index term : Nat}
    (h : r.onPersistEntries index term = .ok r') :
    r'.raftLog.store.confState = r.raftLog.store.confState := by
  have h0 : Sc.SC (fun x => x = r.raftLog.store.confState) r := ⟨rfl⟩
  unfold Raft.onPersistEntries at h
  split at h
  · cases h
  · cases h
  · rename_i log upd hp
    have hlog : log.store.confState = r.raftLog.store.confState := by
      unfold RaftLog.maybePersist at hp
      frame_dec hp <;> rfl
    have hk : ∀ r1 : Raft, r1.raftLog = log →
        Sc.SC (fun x => x = r.raftLog.store.confState) r1 := by
      intro r1 e1
      exact ⟨by rw [e1, hlog]⟩
    have : Sc.SC (fun x => x = r.raftLog.store.confState) r' := by
      sc_auto h [Sc.maybeCommit_sc, Sc.bcastAppend_sc, hk, rfl]
    exact this.h

theorem persistSnap_storedCs {st st' : NState} {res : OpRes}
    (h : Node.persistSnap st = .ok (res, st')) : StoredCs st st' .persistSnap := by
  unfold Node.persistSnap at h
  simp only [] at h
  split at h
  · cases h; exact .inl rfl
  · rename_i sn hsn
    split at h
    · cases h; exact .inl rfl
    · cases h
    · rename_i store hst
      have hstore : store.confState = sn.metadata.confState := by
        unfold MemStorage.applySnapshot at hst
        simp only [] at hst
        split at hst
        · cases hst
        · cases hst; rfl
      split at h
      · cases h
      · cases h
      · rename_i l hl
        have hl' : l.store = store := C06.stableSnap_store hl
        split at h
        · rename_i raft hp
          cases h
          refine .inr ⟨sn, hsn, ?_, rfl⟩
          rw [onPersistSnap_storedCs hp]
          show l.store.confState = _
          rw [hl', hstore]
        · cases h
        · cases h

theorem nodeCommitApply_storedCs {st st' : NState} {res : OpRes} {k : Nat}
    (h : Node.commitApply st k = .ok (res, st')) : StoredCs st st' (.commitApply k) := by
  unfold Node.commitApply at h
  simp only [] at h
  split at h
  · rename_i r hb
    cases h
    rw [Res.bind_eq_ok_iff] at hb
    obtain ⟨r1, hr1, hb⟩ := hb
    have e : r1.raftLog = st.raft.raftLog := by
      split at hr1
      · split at hr1
        · cases hr1
          unfold Raft.reduceUncommittedSize
          split <;> rfl
        · cases hr1; rfl
        · cases hr1
      · cases hr1; rfl
    have h2 : r.raftLog.store.confState = st.raft.raftLog.store.confState := by
      have := (commitApplyInternal_sc (P := fun x => x = r1.raftLog.store.confState) hb ⟨rfl⟩).h
      rw [this, e]
    show _ ∨ _
    split
    · exact .inr rfl
    · exact .inl h2
  · cases h
  · cases h

theorem assignCommitGroups_storedCs {r r' : Raft} {ids : List (Nat × Nat)}
    (h : r.assignCommitGroups ids = .ok r') :
    r'.raftLog.store.confState = r.raftLog.store.confState := by
  unfold Raft.assignCommitGroups at h
  simp only [] at h
  rw [Res.bind_eq_ok_iff] at h
  obtain ⟨r1, hf, h⟩ := h
  have h1 : Sc.SC (fun x => x = r.raftLog.store.confState) r1 := by
    refine Sc.foldl_sc _ ?_ _ _ hf (by intro r2 e; cases e; exact ⟨rfl⟩)
    intro acc p r2 h2
    cases acc with
    | err e => cases h2
    | panic s => cases h2
    | ok r0 =>
      refine ⟨r0, rfl, fun h0 => ?_⟩
      change (if p.2 = 0 then Res.panic _ else _) = _ at h2
      split at h2
      · cases h2
      · cases h2; exact ⟨h0.h⟩
  have : Sc.SC (fun x => x = r.raftLog.store.confState) r' := by
    have h0 := h1
    sc_auto h [Sc.maybeCommit_sc, Sc.bcastAppend_sc, h1]
  exact this.h

/-- **one call of a node, any `NodeOp`: who writes the stored `ConfState`** — `commit_apply` (the
application's record `appCs`, when the index is within the stored range) and `persist_snap` (the
snapshot's `ConfState`); nothing else -/
theorem call_storedCs (st st' : NState) (rnd : Option Nat) (op : NodeOp) (res : OpRes)
    (h : Node.call st rnd op = .ok (res, st')) : StoredCs st st' op := by
  unfold Node.call at h
  have sc0 : Sc.SC (fun x => x = st.raft.raftLog.store.confState)
      ({ st.raft with nextRand := rnd } : Raft) := ⟨rfl⟩
  cases op with
  | tick =>
    simp only [applyOp] at h
    split at h
    · rename_i raft b heq
      cases h
      exact (Sc.tick_sc heq sc0).h
    · cases h
    · cases h
  | step m =>
    simp only [applyOp] at h
    obtain ⟨raft, e, hx, hr⟩ := CV.unitRes_ok h
    show st'.raft.raftLog.store.confState = _
    rw [hr]
    unfold RawNode.step at hx
    split at hx
    · cases hx; rfl
    · split at hx
      · exact step_storedCs (r := { st.raft with nextRand := rnd }) hx
      · cases hx; rfl
  | rstep m =>
    simp only [applyOp] at h
    obtain ⟨raft, e, hx, hr⟩ := CV.unitRes_ok h
    show st'.raft.raftLog.store.confState = _
    rw [hr]
    exact step_storedCs (r := { st.raft with nextRand := rnd }) hx
  | propose c d =>
    simp only [applyOp] at h
    obtain ⟨raft, e, hx, hr⟩ := CV.unitRes_ok h
    show st'.raft.raftLog.store.confState = _
    rw [hr]
    exact step_storedCs (r := { st.raft with nextRand := rnd }) hx
  | proposeCc t c d =>
    simp only [applyOp] at h
    obtain ⟨raft, e, hx, hr⟩ := CV.unitRes_ok h
    show st'.raft.raftLog.store.confState = _
    rw [hr]
    exact step_storedCs (r := { st.raft with nextRand := rnd }) hx
  | readIndex c =>
    simp only [applyOp] at h
    obtain ⟨raft, hx, hr⟩ := CV.okRes_ok h
    show st'.raft.raftLog.store.confState = _
    rw [hr]
    exact stepIgnore_storedCs (r := { st.raft with nextRand := rnd }) hx
  | transferLeader x =>
    simp only [applyOp] at h
    obtain ⟨raft, hx, hr⟩ := CV.okRes_ok h
    show st'.raft.raftLog.store.confState = _
    rw [hr]
    exact stepIgnore_storedCs (r := { st.raft with nextRand := rnd }) hx
  | campaign =>
    simp only [applyOp] at h
    obtain ⟨raft, e, hx, hr⟩ := CV.unitRes_ok h
    show st'.raft.raftLog.store.confState = _
    rw [hr]
    exact step_storedCs (r := { st.raft with nextRand := rnd }) hx
  | ping =>
    simp only [applyOp] at h
    obtain ⟨raft, hx, hr⟩ := CV.okRes_ok h
    show st'.raft.raftLog.store.confState = _
    rw [hr]
    change Raft.ping _ = _ at hx
    unfold Raft.ping at hx
    have key : Sc.SC (fun x => x = st.raft.raftLog.store.confState) raft := by
      have h0 := sc0
      sc_auto hx [Sc.bcastHeartbeat_sc]
    exact key.h
  | requestSnapshot =>
    simp only [applyOp] at h
    obtain ⟨raft, e, hx, hr⟩ := CV.unitRes_ok h
    show st'.raft.raftLog.store.confState = _
    rw [hr]
    change Raft.requestSnapshot _ = _ at hx
    unfold Raft.requestSnapshot at hx
    have key : Sc.SC (fun x => x = st.raft.raftLog.store.confState) raft := by
      have h0 := sc0
      sc_auto hx [Sc.sendRequestSnapshot_sc, Sc.send_sc]
    exact key.h
  | reportUnreachable x =>
    simp only [applyOp] at h
    obtain ⟨raft, hx, hr⟩ := CV.okRes_ok h
    show st'.raft.raftLog.store.confState = _
    rw [hr]
    exact stepIgnore_storedCs (r := { st.raft with nextRand := rnd }) hx
  | reportSnapshot x f =>
    simp only [applyOp] at h
    obtain ⟨raft, hx, hr⟩ := CV.okRes_ok h
    show st'.raft.raftLog.store.confState = _
    rw [hr]
    exact stepIgnore_storedCs (r := { st.raft with nextRand := rnd }) hx
  | applyConfChange cc =>
    simp only [applyOp] at h
    have key : ∀ raft x, RawNode.applyConfChange ({ st.raft with nextRand := rnd } : Raft) cc =
        .ok (raft, x) → raft.raftLog.store.confState = st.raft.raftLog.store.confState := by
      intro raft x hx
      change Raft.applyConfChange _ _ = _ at hx
      unfold Raft.applyConfChange at hx
      have : Sc.SC (fun x => x = st.raft.raftLog.store.confState) raft := by
        have h0 := sc0
        sc_auto hx [Sc.postConfChange_sc]
      exact this.h
    split at h
    · rename_i raft cs heq
      cases h
      exact key _ _ heq
    · rename_i raft e heq
      cases h
      exact key _ _ heq
    · cases h
    · cases h
  | stabilize =>
    simp only [applyOp] at h
    exact stabilize_storedCs (st := { st with raft := { st.raft with nextRand := rnd } }) h
  | onPersistEntries i t =>
    simp only [applyOp] at h
    obtain ⟨raft, hx, hr⟩ := CV.okRes_ok h
    show st'.raft.raftLog.store.confState = _
    rw [hr]
    exact onPersistEntries_storedCs (r := { st.raft with nextRand := rnd }) hx
  | persistSnap =>
    simp only [applyOp] at h
    exact persistSnap_storedCs (st := { st with raft := { st.raft with nextRand := rnd } }) h
  | commitApply k =>
    simp only [applyOp] at h
    exact nodeCommitApply_storedCs (st := { st with raft := { st.raft with nextRand := rnd } }) h
  | compact k =>
    simp only [applyOp] at h
    split at h
    · rename_i store hcomp
      cases h
      exact msCompact_confState hcomp
    · cases h
    · cases h
  | drain => simp only [applyOp] at h; cases h; rfl
  | triggerSnap => simp only [applyOp] at h; cases h; rfl
  | triggerLog b => simp only [applyOp] at h; cases h; rfl
  | setPriority p => simp only [applyOp] at h; cases h; rfl
  | setBatchAppend b => simp only [applyOp] at h; cases h; rfl
  | skipBcastCommit b => simp only [applyOp] at h; cases h; rfl
  | setCheckQuorum b => simp only [applyOp] at h; cases h; rfl
  | adjustMaxInflight id cap =>
    simp only [applyOp] at h
    obtain ⟨raft, hx, hr⟩ := CV.okRes_ok h
    show st'.raft.raftLog.store.confState = _
    rw [hr]
    unfold Raft.adjustMaxInflightMsgs at hx
    split at hx
    · cases hx; rfl
    · split at hx
      · cases hx; rfl
      · cases hx
  | maybeFreeInflightBuffers => simp only [applyOp] at h; cases h; rfl
  | enableGroupCommit b =>
    simp only [applyOp] at h
    obtain ⟨raft, hx, hr⟩ := CV.okRes_ok h
    show st'.raft.raftLog.store.confState = _
    rw [hr]
    unfold Raft.enableGroupCommit at hx
    have key : Sc.SC (fun x => x = st.raft.raftLog.store.confState) raft := by
      have h0 := sc0
      sc_auto hx [Sc.maybeCommit_sc, Sc.bcastAppend_sc]
    exact key.h
  | assignCommitGroups v =>
    simp only [applyOp] at h
    obtain ⟨raft, hx, hr⟩ := CV.okRes_ok h
    show st'.raft.raftLog.store.confState = _
    rw [hr]
    exact assignCommitGroups_storedCs (r := { st.raft with nextRand := rnd }) hx
  | clearCommitGroup => simp only [applyOp] at h; cases h; rfl
  | checkGroupCommitConsistent =>
    simp only [applyOp] at h
    split at h
    · cases h; rfl
    · cases h; rfl
    · cases h
    · cases h
  | setMaxApplyUnpersistedLogLimit x => simp only [applyOp] at h; cases h; rfl
  | setMaxCommittedSizePerReady x => simp only [applyOp] at h; cases h; rfl
  | onEntriesFetched to term aggr =>
    rcases CV.onEntriesFetched_ok h with h | ⟨-, -, -, raft, hx, h⟩
    · cases h; rfl
    · cases h
      rcases hx with hx | hx
      · exact (Sc.sendAppendAggressively_sc hx sc0).h
      · exact (Sc.sendAppend_sc hx sc0).h

/-- `Raft::new` keeps the `ConfState` of the storage it is given -/
theorem raftNew_storedCs (c : Config) (store : MemStorage) (rnd : Option Nat) (r : Raft)
    (h : Raft.new c store rnd = .ok (.ok r)) :
    r.raftLog.store.confState = store.confState := by
  unfold Raft.new at h
  split at h
  · cases h
  · dsimp only at h
    split at h
    · cases h
    · cases h
    · rename_i log hnew
      have hlog : log.store = store := by
        unfold RaftLog.new at hnew
        split at hnew
        · cases hnew
        · cases hnew; rfl
      split at h
      · cases h
      · rename_i prs _
        rw [CV.postConfChange_follower_eq _ rfl] at h
        simp only [Res.bind] at h
        split at h
        · cases h
        · generalize hr1 : (if store.initialState.1 ≠ {} then
            Raft.loadState _ store.initialState.1 else Res.ok _) = r1 at h
          cases r1 with
          | ok b =>
            dsimp only [Res.bind] at h
            generalize hr2 : (if c.applied > 0 then b.commitApplyInternal c.applied true
              else Res.ok b) = r2 at h
            cases r2 with
            | ok d =>
              dsimp only [Res.bind] at h
              cases h
              have hb : b.raftLog.store.confState = store.confState := by
                by_cases hhs : store.hardState ≠ {}
                · have hhs' : store.initialState.1 ≠ {} := hhs
                  rw [if_pos hhs'] at hr1
                  change Raft.loadState _ store.hardState = _ at hr1
                  unfold Raft.loadState at hr1
                  split at hr1
                  · cases hr1
                  · cases hr1
                    show log.store.confState = _
                    rw [hlog]
                · have hhs' : ¬ store.initialState.1 ≠ {} := hhs
                  rw [if_neg hhs'] at hr1
                  cases hr1
                  show log.store.confState = _
                  rw [hlog]
              have hd : d.raftLog.store.confState = store.confState := by
                by_cases hca : c.applied > 0
                · rw [if_pos hca] at hr2
                  exact (commitApplyInternal_sc (P := fun x => x = store.confState) hr2 ⟨hb⟩).h
                · rw [if_neg hca] at hr2
                  cases hr2; exact hb
              have hk := VoteOb.c02_becomeFollower_keep d d.term 0
              rw [hk.log.store]; exact hd
            | err e => cases h
            | panic s => cases h
          | err e => cases h
          | panic s => cases h

/-- `RawNode::new` from a storage: the stored `ConfState` is kept, and it is the application's
record -/
theorem boot_storedCs (c : Config) (store : MemStorage) (rnd : Option Nat) (st : NState)
    (h : Node.boot c store rnd = .ok (.ok st)) :
    st.raft.raftLog.store.confState = store.confState ∧ st.appCs = store.confState := by
  unfold Node.boot at h
  split at h
  · rename_i raft hn
    cases h
    unfold RawNode.new at hn
    split at hn
    · cases hn
    · exact ⟨raftNew_storedCs c store rnd raft hn, rfl⟩
  · cases h
  · cases h
  · cases h

end Node

namespace Cluster
open Node Raft

/-- the steps that write node `i`'s stored `ConfState`: its `commit_apply` and `persist_snap` calls -/
def RecLabel (i : Nat) : Label → Prop
  | .call j _ (.commitApply _) => j = i
  | .call j _ .persistSnap => j = i
  | _ => False

/-- one labelled step keeps the stored `ConfState` of node `k` unless it is a recording call of `k`
(a `restart` of `k` boots from the node's own storage and keeps it) -/
theorem lstep_storedCs {s s' : Sys} {l : Label} (h : LStep s l s') (k : Nat) (st st' : NState)
    (h1 : s.node k = some st) (h2 : s'.node k = some st') (hl : ¬ RecLabel k l) :
    st'.raft.raftLog.store.confState = st.raft.raftLog.store.confState := by
  by_cases hk : k = l.node
  · cases h with
    | call i stx stx' rnd op res g1 g2 g3 =>
      have hk' : k = i := hk
      subst hk'
      rw [node_setNode_self] at h2
      cases h2
      rw [h1] at g1; cases g1
      have hc := call_storedCs st st' rnd op res g3
      cases op <;> first
        | exact hc
        | exact absurd rfl hl
    | deliver i stx stx' rnd m res g1 g2 g3 g4 =>
      have hk' : k = i := hk
      subst hk'
      rw [node_setNode_self] at h2
      cases h2
      rw [h1] at g1; cases g1
      exact call_storedCs st st' rnd (.step m) res g4
    | send i stx stx' g1 g2 g3 =>
      have hk' : k = i := hk
      subst hk'
      have h2' : (s.setNode k stx').node k = some st' := h2
      rw [node_setNode_self] at h2'
      cases h2'
      rw [h1] at g1; cases g1
      exact call_storedCs st st' none .drain _ g3
    | restart i stx stx' c rnd g1 g2 g3 =>
      have hk' : k = i := hk
      subst hk'
      rw [node_setNode_self] at h2
      cases h2
      rw [h1] at g1; cases g1
      exact (boot_storedCs c _ rnd st' g3).1
  · have := lstep_other h k hk
    rw [this, h1] at h2
    cases h2
    rfl

/-- what a call of node `i` does to its stored `ConfState` (`StoredCs`: `commit_apply` may write the
application's record `appCs`, `persist_snap` the snapshot's `ConfState`, every other call nothing) -/
theorem lstep_records {s s' : Sys} {i : Nat} {rnd : Option Nat} {op : NodeOp}
    (h : LStep s (.call i rnd op) s') (st st' : NState) (h1 : s.node i = some st)
    (h2 : s'.node i = some st') : StoredCs st st' op := by
  cases h with
  | call _ stx stx' _ _ res g1 g2 g3 =>
    rw [node_setNode_self] at h2
    cases h2
    rw [h1] at g1; cases g1
    exact call_storedCs st st' rnd op res g3

/-- no recording call of node `i` in the run -/
def RecFree (i : Nat) (ls : List Label) : Prop := ∀ l ∈ ls, ¬ RecLabel i l

/-- along a run without recording call of node `i` (restarts of `i` allowed) its stored `ConfState`
stays -/
theorem trace_storedCs {s s' : Sys} {ls : List Label} (ht : Trace s ls s') (i : Nat)
    (hfree : RecFree i ls) (st st' : NState) (h1 : s.node i = some st)
    (h2 : s'.node i = some st') :
    st'.raft.raftLog.store.confState = st.raft.raftLog.store.confState := by
  induction ht generalizing st' with
  | refl =>
    rw [h1] at h2; cases h2; rfl
  | tail b c ls l hab hbc ih =>
    obtain ⟨stb, hb⟩ := lstep_node_some hbc i st' h2
    have hfree' : RecFree i ls := fun x hx => hfree x (List.mem_append_left _ hx)
    have hl := hfree l (List.mem_append_right _ (List.mem_singleton.2 rfl))
    rw [lstep_storedCs hbc i stb st' hb h2 hl]
    exact ih hfree' stb hb

/-- **after a restart the configuration is `restore` of the last recorded `ConfState`**: from any
state `s`, along a run without recording call of node `i`, then a `restart` of `i` — the restarted
node's tracker view is `confchange::restore` (on the empty tracker) of the `ConfState` node `i`'s
storage held in `s`, which is also the application's record and the stored `ConfState` afterwards -/
theorem restart_restores_stored {s s1 s2 : Sys} {ls : List Label} {c : Config} {rnd : Option Nat}
    (i : Nat) (ht : Trace s ls s1) (hfree : RecFree i ls) (hr : LStep s1 (.restart i c rnd) s2)
    (st st2 : NState) (h1 : s.node i = some st) (h2 : s2.node i = some st2) :
    RaftModel.restore Tracker.empty st.raft.raftLog.store.confState = .ok st2.raft.prs.toCC ∧
    st2.appCs = st.raft.raftLog.store.confState ∧
    st2.raft.raftLog.store.confState = st.raft.raftLog.store.confState := by
  cases hr with
  | restart _ stx stx' _ _ g1 g2 g3 =>
    rw [node_setNode_self] at h2
    cases h2
    have e := trace_storedCs ht i hfree st stx h1 g1
    have hb : ConfRestored stx.raft.raftLog.store.confState st2.raft := boot_conf c _ rnd st2 g3
    obtain ⟨b1, b2⟩ := boot_storedCs c _ rnd st2 g3
    rw [e] at hb b1 b2
    exact ⟨hb, b2, b1⟩

end Cluster
end RaftModel
