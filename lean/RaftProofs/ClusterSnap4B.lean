import RaftProofs.ClusterSnap4A

/-!
(Copy of `ClusterCommit4B` for the relation `Raft.CS.PW` of `ClusterSnap4A`: no `QSnap` escape, the
`Snapshot` state allowed.)

Cluster-level commit safety, part 4B: `Progress` bookkeeping keeps a progress within the log (`POk`),
and `PW` through `maybe_send_append`, its callers, the heartbeat senders and the broadcast loops; the
leader-world version `LW` (`PW` on a leader).
-/
namespace RaftModel
namespace Raft
namespace CS
open RaftProps.C13

/-! ### `Progress` -/

theorem POk.updateState {ms : List Message} {li : Nat} {pr pr' : Progress} (h : POk ms li pr)
    {last : Nat} (hl : last ≤ li) (hu : pr.updateState last = .ok pr') : POk ms li pr' := by
  unfold Progress.updateState at hu
  split at hu
  · split at hu
    · cases hu
    · split at hu
      · cases hu
        exact ⟨h.1, by simp [Progress.optimisticUpdate]; omega, h.2.2⟩
      · cases hu
  · cases hu; exact h.congr rfl rfl rfl
  · cases hu

/-- `become_probe`: a progress in the `Snapshot` state resumes after its pending snapshot, which
must lie within the log -/
theorem POk.becomeProbe {ms : List Message} {li : Nat} {pr : Progress} (h : POk ms li pr)
    (hps : pr.state = .snapshot → pr.pendingSnapshot ≤ li) : POk ms li pr.becomeProbe := by
  unfold Progress.becomeProbe
  split
  · rename_i hs
    refine ⟨h.1, ?_, fun hc => by cases hc⟩
    show max (pr.matched + 1) (pr.pendingSnapshot + 1) ≤ li + 1
    have := h.1
    have := hps hs
    omega
  · refine ⟨h.1, ?_, fun hc => by cases hc⟩
    show pr.matched + 1 ≤ li + 1
    have := h.1; omega

theorem POk.becomeProbe_ns {ms : List Message} {li : Nat} {pr : Progress} (h : POk ms li pr)
    (hns : pr.state ≠ .snapshot) : POk ms li pr.becomeProbe :=
  h.becomeProbe (fun hc => absurd hc hns)

theorem POk.becomeReplicate {ms : List Message} {li : Nat} {pr : Progress} (h : POk ms li pr) :
    POk ms li pr.becomeReplicate := by
  refine ⟨h.1, ?_, fun hc => by cases hc⟩
  show pr.matched + 1 ≤ li + 1
  have := h.1; omega

/-- `become_snapshot` with a `MsgSnapshot` of that index in the queue -/
theorem POk.becomeSnapshot {ms : List Message} {li : Nat} {pr : Progress} (h : POk ms li pr)
    {i : Nat} (hf : FS ms i) : POk ms li (pr.becomeSnapshot i) :=
  ⟨h.1, h.2.1, fun _ => .inr hf⟩

theorem maybeUpdate_eq {pr pr' : Progress} {n : Nat} {b : Bool}
    (hu : pr.maybeUpdate n = .ok (pr', b)) :
    pr'.state = pr.state ∧ pr'.pendingSnapshot = pr.pendingSnapshot ∧
    pr'.matched = max pr.matched n ∧ pr'.nextIdx = max pr.nextIdx (n + 1) := by
  unfold Progress.maybeUpdate at hu
  split at hu
  · cases hu
  · cases hu
    by_cases c1 : pr.matched < n <;> by_cases c2 : pr.nextIdx < n + 1 <;>
      simp [c1, c2] <;> omega

theorem POk.maybeUpdate {ms : List Message} {li : Nat} {pr pr' : Progress} {n : Nat} {b : Bool}
    (h : POk ms li pr)
    (hn : n ≤ li) (hu : pr.maybeUpdate n = .ok (pr', b)) :
    POk ms li pr' ∧ n ≤ pr'.matched ∧ pr'.state = pr.state ∧
      pr'.pendingSnapshot = pr.pendingSnapshot := by
  obtain ⟨h1, h2, h3⟩ := h
  obtain ⟨e1, e2, e3, e4⟩ := maybeUpdate_eq hu
  refine ⟨⟨?_, ?_, ?_⟩, ?_, e1, e2⟩
  · rw [e3]; omega
  · rw [e4]; omega
  · rw [e1, e2]; exact h3
  · rw [e3]; omega

theorem POk.maybeDecrTo {ms : List Message} {li : Nat} {pr pr' : Progress} {rej hint req : Nat}
    {b : Bool}
    (h : POk ms li pr) (hu : pr.maybeDecrTo rej hint req = .ok (pr', b)) :
    POk ms li pr' ∧ pr'.state = pr.state := by
  obtain ⟨h1, h2, h3⟩ := h
  unfold Progress.maybeDecrTo at hu
  split at hu
  · split at hu
    · cases hu; exact ⟨⟨h1, h2, h3⟩, rfl⟩
    · split at hu
      · cases hu; exact ⟨⟨h1, by show pr.matched + 1 ≤ li + 1; omega, h3⟩, rfl⟩
      · cases hu; exact ⟨⟨h1, h2, h3⟩, rfl⟩
  · split at hu
    · cases hu; exact ⟨⟨h1, h2, h3⟩, rfl⟩
    · rename_i hg
      split at hu
      · rename_i hq
        split at hu
        · cases hu
        · cases hu
          have hrej : pr.nextIdx ≠ 0 ∧ pr.nextIdx - 1 = rej := by
            apply Classical.byContradiction
            intro hc
            apply hg
            refine ⟨?_, hq⟩
            by_cases h0 : pr.nextIdx = 0
            · exact Or.inl h0
            · right; intro he; exact hc ⟨h0, he⟩
          have hmin : min rej (hint + 1) ≤ rej := Nat.min_le_left _ _
          refine ⟨⟨h1, ?_, h3⟩, rfl⟩
          dsimp only
          split <;> omega
      · split at hu
        · cases hu; exact ⟨⟨h1, h2, h3⟩, rfl⟩
        · cases hu; exact ⟨⟨h1, h2, h3⟩, rfl⟩

theorem POk.updateCommitted {ms : List Message} {li : Nat} {pr : Progress} (h : POk ms li pr)
    (c : Nat) : POk ms li (pr.updateCommitted c) := by
  unfold Progress.updateCommitted
  split
  · exact h.congr rfl rfl rfl
  · exact h

theorem POk.reset (ms : List Message) (li : Nat) (pr : Progress) : POk ms li (pr.reset (li + 1)) :=
  ⟨Nat.zero_le _, Nat.le_refl _, fun hc => by cases hc⟩

theorem POk.new (ms : List Message) (li n : Nat) (cap : Nat) (hn : n ≤ li + 1) :
    POk ms li (Progress.new n cap) :=
  ⟨Nat.zero_le _, hn, fun hc => by cases hc⟩

/-! ### automation -/

macro "pws_pre" h:ident : tactic =>
  `(tactic| (frame_dec $h:ident <;> (iterate 2 (try (apply PW.mk')))))

macro "pws_auto" h:ident "[" ls:Lean.Parser.Tactic.SolveByElim.arg,* "]" : tactic =>
  `(tactic| (pws_pre $h:ident <;> (solve_by_elim (maxDepth := 14) [$ls,*, PW.mk'])))

/-! ### `maybe_send_append` -/

/-- what one `maybe_send_append` for a progress within the log (or with the queue poisoned) leaves -/
theorem maybeSendAppend_pw {a r r' : Raft} {to : Nat} {pr pr' : Progress} {ae b : Bool}
    (h : r.maybeSendAppend to pr ae = .ok (r', pr', b)) (h0 : PW a r)
    (hp : QSnap r.msgs ∨ POk r.msgs r.raftLog.lastIndex pr) :
    PW a r' ∧ (QSnap r'.msgs ∨ POk r'.msgs r'.raftLog.lastIndex pr') := by
  have hls : LS r r' := maybeSendAppend_ls h LS.rfl
  rcases C13_send_classification r r' to pr pr' ae b h with
    ⟨_, he, hpr, _⟩ | ⟨_, _, hn, t, es, ht, hes, _, _, hsu, hcase⟩ | ⟨_, _, he, hpr, _⟩ | ⟨_, _, hv⟩
  · rw [he, hpr]; exact ⟨h0, hp⟩
  · rcases hcase with ⟨hb, _⟩ | ⟨_, he⟩
    · rw [h0.nb] at hb; cases hb
    · have hpw : PW a r' := by
        rw [he]
        refine h0.push _ (fun _ => ?_) (fun hc => by cases hc) (fun _ => ?_)
        · rcases hp with c | c
          · exact .inl c
          · right
            show pr.nextIdx - 1 ≤ r.raftLog.lastIndex
            have := c.2.1; omega
        · -- the entries were read from the log: `next_idx` is not below the first index
          rcases hp with c | c
          · exact .inl c
          · right
            show r.raftLog.firstIndex ≤ pr.nextIdx - 1 + 1
            have hcl := h0.inv.committed_le_last
            have hd := h0.inv.dummy_le_committed
            by_cases hlt : pr.nextIdx ≤ r.raftLog.lastIndex ∧ pr.nextIdx < r.raftLog.firstIndex
            · rw [entries_compacted _ _ _ _ hlt.1 hlt.2] at hes; cases hes
            · have := c.2.1; omega
      refine ⟨hpw, ?_⟩
      rcases hp with c | c
      · left; rw [he]; exact c.append_left _
      · right
        rw [hls.last]
        have hsub : ∀ x ∈ r.msgs, x ∈ r'.msgs := by
          intro x hx; rw [he]; exact List.mem_append_left _ hx
        unfold SentUpdate at hsu
        cases hg : es.getLast? with
        | none =>
          rw [hg] at hsu; simp only at hsu; rw [hsu]; exact c.mono (Nat.le_refl _) hsub
        | some last =>
          rw [hg] at hsu; simp only at hsu
          have hm := (C13_entries_contiguous_bounded r.raftLog h0.inv pr.nextIdx _ true es hes).2.1
            last (List.mem_of_getLast? hg)
          exact (c.updateState hm.2 hsu).mono (Nat.le_refl _) hsub
  · rw [he, hpr]; exact ⟨h0, hp⟩
  · have hs := viaSnapshot_spec r r' to pr pr' b hv
    cases b with
    | true =>
      obtain ⟨_, sn, _, _, h4, h5⟩ := hs.1 rfl
      have hfs : FS r'.msgs sn.metadata.index := by
        rw [h4]
        exact ⟨snapMsg r to sn, List.mem_append_right _ (List.mem_singleton.2 rfl), rfl, rfl⟩
      have hsub : ∀ x ∈ r.msgs, x ∈ r'.msgs := by
        intro x hx; rw [h4]; exact List.mem_append_left _ hx
      refine ⟨?_, ?_⟩
      · rw [h4]
        have h1 : PW a { r with raftLog := r'.raftLog } := h0.log hls
        refine h1.pushSnap (snapMsg r to sn) rfl r.prs (fun hst => ?_)
        rcases h1.po hst with c | c
        · exact c.elim
        · exact c.app _
      · rcases hp with c | c
        · exact c.elim
        · right
          rw [h5, hls.last]
          exact (c.mono (Nat.le_refl _) hsub).becomeSnapshot hfs
    | false =>
      obtain ⟨h1, h2, _⟩ := hs.2 rfl
      refine ⟨by rw [h2]; exact h0.log hls, ?_⟩
      rw [h1, hls.last]
      rcases hp with c | c
      · left; rw [h2]; exact c
      · right; rw [h2]; exact c

theorem sendAppendPr_pw {a r r' : Raft} {to : Nat} {pr pr' : Progress}
    (h : r.sendAppendPr to pr = .ok (r', pr')) (h0 : PW a r)
    (hp : QSnap r.msgs ∨ POk r.msgs r.raftLog.lastIndex pr) :
    PW a r' ∧ (QSnap r'.msgs ∨ POk r'.msgs r'.raftLog.lastIndex pr') := by
  unfold Raft.sendAppendPr at h
  rw [Res.bind_eq_ok_iff] at h
  obtain ⟨⟨r1, pr1, b⟩, h1, h2⟩ := h
  cases h2
  exact maybeSendAppend_pw h1 h0 hp

theorem sendAppendAggressivelyPr_pw {a r' : Raft} {to : Nat} {pr' : Progress} :
    ∀ (fuel : Nat) (r : Raft) (pr : Progress),
      sendAppendAggressivelyPr fuel r to pr = .ok (r', pr') → PW a r →
      (QSnap r.msgs ∨ POk r.msgs r.raftLog.lastIndex pr) →
      PW a r' ∧ (QSnap r'.msgs ∨ POk r'.msgs r'.raftLog.lastIndex pr') := by
  intro fuel
  induction fuel with
  | zero => intro r pr h; simp [sendAppendAggressivelyPr] at h
  | succ n ih =>
    intro r pr h h0 hp
    unfold sendAppendAggressivelyPr at h
    split at h
    · rename_i r1 pr1 hm
      obtain ⟨g1, g2⟩ := maybeSendAppend_pw hm h0 hp
      exact ih r1 pr1 h g1 g2
    · rename_i r1 pr1 hm
      cases h; exact maybeSendAppend_pw hm h0 hp
    · cases h
    · cases h

/-! ### the leader world -/

/-- `PW` on a leader -/
def LW (a r : Raft) : Prop := PW a r ∧ r.state = .leader

theorem LW.pw {a r : Raft} (h : LW a r) : PW a r := h.1
theorem LW.lead {a r : Raft} (h : LW a r) : r.state = .leader := h.2

theorem LW.mk' {a r : Raft} {x1 x2 x3 : Nat} {x4 : List ReadState} {x6 x7 x8 : Nat}
    {x10 : Bool} {x11 : Nat}
    {x12 : Option Nat} {x13 : Nat} {x15 x16 : Nat} {x17 x18 x19 x21 : Bool}
    {x22 x23 x24 x25 x26 : Nat} {x27 : Int} {x28 : UncommittedState} {x29 : Nat}
    {x32 : Option Nat} (h0 : LW a r) :
    LW a { term := x1, vote := x2, id := x3, readStates := x4, raftLog := r.raftLog,
           maxInflight := x6, maxMsgSize := x7, pendingRequestSnapshot := x8, state := r.state,
           promotable := x10, leaderId := x11, leadTransferee := x12,
           pendingConfIndex := x13, readOnly := r.readOnly, electionElapsed := x15,
           heartbeatElapsed := x16, checkQuorum := x17, preVote := x18,
           skipBcastCommit := x19, batchAppend := r.batchAppend, disableProposalForwarding := x21,
           heartbeatTimeout := x22, electionTimeout := x23, randomizedElectionTimeout := x24,
           minElectionTimeout := x25, maxElectionTimeout := x26, priority := x27,
           uncommittedState := x28, maxCommittedSizePerReady := x29, prs := r.prs, msgs := r.msgs,
           nextRand := x32 } := h0

/-- the progress of a peer of a leader -/
theorem LW.getPr {a r : Raft} (h : LW a r) {id : Nat} {pr : Progress} (hg : r.prs.get id = some pr) :
    QSnap r.msgs ∨ POk r.msgs r.raftLog.lastIndex pr := by
  rcases h.1.po h.2 with c | c
  · exact .inl c
  · exact .inr (c.get hg)

theorem LW.setPr {a r : Raft} {id : Nat} {pr : Progress} (h0 : LW a r)
    (hp : QSnap r.msgs ∨ POk r.msgs r.raftLog.lastIndex pr) :
    LW a { r with prs := r.prs.set id pr } := ⟨h0.1.setPr hp, h0.2⟩

macro "lws_pre" h:ident : tactic =>
  `(tactic| (frame_dec $h:ident <;> (iterate 2 (try (apply LW.mk')))))

macro "lws_auto" h:ident "[" ls:Lean.Parser.Tactic.SolveByElim.arg,* "]" : tactic =>
  `(tactic| (lws_pre $h:ident <;> (solve_by_elim (maxDepth := 14) [$ls,*, LW.mk'])))

theorem send_lw {a r r' : Raft} {m : Message} (h : r.send m = .ok r')
    (hm : wqT m.msgType = false) (h0 : LW a r) : LW a r' :=
  ⟨send_pw h hm h0.1, (send_frame h Frame.rfl).state.trans h0.2⟩

theorem sendHeartbeat_lw {a r r' : Raft} {to : Nat} {pr : Progress} {ctx : Option Bytes}
    (h : r.sendHeartbeat to pr ctx = .ok r') (h0 : LW a r) : LW a r' := by
  unfold Raft.sendHeartbeat at h
  exact send_lw h rfl h0

theorem sendTimeoutNow_lw {a r r' : Raft} {to : Nat}
    (h : r.sendTimeoutNow to = .ok r') (h0 : LW a r) : LW a r' := by
  unfold Raft.sendTimeoutNow at h
  exact send_lw h rfl h0

theorem sendAppendPr_lw {a r r' : Raft} {to : Nat} {pr pr' : Progress}
    (h : r.sendAppendPr to pr = .ok (r', pr')) (h0 : LW a r)
    (hp : QSnap r.msgs ∨ POk r.msgs r.raftLog.lastIndex pr) :
    LW a r' ∧ (QSnap r'.msgs ∨ POk r'.msgs r'.raftLog.lastIndex pr') := by
  obtain ⟨g1, g2⟩ := sendAppendPr_pw h h0.1 hp
  exact ⟨⟨g1, (sendAppendPr_frame h Frame.rfl).state.trans h0.2⟩, g2⟩

theorem sendAppend_lw {a r r' : Raft} {to : Nat}
    (h : r.sendAppend to = .ok r') (h0 : LW a r) : LW a r' := by
  unfold Raft.sendAppend at h
  split at h
  · cases h
  · rename_i pr hg
    rw [Res.bind_eq_ok_iff] at h
    obtain ⟨⟨r1, pr1⟩, h1, h2⟩ := h
    cases h2
    obtain ⟨g1, g2⟩ := sendAppendPr_lw h1 h0 (h0.getPr hg)
    exact g1.setPr g2

theorem sendAppendAggressively_lw {a r r' : Raft} {to : Nat}
    (h : r.sendAppendAggressively to = .ok r') (h0 : LW a r) : LW a r' := by
  unfold Raft.sendAppendAggressively at h
  split at h
  · cases h
  · rename_i pr hg
    rw [Res.bind_eq_ok_iff] at h
    obtain ⟨⟨r1, pr1⟩, h1, h2⟩ := h
    cases h2
    obtain ⟨g1, g2⟩ := sendAppendAggressivelyPr_pw _ _ _ h1 h0.1 (h0.getPr hg)
    exact LW.setPr ⟨g1, (sendAppendAggressivelyPr_frame _ _ _ h1 Frame.rfl).state.trans h0.2⟩ g2

/-- folding a step that keeps `P` over a list, in the `Res` monad -/
theorem foldl_pres {α : Type} (P : Raft → Prop) {r' : Raft} (step : Res Raft → α → Res Raft)
    (hstep : ∀ acc x r1, step acc x = .ok r1 → ∃ r0, acc = .ok r0 ∧ (P r0 → P r1)) :
    ∀ (l : List α) (acc : Res Raft), l.foldl step acc = .ok r' →
      (∀ r, acc = .ok r → P r) → P r' := by
  intro l
  induction l with
  | nil => intro acc h h0; exact h0 r' h
  | cons x rest ih =>
    intro acc h h0
    simp only [List.foldl_cons] at h
    refine ih (step acc x) h ?_
    intro r1 h1
    obtain ⟨r0, e0, hf⟩ := hstep acc x r1 h1
    exact hf (h0 r0 e0)

theorem forEachPeer_lw {a r r' : Raft} {f : Raft → Nat → Progress → Res (Raft × Progress)}
    (hf : ∀ r id pr r' pr', f r id pr = .ok (r', pr') → LW a r →
      (QSnap r.msgs ∨ POk r.msgs r.raftLog.lastIndex pr) →
      LW a r' ∧ (QSnap r'.msgs ∨ POk r'.msgs r'.raftLog.lastIndex pr'))
    (h : r.forEachPeer f = .ok r') (h0 : LW a r) : LW a r' := by
  unfold Raft.forEachPeer at h
  refine foldl_pres (LW a) _ ?_ _ _ h (by intro r1 e; cases e; exact h0)
  intro acc id r1 h1
  cases acc with
  | err e => cases h1
  | panic s => cases h1
  | ok r0 =>
    refine ⟨r0, rfl, fun h0 => ?_⟩
    change (if id = r0.id then Res.ok r0 else _) = _ at h1
    split at h1
    · cases h1; exact h0
    · split at h1
      · cases h1; exact h0
      · rename_i pr hg
        rw [Res.bind_eq_ok_iff] at h1
        obtain ⟨⟨r2, pr2⟩, h2, h3⟩ := h1
        cases h3
        obtain ⟨g1, g2⟩ := hf _ _ _ _ _ h2 h0 (h0.getPr hg)
        exact g1.setPr g2

theorem bcastAppend_lw {a r r' : Raft} (h : r.bcastAppend = .ok r') (h0 : LW a r) : LW a r' := by
  unfold Raft.bcastAppend at h
  exact forEachPeer_lw (fun r id pr r' pr' h => sendAppendPr_lw h) h h0

theorem bcastHeartbeatWithCtx_lw {a r r' : Raft} {ctx : Option Bytes}
    (h : r.bcastHeartbeatWithCtx ctx = .ok r') (h0 : LW a r) : LW a r' := by
  unfold Raft.bcastHeartbeatWithCtx at h
  refine forEachPeer_lw (fun r id pr r' pr' h h0 hp => ?_) h h0
  rw [Res.bind_eq_ok_iff] at h
  obtain ⟨r1, h1, h2⟩ := h
  cases h2
  have g := sendHeartbeat_lw h1 h0
  refine ⟨g, ?_⟩
  rw [send_eq _ _ _ h1]
  rcases hp with c | c
  · exact .inl (c.append_left _)
  · exact .inr (c.app _)

theorem bcastHeartbeat_lw {a r r' : Raft} (h : r.bcastHeartbeat = .ok r') (h0 : LW a r) :
    LW a r' := by
  unfold Raft.bcastHeartbeat at h
  exact bcastHeartbeatWithCtx_lw h h0

end CS
end Raft
end RaftModel
