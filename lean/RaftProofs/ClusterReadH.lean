import RaftProofs.ClusterReadG
import RaftProofs.ClusterCommit4L

/-!
Cluster-level ReadIndex safety, part H: the hypotheses of the read layer (`RdHyp`: those of the commit
layer, `ReadOnlyOption::Safe` on every node, no forwarded `MsgReadIndex` in the transport, unique
non-empty request contexts) and **one step of a history as seen by the read path** (`rd_step`).
-/
namespace RaftModel
namespace Cluster
open Node Raft Raft.CC Raft.RD RaftProps.C02 RaftProps.C05

/-- the step `h[n] → h[n+1]` is a `read_index(K)` call of the application of node `i` -/
def ReadCallAt (h : List Sys) (n i : Nat) (K : Bytes) : Prop :=
  ∃ (a b : Sys) (st st' : NState) (rnd : Option Nat) (res : OpRes),
    h[n]? = some a ∧ h[n + 1]? = some b ∧ a.node i = some st ∧
    Node.call st rnd (.readIndex K) = .ok (res, st') ∧ b = a.setNode i st'

/-- … and this call **registers** the request: `K` was not pending on node `i` before the call and is
pending afterwards -/
def RegAt (h : List Sys) (n i : Nat) (K : Bytes) : Prop :=
  ∃ (a b : Sys) (st st' : NState) (rnd : Option Nat) (res : OpRes),
    h[n]? = some a ∧ h[n + 1]? = some b ∧ a.node i = some st ∧
    Node.call st rnd (.readIndex K) = .ok (res, st') ∧ b = a.setNode i st' ∧
    (∀ rs, (K, rs) ∉ st.raft.readOnly.pendingReadIndex) ∧
    ∃ rs, (K, rs) ∈ st'.raft.readOnly.pendingReadIndex

theorem RegAt.call {h : List Sys} {n i : Nat} {K : Bytes} (hr : RegAt h n i K) :
    ReadCallAt h n i K := by
  obtain ⟨a, b, st, st', rnd, res, h1, h2, h3, h4, h5, _⟩ := hr
  exact ⟨a, b, st, st', rnd, res, h1, h2, h3, h4, h5⟩

/-- **the hypotheses of the read layer**, on top of those of the commit layer without proof gaps about
the transport (`Hyp3w`, `RaftProofs/ClusterCommit2P.lean`; `Hyp3a`, the bundle the main induction of the
commit layer uses, follows: `Hyp3w.toHyp3a`):
* `norir`: no `MsgReadIndexResp` is ever in the transport (no read is forwarded, so no answer travels
  back) — the read layer uses it in two places (`occ_issued`, `rd_produce`); the commit layer no longer
  needs it;
* `safe`: every node runs with `ReadOnlyOption::Safe` (the option is set by `Config` in `Raft::new` and
  never changes afterwards — `reset` keeps it);
* `nori`: no `MsgReadIndex` is ever in the transport — reads are issued at the leader (a follower's
  `read_index` queues a forwarded `MsgReadIndex`; with `norir` its answer could not travel
  back anyway).  Without this hypothesis the theorems are FALSE: see the report;
* `uniq` / `nonempty`: request contexts are unique and not empty — stated for the calls that register
  a request (the weakest form; `RdHyp.of_calls` derives it from uniqueness over all `read_index`
  calls). -/
structure RdHyp (cfg : JointConfig) (c0 : Nat) (h : List Sys) : Prop extends Hyp3w cfg c0 h where
  norir : ∀ s ∈ h, ∀ x ∈ s.net, x.msgType ≠ .msgReadIndexResp
  safe : ∀ s ∈ h, ∀ i st, s.node i = some st → st.raft.readOnly.option = .safe
  nori : ∀ s ∈ h, ∀ x ∈ s.net, x.msgType ≠ .msgReadIndex
  uniq : ∀ n1 n2 i1 i2 K, RegAt h n1 i1 K → RegAt h n2 i2 K → n1 = n2
  nonempty : ∀ n i K, RegAt h n i K → K ≠ []

theorem setNode_head_inj {a : Sys} {i j : Nat} {st1 st2 : NState}
    (h : a.setNode i st1 = a.setNode j st2) : i = j := by
  have := congrArg Sys.nodes h
  simp only [Sys.setNode] at this
  injection this with h1 _
  injection h1

/-- two registrations of one context are the same step on the same node -/
theorem RdHyp.uniq_node {cfg : JointConfig} {c0 : Nat} {h : List Sys} (H : RdHyp cfg c0 h)
    {n1 n2 i1 i2 : Nat} {K : Bytes} (h1 : RegAt h n1 i1 K) (h2 : RegAt h n2 i2 K) :
    n1 = n2 ∧ i1 = i2 := by
  have e := H.uniq n1 n2 i1 i2 K h1 h2
  subst e
  refine ⟨rfl, ?_⟩
  obtain ⟨a, b, st, st', _, _, p1, p2, _, _, p5, _⟩ := h1
  obtain ⟨a', b', st2, st2', _, _, q1, q2, _, _, q5, _⟩ := h2
  rw [p1] at q1; cases q1
  rw [p2] at q2; cases q2
  exact setNode_head_inj (p5.symm.trans q5)

/-! ### `add_request` -/

theorem addRequest_spec {ro ro' : ReadOnly} {idx id : Nat} {K : Bytes}
    (h : ro.addRequest idx (riMsg K) id = .ok ro') :
    (ro' = ro ∧ ∃ rs, (K, rs) ∈ ro.pendingReadIndex) ∨
    ((∀ rs, (K, rs) ∉ ro.pendingReadIndex) ∧ ro'.option = ro.option ∧
      ro'.pendingReadIndex = ro.pendingReadIndex ++
        [(K, { req := riMsg K, index := idx, acks := [id] })] ∧
      ro'.readIndexQueue = ro.readIndexQueue ++ [K]) := by
  unfold ReadOnly.addRequest at h
  simp only [riMsg, List.head?_cons] at h
  split at h
  · rename_i hs
    cases h
    left
    refine ⟨rfl, ?_⟩
    cases hl : ro.pendingReadIndex.lookup K with
    | none => rw [hl] at hs; cases hs
    | some rs => exact ⟨rs, rd_lookup_mem _ _ _ hl⟩
  · rename_i hs
    cases h
    right
    refine ⟨?_, rfl, rfl, rfl⟩
    cases hl : ro.pendingReadIndex.lookup K with
    | none => exact rd_lookup_none _ _ hl
    | some rs => rw [hl] at hs; exact absurd rfl hs

/-! ### one step of a history, as the read path sees it -/

/-- what one step of a history under `RdHyp` does, for the read path -/
inductive RdStep (cfg : JointConfig) (a b : Sys) : Prop
  /-- a call other than `read_index`, or the delivery of a message `m` of the transport -/
  | call (k : Nat) (st st' : NState) (m : Message) (hk : a.node k = some st)
      (hb : b = a.setNode k st') (hm : m.msgType = .msgHup ∨ (m ∈ a.net ∧ m.to = k))
      (ho : ROut cfg st.raft m st'.raft)
  /-- a `read_index(K)` call -/
  | read (k : Nat) (st st' : NState) (K : Bytes) (rnd : Option Nat) (res : OpRes)
      (hk : a.node k = some st) (hb : b = a.setNode k st')
      (hcall : Node.call st rnd (.readIndex K) = .ok (res, st'))
      (ho : RiOut st.raft K st'.raft)
  /-- the queue is handed to the transport; the read states are taken -/
  | send (k : Nat) (st st' : NState) (hk : a.node k = some st)
      (hb : b = { (a.setNode k st') with net := a.net ++ st.raft.msgs })
      (hst : st'.raft = { st.raft with nextRand := none, msgs := [], readStates := [] })
  /-- crash and restart -/
  | restart (k : Nat) (st st' : NState) (hk : a.node k = some st) (hb : b = a.setNode k st')
      (hf : Fresh st'.raft) (hq : st'.raft.msgs = [])

variable {cfg : JointConfig} {c0 : Nat} {h : List Sys}

theorem riOut_rebase {a r : Raft} {K : Bytes} {rnd : Option Nat}
    (ho : RiOut ({ a with nextRand := rnd } : Raft) K r) : RiOut a K r := by
  cases ho with
  | frame hf => exact .frame hf
  | now hs => exact .now hs
  | reg hl hc ro hadd hcore hmsgs => exact .reg hl hc ro hadd hcore hmsgs

theorem rd_step (H : RdHyp cfg c0 h) {n : Nat} {a b : Sys} (ha : h[n]? = some a)
    (hb : h[n + 1]? = some b) : RdStep cfg a b := by
  have H2 := H.toHyp3w.toHyp2w
  have hfa := H2.fix a (mem_of_get ha)
  have hfb := H2.fix b (mem_of_get hb)
  have fin : ∀ (k : Nat) (st st' : NState) (m : Message), a.node k = some st →
      b = a.setNode k st' →
      (∃ V, (V = st.raft.prs.voters ∨ V = st'.raft.prs.voters) ∧ ROut V st.raft m st'.raft) →
      ROut cfg st.raft m st'.raft := by
    intro k st st' m hk hbe ⟨V, hV, ho⟩
    have e1 := hfa k st hk
    have e2 := hfb k st' (by rw [hbe]; exact node_setNode_self a k st')
    rcases hV with c | c
    · rw [← e1, ← c]; exact ho
    · rw [← e2, ← c]; exact ho
  cases H2.steps n a b ha hb with
  | call k st st' rnd op res h1 h2 h3 _ h4 =>
    by_cases hri : ∃ K, op = .readIndex K
    · obtain ⟨K, e⟩ := hri
      subst e
      refine .read k st st' K rnd res h1 rfl h4 ?_
      unfold Node.call at h4
      simp only [applyOp] at h4
      obtain ⟨raft, hx, hr⟩ := CV.okRes_ok h4
      rw [hr]
      exact riOut_rebase (readIndex_cases hx)
    · have hop : CV.opMsg op = CV.mLocal := by
        cases op <;> first | rfl | (cases h2; done)
      refine .call k st st' CV.mLocal h1 rfl (.inl rfl) (fin k st st' _ h1 rfl ?_)
      rw [← hop]
      refine call_rd st st' rnd op res (fun K hK => hri ⟨K, hK⟩) ?_ ?_ h4
      · intro hc; rw [hc] at h2; cases h2
      · intro m hm
        rcases hm with hm | hm <;> rw [hm] at h2 <;> cases h2
  | deliver k st st' rnd m res h1 h2 h3 h4 =>
    refine .call k st st' m h1 rfl (.inr ⟨h2, h3⟩) (fin k st st' _ h1 rfl ?_)
    have := call_rd st st' rnd (.step m) res (fun K hK => by cases hK) (by intro hc; cases hc) ?_ h4
    · exact this
    · intro m' hm
      have e : m' = m := by
        rcases hm with hm | hm
        · injection hm with hm; exact hm.symm
        · cases hm
      subst e
      exact ⟨H.nori a (mem_of_get ha) m' h2, H2.nosnap a (mem_of_get ha) m' h2⟩
  | send k st st' h1 _ _ h3 =>
    refine .send k st st' h1 rfl ?_
    unfold Node.call at h3
    simp only [applyOp] at h3
    cases h3
    rfl
  | restart k st st' c rnd h1 _ h3 =>
    exact .restart k st st' h1 rfl (boot_fresh c _ rnd st' h3) (CV.boot_booted c _ rnd st' h3).msgs

end Cluster
end RaftModel
