import RaftProofs.ClusterRead4B

/-!
Cluster-level ReadIndex safety, helper lemmas part C: the transitive relation `RS r r'` ("`r'` is
reached from `r` by steps that do not use the read path: the `ReadOnly` bookkeeping is untouched and
the term is the same, or the bookkeeping was cleared by `reset`; the term does not decrease; read
states, id, configuration and the queued heartbeats / heartbeat responses are untouched") and its proof
for the role changes, `poll`, `campaign`, `hup`, `maybe_commit_by_vote`.
-/
namespace RaftModel
namespace Raft
namespace RD
namespace R4
open VoteOb

structure RS (r r' : Raft) : Prop where
  keep : (r'.readOnly = r.readOnly ∧ r'.term = r.term) ∨
    r'.readOnly = ReadOnly.new r.readOnly.option
  tle : r.term ≤ r'.term
  rs : r'.readStates = r.readStates
  id : r'.id = r.id
  conf : r'.prs.conf = r.prs.conf
  rd : rdOf r'.msgs = rdOf r.msgs

theorem RS.refl (r : Raft) : RS r r := ⟨.inl ⟨rfl, rfl⟩, Nat.le_refl _, rfl, rfl, rfl, rfl⟩

theorem RF.toRS {r r' : Raft} (h : RF r r') : RS r r' :=
  ⟨.inl ⟨h.ro, h.term⟩, Nat.le_of_eq h.term.symm, h.rs, h.id, h.conf, h.rd⟩

theorem RS.option {r r' : Raft} (h : RS r r') : r'.readOnly.option = r.readOnly.option := by
  rcases h.keep with ⟨g, _⟩ | g <;> rw [g] <;> rfl

theorem RS.trans {a b c : Raft} (h1 : RS a b) (h2 : RS b c) : RS a c := by
  refine ⟨?_, Nat.le_trans h1.tle h2.tle, h2.rs.trans h1.rs, h2.id.trans h1.id,
    h2.conf.trans h1.conf, h2.rd.trans h1.rd⟩
  rcases h2.keep with ⟨g1, g2⟩ | g
  · rcases h1.keep with ⟨k1, k2⟩ | k
    · exact .inl ⟨g1.trans k1, g2.trans k2⟩
    · exact .inr (g1.trans k)
  · right; rw [g, h1.option]

theorem RS.voters {r r' : Raft} (h : RS r r') : r'.prs.voters = r.prs.voters := by
  unfold ProgressTracker.voters; rw [h.conf]

theorem RS.post_rf {r r1 : Raft} {x : Res Raft} (h : RS r r1)
    (hx : Res.Post (fun y => RF r1 y) x) : Res.Post (fun y => RS r y) x :=
  Res.post_mono hx (fun _ hy => h.trans hy.toRS)

/-! ### `reset` and the role changes -/

theorem reset_read (r : Raft) (t : Nat) :
    (r.reset t).readOnly = ReadOnly.new r.readOnly.option ∧
    (r.reset t).readStates = r.readStates := by
  unfold reset
  simp only [mapProgress, abortLeaderTransfer, resetRandomizedElectionTimeout,
    ProgressTracker.resetVotes]
  split <;> simp

theorem reset_rs (r : Raft) (t : Nat) (ht : r.term ≤ t) : RS r (r.reset t) := by
  obtain ⟨h1, _, _, _, h5, _, h7, _⟩ := c02_reset_fields r t
  obtain ⟨e1, e2⟩ := reset_read r t
  exact ⟨.inr e1, by rw [(reset_term_vote r t).1]; exact ht, e2, h1, h5, by rw [h7]⟩

theorem becomeFollower_rs (r : Raft) (t l : Nat) (ht : r.term ≤ t) :
    RS r (r.becomeFollower t l) := by
  have h := reset_rs r t ht
  unfold becomeFollower
  exact ⟨h.keep, h.tle, h.rs, h.id, h.conf, h.rd⟩

theorem becomeCandidate_rs (r : Raft) : Res.Post (fun r' => RS r r') r.becomeCandidate := by
  unfold becomeCandidate
  split
  · trivial
  · split
    · trivial
    · have h := reset_rs r (r.term + 1) (Nat.le_succ _)
      exact ⟨h.keep, h.tle, h.rs, h.id, h.conf, h.rd⟩

theorem becomePreCandidate_rs (r : Raft) : Res.Post (fun r' => RS r r') r.becomePreCandidate := by
  unfold becomePreCandidate
  split
  · trivial
  · exact RF.toRS (by simp [RF, rcore, ProgressTracker.resetVotes])

theorem becomeLeader_rs (r : Raft) : Res.Post (fun r' => RS r r') r.becomeLeader := by
  unfold becomeLeader
  split
  · trivial
  · dsimp only
    split
    · trivial
    · split
      · trivial
      · have h := reset_rs r r.term (Nat.le_refl _)
        split
        · rename_i r2 heq
          have hf := Res.Post.of_eq (P := fun x => RF _ x.1) (appendEntry_rf _ _) heq
          refine RS.trans ?_ hf.toRS
          exact ⟨h.keep, h.tle, h.rs, h.id, by rw [← h.conf]; rfl, h.rd⟩
        · trivial
        · trivial
        · trivial

/-! ### `campaign`, `poll`, `hup` -/

theorem sendVoteRequests_rs (r : Raft) (ct : CampaignType) (vm : MsgType) (term : Nat)
    (hvm : vm = .msgRequestVote ∨ vm = .msgRequestPreVote) (hterm : term ≠ 0) :
    Res.Post (fun r' => RS r r') (r.sendVoteRequests ct vm term) := by
  apply Res.post_intro
  intro r' hs
  obtain ⟨lt, c, cterm, _, _, e⟩ := c02_sendVoteRequests_spec hvm hterm hs
  subst e
  refine RF.toRS ⟨rfl, ?_⟩
  show rdOf (r.msgs ++ _) = rdOf r.msgs
  rw [rdOf_append]
  have : rdOf ((c02_voteTargets r).map (voteReq r vm ct term c cterm lt)) = [] := by
    unfold rdOf
    rw [List.filter_eq_nil_iff]
    intro x hx
    obtain ⟨to, _, e⟩ := List.mem_map.1 hx
    subst e
    rcases hvm with g | g <;> subst g <;> simp [isRd, rdT, voteReq]
  rw [this, List.append_nil]

theorem voted_rf (r : Raft) (frm : Nat) (v : Bool) : RF r (voted r frm v) := by
  unfold voted ProgressTracker.recordVote
  split <;> simp [RF, rcore]

theorem pollWith_rs (onPreWin : Raft → Res Raft) (r : Raft) (frm : Nat) (t : MsgType) (v : Bool)
    (hp : ∀ r1, Res.Post (fun x => RS r1 x) (onPreWin r1)) :
    Res.Post (fun x => RS r x.1) (pollWith onPreWin r frm t v) := by
  apply Res.post_intro
  rintro ⟨r', res⟩ hpoll
  obtain ⟨_, p2⟩ := c02_pollWith_cases hpoll
  have h0 : RS r (voted r frm v) := (voted_rf r frm v).toRS
  rcases p2 with ⟨_, _, hf⟩ | ⟨_, _, hwon⟩ | ⟨_, e⟩ | ⟨_, e⟩
  · exact h0.trans (Res.Post.of_eq (hp _) hf)
  · unfold wonBy at hwon
    rw [Res.bind_eq_ok_iff] at hwon
    obtain ⟨r1, hb, hbc⟩ := hwon
    have h1 := Res.Post.of_eq (becomeLeader_rs _) hb
    have h2 := Res.Post.of_eq (bcastAppend_rf r1) hbc
    exact (h0.trans h1).trans h2.toRS
  · subst e
    have : (voted r frm v).term = r.term := rfl
    exact h0.trans (becomeFollower_rs _ _ _ (Nat.le_of_eq this))
  · subst e
    exact h0

theorem campaignWith_rs (poll : Raft → Nat → MsgType → Bool → Res (Raft × VoteResult))
    (hpoll : ∀ r1 t, Res.Post (fun x => RS r1 x.1) (poll r1 r1.id t true))
    (r : Raft) (ct : CampaignType) :
    Res.Post (fun x => RS r x) (campaignWith poll r ct) := by
  unfold campaignWith
  dsimp only
  apply Res.post_bind (P := fun x => RS r x.1 ∧ x.2.2 ≠ 0 ∧
      (x.2.1 = .msgRequestVote ∨ x.2.1 = .msgRequestPreVote))
  · split
    · apply Res.post_bind (becomePreCandidate_rs r)
      intro r1 g1
      split
      · trivial
      · exact ⟨g1, by simp, Or.inr rfl⟩
    · apply Res.post_bind (P := fun x => RS r x ∧ x.term = r.term + 1)
      · apply Res.post_intro
        intro r1 hb
        exact ⟨Res.Post.of_eq (becomeCandidate_rs r) hb, (c02_becomeCandidate_spec hb).2.1⟩
      · rintro r1 ⟨g1, g2⟩
        refine ⟨g1, ?_, Or.inl rfl⟩
        show r1.term ≠ 0
        omega
  · rintro ⟨r1, vm, term⟩ ⟨g1, g4, g5⟩
    dsimp only at g1 g4 g5 ⊢
    apply Res.post_bind (hpoll r1 vm)
    rintro ⟨r2, res⟩ k1
    dsimp only at k1 ⊢
    split
    · exact g1.trans k1
    · exact Res.post_mono (sendVoteRequests_rs r2 ct vm term g5 g4)
        (fun x hx => (g1.trans k1).trans hx)

theorem campaignAfterPreVote_rs (r : Raft) :
    Res.Post (fun x => RS r x) r.campaignAfterPreVote := by
  unfold campaignAfterPreVote
  refine campaignWith_rs _ (fun r1 t => ?_) r _
  exact pollWith_rs _ r1 r1.id t true (fun _ => trivial)

theorem poll_rs (r : Raft) (frm : Nat) (t : MsgType) (v : Bool) :
    Res.Post (fun x => RS r x.1) (r.poll frm t v) := by
  unfold poll
  exact pollWith_rs _ r frm t v (fun r1 => campaignAfterPreVote_rs r1)

theorem campaign_rs (r : Raft) (ct : CampaignType) :
    Res.Post (fun x => RS r x) (r.campaign ct) := by
  unfold campaign
  exact campaignWith_rs _ (fun r1 t => poll_rs r1 r1.id t true) r ct

theorem hup_rs (r : Raft) (b : Bool) : Res.Post (fun x => RS r x) (r.hup b) := by
  unfold hup
  split
  · exact RS.refl _
  · split
    · exact RS.refl _
    · split
      · trivial
      · trivial
      · exact RS.refl _
      · split
        · exact RS.refl _
        · split
          · exact campaign_rs _ _
          · split <;> exact campaign_rs _ _

theorem maybeCommitByVote_rs (r : Raft) (m' : Message) :
    Res.Post (fun x => RS r x) (r.maybeCommitByVote m') := by
  unfold maybeCommitByVote
  split
  · exact RS.refl _
  · dsimp only
    split
    · exact RS.refl _
    · split
      · trivial
      · trivial
      · exact RS.refl _
      · rename_i log hmc
        have hf : RF r { r with raftLog := log } := by simp [RF, rcore]
        split
        · exact hf.toRS
        · split
          · trivial
          · trivial
          · exact hf.toRS.trans (becomeFollower_rs _ _ 0 (Nat.le_refl _))
          · exact hf.toRS

end R4
end RD
end Raft
end RaftModel
