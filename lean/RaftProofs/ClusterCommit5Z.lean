import RaftProofs.ClusterCommit5O

/-!
Cluster-level commit safety **with `batch_append`**, part 5Z: **the clean-queue invariant of the commit
layer** (`leader_queueB`): in every state of a history under `Hyp2wB`, every `MsgAppend` in the queue of
a leader — queued in this leadership, possibly batched onto afterwards — carries the leader's term and
id, is anchored inside the leader's log (`term index = log_term`), and is a slice of the leader's log.
This is what the provenance of `MsgAppend`s needs for a message that `try_batching` has glued entries
onto (the relation `Gb` only says it is a `BatOf` an old queued message).
-/
namespace RaftModel
namespace ClusterB
open Node Raft Raft.CC Raft.CB Raft.Bt Cluster RaftProps.C02 RaftProps.C05

theorem LLog.term_low (g : LLog) (i : Nat) (h : i ≤ g.snapIdx) :
    g.term i = if i < g.snapIdx then .ok 0 else
      match g.snapTerm with
      | some t => .ok t
      | none => .err .compacted := by
  unfold LLog.term LLog.lastIndex
  by_cases h1 : i < g.snapIdx
  · rw [if_pos (.inl h1), if_pos h1]
  · rw [if_neg (by omega), if_pos (by omega), if_neg h1]
    cases g.snapTerm <;> rfl

theorem LLog.term_append_old (g : LLog) (es : List Entry) (i : Nat) (hi : i ≤ g.lastIndex) :
    ({ g with ents := g.ents ++ es } : LLog).term i = g.term i := by
  have he := RaftProps.C05.c05_append_entryAt g es i hi
  by_cases h1 : g.snapIdx < i
  · obtain ⟨a, ha⟩ := g.entryAt_exists h1 hi
    rw [g.term_of_entry ha, LLog.term_of_entry _ (he.trans ha)]
  · exact (LLog.term_low _ i (by show i ≤ g.snapIdx; omega)).trans
      (LLog.term_low g i (by omega)).symm

/-- a gap-free chain that ends within the log `L`, is tail-compatible with it, agrees with it, and is
anchored inside it is a sub-log of `L` -/
theorem sub_of_clean {x : Message} {L : LLog} (htc : TailC (msgLog x) L)
    (hag : Agree (msgLog x) L) (hs0 : L.snapIdx ≤ x.index)
    (hanch : L.term x.index = .ok x.logTerm) : Sub (msgLog x) L := by
  have key : ∀ i e, (msgLog x).entryAt i = some e → L.entryAt i = some e := by
    intro i e he
    have hlt := (msgLog x).entryAt_lt he
    have hsx : (msgLog x).snapIdx = x.index := rfl
    have htc1 := htc.1
    obtain ⟨eL, heL⟩ := (msgLog x).entryAt_exists (i := (msgLog x).lastIndex) (by omega)
      (Nat.le_refl _)
    obtain ⟨e', he'⟩ := L.entryAt_exists (i := (msgLog x).lastIndex) (by omega) htc.1
    have ht : eL.term = e'.term := by
      have h1 := (msgLog x).prevTerm_of_entry (i := (msgLog x).lastIndex + 1)
        (by simpa using heL) (by omega)
      have h2 := L.prevTerm_of_entry (i := (msgLog x).lastIndex + 1) (by simpa using he') (by omega)
      exact (htc.2 _ _ h2 h1).symm
    obtain ⟨b, hb⟩ := L.entryAt_exists (i := i) (by omega) (by omega)
    have := agree_matching hag ((msgLog x).lastIndex - i) (msgLog x).lastIndex eL e' heL he' ht i e b
      (by omega) he hb
    rw [this]; exact hb
  intro i e he
  refine ⟨key i e he, fun p hp => ?_⟩
  have hlt := (msgLog x).entryAt_lt he
  have hsx : (msgLog x).snapIdx = x.index := rfl
  by_cases hi : i = x.index + 1
  · have hp' : (msgLog x).prevTerm i = some x.logTerm := by
      unfold LLog.prevTerm msgLog; rw [if_pos hi]
    rw [hp'] at hp
    cases hp
    exact L.prevTerm_of_term (key i e he) (by rw [hi]; simpa using hanch)
  · obtain ⟨a, ha⟩ := (msgLog x).entryAt_exists (i := i - 1) (by omega) (by omega)
    have h1 := (msgLog x).prevTerm_of_entry ha (by omega)
    rw [h1] at hp
    cases hp
    exact L.prevTerm_of_entry (key (i - 1) a ha) (by omega)

variable {cfg : JointConfig} {c0 : Nat} {h : List Sys}

/-- the header part of the clean-queue invariant -/
def LQ (s : Sys) : Prop :=
  ∀ i st, s.node i = some st → st.raft.state = .leader →
    ∀ x ∈ st.raft.msgs, x.msgType = .msgAppend →
      x.term = st.raft.term ∧ x.frm = i ∧ st.raft.raftLog.term x.index = .ok x.logTerm

/-- what a `call` / `deliver` step at node `k` does to `LQ` -/
theorem lq_call (H : Hyp2wB cfg c0 h) {n : Nat} {a : Sys} (ha : h[n]? = some a) {k : Nat}
    {st st' : NState} {rnd : Option Nat} {op : NodeOp} {res : OpRes}
    (hb : h[n + 1]? = some (a.setNode k st')) (h1 : a.node k = some st)
    (hop : appOp op = true ∨ ∃ m, op = .step m ∧ m ∈ a.net ∧ m.to = k)
    (hnc : ∀ j, op ≠ .compact j) (hcall : Node.call st rnd op = .ok (res, st'))
    (ih : LQ a) : LQ (a.setNode k st') := by
  intro j stj hj hl x hx hty
  by_cases hjk : j ≠ k
  · rw [node_setNode_ne a k j st' hjk] at hj
    exact ih j stj hj hl x hx hty
  have hjk : j = k := Classical.not_not.1 hjk
  subst hjk
  rw [node_setNode_self] at hj; cases hj
  have hself := node_setNode_self a j st'
  obtain ⟨g, _, hq, hid⟩ := call_factsB H ha hb h1 hself rfl hop hnc hcall
  obtain ⟨hterm, hcase⟩ := (H.toHypB.prov0 ha hb h1 hself rfl hop hcall).1 hl
  obtain ⟨s0, _, hall⟩ := H.inv_at
  have I := hall a (mem_of_get ha)
  have I' := hall _ (mem_of_get hb)
  have hinv := I.inv j st h1
  have hinv' := I'.inv j st' hself
  -- the logical log below the old last index is untouched
  have hkeep : ∀ i t, i ≤ st.raft.raftLog.abs.lastIndex → st.raft.raftLog.term i = .ok t →
      st'.raft.raftLog.term i = .ok t := by
    intro i t hi ht
    rw [hinv.term_abs] at ht
    rw [hinv'.term_abs]
    rcases hq.l with c | ⟨es, c⟩ | c
    · rw [c]; exact ht
    · rw [c.abs, LLog.term_append_old _ _ _ hi]; exact ht
    · rcases hop with h2 | ⟨m, rfl, h2, h3⟩
      · cases op <;> first | (cases h2; done) | (cases c; done)
      · have hty' : m.msgType = .msgAppend := c
        have hok := I.msgOk h2 hty'
        have hag := I.agree .net (msgLog m) (.log j) _ ⟨m, h2, hty', rfl⟩ ⟨st, h1, rfl⟩
        cases append_call hinv hty' hok hag hcall with
        | noacc hl' _ _ => rw [hl']; exact ht
        | acc _ _ _ hs _ _ => rw [hs] at hl; cases hl
  -- an old queued append
  have old : ∀ y ∈ st.raft.msgs, y.msgType = .msgAppend →
      y.term = st'.raft.term ∧ y.frm = j ∧ st'.raft.raftLog.term y.index = .ok y.logTerm := by
    intro y hy hyt
    rcases hcase with ⟨_, hno⟩ | hlk
    · exact absurd hyt (hno y hy)
    · obtain ⟨e1, e2, e3⟩ := ih j st h1 hlk y hy hyt
      refine ⟨e1.trans hterm, e2, hkeep _ _ ?_ e3⟩
      -- the anchor lies within the log (no anchor in the void)
      apply Classical.byContradiction
      intro hout
      have hz : y.logTerm = 0 := by
        rw [hinv.term_abs] at e3
        unfold LLog.term at e3
        rw [if_pos (.inr (by omega))] at e3
        exact (Res.ok.inj e3).symm
      have := H.sane a (mem_of_get ha) j st h1 y hy hyt hz
      omega
  rcases g.qlk x hx (by rw [hty]; rfl) with c | c | ⟨_, _, y, hy, hbat⟩
  · exact old x c hty
  · exact ⟨c.term, c.frm.trans (g.id.trans hid), (c.app hty).2⟩
  · obtain ⟨e1, e2, e3⟩ := old y hy hbat.src
    exact ⟨hbat.term.trans e1, hbat.frm.trans e2, by rw [hbat.index, hbat.logTerm]; exact e3⟩

/-- the header part of the clean-queue invariant holds in every state -/
theorem lq_all (H : Hyp2wB cfg c0 h) : ∀ (n : Nat) (s : Sys), h[n]? = some s → LQ s := by
  refine hist_induct h (fun _ s => LQ s) ?_ ?_
  · intro s h0 i st hi _ x hx _
    rw [init_queue (hist_init H.hist s h0) i st hi] at hx; cases hx
  · intro n a b ha hb ih
    cases H.steps n a b ha hb with
    | call k st st' rnd op res h1 h2 h3 _ h4 =>
      exact lq_call H ha hb h1 (.inl h2) h3 h4 ih
    | deliver k st st' rnd m res h1 h2 h3 h4 =>
      exact lq_call H ha hb h1 (.inr ⟨m, rfl, h2, h3⟩) (fun j hc => by cases hc) h4 ih
    | send k st st' h1 _ _ h3 =>
      intro j stj hj hl x hx hty
      have hj' : (a.setNode k st').node j = some stj := hj
      by_cases hjk : j = k
      · subst hjk
        rw [node_setNode_self] at hj'; cases hj'
        have hq : st'.raft.msgs = [] := by
          unfold Node.call at h3
          simp only [applyOp] at h3
          cases h3; rfl
        rw [hq] at hx; cases hx
      · rw [node_setNode_ne a k j st' hjk] at hj'
        exact ih j stj hj' hl x hx hty
    | restart k st st' c rnd h1 _ h3 =>
      intro j stj hj hl x hx hty
      by_cases hjk : j = k
      · subst hjk
        rw [node_setNode_self] at hj; cases hj
        rw [(CV.boot_booted c _ rnd st' h3).msgs] at hx; cases hx
      · rw [node_setNode_ne a k j st' hjk] at hj
        exact ih j stj hj hl x hx hty

/-- **the clean-queue invariant of the commit layer**: every `MsgAppend` in the queue of a leader carries
the leader's term and id, is anchored inside the leader's log, and is a slice of the leader's log —
whether it was queued on its own or glued together by `try_batching` -/
theorem leader_queueB (H : Hyp2wB cfg c0 h) {n : Nat} {s : Sys} (hn : h[n]? = some s) {i : Nat}
    {st : NState} (hi : s.node i = some st) (hl : st.raft.state = .leader) {x : Message}
    (hx : x ∈ st.raft.msgs) (hty : x.msgType = .msgAppend) :
    x.term = st.raft.term ∧ x.frm = i ∧ st.raft.raftLog.term x.index = .ok x.logTerm ∧
    SubW x st.raft.raftLog.abs := by
  obtain ⟨e1, e2, e3⟩ := lq_all H n s hn i st hi hl x hx hty
  refine ⟨e1, e2, e3, ?_⟩
  obtain ⟨s0, _, hall⟩ := H.toHypB.invLB
  have hm := mem_of_get hn
  have I := (hall s hm).1
  have B := (hall s hm).2
  have hc := I.wfq i st x hi hx hty
  refine ⟨hc, ?_⟩
  have o := node_okB H hn hi
  have hag := I.agree (.queue i) (msgLog x) (.log i) _ ⟨st, x, hi, hx, hty, rfl⟩ ⟨st, hi, rfl⟩
  rcases B.lc i st hi hl x hx hty with hw | ⟨_, htc⟩
  · exact absurd hw ((H.sane s hm).notWeird hi hx hty)
  · refine sub_of_clean htc hag ?_ (by rw [← o.inv.term_abs]; exact e3)
    rw [o.snapIdx, H.c0z]; exact Nat.zero_le _

end ClusterB
end RaftModel
