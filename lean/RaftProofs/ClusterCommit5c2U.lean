import RaftProofs.ClusterCommit5c2T

/-!
Cluster-level commit safety **with `batch_append`** (copy of `ClusterCommit2U.lean` over the bundles without `NoBatch`), part 2U: one step of the history seen from the stepping node (`Stp`), and
the components of the main induction for the nodes that do not step.
-/
namespace RaftModel
namespace ClusterB
open Node Raft Raft.CC RaftProps.C02 RaftProps.C05 Raft.CB Raft.Bt Cluster

variable {cfg : JointConfig} {c0 : Nat} {h : List Sys}

/-- one step `a → b`, node `k` going from `st` to `st'` (`call` and `deliver` merged) -/
inductive Stp (a b : Sys) (k : Nat) (st st' : NState) : Prop
  | call (rnd : Option Nat) (op : NodeOp) (res : OpRes)
      (hop : appOp op = true ∨ ∃ m, op = .step m ∧ m ∈ a.net ∧ m.to = k)
      (hnc : ∀ j, op ≠ .compact j)
      (hca : ∀ j, op = .commitApply j → j ≤ st.raft.raftLog.persisted ∧ hsPersisted st)
      (hcall : Node.call st rnd op = .ok (res, st')) (hnet : b.net = a.net)
  | send (hp : hsPersisted st)
      (hu : st.raft.state ≠ .leader →
        st.raft.raftLog.unstable.entries = [] ∧ st.raft.raftLog.unstable.snapshot = none)
      (hq : st'.raft.msgs = [])
      (hsame : st'.raft.raftLog = st.raft.raftLog ∧ st'.raft.term = st.raft.term ∧
        st'.raft.state = st.raft.state)
      (hnet : b.net = a.net ++ st.raft.msgs)
  | restart (c : Config) (rnd : Option Nat)
      (hboot : Node.boot c st.raft.raftLog.store rnd = .ok (.ok st')) (hnet : b.net = a.net)

/-- every step of the history is such a step -/
theorem stp_of (H : Hyp2wB cfg c0 h) {n : Nat} {a b : Sys} (ha : h[n]? = some a)
    (hb : h[n + 1]? = some b) :
    ∃ k st st', a.node k = some st ∧ b.node k = some st' ∧ (∀ v, v ≠ k → b.node v = a.node v) ∧
      Stp a b k st st' := by
  cases H.steps n a b ha hb with
  | call k st st' rnd op res h1 h2 h3 h5 h4 =>
    exact ⟨k, st, st', h1, node_setNode_self a k st', fun v hv => node_setNode_ne a k v st' hv,
      .call rnd op res (.inl h2) h3 h5 h4 rfl⟩
  | deliver k st st' rnd m res h1 h2 h3 h4 =>
    exact ⟨k, st, st', h1, node_setNode_self a k st', fun v hv => node_setNode_ne a k v st' hv,
      .call rnd (.step m) res (.inr ⟨m, rfl, h2, h3⟩) (fun j hc => by cases hc)
        (fun j hc => by cases hc) h4 rfl⟩
  | send k st st' h1 h2 h2' h3 =>
    have hf : st'.raft.msgs = [] ∧ st'.raft.raftLog = st.raft.raftLog ∧
        st'.raft.term = st.raft.term ∧ st'.raft.state = st.raft.state := by
      unfold Node.call at h3
      simp only [applyOp] at h3
      cases h3; exact ⟨rfl, rfl, rfl, rfl⟩
    exact ⟨k, st, st', h1, node_setNode_self a k st', fun v hv => node_setNode_ne a k v st' hv,
      .send h2 h2' hf.1 hf.2 rfl⟩
  | restart k st st' c rnd h1 h2 h3 =>
    exact ⟨k, st, st', h1, node_setNode_self a k st', fun v hv => node_setNode_ne a k v st' hv,
      .restart c rnd h3 rfl⟩

/-- the transport after the step: what was there, plus (for a `send`) the queue of the stepping node -/
theorem Stp.net_sub {a b : Sys} {k : Nat} {st st' : NState} (hs : Stp a b k st st') :
    ∀ x ∈ b.net, x ∈ a.net ∨ x ∈ st.raft.msgs := by
  intro x hx
  cases hs with
  | call _ _ _ _ _ _ _ hnet => rw [hnet] at hx; exact .inl hx
  | send _ _ _ _ hnet => rw [hnet] at hx; exact List.mem_append.1 hx
  | restart _ _ _ hnet => rw [hnet] at hx; exact .inl hx

theorem Stp.net_mono {a b : Sys} {k : Nat} {st st' : NState} (hs : Stp a b k st st') :
    ∀ x ∈ a.net, x ∈ b.net := by
  intro x hx
  cases hs with
  | call _ _ _ _ _ _ _ hnet => rw [hnet]; exact hx
  | send _ _ _ _ hnet => rw [hnet]; exact List.mem_append_left _ hx
  | restart _ _ _ hnet => rw [hnet]; exact hx

/-- a commit event happens at the stepping node -/
theorem ev_at_step {E : Ev} (hE : E.ok h) {a b : Sys} (ha : h[E.nE]? = some a)
    (hb : h[E.nE + 1]? = some b) {k : Nat} (hoth : ∀ v, v ≠ k → b.node v = a.node v) : E.l = k := by
  obtain ⟨a', b', sta, stb, ha', hb', hla, hlb, _, _, hc, _⟩ := hE
  rw [ha] at ha'; cases ha'
  rw [hb] at hb'; cases hb'
  apply Classical.byContradiction
  intro hne
  rw [hoth E.l hne, hla] at hlb
  cases hlb
  omega

/-- **the components for a node that does not step** -/
theorem sm_other (H : Hyp2wB cfg c0 h) {n : Nat} {a b : Sys} (ha : h[n]? = some a)
    (hb : h[n + 1]? = some b) (Sa : Sm h c0 n a) {k : Nat} {stk stk' : NState}
    (hk : a.node k = some stk) (hs : Stp a b k stk stk') {v : Nat} (hvk : v ≠ k) {st : NState}
    (hva : a.node v = some st) :
    -- acknowledgements of `v` that are around were around before
    (∀ x, (x ∈ b.net ∨ x ∈ st.raft.msgs) → isAck x → x.index ≠ 0 → x.frm = v →
      (x ∈ a.net ∨ x ∈ st.raft.msgs)) ∧
    (∀ x, x ∈ b.net → isAck x → x.index ≠ 0 → x.frm = v → x ∈ a.net) ∧
    (∀ g, (g ∈ b.net ∨ g ∈ st.raft.msgs) → isGrant g → g.frm = v →
      (g ∈ a.net ∨ g ∈ st.raft.msgs)) := by
  have I1 := (hist_all H.hist).1 a (mem_of_get ha)
  obtain ⟨hq, _⟩ := ack_inv H n a ha
  have hnetack : ∀ x, x ∈ b.net → isAck x → x.index ≠ 0 → x.frm = v → x ∈ a.net := by
    intro x hx hack hidx hfrm
    rcases hs.net_sub x hx with c | c
    · exact c
    · exact absurd ((hq k stk hk x c hack hidx).1.symm.trans hfrm).symm hvk
  refine ⟨fun x hx hack hidx hfrm => ?_, hnetack, fun g hg hig hfrm => ?_⟩
  · rcases hx with c | c
    · exact .inl (hnetack x c hack hidx hfrm)
    · exact .inr c
  · rcases hg with c | c
    · rcases hs.net_sub g c with d | d
      · exact .inl d
      · have hrv : CV.isRVm g = true := by simp [CV.isRVm, hig.1, hig.2]
        exact absurd ((I1.queue k stk hk g d hrv).1.symm.trans hfrm).symm hvk
    · exact .inr c

end ClusterB
end RaftModel
