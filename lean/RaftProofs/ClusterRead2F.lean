import RaftProofs.ClusterRead2E

/-!
Cluster-level ReadIndex safety with compaction and snapshots, part 2F: `rd_produce`,
`quorum_no_higher`, `good_of` (every commit index is covered by a commit event of a leader:
`Snap5.Sm.nctm`, stated over the ghost logs), `read_state_ok` for the bundle `RdHypS` [copy of
`ClusterReadM.lean`; `Backer` is the one of `RaftModel.Cluster`].
-/
namespace RaftModel
namespace Cluster
namespace Snap5
namespace Rd
open Node Raft Raft.CC Raft.RD RaftProps.C02 RaftProps.C05 Snap

variable {cfg : JointConfig} {c0 : Nat} {h : List Sys}

/-- **the step that produces a read state for `ctx`** -/
theorem rd_produce (H : RdHypS cfg c0 h) {n0 i0 : Nat} {ctx : Bytes} (hreg : RegAt h n0 i0 ctx)
    {n : Nat} {a b : Sys} (ha : h[n]? = some a) (hb : h[n + 1]? = some b) {v : Nat}
    {st st' : NState} (hva : a.node v = some st) (hvb : b.node v = some st') {x : ReadState}
    (hx : x ∈ st'.raft.readStates) (hnew : x ∉ st.raft.readStates) (hctx : x.requestCtx = ctx) :
    v = i0 ∧ n0 < n ∧ IdxOK h c0 n0 st.raft.term x.index ∧
    ∃ Q, IsJointQuorum cfg Q ∧ ∀ u ∈ Q, Backer h n0 a.net v st.raft.term u := by
  have H2 := H.toHyp2w
  have PA := pend_ok H n a ha
  have TA := tgt_inv H hreg n a ha
  have other : ∀ k stk, v ≠ k → (a.setNode k stk).node v = some st' → False := by
    intro k stk hne hv
    rw [node_setNode_ne a k v stk hne, hva] at hv
    cases hv
    exact hnew hx
  cases rd_step H ha hb with
  | call k stk stk' m hk hbe hm ho =>
    subst hbe
    by_cases hvk : v = k
    · subst hvk
      rw [node_setNode_self] at hvb; cases hvb
      rw [hva] at hk; cases hk
      rcases ho.rst x hx with c | c | ⟨K, rs0, Kack, acks, p, i, c1, c2, c3, _, c5, c6, c7, c8, c9⟩
      · exact absurd c hnew
      · exfalso
        rcases hm with q | ⟨q, _⟩
        · rw [c] at q; cases q
        · exact H.norir a (mem_of_get ha) m q c
      · have hK : K = ctx := by
          have := (PA.req v st hva K rs0 c1).1
          rw [c2] at this
          injection this with this
          rw [← this, hctx]
        subst hK
        obtain ⟨t1, t2⟩ := TA.pend v st hva rs0 c1
        have hLk : Late h n0 Kack := TA.behind v st hva p i Kack c5 c7 c6
        have hafter : n0 < n :=
          occ_after H hreg ha (.inl ⟨v, st, hva, .inl ⟨rs0, c1⟩⟩)
        refine ⟨t1, hafter, by rw [c3]; exact t2, acks, (RaftProps.C11.hasQuorum_iff cfg acks).1 c8,
          fun u hu => ?_⟩
        rcases c9 u hu with d | d | ⟨rsA, d1, d2⟩
        · exact .inl (d.trans (node_ok H2 ha hva).id)
        · right
          rcases hm with q | ⟨q, _⟩
          · rw [d.1] at q; cases q
          · exact ⟨m, q, d.1, d.2.1, by rw [d.2.2.1]; exact hLk, d.2.2.2⟩
        · rcases PA.acks v st hva Kack rsA d1 u d2 with e | ⟨y, y1, y2, y3, y4, y5⟩
          · exact .inl e
          · exact .inr ⟨y, y1, y2, y3, by rw [y4]; exact hLk, y5⟩
    · exact (other k stk' hvk hvb).elim
  | read k stk stk' K' rnd res hk hbe hcall ho =>
    subst hbe
    by_cases hvk : v = k
    · subst hvk
      rw [node_setNode_self] at hvb; cases hvb
      rw [hva] at hk; cases hk
      exfalso
      cases ho with
      | frame hf => rw [hf.rs] at hx; exact hnew hx
      | now hs =>
        rcases hs with c | c
        · rw [not_singleton H2 (mem_of_get ha) hva] at c; cases c
        · exact c (H.safe a (mem_of_get ha) v st hva)
      | reg hl hc ro hadd hcore hmsgs =>
        have e3 : st'.raft.readStates = st.raft.readStates := congrArg RCore.rs hcore
        rw [e3] at hx; exact hnew hx
    · exact (other k stk' hvk hvb).elim
  | send k stk stk' hk hbe hst =>
    subst hbe
    have hvb' : (a.setNode k stk').node v = some st' := hvb
    by_cases hvk : v = k
    · subst hvk
      rw [node_setNode_self] at hvb'; cases hvb'
      rw [hst] at hx; cases hx
    · exact (other k stk' hvk hvb').elim
  | restart k stk stk' hk hbe hf hq =>
    subst hbe
    by_cases hvk : v = k
    · subst hvk
      rw [node_setNode_self] at hvb; cases hvb
      rw [hf.2.2] at hx; cases hx
    · exact (other k stk' hvk hvb).elim

/-- **whoever has such a quorum behind it is not superseded**: a term led at or before `h[n0]` is not
above the term of a node that, later, has a joint quorum of backers -/
theorem quorum_no_higher (H : RdHypS cfg c0 h) {n0 n : Nat} {s0 a : Sys} (hn0 : h[n0]? = some s0)
    (ha : h[n]? = some a) (hle : n0 ≤ n) {v : Nat} {st : NState} (hva : a.node v = some st)
    {Q : List Nat} (hQ : IsJointQuorum cfg Q)
    (hQb : ∀ u ∈ Q, Backer h n0 a.net v st.raft.term u)
    {n1 : Nat} {s1 : Sys} (hn1 : h[n1]? = some s1) (hle1 : n1 ≤ n0) {l' t' : Nat}
    (hl' : leads s1 l' t') : t' ≤ st.raft.term := by
  have H2 := H.toHyp2w
  obtain ⟨_, Q', hQ', hQg⟩ :=
    C02_cluster_leader_has_quorum cfg h H2.hist H2.fix s1 (mem_of_get hn1) l' t' hl'
  obtain ⟨u, _, hu, hu'⟩ := joint_quorums_intersect cfg Q Q' (.inl H2.ne) hQ hQ'
  -- the common voter's term floor at `h[n0]`
  have hfloor : TermFloor s0 u t' := by
    rcases hQg u hu' with e | ⟨g, hg, g1, g2, g3, _, g5⟩
    · rw [e]
      exact (leader_floor H2 (mem_of_get hn1) hl').later H2.hist hn1 hn0 hle1
    · obtain ⟨stu, q1, q2, q3⟩ := C06_cluster_grant_durable h H2.hist n1 n0 s1 s0 hn1 hn0 hle1 g hg g1 g2
      rw [g3] at q1
      rw [g5] at q2 q3
      refine ⟨stu, q1, ?_, ?_⟩
      · rcases q3 with c | ⟨c, _⟩ <;> omega
      · rcases q2 with c | ⟨c, _⟩ <;> omega
  rcases hQb u hu with e | ⟨y, hy, y1, y2, y3, y4⟩
  · rw [e] at hfloor
    obtain ⟨st2, q1, q2, _⟩ := hfloor.later H2.hist hn0 ha hle
    rw [hva] at q1; cases q1
    exact q2
  · have := (hbr_floor H hn0 n a ha).net y hy y1 y3 t' (by rw [y2]; exact hfloor)
    rcases y4 with c | c <;> omega

/-- a read index that covers the earlier commits of terms up to `t`, when no term above `t` was led
before, covers every commit index of `h[n0]` -/
theorem good_of (H : RdHypS cfg c0 h) {n0 : Nat} {s0 : Sys} (hn0 : h[n0]? = some s0) {t r : Nat}
    (hidx : IdxOK h c0 n0 t r)
    (hno : ∀ n1 s1 l' t', h[n1]? = some s1 → n1 ≤ n0 → leads s1 l' t' → t' ≤ t) :
    ∀ u stu, s0.node u = some stu → stu.raft.raftLog.committed ≤ r := by
  have H3 := H.toHyp3a
  have H2 := H3.toHyp2w
  intro u stu hu
  rcases (sm_all H3 hn0).nctm u stu hu with c | ⟨E, hE, e1, e2, _, _⟩
  · exact Nat.le_trans c hidx.1
  · obtain ⟨_, b', _, stb, _, eb, _, hlb, hs, ht, _⟩ := Ev.facts H2 hE
    have := hno (E.nE + 1) b' E.l E.t eb (by omega) ⟨stb, hlb, hs, ht⟩
    exact Nat.le_trans e2 (hidx.2 E hE e1 this)

/-- **every read state for `ctx`, in every state of the history, sits on the issuing node and its index
is at least every commit index of the moment the request was registered** -/
theorem read_state_ok (H : RdHypS cfg c0 h) {n0 i0 : Nat} {ctx : Bytes} (hreg : RegAt h n0 i0 ctx)
    {s0 : Sys} (hn0 : h[n0]? = some s0) :
    ∀ (k : Nat) (s : Sys), h[k]? = some s → ∀ v st, s.node v = some st →
      ∀ x ∈ st.raft.readStates, x.requestCtx = ctx →
        v = i0 ∧ ∀ u stu, s0.node u = some stu → stu.raft.raftLog.committed ≤ x.index := by
  have H2 := H.toHyp2w
  refine hist_induct h _ ?_ ?_
  · intro s h0 v st hv x hx _
    have hinit := hist_init H2.hist s h0
    obtain ⟨c, store, rnd, _, hb⟩ := hinit.2 v st hv
    rw [(boot_fresh c store rnd st hb).2.2] at hx; cases hx
  · intro n a b ha hb ih v st' hvb x hx hctx
    obtain ⟨st, hva⟩ := step_node_back (H2.steps n a b ha hb).step v st' hvb
    by_cases hold : x ∈ st.raft.readStates
    · exact ih v st hva x hold hctx
    · obtain ⟨p1, p2, p3, Q, hQ, hQb⟩ := rd_produce H hreg ha hb hva hvb hx hold hctx
      refine ⟨p1, good_of H hn0 p3 (fun n1 s1 l' t' hn1 hle1 hl' => ?_)⟩
      exact quorum_no_higher H hn0 ha (by omega) hva hQ hQb hn1 hle1 hl'


end Rd
end Snap5
end Cluster
end RaftModel
