import RaftProofs.RaftNode

/-!
Helper lemmas for C17 (leadership transfer): a Hoare-style postcondition on `Res`, the projection
of the outgoing queue on its `MsgTimeoutNow` messages, and frame lemmas for the sending /
replication helpers of the node model.
-/
namespace RaftModel

/-- postcondition of a three-outcome computation: holds of the value when the outcome is `ok` -/
def Res.Post {α : Type} (P : α → Prop) : Res α → Prop
  | .ok a => P a
  | .err _ => True
  | .panic _ => True

theorem Res.Post.of_eq {α : Type} {P : α → Prop} {x : Res α} {a : α} (hp : Res.Post P x)
    (h : x = .ok a) : P a := by
  subst h; exact hp

theorem Res.post_bind {α β : Type} {P : α → Prop} {Q : β → Prop} {x : Res α} {f : α → Res β}
    (hx : Res.Post P x) (hf : ∀ a, P a → Res.Post Q (f a)) : Res.Post Q (x.bind f) := by
  cases x with
  | ok a => exact hf a hx
  | err e => trivial
  | panic s => trivial

theorem Res.post_ok {α : Type} {P : α → Prop} {a : α} (h : P a) : Res.Post P (.ok a) := h

theorem Res.post_mono {α : Type} {P Q : α → Prop} {x : Res α} (hx : Res.Post P x)
    (h : ∀ a, P a → Q a) : Res.Post Q x := by
  cases x with
  | ok a => exact h a hx
  | err e => trivial
  | panic s => trivial

theorem Res.post_intro {α : Type} {P : α → Prop} {x : Res α} (h : ∀ a, x = .ok a → P a) :
    Res.Post P x := by
  cases x with
  | ok a => exact h a rfl
  | err e => trivial
  | panic s => trivial

namespace Raft

/-- the `MsgTimeoutNow` messages of an outgoing queue, in order -/
def tnOf (l : List Message) : List Message := l.filter (fun m => m.msgType == .msgTimeoutNow)

@[simp] theorem tnOf_append (a b : List Message) : tnOf (a ++ b) = tnOf a ++ tnOf b := by
  simp [tnOf]

theorem tnOf_single_ne (m : Message) (h : m.msgType ≠ .msgTimeoutNow) : tnOf [m] = [] := by
  simp [tnOf, h]

theorem tnOf_single_eq (m : Message) (h : m.msgType = .msgTimeoutNow) : tnOf [m] = [m] := by
  simp [tnOf, h]

theorem sendFill_msgType (r : Raft) (m : Message) : (r.sendFill m).msgType = m.msgType := by
  unfold sendFill
  simp only
  split <;> split <;> split <;> rfl

/-- the part of the node state that the sending / replication helpers never touch, with the
queue projected on its `MsgTimeoutNow` messages -/
structure Core where
  tn : List Message
  term : Nat
  vote : Nat
  id : Nat
  state : StateRole
  leadTransferee : Option Nat
  conf : Configuration
  electionElapsed : Nat
  heartbeatElapsed : Nat
  electionTimeout : Nat
  heartbeatTimeout : Nat
  checkQuorum : Bool
  promotable : Bool
  leaderId : Nat
  priority : Int

def core (r : Raft) : Core :=
  { tn := tnOf r.msgs, term := r.term, vote := r.vote, id := r.id, state := r.state,
    leadTransferee := r.leadTransferee, conf := r.prs.conf, electionElapsed := r.electionElapsed,
    heartbeatElapsed := r.heartbeatElapsed, electionTimeout := r.electionTimeout,
    heartbeatTimeout := r.heartbeatTimeout, checkQuorum := r.checkQuorum,
    promotable := r.promotable, leaderId := r.leaderId, priority := r.priority }

/-- `r'` differs from `r` only outside `core` -/
def FrameT (r r' : Raft) : Prop := core r' = core r

theorem FrameT.refl (r : Raft) : FrameT r r := rfl
theorem FrameT.trans {a b c : Raft} (h1 : FrameT a b) (h2 : FrameT b c) : FrameT a c := by
  unfold FrameT at *; rw [h2, h1]

theorem FrameT.tn {r r' : Raft} (h : FrameT r r') : tnOf r'.msgs = tnOf r.msgs := congrArg Core.tn h
theorem FrameT.term {r r' : Raft} (h : FrameT r r') : r'.term = r.term := congrArg Core.term h
theorem FrameT.vote {r r' : Raft} (h : FrameT r r') : r'.vote = r.vote := congrArg Core.vote h
theorem FrameT.id {r r' : Raft} (h : FrameT r r') : r'.id = r.id := congrArg Core.id h
theorem FrameT.state {r r' : Raft} (h : FrameT r r') : r'.state = r.state := congrArg Core.state h
theorem FrameT.leadTransferee {r r' : Raft} (h : FrameT r r') :
    r'.leadTransferee = r.leadTransferee := congrArg Core.leadTransferee h
theorem FrameT.conf {r r' : Raft} (h : FrameT r r') : r'.prs.conf = r.prs.conf := congrArg Core.conf h
theorem FrameT.electionElapsed {r r' : Raft} (h : FrameT r r') :
    r'.electionElapsed = r.electionElapsed := congrArg Core.electionElapsed h
theorem FrameT.heartbeatElapsed {r r' : Raft} (h : FrameT r r') :
    r'.heartbeatElapsed = r.heartbeatElapsed := congrArg Core.heartbeatElapsed h
theorem FrameT.electionTimeout {r r' : Raft} (h : FrameT r r') :
    r'.electionTimeout = r.electionTimeout := congrArg Core.electionTimeout h
theorem FrameT.heartbeatTimeout {r r' : Raft} (h : FrameT r r') :
    r'.heartbeatTimeout = r.heartbeatTimeout := congrArg Core.heartbeatTimeout h
theorem FrameT.checkQuorum {r r' : Raft} (h : FrameT r r') : r'.checkQuorum = r.checkQuorum :=
  congrArg Core.checkQuorum h
theorem FrameT.promotable {r r' : Raft} (h : FrameT r r') : r'.promotable = r.promotable :=
  congrArg Core.promotable h
theorem FrameT.leaderId {r r' : Raft} (h : FrameT r r') : r'.leaderId = r.leaderId :=
  congrArg Core.leaderId h
theorem FrameT.priority {r r' : Raft} (h : FrameT r r') : r'.priority = r.priority :=
  congrArg Core.priority h

theorem send_frameT (r : Raft) (m : Message) (hm : m.msgType ≠ .msgTimeoutNow) :
    Res.Post (fun r' => FrameT r r') (r.send m) := by
  apply Res.post_intro
  intro r' h
  rw [send_eq r r' m h]
  have : (r.sendFill m).msgType ≠ .msgTimeoutNow := by rw [sendFill_msgType]; exact hm
  simp [FrameT, core, tnOf_single_ne _ this]

theorem tryBatchingLoop_tn (committed to : Nat) (pr : Progress) (ents : List Entry) :
    ∀ msgs, Res.Post (fun x => tnOf x.1 = tnOf msgs) (tryBatchingLoop committed to pr ents msgs) := by
  intro msgs
  induction msgs with
  | nil => simp [tryBatchingLoop, Res.Post]
  | cons msg rest ih =>
    unfold tryBatchingLoop
    split
    · rename_i hc
      have hne : (msg.msgType == MsgType.msgTimeoutNow) = false := by simp [hc.1]
      split
      · split
        · simp [Res.Post]
        · simp only
          split
          · trivial
          · split
            · simp [Res.Post, tnOf, hne]
            · trivial
            · trivial
      · simp [Res.Post, tnOf, hne]
    · split
      · rename_i rest' pr' b heq
        have := Res.Post.of_eq ih heq
        simp only [Res.Post] at this ⊢
        simp only [tnOf, List.filter_cons] at this ⊢
        rw [this]
      · trivial
      · trivial

theorem tryBatching_frameT (r : Raft) (to : Nat) (pr : Progress) (ents : List Entry) :
    Res.Post (fun x => FrameT r x.1) (r.tryBatching to pr ents) := by
  unfold tryBatching
  split
  · rename_i msgs pr' b heq
    have := Res.Post.of_eq (tryBatchingLoop_tn _ _ _ _ _) heq
    simp only [Res.Post] at this ⊢
    simp [FrameT, core, this]
  · trivial
  · trivial

theorem prepareSendSnapshot_frameT (r : Raft) (m : Message) (pr : Progress) (to : Nat) :
    Res.Post (fun x => FrameT r x.1 ∧ (x.2.2.2 = true → x.2.1.msgType = .msgSnapshot))
      (r.prepareSendSnapshot m pr to) := by
  unfold prepareSendSnapshot
  split
  · simp [Res.Post, FrameT.refl]
  · simp only
    split
    · simp [Res.Post, FrameT, core]
    · trivial
    · trivial
    · split
      · trivial
      · simp [Res.Post, FrameT, core]

theorem prepareSendEntries_type (r : Raft) (m : Message) (pr : Progress) (term : Nat)
    (ents : List Entry) :
    Res.Post (fun x => x.1.msgType = .msgAppend) (r.prepareSendEntries m pr term ents) := by
  unfold prepareSendEntries
  split
  · trivial
  · simp only
    split
    · simp [Res.Post]
    · split <;> simp [Res.Post]

/-- the snapshot fallback of `maybe_send_append` -/
theorem snapSend_frameT (r0 r : Raft) (m : Message) (pr : Progress) (to : Nat) (h0 : FrameT r0 r) :
    Res.Post (fun x => FrameT r0 x.1)
      (match r.prepareSendSnapshot m pr to with
        | .ok (r, m, pr, true) => (r.send m).bind (fun r => .ok (r, pr, true))
        | .ok (r, _, pr, false) => .ok (r, pr, false)
        | .err e => .err e
        | .panic s => .panic s : Res (Raft × Progress × Bool)) := by
  split
  · rename_i r1 m1 pr1 heq
    have h1 := Res.Post.of_eq (prepareSendSnapshot_frameT _ _ _ _) heq
    dsimp only at h1
    have hm : m1.msgType ≠ .msgTimeoutNow := by rw [h1.2 rfl]; decide
    exact Res.post_bind (send_frameT r1 m1 hm) (fun a ha => by
      simp only [Res.Post]; exact (h0.trans h1.1).trans ha)
  · rename_i r1 m1 pr1 heq
    have h1 := Res.Post.of_eq (prepareSendSnapshot_frameT _ _ _ _) heq
    dsimp only at h1
    simp only [Res.Post]; exact h0.trans h1.1
  · trivial
  · trivial

theorem maybeSendAppend_frameT (r : Raft) (to : Nat) (pr : Progress) (ae : Bool) :
    Res.Post (fun x => FrameT r x.1) (r.maybeSendAppend to pr ae) := by
  unfold maybeSendAppend
  split
  · simp [Res.Post, FrameT.refl]
  · simp only
    split
    · exact snapSend_frameT r r _ _ _ (FrameT.refl r)
    · generalize r.raftLog.entries pr.nextIdx (some r.maxMsgSize) true = E
      generalize r.raftLog.term (pr.nextIdx - 1) = T
      cases E with
      | panic s => trivial
      | ok ents =>
        simp only
        split
        · simp [Res.Post, FrameT.refl]
        · split
          · trivial
          · cases T with
            | panic s => trivial
            | err e => exact snapSend_frameT r r _ _ _ (FrameT.refl r)
            | ok term =>
              simp only
              have hb : Res.Post (fun x => FrameT r x.1)
                  (if r.batchAppend then r.tryBatching to pr ents else .ok (r, pr, false)) := by
                split
                · exact tryBatching_frameT _ _ _ _
                · simp [Res.Post, FrameT.refl]
              split
              · rename_i r1 pr1 heq
                exact Res.Post.of_eq (P := fun x => FrameT r x.1) hb heq
              · rename_i r1 pr1 heq
                have h1 : FrameT r r1 := Res.Post.of_eq (P := fun x => FrameT r x.1) hb heq
                split
                · rename_i m2 pr2 heq2
                  have h2 := Res.Post.of_eq (prepareSendEntries_type _ _ _ _ _) heq2
                  dsimp only at h2
                  have hm : m2.msgType ≠ .msgTimeoutNow := by rw [h2]; decide
                  exact Res.post_bind (send_frameT r1 m2 hm) (fun a ha => by
                    simp only [Res.Post]; exact h1.trans ha)
                · trivial
                · trivial
              · trivial
              · trivial
      | err e =>
        simp only
        split
        · simp [Res.Post, FrameT.refl]
        · split
          · trivial
          · cases T with
            | panic s => trivial
            | err e' =>
              simp only
              split
              · contradiction
              · simp [Res.Post, FrameT.refl]
              · exact snapSend_frameT r r _ _ _ (FrameT.refl r)
            | ok term =>
              simp only
              split
              · contradiction
              · simp [Res.Post, FrameT.refl]
              · exact snapSend_frameT r r _ _ _ (FrameT.refl r)

theorem set_frameT (r : Raft) (id : Nat) (pr : Progress) :
    FrameT r { r with prs := r.prs.set id pr } := by
  simp [FrameT, core, ProgressTracker.set]

theorem sendAppendPr_frameT (r : Raft) (to : Nat) (pr : Progress) :
    Res.Post (fun x => FrameT r x.1) (r.sendAppendPr to pr) := by
  unfold sendAppendPr
  exact Res.post_bind (maybeSendAppend_frameT r to pr true) (fun a ha => by
    simp only [Res.Post]; exact ha)

theorem sendAppendAggressivelyPr_frameT (fuel : Nat) : ∀ (r : Raft) (to : Nat) (pr : Progress),
    Res.Post (fun x => FrameT r x.1) (sendAppendAggressivelyPr fuel r to pr) := by
  induction fuel with
  | zero => intro r to pr; unfold sendAppendAggressivelyPr; trivial
  | succ n ih =>
    intro r to pr
    unfold sendAppendAggressivelyPr
    split
    · rename_i r1 pr1 heq
      have h1 : FrameT r r1 :=
        Res.Post.of_eq (P := fun x => FrameT r x.1) (maybeSendAppend_frameT _ _ _ _) heq
      exact Res.post_mono (ih r1 to pr1) (fun a ha => h1.trans ha)
    · rename_i r1 pr1 heq
      exact Res.Post.of_eq (P := fun x => FrameT r x.1) (maybeSendAppend_frameT _ _ _ _) heq
    · trivial
    · trivial

theorem sendHeartbeat_frameT (r : Raft) (to : Nat) (pr : Progress) (ctx : Option Bytes) :
    Res.Post (fun x => FrameT r x) (r.sendHeartbeat to pr ctx) := by
  unfold sendHeartbeat
  exact send_frameT r _ (by simp)

theorem sendAppend_frameT (r : Raft) (to : Nat) :
    Res.Post (fun x => FrameT r x) (r.sendAppend to) := by
  unfold sendAppend
  split
  · trivial
  · exact Res.post_bind (sendAppendPr_frameT r to _) (fun a ha => by
      simp only [Res.Post]; exact FrameT.trans ha (set_frameT _ _ _))

theorem sendAppendAggressively_frameT (r : Raft) (to : Nat) :
    Res.Post (fun x => FrameT r x) (r.sendAppendAggressively to) := by
  unfold sendAppendAggressively
  split
  · trivial
  · exact Res.post_bind (sendAppendAggressivelyPr_frameT _ r to _) (fun a ha => by
      simp only [Res.Post]; exact FrameT.trans ha (set_frameT _ _ _))

theorem foldl_frameT {β : Type} (g : Raft → β → Res Raft)
    (hg : ∀ r b, Res.Post (fun x => FrameT r x) (g r b)) (r0 : Raft) :
    ∀ (l : List β) (acc : Res Raft), Res.Post (fun x => FrameT r0 x) acc →
      Res.Post (fun x => FrameT r0 x) (l.foldl (fun acc b => acc.bind (fun r => g r b)) acc) := by
  intro l
  induction l with
  | nil => intro acc h; exact h
  | cons b rest ih =>
    intro acc h
    simp only [List.foldl_cons]
    apply ih
    exact Res.post_bind h (fun a ha => Res.post_mono (hg a b) (fun x hx => ha.trans hx))

theorem forEachPeer_frameT (r : Raft) (f : Raft → Nat → Progress → Res (Raft × Progress))
    (hf : ∀ r id pr, Res.Post (fun x => FrameT r x.1) (f r id pr)) :
    Res.Post (fun x => FrameT r x) (r.forEachPeer f) := by
  unfold forEachPeer
  apply foldl_frameT (fun r id => if id = r.id then .ok r
      else match r.prs.get id with
        | none => .ok r
        | some pr => (f r id pr).bind (fun (r, pr) => .ok { r with prs := r.prs.set id pr }))
  · intro r1 id
    dsimp only
    split
    · exact FrameT.refl _
    · split
      · exact FrameT.refl _
      · exact Res.post_bind (hf r1 id _) (fun a ha => by
          simp only [Res.Post]; exact FrameT.trans ha (set_frameT _ _ _))
  · exact FrameT.refl _

theorem bcastAppend_frameT (r : Raft) : Res.Post (fun x => FrameT r x) r.bcastAppend := by
  unfold bcastAppend
  exact forEachPeer_frameT r _ (fun r id pr => sendAppendPr_frameT r id pr)

theorem bcastHeartbeatWithCtx_frameT (r : Raft) (ctx : Option Bytes) :
    Res.Post (fun x => FrameT r x) (r.bcastHeartbeatWithCtx ctx) := by
  unfold bcastHeartbeatWithCtx
  exact forEachPeer_frameT r _ (fun r id pr =>
    Res.post_bind (sendHeartbeat_frameT r id pr ctx) (fun a ha => by simp only [Res.Post]; exact ha))

theorem bcastHeartbeat_frameT (r : Raft) : Res.Post (fun x => FrameT r x) r.bcastHeartbeat := by
  unfold bcastHeartbeat
  exact bcastHeartbeatWithCtx_frameT r _

theorem modifyProgress_frameT (r : Raft) (id : Nat) (f : Progress → Progress) :
    FrameT r (r.modifyProgress id f) := by
  simp [FrameT, core, modifyProgress]

theorem maybeCommit_frameT (r : Raft) : Res.Post (fun x => FrameT r x.1) r.maybeCommit := by
  unfold maybeCommit
  split
  · trivial
  · trivial
  · split
    · trivial
    · trivial
    · simp only [Res.Post]
      exact FrameT.trans (by simp [FrameT, core]) (modifyProgress_frameT _ _ _)
    · exact FrameT.refl _

theorem appendEntry_frameT (r : Raft) (es : List Entry) :
    Res.Post (fun x => FrameT r x.1) (r.appendEntry es) := by
  unfold appendEntry
  split
  · exact FrameT.refl _
  · rename_i r1 heq
    have h1 : FrameT r r1 := by
      unfold maybeIncreaseUncommittedSize at heq
      simp only [Prod.mk.injEq] at heq
      rw [← heq.1]; simp [FrameT, core]
    simp only
    split
    · simp only [Res.Post]; exact h1.trans (by simp [FrameT, core])
    · trivial
    · trivial

theorem handleReadyReadIndex_frameT (r : Raft) (req : Message) (index : Nat) :
    Res.Post (fun x => FrameT r x.1 ∧ ∀ m, x.2 = some m → m.msgType = .msgReadIndexResp)
      (r.handleReadyReadIndex req index) := by
  unfold handleReadyReadIndex
  split
  · split
    · trivial
    · simp [Res.Post, FrameT, core]
  · simp [Res.Post, FrameT.refl]

theorem respondReadStates_frameT (r : Raft) (rss : List ReadIndexStatus) :
    Res.Post (fun x => FrameT r x) (r.respondReadStates rss) := by
  unfold respondReadStates
  apply foldl_frameT (fun (r : Raft) (rs : ReadIndexStatus) => (r.handleReadyReadIndex rs.req rs.index).bind (fun (r, om) =>
        match om with
        | some m => r.send m
        | none => .ok r))
  · intro r1 rs
    exact Res.post_bind (handleReadyReadIndex_frameT r1 _ _) (fun a ha => by
      obtain ⟨r2, om⟩ := a
      dsimp only at ha ⊢
      split
      · rename_i m
        have hm : m.msgType ≠ .msgTimeoutNow := by rw [ha.2 m rfl]; decide
        exact Res.post_mono (send_frameT r2 m hm) (fun x hx => ha.1.trans hx)
      · exact ha.1)
  · exact FrameT.refl _

/-! ### leader-side handlers -/

theorem checkQuorumActive_frameT (r : Raft) : FrameT r r.checkQuorumActive.1 := by
  simp [FrameT, core, checkQuorumActive, ProgressTracker.quorumRecentlyActive]

theorem filterProposalEntry_frameT (r : Raft) (i : Nat) (e : Entry) :
    ∀ x, r.filterProposalEntry i e = some x → FrameT r x.1 := by
  intro x h
  unfold filterProposalEntry at h
  dsimp only at h
  split at h
  · cases h
  · cases h; exact FrameT.refl _
  · split at h <;> (try split at h) <;> cases h <;> simp [FrameT, core]

theorem filterProposal_frameT : ∀ (es : List Entry) (r : Raft) (i : Nat),
    FrameT r (r.filterProposal i es).1 := by
  intro es
  induction es with
  | nil => intro r i; exact FrameT.refl _
  | cons e rest ih =>
    intro r i
    unfold filterProposal
    split
    · exact FrameT.refl _
    · rename_i r1 e' heq
      have h1 : FrameT r r1 := filterProposalEntry_frameT r i e _ heq
      have h2 := ih r1 (i + 1)
      split
      · rename_i r2 es' heq2
        rw [heq2] at h2; exact h1.trans h2
      · rename_i r2 heq2
        rw [heq2] at h2; exact h1.trans h2

theorem handleHeartbeatResponse_frameT (r : Raft) (m : Message) :
    Res.Post (fun x => FrameT r x) (r.handleHeartbeatResponse m) := by
  unfold handleHeartbeatResponse
  split
  · exact FrameT.refl _
  · dsimp only
    apply Res.post_bind (P := fun _ => True)
    · split
      · split <;> trivial
      · trivial
    · intro pr1 _
      apply Res.post_bind (P := fun x => FrameT r x)
      · split
        · exact Res.post_bind (sendAppendPr_frameT r m.frm pr1) (fun a ha => by
            simp only [Res.Post]; exact FrameT.trans ha (set_frameT _ _ _))
        · exact set_frameT _ _ _
      · intro r1 h1
        split
        · exact h1
        · split
          · exact h1.trans (by simp [FrameT, core])
          · split
            · apply Res.post_bind (P := fun _ => True)
              · exact Res.post_intro (fun _ _ => trivial)
              · intro a _
                exact Res.post_mono (respondReadStates_frameT _ _)
                  (fun x hx => (h1.trans (by simp [FrameT, core])).trans hx)
            · exact h1.trans (by simp [FrameT, core])

theorem handleSnapshotStatus_frameT (r : Raft) (m : Message) : FrameT r (r.handleSnapshotStatus m) := by
  unfold handleSnapshotStatus
  split
  · exact FrameT.refl _
  · split
    · exact FrameT.refl _
    · exact set_frameT _ _ _

theorem handleUnreachable_frameT (r : Raft) (m : Message) : FrameT r (r.handleUnreachable m) := by
  unfold handleUnreachable
  split
  · exact FrameT.refl _
  · split
    · exact set_frameT _ _ _
    · exact FrameT.refl _

/-! ### role changes: the outgoing queue is untouched -/

theorem reset_msgs (r : Raft) (t : Nat) : (r.reset t).msgs = r.msgs := by
  unfold reset
  simp only [mapProgress, abortLeaderTransfer, resetRandomizedElectionTimeout]
  split <;> rfl

theorem reset_leadTransferee (r : Raft) (t : Nat) : (r.reset t).leadTransferee = none := by
  unfold reset
  simp only [mapProgress, abortLeaderTransfer, resetRandomizedElectionTimeout]

theorem becomeFollower_leadTransferee (r : Raft) (t l : Nat) :
    (r.becomeFollower t l).leadTransferee = none := by
  unfold becomeFollower; exact reset_leadTransferee r t

theorem becomeFollower_msgs (r : Raft) (t l : Nat) : (r.becomeFollower t l).msgs = r.msgs := by
  unfold becomeFollower; exact reset_msgs r t

/-- `r'` has the same `MsgTimeoutNow` messages queued as `r` -/
def TN (r r' : Raft) : Prop := tnOf r'.msgs = tnOf r.msgs

theorem TN.refl (r : Raft) : TN r r := rfl
theorem TN.trans {a b c : Raft} (h1 : TN a b) (h2 : TN b c) : TN a c := by
  unfold TN at *; rw [h2, h1]
theorem FrameT.toTN {r r' : Raft} (h : FrameT r r') : TN r r' := h.tn
theorem TN.of_msgs {r r' : Raft} (h : r'.msgs = r.msgs) : TN r r' := by unfold TN; rw [h]

theorem becomeCandidate_tn (r : Raft) : Res.Post (fun x => TN r x) r.becomeCandidate := by
  unfold becomeCandidate
  split
  · trivial
  · split
    · trivial
    · exact TN.of_msgs (reset_msgs r _)

theorem becomePreCandidate_tn (r : Raft) : Res.Post (fun x => TN r x) r.becomePreCandidate := by
  unfold becomePreCandidate
  split
  · trivial
  · exact TN.refl _

theorem becomeLeader_tn (r : Raft) : Res.Post (fun x => TN r x) r.becomeLeader := by
  unfold becomeLeader
  split
  · trivial
  · dsimp only
    split
    · trivial
    · split
      · trivial
      · split
        · rename_i r1 heq
          have h1 := Res.Post.of_eq (P := fun x => FrameT _ x.1) (appendEntry_frameT _ _) heq
          exact TN.trans (TN.of_msgs (reset_msgs r _)) h1.toTN
        · trivial
        · trivial
        · trivial

theorem sendVoteRequests_frameT (r : Raft) (ct : CampaignType) (voteMsg : MsgType) (term : Nat)
    (hv : voteMsg ≠ .msgTimeoutNow) :
    Res.Post (fun x => FrameT r x) (r.sendVoteRequests ct voteMsg term) := by
  unfold sendVoteRequests
  split
  · trivial
  · trivial
  · rename_i commit commitTerm _
    split
    · trivial
    · trivial
    · rename_i lastTerm _
      apply foldl_frameT (fun (r : Raft) (id : Nat) =>
          if id = r.id then .ok r
          else r.send { msgType := voteMsg, to := id, term := term, index := r.raftLog.lastIndex,
                        logTerm := lastTerm, commit := commit, commitTerm := commitTerm,
                        context := if ct = .transfer then campaignTransfer else [] })
      · intro r1 id
        split
        · exact FrameT.refl _
        · exact send_frameT r1 _ hv
      · exact FrameT.refl _

theorem pollWith_tn (onPreWin : Raft → Res Raft) (hp : ∀ r, Res.Post (fun x => TN r x) (onPreWin r))
    (r : Raft) (frm : Nat) (t : MsgType) (vote : Bool) :
    Res.Post (fun x => TN r x.1) (pollWith onPreWin r frm t vote) := by
  unfold pollWith
  dsimp only
  split
  · split
    · exact Res.post_bind (hp _) (fun a ha => ha)
    · apply Res.post_bind (P := fun x => TN r x)
      · exact Res.post_bind (becomeLeader_tn _) (fun a ha =>
          Res.post_mono (bcastAppend_frameT a) (fun x hx => TN.trans ha hx.toTN))
      · intro a ha; exact ha
  · exact Res.post_ok (TN.of_msgs (becomeFollower_msgs _ _ _))
  · exact Res.post_ok (TN.refl _)

theorem campaignWith_tn (poll : Raft → Nat → MsgType → Bool → Res (Raft × VoteResult))
    (hp : ∀ r f t v, Res.Post (fun x => TN r x.1) (poll r f t v)) (r : Raft) (ct : CampaignType) :
    Res.Post (fun x => TN r x) (campaignWith poll r ct) := by
  unfold campaignWith
  dsimp only
  apply Res.post_bind (P := fun x => TN r x.1 ∧ x.2.1 ≠ .msgTimeoutNow)
  · split
    · apply Res.post_bind (becomePreCandidate_tn r)
      intro a ha
      split
      · trivial
      · exact ⟨ha, by simp⟩
    · exact Res.post_bind (becomeCandidate_tn r) (fun a ha => ⟨ha, by simp⟩)
  · intro a ha
    obtain ⟨r1, voteMsg, term⟩ := a
    dsimp only at ha ⊢
    apply Res.post_bind (hp r1 r1.id voteMsg true)
    intro b hb
    obtain ⟨r2, res⟩ := b
    dsimp only at hb ⊢
    split
    · exact ha.1.trans hb
    · exact Res.post_mono (sendVoteRequests_frameT r2 ct voteMsg term ha.2)
        (fun x hx => (ha.1.trans hb).trans hx.toTN)

theorem campaignAfterPreVote_tn (r : Raft) : Res.Post (fun x => TN r x) r.campaignAfterPreVote := by
  unfold campaignAfterPreVote
  exact campaignWith_tn _ (fun r f t v => pollWith_tn _ (by intro _; trivial) r f t v) r _

theorem poll_tn (r : Raft) (frm : Nat) (t : MsgType) (vote : Bool) :
    Res.Post (fun x => TN r x.1) (r.poll frm t vote) := by
  unfold poll
  exact pollWith_tn _ campaignAfterPreVote_tn r frm t vote

theorem campaign_tn (r : Raft) (ct : CampaignType) : Res.Post (fun x => TN r x) (r.campaign ct) := by
  unfold campaign
  exact campaignWith_tn _ poll_tn r ct

theorem hup_tn (r : Raft) (b : Bool) : Res.Post (fun x => TN r x) (r.hup b) := by
  unfold hup
  split
  · exact TN.refl _
  · split
    · exact TN.refl _
    · split
      · trivial
      · trivial
      · exact TN.refl _
      · split
        · exact TN.refl _
        · split
          · exact campaign_tn _ _
          · split <;> exact campaign_tn _ _

theorem maybeCommitByVote_tn (r : Raft) (m : Message) :
    Res.Post (fun x => TN r x) (r.maybeCommitByVote m) := by
  unfold maybeCommitByVote
  split
  · exact TN.refl _
  · dsimp only
    split
    · exact TN.refl _
    · split
      · trivial
      · trivial
      · exact TN.refl _
      · split
        · exact TN.refl _
        · split
          · trivial
          · trivial
          · exact TN.of_msgs (becomeFollower_msgs _ _ _)
          · exact TN.refl _

theorem sendRequestSnapshot_frameT (r : Raft) : Res.Post (fun x => FrameT r x) r.sendRequestSnapshot := by
  unfold sendRequestSnapshot
  dsimp only
  split
  · exact send_frameT r _ (by simp)
  · trivial
  · trivial

theorem handleAppendEntries_frameT (r : Raft) (m : Message) :
    Res.Post (fun x => FrameT r x) (r.handleAppendEntries m) := by
  unfold handleAppendEntries
  split
  · exact sendRequestSnapshot_frameT r
  · split
    · exact send_frameT r _ (by simp)
    · split
      · trivial
      · trivial
      · exact Res.post_mono (send_frameT _ _ (by simp))
          (fun x hx => FrameT.trans (by simp [FrameT, core]) hx)
      · dsimp only
        split
        · trivial
        · trivial
        · trivial
        · exact Res.post_mono (send_frameT _ _ (by simp))
            (fun x hx => FrameT.trans (by simp [FrameT, core]) hx)

theorem handleHeartbeat_frameT (r : Raft) (m : Message) :
    Res.Post (fun x => FrameT r x) (r.handleHeartbeat m) := by
  unfold handleHeartbeat
  split
  · trivial
  · trivial
  · dsimp only
    split
    · exact Res.post_mono (sendRequestSnapshot_frameT _)
        (fun x hx => FrameT.trans (by simp [FrameT, core]) hx)
    · exact Res.post_mono (send_frameT _ _ (by simp))
        (fun x hx => FrameT.trans (by simp [FrameT, core]) hx)

/-- `post_conf_change` (raft.rs:2743): (A) the leader was removed / demoted and steps down
(fix F14), or (B) the node is not leader or there is no incoming voter and only `promotable`
changed, or (C) the state is framed (apart from `promotable`) and at the end a transferee that is
no longer a voter has been dropped. -/
theorem postConfChange_spec (r : Raft) :
    Res.Post (fun x =>
        (r.state = .leader ∧ Joint.contains r.prs.voters r.id = false ∧
          x.1 = ({ r with promotable := false } : Raft).becomeFollower r.term 0) ∨
        ((r.state ≠ .leader ∨ r.prs.conf.incoming = []) ∧
          x.1 = { r with promotable := Joint.contains r.prs.voters r.id }) ∨
        (∃ r2, FrameT { r with promotable := Joint.contains r.prs.voters r.id } r2 ∧
          r.state = .leader ∧ Joint.contains r.prs.voters r.id = true ∧ r.prs.conf.incoming ≠ [] ∧
           x.1 = match r2.leadTransferee with
            | some e => if !Joint.contains r2.prs.voters e then r2.abortLeaderTransfer else r2
            | none => r2))
      r.postConfChange := by
  unfold postConfChange
  dsimp only
  split
  · rename_i h
    simp only [Bool.and_eq_true, Bool.not_eq_true', beq_iff_eq] at h
    refine Res.post_ok (Or.inl ⟨h.2, h.1, ?_⟩)
    rw [h.1]
  · rename_i h1
    split
    · rename_i h
      refine Res.post_ok (Or.inr (Or.inl ⟨?_, rfl⟩))
      rcases h with h | h
      · exact Or.inl h
      · right
        simpa [Configuration.toConfState] using h
    · rename_i h2
      have hl : r.state = .leader := by
        apply Classical.byContradiction; intro hc; exact h2 (Or.inl hc)
      have hv : Joint.contains r.prs.voters r.id = true := by
        cases hc : Joint.contains r.prs.voters r.id with
        | true => rfl
        | false => simp [hc, hl] at h1
      have hi : r.prs.conf.incoming ≠ [] := by
        intro hc; apply h2; right; simp [Configuration.toConfState, hc]
      apply Res.post_bind (P := fun x => FrameT { r with promotable := Joint.contains r.prs.voters r.id } x)
      · split
        · rename_i r1 heq
          have h1 := Res.Post.of_eq (P := fun x => FrameT _ x.1) (maybeCommit_frameT _) heq
          exact Res.post_mono (bcastAppend_frameT r1) (fun x hx => FrameT.trans h1 hx)
        · rename_i r1 heq
          have h1 := Res.Post.of_eq (P := fun x => FrameT _ x.1) (maybeCommit_frameT _) heq
          refine Res.post_mono (forEachPeer_frameT r1 _ ?_) (fun x hx => FrameT.trans h1 hx)
          intro r3 id pr
          exact Res.post_bind (maybeSendAppend_frameT r3 id pr false) (fun a ha => ha)
        · trivial
        · trivial
      · intro r1 hr1
        apply Res.post_bind (P := fun x => FrameT { r with promotable := Joint.contains r.prs.voters r.id } x)
        · split
          · exact hr1
          · split
            · split
              · apply Res.post_bind (P := fun _ => True)
                · exact Res.post_intro (fun _ _ => trivial)
                · intro a _
                  exact Res.post_mono (respondReadStates_frameT _ _)
                    (fun x hx => (hr1.trans (by simp [FrameT, core])).trans hx)
              · exact hr1.trans (by simp [FrameT, core])
            · exact hr1.trans (by simp [FrameT, core])
        · intro r2 hr2
          exact Res.post_ok (Or.inr (Or.inr ⟨r2, hr2, hl, hv, hi, rfl⟩))

theorem abortIfNotVoter_tn (r2 : Raft) :
    tnOf (match r2.leadTransferee with
      | some e => if !Joint.contains r2.prs.voters e then r2.abortLeaderTransfer else r2
      | none => r2).msgs = tnOf r2.msgs := by
  split
  · split <;> rfl
  · rfl

theorem postConfChange_tn (r : Raft) : Res.Post (fun x => TN r x.1) r.postConfChange := by
  apply Res.post_mono (postConfChange_spec r)
  intro a h
  rcases h with ⟨_, _, h⟩ | ⟨_, h⟩ | ⟨r2, hf, _, _, _, h⟩
  · rw [h]; exact TN.of_msgs (becomeFollower_msgs _ _ _)
  · rw [h]; exact TN.refl _
  · rw [h]; unfold TN; rw [abortIfNotVoter_tn]; exact hf.tn

theorem reset_conf (r : Raft) (t : Nat) : (r.reset t).prs.conf = r.prs.conf := by
  unfold reset
  simp only [mapProgress, abortLeaderTransfer, resetRandomizedElectionTimeout,
    ProgressTracker.resetVotes]
  split <;> rfl

theorem becomeFollower_conf (r : Raft) (t l : Nat) :
    (r.becomeFollower t l).prs.conf = r.prs.conf := by
  unfold becomeFollower; exact reset_conf r t

/-- `post_conf_change` never changes the configuration -/
theorem postConfChange_conf (r : Raft) :
    Res.Post (fun x => x.1.prs.conf = r.prs.conf) r.postConfChange := by
  apply Res.post_mono (postConfChange_spec r)
  intro a h
  rcases h with ⟨_, _, h⟩ | ⟨_, h⟩ | ⟨r2, hf, _, _, _, h⟩
  · rw [h]; exact becomeFollower_conf _ _ _
  · rw [h]
  · rw [h]
    have := hf.conf
    split
    · split <;> exact this
    · exact this

theorem restore_tn (r : Raft) (snap : Snapshot) : Res.Post (fun x => TN r x.1) (r.restore snap) := by
  unfold restore
  dsimp only
  split
  · exact Res.post_ok (TN.refl _)
  · split
    · split
      · trivial
      · exact Res.post_ok (TN.of_msgs (becomeFollower_msgs _ _ _))
    · split
      · exact Res.post_ok (TN.refl _)
      · split
        · trivial
        · trivial
        · split
          · exact Res.post_ok (TN.refl _)
          · trivial
          · trivial
        · split
          · trivial
          · trivial
          · split
            · trivial
            · apply Res.post_bind (postConfChange_tn _)
              intro a ha
              obtain ⟨r1, cs⟩ := a
              dsimp only at ha ⊢
              split
              · trivial
              · split
                · trivial
                · split
                  · trivial
                  · apply Res.post_bind (P := fun _ => True)
                    · exact Res.post_intro (fun _ _ => trivial)
                    · intro b _
                      exact Res.post_ok ha

theorem handleSnapshot_tn (r : Raft) (m : Message) :
    Res.Post (fun x => TN r x) (r.handleSnapshot m) := by
  unfold handleSnapshot
  apply Res.post_bind (restore_tn r m.snapshot)
  intro a ha
  obtain ⟨r1, ok⟩ := a
  dsimp only at ha ⊢
  split
  · exact Res.post_mono (send_frameT r1 _ (by simp)) (fun x hx => ha.trans hx.toTN)
  · exact Res.post_mono (send_frameT r1 _ (by simp)) (fun x hx => ha.trans hx.toTN)

theorem stepCandidate_tn (r : Raft) (m : Message) :
    Res.Post (fun x => TN r x.1) (r.stepCandidate m) := by
  unfold stepCandidate
  split
  · exact Res.post_ok (TN.refl _)
  · split
    · trivial
    · exact Res.post_bind (handleAppendEntries_frameT _ m) (fun a ha =>
        TN.trans (TN.of_msgs (becomeFollower_msgs _ _ _)) ha.toTN)
  · split
    · trivial
    · exact Res.post_bind (handleHeartbeat_frameT _ m) (fun a ha =>
        TN.trans (TN.of_msgs (becomeFollower_msgs _ _ _)) ha.toTN)
  · split
    · trivial
    · exact Res.post_bind (handleSnapshot_tn _ m) (fun a ha =>
        TN.trans (TN.of_msgs (becomeFollower_msgs _ _ _)) ha)
  · split
    · exact Res.post_ok (TN.refl _)
    · split
      · exact Res.post_ok (TN.refl _)
      · apply Res.post_bind (poll_tn r _ _ _)
        intro a ha
        exact Res.post_bind (maybeCommitByVote_tn a.1 m) (fun b hb => TN.trans ha hb)
  · split
    · exact Res.post_ok (TN.refl _)
    · split
      · exact Res.post_ok (TN.refl _)
      · apply Res.post_bind (poll_tn r _ _ _)
        intro a ha
        exact Res.post_bind (maybeCommitByVote_tn a.1 m) (fun b hb => TN.trans ha hb)
  · exact Res.post_ok (TN.refl _)

theorem stepFollower_tn (r : Raft) (m : Message) :
    Res.Post (fun x => TN r x.1) (r.stepFollower m) := by
  unfold stepFollower
  split
  · rename_i hm
    split
    · exact Res.post_ok (TN.refl _)
    · split
      · exact Res.post_ok (TN.refl _)
      · exact Res.post_bind (send_frameT r _ (by simp [hm])) (fun a ha => ha.toTN)
  · exact Res.post_bind (handleAppendEntries_frameT _ m) (fun a ha =>
      TN.trans (TN.of_msgs rfl) ha.toTN)
  · exact Res.post_bind (handleHeartbeat_frameT _ m) (fun a ha =>
      TN.trans (TN.of_msgs rfl) ha.toTN)
  · exact Res.post_bind (handleSnapshot_tn _ m) (fun a ha => TN.trans (TN.of_msgs rfl) ha)
  · rename_i hm
    split
    · exact Res.post_ok (TN.refl _)
    · exact Res.post_bind (send_frameT r _ (by simp [hm])) (fun a ha => ha.toTN)
  · split
    · exact Res.post_bind (hup_tn r true) (fun a ha => ha)
    · exact Res.post_ok (TN.refl _)
  · rename_i hm
    split
    · exact Res.post_ok (TN.refl _)
    · exact Res.post_bind (send_frameT r _ (by simp [hm])) (fun a ha => ha.toTN)
  · split
    · dsimp only
      split
      · exact Res.post_ok (TN.refl _)
      · trivial
      · trivial
    · exact Res.post_ok (TN.refl _)
  · exact Res.post_ok (TN.refl _)

theorem stepTerm_tn (r : Raft) (m : Message) : Res.Post (fun x => TN r x.1) (r.stepTerm m) := by
  unfold stepTerm
  split
  · exact Res.post_ok (TN.refl _)
  · split
    · dsimp only
      split
      · exact Res.post_ok (TN.refl _)
      · split
        · exact Res.post_ok (TN.refl _)
        · split
          · exact Res.post_ok (TN.of_msgs (becomeFollower_msgs _ _ _))
          · exact Res.post_ok (TN.of_msgs (becomeFollower_msgs _ _ _))
    · split
      · split
        · split
          · rename_i r1 heq
            exact Res.post_ok (Res.Post.of_eq (P := fun x => FrameT r x) (send_frameT r _ (by simp [newMessage])) heq).toTN
          · trivial
          · trivial
        · split
          · split
            · rename_i r1 heq
              exact Res.post_ok (Res.Post.of_eq (P := fun x => FrameT r x) (send_frameT r _ (by simp)) heq).toTN
            · trivial
            · trivial
          · exact Res.post_ok (TN.refl _)
      · exact Res.post_ok (TN.refl _)

theorem stepVote_tn (r : Raft) (m : Message) : Res.Post (fun x => TN r x) (r.stepVote m) := by
  unfold stepVote
  split
  · trivial
  · rename_i respType hrt
    have hne : respType ≠ .msgTimeoutNow := by
      intro hc; subst hc
      unfold voteRespMsgType at hrt
      split at hrt <;> cases hrt
    split
    · unfold stepVoteGrant
      split
      · rename_i r1 heq
        have h1 := (Res.Post.of_eq (P := fun x => FrameT r x) (send_frameT r _ (by simpa using hne)) heq).toTN
        split
        · exact Res.post_ok (TN.trans h1 (TN.of_msgs rfl))
        · exact Res.post_ok h1
      · trivial
      · trivial
    · unfold stepVoteReject
      split
      · trivial
      · trivial
      · split
        · rename_i r1 heq
          have h1 := (Res.Post.of_eq (P := fun x => FrameT r x) (send_frameT r _ (by simpa using hne)) heq).toTN
          split
          · exact Res.post_mono (maybeCommitByVote_tn r1 m) (fun x hx => TN.trans h1 hx)
          · exact Res.post_ok h1
        · trivial
        · trivial
    · trivial
    · trivial

/-! ### who may touch `lead_transferee`

`Rel r r'`: the pending transfer was dropped, or it is unchanged and a leader stayed leader.  Every
function of the node model except `handle_transfer_leader` satisfies it. -/

def Rel (r r' : Raft) : Prop :=
  r'.leadTransferee = none ∨
  (r'.leadTransferee = r.leadTransferee ∧ (r.state = .leader → r'.state = .leader))

theorem Rel.refl (r : Raft) : Rel r r := Or.inr ⟨rfl, fun h => h⟩
theorem Rel.trans {a b c : Raft} (h1 : Rel a b) (h2 : Rel b c) : Rel a c := by
  rcases h2 with h2 | ⟨h2, h2'⟩
  · exact Or.inl h2
  · rcases h1 with h1 | ⟨h1, h1'⟩
    · exact Or.inl (h2.trans h1)
    · exact Or.inr ⟨h2.trans h1, fun h => h2' (h1' h)⟩
theorem FrameT.toRel {r r' : Raft} (h : FrameT r r') : Rel r r' :=
  Or.inr ⟨h.leadTransferee, fun hs => h.state.trans hs⟩
theorem Rel.of_none {r r' : Raft} (h : r'.leadTransferee = none) : Rel r r' := Or.inl h
theorem Rel.of_same {r r' : Raft} (h1 : r'.leadTransferee = r.leadTransferee)
    (h2 : r'.state = r.state) : Rel r r' := Or.inr ⟨h1, fun hs => h2.trans hs⟩

theorem postConfChange_rel (r : Raft) : Res.Post (fun x => Rel r x.1) r.postConfChange := by
  apply Res.post_mono (postConfChange_spec r)
  intro a h
  rcases h with ⟨_, _, h⟩ | ⟨_, h⟩ | ⟨r2, hf, _, _, _, h⟩
  · rw [h]; exact Rel.of_none (becomeFollower_leadTransferee _ _ _)
  · rw [h]; exact Rel.of_same rfl rfl
  · rw [h]
    have hr : Rel r r2 := Rel.trans (Rel.of_same rfl rfl) hf.toRel
    split
    · split
      · exact Rel.of_none rfl
      · exact hr
    · exact hr

theorem becomeCandidate_rel (r : Raft) : Res.Post (fun x => Rel r x) r.becomeCandidate := by
  unfold becomeCandidate
  split
  · trivial
  · split
    · trivial
    · exact Res.post_ok (Rel.of_none (reset_leadTransferee r (r.term + 1)))

theorem becomePreCandidate_rel (r : Raft) : Res.Post (fun x => Rel r x) r.becomePreCandidate := by
  unfold becomePreCandidate
  split
  · trivial
  · rename_i hs
    exact Res.post_ok (Or.inr ⟨rfl, fun h => absurd h hs⟩)

theorem becomeLeader_rel (r : Raft) : Res.Post (fun x => Rel r x) r.becomeLeader := by
  unfold becomeLeader
  split
  · trivial
  · dsimp only
    split
    · trivial
    · split
      · trivial
      · split
        · rename_i r1 heq
          have h1 := Res.Post.of_eq (P := fun x => FrameT _ x.1) (appendEntry_frameT _ _) heq
          exact Res.post_ok (Rel.of_none (h1.leadTransferee.trans (reset_leadTransferee r r.term)))
        · trivial
        · trivial
        · trivial

theorem pollWith_rel (onPreWin : Raft → Res Raft) (hp : ∀ r, Res.Post (fun x => Rel r x) (onPreWin r))
    (r : Raft) (frm : Nat) (t : MsgType) (vote : Bool) :
    Res.Post (fun x => Rel r x.1) (pollWith onPreWin r frm t vote) := by
  unfold pollWith
  dsimp only
  split
  · split
    · exact Res.post_bind (hp _) (fun a ha => ha)
    · apply Res.post_bind (P := fun x => Rel r x)
      · exact Res.post_bind (becomeLeader_rel _) (fun a ha =>
          Res.post_mono (bcastAppend_frameT a) (fun x hx => Rel.trans ha hx.toRel))
      · intro a ha; exact ha
  · exact Res.post_ok (Rel.of_none (becomeFollower_leadTransferee _ _ _))
  · exact Res.post_ok (Rel.refl _)

theorem campaignWith_rel (poll : Raft → Nat → MsgType → Bool → Res (Raft × VoteResult))
    (hp : ∀ r f t v, Res.Post (fun x => Rel r x.1) (poll r f t v)) (r : Raft) (ct : CampaignType) :
    Res.Post (fun x => Rel r x) (campaignWith poll r ct) := by
  unfold campaignWith
  dsimp only
  apply Res.post_bind (P := fun x => Rel r x.1 ∧ x.2.1 ≠ .msgTimeoutNow)
  · split
    · apply Res.post_bind (becomePreCandidate_rel r)
      intro a ha
      split
      · trivial
      · exact ⟨ha, by simp⟩
    · exact Res.post_bind (becomeCandidate_rel r) (fun a ha => ⟨ha, by simp⟩)
  · intro a ha
    obtain ⟨r1, voteMsg, term⟩ := a
    dsimp only at ha ⊢
    apply Res.post_bind (hp r1 r1.id voteMsg true)
    intro b hb
    obtain ⟨r2, res⟩ := b
    dsimp only at hb ⊢
    split
    · exact ha.1.trans hb
    · exact Res.post_mono (sendVoteRequests_frameT r2 ct voteMsg term ha.2)
        (fun x hx => (ha.1.trans hb).trans hx.toRel)

theorem campaignAfterPreVote_rel (r : Raft) : Res.Post (fun x => Rel r x) r.campaignAfterPreVote := by
  unfold campaignAfterPreVote
  exact campaignWith_rel _ (fun r f t v => pollWith_rel _ (by intro _; trivial) r f t v) r _

theorem poll_rel (r : Raft) (frm : Nat) (t : MsgType) (vote : Bool) :
    Res.Post (fun x => Rel r x.1) (r.poll frm t vote) := by
  unfold poll
  exact pollWith_rel _ campaignAfterPreVote_rel r frm t vote

theorem campaign_rel (r : Raft) (ct : CampaignType) : Res.Post (fun x => Rel r x) (r.campaign ct) := by
  unfold campaign
  exact campaignWith_rel _ poll_rel r ct

theorem hup_rel (r : Raft) (b : Bool) : Res.Post (fun x => Rel r x) (r.hup b) := by
  unfold hup
  split
  · exact Rel.refl _
  · split
    · exact Rel.refl _
    · split
      · trivial
      · trivial
      · exact Rel.refl _
      · split
        · exact Rel.refl _
        · split
          · exact campaign_rel _ _
          · split <;> exact campaign_rel _ _

theorem maybeCommitByVote_rel (r : Raft) (m : Message) :
    Res.Post (fun x => Rel r x) (r.maybeCommitByVote m) := by
  unfold maybeCommitByVote
  split
  · exact Rel.refl _
  · dsimp only
    split
    · exact Rel.refl _
    · split
      · trivial
      · trivial
      · exact Rel.refl _
      · split
        · exact Rel.refl _
        · split
          · trivial
          · trivial
          · exact Rel.of_none (becomeFollower_leadTransferee _ _ _)
          · exact Rel.refl _

theorem restore_rel (r : Raft) (snap : Snapshot) : Res.Post (fun x => Rel r x.1) (r.restore snap) := by
  unfold restore
  dsimp only
  split
  · exact Res.post_ok (Rel.refl _)
  · split
    · split
      · trivial
      · exact Res.post_ok (Rel.of_none (becomeFollower_leadTransferee _ _ _))
    · split
      · exact Res.post_ok (Rel.refl _)
      · split
        · trivial
        · trivial
        · split
          · exact Res.post_ok (Rel.refl _)
          · trivial
          · trivial
        · split
          · trivial
          · trivial
          · split
            · trivial
            · apply Res.post_bind (postConfChange_rel _)
              intro a ha
              obtain ⟨r1, cs⟩ := a
              dsimp only at ha ⊢
              split
              · trivial
              · split
                · trivial
                · split
                  · trivial
                  · apply Res.post_bind (P := fun _ => True)
                    · exact Res.post_intro (fun _ _ => trivial)
                    · intro b _
                      exact Res.post_ok ha

theorem handleSnapshot_rel (r : Raft) (m : Message) :
    Res.Post (fun x => Rel r x) (r.handleSnapshot m) := by
  unfold handleSnapshot
  apply Res.post_bind (restore_rel r m.snapshot)
  intro a ha
  obtain ⟨r1, ok⟩ := a
  dsimp only at ha ⊢
  split
  · exact Res.post_mono (send_frameT r1 _ (by simp)) (fun x hx => ha.trans hx.toRel)
  · exact Res.post_mono (send_frameT r1 _ (by simp)) (fun x hx => ha.trans hx.toRel)

theorem stepCandidate_rel (r : Raft) (m : Message) :
    Res.Post (fun x => Rel r x.1) (r.stepCandidate m) := by
  unfold stepCandidate
  split
  · exact Res.post_ok (Rel.refl _)
  · split
    · trivial
    · exact Res.post_bind (handleAppendEntries_frameT _ m) (fun a ha =>
        Rel.trans (Rel.of_none (becomeFollower_leadTransferee _ _ _)) ha.toRel)
  · split
    · trivial
    · exact Res.post_bind (handleHeartbeat_frameT _ m) (fun a ha =>
        Rel.trans (Rel.of_none (becomeFollower_leadTransferee _ _ _)) ha.toRel)
  · split
    · trivial
    · exact Res.post_bind (handleSnapshot_rel _ m) (fun a ha =>
        Rel.trans (Rel.of_none (becomeFollower_leadTransferee _ _ _)) ha)
  · split
    · exact Res.post_ok (Rel.refl _)
    · split
      · exact Res.post_ok (Rel.refl _)
      · apply Res.post_bind (poll_rel r _ _ _)
        intro a ha
        exact Res.post_bind (maybeCommitByVote_rel a.1 m) (fun b hb => Rel.trans ha hb)
  · split
    · exact Res.post_ok (Rel.refl _)
    · split
      · exact Res.post_ok (Rel.refl _)
      · apply Res.post_bind (poll_rel r _ _ _)
        intro a ha
        exact Res.post_bind (maybeCommitByVote_rel a.1 m) (fun b hb => Rel.trans ha hb)
  · exact Res.post_ok (Rel.refl _)

theorem stepFollower_rel (r : Raft) (m : Message) :
    Res.Post (fun x => Rel r x.1) (r.stepFollower m) := by
  unfold stepFollower
  split
  · rename_i hm
    split
    · exact Res.post_ok (Rel.refl _)
    · split
      · exact Res.post_ok (Rel.refl _)
      · exact Res.post_bind (send_frameT r _ (by simp [hm])) (fun a ha => ha.toRel)
  · exact Res.post_bind (handleAppendEntries_frameT _ m) (fun a ha =>
      Rel.trans (Rel.of_same rfl rfl) ha.toRel)
  · exact Res.post_bind (handleHeartbeat_frameT _ m) (fun a ha =>
      Rel.trans (Rel.of_same rfl rfl) ha.toRel)
  · exact Res.post_bind (handleSnapshot_rel _ m) (fun a ha => Rel.trans (Rel.of_same rfl rfl) ha)
  · rename_i hm
    split
    · exact Res.post_ok (Rel.refl _)
    · exact Res.post_bind (send_frameT r _ (by simp [hm])) (fun a ha => ha.toRel)
  · split
    · exact Res.post_bind (hup_rel r true) (fun a ha => ha)
    · exact Res.post_ok (Rel.refl _)
  · rename_i hm
    split
    · exact Res.post_ok (Rel.refl _)
    · exact Res.post_bind (send_frameT r _ (by simp [hm])) (fun a ha => ha.toRel)
  · split
    · dsimp only
      split
      · exact Res.post_ok (Rel.refl _)
      · trivial
      · trivial
    · exact Res.post_ok (Rel.refl _)
  · exact Res.post_ok (Rel.refl _)

theorem stepTerm_rel (r : Raft) (m : Message) : Res.Post (fun x => Rel r x.1) (r.stepTerm m) := by
  unfold stepTerm
  split
  · exact Res.post_ok (Rel.refl _)
  · split
    · dsimp only
      split
      · exact Res.post_ok (Rel.refl _)
      · split
        · exact Res.post_ok (Rel.refl _)
        · split
          · exact Res.post_ok (Rel.of_none (becomeFollower_leadTransferee _ _ _))
          · exact Res.post_ok (Rel.of_none (becomeFollower_leadTransferee _ _ _))
    · split
      · split
        · split
          · rename_i r1 heq
            exact Res.post_ok (Res.Post.of_eq (P := fun x => FrameT r x) (send_frameT r _ (by simp [newMessage])) heq).toRel
          · trivial
          · trivial
        · split
          · split
            · rename_i r1 heq
              exact Res.post_ok (Res.Post.of_eq (P := fun x => FrameT r x) (send_frameT r _ (by simp)) heq).toRel
            · trivial
            · trivial
          · exact Res.post_ok (Rel.refl _)
      · exact Res.post_ok (Rel.refl _)

theorem stepVote_rel (r : Raft) (m : Message) : Res.Post (fun x => Rel r x) (r.stepVote m) := by
  unfold stepVote
  split
  · trivial
  · rename_i respType hrt
    have hne : respType ≠ .msgTimeoutNow := by
      intro hc; subst hc
      unfold voteRespMsgType at hrt
      split at hrt <;> cases hrt
    split
    · unfold stepVoteGrant
      split
      · rename_i r1 heq
        have h1 := (Res.Post.of_eq (P := fun x => FrameT r x) (send_frameT r _ (by simpa using hne)) heq).toRel
        split
        · exact Res.post_ok (Rel.trans h1 (Rel.of_same rfl rfl))
        · exact Res.post_ok h1
      · trivial
      · trivial
    · unfold stepVoteReject
      split
      · trivial
      · trivial
      · split
        · rename_i r1 heq
          have h1 := (Res.Post.of_eq (P := fun x => FrameT r x) (send_frameT r _ (by simpa using hne)) heq).toRel
          split
          · exact Res.post_mono (maybeCommitByVote_rel r1 m) (fun x hx => Rel.trans h1 hx)
          · exact Res.post_ok h1
        · trivial
        · trivial
    · trivial
    · trivial


end Raft
end RaftModel
