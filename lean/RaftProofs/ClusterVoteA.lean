import RaftProofs.RaftNodeC17
import RaftProofs.RawNodeC06

/-!
Helper lemmas for the cluster-level election-safety proof (`RaftProps.C02c`), part A: the projection
of the node state the vote argument reads (`ncore`: term, vote, id, role, `promotable`, the
configuration, the recorded votes, the hard state *in the storage*; and the queue projected on its
real-vote messages) and the frame lemmas `VF` of the sending / replication helpers of the node model,
in the Hoare style of `RaftProofs.RaftNodeC17`.
-/
namespace RaftModel
namespace Raft
namespace CV

/-- the two message types of a real election -/
def isRVt : MsgType → Bool
  | .msgRequestVote | .msgRequestVoteResponse => true
  | _ => false

/-- a real vote request, or a *granted* real vote response -/
def isRVm (x : Message) : Bool :=
  x.msgType == .msgRequestVote || (x.msgType == .msgRequestVoteResponse && !x.reject)

theorem isRVm_of_type {x : Message} (h : isRVt x.msgType = false) : isRVm x = false := by
  unfold isRVm
  cases ht : x.msgType <;> simp_all [isRVt]

/-- the real-vote messages of an outgoing queue, in order -/
def rvOf (l : List Message) : List Message := l.filter isRVm

@[simp] theorem rvOf_append (a b : List Message) : rvOf (a ++ b) = rvOf a ++ rvOf b := by
  simp [rvOf]

theorem rvOf_single_ne (m : Message) (h : isRVm m = false) : rvOf [m] = [] := by
  simp [rvOf, h]

theorem mem_rvOf {l : List Message} {x : Message} : x ∈ rvOf l ↔ x ∈ l ∧ isRVm x = true := by
  simp [rvOf]

/-- the part of the node state the vote argument reads (everything but the queue) -/
structure NCore where
  term : Nat
  vote : Nat
  id : Nat
  state : StateRole
  promotable : Bool
  conf : Configuration
  votes : List (Nat × Bool)
  hs : HardState

def ncore (r : Raft) : NCore :=
  { term := r.term, vote := r.vote, id := r.id, state := r.state, promotable := r.promotable,
    conf := r.prs.conf, votes := r.prs.votes, hs := r.raftLog.store.hardState }

/-- `r'` differs from `r` only outside `ncore`, and the same real-vote messages are queued -/
def VF (r r' : Raft) : Prop := ncore r' = ncore r ∧ rvOf r'.msgs = rvOf r.msgs

theorem VF.refl (r : Raft) : VF r r := ⟨rfl, rfl⟩
theorem VF.trans {a b c : Raft} (h1 : VF a b) (h2 : VF b c) : VF a c :=
  ⟨h2.1.trans h1.1, h2.2.trans h1.2⟩

theorem VF.term {r r' : Raft} (h : VF r r') : r'.term = r.term := congrArg NCore.term h.1
theorem VF.vote {r r' : Raft} (h : VF r r') : r'.vote = r.vote := congrArg NCore.vote h.1
theorem VF.id {r r' : Raft} (h : VF r r') : r'.id = r.id := congrArg NCore.id h.1
theorem VF.state {r r' : Raft} (h : VF r r') : r'.state = r.state := congrArg NCore.state h.1
theorem VF.promotable {r r' : Raft} (h : VF r r') : r'.promotable = r.promotable :=
  congrArg NCore.promotable h.1
theorem VF.conf {r r' : Raft} (h : VF r r') : r'.prs.conf = r.prs.conf := congrArg NCore.conf h.1
theorem VF.voters {r r' : Raft} (h : VF r r') : r'.prs.voters = r.prs.voters := by
  unfold ProgressTracker.voters; rw [h.conf]
theorem VF.votes {r r' : Raft} (h : VF r r') : r'.prs.votes = r.prs.votes := congrArg NCore.votes h.1
theorem VF.hs {r r' : Raft} (h : VF r r') :
    r'.raftLog.store.hardState = r.raftLog.store.hardState := congrArg NCore.hs h.1
theorem VF.rv {r r' : Raft} (h : VF r r') : rvOf r'.msgs = rvOf r.msgs := h.2

/-! ### the `RaftLog` operations never touch the stored hard state -/

theorem snapshot_hs (l : RaftLog) (i : Nat) : (l.snapshot i).1.store.hardState = l.store.hardState := by
  have hst : ∀ s : MemStorage, (s.snapshot i).1.hardState = s.hardState := by
    intro s
    unfold MemStorage.snapshot
    split
    · rfl
    · split <;> rfl
  unfold RaftLog.snapshot
  split
  · split
    · rfl
    · exact hst _
  · exact hst _

theorem maybeCommit_store {l l' : RaftLog} {i t : Nat} {b : Bool}
    (h : l.maybeCommit i t = .ok (l', b)) : l'.store = l.store := by
  unfold RaftLog.maybeCommit at h
  split at h
  · split at h
    · split at h
      · split at h
        · rename_i l2 hc
          cases h
          exact C06.commitTo_store hc
        · cases h
        · cases h
      · cases h; rfl
    · cases h; rfl
    · cases h
  · cases h; rfl

theorem appendConflict_store {l l' : RaftLog} {i c : Nat} {ents : List Entry}
    (h : l.appendConflict i c ents = .ok l') : l'.store = l.store := by
  unfold RaftLog.appendConflict at h
  split at h
  · cases h
  · split at h
    · cases h
    · split at h
      · rename_i l2 k ha
        cases h
        have := C06.append_store ha
        split <;> exact this
      · cases h
      · cases h

theorem maybeAppend_store {l l' : RaftLog} {i t c : Nat} {ents : List Entry} {o : Option (Nat × Nat)}
    (h : l.maybeAppend i t c ents = .ok (l', o)) : l'.store = l.store := by
  unfold RaftLog.maybeAppend at h
  split at h
  · cases h; rfl
  · split at h
    · rename_i ci _
      dsimp only at h
      split at h
      · rename_i l1 h1
        split at h
        · rename_i l2 h2
          cases h
          have e2 := C06.commitTo_store h2
          have e1 : l1.store = l.store := by
            split at h1
            · cases h1; rfl
            · split at h1
              · cases h1
              · exact appendConflict_store h1
          exact e2.trans e1
        · cases h
        · cases h
      · cases h
      · cases h
    · cases h
    · cases h
  · cases h
  · cases h

/-! ### sending -/

theorem send_vf (r : Raft) (m : Message) (hm : isRVt m.msgType = false) :
    Res.Post (fun r' => VF r r') (r.send m) := by
  apply Res.post_intro
  intro r' h
  rw [send_eq r r' m h]
  have : isRVm (r.sendFill m) = false := isRVm_of_type (by rw [sendFill_msgType]; exact hm)
  simp [VF, ncore, rvOf_single_ne _ this]

theorem tryBatchingLoop_rv (committed to : Nat) (pr : Progress) (ents : List Entry) :
    ∀ msgs, Res.Post (fun x => rvOf x.1 = rvOf msgs) (tryBatchingLoop committed to pr ents msgs) := by
  intro msgs
  induction msgs with
  | nil => simp [tryBatchingLoop, Res.Post]
  | cons msg rest ih =>
    unfold tryBatchingLoop
    split
    · rename_i hc
      have hne : ∀ (e : List Entry) (c : Nat),
          isRVm ({ msg with entries := e, commit := c } : Message) = false := by
        intro e c; exact isRVm_of_type (by simp [hc.1, isRVt])
      have hne0 : isRVm msg = false := isRVm_of_type (by simp [hc.1, isRVt])
      split
      · split
        · simp [Res.Post]
        · simp only
          split
          · trivial
          · split
            · simp [Res.Post, rvOf, hne]
            · trivial
            · trivial
      · have := hne msg.entries committed
        simp [Res.Post, rvOf, hne0, this]
    · split
      · rename_i rest' pr' b heq
        have := Res.Post.of_eq ih heq
        simp only [Res.Post] at this ⊢
        simp only [rvOf, List.filter_cons] at this ⊢
        rw [this]
      · trivial
      · trivial

theorem tryBatching_vf (r : Raft) (to : Nat) (pr : Progress) (ents : List Entry) :
    Res.Post (fun x => VF r x.1) (r.tryBatching to pr ents) := by
  unfold tryBatching
  split
  · rename_i msgs pr' b heq
    have := Res.Post.of_eq (tryBatchingLoop_rv _ _ _ _ _) heq
    simp only [Res.Post] at this ⊢
    simp [VF, ncore, this]
  · trivial
  · trivial

theorem prepareSendSnapshot_vf (r : Raft) (m : Message) (pr : Progress) (to : Nat) :
    Res.Post (fun x => VF r x.1 ∧ (x.2.2.2 = true → x.2.1.msgType = .msgSnapshot))
      (r.prepareSendSnapshot m pr to) := by
  unfold prepareSendSnapshot
  split
  · simp [Res.Post, VF.refl]
  · simp only
    have hh := snapshot_hs r.raftLog pr.pendingRequestSnapshot
    split
    · simp [Res.Post, VF, ncore, hh]
    · trivial
    · trivial
    · split
      · trivial
      · simp [Res.Post, VF, ncore, hh]

/-- the snapshot fallback of `maybe_send_append` -/
theorem snapSend_vf (r0 r : Raft) (m : Message) (pr : Progress) (to : Nat) (h0 : VF r0 r) :
    Res.Post (fun x => VF r0 x.1)
      (match r.prepareSendSnapshot m pr to with
        | .ok (r, m, pr, true) => (r.send m).bind (fun r => .ok (r, pr, true))
        | .ok (r, _, pr, false) => .ok (r, pr, false)
        | .err e => .err e
        | .panic s => .panic s : Res (Raft × Progress × Bool)) := by
  split
  · rename_i r1 m1 pr1 heq
    have h1 := Res.Post.of_eq (prepareSendSnapshot_vf _ _ _ _) heq
    dsimp only at h1
    have hm : isRVt m1.msgType = false := by rw [h1.2 rfl]; rfl
    exact Res.post_bind (send_vf r1 m1 hm) (fun a ha => by
      simp only [Res.Post]; exact (h0.trans h1.1).trans ha)
  · rename_i r1 m1 pr1 heq
    have h1 := Res.Post.of_eq (prepareSendSnapshot_vf _ _ _ _) heq
    dsimp only at h1
    simp only [Res.Post]; exact h0.trans h1.1
  · trivial
  · trivial

theorem maybeSendAppend_vf (r : Raft) (to : Nat) (pr : Progress) (ae : Bool) :
    Res.Post (fun x => VF r x.1) (r.maybeSendAppend to pr ae) := by
  unfold maybeSendAppend
  split
  · simp [Res.Post, VF.refl]
  · simp only
    split
    · exact snapSend_vf r r _ _ _ (VF.refl r)
    · generalize r.raftLog.entries pr.nextIdx (some r.maxMsgSize) true = E
      generalize r.raftLog.term (pr.nextIdx - 1) = T
      cases E with
      | panic s => trivial
      | ok ents =>
        simp only
        split
        · simp [Res.Post, VF.refl]
        · split
          · trivial
          · cases T with
            | panic s => trivial
            | err e => exact snapSend_vf r r _ _ _ (VF.refl r)
            | ok term =>
              simp only
              have hb : Res.Post (fun x => VF r x.1)
                  (if r.batchAppend then r.tryBatching to pr ents else .ok (r, pr, false)) := by
                split
                · exact tryBatching_vf _ _ _ _
                · simp [Res.Post, VF.refl]
              split
              · rename_i r1 pr1 heq
                exact Res.Post.of_eq (P := fun x => VF r x.1) hb heq
              · rename_i r1 pr1 heq
                have h1 : VF r r1 := Res.Post.of_eq (P := fun x => VF r x.1) hb heq
                split
                · rename_i m2 pr2 heq2
                  have h2 := Res.Post.of_eq (prepareSendEntries_type _ _ _ _ _) heq2
                  dsimp only at h2
                  have hm : isRVt m2.msgType = false := by rw [h2]; rfl
                  exact Res.post_bind (send_vf r1 m2 hm) (fun a ha => by
                    simp only [Res.Post]; exact h1.trans ha)
                · trivial
                · trivial
              · trivial
              · trivial
      | err e =>
        simp only
        split
        · simp [Res.Post, VF.refl]
        · split
          · trivial
          · cases T with
            | panic s => trivial
            | err e' =>
              simp only
              split
              · contradiction
              · simp [Res.Post, VF.refl]
              · exact snapSend_vf r r _ _ _ (VF.refl r)
            | ok term =>
              simp only
              split
              · contradiction
              · simp [Res.Post, VF.refl]
              · exact snapSend_vf r r _ _ _ (VF.refl r)

theorem set_vf (r : Raft) (id : Nat) (pr : Progress) :
    VF r { r with prs := r.prs.set id pr } := by
  simp [VF, ncore, ProgressTracker.set]

theorem sendAppendPr_vf (r : Raft) (to : Nat) (pr : Progress) :
    Res.Post (fun x => VF r x.1) (r.sendAppendPr to pr) := by
  unfold sendAppendPr
  exact Res.post_bind (maybeSendAppend_vf r to pr true) (fun a ha => by
    simp only [Res.Post]; exact ha)

theorem sendAppendAggressivelyPr_vf (fuel : Nat) : ∀ (r : Raft) (to : Nat) (pr : Progress),
    Res.Post (fun x => VF r x.1) (sendAppendAggressivelyPr fuel r to pr) := by
  induction fuel with
  | zero => intro r to pr; unfold sendAppendAggressivelyPr; trivial
  | succ n ih =>
    intro r to pr
    unfold sendAppendAggressivelyPr
    split
    · rename_i r1 pr1 heq
      have h1 : VF r r1 :=
        Res.Post.of_eq (P := fun x => VF r x.1) (maybeSendAppend_vf _ _ _ _) heq
      exact Res.post_mono (ih r1 to pr1) (fun a ha => h1.trans ha)
    · rename_i r1 pr1 heq
      exact Res.Post.of_eq (P := fun x => VF r x.1) (maybeSendAppend_vf _ _ _ _) heq
    · trivial
    · trivial

theorem sendHeartbeat_vf (r : Raft) (to : Nat) (pr : Progress) (ctx : Option Bytes) :
    Res.Post (fun x => VF r x) (r.sendHeartbeat to pr ctx) := by
  unfold sendHeartbeat
  exact send_vf r _ rfl

theorem sendAppend_vf (r : Raft) (to : Nat) :
    Res.Post (fun x => VF r x) (r.sendAppend to) := by
  unfold sendAppend
  split
  · trivial
  · exact Res.post_bind (sendAppendPr_vf r to _) (fun a ha => by
      simp only [Res.Post]; exact VF.trans ha (set_vf _ _ _))

theorem sendAppendAggressively_vf (r : Raft) (to : Nat) :
    Res.Post (fun x => VF r x) (r.sendAppendAggressively to) := by
  unfold sendAppendAggressively
  split
  · trivial
  · exact Res.post_bind (sendAppendAggressivelyPr_vf _ r to _) (fun a ha => by
      simp only [Res.Post]; exact VF.trans ha (set_vf _ _ _))

theorem sendTimeoutNow_vf (r : Raft) (to : Nat) :
    Res.Post (fun x => VF r x) (r.sendTimeoutNow to) := by
  unfold sendTimeoutNow
  exact send_vf r _ rfl

theorem foldl_vf {β : Type} (g : Raft → β → Res Raft)
    (hg : ∀ r b, Res.Post (fun x => VF r x) (g r b)) (r0 : Raft) :
    ∀ (l : List β) (acc : Res Raft), Res.Post (fun x => VF r0 x) acc →
      Res.Post (fun x => VF r0 x) (l.foldl (fun acc b => acc.bind (fun r => g r b)) acc) := by
  intro l
  induction l with
  | nil => intro acc h; exact h
  | cons b rest ih =>
    intro acc h
    simp only [List.foldl_cons]
    apply ih
    exact Res.post_bind h (fun a ha => Res.post_mono (hg a b) (fun x hx => ha.trans hx))

theorem forEachPeer_vf (r : Raft) (f : Raft → Nat → Progress → Res (Raft × Progress))
    (hf : ∀ r id pr, Res.Post (fun x => VF r x.1) (f r id pr)) :
    Res.Post (fun x => VF r x) (r.forEachPeer f) := by
  unfold forEachPeer
  apply foldl_vf (fun r id => if id = r.id then .ok r
      else match r.prs.get id with
        | none => .ok r
        | some pr => (f r id pr).bind (fun (r, pr) => .ok { r with prs := r.prs.set id pr }))
  · intro r1 id
    dsimp only
    split
    · exact VF.refl _
    · split
      · exact VF.refl _
      · exact Res.post_bind (hf r1 id _) (fun a ha => by
          simp only [Res.Post]; exact VF.trans ha (set_vf _ _ _))
  · exact VF.refl _

theorem bcastAppend_vf (r : Raft) : Res.Post (fun x => VF r x) r.bcastAppend := by
  unfold bcastAppend
  exact forEachPeer_vf r _ (fun r id pr => sendAppendPr_vf r id pr)

theorem bcastHeartbeatWithCtx_vf (r : Raft) (ctx : Option Bytes) :
    Res.Post (fun x => VF r x) (r.bcastHeartbeatWithCtx ctx) := by
  unfold bcastHeartbeatWithCtx
  exact forEachPeer_vf r _ (fun r id pr =>
    Res.post_bind (sendHeartbeat_vf r id pr ctx) (fun a ha => by simp only [Res.Post]; exact ha))

theorem bcastHeartbeat_vf (r : Raft) : Res.Post (fun x => VF r x) r.bcastHeartbeat := by
  unfold bcastHeartbeat
  exact bcastHeartbeatWithCtx_vf r _

theorem ping_vf (r : Raft) : Res.Post (fun x => VF r x) r.ping := by
  unfold ping
  split
  · exact bcastHeartbeat_vf r
  · exact VF.refl _

theorem modifyProgress_vf (r : Raft) (id : Nat) (f : Progress → Progress) :
    VF r (r.modifyProgress id f) := by
  simp [VF, ncore, modifyProgress]

theorem mapProgress_vf (r : Raft) (f : Nat → Progress → Progress) :
    VF r (r.mapProgress f) := by
  simp [VF, ncore, mapProgress]

theorem maybeCommit_vf (r : Raft) : Res.Post (fun x => VF r x.1) r.maybeCommit := by
  unfold maybeCommit
  split
  · trivial
  · trivial
  · split
    · trivial
    · trivial
    · rename_i log hmc
      simp only [Res.Post]
      have := maybeCommit_store hmc
      exact VF.trans (by simp [VF, ncore, this]) (modifyProgress_vf _ _ _)
    · exact VF.refl _

theorem appendEntry_vf (r : Raft) (es : List Entry) :
    Res.Post (fun x => VF r x.1) (r.appendEntry es) := by
  unfold appendEntry
  split
  · exact VF.refl _
  · rename_i r1 heq
    have h1 : VF r r1 := by
      unfold maybeIncreaseUncommittedSize at heq
      simp only [Prod.mk.injEq] at heq
      rw [← heq.1]; simp [VF, ncore]
    simp only
    split
    · rename_i log k ha
      have := C06.append_store ha
      simp only [Res.Post]; exact h1.trans (by simp [VF, ncore, this])
    · trivial
    · trivial

theorem handleReadyReadIndex_vf (r : Raft) (req : Message) (index : Nat) :
    Res.Post (fun x => VF r x.1 ∧ ∀ m, x.2 = some m → m.msgType = .msgReadIndexResp)
      (r.handleReadyReadIndex req index) := by
  unfold handleReadyReadIndex
  split
  · split
    · trivial
    · simp [Res.Post, VF, ncore]
  · simp [Res.Post, VF.refl]

theorem respondReadStates_vf (r : Raft) (rss : List ReadIndexStatus) :
    Res.Post (fun x => VF r x) (r.respondReadStates rss) := by
  unfold respondReadStates
  apply foldl_vf (fun (r : Raft) (rs : ReadIndexStatus) => (r.handleReadyReadIndex rs.req rs.index).bind (fun (r, om) =>
        match om with
        | some m => r.send m
        | none => .ok r))
  · intro r1 rs
    exact Res.post_bind (handleReadyReadIndex_vf r1 _ _) (fun a ha => by
      obtain ⟨r2, om⟩ := a
      dsimp only at ha ⊢
      split
      · rename_i m
        have hm : isRVt m.msgType = false := by rw [ha.2 m rfl]; rfl
        exact Res.post_mono (send_vf r2 m hm) (fun x hx => ha.1.trans hx)
      · exact ha.1)
  · exact VF.refl _

end CV
end Raft
end RaftModel
