import RaftModel.ProtoCfg
import RaftProofs.ProtoRead

/-!
The configuration-aware layer **PC** over P (`RaftModel/ProtoCfg.lean`) — definitions and basic lemmas.

* `confCount` over prefixes;
* `win_split` / `commit_split`: P's guards of `win` / `commitLeader` are exactly
  `winCore ∧ winAdj` / `commitCore ∧ commitAdj`;
* `base_shape`: what an event of P other than `win` / `commitLeader` leaves alone;
* `reach_base`: every PC history is a P history;
* the invariant `InvCfg` and the minimal-record lemma.
-/
namespace RaftModel.P

/-! ### `confCount` -/

theorem confCount_nil : confCount [] = 0 := rfl

theorem confCount_append (a b : List LEntry) : confCount (a ++ b) = confCount a + confCount b := by
  simp [confCount, List.filter_append]

theorem confCount_take_le (l : List LEntry) (a : Nat) : confCount (l.take a) ≤ confCount l := by
  have h : confCount l = confCount (l.take a ++ l.drop a) := by rw [List.take_append_drop]
  rw [h, confCount_append]; omega

theorem confCount_take_mono (l : List LEntry) {a b : Nat} (h : a ≤ b) :
    confCount (l.take a) ≤ confCount (l.take b) := by
  have := confCount_take_le (l.take b) a
  rwa [List.take_take, Nat.min_eq_left h] at this

/-- two lists that agree up to `a` have the same count in every shorter prefix -/
theorem confCount_of_take_eq {l L : List LEntry} {a b : Nat} (h : l.take a = L.take a) (hb : b ≤ a) :
    confCount (l.take b) = confCount (L.take b) := by
  rw [take_of_take_eq h hb]

/-! ### the guards of `win` / `commitLeader`, split -/

/-- the state after `win i cfg _` -/
def winPost (s : PSys) (i : Nat) (cfg : Cfg) : PSys :=
  { s with nodes := upd s.nodes i { s.nodes i with role := 2 },
           llog := updT s.llog (s.nodes i).term (s.nodes i).log,
           elog := updT s.elog (s.nodes i).term (s.nodes i).log,
           elected := ((s.nodes i).term, i) :: s.elected,
           ecfgs := ((s.nodes i).term, cfg) :: s.ecfgs }

/-- the state after `commitLeader i c cfg _` -/
def commitPost (s : PSys) (i c : Nat) (cfg : Cfg) : PSys :=
  { s with nodes := upd s.nodes i { s.nodes i with commit := c },
           cmts := ((s.nodes i).term, c) :: s.cmts,
           ccfgs := (((s.nodes i).term, c), cfg) :: s.ccfgs }

/-- **`win` succeeds iff the local part and the cross-history part of its guard hold** -/
theorem win_split (s : PSys) (i : Nat) (cfg : Cfg) (q : List Nat) :
    (∀ s', applyEvent s (.win i cfg q) = .ok s' ↔
      (winCore s i cfg q = true ∧ winAdj s i cfg = true ∧ s' = winPost s i cfg)) := by
  intro s'
  simp only [applyEvent, ok, winCore, winAdj, winPost, Bool.and_eq_true, decide_eq_true_eq]
  constructor
  · intro h
    split at h
    · rename_i hg
      injection h with h
      obtain ⟨h1, h2, h3, h4, h5, h6, h7, h8, h9, h10⟩ := hg
      exact ⟨⟨⟨⟨⟨⟨⟨h1, h2⟩, h3⟩, h4⟩, h5⟩, h6⟩, h7⟩, ⟨⟨h8, h9⟩, h10⟩, h.symm⟩
    · cases h
  · rintro ⟨⟨⟨⟨⟨⟨⟨h1, h2⟩, h3⟩, h4⟩, h5⟩, h6⟩, h7⟩, ⟨⟨h8, h9⟩, h10⟩, h⟩
    rw [if_pos ⟨h1, h2, h3, h4, h5, h6, h7, h8, h9, h10⟩, h]

theorem win_ok_iff (s : PSys) (i : Nat) (cfg : Cfg) (q : List Nat) :
    (∃ s', applyEvent s (.win i cfg q) = .ok s') ↔ (winCore s i cfg q = true ∧ winAdj s i cfg = true) := by
  constructor
  · rintro ⟨s', h⟩
    have := (win_split s i cfg q s').1 h
    exact ⟨this.1, this.2.1⟩
  · rintro ⟨h1, h2⟩
    exact ⟨_, (win_split s i cfg q _).2 ⟨h1, h2, rfl⟩⟩

/-- **`commitLeader` succeeds iff the local part and the cross-history part of its guard hold** -/
theorem commit_split (s : PSys) (i c : Nat) (cfg : Cfg) (q : List Nat) :
    (∀ s', applyEvent s (.commitLeader i c cfg q) = .ok s' ↔
      (commitCore s i c cfg q = true ∧ commitAdj s i c cfg = true ∧ s' = commitPost s i c cfg)) := by
  intro s'
  simp only [applyEvent, ok, commitCore, commitAdj, commitPost, Bool.and_eq_true, decide_eq_true_eq]
  constructor
  · intro h
    split at h
    · rename_i hg
      injection h with h
      obtain ⟨h1, h2, h3, h4, h5, h6, h7, h8, h9⟩ := hg
      exact ⟨⟨⟨⟨⟨⟨⟨h1, h2⟩, h3⟩, h4⟩, h5⟩, h6⟩, h7⟩, ⟨h8, h9⟩, h.symm⟩
    · cases h
  · rintro ⟨⟨⟨⟨⟨⟨⟨h1, h2⟩, h3⟩, h4⟩, h5⟩, h6⟩, h7⟩, ⟨h8, h9⟩, h⟩
    rw [if_pos ⟨h1, h2, h3, h4, h5, h6, h7, h8, h9⟩, h]

theorem commit_ok_iff (s : PSys) (i c : Nat) (cfg : Cfg) (q : List Nat) :
    (∃ s', applyEvent s (.commitLeader i c cfg q) = .ok s') ↔
      (commitCore s i c cfg q = true ∧ commitAdj s i c cfg = true) := by
  constructor
  · rintro ⟨s', h⟩
    have := (commit_split s i c cfg q s').1 h
    exact ⟨this.1, this.2.1⟩
  · rintro ⟨h1, h2⟩
    exact ⟨_, (commit_split s i c cfg q _).2 ⟨h1, h2, rfl⟩⟩

/-! ### what the other events of P leave alone -/

theorem addReleased_cfgshape (s : PSys) (m : OMsg) :
    (addReleased s m).ecfgs = s.ecfgs ∧ (addReleased s m).ccfgs = s.ccfgs ∧ (addReleased s m).cmts = s.cmts ∧
    (addReleased s m).elog = s.elog ∧ (∀ a ∈ s.acks, a ∈ (addReleased s m).acks) := by
  cases m with
  | voteReq t c lt li => exact ⟨rfl, rfl, rfl, rfl, fun a h => h⟩
  | grant t v c gh => exact ⟨rfl, rfl, rfl, rfl, fun a h => h⟩
  | ack t f idx pre => exact ⟨rfl, rfl, rfl, rfl, fun a h => List.mem_cons_of_mem _ h⟩

/-- a read-index event changes only the read bookkeeping -/
theorem read_cfgshape (s s' : PSys) (r : REvent) (h : applyEvent s (.read r) = .ok s') :
    s'.ecfgs = s.ecfgs ∧ s'.ccfgs = s.ccfgs ∧ s'.cmts = s.cmts ∧ s'.elog = s.elog ∧
    (∀ a ∈ s.acks, a ∈ s'.acks) := by
  simp only [applyEvent, ok] at h
  split at h
  · cases h; exact ⟨rfl, rfl, rfl, rfl, fun a h => h⟩
  · cases h

/-- an event of P other than `win` / `commitLeader` changes neither the configuration ghosts, nor
the leader commits, nor the election logs; released acknowledgements are never forgotten -/
theorem base_shape (s s' : PSys) (e : Event) (hw : isWinOrCommit e = false) (h : applyEvent s e = .ok s') :
    s'.ecfgs = s.ecfgs ∧ s'.ccfgs = s.ccfgs ∧ s'.cmts = s.cmts ∧ s'.elog = s.elog ∧
    (∀ a ∈ s.acks, a ∈ s'.acks) := by
  cases e with
  | read r => exact read_cfgshape s s' r h
  | win i cfg q => simp [isWinOrCommit] at hw
  | commitLeader i c cfg q => simp [isWinOrCommit] at hw
  | release i key =>
    simp only [applyEvent, ok] at h
    split at h
    · split at h
      · split at h
        · cases h; exact addReleased_cfgshape _ _
        · cases h
      · cases h
    · split at h
      · split at h
        · split at h
          · cases h; exact addReleased_cfgshape _ _
          · cases h
        · cases h
      · cases h
  | grant i c | persist i k | installSnap i t idx sterm | commitSnap i t idx sterm =>
    simp only [applyEvent, ok] at h
    split at h
    · split at h
      · cases h; exact ⟨rfl, rfl, rfl, rfl, fun a h => h⟩
      · cases h
    · cases h
  | bump i t | campaign i | rdy i | crash i | restart i | stepDown i | sendApp i m | recvApp i m
  | ackCommitted i | ackSelf i idx | leaderAppend i e | commitApp i c m | commitHB i c m
  | commitClaim i m | sendHB i to c | claim i idx | sendSnap i idx | bootstrap i donor idx =>
    simp only [applyEvent, ok] at h
    split at h
    · cases h; exact ⟨rfl, rfl, rfl, rfl, fun a h => h⟩
    · cases h

/-! ### every PC history is a P history -/

/-- a step of PC, seen from P: `base` is unchanged or has made an accepted step of P -/
theorem stepC_base {S S' : CSys} {e : CEvent} (h : applyEventC S e = .ok S') :
    S'.base = S.base ∨ ∃ e', applyEvent S.base e' = .ok S'.base := by
  cases e with
  | base e =>
    simp only [applyEventC] at h
    split at h
    · cases h
    · split at h
      · rename_i b hb; cases h; exact Or.inr ⟨e, hb⟩
      · cases h
  | cfgInit cfg =>
    simp only [applyEventC] at h
    split at h
    · cases h; exact Or.inl rfl
    · cases h
  | applyConf i idx cfg =>
    simp only [applyEventC] at h
    split at h
    · split at h
      · split at h
        · cases h; exact Or.inl rfl
        · cases h
      · split at h
        · split at h
          · cases h; exact Or.inl rfl
          · cases h
        · cases h
    · cases h
  | win i cfg q applied =>
    simp only [applyEventC] at h
    split at h
    · split at h
      · rename_i b hb; cases h; exact Or.inr ⟨_, hb⟩
      · cases h
    · cases h
  | commitLeader i c cfg q applied | resp i rid idx cfg applied | rstate j rid idx cfg applied =>
    simp only [applyEventC] at h
    split at h
    · split at h
      · rename_i b hb; cases h; exact Or.inr ⟨_, hb⟩
      · cases h
    · cases h

theorem reach_base {S : CSys} (h : ReachPC S) : Reach S.base := by
  induction h with
  | init => exact Reach.init
  | step e _ hs ih =>
    rcases stepC_base hs with h1 | ⟨e', h1⟩
    · rw [h1]; exact ih
    · exact Reach.step e' ih h1

/-! ### the invariant of the configuration ghosts -/

/-- number of membership-change entries in the prefix committed by the leader commit `p = (term, index)` -/
def ccOf (llog : Nat → List LEntry) (p : Nat × Nat) : Nat := confCount ((llog p.1).take p.2)

/-- **C2**: the committed prefix of every recorded leader commit holds at most one membership-change
entry beyond its version, and a version above 0 is backed by an *older* record (of a term not
beyond) whose committed prefix holds that many membership-change entries -/
def CvOk (llog : Nat → List LEntry) : List ((Nat × Nat) × Nat) → Prop
  | [] => True
  | x :: rest => CvOk llog rest ∧ ccOf llog x.1 ≤ x.2 + 1 ∧
      (x.2 = 0 ∨ ∃ p ∈ rest, p.1.1 ≤ x.1.1 ∧ x.2 ≤ ccOf llog p.1)

/-- the version records of the `n` oldest leader commits (`cvs` is consed in step with `cmts`) -/
def cvsAt (S : CSys) (n : Nat) : List ((Nat × Nat) × Nat) := S.cvs.drop (S.cvs.length - n)

structure InvCfg (S : CSys) : Prop where
  /-- **T0** consecutive versions are adjacent in both directions, every version meets itself -/
  t0a : ∀ (a : Nat) c1 c2, S.vtab[a]? = some c1 → S.vtab[a + 1]? = some c2 → adj2 c1 c2 = true
  t0s : ∀ (a : Nat) c, S.vtab[a]? = some c → adjOk c c = true
  /-- **E1** every election configuration is the configuration of a recorded version -/
  e1 : ∀ p ∈ S.base.ecfgs, ∃ m, (p.1, m) ∈ S.evs ∧ S.vtab[m]? = some p.2
  /-- **E2** the log a leader was elected with holds at most one membership-change entry beyond its
  version, and a version above 0 is backed by an earlier-term leader commit -/
  e2 : ∀ x ∈ S.evs, Elected S.base x.1 ∧ confCount (S.base.elog x.1) ≤ x.2 + 1 ∧
        (x.2 = 0 ∨ ∃ p ∈ S.base.cmts, p.1 < x.1 ∧ x.2 ≤ ccOf S.base.llog p)
  /-- **C1** the version records are in step with the leader commits -/
  c1m : S.cvs.map (·.1) = S.base.cmts
  c1 : ∀ pc ∈ S.base.ccfgs, ∃ j, (pc.1, j) ∈ S.cvs ∧ S.vtab[j]? = some pc.2
  /-- every version record is backed by a quorum (of the configuration of its version) of released
  acknowledgements -/
  cq : ∀ x ∈ S.cvs, ∃ cfg q, S.vtab[x.2]? = some cfg ∧ cfg.isQuorum q = true ∧
        ∀ v ∈ q, ∃ a ∈ S.base.acks, a.term = x.1.1 ∧ a.frm = v ∧ x.1.2 ≤ a.idx
  /-- **C2** -/
  c2 : CvOk S.base.llog S.cvs
  /-- **C3** the versions of one term are monotone in time and start at the election's version -/
  c3 : ∀ p ∈ S.cvs, ∀ e ∈ S.evs, e.1 = p.1.1 → e.2 ≤ p.2
  /-- the configuration of every leader commit that existed when a read request was issued is the
  configuration of the version of a record that existed then -/
  rc : ∀ r ∈ S.base.rd.issued, ∀ pc ∈ ccfgsAt S.base r.ncm, ∃ x, (pc.1, x) ∈ cvsAt S r.ncm ∧ S.vtab[x]? = some pc.2
  /-- every version record that existed when a read request was issued was backed, then, by a quorum
  (of the configuration of its version) of released acknowledgements -/
  rq : ∀ r ∈ S.base.rd.issued, ∀ x ∈ cvsAt S r.ncm, ∃ cfg q, S.vtab[x.2]? = some cfg ∧ cfg.isQuorum q = true ∧
        ∀ v ∈ q, ∃ a ∈ acksAt S.base r.nak, a.term = x.1.1 ∧ a.frm = v ∧ x.1.2 ≤ a.idx

/-- T0, consequence: versions at distance at most one have meeting quorums -/
theorem InvCfg.adj {S : CSys} (h : InvCfg S) {j m : Nat} {cj cm : Cfg} (hj : S.vtab[j]? = some cj)
    (hm : S.vtab[m]? = some cm) (h1 : j ≤ m + 1) (h2 : m ≤ j + 1) : adjOk cj cm = true := by
  by_cases e : j = m
  · subst e
    rw [hj] at hm; injection hm with hm; subst hm
    exact h.t0s j cj hj
  · by_cases e2 : j = m + 1
    · subst e2
      have := h.t0a m cm cj hm hj
      simp only [adj2, Bool.and_eq_true] at this
      exact this.2
    · have e3 : m = j + 1 := by omega
      subst e3
      have := h.t0a j cj cm hj hm
      simp only [adj2, Bool.and_eq_true] at this
      exact this.1

/-! ### consequences of C2 -/

theorem CvOk.mem {llog : Nat → List LEntry} : ∀ {l : List ((Nat × Nat) × Nat)}, CvOk llog l → ∀ x ∈ l,
    ccOf llog x.1 ≤ x.2 + 1 ∧ (x.2 = 0 ∨ ∃ p ∈ l, p.1.1 ≤ x.1.1 ∧ x.2 ≤ ccOf llog p.1)
  | [], _, x, hx => by cases hx
  | y :: rest, h, x, hx => by
    rcases List.mem_cons.1 hx with hx | hx
    · subst hx
      refine ⟨h.2.1, ?_⟩
      rcases h.2.2 with h0 | ⟨p, hp, h1, h2⟩
      · exact Or.inl h0
      · exact Or.inr ⟨p, List.mem_cons_of_mem _ hp, h1, h2⟩
    · obtain ⟨h1, h2⟩ := CvOk.mem h.1 x hx
      refine ⟨h1, ?_⟩
      rcases h2 with h0 | ⟨p, hp, h3, h4⟩
      · exact Or.inl h0
      · exact Or.inr ⟨p, List.mem_cons_of_mem _ hp, h3, h4⟩

/-- C2 only looks at the committed prefixes of the records -/
theorem CvOk.congr {llog llog' : Nat → List LEntry} : ∀ {l : List ((Nat × Nat) × Nat)},
    (∀ x ∈ l, ccOf llog' x.1 = ccOf llog x.1) → CvOk llog l → CvOk llog' l
  | [], _, _ => trivial
  | y :: rest, he, h => by
    have her : ∀ x ∈ rest, ccOf llog' x.1 = ccOf llog x.1 := fun x hx => he x (List.mem_cons_of_mem _ hx)
    refine ⟨CvOk.congr her h.1, ?_, ?_⟩
    · rw [he y List.mem_cons_self]; exact h.2.1
    · rcases h.2.2 with h0 | ⟨p, hp, h1, h2⟩
      · exact Or.inl h0
      · exact Or.inr ⟨p, hp, h1, by rw [her p hp]; exact h2⟩

/-- **minimal-record lemma**: among the records of a term below `te` whose committed prefix holds at
least `N ≥ 1` membership-change entries there is one of version exactly `N - 1` -/
theorem CvOk.minimal {llog : Nat → List LEntry} (te N : Nat) (hN : 1 ≤ N) :
    ∀ {l : List ((Nat × Nat) × Nat)}, CvOk llog l → ∀ r ∈ l, r.1.1 < te → N ≤ ccOf llog r.1 →
      ∃ r' ∈ l, r'.1.1 < te ∧ N ≤ ccOf llog r'.1 ∧ r'.2 + 1 = N
  | [], _, r, hr, _, _ => by cases hr
  | y :: rest, h, r, hr, ht, hn => by
    rcases List.mem_cons.1 hr with hr | hr
    · subst hr
      by_cases e : r.2 + 1 = N
      · exact ⟨r, List.mem_cons_self, ht, hn, e⟩
      · have h1 := h.2.1
        rcases h.2.2 with h0 | ⟨p, hp, h2, h3⟩
        · omega
        · obtain ⟨r', hr', a, b, c⟩ := CvOk.minimal te N hN h.1 p hp (by omega) (by omega)
          exact ⟨r', List.mem_cons_of_mem _ hr', a, b, c⟩
    · obtain ⟨r', hr', a, b, c⟩ := CvOk.minimal te N hN h.1 r hr ht hn
      exact ⟨r', List.mem_cons_of_mem _ hr', a, b, c⟩

/-- a suffix (the older records) of a `CvOk` list is `CvOk` -/
theorem CvOk.drop {llog : Nat → List LEntry} : ∀ {l : List ((Nat × Nat) × Nat)} (d : Nat), CvOk llog l →
    CvOk llog (l.drop d)
  | [], d, _ => by simp [CvOk]
  | y :: rest, 0, h => h
  | y :: rest, d + 1, h => by
    rw [List.drop_succ_cons]; exact CvOk.drop d h.1

theorem cvsAt_sub {S : CSys} {n : Nat} {x : (Nat × Nat) × Nat} (h : x ∈ cvsAt S n) : x ∈ S.cvs := by
  unfold cvsAt at h; exact List.mem_of_mem_drop h

/-- the issued read requests: unchanged, or one new record carrying the current numbers of leader
commits and released acknowledgements -/
theorem issued_shape (s s' : PSys) (e : Event) (h : applyEvent s e = .ok s') :
    s'.rd.issued = s.rd.issued ∨
    ∃ rid i, s'.rd.issued = ⟨rid, i, s.cmts.length, s.acks.length⟩ :: s.rd.issued := by
  by_cases hr : e.isRead = true
  · cases e with
    | read r =>
      obtain ⟨rd, hrd, hs'⟩ := read_apply h
      subst hs'
      cases r with
      | issue i rid =>
        simp only [applyRead] at hrd
        split at hrd
        · injection hrd with hrd; subst hrd; exact Or.inr ⟨rid, i, rfl⟩
        · cases hrd
      | start i rid =>
        simp only [applyRead] at hrd
        split at hrd
        · injection hrd with hrd; subst hrd; exact Or.inl rfl
        · cases hrd
      | hback v =>
        simp only [applyRead] at hrd
        split at hrd
        · injection hrd with hrd; subst hrd; exact Or.inl rfl
        · cases hrd
      | resp i rid idx cfg =>
        simp only [applyRead] at hrd
        split at hrd
        · split at hrd
          · injection hrd with hrd; subst hrd; exact Or.inl rfl
          · cases hrd
        · cases hrd
      | rstate j rid idx cfg =>
        simp only [applyRead] at hrd
        split at hrd
        · split at hrd
          · injection hrd with hrd; subst hrd; exact Or.inl rfl
          · cases hrd
        · cases hrd
    | _ => simp [Event.isRead] at hr
  · rw [(step_shape s s' e h).1 (by simpa using hr)]
    exact Or.inl rfl

end RaftModel.P
