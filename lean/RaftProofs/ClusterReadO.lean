import RaftProofs.ClusterReadN

/-!
Cluster-level ReadIndex safety, part O: **the counterexample** (kernel-evaluated) to Safe-ReadIndex
linearizability when forwarded `MsgReadIndex` messages are allowed in the transport — every hypothesis of
the read layer but `nori` holds.

The history of `C01_cluster_nonvacuous` (voters 1, 2, 3; node 1 leads term 1 and has committed index 1)
continued by 28 steps: follower 2 calls `read_index([9])`, the forwarded `MsgReadIndex` reaches node 1, which
registers `[9]`, sends heartbeats with the context, receives node 2's `MsgHeartbeatResponse([9], term 1)`
and answers (a `MsgReadIndexResp` stays in its queue: node 1 never sends again); node 3 appends node 1's
first entry, is elected for term 2 by node 2 and commits index 2 with node 2's acknowledgement;
`read_index([7])` is called on node 1 — still leader of term 1 in its own eyes —, which registers `[7]`
with read index 1; the transport delivers the old `MsgReadIndex([9])` again (registered again, behind
`[7]`) and the old `MsgHeartbeatResponse([9], term 1)` again: `advance([9])` releases `[7]` and node 1
hands out the read state `([7], 1)` although node 3 had commit index 2 when `[7]` was issued.
-/
namespace RaftModel
namespace Cluster
open Node Raft Raft.CC Raft.RD RaftProps.C02 RaftProps.C05

def c08y_K : Bytes := [9]
def c08y_ctx : Bytes := [7]

def c08y_b7 := c02x_st (Node.call c01x_b6 none (.readIndex c08y_K))
/-- the forwarded `MsgReadIndex([9])` of node 2 -/
def c08y_fwd := c08y_b7.raft.msgs.head!
def c08y_b8 := c02x_st (Node.call c08y_b7 none .drain)
def c08y_a9 := c02x_st (Node.call c01x_a8 none (.step c08y_fwd))
/-- the heartbeat for node 2 that carries `[9]` -/
def c08y_hb := (c08y_a9.raft.msgs.filter (fun x => x.msgType == .msgHeartbeat && x.to == 2)).head!
def c08y_a10 := c02x_st (Node.call c08y_a9 none .drain)
def c08y_b9 := c02x_st (Node.call c08y_b8 none (.step c08y_hb))
/-- node 2's heartbeat response for `[9]`, term 1 -/
def c08y_hbr := c08y_b9.raft.msgs.head!
def c08y_b10 := c02x_st (Node.call c08y_b9 none .drain)
def c08y_a11 := c02x_st (Node.call c08y_a10 none (.step c08y_hbr))
/-- node 1's first `MsgAppend` for node 3 -/
def c08y_app3 := (c01x_s14.net.filter (fun x => x.msgType == .msgAppend && x.to == 3)).head!
def c08y_c1 := c02x_st (Node.call (c02x_boot 3) none (.step c08y_app3))
def c08y_c2 := c02x_st (Node.call c08y_c1 none .stabilize)
def c08y_c3 := c02x_st (Node.call c08y_c2 none (.onPersistEntries 1 1))
def c08y_c4 := c02x_st (Node.call c08y_c3 none .drain)
def c08y_c5 := c02x_st (Node.call c08y_c4 none .campaign)
def c08y_c6 := c02x_st (Node.call c08y_c5 none .stabilize)
/-- node 3's vote request for node 2, term 2 -/
def c08y_rv := (c08y_c6.raft.msgs.filter (fun x => x.msgType == .msgRequestVote && x.to == 2)).head!
def c08y_c7 := c02x_st (Node.call c08y_c6 none .drain)
def c08y_b11 := c02x_st (Node.call c08y_b10 none (.step c08y_rv))
def c08y_b12 := c02x_st (Node.call c08y_b11 none .stabilize)
/-- node 2's granted vote -/
def c08y_rvr := c08y_b12.raft.msgs.head!
def c08y_b13 := c02x_st (Node.call c08y_b12 none .drain)
def c08y_c8 := c02x_st (Node.call c08y_c7 none (.step c08y_rvr))
def c08y_c9 := c02x_st (Node.call c08y_c8 none .stabilize)
/-- node 3's `MsgAppend` for node 2 with its entry of term 2 -/
def c08y_app2 := (c08y_c9.raft.msgs.filter (fun x => x.msgType == .msgAppend && x.to == 2)).head!
def c08y_c10 := c02x_st (Node.call c08y_c9 none .drain)
def c08y_c11 := c02x_st (Node.call c08y_c10 none (.onPersistEntries 2 2))
def c08y_b14 := c02x_st (Node.call c08y_b13 none (.step c08y_app2))
def c08y_b15 := c02x_st (Node.call c08y_b14 none .stabilize)
/-- node 2's acknowledgement of index 2 -/
def c08y_ack := c08y_b15.raft.msgs.head!
def c08y_b16 := c02x_st (Node.call c08y_b15 none .drain)
def c08y_c12 := c02x_st (Node.call c08y_c11 none (.step c08y_ack))
def c08y_a12 := c02x_st (Node.call c08y_a11 none (.readIndex c08y_ctx))
def c08y_a13 := c02x_st (Node.call c08y_a12 none (.step c08y_fwd))
def c08y_a14 := c02x_st (Node.call c08y_a13 none (.step c08y_hbr))

def c08y_s15 : Sys := c01x_s14.setNode 2 c08y_b7
def c08y_s16 : Sys :=
  { (c08y_s15.setNode 2 c08y_b8) with net := c08y_s15.net ++ c08y_b7.raft.msgs }
def c08y_s17 : Sys := c08y_s16.setNode 1 c08y_a9
def c08y_s18 : Sys :=
  { (c08y_s17.setNode 1 c08y_a10) with net := c08y_s17.net ++ c08y_a9.raft.msgs }
def c08y_s19 : Sys := c08y_s18.setNode 2 c08y_b9
def c08y_s20 : Sys :=
  { (c08y_s19.setNode 2 c08y_b10) with net := c08y_s19.net ++ c08y_b9.raft.msgs }
def c08y_s21 : Sys := c08y_s20.setNode 1 c08y_a11
def c08y_s22 : Sys := c08y_s21.setNode 3 c08y_c1
def c08y_s23 : Sys := c08y_s22.setNode 3 c08y_c2
def c08y_s24 : Sys := c08y_s23.setNode 3 c08y_c3
def c08y_s25 : Sys :=
  { (c08y_s24.setNode 3 c08y_c4) with net := c08y_s24.net ++ c08y_c3.raft.msgs }
def c08y_s26 : Sys := c08y_s25.setNode 3 c08y_c5
def c08y_s27 : Sys := c08y_s26.setNode 3 c08y_c6
def c08y_s28 : Sys :=
  { (c08y_s27.setNode 3 c08y_c7) with net := c08y_s27.net ++ c08y_c6.raft.msgs }
def c08y_s29 : Sys := c08y_s28.setNode 2 c08y_b11
def c08y_s30 : Sys := c08y_s29.setNode 2 c08y_b12
def c08y_s31 : Sys :=
  { (c08y_s30.setNode 2 c08y_b13) with net := c08y_s30.net ++ c08y_b12.raft.msgs }
def c08y_s32 : Sys := c08y_s31.setNode 3 c08y_c8
def c08y_s33 : Sys := c08y_s32.setNode 3 c08y_c9
def c08y_s34 : Sys :=
  { (c08y_s33.setNode 3 c08y_c10) with net := c08y_s33.net ++ c08y_c9.raft.msgs }
def c08y_s35 : Sys := c08y_s34.setNode 3 c08y_c11
def c08y_s36 : Sys := c08y_s35.setNode 2 c08y_b14
def c08y_s37 : Sys := c08y_s36.setNode 2 c08y_b15
def c08y_s38 : Sys :=
  { (c08y_s37.setNode 2 c08y_b16) with net := c08y_s37.net ++ c08y_b15.raft.msgs }
def c08y_s39 : Sys := c08y_s38.setNode 3 c08y_c12
def c08y_s40 : Sys := c08y_s39.setNode 1 c08y_a12
def c08y_s41 : Sys := c08y_s40.setNode 1 c08y_a13
def c08y_s42 : Sys := c08y_s41.setNode 1 c08y_a14

def c08y_hist : List Sys :=
  c01x_hist ++ [c08y_s15, c08y_s16, c08y_s17, c08y_s18, c08y_s19, c08y_s20, c08y_s21, c08y_s22, c08y_s23, c08y_s24, c08y_s25, c08y_s26, c08y_s27, c08y_s28, c08y_s29, c08y_s30, c08y_s31, c08y_s32, c08y_s33, c08y_s34, c08y_s35, c08y_s36, c08y_s37, c08y_s38, c08y_s39, c08y_s40, c08y_s41, c08y_s42]

set_option maxRecDepth 100000 in
theorem c08y_ksteps : Chained KStep c08y_hist := by
  refine ⟨?_, ?_, ?_, ?_, ?_, ?_, ?_, ?_, ?_, ?_, ?_, ?_, ?_, ?_, ?_, ?_, ?_, ?_, ?_, ?_, ?_, ?_, ?_, ?_, ?_, ?_, ?_, ?_, ?_, ?_, ?_, ?_, ?_, ?_, ?_, ?_, ?_, ?_, ?_, ?_, ?_, ?_, trivial⟩
  · exact KStep.call _ 1 (c02x_boot 1) c02x_a1 none .campaign _ rfl rfl
      (fun k hc => by cases hc) (fun k hc => by cases hc) (c02x_out _ (by decide))
  · exact KStep.call _ 1 c02x_a1 c02x_a2 none .stabilize _ rfl rfl
      (fun k hc => by cases hc) (fun k hc => by cases hc) (c02x_out _ (by decide))
  · exact KStep.send _ 1 c02x_a2 c02x_a3 rfl ⟨by decide, by decide⟩
      (fun _ => ⟨by decide, rfl⟩) rfl
  · exact KStep.deliver _ 2 (c02x_boot 2) c02x_b1 none c02x_req _ rfl
      (c02x_head_mem _ (by decide)) (by decide) (c02x_out _ (by decide))
  · exact KStep.call _ 2 c02x_b1 c02x_b2 none .stabilize _ rfl rfl
      (fun k hc => by cases hc) (fun k hc => by cases hc) (c02x_out _ (by decide))
  · exact KStep.send _ 2 c02x_b2 c02x_b3 rfl ⟨by decide, by decide⟩
      (fun _ => ⟨by decide, rfl⟩) rfl
  · exact KStep.deliver _ 1 c02x_a3 c02x_a4 none c02x_resp _ rfl
      (List.mem_append_right _ (c02x_head_mem _ (by decide))) (by decide) (c02x_out _ (by decide))
  · exact KStep.call _ 1 c02x_a4 c05x_a5 none .stabilize _ rfl rfl
      (fun k hc => by cases hc) (fun k hc => by cases hc) (c02x_out _ (by decide))
  · exact KStep.send _ 1 c05x_a5 c05x_a6 rfl ⟨by decide, by decide⟩
      (fun _ => ⟨by decide, rfl⟩) rfl
  · exact KStep.deliver _ 2 c02x_b3 c05x_b4 none c05x_app _ rfl
      (List.mem_append_right _ (c02x_head_mem _ (by decide))) (by decide) (c02x_out _ (by decide))
  · exact KStep.call _ 1 c05x_a6 c01x_a7 none (.onPersistEntries 1 1) _ rfl rfl
      (fun k hc => by cases hc) (fun k hc => by cases hc) (c02x_out _ (by decide))
  · exact KStep.call _ 2 c05x_b4 c01x_b5 none .stabilize _ rfl rfl
      (fun k hc => by cases hc) (fun k hc => by cases hc) (c02x_out _ (by decide))
  · exact KStep.send _ 2 c01x_b5 c01x_b6 rfl ⟨by decide, by decide⟩
      (fun _ => ⟨by decide, rfl⟩) rfl
  · exact KStep.deliver _ 1 c01x_a7 c01x_a8 none c01x_ack _ rfl
      (List.mem_append_right _ (c02x_head_mem _ (by decide))) (by decide) (c02x_out _ (by decide))
  · exact KStep.call _ 2 c01x_b6 c08y_b7 none (.readIndex c08y_K) _ rfl rfl
      (fun k hc => by cases hc) (fun k hc => by cases hc) (c02x_out _ (by decide))
  · exact KStep.send _ 2 c08y_b7 c08y_b8 rfl ⟨by decide, by decide⟩
      (fun _ => ⟨by decide, rfl⟩) rfl
  · exact KStep.deliver _ 1 c01x_a8 c08y_a9 none c08y_fwd _ rfl
      (by decide) (by decide) (c02x_out _ (by decide))
  · exact KStep.send _ 1 c08y_a9 c08y_a10 rfl ⟨by decide, by decide⟩
      (fun hc => absurd (by decide) hc) rfl
  · exact KStep.deliver _ 2 c08y_b8 c08y_b9 none c08y_hb _ rfl
      (by decide) (by decide) (c02x_out _ (by decide))
  · exact KStep.send _ 2 c08y_b9 c08y_b10 rfl ⟨by decide, by decide⟩
      (fun _ => ⟨by decide, rfl⟩) rfl
  · exact KStep.deliver _ 1 c08y_a10 c08y_a11 none c08y_hbr _ rfl
      (by decide) (by decide) (c02x_out _ (by decide))
  · exact KStep.deliver _ 3 (c02x_boot 3) c08y_c1 none c08y_app3 _ rfl
      (by decide) (by decide) (c02x_out _ (by decide))
  · exact KStep.call _ 3 c08y_c1 c08y_c2 none .stabilize _ rfl rfl
      (fun k hc => by cases hc) (fun k hc => by cases hc) (c02x_out _ (by decide))
  · exact KStep.call _ 3 c08y_c2 c08y_c3 none (.onPersistEntries 1 1) _ rfl rfl
      (fun k hc => by cases hc) (fun k hc => by cases hc) (c02x_out _ (by decide))
  · exact KStep.send _ 3 c08y_c3 c08y_c4 rfl ⟨by decide, by decide⟩
      (fun _ => ⟨by decide, rfl⟩) rfl
  · exact KStep.call _ 3 c08y_c4 c08y_c5 none .campaign _ rfl rfl
      (fun k hc => by cases hc) (fun k hc => by cases hc) (c02x_out _ (by decide))
  · exact KStep.call _ 3 c08y_c5 c08y_c6 none .stabilize _ rfl rfl
      (fun k hc => by cases hc) (fun k hc => by cases hc) (c02x_out _ (by decide))
  · exact KStep.send _ 3 c08y_c6 c08y_c7 rfl ⟨by decide, by decide⟩
      (fun _ => ⟨by decide, rfl⟩) rfl
  · exact KStep.deliver _ 2 c08y_b10 c08y_b11 none c08y_rv _ rfl
      (by decide) (by decide) (c02x_out _ (by decide))
  · exact KStep.call _ 2 c08y_b11 c08y_b12 none .stabilize _ rfl rfl
      (fun k hc => by cases hc) (fun k hc => by cases hc) (c02x_out _ (by decide))
  · exact KStep.send _ 2 c08y_b12 c08y_b13 rfl ⟨by decide, by decide⟩
      (fun _ => ⟨by decide, rfl⟩) rfl
  · exact KStep.deliver _ 3 c08y_c7 c08y_c8 none c08y_rvr _ rfl
      (by decide) (by decide) (c02x_out _ (by decide))
  · exact KStep.call _ 3 c08y_c8 c08y_c9 none .stabilize _ rfl rfl
      (fun k hc => by cases hc) (fun k hc => by cases hc) (c02x_out _ (by decide))
  · exact KStep.send _ 3 c08y_c9 c08y_c10 rfl ⟨by decide, by decide⟩
      (fun hc => absurd (by decide) hc) rfl
  · exact KStep.call _ 3 c08y_c10 c08y_c11 none (.onPersistEntries 2 2) _ rfl rfl
      (fun k hc => by cases hc) (fun k hc => by cases hc) (c02x_out _ (by decide))
  · exact KStep.deliver _ 2 c08y_b13 c08y_b14 none c08y_app2 _ rfl
      (by decide) (by decide) (c02x_out _ (by decide))
  · exact KStep.call _ 2 c08y_b14 c08y_b15 none .stabilize _ rfl rfl
      (fun k hc => by cases hc) (fun k hc => by cases hc) (c02x_out _ (by decide))
  · exact KStep.send _ 2 c08y_b15 c08y_b16 rfl ⟨by decide, by decide⟩
      (fun _ => ⟨by decide, rfl⟩) rfl
  · exact KStep.deliver _ 3 c08y_c11 c08y_c12 none c08y_ack _ rfl
      (by decide) (by decide) (c02x_out _ (by decide))
  · exact KStep.call _ 1 c08y_a11 c08y_a12 none (.readIndex c08y_ctx) _ rfl rfl
      (fun k hc => by cases hc) (fun k hc => by cases hc) (c02x_out _ (by decide))
  · exact KStep.deliver _ 1 c08y_a12 c08y_a13 none c08y_fwd _ rfl
      (by decide) (by decide) (c02x_out _ (by decide))
  · exact KStep.deliver _ 1 c08y_a13 c08y_a14 none c08y_hbr _ rfl
      (by decide) (by decide) (c02x_out _ (by decide))

theorem c08y_history : History c08y_hist := by
  have := chained_history [] c02x_s0 (History.init _ c02x_init) _
    (Chained.mono (fun _ _ hc => hc.step) _ c08y_ksteps)
  simpa [c08y_hist, c01x_hist, c05x_hist, c02x_hist] using this

/-- the state-wise hypotheses: those of the commit layer and `Safe` (NOT: no `MsgReadIndex` in the
transport) -/
def c08y_chk (s : Sys) : Bool :=
  c01x_chk s && s.nodes.all (fun p => decide (p.2.raft.readOnly.option = .safe))

set_option maxRecDepth 100000 in
theorem c08y_chk_all : ∀ s ∈ c08y_hist, c08y_chk s = true := by
  intro s hs
  simp only [c08y_hist, c01x_hist, c05x_hist, c02x_hist, List.cons_append, List.nil_append,
    List.mem_cons, List.not_mem_nil, or_false] at hs
  rcases hs with rfl | rfl | rfl | rfl | rfl | rfl | rfl | rfl | rfl | rfl | rfl | rfl | rfl | rfl | rfl | rfl | rfl | rfl | rfl | rfl | rfl | rfl | rfl | rfl | rfl | rfl | rfl | rfl | rfl | rfl | rfl | rfl | rfl | rfl | rfl | rfl | rfl | rfl | rfl | rfl | rfl | rfl | rfl <;> decide

theorem c08y_chk_ok (s : Sys) (h : c08y_chk s = true) :
    c01x_chk s = true ∧ (∀ i st, s.node i = some st → st.raft.readOnly.option = .safe) := by
  unfold c08y_chk at h
  simp only [Bool.and_eq_true] at h
  obtain ⟨h1, h2⟩ := h
  refine ⟨h1, fun i st hi => ?_⟩
  rw [List.all_eq_true] at h2
  exact of_decide_eq_true (h2 _ (c02_lookup_mem s.nodes i st hi))

set_option maxRecDepth 100000 in
/-- the history satisfies every hypothesis of the commit layer -/
theorem c08y_hyp3 : Hyp3 c02x_cfg 0 c08y_hist := by
  have h0 : c08y_hist[0]? = some c02x_s0 := rfl
  have hall := fun s hs => c01x_chk_ok s (c08y_chk_ok s (c08y_chk_all s hs)).1
  have hnode : ∀ s ∈ c08y_hist, ∀ i st, s.node i = some st →
      st.raft.raftLog.unstable.snapshot = none ∧ st.raft.raftLog.store.firstIndex = 1 ∧
      (st.raft.raftLog.abs.snapTerm = some 0 ∨ st.raft.raftLog.abs.snapTerm = none) := by
    intro s hs i st hi
    have := (hall s hs).2.2.2 i st hi
    unfold c01x_nodeOk at this
    simp only [Bool.and_eq_true, Bool.or_eq_true, decide_eq_true_eq, Option.isNone_iff_eq_none] at this
    exact ⟨this.1.1, this.1.2, this.2⟩
  refine ⟨⟨⟨⟨c08y_history, fun s hs => (hall s hs).1, by decide, by decide, by decide, ?_,
    chained_at _ c08y_ksteps, fun s hs => (hall s hs).2.1, fun s hs x hx => ((hall s hs).2.2.1 x hx).1⟩,
    c01x_nolone, fun s hs i st hi => ⟨(hnode s hs i st hi).1, (hnode s hs i st hi).2.1⟩, ?_⟩,
    fun s hs x hx => ((hall s hs).2.2.1 x hx).2.1⟩,
    fun s hs x hx => ((hall s hs).2.2.1 x hx).2.2, ?_⟩
  · intro s hs
    rw [h0] at hs; cases hs
    exact c05x_initOk
  · intro s hs i st hi
    rw [h0] at hs; cases hs
    have hm := c02_lookup_mem _ i st hi
    simp only [c02x_s0, List.mem_cons, Prod.mk.injEq, List.not_mem_nil, or_false] at hm
    rcases hm with ⟨rfl, rfl⟩ | ⟨rfl, rfl⟩ | ⟨rfl, rfl⟩ <;> decide
  · intro s hs i st hi t0 ht0 j st0 _
    rcases (hnode s (mem_of_get hs) i st hi).2.2 with c | c
    · rw [c] at ht0; cases ht0; exact Nat.zero_le _
    · rw [c] at ht0; cases ht0

/-! ### the registrations of the history -/

/-- a registering `read_index(K)` call files the request under `K` with `req.from = 0` -/
theorem regAt_new {cfg : JointConfig} {c0 : Nat} {h : List Sys} (H : Hyp2w cfg c0 h)
    (safe : ∀ s ∈ h, ∀ i st, s.node i = some st → st.raft.readOnly.option = .safe)
    {n i : Nat} {K : Bytes} (hr : RegAt h n i K) :
    ∃ a b st st', h[n]? = some a ∧ h[n + 1]? = some b ∧ a.node i = some st ∧
      b.node i = some st' ∧ (∀ rs, (K, rs) ∉ st.raft.readOnly.pendingReadIndex) ∧
      ∃ rs, (K, rs) ∈ st'.raft.readOnly.pendingReadIndex ∧ rs.req.frm = 0 := by
  obtain ⟨a, b, st, st', rnd, res, h1, h2, h3, h4, h5, h6, rs, h7⟩ := hr
  refine ⟨a, b, st, st', h1, h2, h3, by rw [h5]; exact node_setNode_self a i st', h6, ?_⟩
  unfold Node.call at h4
  simp only [applyOp] at h4
  obtain ⟨raft, hx, hre⟩ := CV.okRes_ok h4
  rw [hre] at h7 ⊢
  cases riOut_rebase (readIndex_cases hx) with
  | frame hf =>
    rw [hf.ro] at h7
    exact absurd h7 (h6 rs)
  | now hs =>
    exfalso
    rcases hs with c | c
    · rw [not_singleton H (mem_of_get h1) h3] at c; cases c
    · exact c (safe a (mem_of_get h1) i st h3)
  | reg hl hc ro hadd hcore hmsgs =>
    have e1 : raft.readOnly = ro := congrArg RCore.ro hcore
    rw [e1] at h7 ⊢
    rcases addRequest_spec hadd with ⟨q1, _⟩ | ⟨_, _, q3, _⟩
    · rw [q1] at h7; exact absurd h7 (h6 rs)
    · rw [q3]
      exact ⟨_, List.mem_append_right _ (List.mem_singleton.2 rfl), rfl⟩

/-- every context pending at a node of `b` was pending at that node in `a`, or its request came from
another node -/
def c08y_noReg (a b : Sys) : Bool :=
  b.nodes.all (fun p => p.2.raft.readOnly.pendingReadIndex.all (fun q =>
    (match a.nodes.lookup p.1 with
    | some st => st.raft.readOnly.pendingReadIndex.any (fun q' => q'.1 == q.1)
    | none => true) || q.2.req.frm != 0))

theorem c08y_noReg_ok {a b : Sys} (h : c08y_noReg a b = true) {i : Nat} {st st' : NState}
    {K : Bytes} (ha : a.node i = some st) (hb : b.node i = some st')
    (hnot : ∀ rs, (K, rs) ∉ st.raft.readOnly.pendingReadIndex)
    (hin : ∃ rs, (K, rs) ∈ st'.raft.readOnly.pendingReadIndex ∧ rs.req.frm = 0) : False := by
  obtain ⟨rs, hrs, hfrm⟩ := hin
  unfold c08y_noReg at h
  rw [List.all_eq_true] at h
  have h1 := h _ (c02_lookup_mem b.nodes i st' hb)
  rw [List.all_eq_true] at h1
  have h2 := h1 _ hrs
  have ha' : a.nodes.lookup i = some st := ha
  simp only [ha', Bool.or_eq_true, bne_iff_ne, ne_eq] at h2
  rcases h2 with h2 | h2
  · rw [List.any_eq_true] at h2
    obtain ⟨q', hq', he⟩ := h2
    have : q'.1 = K := by simpa using he
    exact hnot q'.2 (by rw [← this]; exact hq')
  · exact h2 hfrm

/-- all consecutive pairs but the one at position 39 (counted from `k`) register nothing -/
def c08y_pairs : Nat → List Sys → Bool
  | k, a :: b :: t => (k == 39 || c08y_noReg a b) && c08y_pairs (k + 1) (b :: t)
  | _, _ => true

theorem c08y_pairs_at : ∀ (l : List Sys) (k : Nat), c08y_pairs k l = true →
    ∀ (n : Nat) (a b : Sys), l[n]? = some a → l[n + 1]? = some b → k + n ≠ 39 →
      c08y_noReg a b = true := by
  intro l
  induction l with
  | nil => intro k _ n a b ha; simp at ha
  | cons x t ih =>
    intro k hk n a b ha hb hne
    cases t with
    | nil =>
      cases n with
      | zero => simp at hb
      | succ n => simp at ha
    | cons y t' =>
      simp only [c08y_pairs, Bool.and_eq_true, Bool.or_eq_true, beq_iff_eq] at hk
      cases n with
      | zero =>
        simp at ha hb
        subst ha; subst hb
        rcases hk.1 with c | c
        · omega
        · exact c
      | succ n =>
        exact ih (k + 1) hk.2 n a b (by simpa using ha) (by simpa using hb) (by omega)

set_option maxRecDepth 100000 in
theorem c08y_pairs_ok : c08y_pairs 0 c08y_hist = true := by decide

/-- every pending context of `s` is `c08y_ctx` -/
def c08y_keys (s : Sys) : Bool :=
  s.nodes.all (fun p => p.2.raft.readOnly.pendingReadIndex.all (fun q => q.1 == c08y_ctx))

set_option maxRecDepth 100000 in
theorem c08y_keys40 : c08y_keys c08y_s40 = true := by decide

theorem c08y_safe : ∀ s ∈ c08y_hist, ∀ i st, s.node i = some st →
    st.raft.readOnly.option = .safe :=
  fun s hs => (c08y_chk_ok s (c08y_chk_all s hs)).2

/-- the only registering `read_index` call of the history: `read_index([7])` at step 39 -/
theorem c08y_reg_only {n i : Nat} {K : Bytes} (h : RegAt c08y_hist n i K) :
    n = 39 ∧ K = c08y_ctx := by
  obtain ⟨a, b, st, st', h1, h2, h3, hb', h6, rs, h7, h8⟩ :=
    regAt_new c08y_hyp3.toHyp2.toHyp2w c08y_safe h
  by_cases hn : n = 39
  · refine ⟨hn, ?_⟩
    subst hn
    have e : c08y_hist[39 + 1]? = some c08y_s40 := rfl
    rw [e] at h2; cases h2
    have hk := c08y_keys40
    unfold c08y_keys at hk
    rw [List.all_eq_true] at hk
    have h1' := hk _ (c02_lookup_mem _ i st' hb')
    rw [List.all_eq_true] at h1'
    simpa using h1' _ h7
  · exact (c08y_noReg_ok (c08y_pairs_at _ 0 c08y_pairs_ok n a b h1 h2 (by omega)) h3 hb' h6
      ⟨rs, h7, h8⟩).elim

set_option maxRecDepth 100000 in
/-- the `read_index([7])` call of step 39 on node 1 registers the request -/
theorem c08y_regAt : RegAt c08y_hist 39 1 c08y_ctx := by
  refine ⟨c08y_s39, c08y_s40, c08y_a11, c08y_a12, none, _, rfl, rfl, rfl,
    c02x_out _ (by decide), rfl, ?_, ⟨_, List.mem_singleton.2 rfl⟩⟩
  intro rs hrs
  have : c08y_a11.raft.readOnly.pendingReadIndex = [] := by decide
  rw [this] at hrs
  cases hrs

end Cluster
end RaftModel
