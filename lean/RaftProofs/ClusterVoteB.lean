import RaftProofs.ClusterVoteA

/-!
Cluster-level election safety, helper lemmas part B: `VF` frame lemmas of the leader-side and
follower-side handlers and of the entry points that never touch term / vote / role / vote record.
-/
namespace RaftModel
namespace Raft
namespace CV

/-! ### leader-side handlers -/

theorem checkQuorumActive_vf (r : Raft) : VF r r.checkQuorumActive.1 := by
  simp [VF, ncore, checkQuorumActive, ProgressTracker.quorumRecentlyActive]

theorem filterProposalEntry_vf (r : Raft) (i : Nat) (e : Entry) :
    ∀ x, r.filterProposalEntry i e = some x → VF r x.1 := by
  intro x h
  unfold filterProposalEntry at h
  dsimp only at h
  split at h
  · cases h
  · cases h; exact VF.refl _
  · split at h <;> (try split at h) <;> cases h <;> simp [VF, ncore]

theorem filterProposal_vf : ∀ (es : List Entry) (r : Raft) (i : Nat),
    VF r (r.filterProposal i es).1 := by
  intro es
  induction es with
  | nil => intro r i; exact VF.refl _
  | cons e rest ih =>
    intro r i
    unfold filterProposal
    split
    · exact VF.refl _
    · rename_i r1 e' heq
      have h1 : VF r r1 := filterProposalEntry_vf r i e _ heq
      have h2 := ih r1 (i + 1)
      split
      · rename_i r2 es' heq2
        rw [heq2] at h2; exact h1.trans h2
      · rename_i r2 heq2
        rw [heq2] at h2; exact h1.trans h2

theorem handleHeartbeatResponse_vf (r : Raft) (m : Message) :
    Res.Post (fun x => VF r x) (r.handleHeartbeatResponse m) := by
  unfold handleHeartbeatResponse
  split
  · exact VF.refl _
  · dsimp only
    apply Res.post_bind (P := fun _ => True)
    · split
      · split <;> trivial
      · trivial
    · intro pr1 _
      apply Res.post_bind (P := fun x => VF r x)
      · split
        · exact Res.post_bind (sendAppendPr_vf r m.frm pr1) (fun a ha => by
            simp only [Res.Post]; exact VF.trans ha (set_vf _ _ _))
        · exact set_vf _ _ _
      · intro r1 h1
        split
        · exact h1
        · split
          · exact h1.trans (by simp [VF, ncore])
          · split
            · apply Res.post_bind (P := fun _ => True)
              · exact Res.post_intro (fun _ _ => trivial)
              · intro a _
                exact Res.post_mono (respondReadStates_vf _ _)
                  (fun x hx => (h1.trans (by simp [VF, ncore])).trans hx)
            · exact h1.trans (by simp [VF, ncore])

theorem handleSnapshotStatus_vf (r : Raft) (m : Message) : VF r (r.handleSnapshotStatus m) := by
  unfold handleSnapshotStatus
  split
  · exact VF.refl _
  · split
    · exact VF.refl _
    · exact set_vf _ _ _

theorem handleUnreachable_vf (r : Raft) (m : Message) : VF r (r.handleUnreachable m) := by
  unfold handleUnreachable
  split
  · exact VF.refl _
  · split
    · exact set_vf _ _ _
    · exact VF.refl _

theorem handleAppendResponseAccepted_vf (r : Raft) (m : Message) (pr : Progress) (op : Bool) :
    Res.Post (fun x => VF r x) (r.handleAppendResponseAccepted m pr op) := by
  unfold handleAppendResponseAccepted
  dsimp only
  apply Res.post_bind (P := fun _ => True)
  · exact Res.post_intro (fun _ _ => trivial)
  · intro pr1 _
    apply Res.post_bind (P := fun x => VF r x)
    · split
      · rename_i r1 heq
        have h1 : VF r r1 := VF.trans (set_vf r m.frm pr1)
          (Res.Post.of_eq (P := fun x => VF _ x.1) (maybeCommit_vf _) heq)
        split
        · exact Res.post_mono (bcastAppend_vf r1) (fun x hx => h1.trans hx)
        · exact h1
      · rename_i r1 heq
        have h1 : VF r r1 := VF.trans (set_vf r m.frm pr1)
          (Res.Post.of_eq (P := fun x => VF _ x.1) (maybeCommit_vf _) heq)
        split
        · exact Res.post_mono (sendAppend_vf r1 _) (fun x hx => h1.trans hx)
        · exact h1
      · trivial
      · trivial
    · intro r1 h1
      apply Res.post_bind (P := fun x => VF r x)
      · exact Res.post_mono (sendAppendAggressively_vf r1 _) (fun x hx => h1.trans hx)
      · intro r2 h2
        split
        · split
          · trivial
          · split
            · exact Res.post_mono (sendTimeoutNow_vf r2 _) (fun x hx => h2.trans hx)
            · exact h2
        · exact h2

theorem handleAppendResponse_vf (r : Raft) (m : Message) :
    Res.Post (fun x => VF r x) (r.handleAppendResponse m) := by
  unfold handleAppendResponse
  dsimp only
  apply Res.post_bind (P := fun _ => True)
  · exact Res.post_intro (fun _ _ => trivial)
  · intro npi _
    split
    · exact VF.refl _
    · try dsimp only
      split
      · split
        · trivial
        · trivial
        · exact Res.post_mono (sendAppend_vf _ _) (fun x hx => VF.trans (set_vf _ _ _) hx)
        · exact set_vf _ _ _
      · split
        · trivial
        · trivial
        · exact set_vf _ _ _
        · exact handleAppendResponseAccepted_vf _ _ _ _

theorem handleTransferLeader_cont_vf (r : Raft) (frm : Nat) :
    Res.Post (fun x => VF r x)
      (if frm = r.id then Res.ok r
        else
          let r : Raft := { r with electionElapsed := 0, leadTransferee := some frm }
          match r.prs.get frm with
          | none => .panic "raft.handle_transfer_leader.unwrap"
          | some pr =>
            if pr.matched = r.raftLog.lastIndex then r.sendTimeoutNow frm
            else (r.sendAppendPr frm pr).bind
              (fun (r, pr) => .ok { r with prs := r.prs.set frm pr })) := by
  split
  · exact VF.refl _
  · dsimp only
    have h0 : VF r { r with electionElapsed := 0, leadTransferee := some frm } := by
      simp [VF, ncore]
    split
    · trivial
    · split
      · exact Res.post_mono (sendTimeoutNow_vf _ _) (fun x hx => h0.trans hx)
      · exact Res.post_bind (sendAppendPr_vf _ _ _) (fun a ha => by
          simp only [Res.Post]; exact (h0.trans ha).trans (set_vf _ _ _))

theorem handleTransferLeader_vf (r : Raft) (m : Message) :
    Res.Post (fun x => VF r x) (r.handleTransferLeader m) := by
  unfold handleTransferLeader
  split
  · exact VF.refl _
  · dsimp only
    split
    · exact VF.refl _
    · split
      · split
        · exact VF.refl _
        · exact Res.post_mono (handleTransferLeader_cont_vf r.abortLeaderTransfer m.frm)
            (fun x hx => VF.trans (by simp [VF, ncore, abortLeaderTransfer]) hx)
      · exact handleTransferLeader_cont_vf r m.frm

/-! ### follower-side handlers -/

theorem sendRequestSnapshot_vf (r : Raft) : Res.Post (fun x => VF r x) r.sendRequestSnapshot := by
  unfold sendRequestSnapshot
  dsimp only
  split
  · exact send_vf r _ rfl
  · trivial
  · trivial

theorem handleAppendEntries_vf (r : Raft) (m : Message) :
    Res.Post (fun x => VF r x) (r.handleAppendEntries m) := by
  unfold handleAppendEntries
  split
  · exact sendRequestSnapshot_vf r
  · split
    · exact send_vf r _ rfl
    · split
      · trivial
      · trivial
      · rename_i log c l hma
        have := maybeAppend_store hma
        exact Res.post_mono (send_vf _ _ rfl)
          (fun x hx => VF.trans (by simp [VF, ncore, this]) hx)
      · rename_i log hma
        have := maybeAppend_store hma
        dsimp only
        split
        · trivial
        · trivial
        · trivial
        · exact Res.post_mono (send_vf _ _ rfl)
            (fun x hx => VF.trans (by simp [VF, ncore, this]) hx)

theorem handleHeartbeat_vf (r : Raft) (m : Message) :
    Res.Post (fun x => VF r x) (r.handleHeartbeat m) := by
  unfold handleHeartbeat
  split
  · trivial
  · trivial
  · rename_i log hc
    have := C06.commitTo_store hc
    dsimp only
    split
    · exact Res.post_mono (sendRequestSnapshot_vf _)
        (fun x hx => VF.trans (by simp [VF, ncore, this]) hx)
    · exact Res.post_mono (send_vf _ _ rfl)
        (fun x hx => VF.trans (by simp [VF, ncore, this]) hx)

theorem requestSnapshot_vf (r : Raft) : Res.Post (fun x => VF r x.1) r.requestSnapshot := by
  unfold requestSnapshot
  split
  · exact VF.refl _
  · split
    · exact VF.refl _
    · split
      · exact VF.refl _
      · split
        · exact VF.refl _
        · dsimp only
          split
          · trivial
          · trivial
          · split
            · exact Res.post_bind (sendRequestSnapshot_vf _) (fun a ha => by
                simp only [Res.Post]; exact VF.trans (by simp [VF, ncore]) ha)
            · exact VF.refl _

/-! ### entry points that never touch term / vote / role / vote record -/

theorem onPersistSnap_vf (r : Raft) (index : Nat) :
    Res.Post (fun x => VF r x) (r.onPersistSnap index) := by
  unfold onPersistSnap
  split
  · rename_i log b h
    have := C06.maybePersistSnap_store h
    simp [Res.Post, VF, ncore, this]
  · trivial
  · trivial

theorem onPersistEntries_vf (r : Raft) (index term : Nat) :
    Res.Post (fun x => VF r x) (r.onPersistEntries index term) := by
  unfold onPersistEntries
  split
  · trivial
  · trivial
  · rename_i log update h
    have hst := C06.maybePersist_store h
    have h0 : VF r { r with raftLog := log } := by simp [VF, ncore, hst]
    dsimp only
    split
    · split
      · exact h0
      · split
        · trivial
        · trivial
        · rename_i pr pr1 updated _
          have h1 : VF r { ({ r with raftLog := log } : Raft) with prs := ({ r with raftLog := log } : Raft).prs.set ({ r with raftLog := log } : Raft).id pr1 } :=
            h0.trans (set_vf _ _ _)
          try dsimp only
          split
          · split
            · rename_i r2 heq
              have h2 : VF r r2 := h1.trans
                (Res.Post.of_eq (P := fun x => VF _ x.1) (maybeCommit_vf _) heq)
              split
              · exact Res.post_mono (bcastAppend_vf r2) (fun x hx => h2.trans hx)
              · exact h2
            · rename_i r2 heq
              exact h1.trans (Res.Post.of_eq (P := fun x => VF _ x.1) (maybeCommit_vf _) heq)
            · trivial
            · trivial
          · exact h1
    · exact h0

theorem commitApplyInternal_vf (r : Raft) (applied : Nat) (skip : Bool) :
    Res.Post (fun x => VF r x) (r.commitApplyInternal applied skip) := by
  unfold commitApplyInternal
  dsimp only
  split
  · trivial
  · trivial
  · rename_i log hlog
    have hst : log.store = r.raftLog.store := by
      split at hlog
      · exact C06.appliedTo_store hlog
      · split at hlog
        · cases hlog
        · cases hlog; rfl
    have h0 : VF r { r with raftLog := log } := by simp [VF, ncore, hst]
    split
    · split
      · rename_i r1 heq
        have h1 : VF r r1 := h0.trans
          (Res.Post.of_eq (P := fun x => VF _ x.1) (appendEntry_vf _ _) heq)
        exact h1.trans (by simp [VF, ncore])
      · trivial
      · trivial
      · trivial
    · exact h0

theorem commitApply_vf (r : Raft) (applied : Nat) :
    Res.Post (fun x => VF r x) (r.commitApply applied) := by
  unfold commitApply
  exact commitApplyInternal_vf r applied false

theorem reduceUncommittedSize_vf (r : Raft) (ents : List Entry) :
    VF r (r.reduceUncommittedSize ents) := by
  unfold reduceUncommittedSize
  split
  · exact VF.refl _
  · simp [VF, ncore]

theorem adjustMaxInflightMsgs_vf (r : Raft) (t c : Nat) :
    Res.Post (fun x => VF r x) (r.adjustMaxInflightMsgs t c) := by
  unfold adjustMaxInflightMsgs
  split
  · exact VF.refl _
  · split
    · exact set_vf _ _ _
    · trivial

theorem commitThenBcast_vf (r0 r : Raft) (h0 : VF r0 r) :
    Res.Post (fun x => VF r0 x)
      (match r.maybeCommit with
        | .ok (r, true) => r.bcastAppend
        | .ok (r, false) => .ok r
        | .err e => .err e
        | .panic s => .panic s : Res Raft) := by
  split
  · rename_i r1 heq
    have h1 : VF r0 r1 := h0.trans (Res.Post.of_eq (P := fun x => VF _ x.1) (maybeCommit_vf _) heq)
    exact Res.post_mono (bcastAppend_vf r1) (fun x hx => h1.trans hx)
  · rename_i r1 heq
    exact h0.trans (Res.Post.of_eq (P := fun x => VF _ x.1) (maybeCommit_vf _) heq)
  · trivial
  · trivial

theorem enableGroupCommit_vf (r : Raft) (b : Bool) :
    Res.Post (fun x => VF r x) (r.enableGroupCommit b) := by
  unfold enableGroupCommit
  dsimp only
  have h0 : VF r { r with prs := { r.prs with groupCommit := b } } := by simp [VF, ncore]
  split
  · exact commitThenBcast_vf r _ h0
  · exact h0

theorem assignCommitGroups_vf (r : Raft) (ids : List (Nat × Nat)) :
    Res.Post (fun x => VF r x) (r.assignCommitGroups ids) := by
  unfold assignCommitGroups
  dsimp only
  apply Res.post_bind (P := fun x => VF r x)
  · apply foldl_vf (fun (r : Raft) (p : Nat × Nat) =>
        if p.2 = 0 then .panic "raft.assign_commit_groups.assert"
        else .ok (r.modifyProgress p.1 (fun pr => { pr with commitGroupId := p.2 })))
    · intro r1 p
      try dsimp only
      split
      · trivial
      · exact modifyProgress_vf _ _ _
    · exact VF.refl _
  · intro r1 h1
    split
    · exact commitThenBcast_vf r _ h1
    · exact h1

end CV
end Raft
end RaftModel
