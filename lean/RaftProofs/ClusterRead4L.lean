import RaftProofs.ClusterRead4K
import RaftProps.C11

/-!
Cluster-level ReadIndex safety for **forwarded** reads, part 4L:
* `ri_prov`: **provenance of the `MsgReadIndex` messages** of the queues and of the transport — each
  carries the context of a forwarding `read_index` call (`FwdAt`) of the node named in `from`, at an
  earlier step (forwarding again keeps `entries` and `from`);
* `reg_nonempty`: registered contexts are not empty;
* `tgt_inv`: the invariants of ONE registered request (copy of `RaftProofs/ClusterReadL.lean` over
  `Reg`).
-/
namespace RaftModel
namespace Cluster
namespace R4
open Node Raft Raft.CC Raft.RD.R4 RaftProps.C02 RaftProps.C05

variable {cfg : JointConfig} {c0 : Nat} {h : List Sys}

/-- the `MsgReadIndex` `x` carries the context of a forwarding `read_index` call of node `x.from`
before index `k` -/
def RiSrc (h : List Sys) (k : Nat) (x : Message) : Prop :=
  ∃ n f ctx, n < k ∧ FwdAt h n f ctx ∧ reqCtx x = some ctx ∧ x.frm = f

theorem RiSrc.mono {k k' : Nat} {x : Message} (hs : RiSrc h k x) (hle : k ≤ k') : RiSrc h k' x := by
  obtain ⟨n, f, ctx, h1, h2⟩ := hs
  exact ⟨n, f, ctx, by omega, h2⟩

structure RiProv (h : List Sys) (k : Nat) (s : Sys) : Prop where
  q : ∀ v st, s.node v = some st → ∀ x ∈ st.raft.msgs, x.msgType = .msgReadIndex → RiSrc h k x
  net : ∀ x ∈ s.net, x.msgType = .msgReadIndex → RiSrc h k x

theorem ri_prov (H : RdHypF cfg c0 h) : ∀ (k : Nat) (s : Sys), h[k]? = some s → RiProv h k s := by
  have H3 := H.toHyp3w
  have H2 := H3.toHyp2w
  refine hist_induct h _ ?_ ?_
  · intro s h0
    have hinit := hist_init H2.hist s h0
    refine ⟨fun v st hv x hx => ?_, fun x hx => ?_⟩
    · rw [init_queue hinit v st hv] at hx; cases hx
    · rw [hinit.1] at hx; cases hx
  · intro n a b ha hb ih
    have upq : ∀ v st, a.node v = some st → ∀ x ∈ st.raft.msgs, x.msgType = .msgReadIndex →
        RiSrc h (n + 1) x := fun v st hv x hx hty => (ih.q v st hv x hx hty).mono (Nat.le_succ n)
    have upn : ∀ x ∈ a.net, x.msgType = .msgReadIndex → RiSrc h (n + 1) x :=
      fun x hx hty => (ih.net x hx hty).mono (Nat.le_succ n)
    -- a `MsgReadIndex` of the moved node that was queued before
    have old : ∀ (k : Nat) (st : NState) (r1 : Raft), a.node k = some st → RS st.raft r1 →
        ∀ x ∈ r1.msgs, x.msgType = .msgReadIndex → RiSrc h (n + 1) x := by
      intro k st r1 hk hs x hx hty
      have : x ∈ rdOf r1.msgs := mem_rdOf.2 ⟨hx, by unfold isRd; rw [hty]; rfl⟩
      rw [hs.rd] at this
      exact upq k st hk x (mem_rdOf.1 this).1 hty
    have wrap : ∀ (k : Nat) (st' : NState),
        (∀ x ∈ st'.raft.msgs, x.msgType = .msgReadIndex → RiSrc h (n + 1) x) →
        RiProv h (n + 1) (a.setNode k st') := by
      intro k st' key
      refine ⟨fun v stv hv x hx hty => ?_, upn⟩
      rcases node_cases hv with ⟨e1, e2⟩ | ⟨_, e2⟩
      · subst e1; subst e2; exact key x hx hty
      · exact upq v stv e2 x hx hty
    cases rd_step H3 ha hb with
    | call k st st' m hk hbe hm ho hrir =>
      subst hbe
      apply wrap
      intro x hx hty
      rcases ho.msgs x hx with c | c | c | c | c
      · exact upq k st hk x c hty
      · rw [hty] at c; cases c
      · rw [c.1] at hty; cases hty
      · rw [c.1] at hty; cases hty
      · rw [c.1] at hty; cases hty
    | read k st st' K' rnd res hk hbe hcall ho =>
      subst hbe
      apply wrap
      intro x hx hty
      cases ho with
      | frame hf => exact old k st st'.raft hk hf.toRS x hx hty
      | fwd hfo hlead hcore hmsgs =>
        rw [hmsgs] at hx
        rcases List.mem_append.1 hx with c | c
        · exact upq k st hk x c hty
        · have hxe := List.mem_singleton.1 c
          obtain ⟨q1, q2, _, q4, _, _⟩ := sendFill_ri st.raft
            { msgType := .msgReadIndex, to := st.raft.leaderId, entries := [{ data := K' }] } rfl
          have hctx : reqCtx x = some K' := by
            unfold reqCtx; rw [hxe, q2]; rfl
          have hcallAt : ReadCallAt h n k K' := ⟨a, _, st, st', rnd, res, ha, hb, hk, hcall, rfl⟩
          have hfw : FwdAt h n k K' := by
            refine ⟨a, _, st, st', rnd, res, ha, hb, hk, hcall, rfl, hfo, hlead, x, ?_, ?_, hty, hctx⟩
            · rw [hmsgs]; exact List.mem_append_right _ c
            · intro hin
              obtain ⟨n', f', ctx', g1, g2, g3, _⟩ := ih.q k st hk x hin hty
              rw [hctx] at g3
              injection g3 with g3
              subst g3
              have := H.uniqc n' n f' k K' g2.call hcallAt
              omega
          refine ⟨n, k, K', Nat.lt_succ_self n, hfw, hctx, ?_⟩
          rw [hxe, q4 rfl]
          exact (node_ok H2 ha hk).id
      | now hs =>
        exfalso
        rcases hs with c | c
        · rw [not_singleton H2 (mem_of_get ha) hk] at c; cases c
        · exact c (H.safe a (mem_of_get ha) k st hk)
      | reg hl hc ro hadd hcore hmsgs =>
        rcases hmsgs x hx with c | ⟨c, _⟩
        · exact upq k st hk x c hty
        · rw [c] at hty; cases hty
    | ri k st st' m rnd res hk hbe hm hto hty' hcall ho =>
      subst hbe
      apply wrap
      intro x hx hty
      cases ho with
      | keep hs _ => exact old k st st'.raft hk hs x hx hty
      | fwd r1 hs hfo hcore y hmsgs hy =>
        rw [hmsgs] at hx
        rcases List.mem_append.1 hx with c | c
        · exact old k st r1 hk hs x c hty
        · have hxe := List.mem_singleton.1 c
          obtain ⟨n', f', ctx', g1, g2, g3, g4⟩ := upn m hm hty'
          have hf0 : f' ≠ 0 := by
            obtain ⟨a', _, st0, _, _, _, p1, _, p3, _⟩ := g2
            exact (((hist_all H2.hist).1 a' (mem_of_get p1)).ids f' st0 p3).2
          refine ⟨n', f', ctx', g1, g2, ?_, ?_⟩
          · unfold reqCtx at g3 ⊢
            rw [hxe, hy.2.1]; exact g3
          · rw [hxe, hy.2.2.1 (by rw [g4]; exact hf0)]; exact g4
      | now hs =>
        exfalso
        rcases hs with c | c
        · rw [not_singleton H2 (mem_of_get ha) hk] at c; cases c
        · exact c (H.safe a (mem_of_get ha) k st hk)
      | reg hl hc ro hadd hcore hmsgs =>
        rcases hmsgs x hx with c | ⟨c, _⟩
        · exact upq k st hk x c hty
        · rw [c] at hty; cases hty
    | send k st st' hk hbe hst =>
      subst hbe
      refine ⟨fun v stv hv x hx hty => ?_, fun x hx hty => ?_⟩
      · have hv' : (a.setNode k st').node v = some stv := hv
        rcases node_cases hv' with ⟨e1, e2⟩ | ⟨_, e2⟩
        · subst e1; subst e2
          rw [hst] at hx; cases hx
        · exact upq v stv e2 x hx hty
      · have hx' : x ∈ a.net ++ st.raft.msgs := hx
        rcases List.mem_append.1 hx' with c | c
        · exact upn x c hty
        · exact upq k st hk x c hty
    | restart k st st' hk hbe hf hq =>
      subst hbe
      apply wrap
      intro x hx
      rw [hq] at hx; cases hx

/-- the `MsgReadIndex` behind a registration by delivery: it carries the registered context, which is
the context of a forwarding `read_index` call of node `m.from` at an earlier step -/
theorem fwdReg_src (H : RdHypF cfg c0 h) {k l : Nat} {m : Message} {K : Bytes} {idx : Nat}
    (hr : FwdRegAt h k l m K idx) : ∃ n, n < k ∧ FwdAt h n m.frm K := by
  have hc := (fwd_reg_covers H.toHyp3w H.safe hr).1
  obtain ⟨a, b, st, st', rnd, res, h1, h2, h3, h4, h5, hty, _⟩ := hr
  obtain ⟨n, f, ctx, g1, g2, g3, g4⟩ := (ri_prov H k a h1).net m h4 hty
  have : ctx = K := by
    have e : reqCtx m = some K := hc
    rw [e] at g3
    injection g3 with g3
    exact g3.symm
  subst this
  subst g4
  exact ⟨n, g1, g2⟩

/-- registered contexts are not empty -/
theorem reg_nonempty (H : RdHypF cfg c0 h) {n i : Nat} {K : Bytes} (hr : Reg h n i K) : K ≠ [] := by
  rcases hr with c | ⟨m, idx, c⟩
  · exact H.nonempty n i K c.call
  · obtain ⟨n', _, g⟩ := fwdReg_src H c
    exact H.nonempty n' m.frm K g.call

theorem late_ctx (H : RdHypF2 cfg c0 h) {n0 i0 : Nat} {ctx : Bytes} (hreg : Reg h n0 i0 ctx) :
    Late h n0 ctx :=
  ⟨reg_nonempty H.toRdHypF hreg, fun _ _ hr => Nat.le_of_eq (H.uniq_node hr hreg).1.symm⟩

/-- where `ctx` occurs, the step that registered it lies behind -/
theorem occ_after (H : RdHypF2 cfg c0 h) {n0 i0 : Nat} {ctx : Bytes} (hreg : Reg h n0 i0 ctx)
    {k : Nat} {s : Sys} (hk : h[k]? = some s) (ho : Occ s ctx) : n0 < k := by
  obtain ⟨n, i, h1, h2⟩ := occ_issued H.toHyp3w H.safe k s hk ctx (reg_nonempty H.toRdHypF hreg) ho
  rw [(H.uniq_node h2 hreg).1] at h1
  exact h1

structure TgtInv (h : List Sys) (c0 n0 i0 : Nat) (ctx : Bytes) (s : Sys) : Prop where
  /-- whatever is queued at or behind `ctx` is late -/
  behind : ∀ v st, s.node v = some st → ∀ (p p' : Nat) (K' : Bytes),
    st.raft.readOnly.readIndexQueue[p]? = some ctx → p ≤ p' →
    st.raft.readOnly.readIndexQueue[p']? = some K' → Late h n0 K'
  /-- `ctx` is pending only on `i0`, with a read index that covers the earlier commits -/
  pend : ∀ v st, s.node v = some st → ∀ rs, (ctx, rs) ∈ st.raft.readOnly.pendingReadIndex →
    v = i0 ∧ IdxOK h c0 n0 st.raft.term rs.index

theorem tgt_inv (H : RdHypF2 cfg c0 h) {n0 i0 : Nat} {ctx : Bytes} (hreg : Reg h n0 i0 ctx) :
    ∀ (k : Nat) (s : Sys), h[k]? = some s → TgtInv h c0 n0 i0 ctx s := by
  have Hw := H.toHyp3w
  have H3 := Hw.toHyp3a
  have H2 := H3.toHyp2w
  refine hist_induct h _ ?_ ?_
  · intro s h0
    have hinit := hist_init H2.hist s h0
    have hf : ∀ v st, s.node v = some st → Fresh st.raft := by
      intro v st hv
      obtain ⟨c, store, rnd, _, hb⟩ := hinit.2 v st hv
      exact boot_fresh c store rnd st hb
    refine ⟨fun v st hv p p' K' hp => ?_, fun v st hv rs hm => ?_⟩
    · rw [(hf v st hv).2.1] at hp; simp at hp
    · rw [(hf v st hv).1] at hm; cases hm
  · intro n a b ha hb ih
    have wrap : ∀ (k : Nat) (st' : NState),
        ((∀ (p p' : Nat) (K'' : Bytes),
            st'.raft.readOnly.readIndexQueue[p]? = some ctx → p ≤ p' →
            st'.raft.readOnly.readIndexQueue[p']? = some K'' → Late h n0 K'') ∧
          (∀ rs, (ctx, rs) ∈ st'.raft.readOnly.pendingReadIndex →
            k = i0 ∧ IdxOK h c0 n0 st'.raft.term rs.index)) →
        TgtInv h c0 n0 i0 ctx (a.setNode k st') := by
      intro k st' key
      refine ⟨fun v stv hv p p' K'' hp hle hp' => ?_, fun v stv hv rs hmem => ?_⟩
      · rcases node_cases hv with ⟨e1, e2⟩ | ⟨_, e2⟩
        · subst e1; subst e2; exact key.1 p p' K'' hp hle hp'
        · exact ih.behind v stv e2 p p' K'' hp hle hp'
      · rcases node_cases hv with ⟨e1, e2⟩ | ⟨_, e2⟩
        · subst e1; subst e2; exact key.2 rs hmem
        · exact ih.pend v stv e2 rs hmem
    have keepCase : ∀ (k : Nat) (st : NState) (r' : Raft), a.node k = some st → RS st.raft r' →
        ((∀ (p p' : Nat) (K'' : Bytes),
            r'.readOnly.readIndexQueue[p]? = some ctx → p ≤ p' →
            r'.readOnly.readIndexQueue[p']? = some K'' → Late h n0 K'') ∧
          (∀ rs, (ctx, rs) ∈ r'.readOnly.pendingReadIndex →
            k = i0 ∧ IdxOK h c0 n0 r'.term rs.index)) := by
      intro k st r' hk hs
      rcases RS.ro_cases hs with ⟨g1, g2⟩ | ⟨g1, g2⟩
      · rw [g1, g2]; exact ⟨ih.behind k st hk, ih.pend k st hk⟩
      · rw [g1, g2]
        exact ⟨fun p _ _ hp => (by simp at hp), fun _ hm => (by cases hm)⟩
    -- a registration of `K'` on `k` by this very step
    have regCase : ∀ (k : Nat) (st st' : NState) (K' : Bytes) (ro : ReadOnly) (req : Message),
        a.node k = some st → b = a.setNode k st' → Reg h n k K' →
        st.raft.state = .leader → st.raft.commitToCurrentTerm = .ok true →
        st'.raft.readOnly = ro → st'.raft.term = st.raft.term →
        ro.pendingReadIndex = st.raft.readOnly.pendingReadIndex ++
          [(K', { req := req, index := st.raft.raftLog.committed, acks := [st.raft.id] })] →
        ro.readIndexQueue = st.raft.readOnly.readIndexQueue ++ [K'] →
        ((∀ (p p' : Nat) (K'' : Bytes),
            st'.raft.readOnly.readIndexQueue[p]? = some ctx → p ≤ p' →
            st'.raft.readOnly.readIndexQueue[p']? = some K'' → Late h n0 K'') ∧
          (∀ rs, (ctx, rs) ∈ st'.raft.readOnly.pendingReadIndex →
            k = i0 ∧ IdxOK h c0 n0 st'.raft.term rs.index)) := by
      intro k st st' K' ro req hk hbe hregK hl hc e1 e2 q3 q4
      constructor
      · intro p p' K'' hp hle hp'
        have hafter : n0 ≤ n := by
          have : Occ (a.setNode k st') ctx :=
            .inl ⟨k, st', node_setNode_self a k st', .inr (.inl (List.mem_of_getElem? hp))⟩
          have := occ_after H hreg (by rw [← hbe]; exact hb) this
          omega
        rw [e1, q4] at hp hp'
        by_cases hlt : p' < st.raft.readOnly.readIndexQueue.length
        · rw [List.getElem?_append_left hlt] at hp'
          rw [List.getElem?_append_left (by omega)] at hp
          exact ih.behind k st hk p p' K'' hp hle hp'
        · rw [List.getElem?_append_right (by omega)] at hp'
          have : K'' = K' := by
            cases hq : p' - st.raft.readOnly.readIndexQueue.length with
            | zero => rw [hq] at hp'; simpa using hp'.symm
            | succ j => rw [hq] at hp'; simp at hp'
          subst this
          exact ⟨reg_nonempty H.toRdHypF hregK,
            fun n' i' hr => by rw [(H.uniq_node hr hregK).1]; exact hafter⟩
      · intro rs hmem
        rw [e1, q3] at hmem
        rw [e2]
        rcases List.mem_append.1 hmem with g | g
        · exact ih.pend k st hk rs g
        · rw [List.mem_singleton] at g
          injection g with g1 g2
          subst g2
          rw [← g1] at hregK
          obtain ⟨u1, u2⟩ := H.uniq_node hregK hreg
          subst u1
          exact ⟨u2, idx_ok_reg H3 ha hk hl hc⟩
    cases rd_step Hw ha hb with
    | call k st st' m hk hbe hm ho hrir =>
      subst hbe
      apply wrap
      constructor
      · intro p p' K' hp hle hp'
        obtain ⟨d, hd⟩ := ho.queue
        rw [hd, List.getElem?_drop] at hp hp'
        exact ih.behind k st hk (d + p) (d + p') K' hp (by omega) hp'
      · intro rs hmem
        obtain ⟨g0, ⟨rs0, g1, _, g3⟩, _⟩ := ho.pend ctx rs hmem
        rw [g0, g3]
        exact ih.pend k st hk rs0 g1
    | read k st st' K' rnd res hk hbe hcall ho =>
      have hbe' := hbe
      subst hbe
      apply wrap
      cases ho with
      | frame hf =>
        rw [hf.ro, hf.term]
        exact ⟨ih.behind k st hk, ih.pend k st hk⟩
      | fwd hfo hlead hcore hmsgs =>
        have e1 : st'.raft.readOnly = st.raft.readOnly := congrArg RCore.ro hcore
        have e2 : st'.raft.term = st.raft.term := congrArg RCore.term hcore
        rw [e1, e2]
        exact ⟨ih.behind k st hk, ih.pend k st hk⟩
      | now hs =>
        exfalso
        rcases hs with c | c
        · rw [not_singleton H2 (mem_of_get ha) hk] at c; cases c
        · exact c (H.safe a (mem_of_get ha) k st hk)
      | reg hl hc ro hadd hcore hmsgs =>
        have e1 : st'.raft.readOnly = ro := congrArg RCore.ro hcore
        have e2 : st'.raft.term = st.raft.term := congrArg RCore.term hcore
        rcases addRequest_spec hadd with ⟨q1, _⟩ | ⟨q1, _, q3, q4⟩
        · rw [e1, e2, q1]
          exact ⟨ih.behind k st hk, ih.pend k st hk⟩
        · have hregK : Reg h n k K' := by
            refine .inl ⟨a, _, st, st', rnd, res, ha, hb, hk, hcall, rfl, q1, ?_⟩
            rw [e1, q3]
            exact ⟨_, List.mem_append_right _ (List.mem_singleton.2 rfl)⟩
          exact regCase k st st' K' ro _ hk rfl hregK hl hc e1 e2 q3 q4
    | ri k st st' m rnd res hk hbe hm hto hty hcall ho =>
      subst hbe
      apply wrap
      cases ho with
      | keep hs _ => exact keepCase k st _ hk hs
      | fwd r1 hs hfo hcore y hmsgs hy =>
        have e1 : st'.raft.readOnly = r1.readOnly := congrArg RCore.ro hcore
        have e2 : st'.raft.term = r1.term := congrArg RCore.term hcore
        rw [e1, e2]
        exact keepCase k st r1 hk hs
      | now hs =>
        exfalso
        rcases hs with c | c
        · rw [not_singleton H2 (mem_of_get ha) hk] at c; cases c
        · exact c (H.safe a (mem_of_get ha) k st hk)
      | reg hl hc ro hadd hcore hmsgs =>
        have e1 : st'.raft.readOnly = ro := congrArg RCore.ro hcore
        have e2 : st'.raft.term = st.raft.term := congrArg RCore.term hcore
        obtain ⟨en, hen, hcase⟩ := addRequest_specD hadd
        rcases hcase with ⟨q1, _⟩ | ⟨q1, _, q3, q4⟩
        · rw [e1, e2, q1]
          exact ⟨ih.behind k st hk, ih.pend k st hk⟩
        · have hregK : Reg h n k en.data := by
            refine .inr ⟨m, st.raft.raftLog.committed, a, _, st, st', rnd, res, ha, hb, hk, hm, hto,
              hty, hcall, rfl, q1, ?_⟩
            rw [e1, q3]
            exact ⟨_, List.mem_append_right _ (List.mem_singleton.2 rfl), rfl⟩
          exact regCase k st st' en.data ro _ hk rfl hregK hl hc e1 e2 q3 q4
    | send k st st' hk hbe hst =>
      subst hbe
      refine ⟨fun v stv hv p p' K' hp hle hp' => ?_, fun v stv hv rs hmem => ?_⟩
      · have hv' : (a.setNode k st').node v = some stv := hv
        rcases node_cases hv' with ⟨e1, e2⟩ | ⟨_, e2⟩
        · subst e1; subst e2
          rw [hst] at hp hp'
          exact ih.behind v st hk p p' K' hp hle hp'
        · exact ih.behind v stv e2 p p' K' hp hle hp'
      · have hv' : (a.setNode k st').node v = some stv := hv
        rcases node_cases hv' with ⟨e1, e2⟩ | ⟨_, e2⟩
        · subst e1; subst e2
          rw [hst] at hmem ⊢
          exact ih.pend v st hk rs hmem
        · exact ih.pend v stv e2 rs hmem
    | restart k st st' hk hbe hf hq =>
      subst hbe
      apply wrap
      rw [hf.1, hf.2.1]
      exact ⟨fun p _ _ hp => (by simp at hp), fun _ hm => (by cases hm)⟩

end R4
end Cluster
end RaftModel
