import RaftProofs.ClusterRead4G
import RaftProofs.ClusterRead3A

/-!
Cluster-level ReadIndex safety for **forwarded** reads (`RaftProps.C08f`), part 4H: what the delivery of
a `MsgReadIndex` does, over the extended read-path projection of the `R4` copies
(`RaftProofs/ClusterRead4A–4G.lean`: `rdT` also covers `MsgReadIndex` / `MsgReadIndexResp`, so the frame
lemmas preserve those messages of a queue too, and `RInv` / `ROut` have a clause `RirOk` for every queued
`MsgReadIndexResp`): forwarded again (`fwd`, with the forwarded message), dropped / demoted (`keep`), or
registered by a leader that has committed in its term, with the heartbeats it queues (`reg`).
-/
namespace RaftModel
namespace Raft
namespace RD
namespace R4
open VoteOb CV Node

/-- what `send` fills into a `MsgReadIndex` -/
theorem sendFill_ri (r : Raft) (x : Message) (ht : x.msgType = .msgReadIndex) :
    (r.sendFill x).msgType = .msgReadIndex ∧ (r.sendFill x).entries = x.entries ∧
    (x.frm ≠ 0 → (r.sendFill x).frm = x.frm) ∧ (x.frm = 0 → (r.sendFill x).frm = r.id) ∧
    (r.sendFill x).term = x.term ∧ (r.sendFill x).to = x.to := by
  unfold sendFill
  by_cases h0 : x.frm = 0 <;> simp [h0, ht, isVoteMsg]

/-- what the delivery of a `MsgReadIndex` `m` does -/
inductive RiOutD (a : Raft) (m : Message) (r : Raft) : Prop
  /-- dropped, or the node fell back to follower and dropped: nothing the read path reads has changed,
  except that the pending requests may have been discarded -/
  | keep (h : RS a r) (h2 : r.readOnly = a.readOnly ∨ r.state = .follower)
  /-- forwarded again by a follower (`r1`: the state after the term preamble) -/
  | fwd (r1 : Raft) (h : RS a r1) (hfo : r1.state = .follower) (hcore : rcore r = rcore r1)
      (y : Message) (hmsgs : r.msgs = r1.msgs ++ [y])
      (hy : y.msgType = .msgReadIndex ∧ y.entries = m.entries ∧ (m.frm ≠ 0 → y.frm = m.frm) ∧
        (m.frm = 0 → y.frm = a.id) ∧ y.term = m.term)
  /-- answered at once: single-voter group or lease-based reads -/
  | now (hs : a.prs.isSingleton = true ∨ a.readOnly.option ≠ .safe)
  /-- the node is a leader that has committed in its term: the request is registered (unless its
  context is pending already) with the commit index as read index; only heartbeats carrying the
  context are queued -/
  | reg (hl : a.state = .leader) (hc : a.commitToCurrentTerm = .ok true) (ro : ReadOnly)
      (hadd : a.readOnly.addRequest a.raftLog.committed m a.id = .ok ro)
      (hcore : rcore r = rcore ({ a with readOnly := ro } : Raft))
      (hmsgs : ∀ x ∈ r.msgs, x ∈ a.msgs ∨ (x.msgType = .msgHeartbeat ∧ some x.context = reqCtx m))

theorem stepFollower_ri {r r' : Raft} {m : Message} {e : Option RaftError}
    (hty : m.msgType = .msgReadIndex) (h : r.stepFollower m = .ok (r', e)) :
    r' = r ∨ (rcore r' = rcore r ∧ r'.state = r.state ∧
      r'.msgs = r.msgs ++ [r.sendFill { m with to := r.leaderId }]) := by
  unfold stepFollower at h
  simp only [hty] at h
  split at h
  · cases h; exact .inl rfl
  · obtain ⟨r2, hs, hr⟩ := Res.bind_eq_ok h
    cases hr
    rw [send_eq r r' _ hs]
    exact .inr ⟨rfl, rfl, by rw [hty]⟩

theorem stepRi_cases {a r : Raft} {m : Message} {e : Option RaftError}
    (hty : m.msgType = .msgReadIndex) (h : a.step m = .ok (r, e)) : RiOutD a m r := by
  have fol : ∀ (r1 : Raft), RS a r1 → r1.id = a.id → r1.state = .follower →
      (r1.readOnly = a.readOnly ∨ r1.state = .follower) →
      r1.stepFollower m = .ok (r, e) → RiOutD a m r := by
    intro r1 hrs hid hfo h2 hsf
    rcases stepFollower_ri hty hsf with g | ⟨g1, g2, g3⟩
    · subst g; exact .keep hrs h2
    · obtain ⟨q1, q2, q3, q4, q5, _⟩ := sendFill_ri r1 { m with to := r1.leaderId } hty
      exact .fwd r1 hrs hfo g1 _ g3 ⟨q1, q2, q3, fun h0 => (q4 h0).trans hid, q5⟩
  unfold Raft.step at h
  split at h
  · cases h
  · cases h
  · rename_i r1 heq
    cases h
    rcases stepTerm_plain (.inl hty) heq with ⟨g, _⟩ | ⟨_, _, g⟩
    · subst g; exact .keep (RS.refl _) (.inl rfl)
    · cases g
  · rename_i r1 heq
    simp only [hty] at h
    rcases stepTerm_plain (.inl hty) heq with ⟨g, _⟩ | ⟨hlt, g, _⟩
    · subst g
      split at h
      · unfold stepCandidate at h
        simp only [hty] at h
        cases h; exact .keep (RS.refl _) (.inl rfl)
      · unfold stepCandidate at h
        simp only [hty] at h
        cases h; exact .keep (RS.refl _) (.inl rfl)
      · rename_i hfo
        exact fol r1 (RS.refl _) rfl hfo (.inl rfl) h
      · rename_i hl
        unfold stepLeader at h
        simp only [hty] at h
        split at h
        · cases h
        · cases h
        · cases h; exact .keep (RS.refl _) (.inl rfl)
        · rename_i hc
          split at h
          · rename_i hsing
            refine .now (.inl ?_)
            simp only [Bool.and_eq_true] at hsing
            exact hsing.1
          · split at h
            · rename_i hsafe
              split at h
              · cases h
              · rename_i en hen
                obtain ⟨ro, hadd, hb⟩ := Res.bind_eq_ok h
                obtain ⟨r2, hbc, hr⟩ := Res.bind_eq_ok hb
                cases hr
                obtain ⟨k1, k2⟩ := Res.Post.of_eq (bcastHeartbeatWithCtx_out _ _) hbc
                refine .reg hl hc ro hadd k1 (fun x hx => ?_)
                rcases k2 x hx with c | ⟨c1, c2⟩
                · exact .inl c
                · refine .inr ⟨c1, ?_⟩
                  unfold reqCtx
                  rw [hen, c2]
                  rfl
            · rename_i hlease
              exact .now (.inr (by rw [hlease]; decide))
    · subst g
      rw [RD.becomeFollower_state] at h
      simp only at h
      exact fol _ (becomeFollower_rs a m.term 0 (by omega)) (becomeFollower_rs a m.term 0 (by omega)).id
        rfl (.inr rfl) h

theorem RiOutD.rebase {a r : Raft} {m : Message} {rnd : Option Nat}
    (ho : RiOutD ({ a with nextRand := rnd } : Raft) m r) : RiOutD a m r := by
  cases ho with
  | keep h h2 => exact .keep ⟨h.keep, h.tle, h.rs, h.id, h.conf, h.rd⟩ h2
  | fwd r1 h hfo hcore y hmsgs hy =>
    exact .fwd r1 ⟨h.keep, h.tle, h.rs, h.id, h.conf, h.rd⟩ hfo hcore y hmsgs hy
  | now hs => exact .now hs
  | reg hl hc ro hadd hcore hmsgs => exact .reg hl hc ro hadd hcore hmsgs

/-- **the delivery of a `MsgReadIndex`**, as one call of a node -/
theorem callRi_cases {st st' : NState} {rnd : Option Nat} {m : Message} {res : OpRes}
    (hty : m.msgType = .msgReadIndex) (h : Node.call st rnd (.step m) = .ok (res, st')) :
    RiOutD st.raft m st'.raft := by
  unfold Node.call at h
  simp only [applyOp] at h
  obtain ⟨raft, e, hx, hr⟩ := unitRes_ok h
  rw [hr]
  apply RiOutD.rebase (rnd := rnd)
  unfold RawNode.step at hx
  split at hx
  · cases hx; exact .keep (RS.refl _) (.inl rfl)
  · split at hx
    · exact stepRi_cases hty hx
    · cases hx; exact .keep (RS.refl _) (.inl rfl)

end R4
end RD
end Raft
end RaftModel
