import RaftProofs.ClusterConfD

/-!
C09 at the cluster level, part E: the campaign guard.  `Elected r r'` says that a call took the node
into a (pre-)candidacy it was not in before; `HupGuard r` is what `hup` checks before it campaigns.
Every call of the node model: `Elected st st' → HupGuard st`, and only `tick`, `campaign` and a
stepped `MsgHup` / `MsgTimeoutNow` can do it.
-/
namespace RaftModel
namespace Raft
open VoteOb Node

/-- candidate or pre-candidate -/
def Cand (r : Raft) : Prop := r.state = .candidate ∨ r.state = .preCandidate

/-- the call started an election: the node ends up (pre-)candidate, not in the role and term it was
in, and not by winning the pre-vote of a pre-candidacy it was already in (`campaign_after_pre_vote`:
that election was started — and guarded — when the node became pre-candidate) -/
def Elected (r r' : Raft) : Prop :=
  Cand r' ∧ ¬ (r'.state = r.state ∧ r'.term = r.term) ∧
    ¬ (r.state = .preCandidate ∧ r'.state = .candidate)

/-- what `hup` (raft.rs:1543) requires before any campaign: the node is promotable (a voter of its
own configuration) and its own scan `has_unapplied_conf_changes` over `(applied, committed]` (from
`max(applied + 1, first_index)`) finds no membership-change entry -/
def HupGuard (r : Raft) : Prop :=
  r.promotable = true ∧
    r.hasUnappliedConfChanges r.hupScanLow (r.raftLog.committed + 1) = .ok false

theorem slice_limit (l : RaftLog) (x lo hi : Nat) (ps : Option Nat) (b : Bool) :
    ({ l with maxApplyUnpersistedLogLimit := x } : RaftLog).slice lo hi ps b = l.slice lo hi ps b := rfl

theorem scanConf_limit (l : RaftLog) (x hi ps : Nat) : ∀ (fuel lo : Nat),
    scanConf { l with maxApplyUnpersistedLogLimit := x } hi ps fuel lo = scanConf l hi ps fuel lo := by
  intro fuel
  induction fuel with
  | zero => intro lo; rfl
  | succ n ih =>
    intro lo
    unfold scanConf
    rw [slice_limit]
    split
    · split
      · rfl
      · split
        · rfl
        · exact ih _
      · rfl
      · rfl
    · rfl

theorem reset_mcs (r : Raft) (t : Nat) :
    (r.reset t).maxCommittedSizePerReady = r.maxCommittedSizePerReady := by
  unfold reset
  simp only [mapProgress, abortLeaderTransfer, resetRandomizedElectionTimeout,
    ProgressTracker.resetVotes]
  split <;> rfl

/-- `become_follower` changes nothing `hup`'s guard reads -/
theorem hupGuard_becomeFollower (r : Raft) (t l : Nat) :
    HupGuard (r.becomeFollower t l) ↔ HupGuard r := by
  have hlog : (r.becomeFollower t l).raftLog = { r.raftLog with maxApplyUnpersistedLogLimit := 0 } := by
    unfold becomeFollower
    show ({ (r.reset t).raftLog with maxApplyUnpersistedLogLimit := 0 } : RaftLog) = _
    rw [(c02_reset_fields r t).2.1]
  have hm : (r.becomeFollower t l).maxCommittedSizePerReady = r.maxCommittedSizePerReady := by
    unfold becomeFollower; exact reset_mcs r t
  have hp := CV.becomeFollower_promotable r t l
  have hscan : (r.becomeFollower t l).hasUnappliedConfChanges (r.becomeFollower t l).hupScanLow
      ((r.becomeFollower t l).raftLog.committed + 1) =
      r.hasUnappliedConfChanges r.hupScanLow (r.raftLog.committed + 1) := by
    unfold hasUnappliedConfChanges hupScanLow
    rw [hlog, hm]
    show (if r.raftLog.committed ≤ r.raftLog.applied then Res.ok false
      else scanConf { r.raftLog with maxApplyUnpersistedLogLimit := 0 } _ _ _ _) = _
    rw [scanConf_limit]
    rfl
  unfold HupGuard
  rw [hp, hscan]

/-- `hup`: nothing, or the guard held -/
theorem hup_guard {r r' : Raft} {b : Bool} (h : r.hup b = .ok r') : r' = r ∨ HupGuard r := by
  unfold Raft.hup at h
  split at h
  · cases h; exact .inl rfl
  · split at h
    · cases h; exact .inl rfl
    · rename_i hp
      have hp' : r.promotable = true := by simpa using hp
      split at h
      · cases h
      · cases h
      · cases h; exact .inl rfl
      · rename_i hs
        exact .inr ⟨hp', hs⟩

theorem not_elected_same {r r' : Raft} (h1 : r'.state = r.state) (h2 : r'.term = r.term) :
    ¬ Elected r r' := fun h => h.2.1 ⟨h1, h2⟩

theorem not_elected_follower {r r' : Raft} (h1 : r'.state = .follower) : ¬ Elected r r' := by
  intro h
  rcases h.1 with g | g <;> (rw [h1] at g; cases g)

theorem not_elected_leader {r r' : Raft} (h1 : r'.state = .leader) : ¬ Elected r r' := by
  intro h
  rcases h.1 with g | g <;> (rw [h1] at g; cases g)

/-- `poll` then `maybe_commit_by_vote` on a (pre-)candidate never *starts* an election: the node stays
what it was, steps down, wins, or — a pre-candidate that won the pre-vote — goes on to the real
election of the candidacy it already had -/
theorem poll_not_elected {r r2 r' : Raft} {frm : Nat} {t : MsgType} {v : Bool} {res : VoteResult}
    {m : Message} (hs : r.state = .candidate ∨ r.state = .preCandidate)
    (hp : r.poll frm t v = .ok (r2, res)) (hc : r2.maybeCommitByVote m = .ok r') :
    ¬ Elected r r' := by
  obtain ⟨_, _, ht, _, _, _, hst⟩ := c02_maybeCommitByVote_spec hc
  have hfin : r'.state = r2.state ∨ r'.state = .follower := by
    rcases hst with ⟨g, _⟩ | ⟨_, g, _⟩
    · exact .inl g
    · exact .inr g
  unfold Raft.poll at hp
  obtain ⟨_, p2⟩ := c02_pollWith_cases hp
  rcases p2 with ⟨_, hpc, hf⟩ | ⟨_, _, hwon⟩ | ⟨_, e⟩ | ⟨_, e⟩
  · -- a pre-candidate won the pre-vote
    unfold Raft.campaignAfterPreVote at hf
    have h2 : r2.state = .candidate ∨ r2.state = .leader := by
      rcases c02_campaignWith_election (by decide) hf with w | w
      · obtain ⟨r0, _, _, _, _, _, k6⟩ := w.path
        exact .inr (c02_wonBy_spec k6).1
      · left; rw [w.state]; simp
    intro hel
    rcases hfin with g | g
    · rcases h2 with q | q
      · exact hel.2.2 ⟨hpc, g.trans q⟩
      · exact not_elected_leader (g.trans q) hel
    · exact not_elected_follower g hel
  · have h2 := (c02_wonBy_spec hwon).1
    rcases hfin with g | g
    · exact not_elected_leader (g.trans h2)
    · exact not_elected_follower g
  · subst e
    rcases hfin with g | g
    · exact not_elected_follower (g.trans rfl)
    · exact not_elected_follower g
  · subst e
    rcases hfin with g | g
    · exact not_elected_same g ht
    · exact not_elected_follower g

/-- **`Raft::step`, every role, every message: an election is started only through `hup`** — by a
`MsgHup` or (on a follower) a `MsgTimeoutNow` — **and only when the guard holds in the state the call
started from** -/
theorem step_elected {r r' : Raft} {m : Message} {e : Option RaftError}
    (h : r.step m = .ok (r', e)) (hel : Elected r r') :
    HupGuard r ∧ (m.msgType = .msgHup ∨ m.msgType = .msgTimeoutNow) := by
  obtain ⟨r1, b, ht, hc⟩ := c02_step_cases h
  -- the state after the term preamble: `r` itself (up to the queue), or `r` stepped down
  have h1 : (r1.state = r.state ∧ r1.term = r.term ∧ (HupGuard r1 → HupGuard r) ∧
        (r1.state = .candidate ∨ r1.state = .preCandidate → r1 = r)) ∨
      (b = true ∧ r1.state = .follower ∧ (HupGuard r1 → HupGuard r)) := by
    rcases c02_stepTerm_cases ht with ⟨e1, _⟩ | ⟨hb, _, _, x, hs, _⟩ | ⟨hb, _, _, _, l, e1⟩
    · subst e1; exact .inl ⟨rfl, rfl, fun g => g, fun _ => rfl⟩
    · left
      have := send_eq _ _ _ hs
      subst this
      exact ⟨rfl, rfl, fun g => g, fun hx => by
        subst hb
        rcases hc with ⟨_, e2⟩ | ⟨hb2, _⟩
        · subst e2
          exfalso
          exact not_elected_same rfl rfl hel
        · cases hb2⟩
    · subst e1
      exact .inr ⟨hb, rfl, (hupGuard_becomeFollower r m.term l).1⟩
  have viaHup : ∀ tr, r1.hup tr = .ok r' → HupGuard r := by
    intro tr hh
    rcases hup_guard hh with e1 | g
    · subst e1
      exfalso
      rcases h1 with ⟨a1, a2, _⟩ | ⟨_, a1, _⟩
      · exact not_elected_same a1 a2 hel
      · exact not_elected_follower a1 hel
    · rcases h1 with ⟨_, _, a3, _⟩ | ⟨_, _, a3⟩
      · exact a3 g
      · exact a3 g
  rcases hc with ⟨_, e1⟩ | ⟨_, ⟨hm, hh⟩ | ⟨_, hv⟩ | ⟨_, _, _, ⟨hs, hcand⟩ | ⟨hs, hf⟩ | ⟨hs, hl⟩⟩⟩
  · subst e1
    exfalso
    rcases h1 with ⟨a1, a2, _⟩ | ⟨a0, _⟩
    · exact not_elected_same a1 a2 hel
    · subst a0; rename_i hb; cases hb
  · exact ⟨viaHup false hh, .inl hm⟩
  · exfalso
    have hva := c02_stepVote_spec hv
    have hst : r'.state = r1.state ∨ r'.state = .follower := by
      rcases hva.decided with g | g
      · exact .inl (hva.granted g).2.1
      · rcases (hva.refused g).2 with ⟨q, _⟩ | ⟨_, q, _⟩
        · exact .inl q
        · exact .inr q
    rcases hst with g | g
    · rcases h1 with ⟨a1, a2, _⟩ | ⟨_, a1, _⟩
      · exact not_elected_same (g.trans a1) (hva.term.trans a2) hel
      · exact not_elected_follower (g.trans a1) hel
    · exact not_elected_follower g hel
  · exfalso
    have hr : r1 = r := by
      rcases h1 with ⟨_, _, _, a4⟩ | ⟨_, a1, _⟩
      · exact a4 hs
      · rcases hs with g | g <;> (rw [a1] at g; cases g)
    subst hr
    rcases c02_stepCandidate_cases hs hcand with e1 | ⟨_, _, hfr⟩ | ⟨_, r2, res, hp, hmc⟩
    · subst e1; exact not_elected_same rfl rfl hel
    · exact not_elected_follower (hfr.state.trans rfl) hel
    · exact poll_not_elected hs hp hmc hel
  · rcases c02_stepFollower_cases hs hf with tvs | ⟨hm, _, hh⟩
    · exfalso
      exact not_elected_follower (tvs.state.trans hs) hel
    · exact ⟨viaHup true hh, .inr hm⟩
  · exfalso
    rcases c02_stepLeader_cases hl with fr | ⟨g, _⟩
    · exact not_elected_leader (fr.state.trans hs) hel
    · exact not_elected_follower g hel

/-- **every route into a candidacy through `Raft::step`**: the guarded one (`hup`, by `MsgHup` or
`MsgTimeoutNow`), or the one continuation raft-rs does not guard again — a pre-candidate that receives
a pre-vote response, wins the pre-vote and starts the real election of the same campaign
(`campaign_after_pre_vote`) -/
theorem step_cand_routes {r r' : Raft} {m : Message} {e : Option RaftError}
    (h : r.step m = .ok (r', e)) (hc : Cand r') (hne : ¬ (r'.state = r.state ∧ r'.term = r.term)) :
    (HupGuard r ∧ (m.msgType = .msgHup ∨ m.msgType = .msgTimeoutNow)) ∨
    (r.state = .preCandidate ∧ r'.state = .candidate ∧ m.msgType = .msgRequestPreVoteResponse) := by
  by_cases hpc : r.state = .preCandidate ∧ r'.state = .candidate
  · obtain ⟨hp, hcd⟩ := hpc
    obtain ⟨r1, b, ht, hcs⟩ := c02_step_cases h
    have h1 : (r1.state = r.state ∧ (HupGuard r1 → HupGuard r) ∧ (b = true → r1 = r)) ∨
        (r1.state = .follower ∧ (HupGuard r1 → HupGuard r)) := by
      rcases c02_stepTerm_cases ht with ⟨e1, _⟩ | ⟨hb, _, _, x, hs, _⟩ | ⟨_, _, _, _, l, e1⟩
      · subst e1; exact .inl ⟨rfl, fun g => g, fun _ => rfl⟩
      · have := send_eq _ _ _ hs
        subst this
        exact .inl ⟨rfl, fun g => g, fun hb' => by rw [hb] at hb'; cases hb'⟩
      · subst e1
        exact .inr ⟨rfl, (hupGuard_becomeFollower r m.term l).1⟩
    have g1 : HupGuard r1 → HupGuard r := by
      rcases h1 with ⟨_, a, _⟩ | ⟨_, a⟩ <;> exact a
    have st1 : r1.state = .preCandidate ∨ r1.state = .follower := by
      rcases h1 with ⟨a, _⟩ | ⟨a, _⟩
      · exact .inl (a.trans hp)
      · exact .inr a
    have viaHup : ∀ tr, r1.hup tr = .ok r' → HupGuard r := by
      intro tr hh
      rcases hup_guard hh with e1 | g
      · subst e1
        rcases st1 with q | q <;> (rw [hcd] at q; cases q)
      · exact g1 g
    rcases hcs with ⟨_, e1⟩ | ⟨hbt, ⟨hm, hh⟩ | ⟨_, hv⟩ | ⟨_, _, _, ⟨hs, hcand⟩ | ⟨hs, hf⟩ | ⟨hs, hl⟩⟩⟩
    · subst e1
      rcases st1 with q | q <;> (rw [hcd] at q; cases q)
    · exact .inl ⟨viaHup false hh, .inl hm⟩
    · exfalso
      have hva := c02_stepVote_spec hv
      have hst : r'.state = r1.state ∨ r'.state = .follower := by
        rcases hva.decided with g | g
        · exact .inl (hva.granted g).2.1
        · rcases (hva.refused g).2 with ⟨q, _⟩ | ⟨_, q, _⟩
          · exact .inl q
          · exact .inr q
      rcases hst with g | g
      · rcases st1 with q | q <;> (rw [g, q] at hcd; cases hcd)
      · rw [g] at hcd; cases hcd
    · have hr : r1 = r := by
        rcases h1 with ⟨_, _, a⟩ | ⟨a, _⟩
        · exact a hbt
        · rcases hs with g | g <;> (rw [a] at g; cases g)
      subst hr
      rcases c02_stepCandidate_cases hs hcand with e1 | ⟨_, _, hfr⟩ | ⟨hty, _⟩
      · subst e1; rw [hp] at hcd; cases hcd
      · have : r'.state = .follower := hfr.state.trans rfl
        rw [this] at hcd; cases hcd
      · rcases hty with ⟨q, _⟩ | ⟨_, q, _⟩
        · rw [hp] at q; cases q
        · exact .inr ⟨hp, hcd, q⟩
    · rcases c02_stepFollower_cases hs hf with tvs | ⟨hm, _, hh⟩
      · exfalso
        rw [tvs.state, hs] at hcd; cases hcd
      · exact .inl ⟨viaHup true hh, .inr hm⟩
    · exfalso
      rcases c02_stepLeader_cases hl with fr | ⟨g, _⟩
      · rw [fr.state, hs] at hcd; cases hcd
      · rw [g] at hcd; cases hcd
  · exact .inl (step_elected h ⟨hc, hne, hpc⟩)

end Raft
end RaftModel
