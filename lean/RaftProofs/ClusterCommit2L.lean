import RaftProofs.ClusterCommit2K

/-!
Cluster-level commit safety, part 2L: pure facts about logical logs used by the main induction:
what an accepted `MsgAppend` keeps (`Accepted.keep`) and what the new log agrees with
(`Accepted.agree`), appended logs, and the stored part of a log.
-/
namespace RaftModel
open Cluster Raft Raft.CC

theorem LLog.matchTerm_of_entry (g : LLog) {i : Nat} {e : Entry} (h : g.entryAt i = some e) :
    g.matchTerm i e.term = true := by
  unfold LLog.matchTerm
  rw [g.term_of_entry h]
  simp

/-- an entry of a contiguous batch, by index -/
theorem contig_entry {start : Nat} {es : List Entry} (hc : ContigFrom start es) {k : Nat}
    (h1 : start ≤ k) (h2 : k < start + es.length) : ∃ e ∈ es, e.index = k := by
  have hlt : k - start < es.length := by omega
  refine ⟨es[k - start], List.getElem_mem hlt, ?_⟩
  have := hc (k - start) _ (List.getElem?_eq_some_iff.2 ⟨hlt, rfl⟩)
  omega

theorem contig_index_lt {start : Nat} {es : List Entry} (hc : ContigFrom start es) {e : Entry}
    (he : e ∈ es) : start ≤ e.index ∧ e.index < start + es.length := by
  obtain ⟨k, hk, rfl⟩ := List.getElem_of_mem he
  have := hc k _ (List.getElem?_eq_some_iff.2 ⟨hk, rfl⟩)
  omega

/-- **what an accepted batch keeps**: if the sender's log `L` (which holds the batch) agrees with `g`
wherever it holds an entry up to `i`, the new log equals `g` up to `i` -/
theorem Accepted.keep {g g' L : LLog} {m : Message} (ha : Accepted g g' m)
    (hc : ContigFrom (m.index + 1) m.entries)
    (hsub : ∀ e ∈ m.entries, L.entryAt e.index = some e) {i : Nat}
    (hcompat : ∀ j, j ≤ i → ∀ e, L.entryAt j = some e → g.entryAt j = some e) :
    ∀ k, k ≤ i → g'.entryAt k = g.entryAt k := by
  intro k hk
  rcases ha.cases with e | ⟨hnm, _, _⟩
  · rw [e]
  · by_cases hkm : k ≤ m.index
    · exact ha.low k hkm
    · -- some entry of the batch does not match: it lies beyond `i`
      have hex : ∃ e ∈ m.entries, g.matchTerm e.index e.term ≠ true := by
        apply Classical.byContradiction
        intro hno
        apply hnm
        intro e he
        apply Classical.byContradiction
        intro hne
        exact hno ⟨e, he, hne⟩
      obtain ⟨e, he, hne⟩ := hex
      have hei : i < e.index := by
        apply Classical.byContradiction
        intro hle
        have := hcompat e.index (by omega) e (hsub e he)
        exact hne (g.matchTerm_of_entry this)
      have hb := contig_index_lt hc he
      obtain ⟨ek, hek, hidx⟩ := contig_entry hc (k := k) (by omega) (by omega)
      have h1 := ha.ents ek hek
      have h2 := hcompat k hk ek (by rw [← hidx]; exact hsub ek hek)
      rw [hidx] at h1
      rw [h1, h2]

/-- **what the new log agrees with**: the sender's log, up to the end of the batch -/
theorem Accepted.agree {g g' L : LLog} {m : Message} (ha : Accepted g g' m)
    (hc : ContigFrom (m.index + 1) m.entries)
    (hsub : ∀ e ∈ m.entries, L.entryAt e.index = some e)
    (hanchor : ∀ k, k ≤ m.index → g.entryAt k = L.entryAt k) :
    ∀ k, k ≤ m.index + m.entries.length → g'.entryAt k = L.entryAt k := by
  intro k hk
  by_cases hkm : k ≤ m.index
  · rw [ha.low k hkm]; exact hanchor k hkm
  · obtain ⟨ek, hek, hidx⟩ := contig_entry hc (k := k) (by omega) (by omega)
    have h1 := ha.ents ek hek
    have h2 := hsub ek hek
    rw [hidx] at h1 h2
    rw [h1, h2]

/-- the entries of a message are entries of a log it is a sub-log of -/
theorem subw_entries {x : Message} {g : LLog} (h : SubW x g) :
    ∀ e ∈ x.entries, g.entryAt e.index = some e := by
  intro e he
  have hc : (msgLog x).Contig := h.1
  exact (h.2 e.index e (hc.entryAt_of_mem he)).1

/-- a term answer that is not `0`, above the snapshot point, is the term of an entry -/
theorem LLog.entry_of_term (g : LLog) {i t : Nat} (h : g.term i = .ok t) (ht : t ≠ 0)
    (hs : g.snapIdx < i) : ∃ e, g.entryAt i = some e ∧ e.term = t :=
  g.matchTerm_entry (by unfold LLog.matchTerm; rw [h]; simp) ht hs

namespace Cluster

/-- a leader's appended entries leave the old ones alone -/
theorem appended_old {a r : Raft} {es : List Entry} (h : Appended a r es) {k : Nat} {e : Entry}
    (he : a.raftLog.abs.entryAt k = some e) : r.raftLog.abs.entryAt k = some e :=
  (h.sub k e he).1

theorem Has.appended {a r : Raft} {es : List Entry} (h : Appended a r es) {c t : Nat}
    (hh : Has a.raftLog.abs c t) : Has r.raftLog.abs c t := by
  obtain ⟨e, he, ht⟩ := hh
  exact ⟨e, appended_old h he, ht⟩

theorem Has.of_eq {g g' : LLog} {c t : Nat} (h : g'.entryAt c = g.entryAt c) (hh : Has g c t) :
    Has g' c t := by
  obtain ⟨e, he, ht⟩ := hh
  exact ⟨e, h.trans he, ht⟩

end Cluster

namespace RaftLog

/-- below the unstable offset the logical log is the stored one (no pending snapshot) -/
theorem Inv.abs_store {l : RaftLog} (h : l.Inv) (hs : l.unstable.snapshot = none) {k : Nat}
    (hk : k < l.unstable.offset) : l.abs.entryAt k = (storeLog l.store).entryAt k := by
  have hp := h.storeWF.first_pos
  by_cases hk1 : l.store.firstIndex ≤ k
  · rw [h.entryAt_store hs hk1 hk]
    unfold LLog.entryAt storeLog
    simp only []
    rw [if_neg (by omega)]
    congr 1; omega
  · rw [abs_none hs]
    unfold LLog.entryAt storeLog
    simp only []
    rw [if_pos (by omega), if_pos (by omega)]

/-- … in particular up to `persisted` -/
theorem Inv.abs_store_persisted {l : RaftLog} (h : l.Inv) (hs : l.unstable.snapshot = none) {k : Nat}
    (hk : k ≤ l.persisted) : l.abs.entryAt k = (storeLog l.store).entryAt k :=
  h.abs_store hs (by have := h.persisted_lt_off; omega)

/-- with nothing unstable, the logical log is the stored one -/
theorem Inv.abs_store_all {l : RaftLog} (h : l.Inv) (hs : l.unstable.snapshot = none)
    (he : l.unstable.entries = []) (k : Nat) : l.abs.entryAt k = (storeLog l.store).entryAt k := by
  by_cases hk : k < l.unstable.offset
  · exact h.abs_store hs hk
  · have hoff := h.ents_empty hs he
    have hp := h.storeWF.first_pos
    have hl := h.storeWF.last_succ
    rw [h.entryAt_unstable (by omega), he]
    unfold LLog.entryAt storeLog
    simp only []
    rw [if_neg (by omega)]
    rw [List.getElem?_eq_none (by simp), List.getElem?_eq_none (by omega)]

end RaftLog
end RaftModel
