import RaftProofs.ClusterCommit5c2D

/-!
Cluster-level commit safety **with `batch_append`** (copy of `ClusterCommit2E.lean` over `Hyp2wB`), part 2E: **an acknowledgement of an old term cannot appear any more** —
once the term floor of node `v` is above `t`, every accepting append response of `v` for term `t`
that is ever in the transport is already in the transport or in `v`'s queue.
-/
namespace RaftModel
namespace ClusterB
open Node Raft Raft.CC Raft.CB Raft.Bt Cluster RaftProps.C02 RaftProps.C05

variable {cfg : JointConfig} {c0 : Nat} {h : List Sys}

/-- `x` is in the transport or in the queue of `v` -/
def Pending (s : Sys) (v : Nat) (x : Message) : Prop :=
  x ∈ s.net ∨ ∃ st, s.node v = some st ∧ x ∈ st.raft.msgs

theorem ack_back (H : Hyp2wB cfg c0 h) {n : Nat} {a b : Sys} (ha : h[n]? = some a)
    (hb : h[n + 1]? = some b) {v T : Nat} (hf : FloorAt a v T) {x : Message} (hack : isAck x)
    (hidx : x.index ≠ 0) (hfrm : x.frm = v) (ht : x.term < T) (hp : Pending b v x) :
    Pending a v x := by
  have hstep := H.steps n a b ha hb
  have hfb : FloorAt b v T := hf.step hstep.step
  obtain ⟨hq, _⟩ := ack_inv H n a ha
  -- a `call` / `deliver` step at node `k`
  have callCase : ∀ (k : Nat) (st st' : NState) (rnd : Option Nat) (op : NodeOp) (res : OpRes),
      a.node k = some st → (appOp op = true ∨ ∃ m, op = .step m ∧ m ∈ a.net ∧ m.to = k) →
      (∀ j, op ≠ .compact j) → Node.call st rnd op = .ok (res, st') → b = a.setNode k st' →
      Pending a v x := by
    intro k st st' rnd op res h1 hop hnc h4 hbe
    subst hbe
    rcases hp with g | ⟨stv, hv, g⟩
    · exact .inl g
    · by_cases hvk : v = k
      · subst hvk
        rw [node_setNode_self] at hv; cases hv
        rcases fresh_ack H ha hb h1 (node_setNode_self _ _ _) rfl hop hnc h4 g hack hidx with c | ⟨_, c2, _, _⟩
        · exact .inr ⟨st, h1, c⟩
        · have := (hfb st' (node_setNode_self a v st')).1
          omega
      · rw [node_setNode_ne a k v st' hvk] at hv
        exact .inr ⟨stv, hv, g⟩
  cases hstep with
  | call k st st' rnd op res h1 h2 h3 _ h4 =>
    exact callCase k st st' rnd op res h1 (.inl h2) h3 h4 rfl
  | deliver k st st' rnd m res h1 h2 h3 h4 =>
    exact callCase k st st' rnd (.step m) res h1 (.inr ⟨m, rfl, h2, h3⟩)
      (fun j hc => by cases hc) h4 rfl
  | send k st st' h1 h2 _ h3 =>
    have hq' : st'.raft.msgs = [] := by
      unfold Node.call at h3
      simp only [applyOp] at h3
      cases h3; rfl
    rcases hp with g | ⟨stv, hv, g⟩
    · rcases List.mem_append.1 g with g | g
      · exact .inl g
      · rename_i g0
        have := (hq k st h1 x g hack hidx).1
        rw [hfrm] at this
        subst this
        exact .inr ⟨st, h1, g⟩
    · have hv' : (a.setNode k st').node v = some stv := hv
      by_cases hvk : v = k
      · subst hvk
        rw [node_setNode_self] at hv'; cases hv'
        rw [hq'] at g; cases g
      · rw [node_setNode_ne a k v st' hvk] at hv'
        exact .inr ⟨stv, hv', g⟩
  | restart k st st' c rnd h1 h2 h3 =>
    rcases hp with g | ⟨stv, hv, g⟩
    · exact .inl g
    · by_cases hvk : v = k
      · subst hvk
        rw [node_setNode_self] at hv; cases hv
        rw [(CV.boot_booted c _ rnd st' h3).msgs] at g; cases g
      · rw [node_setNode_ne a k v st' hvk] at hv
        exact .inr ⟨stv, hv, g⟩

/-- **no late acknowledgements** -/
theorem ack_fwd (H : Hyp2wB cfg c0 h) {v T : Nat} {x : Message} (hack : isAck x)
    (hidx : x.index ≠ 0) (hfrm : x.frm = v) (ht : x.term < T) :
    ∀ (d n : Nat) (a b : Sys), h[n]? = some a → h[n + d]? = some b → FloorAt a v T →
      Pending b v x → Pending a v x := by
  intro d
  induction d with
  | zero => intro n a b ha hb _ hp; rw [Nat.add_zero, ha] at hb; cases hb; exact hp
  | succ d ih =>
    intro n a b ha hb hf hp
    have hlt : n + 1 < h.length := by
      rcases Nat.lt_or_ge (n + 1) h.length with c | c
      · exact c
      · have : h.length ≤ n + (d + 1) := by omega
        rw [List.getElem?_eq_none this] at hb; cases hb
    have h1 : h[n + 1]? = some h[n + 1] := List.getElem?_eq_some_iff.2 ⟨hlt, rfl⟩
    have hstep := H.steps n a _ ha h1
    have hp1 := ih (n + 1) _ b h1 (by rw [← hb]; congr 1; omega) (hf.step hstep.step) hp
    exact ack_back H ha h1 hf hack hidx hfrm ht hp1

end ClusterB
end RaftModel
