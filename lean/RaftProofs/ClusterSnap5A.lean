import RaftProofs.ClusterSnap4K

/-!
Commit safety of `ClusterSem` with compaction and snapshots **with `request_snapshot`**, part 5A
(the `noreq`-free versions of `restore_full` / `snap_call` of `ClusterSnap2A/2B`).

`Raft::restore` on a follower, *whatever its pending snapshot request*: with a request pending and a
snapshot that is not older than the requested index, the log is replaced by the snapshot even when it
holds the snapshot's last entry (`restore_full`, last case).  The outcome relation of one delivery of a
`MsgSnapshot` (`SnapOut` / `SnapCase`) is the one of `ClusterSnap2B` with the case `restored` widened:
the log does not hold the snapshot's last entry **or the log ends at or before the snapshot index**.
The latter is what a follower with a pending request guarantees (`ReqOk`, `ClusterSnap5C`:
`pending_request_snapshot ≠ 0 → last_index ≤ pending_request_snapshot`), since the request index is
the last index at the time of the request, the log does not grow while the request is pending, and the
served snapshot is not older than the request (fix F10 in `Raft::restore`).

Everything of this development lives in the namespace `RaftModel.Cluster.Snap5` (a copy of the
development `Snap2` = `ClusterSnap2C–2V`, `ClusterSnap4J–4K`, with `NoReq` replaced by `ReqOk`).
-/
namespace RaftModel
namespace Cluster
namespace Snap5
open Node Raft Raft.CC

/-- **`Raft::restore` on a follower**, completely (`Raft.CC.restore_full` without "no pending request") -/
theorem restore_full {r r' : Raft} {snap : Snapshot} {b : Bool} (hf : r.state = .follower)
    (h : r.restore snap = .ok (r', b)) :
    r'.msgs = r.msgs ∧ r'.term = r.term ∧ r'.state = r.state ∧ r'.id = r.id ∧
    r'.raftLog.store = r.raftLog.store ∧
    ((b = false ∧ r'.raftLog.unstable = r.raftLog.unstable ∧
        r'.raftLog.persisted = r.raftLog.persisted ∧ r'.raftLog.applied = r.raftLog.applied ∧
        (r'.raftLog.committed = r.raftLog.committed ∨
          (r.raftLog.committed ≤ snap.metadata.index ∧
            r'.raftLog.committed = snap.metadata.index ∧
            r.raftLog.matchTerm snap.metadata.index snap.metadata.term = .ok true ∧
            snap.metadata.index ≤ r.raftLog.lastIndex)) ∧
        r'.pendingRequestSnapshot = r.pendingRequestSnapshot) ∨
     (b = true ∧ r.raftLog.committed ≤ snap.metadata.index ∧
        (r.raftLog.matchTerm snap.metadata.index snap.metadata.term ≠ .ok true ∨
          (r.pendingRequestSnapshot ≠ 0 ∧ r.pendingRequestSnapshot ≤ snap.metadata.index)) ∧
        r.raftLog.restore snap = .ok r'.raftLog ∧ r'.pendingRequestSnapshot = 0)) := by
  unfold Raft.restore at h
  simp only at h
  split at h
  · cases h
    exact ⟨rfl, rfl, rfl, rfl, rfl, .inl ⟨rfl, rfl, rfl, rfl, .inl rfl, rfl⟩⟩
  · rename_i hge
    split at h
    · rename_i hst; exact absurd hf hst
    · split at h
      · cases h
        exact ⟨rfl, rfl, rfl, rfl, rfl, .inl ⟨rfl, rfl, rfl, rfl, .inl rfl, rfl⟩⟩
      · split at h
        · cases h
        · cases h
        · rename_i hff
          have hmt : r.raftLog.matchTerm snap.metadata.index snap.metadata.term = .ok true := by
            split at hff
            · split at hff
              · rename_i b1 hb1; cases hff; exact hb1
              · cases hff
              · cases hff
            · cases hff
          split at h
          · rename_i log hc
            cases h
            have hsame := c05_commitTo_same hc
            have hsto : log.store = r.raftLog.store := RaftModel.C06.commitTo_store hc
            have hfields : log.unstable = r.raftLog.unstable ∧ log.persisted = r.raftLog.persisted ∧
                log.applied = r.raftLog.applied := by
              unfold RaftLog.commitTo at hc
              split at hc
              · cases hc; exact ⟨rfl, rfl, rfl⟩
              · split at hc
                · cases hc
                · cases hc; exact ⟨rfl, rfl, rfl⟩
            refine ⟨rfl, rfl, rfl, rfl, hsto,
              .inl ⟨rfl, hfields.1, hfields.2.1, hfields.2.2, ?_, rfl⟩⟩
            by_cases hlt : r.raftLog.committed < snap.metadata.index
            · right
              rcases RaftLog.c04_commitTo_spec hc with ⟨h1, _⟩ | ⟨_, h2, heq⟩
              · omega
              · exact ⟨by omega, by rw [heq], hmt, h2⟩
            · left
              show log.committed = _
              rw [RaftLog.c04_commitTo_committed hc]
              exact Nat.max_eq_left (by omega)
          · cases h
          · cases h
        · rename_i hff
          have hnm : r.raftLog.matchTerm snap.metadata.index snap.metadata.term ≠ .ok true ∨
              (r.pendingRequestSnapshot ≠ 0 ∧ r.pendingRequestSnapshot ≤ snap.metadata.index) := by
            by_cases hcnd : r.pendingRequestSnapshot = 0 ∨
                snap.metadata.index < r.pendingRequestSnapshot
            · left
              intro hc
              rw [if_pos hcnd, hc] at hff
              cases hff
            · right
              exact ⟨fun h0 => hcnd (.inl h0), by omega⟩
          split at h
          · cases h
          · cases h
          · rename_i log hl
            split at h
            · cases h
            · rename_i prs hprs
              obtain ⟨⟨r1, cs1⟩, hpc, h⟩ := Res.bind_eq_ok h
              have hnl : ({ r with raftLog := log, prs := prs } : Raft).state ≠ .leader := by
                show r.state ≠ .leader; rw [hf]; intro hc; cases hc
              have e1 := postConfChange_nl_eq hnl hpc
              simp only at h
              split at h
              · cases h
              · split at h
                · cases h
                · split at h
                  · cases h
                  · obtain ⟨⟨pr1, b1⟩, _, h⟩ := Res.bind_eq_ok h
                    cases h
                    subst e1
                    have hsto := RaftModel.C06.restore_store hl
                    exact ⟨rfl, rfl, rfl, rfl, hsto, .inr ⟨rfl, by omega, hnm, hl, rfl⟩⟩

/-- the three things `handle_snapshot` can do to the log of a follower (`Raft.CC.SnapCase` with the
case `restored` widened: the log may hold the snapshot's last entry when it ends at or before the
snapshot index) -/
inductive SnapCase (l l' : RaftLog) (sn : Snapshot) (x : Message) : Prop
  /-- a stale snapshot, or one that does not name this node: nothing changes -/
  | kept (hu : l'.unstable = l.unstable) (hp : l'.persisted = l.persisted)
      (hc : l'.committed = l.committed) (hx : x.index = l'.committed)
  /-- the log holds the snapshot's last entry: the commit index is fast-forwarded -/
  | ffwd (hu : l'.unstable = l.unstable) (hp : l'.persisted = l.persisted)
      (hle : l.committed ≤ sn.metadata.index) (hc : l'.committed = sn.metadata.index)
      (hm : l.matchTerm sn.metadata.index sn.metadata.term = .ok true)
      (hl : sn.metadata.index ≤ l.lastIndex) (hx : x.index = l'.committed)
  /-- the log is replaced by the snapshot -/
  | restored (hle : l.committed ≤ sn.metadata.index)
      (hm : l.matchTerm sn.metadata.index sn.metadata.term ≠ .ok true ∨
        l.lastIndex ≤ sn.metadata.index)
      (hu : l'.unstable = l.unstable.restore sn) (hc : l'.committed = sn.metadata.index)
      (hp : l'.persisted = if l.committed < l.persisted then l.committed else l.persisted)
      (hx : x.index = sn.metadata.index)

/-- the outcome of delivering the `MsgSnapshot` `m` to a node (`st → st'`); `hprs` (new, last):
the pending snapshot request is cleared, or kept together with the unstable part of the log -/
inductive SnapOut (st st' : NState) (rnd : Option Nat) (m : Message) : Prop
  /-- not handled -/
  | skip (hr : st'.raft = { st.raft with nextRand := rnd })
  /-- handled by a follower of the message's term -/
  | handled (x : Message)
      (hs : st'.raft.state = .follower) (ht : m.term = st'.raft.term ∨ m.term = 0)
      (hle : st.raft.term ≤ st'.raft.term) (hid : st'.raft.id = st.raft.id)
      (hq : st'.raft.msgs = st.raft.msgs ++ [x]) (hack : isAck x) (hto : x.to = m.frm)
      (hfrm : x.frm = st'.raft.id) (hxt : x.term = st'.raft.term)
      (hsto : st'.raft.raftLog.store = st.raft.raftLog.store)
      (hcase : SnapCase st.raft.raftLog st'.raft.raftLog m.snapshot x)
      (hprs : st'.raft.pendingRequestSnapshot = 0 ∨
        (st'.raft.pendingRequestSnapshot = st.raft.pendingRequestSnapshot ∧
          st'.raft.raftLog.unstable = st.raft.raftLog.unstable))

/-- **one delivery of a `MsgSnapshot` at a node whose pending request (if any) is not below its last
index** -/
theorem snap_call {st st' : NState} {rnd : Option Nat} {m : Message} {res : OpRes}
    (hm : m.msgType = .msgSnapshot)
    (hreq : st.raft.pendingRequestSnapshot ≠ 0 →
      st.raft.raftLog.lastIndex ≤ st.raft.pendingRequestSnapshot)
    (h : Node.call st rnd (.step m) = .ok (res, st')) : SnapOut st st' rnd m := by
  unfold Node.call at h
  simp only [applyOp] at h
  obtain ⟨raft, e, hx, hr⟩ := CV.unitRes_ok h
  unfold RawNode.step at hx
  split at hx
  · cases hx; exact .skip hr
  · split at hx
    · rcases step_snap_unfold hm hx with ⟨r0, h0, hs0, hsl, htm, hprs⟩ | h1
      · have hsl' : SameLog ({ st.raft with nextRand := rnd } : Raft) r0 := hsl
        have hprs' : r0.pendingRequestSnapshot = st.raft.pendingRequestSnapshot := hprs
        unfold Raft.handleSnapshot at h0
        obtain ⟨⟨r1, b⟩, hres, h2⟩ := Res.bind_eq_ok h0
        obtain ⟨f1, f2, f3, f4, f5, fcase⟩ := restore_full hs0 hres
        -- the log of `r0` is the log of `st`, up to the apply limit
        have hlog : r0.raftLog.store = st.raft.raftLog.store ∧
            r0.raftLog.unstable = st.raft.raftLog.unstable ∧
            r0.raftLog.committed = st.raft.raftLog.committed ∧
            r0.raftLog.persisted = st.raft.raftLog.persisted ∧
            (∀ i t, r0.raftLog.matchTerm i t = st.raft.raftLog.matchTerm i t) ∧
            r0.raftLog.lastIndex = st.raft.raftLog.lastIndex := by
          rcases hsl'.2.2.2 with e1 | e1
          · rw [e1]; exact ⟨rfl, rfl, rfl, rfl, fun _ _ => rfl, rfl⟩
          · rw [e1]
            exact ⟨rfl, rfl, rfl, rfl, (c04_log_limit_irrelevant _ 0).2.1, rfl⟩
        obtain ⟨g1, g2, g3, g4, g5, g6⟩ := hlog
        have key : ∀ (x0 : Message), x0.msgType = .msgAppendResponse → x0.frm = 0 →
            x0.reject = false → x0.to = m.frm →
            r1.send x0 = .ok raft →
            SnapCase st.raft.raftLog r1.raftLog m.snapshot (r1.sendFill x0) →
            (r1.pendingRequestSnapshot = 0 ∨
              (r1.pendingRequestSnapshot = st.raft.pendingRequestSnapshot ∧
                r1.raftLog.unstable = st.raft.raftLog.unstable)) →
            SnapOut st st' rnd m := by
          intro x0 hty hfr hrej hto hsend hcase hp
          have heq := send_eq _ _ _ hsend
          obtain ⟨k1, k2, k3, k4, k5⟩ := sendFill_ack r1 x0 hty hfr
          refine .handled (r1.sendFill x0) ?_ ?_ ?_ ?_ ?_ ⟨by rw [sendFill_msgType]; exact hty,
            by rw [k5]; exact hrej⟩ (by rw [k4]; exact hto) ?_ ?_ ?_ ?_ ?_
          · rw [hr, heq]; show r1.state = _; rw [f3]; exact hs0
          · rw [hr, heq]; show m.term = r1.term ∨ _; rw [f2]; exact htm
          · rw [hr, heq]; show _ ≤ r1.term; rw [f2]; exact hsl'.2.2.1
          · rw [hr, heq]; show r1.id = _; rw [f4]; exact hsl'.2.1
          · rw [hr, heq]; show r1.msgs ++ _ = _; rw [f1, hsl'.1]
          · rw [hr, heq]; exact k1
          · rw [hr, heq]; exact k2
          · rw [hr, heq]; show r1.raftLog.store = _; rw [f5]; exact g1
          · rw [hr, heq]; exact hcase
          · rw [hr, heq]; exact hp
        rcases fcase with ⟨hb, c1, c2, _, c4, c5⟩ | ⟨hb, c1, c2, c3, c5⟩
        · subst hb
          simp only [Bool.false_eq_true, if_false] at h2
          refine key _ rfl rfl rfl rfl h2 ?_ (.inr ⟨by rw [c5, hprs'], by rw [c1, g2]⟩)
          obtain ⟨_, _, k3, _, _⟩ := sendFill_ack r1
            ({ msgType := .msgAppendResponse, to := m.frm, index := r1.raftLog.committed } : Message)
            rfl rfl
          rcases c4 with c | ⟨d1, d2, d3, d4⟩
          · exact .kept (by rw [c1, g2]) (by rw [c2, g4]) (by rw [c, g3]) k3
          · exact .ffwd (by rw [c1, g2]) (by rw [c2, g4]) (by rw [← g3]; exact d1) d2
              (by rw [← g5]; exact d3) (by rw [← g6]; exact d4) k3
        · subst hb
          simp only [if_true] at h2
          refine key _ rfl rfl rfl rfl h2 ?_ (.inl c5)
          obtain ⟨_, _, k3, _, _⟩ := sendFill_ack r1
            ({ msgType := .msgAppendResponse, to := m.frm, index := r1.raftLog.lastIndex } : Message)
            rfl rfl
          obtain ⟨q1, q2, q3, _, _⟩ := restore_eq c3
          have hlast : r1.raftLog.lastIndex = m.snapshot.metadata.index :=
            RaftProps.C20.restore_lastIndex _ _ _ c3
          have hmm : st.raft.raftLog.matchTerm m.snapshot.metadata.index m.snapshot.metadata.term ≠
              .ok true ∨ st.raft.raftLog.lastIndex ≤ m.snapshot.metadata.index := by
            rcases c2 with c | ⟨c, c'⟩
            · left; rw [← g5]; exact c
            · right
              rw [hprs'] at c c'
              exact Nat.le_trans (hreq c) c'
          exact .restored (by rw [← g3]; exact c1) hmm (by rw [q1, g2]) q2
            (by rw [q3, g3, g4]) (by rw [k3]; exact hlast)
      · exact .skip (by rw [hr, h1])
    · cases hx; exact .skip hr

/-- what the delivery of a `MsgSnapshot` queues: at most one accepting append response -/
theorem SnapOut.msgs {st st' : NState} {rnd : Option Nat} {m : Message} (h : SnapOut st st' rnd m) :
    ∀ x ∈ st'.raft.msgs, x ∈ st.raft.msgs ∨ isAck x := by
  intro x hx
  cases h with
  | skip hr => rw [hr] at hx; exact .inl hx
  | handled y _ _ _ _ hq hack _ _ _ _ _ _ =>
    rw [hq] at hx
    rcases List.mem_append.1 hx with c | c
    · exact .inl c
    · rw [List.mem_singleton.1 c]; exact .inr hack

end Snap5
end Cluster
end RaftModel
