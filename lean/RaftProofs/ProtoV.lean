import RaftModel.Proto

/-!
The **vote layer** of the abstract protocol P: terms, votes, durable images, generated/released
grants, elections.  `VSys` is the projection of a `PSys` onto the fields this layer reads; every P
event acts on the projection as one of ten V-transitions (or as the identity), and the invariant
`InvV` is preserved by each of them.  Consequences: at most one vote per (term, voter) is ever
released (across crashes), at most one leader per term, a leader's term and self-vote are durable.
-/
namespace RaftModel.P

/-- `a` is not later than `b` in the (term, vote) order of one node's history:
the term grew, or the term is the same and the vote was either not yet cast or is the same -/
def le2 (a b : Nat × Nat) : Prop := a.1 < b.1 ∨ (a.1 = b.1 ∧ (a.2 = 0 ∨ a.2 = b.2))

theorem le2_refl (a : Nat × Nat) : le2 a a := Or.inr ⟨rfl, Or.inr rfl⟩

structure VNode where
  term : Nat
  vote : Nat
  dterm : Nat
  dvote : Nat
  role : Nat
  pend : List (Nat × Nat)
  og : List Grant
  deriving Repr

def VNode.d (n : VNode) : Nat × Nat := (n.dterm, n.dvote)
def VNode.vol (n : VNode) : Nat × Nat := (n.term, n.vote)

structure VSys where
  nodes : Nat → VNode
  grants : List Grant
  elected : List (Nat × Nat)
  ecfgs : List (Nat × Cfg) := []

def grantOf : OMsg → Option Grant
  | .grant t v c _ => some ⟨t, v, c⟩
  | _ => none

def vproj (n : PNode) : VNode :=
  { term := n.term, vote := n.vote, dterm := n.dterm, dvote := n.dvote, role := n.role,
    pend := n.pending.map (fun im => (im.term, im.vote)), og := n.outbox.filterMap grantOf }

def vsys (s : PSys) : VSys :=
  { nodes := fun j => vproj (s.nodes j), grants := s.grants, elected := s.elected, ecfgs := s.ecfgs }

def updV (f : Nat → VNode) (i : Nat) (n : VNode) : Nat → VNode := fun j => if j = i then n else f j

@[simp] theorem updV_same (f : Nat → VNode) (i : Nat) (n : VNode) : updV f i n i = n := by simp [updV]
theorem updV_other (f : Nat → VNode) (i j : Nat) (n : VNode) (h : j ≠ i) : updV f i n j = f j := by
  simp [updV, h]

theorem vproj_upd (f : Nat → PNode) (i : Nat) (n : PNode) :
    (fun j => vproj (upd f i n j)) = updV (fun j => vproj (f j)) i (vproj n) := by
  funext j; by_cases h : j = i <;> simp [upd, updV, h]

/-- membership in the union of the grants node `i` has generated and those it has released -/
def inU (v : VSys) (i : Nat) (g : Grant) : Prop := g ∈ (v.nodes i).og ∨ (g ∈ v.grants ∧ g.voter = i)

structure InvV (v : VSys) : Prop where
  dv : ∀ i, le2 (v.nodes i).d (v.nodes i).vol
  pa : ∀ i, ∀ p ∈ (v.nodes i).pend, le2 (v.nodes i).d p ∧ le2 p (v.nodes i).vol
  pp : ∀ i, (v.nodes i).pend.Pairwise le2
  go : ∀ i, ∀ g ∈ (v.nodes i).og, g.voter = i
  g1 : ∀ g ∈ v.grants, g.cand ≠ 0 ∧ (g.term < (v.nodes g.voter).dterm ∨
          (g.term = (v.nodes g.voter).dterm ∧ (v.nodes g.voter).dvote = g.cand))
  gu : ∀ i g, inU v i g → g.cand ≠ 0 ∧ g.term ≤ (v.nodes i).term ∧
          (g.term = (v.nodes i).term → (v.nodes i).vote = g.cand)
  gc : ∀ i a b, inU v i a → inU v i b → a.term = b.term → a.cand = b.cand
  el : ∀ p ∈ v.elected, (⟨p.1, p.2, p.2⟩ : Grant) ∈ v.grants ∧
          ∃ cfg q, (p.1, cfg) ∈ v.ecfgs ∧ cfg.isQuorum q = true ∧ ∀ x ∈ q, (⟨p.1, x, p.2⟩ : Grant) ∈ v.grants
  eu : ∀ a ∈ v.elected, ∀ b ∈ v.elected, a.1 = b.1 → a.2 = b.2
  ld : ∀ i, (v.nodes i).role = 2 → ((v.nodes i).term, i) ∈ v.elected ∧
          (v.nodes i).dterm = (v.nodes i).term ∧ (v.nodes i).dvote = i ∧ (v.nodes i).vote = i ∧ 0 < i

def vinit : VSys :=
  { nodes := fun _ => ⟨0, 0, 0, 0, 0, [], []⟩, grants := [], elected := [], ecfgs := [] }

theorem vsys_init : vsys init = vinit := by
  simp [vsys, init, vinit, vproj]

theorem invV_init : InvV vinit := by
  constructor <;> simp [vinit, le2, VNode.d, VNode.vol, inU]


/-! ### the node-level effect of the ten V-transitions -/

def setN (v : VSys) (i : Nat) (n : VNode) : VSys := { v with nodes := updV v.nodes i n }

def nBump (n : VNode) (t : Nat) : VNode := { n with term := t, vote := 0, role := 0 }
def nCampaign (n : VNode) (i : Nat) : VNode := { n with vote := i, role := 1, og := n.og ++ [⟨n.term, i, i⟩] }
def nGrant (n : VNode) (i c : Nat) : VNode := { n with vote := c, role := 0, og := n.og ++ [⟨n.term, i, c⟩] }
def nRdy (n : VNode) : VNode := { n with pend := n.pend ++ [n.vol] }
def nPersist (n : VNode) (p : Nat × Nat) (k : Nat) : VNode := { n with dterm := p.1, dvote := p.2, pend := n.pend.drop k }
def nRelease (n : VNode) (k : Nat) : VNode := { n with og := n.og.eraseIdx k }
def nCrash (n : VNode) : VNode := { n with pend := [], og := [], role := 0 }
def nRestart (n : VNode) : VNode := { n with term := n.dterm, vote := n.dvote, pend := [], og := [], role := 0 }
def nWin (n : VNode) : VNode := { n with role := 2 }
def nRole0 (n : VNode) : VNode := { n with role := 0 }

/-! ### the ten V-transitions preserve the invariant -/

section transitions
variable {v : VSys}

/-- frame: a transition that touches only node `i` and neither grants nor elected leaves the facts
about other nodes alone; we restate each clause for node `i` only -/
theorem invV_of_node (h : InvV v) (i : Nat) (n' : VNode)
    (hgr : True)
    (dv : le2 n'.d n'.vol)
    (pa : ∀ p ∈ n'.pend, le2 n'.d p ∧ le2 p n'.vol)
    (pp : n'.pend.Pairwise le2)
    (go : ∀ g ∈ n'.og, g.voter = i)
    (g1 : ∀ g ∈ v.grants, g.voter = i → (g.term < n'.dterm ∨ (g.term = n'.dterm ∧ n'.dvote = g.cand)))
    (gu : ∀ g, (g ∈ n'.og ∨ (g ∈ v.grants ∧ g.voter = i)) → g.cand ≠ 0 ∧ g.term ≤ n'.term ∧
            (g.term = n'.term → n'.vote = g.cand))
    (gc : ∀ a b, (a ∈ n'.og ∨ (a ∈ v.grants ∧ a.voter = i)) → (b ∈ n'.og ∨ (b ∈ v.grants ∧ b.voter = i)) →
            a.term = b.term → a.cand = b.cand)
    (ld : n'.role = 2 → (n'.term, i) ∈ v.elected ∧ n'.dterm = n'.term ∧ n'.dvote = i ∧ n'.vote = i ∧ 0 < i) :
    InvV (setN v i n') := by
  unfold setN
  constructor
  · intro j; by_cases hj : j = i
    · subst hj; simpa using dv
    · simpa [updV_other _ _ _ _ hj] using h.dv j
  · intro j; by_cases hj : j = i
    · subst hj; simpa using pa
    · simpa [updV_other _ _ _ _ hj] using h.pa j
  · intro j; by_cases hj : j = i
    · subst hj; simpa using pp
    · simpa [updV_other _ _ _ _ hj] using h.pp j
  · intro j; by_cases hj : j = i
    · subst hj; simpa using go
    · simpa [updV_other _ _ _ _ hj] using h.go j
  · intro g hg
    refine ⟨(h.g1 g hg).1, ?_⟩
    by_cases hj : g.voter = i
    · have := g1 g hg hj
      simp only [hj, updV_same]; exact this
    · simp only [updV_other _ _ _ _ hj]; exact (h.g1 g hg).2
  · intro j g hg
    by_cases hj : j = i
    · subst hj
      simp only [inU, updV_same] at hg
      simpa using gu g hg
    · simp only [inU, updV_other _ _ _ _ hj] at hg ⊢
      exact h.gu j g hg
  · intro j a b ha hb
    by_cases hj : j = i
    · subst hj
      simp only [inU, updV_same] at ha hb
      exact gc a b ha hb
    · simp only [inU, updV_other _ _ _ _ hj] at ha hb
      exact h.gc j a b ha hb
  · exact h.el
  · exact h.eu
  · intro j; by_cases hj : j = i
    · subst hj; simpa using ld
    · simpa [updV_other _ _ _ _ hj] using h.ld j

/-- T1: adopt a higher term -/
theorem invV_bump (h : InvV v) (i t : Nat) (ht : (v.nodes i).term < t) :
    InvV (setN v i (nBump (v.nodes i) t)) := by
  unfold nBump
  have hdv := h.dv i
  apply invV_of_node h i _ trivial
  · simp only [le2, VNode.d, VNode.vol] at hdv ⊢; omega
  · intro p hp
    have := h.pa i p hp
    refine ⟨this.1, ?_⟩
    have h2 := this.2
    simp only [le2, VNode.vol] at h2 ⊢; omega
  · exact h.pp i
  · exact h.go i
  · intro g hg hv; have := (h.g1 g hg).2; rw [hv] at this; exact this
  · intro g hg
    have := h.gu i g hg
    refine ⟨this.1, ?_, ?_⟩
    · simp only; omega
    · simp only; intro he; omega
  · intro a b ha hb; exact h.gc i a b ha hb
  · simp

/-- T2: campaign — vote for oneself, generate the self-grant -/
theorem invV_campaign (h : InvV v) (i : Nat) (hv : (v.nodes i).vote = 0) (hi : 0 < i) :
    InvV (setN v i (nCampaign (v.nodes i) i)) := by
  unfold nCampaign
  have hdv := h.dv i
  -- no generated or released grant of `i` carries the current term yet
  have hfresh : ∀ g, inU v i g → g.term < (v.nodes i).term := by
    intro g hg
    have := h.gu i g hg
    rcases Nat.lt_or_ge g.term (v.nodes i).term with hlt | hge
    · exact hlt
    · have he : g.term = (v.nodes i).term := by omega
      have hvg := this.2.2 he
      rw [hv] at hvg
      exact absurd hvg.symm this.1
  apply invV_of_node h i _ trivial
  · simp only [le2, VNode.d, VNode.vol] at hdv ⊢; rw [hv] at hdv; omega
  · intro p hp
    have := h.pa i p hp
    refine ⟨this.1, ?_⟩
    have h2 := this.2
    simp only [le2, VNode.vol] at h2 ⊢; rw [hv] at h2; omega
  · exact h.pp i
  · intro g hg
    simp only [List.mem_append, List.mem_singleton] at hg
    rcases hg with hg | hg
    · exact h.go i g hg
    · rw [hg]
  · intro g hg hvo; have := (h.g1 g hg).2; rw [hvo] at this; exact this
  · intro g hg
    simp only [List.mem_append, List.mem_singleton] at hg
    rcases hg with (hg | hg) | hg
    · have := h.gu i g (Or.inl hg); have hf := hfresh g (Or.inl hg)
      exact ⟨this.1, this.2.1, fun he => by simp only at he; omega⟩
    · subst hg; simp; omega
    · have := h.gu i g (Or.inr hg); have hf := hfresh g (Or.inr hg)
      exact ⟨this.1, this.2.1, fun he => by simp only at he; omega⟩
  · intro a b ha hb hab
    simp only [List.mem_append, List.mem_singleton] at ha hb
    have key : ∀ g, ((g ∈ (v.nodes i).og ∨ g = ⟨(v.nodes i).term, i, i⟩) ∨ (g ∈ v.grants ∧ g.voter = i)) →
        (inU v i g ∧ g.term < (v.nodes i).term) ∨ g = ⟨(v.nodes i).term, i, i⟩ := by
      intro g hg
      rcases hg with (hg | hg) | hg
      · exact Or.inl ⟨Or.inl hg, hfresh g (Or.inl hg)⟩
      · exact Or.inr hg
      · exact Or.inl ⟨Or.inr hg, hfresh g (Or.inr hg)⟩
    rcases key a ha with ⟨hua, hla⟩ | hea <;> rcases key b hb with ⟨hub, hlb⟩ | heb
    · exact h.gc i a b hua hub hab
    · subst heb; simp only at hab; omega
    · subst hea; simp only at hab; omega
    · rw [hea, heb]
  · simp

/-- T3: decide a vote for another candidate, generate the grant -/
theorem invV_grant (h : InvV v) (i c : Nat) (hv : (v.nodes i).vote = 0 ∨ (v.nodes i).vote = c)
    (hc : 0 < c) :
    InvV (setN v i (nGrant (v.nodes i) i c)) := by
  unfold nGrant
  have hdv := h.dv i
  -- grants of the current term already name `c`
  have hcur : ∀ g, inU v i g → g.term = (v.nodes i).term → g.cand = c := by
    intro g hg he
    have := h.gu i g hg
    have hvg := this.2.2 he
    rcases hv with hv | hv
    · rw [hv] at hvg; exact absurd hvg.symm this.1
    · rw [hv] at hvg; exact hvg.symm
  apply invV_of_node h i _ trivial
  · simp only [le2, VNode.d, VNode.vol] at hdv ⊢
    rcases hv with hv | hv <;> rw [hv] at hdv <;> omega
  · intro p hp
    have := h.pa i p hp
    refine ⟨this.1, ?_⟩
    have h2 := this.2
    simp only [le2, VNode.vol] at h2 ⊢
    rcases hv with hv | hv <;> rw [hv] at h2 <;> omega
  · exact h.pp i
  · intro g hg
    simp only [List.mem_append, List.mem_singleton] at hg
    rcases hg with hg | hg
    · exact h.go i g hg
    · rw [hg]
  · intro g hg hvo; have := (h.g1 g hg).2; rw [hvo] at this; exact this
  · intro g hg
    simp only [List.mem_append, List.mem_singleton] at hg
    rcases hg with (hg | hg) | hg
    · have := h.gu i g (Or.inl hg)
      exact ⟨this.1, this.2.1, fun he => (hcur g (Or.inl hg) he).symm⟩
    · subst hg; simp; omega
    · have := h.gu i g (Or.inr hg)
      exact ⟨this.1, this.2.1, fun he => (hcur g (Or.inr hg) he).symm⟩
  · intro a b ha hb hab
    simp only [List.mem_append, List.mem_singleton] at ha hb
    have key : ∀ g, ((g ∈ (v.nodes i).og ∨ g = ⟨(v.nodes i).term, i, c⟩) ∨ (g ∈ v.grants ∧ g.voter = i)) →
        inU v i g ∨ g = ⟨(v.nodes i).term, i, c⟩ := by
      intro g hg
      rcases hg with (hg | hg) | hg
      · exact Or.inl (Or.inl hg)
      · exact Or.inr hg
      · exact Or.inl (Or.inr hg)
    rcases key a ha with hua | hea <;> rcases key b hb with hub | heb
    · exact h.gc i a b hua hub hab
    · subst heb; simp only at hab ⊢; exact hcur a hua hab
    · subst hea; simp only at hab ⊢; exact (hcur b hub hab.symm).symm
    · rw [hea, heb]
  · simp

/-- T4: take an image of the volatile (term, vote) at a Ready boundary -/
theorem invV_rdy (h : InvV v) (i : Nat) :
    InvV (setN v i (nRdy (v.nodes i))) := by
  unfold nRdy
  apply invV_of_node h i _ trivial
  · exact h.dv i
  · intro p hp
    simp only [List.mem_append, List.mem_singleton] at hp
    rcases hp with hp | hp
    · exact h.pa i p hp
    · subst hp; exact ⟨h.dv i, le2_refl _⟩
  · simp only [List.pairwise_append, List.pairwise_cons, List.mem_singleton]
    refine ⟨h.pp i, ⟨by simp, List.Pairwise.nil⟩, ?_⟩
    intro a ha b hb; subst hb; exact (h.pa i a ha).2
  · exact h.go i
  · intro g hg hvo; have := (h.g1 g hg).2; rw [hvo] at this; exact this
  · intro g hg; exact h.gu i g hg
  · intro a b ha hb; exact h.gc i a b ha hb
  · exact h.ld i

theorem split_at (l : List (Nat × Nat)) (k : Nat) (p : Nat × Nat) (hk : 0 < k) (hp : l[k - 1]? = some p) :
    l = l.take (k - 1) ++ p :: l.drop k := by
  have hlt : k - 1 < l.length := (List.getElem?_eq_some_iff.mp hp).1
  have hpe : l[k - 1] = p := (List.getElem?_eq_some_iff.mp hp).2
  have := List.take_append_drop (k - 1) l
  rw [List.drop_eq_getElem_cons hlt, hpe] at this
  have e : k - 1 + 1 = k := by omega
  rw [e] at this
  exact this.symm

/-- T5: make the `k`-th pending image durable -/
theorem invV_persist (h : InvV v) (i k : Nat) (p : Nat × Nat) (hk : 0 < k)
    (hp : (v.nodes i).pend[k - 1]? = some p) :
    InvV (setN v i (nPersist (v.nodes i) p k)) := by
  unfold nPersist
  have hmem : p ∈ (v.nodes i).pend := List.mem_of_getElem? hp
  have hpa := h.pa i p hmem
  have hsplit := split_at _ k p hk hp
  have hpp := h.pp i
  rw [hsplit, List.pairwise_append] at hpp
  have hafter : ∀ x ∈ (v.nodes i).pend.drop k, le2 p x := by
    have := hpp.2.1
    rw [List.pairwise_cons] at this
    exact this.1
  have hdp := hpa.1
  apply invV_of_node h i _ trivial
  · exact hpa.2
  · intro x hx
    exact ⟨hafter x hx, (h.pa i x (List.mem_of_mem_drop hx)).2⟩
  · have := hpp.2.1
    rw [List.pairwise_cons] at this
    exact this.2
  · exact h.go i
  · intro g hg hvo
    have := h.g1 g hg
    have hc := this.1
    have h2 := this.2
    rw [hvo] at h2
    simp only [le2, VNode.d] at hdp
    simp only
    rcases hdp with hlt | ⟨he, hv0 | hve⟩
    · omega
    · rcases h2 with h2 | ⟨h2, h3⟩
      · omega
      · rw [hv0] at h3; exact absurd h3.symm hc
    · rcases h2 with h2 | ⟨h2, h3⟩
      · omega
      · right; exact ⟨by omega, by rw [← hve]; exact h3⟩
  · intro g hg; exact h.gu i g hg
  · intro a b ha hb; exact h.gc i a b ha hb
  · intro hr
    have := h.ld i hr
    refine ⟨this.1, ?_, ?_, this.2.2.2.1, this.2.2.2.2⟩
    · have h2 := hpa.2
      simp only [le2, VNode.d, VNode.vol] at hdp h2
      simp only; omega
    · have h2 := hpa.2
      simp only [le2, VNode.d, VNode.vol] at hdp h2
      simp only
      have hi := this.2.2.2.2
      rcases hdp with hlt | ⟨he, hv0 | hve⟩
      · omega
      · omega
      · omega

/-- T6: release a generated grant whose promise is durable -/
theorem invV_release (h : InvV v) (i k : Nat) (g : Grant) (hg : (v.nodes i).og[k]? = some g)
    (hr : g.term < (v.nodes i).dterm ∨ ((v.nodes i).dterm = g.term ∧ (v.nodes i).dvote = g.cand)) :
    InvV { setN v i (nRelease (v.nodes i) k) with grants := g :: v.grants } := by
  unfold setN nRelease
  have hmem : g ∈ (v.nodes i).og := List.mem_of_getElem? hg
  have hvo : g.voter = i := h.go i g hmem
  have hsub : ∀ x, x ∈ (v.nodes i).og.eraseIdx k → x ∈ (v.nodes i).og := fun x hx => List.mem_of_mem_eraseIdx hx
  -- membership in the new union implies membership in the old one
  have hU : ∀ j x, inU { setN v i (nRelease (v.nodes i) k) with grants := g :: v.grants } j x → inU v j x := by
    unfold setN nRelease
    intro j x hx
    by_cases hj : j = i
    · subst hj
      simp only [inU, updV_same, List.mem_cons] at hx
      rcases hx with hx | ⟨hx | hx, hxv⟩
      · exact Or.inl (hsub x hx)
      · subst hx; exact Or.inl hmem
      · exact Or.inr ⟨hx, hxv⟩
    · simp only [inU, updV_other _ _ _ _ hj, List.mem_cons] at hx
      rcases hx with hx | ⟨hx | hx, hxv⟩
      · exact Or.inl hx
      · subst hx; exact absurd (hxv.symm.trans hvo) hj
      · exact Or.inr ⟨hx, hxv⟩
  constructor
  · intro j; by_cases hj : j = i
    · subst hj; simpa [VNode.d, VNode.vol] using h.dv j
    · simpa [updV_other _ _ _ _ hj] using h.dv j
  · intro j; by_cases hj : j = i
    · subst hj; simpa [VNode.d, VNode.vol] using h.pa j
    · simpa [updV_other _ _ _ _ hj] using h.pa j
  · intro j; by_cases hj : j = i
    · subst hj; simpa using h.pp j
    · simpa [updV_other _ _ _ _ hj] using h.pp j
  · intro j; by_cases hj : j = i
    · subst hj; simp only [updV_same]; intro x hx; exact h.go j x (hsub x hx)
    · simpa [updV_other _ _ _ _ hj] using h.go j
  · intro x hx
    simp only [List.mem_cons] at hx
    rcases hx with hx | hx
    · subst hx
      refine ⟨(h.gu i x (Or.inl hmem)).1, ?_⟩
      simp only [hvo, updV_same]
      rcases hr with hr | hr
      · exact Or.inl hr
      · exact Or.inr ⟨hr.1.symm, hr.2⟩
    · refine ⟨(h.g1 x hx).1, ?_⟩
      by_cases hj : x.voter = i
      · simp only [hj, updV_same]; have := (h.g1 x hx).2; rw [hj] at this; exact this
      · simp only [updV_other _ _ _ _ hj]; exact (h.g1 x hx).2
  · intro j x hx
    have := h.gu j x (hU j x hx)
    by_cases hj : j = i
    · subst hj; simpa using this
    · simpa [updV_other _ _ _ _ hj] using this
  · intro j a b ha hb; exact h.gc j a b (hU j a ha) (hU j b hb)
  · intro p hp
    obtain ⟨hs, cfg, q, hc, hq, hall⟩ := h.el p hp
    exact ⟨List.mem_cons_of_mem _ hs, cfg, q, hc, hq, fun x hx => List.mem_cons_of_mem _ (hall x hx)⟩
  · exact h.eu
  · intro j; by_cases hj : j = i
    · subst hj; simpa using h.ld j
    · simpa [updV_other _ _ _ _ hj] using h.ld j

/-- T7: crash — volatile images and generated-but-unreleased messages are lost -/
theorem invV_crash (h : InvV v) (i : Nat) :
    InvV (setN v i (nCrash (v.nodes i))) := by
  unfold nCrash
  apply invV_of_node h i _ trivial
  · exact h.dv i
  · simp
  · simp
  · simp
  · intro g hg hvo; have := (h.g1 g hg).2; rw [hvo] at this; exact this
  · intro g hg
    simp only [List.not_mem_nil, false_or] at hg
    exact h.gu i g (Or.inr hg)
  · intro a b ha hb
    simp only [List.not_mem_nil, false_or] at ha hb
    exact h.gc i a b (Or.inr ha) (Or.inr hb)
  · simp

/-- T8: restart from the durable image -/
theorem invV_restart (h : InvV v) (i : Nat) :
    InvV (setN v i (nRestart (v.nodes i))) := by
  unfold nRestart
  apply invV_of_node h i _ trivial
  · exact le2_refl _
  · simp
  · simp
  · simp
  · intro g hg hvo; have := (h.g1 g hg).2; rw [hvo] at this; exact this
  · intro g hg
    simp only [List.not_mem_nil, false_or] at hg
    have := h.g1 g hg.1
    rw [hg.2] at this
    refine ⟨this.1, ?_, ?_⟩
    · simp only; omega
    · simp only; intro he; rcases this.2 with h2 | h2
      · omega
      · exact h2.2
  · intro a b ha hb
    simp only [List.not_mem_nil, false_or] at ha hb
    exact h.gc i a b (Or.inr ha) (Or.inr hb)
  · simp

/-- T9: win an election with a quorum of released grants (own durable self-vote included) -/
theorem invV_win (h : InvV v) (i : Nat) (cfg : Cfg) (q : List Nat) (hq : cfg.isQuorum q = true)
    (hvote : (v.nodes i).vote = i)
    (hself : (⟨(v.nodes i).term, i, i⟩ : Grant) ∈ v.grants)
    (hall : ∀ x ∈ q, (⟨(v.nodes i).term, x, i⟩ : Grant) ∈ v.grants)
    (hmeet : ∀ p ∈ v.ecfgs, p.1 = (v.nodes i).term → ∀ q', p.2.isQuorum q' = true → ∃ x, x ∈ q ∧ x ∈ q') :
    InvV { setN v i (nWin (v.nodes i)) with elected := ((v.nodes i).term, i) :: v.elected,
                                             ecfgs := ((v.nodes i).term, cfg) :: v.ecfgs } := by
  unfold setN nWin
  have hg1 := h.g1 _ hself
  have hdv := h.dv i
  simp only [le2, VNode.d, VNode.vol] at hdv
  simp only at hg1
  constructor
  · intro j; by_cases hj : j = i
    · subst hj; simpa [VNode.d, VNode.vol] using h.dv j
    · simpa [updV_other _ _ _ _ hj] using h.dv j
  · intro j; by_cases hj : j = i
    · subst hj; simpa [VNode.d, VNode.vol] using h.pa j
    · simpa [updV_other _ _ _ _ hj] using h.pa j
  · intro j; by_cases hj : j = i
    · subst hj; simpa using h.pp j
    · simpa [updV_other _ _ _ _ hj] using h.pp j
  · intro j; by_cases hj : j = i
    · subst hj; simpa using h.go j
    · simpa [updV_other _ _ _ _ hj] using h.go j
  · intro g hg
    refine ⟨(h.g1 g hg).1, ?_⟩
    by_cases hj : g.voter = i
    · simp only [hj, updV_same]; have := (h.g1 g hg).2; rw [hj] at this; exact this
    · simp only [updV_other _ _ _ _ hj]; exact (h.g1 g hg).2
  · intro j g hg
    by_cases hj : j = i
    · subst hj
      have : inU v j g := by simpa [inU] using hg
      simpa using h.gu j g this
    · have : inU v j g := by simpa [inU, updV_other _ _ _ _ hj] using hg
      simpa [updV_other _ _ _ _ hj] using h.gu j g this
  · intro j a b ha hb
    have ha' : inU v j a := by
      by_cases hj : j = i
      · subst hj; simpa [inU] using ha
      · simpa [inU, updV_other _ _ _ _ hj] using ha
    have hb' : inU v j b := by
      by_cases hj : j = i
      · subst hj; simpa [inU] using hb
      · simpa [inU, updV_other _ _ _ _ hj] using hb
    exact h.gc j a b ha' hb'
  · intro p hp
    simp only [List.mem_cons] at hp
    rcases hp with hp | hp
    · subst hp; exact ⟨hself, cfg, q, List.mem_cons_self, hq, hall⟩
    · obtain ⟨hs, cfg', q', hc', hq', hall'⟩ := h.el p hp
      exact ⟨hs, cfg', q', List.mem_cons_of_mem _ hc', hq', hall'⟩
  · -- at most one elected node per term: a second election of this term shares a voter with this one
    have key : ∀ b ∈ v.elected, b.1 = (v.nodes i).term → b.2 = i := by
      intro b hb hbt
      obtain ⟨_, cfg', q', hc', hq', hall'⟩ := h.el b hb
      obtain ⟨x, hx1, hx2⟩ := hmeet _ hc' hbt q' hq'
      have g1 := hall x hx1
      have g2 := hall' x hx2
      rw [hbt] at g2
      exact (h.gc x ⟨_, x, i⟩ ⟨_, x, b.2⟩ (Or.inr ⟨g1, rfl⟩) (Or.inr ⟨g2, rfl⟩) rfl).symm
    intro a ha b hb hab
    simp only [List.mem_cons] at ha hb
    rcases ha with ha | ha <;> rcases hb with hb | hb
    · rw [ha, hb]
    · rw [ha] at hab ⊢; exact (key b hb hab.symm).symm
    · rw [hb] at hab ⊢; exact key a ha hab
    · exact h.eu a ha b hb hab
  · intro j; by_cases hj : j = i
    · subst hj
      intro _
      simp only [updV_same]
      refine ⟨List.mem_cons_self, ?_, ?_, hvote, ?_⟩
      · rcases hg1.2 with h2 | h2 <;> omega
      · rcases hg1.2 with h2 | h2
        · omega
        · exact h2.2
      · have := hg1.1; omega
    · simp only [updV_other _ _ _ _ hj]
      intro hr
      have := h.ld j hr
      exact ⟨List.mem_cons_of_mem _ this.1, this.2⟩

/-- T10: leave the candidate / leader role in the same term -/
theorem invV_role0 (h : InvV v) (i : Nat) :
    InvV (setN v i (nRole0 (v.nodes i))) := by
  unfold nRole0
  apply invV_of_node h i _ trivial
  · exact h.dv i
  · exact h.pa i
  · exact h.pp i
  · exact h.go i
  · intro g hg hvo; have := (h.g1 g hg).2; rw [hvo] at this; exact this
  · intro g hg; exact h.gu i g hg
  · intro a b ha hb; exact h.gc i a b ha hb
  · simp

/-- T11: a fresh node is started from a durable committed prefix of another node -/
theorem invV_boot (h : InvV v) (i t : Nat) (h0 : (v.nodes i).term = 0) (hv : (v.nodes i).vote = 0)
    (hd : (v.nodes i).dvote = 0) (hp : (v.nodes i).pend = []) (ho : (v.nodes i).og = [])
    (hr : (v.nodes i).role = 0) :
    InvV (setN v i { v.nodes i with term := t, dterm := t }) := by
  have hnone : ∀ g, inU v i g → False := by
    intro g hg
    have hgu := h.gu i g hg
    have he : g.term = (v.nodes i).term := by omega
    have hvc := hgu.2.2 he
    rw [hv] at hvc
    exact hgu.1 hvc.symm
  apply invV_of_node h i _ trivial
  · simp [le2, VNode.d, VNode.vol, hv, hd]
  · simp [hp]
  · simp [hp]
  · simp [ho]
  · intro g hg hvo; exact (hnone g (Or.inr ⟨hg, hvo⟩)).elim
  · intro g hg
    simp only [ho, List.not_mem_nil, false_or] at hg
    exact (hnone g (Or.inr hg)).elim
  · intro a b ha hb
    simp only [ho, List.not_mem_nil, false_or] at ha
    exact (hnone a (Or.inr ha)).elim
  · simp [hr]

end transitions

end RaftModel.P
