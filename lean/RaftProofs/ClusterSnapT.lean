import RaftProofs.ClusterSnapS
import RaftProofs.ClusterCommit3H

/-!
Commit safety of `ClusterSem` with log compaction, part T: the hypotheses of the development without
compaction (`Cluster.Hyp3`) imply those of this one (`Snap.Hyp3`) — so every theorem proved here
subsumes its counterpart there, and the kernel-evaluated history of `ClusterCommit3H` satisfies the new
hypotheses —, the ghost-log forms of the final statements (`ev_logs_agree`, `sms_ghost`), and what the
ghost log of a node says about its retained entries.
-/
namespace RaftModel
namespace Cluster
namespace Snap
open Node Raft Raft.CC RaftProps.C02 RaftProps.C05

theorem KStep.of_old {a b : Sys} (hs : Cluster.KStep a b) : KStep a b := by
  cases hs with
  | call i st st' rnd op res h1 h2 h3 h4 h5 =>
    exact .call a i st st' rnd op res h1 h2 (fun k hk => absurd hk (h3 k)) h4 h5
  | deliver i st st' rnd m res h1 h2 h3 h4 => exact .deliver a i st st' rnd m res h1 h2 h3 h4
  | send i st st' h1 h2 h3 h4 => exact .send a i st st' h1 h2 h3 h4
  | restart i st st' c rnd h1 h2 h3 => exact .restart a i st st' c rnd h1 h2 h3

variable {cfg : JointConfig} {c0 : Nat} {h : List Sys}

/-- the hypotheses of the development without compaction imply those with compaction -/
theorem Hyp3.of_old (H : Cluster.Hyp3 cfg c0 h) : Hyp3 cfg c0 h :=
  { hist := H.hist, fix := H.fix, ne := H.ne, nd1 := H.nd1, nd2 := H.nd2, init := H.init,
    steps := fun n a b ha hb => KStep.of_old (H.steps n a b ha hb),
    nb := H.nb, nosnap := H.nosnap, nolone := H.nolone,
    nopend := fun s hs i st hi => (H.shape s hs i st hi).1,
    first0 := fun s h0 i st hi => (H.shape s (mem_of_get h0) i st hi).2,
    initc := H.initc, norir := H.norir, anch := H.anch, snapt0 := H.snapt0 }

/-- the logs of two commit events agree up to the smaller commit index (ghost logs) -/
theorem ev_logs_agree (H : Hyp3a cfg c0 h) {E1 E2 : Ev} (h1 : E1.ok h) (h2 : E2.ok h)
    (hle : E1.c ≤ E2.c) : EqUpTo (EvF h c0 E1) (EvF h c0 E2) E1.c := by
  have H2 := H.toHyp2w
  obtain ⟨l1, hh1, _⟩ := Ev.leaderLog H2 h1
  obtain ⟨l2, _, _⟩ := Ev.leaderLog H2 h2
  have S := sall H (E1.nE + E2.nE + 2)
  have := ctf H2 S h2 h1 (by omega) hle (fun _ => ⟨EvF h c0 E1, l1.mono (by omega)⟩)
  exact ll_eq_below H2 l1 l2 hh1 this

/-- **State-Machine Safety for the ghost logs**: the uncompacted logs of any two nodes, in any two
states of the history, hold the same entry at every index both commit indexes cover -/
theorem sms_ghost (H : Hyp3a cfg c0 h)
    {m1 : Nat} {s1 : Sys} (hm1 : h[m1]? = some s1) {v1 : Nat} {st1 : NState}
    (hv1 : s1.node v1 = some st1)
    {m2 : Nat} {s2 : Sys} (hm2 : h[m2]? = some s2) {v2 : Nat} {st2 : NState}
    (hv2 : s2.node v2 = some st2)
    {k : Nat} (hk1 : k ≤ st1.raft.raftLog.committed) (hk2 : k ≤ st2.raft.raftLog.committed) :
    (FL h c0 st1).entryAt k = (FL h c0 st2).entryAt k := by
  have H2 := H.toHyp2w
  have I1 := node_full H2 m1 s1 hm1 v1 st1 hv1
  have I2 := node_full H2 m2 s2 hm2 v2 st2 hv2
  by_cases hk0 : k ≤ c0
  · unfold LLog.entryAt
    rw [if_pos (by rw [I1.log.snap]; exact hk0), if_pos (by rw [I2.log.snap]; exact hk0)]
  rcases (sm_all H hm1).nctm v1 st1 hv1 with c | ⟨E1, hE1, _, a3, _, a5⟩
  · omega
  rcases (sm_all H hm2).nctm v2 st2 hv2 with c | ⟨E2, hE2, _, b3, _, b5⟩
  · omega
  rw [a5 k hk1, b5 k hk2]
  rcases Nat.le_total E1.c E2.c with hle | hle
  · exact ev_logs_agree H hE1 hE2 hle k (by omega)
  · exact (ev_logs_agree H hE2 hE1 hle k (by omega)).symm

end Snap
end Cluster
end RaftModel
