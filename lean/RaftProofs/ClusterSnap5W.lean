import RaftProofs.ClusterSnap5V
import RaftProofs.ClusterSnap3A
import RaftProofs.ClusterSnap4I

/-!
[Copy of `ClusterSnap4J.lean` for the development `Snap5` — see `ClusterSnap5A.lean`.]

Commit safety of `ClusterSem` with compaction **and snapshots**, part 4J (towards discharging `anch`
and `rirs` for the snapshot layer `Snap5`, as `ClusterSnap3A–3C` do for the compaction layer):

* `Snap5.Hyp3w` = `Snap5.Hyp3a` minus `anch` minus `rirs`;
* `PIn`: a progress within the log, **the `Snapshot` state included** (its pending snapshot lies within
  the log); `call_pr2`: the per-call relation `Raft.CS.PR` (`ClusterSnap4A–4I`: the relation of
  `ClusterCommit4A–4I` without the escape "a `MsgSnapshot` is queued") for every `NodeOp`, `compact`
  included;
* the cluster invariant `CI2` (`Cluster.CI` with `PIn`, without the escape, plus "every queued
  `MsgSnapshot` names an index within the commit index");
* prefixes of a history (`Hyp.take`, `Hyp2w.take`, `hyp3a_take`);
* provenance of the accepting append responses (`ack_prov`, also for those that answer a snapshot) and
  `ack_bound`.
-/
namespace RaftModel
namespace Cluster
namespace Snap5
open Node Raft Raft.CC Raft.CS RaftProps.C02 RaftProps.C05 Snap

/-- **the hypotheses without the gaps `anch` and `rirs`** (`Snap5.Hyp3a` minus the two) -/
structure Hyp3w (cfg : JointConfig) (c0 : Nat) (h : List Sys) : Prop extends Hyp2w cfg c0 h where
  snapt0 : ∀ s0, h[0]? = some s0 → ∀ i sti, s0.node i = some sti → ∀ t0,
    sti.raft.raftLog.abs.snapTerm = some t0 → ∀ j stj, s0.node j = some stj → t0 ≤ stj.raft.term
  snapidx : ∀ s ∈ h, ∀ x ∈ s.net, x.msgType = .msgSnapshot → c0 < x.snapshot.metadata.index

variable {cfg : JointConfig} {c0 : Nat} {h : List Sys}

theorem Hyp3a.toHyp3w (H : Hyp3a cfg c0 h) : Hyp3w cfg c0 h :=
  { toHyp2w := H.toHyp2w, snapt0 := H.snapt0, snapidx := H.snapidx }

/-- a progress within a log whose last index is `li`, the `Snapshot` state included -/
def PIn (li : Nat) (pr : Progress) : Prop :=
  pr.matched ≤ li ∧ pr.nextIdx ≤ li + 1 ∧ (pr.state = .snapshot → pr.pendingSnapshot ≤ li)

theorem PIn.pok {li : Nat} {pr : Progress} (hp : PIn li pr) (ms : List Message) : POk ms li pr :=
  ⟨hp.1, hp.2.1, fun hs => .inl (hp.2.2 hs)⟩

/-- what holds of a node between two calls -/
structure NodeI2 (st : NState) : Prop where
  po : st.raft.state = .leader → ∀ p ∈ st.raft.prs.progress, PIn st.raft.raftLog.lastIndex p.2
  rd : st.raft.state = .leader → ∀ p ∈ st.raft.readOnly.pendingReadIndex,
    p.2.index ≤ st.raft.raftLog.committed
  qs : ∀ x ∈ st.raft.msgs, x.msgType = .msgSnapshot →
    x.snapshot.metadata.index ≤ st.raft.raftLog.committed

/-- **one call of a node, `compact` included, with snapshots in the queue** -/
theorem call_pr2 (st st' : NState) (rnd : Option Nat) (op : NodeOp) (res : OpRes)
    (hinv : st.raft.raftLog.Inv) (hnb : st.raft.batchAppend = false)
    (hop : op ≠ .drain ∧ ∀ m, op ≠ .rstep m)
    (hc : ∀ k, op = .compact k → CompactOk st.raft.raftLog k)
    (hsn : st.raft.raftLog.unstable.snapshot = none)
    (hms : ∀ m, op = .step m → m.msgType ≠ .msgSnapshot)
    (hI : NodeI2 st)
    (hB : ∀ m, op = .step m → st.raft.state = .leader → m.msgType = .msgAppendResponse →
      m.reject = false → (m.term = 0 ∨ m.term = st.raft.term) →
      m.index ≤ st.raft.raftLog.lastIndex)
    (h : Node.call st rnd op = .ok (res, st')) : Raft.CS.PR st.raft st'.raft := by
  have hpo : st.raft.state = .leader →
      QSnap st.raft.msgs ∨ PAll st.raft.msgs st.raft.raftLog.lastIndex st.raft.prs :=
    fun hs => .inr (fun p hp => (hI.po hs p hp).pok _)
  have hQ : st.raft.state = .leader → ∀ x ∈ st.raft.msgs, x.msgType = .msgSnapshot →
      x.snapshot.metadata.index ≤ st.raft.raftLog.lastIndex :=
    fun _ x hx hty => Nat.le_trans (hI.qs x hx hty) hinv.committed_le_last
  by_cases hco : ∃ j, op = .compact j
  · obtain ⟨j, rfl⟩ := hco
    have ho := compact_out hinv hsn (hc j rfl) h
    obtain ⟨f1, f2, f3⟩ := compact_frame hinv hsn (hc j rfl) h
    exact Raft.CS.PR.of_same (Raft.CS.PW.start hinv hnb hpo hI.rd).pr ho.state f1 f2 ho.msgs
      (Nat.le_of_eq f3.symm) (Nat.le_of_eq ho.committed.symm)
  · exact Raft.CS.call_pr st st' rnd op res hinv hnb hop (fun k hk => hco ⟨k, hk⟩) hsn hms hpo hQ
      hI.rd hB h

/-- the commit index over one call that is not the delivery of a snapshot -/
theorem call_commit_le {st st' : NState} {rnd : Option Nat} {op : NodeOp} {res : OpRes}
    (hinv : st.raft.raftLog.Inv) (hop : op ≠ .drain ∧ ∀ m, op ≠ .rstep m)
    (hc : ∀ k, op = .compact k → CompactOk st.raft.raftLog k)
    (hsn : st.raft.raftLog.unstable.snapshot = none)
    (h : Node.call st rnd op = .ok (res, st')) :
    st.raft.raftLog.committed ≤ st'.raft.raftLog.committed := by
  by_cases hco : ∃ j, op = .compact j
  · obtain ⟨j, rfl⟩ := hco
    exact Nat.le_of_eq (compact_out hinv hsn (hc j rfl) h).committed.symm
  · exact (call_src st st' rnd op res hinv hop (fun k hk => hco ⟨k, hk⟩) hsn h).1

/-! ### prefixes -/

theorem Hyp.take (H : Hyp cfg h) {k : Nat} (hk : 0 < k) : Hyp cfg (h.take k) where
  hist := History.take H.hist k hk
  fix := fun s hs => H.fix s (List.mem_of_mem_take hs)
  ne := H.ne
  nd1 := H.nd1
  nd2 := H.nd2
  init := fun s h0 => H.init s (get_take h0).1
  steps := fun n a b ha hb => H.steps n a b (get_take ha).1 (get_take hb).1
  nb := fun s hs => H.nb s (List.mem_of_mem_take hs)
  reqok := fun s hs => H.reqok s (List.mem_of_mem_take hs)

theorem Hyp2w.take (H : Hyp2w cfg c0 h) {k : Nat} (hk : 0 < k) : Hyp2w cfg c0 (h.take k) where
  toHyp := H.toHyp.take hk
  nolone := H.nolone
  first0 := fun s h0 => H.first0 s (get_take h0).1
  initc := fun s h0 => H.initc s (get_take h0).1
  pend0 := fun s h0 => H.pend0 s (get_take h0).1

/-- **the cluster invariant** for the state `s = h[n]` -/
structure CI2 (h : List Sys) (c0 n : Nat) (s : Sys) : Prop where
  node : ∀ i st, s.node i = some st → NodeI2 st
  qa : ∀ i st, s.node i = some st → ∀ x ∈ st.raft.msgs, x.msgType = .msgAppend → Anch c0 x
  qr : ∀ i st, s.node i = some st → ∀ x ∈ st.raft.msgs, x.msgType = .msgReadIndexResp →
    RirSrc h n x
  na : ∀ x ∈ s.net, x.msgType = .msgAppend → Anch c0 x
  nr : ∀ x ∈ s.net, x.msgType = .msgReadIndexResp → RirSrc h n x

/-- the hypotheses of the main induction for a prefix all of whose states satisfy `CI2` -/
theorem hyp3a_take (H : Hyp3w cfg c0 h) {k : Nat} (hk : 0 < k)
    (hci : ∀ m s, m < k → h[m]? = some s → CI2 h c0 m s) : Hyp3a cfg c0 (h.take k) where
  toHyp2w := H.toHyp2w.take hk
  anch := by
    intro s hs x hx hty
    obtain ⟨m, hm⟩ := List.mem_iff_getElem?.1 hs
    obtain ⟨hm', hlt⟩ := get_take hm
    exact (hci m s hlt hm').na x hx hty
  rirs := by
    intro n s hn x hx hty
    obtain ⟨hn', hlt⟩ := get_take hn
    obtain ⟨n0, s0, w, stw, h1, h2, h3⟩ := (hci n s hlt hn').nr x hx hty
    exact ⟨n0, s0, w, stw, h1, by rw [take_get (by omega)]; exact h2, h3⟩
  snapt0 := fun s0 h0 => H.snapt0 s0 (get_take h0).1
  snapidx := fun s hs => H.snapidx s (List.mem_of_mem_take hs)

/-! ### accepting append responses -/

/-- **provenance of the accepting append responses** (the record is `Cluster.AckGen`), also for
those that answer a `MsgSnapshot` -/
theorem ack_prov (H : Hyp2w cfg c0 h) : ∀ (n : Nat) (s : Sys), h[n]? = some s →
    (∀ i st, s.node i = some st → ∀ x ∈ st.raft.msgs, (isAck x ∧ x.index ≠ 0) →
      Gen (AckGen h) n i x) ∧
    (∀ x ∈ s.net, (isAck x ∧ x.index ≠ 0) → ∃ i, Gen (AckGen h) n i x) := by
  refine hist_induct h _ ?_ ?_
  · intro s h0
    have hinit : Init s := hist_init H.hist s h0
    refine ⟨fun i st hi x hx _ => ?_, fun x hx _ => ?_⟩
    · rw [init_queue hinit i st hi] at hx; cases hx
    · rw [hinit.1] at hx; cases hx
  · intro n a b ha hb ⟨ihq, ihn⟩
    obtain ⟨k, st, st', hka, hkb, hoth, hs⟩ := H.toHyp.stp ha hb
    have up : ∀ {i x}, Gen (AckGen h) n i x → Gen (AckGen h) (n + 1) i x :=
      fun g => g.mono (Nat.le_succ n)
    have hqk : ∀ x ∈ st'.raft.msgs, (isAck x ∧ x.index ≠ 0) → Gen (AckGen h) (n + 1) k x := by
      intro x hx hk
      rcases step_ack H ha hka hs hx hk.1 hk.2 with c | ⟨c1, c2, _, _⟩
      · exact up (ihq k st hka x c hk)
      · exact ⟨n + 1, Nat.le_refl _, b, st', hb, hkb, hx, c2, c1⟩
    refine ⟨fun i sti hi x hx hk => ?_, fun x hx hk => ?_⟩
    · by_cases hik : i = k
      · subst hik
        rw [hkb] at hi; cases hi
        exact hqk x hx hk
      · rw [hoth i hik] at hi
        exact up (ihq i sti hi x hx hk)
    · rcases hs.net_sub x hx with g | g
      · exact (ihn x g hk).imp (fun _ g => up g)
      · exact ⟨k, up (ihq k st hka x g hk)⟩

/-- the last index of a node is at least the common initial snapshot point -/
theorem c0_le_last (H : Hyp2w cfg c0 h) {n : Nat} {s : Sys} (hn : h[n]? = some s) {v : Nat}
    {st : NState} (hv : s.node v = some st) : c0 ≤ st.raft.raftLog.lastIndex :=
  Nat.le_trans (c0_le_committed H hn hv) (node_ok H hn hv).inv.committed_le_last

/-- **an accepted acknowledgement for the term of a leader lies within that leader's log** -/
theorem ack_bound (H : Hyp3a cfg c0 h) {n : Nat} {a : Sys} (ha : h[n]? = some a) {k : Nat}
    {st : NState} (hk : a.node k = some st) (hs : st.raft.state = .leader) {x : Message}
    (hx : x ∈ a.net) (hack : isAck x) (ht : x.term = 0 ∨ x.term = st.raft.term) :
    x.index ≤ st.raft.raftLog.lastIndex := by
  have H2 := H.toHyp2w
  by_cases hc : x.index ≤ c0
  · exact Nat.le_trans hc (c0_le_last H2 ha hk)
  · have hx0 : x.index ≠ 0 := by omega
    have htnz := ((ack_inv H2 n a ha).2 x hx hack hx0).2
    have hterm : x.term = st.raft.term := by
      rcases ht with c | c
      · exact absurd c htnz
      · exact c
    obtain ⟨i, n0, hn0, s0, st0, h1, h2, h3, h4, h5⟩ := (ack_prov H2 n a ha).2 x hx ⟨hack, hx0⟩
    obtain ⟨L, hL, hle, _⟩ := (sm_all H h1).a2m i st0 h2 x (.inr h3) hack h5 (by omega) h4
    obtain ⟨m, s', l, stl, hm, a2, a3, a4, a5, rfl⟩ := hL
    obtain ⟨d, rfl⟩ := Nat.exists_eq_add_of_le (Nat.le_trans hm hn0)
    obtain ⟨_, hlast, _⟩ := leader_log_ext H2 a2 ha a3 hk a4 hs a5 hterm.symm
    have ol := node_ok H2 a2 a3
    rw [fl_last H2 a2 a3, ← ol.inv.lastIndex_abs] at hle
    exact Nat.le_trans hle hlast

end Snap5
end Cluster
end RaftModel
