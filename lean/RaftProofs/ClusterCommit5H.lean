import RaftProofs.ClusterCommit5G

/-! Commit layer without `batch_append = false`, part H: the wrappers of `RawNode` and **one call of a node** `call_gb` (copy of `ClusterCommitO/P`; `call_g` minus the hypothesis `batchAppend = false`, concluding `Gb`). -/
namespace RaftModel
namespace Raft
namespace CB
open CC VoteOb Node

theorem Gb.rebase {A : Nat → Nat → Nat → Prop} {a a' r : Raft} {m : Message} (h : Gb A a' m r)
    (hid : a'.id = a.id) (hc : a'.raftLog.committed = a.raftLog.committed)
    (hm : a'.msgs = a.msgs) : Gb A a m r :=
  ⟨h.id.trans hid, h.mok, fun hs => by rw [← hc]; exact h.lc hs,
    fun x hx hty => by
      rcases h.qlk x hx hty with g | g | g
      · exact .inl (hm ▸ g)
      · exact .inr (.inl g)
      · exact .inr (.inr ⟨g.1, g.2.1, by rw [← hm]; exact g.2.2⟩),
    fun x hx hty => by rw [← hm]; exact h.qak x hx hty,
    fun x hx hty => by rw [← hm]; exact h.qvk x hx hty,
    fun x hx hty => by rw [← hm]; exact h.qrq x hx hty⟩

/-- `Gb` reads only `id`, `state`, `term`, `raftLog`, `prs` and `msgs` of the current state -/
theorem Gb.of_fields {A : Nat → Nat → Nat → Prop} {a r r' : Raft} {m : Message} (h0 : Gb A a m r)
    (e1 : r'.id = r.id) (e2 : r'.state = r.state) (e3 : r'.term = r.term)
    (e4 : r'.raftLog = r.raftLog) (e5 : r'.prs = r.prs) (e6 : r'.msgs = r.msgs) : Gb A a m r' := by
  refine ⟨e1.trans h0.id, ⟨?_⟩, ?_, ?_, ?_, ?_, ?_⟩
  · rw [e2, e5, e1, e4, e3]; exact h0.mok.h
  · rw [e2, e4]; unfold LCok; rw [e5, e4, e3]; exact h0.lc
  · intro x hx hty
    rw [e6] at hx
    exact (h0.qlk x hx hty).imp (fun g => g) (fun g => g.imp (fun g =>
      ⟨e2.trans g.lead, g.term.trans e3.symm, g.frm.trans e1.symm,
        by rw [e4]; exact g.app, by rw [e4, e3]; exact g.hb⟩)
      (fun g => g.mono e2 (by rw [e4]; exact Nat.le_refl _)))
  · intro x hx hty
    rw [e6] at hx
    exact (h0.qak x hx hty).imp (fun g => g) (fun g =>
      ⟨g.term.trans e3.symm, g.frm.trans e1.symm, by rw [e2, e4]; exact g.src⟩)
  · intro x hx hty
    rw [e6] at hx
    exact (h0.qvk x hx hty).imp (fun g => g) (fun g => by unfold VkOK at *; rw [e4, e3]; exact g)
  · intro x hx hty
    rw [e6] at hx
    exact (h0.qrq x hx hty).imp (fun g => g) (fun g =>
      ⟨g.term.trans e3.symm, by rw [e4]; exact g.last, by rw [e4]; exact g.lt⟩)
/-- a local message stepped by a wrapper of `RawNode`, re-anchored to the call's tag -/
theorem localStep_gb {A : Nat → Nat → Nat → Prop} {r r' : Raft} {mm m : Message}
    {e : Option RaftError}
    (hA : ∀ j t x y, y ≤ x → A j t x → A j t y) (hmok : MOK A r)
    (h1 : mm.msgType ≠ .msgSnapshot) (h2 : mm.msgType ≠ .msgAppendResponse)
    (h3 : mm.msgType ≠ .msgAppend) (h : r.step mm = .ok (r', e)) : Gb A r m r' :=
  (step_gb hA h1 (noAck_local h2) h (Gb.start hmok) Old.rfl rfl).reanchor h3

theorem localStepIgnore_gb {A : Nat → Nat → Nat → Prop} {r r' : Raft} {mm m : Message}
    (hA : ∀ j t x y, y ≤ x → A j t x → A j t y) (hmok : MOK A r)
    (h1 : mm.msgType ≠ .msgSnapshot) (h2 : mm.msgType ≠ .msgAppendResponse)
    (h3 : mm.msgType ≠ .msgAppend) (h : r.stepIgnore mm = .ok r') : Gb A r m r' := by
  unfold Raft.stepIgnore at h
  obtain ⟨⟨r1, e⟩, hs, h⟩ := Res.bind_eq_ok h
  cases h
  exact localStep_gb hA hmok h1 h2 h3 hs

/-- a call that only re-represents the log (nothing queued, commit index kept) -/
theorem relog_gb {A : Nat → Nat → Nat → Prop} {r : Raft} {m : Message} {L : RaftLog}
    (hmok : MOK A r) (hc : L.committed = r.raftLog.committed)
    (hp : r.raftLog.persisted ≤ L.persisted) : Gb A r m { r with raftLog := L } :=
  ((Gb.start hmok).old_relog (r' := { r with raftLog := L }) Old.rfl rfl rfl rfl rfl rfl rfl hc hp).1

theorem nodeCommitApply_gb {A : Nat → Nat → Nat → Prop} {st st' : NState} {m : Message} {k : Nat}
    {res : OpRes} (hmok : MOK A st.raft) (h : Node.commitApply st k = .ok (res, st')) :
    Gb A st.raft m st'.raft ∧ Old st.raft st'.raft := by
  unfold Node.commitApply at h
  simp only [] at h
  split at h
  · rename_i r2 hb
    obtain ⟨r1, h1, h2⟩ := Res.bind_eq_ok hb
    have g1 : Gb A st.raft m r1 ∧ Old st.raft r1 ∧
        r1.raftLog.committed = st.raft.raftLog.committed := by
      have red : ∀ ents, Gb A st.raft m (st.raft.reduceUncommittedSize ents) ∧
          Old st.raft (st.raft.reduceUncommittedSize ents) ∧
          (st.raft.reduceUncommittedSize ents).raftLog.committed = st.raft.raftLog.committed := by
        intro ents
        unfold Raft.reduceUncommittedSize
        split
        · exact ⟨Gb.start hmok, Old.rfl, rfl⟩
        · exact ⟨Gb.mk' (Gb.start hmok), Old.mk' Old.rfl, rfl⟩
      split at h1
      · split at h1
        · cases h1; exact red _
        · cases h1; exact ⟨Gb.start hmok, Old.rfl, rfl⟩
        · cases h1
      · cases h1; exact ⟨Gb.start hmok, Old.rfl, rfl⟩
    obtain ⟨g2, o2, c2⟩ := commitApplyInternal_gb h2 g1.1 g1.2.1 g1.2.2
    cases h
    split
    · dsimp only
      have := g2.old_relog (r' := withStore r2 (fun s =>
        { s with hardState := { s.hardState with commit := k }, confState := st.appCs })) o2 c2
        rfl rfl rfl rfl rfl rfl (Nat.le_refl _)
      exact ⟨this.1, this.2.1⟩
    · exact ⟨g2, o2⟩
  · cases h
  · cases h


theorem relog_gb' {A : Nat → Nat → Nat → Prop} {r r' : Raft} {m : Message} (hmok : MOK A r)
    (hid : r'.id = r.id) (hs : r'.state = r.state) (ht : r'.term = r.term)
    (hp : mfun r'.prs = mfun r.prs) (hq : r'.msgs = r.msgs)
    (hc : r'.raftLog.committed = r.raftLog.committed)
    (hpe : r.raftLog.persisted ≤ r'.raftLog.persisted) : Gb A r m r' :=
  ((Gb.start hmok).old_relog Old.rfl rfl hid hs ht hp hq hc hpe).1

theorem mapProgress_gb {A : Nat → Nat → Nat → Prop} {r : Raft} {m : Message} (hmok : MOK A r)
    (f : Nat → Progress → Progress) (hf : ∀ j pr, (f j pr).matched = pr.matched) :
    Gb A r m (r.mapProgress f) :=
  (Gb.start hmok).setPrs (p := (r.mapProgress f).prs) (mfun_mapProgress r f hf) rfl

/-- **one call of a node** — every `NodeOp` the cluster semantics uses (`step` for a delivered
message, and the application's calls) — for a node (batching or not) whose `matched` values are
accounted for; a delivered message is not a snapshot, and a delivered accepting append response is
backed by `A` -/
theorem call_gb (A : Nat → Nat → Nat → Prop) (hA : ∀ j t x y, y ≤ x → A j t x → A j t y)
    (st st' : NState) (rnd : Option Nat) (op : NodeOp) (res : OpRes)
    (hmok : MOK A st.raft)
    (hop : op ≠ .drain ∧ ∀ m, op ≠ .rstep m)
    (hms : ∀ m, op = .step m → m.msgType ≠ .msgSnapshot)
    (hin : ∀ m, op = .step m → ∀ t, AckIn m t → A m.frm t m.index)
    (h : Node.call st rnd op = .ok (res, st')) : Gb A st.raft (CV.opMsg op) st'.raft := by
  unfold Node.call at h
  have hmok' : MOK A ({ st.raft with nextRand := rnd } : Raft) := ⟨hmok.h⟩
  refine Gb.rebase (a' := ({ st.raft with nextRand := rnd } : Raft)) ?_ rfl rfl rfl
  cases op with
  | tick =>
    simp only [applyOp] at h
    split at h
    · rename_i raft b heq
      cases h
      exact tick_gb hA hmok' heq
    · cases h
    · cases h
  | step m =>
    simp only [applyOp] at h
    obtain ⟨raft, e, hx, hr⟩ := CV.unitRes_ok h
    rw [hr]
    unfold RawNode.step at hx
    split at hx
    · cases hx; exact Gb.start hmok'
    · split at hx
      · exact step_gb hA (hms m rfl) (hin m rfl) hx (Gb.start hmok') Old.rfl rfl
      · cases hx; exact Gb.start hmok'
  | rstep m => exact absurd rfl (hop.2 m)
  | propose c d =>
    simp only [applyOp] at h
    obtain ⟨raft, e, hx, hr⟩ := CV.unitRes_ok h
    rw [hr]
    exact localStep_gb hA hmok' (by intro hc; cases hc) (by intro hc; cases hc)
      (by intro hc; cases hc) hx
  | proposeCc t c d =>
    simp only [applyOp] at h
    obtain ⟨raft, e, hx, hr⟩ := CV.unitRes_ok h
    rw [hr]
    exact localStep_gb hA hmok' (by intro hc; cases hc) (by intro hc; cases hc)
      (by intro hc; cases hc) hx
  | readIndex c =>
    simp only [applyOp] at h
    obtain ⟨raft, hx, hr⟩ := CV.okRes_ok h
    rw [hr]
    exact localStepIgnore_gb hA hmok' (by intro hc; cases hc) (by intro hc; cases hc)
      (by intro hc; cases hc) hx
  | transferLeader x =>
    simp only [applyOp] at h
    obtain ⟨raft, hx, hr⟩ := CV.okRes_ok h
    rw [hr]
    exact localStepIgnore_gb hA hmok' (by intro hc; cases hc) (by intro hc; cases hc)
      (by intro hc; cases hc) hx
  | campaign =>
    simp only [applyOp] at h
    obtain ⟨raft, e, hx, hr⟩ := CV.unitRes_ok h
    rw [hr]
    exact localStep_gb hA hmok' (by intro hc; cases hc) (by intro hc; cases hc)
      (by intro hc; cases hc) hx
  | ping =>
    simp only [applyOp] at h
    obtain ⟨raft, hx, hr⟩ := CV.okRes_ok h
    rw [hr]
    have hsf := ping_sfb hx SFb.rfl
    by_cases hs : ({ st.raft with nextRand := rnd } : Raft).state = .leader
    · exact (Gb.start hmok').sf hA hsf (.inl hs)
    · refine (Gb.start hmok').sf hA hsf (.inr ?_)
      unfold RawNode.ping Raft.ping at hx
      rw [if_neg hs] at hx
      cases hx
      exact fun _ hx => hx
  | requestSnapshot =>
    simp only [applyOp] at h
    obtain ⟨raft, e, hx, hr⟩ := CV.unitRes_ok h
    rw [hr]
    unfold RawNode.requestSnapshot Raft.requestSnapshot at hx
    split at hx
    · cases hx; exact Gb.start hmok'
    · split at hx
      · cases hx; exact Gb.start hmok'
      · split at hx
        · cases hx; exact Gb.start hmok'
        · split at hx
          · cases hx; exact Gb.start hmok'
          · simp only [] at hx
            split at hx
            · cases hx
            · cases hx
            · split at hx
              · obtain ⟨r1, h1, hx⟩ := Res.bind_eq_ok hx
                cases hx
                have g0 : Gb A ({ st.raft with nextRand := rnd } : Raft) (CV.opMsg .requestSnapshot)
                    ({ st.raft with nextRand := rnd } : Raft) := Gb.start hmok'
                exact sendRequestSnapshot_gb h1 (g0.of_fields rfl rfl rfl rfl rfl rfl)
              · cases hx; exact Gb.start hmok'
  | reportUnreachable x =>
    simp only [applyOp] at h
    obtain ⟨raft, hx, hr⟩ := CV.okRes_ok h
    rw [hr]
    exact localStepIgnore_gb hA hmok' (by intro hc; cases hc) (by intro hc; cases hc)
      (by intro hc; cases hc) hx
  | reportSnapshot x f =>
    simp only [applyOp] at h
    obtain ⟨raft, hx, hr⟩ := CV.okRes_ok h
    rw [hr]
    exact localStepIgnore_gb hA hmok' (by intro hc; cases hc) (by intro hc; cases hc)
      (by intro hc; cases hc) hx
  | applyConfChange cc =>
    simp only [applyOp] at h
    split at h
    · rename_i raft cs heq
      cases h
      exact applyConfChange_gb hA hmok' heq
    · rename_i raft e heq
      cases h
      exact applyConfChange_gb hA hmok' heq
    · cases h
    · cases h
  | stabilize =>
    simp only [applyOp] at h
    obtain ⟨L, e1, e2, e3⟩ := stabilize_shape h
    rw [e1]
    exact relog_gb hmok' e2 (Nat.le_of_eq e3.symm)
  | onPersistEntries i t =>
    simp only [applyOp] at h
    obtain ⟨raft, hx, hr⟩ := CV.okRes_ok h
    rw [hr]
    exact onPersistEntries_gb hA hmok' hx
  | persistSnap =>
    simp only [applyOp] at h
    obtain ⟨L, e1, e2, e3⟩ := persistSnap_shape h
    rw [e1]
    exact relog_gb hmok' e2 e3
  | commitApply k =>
    simp only [applyOp] at h
    exact (nodeCommitApply_gb (st := { st with raft := { st.raft with nextRand := rnd } }) hmok' h).1
  | compact k =>
    simp only [applyOp] at h
    split at h
    · cases h
      exact relog_gb' hmok' rfl rfl rfl rfl rfl rfl (Nat.le_refl _)
    · cases h
    · cases h
  | drain => exact absurd rfl hop.1
  | triggerSnap =>
    simp only [applyOp] at h
    cases h
    exact relog_gb' hmok' rfl rfl rfl rfl rfl rfl (Nat.le_refl _)
  | triggerLog b =>
    simp only [applyOp] at h
    cases h
    exact relog_gb' hmok' rfl rfl rfl rfl rfl rfl (Nat.le_refl _)
  | setPriority p =>
    simp only [applyOp] at h
    cases h
    exact Gb.mk' (Gb.start hmok')
  | setBatchAppend b =>
    simp only [applyOp] at h
    cases h
    exact Gb.mk' (Gb.start hmok')
  | skipBcastCommit b =>
    simp only [applyOp] at h
    cases h
    exact Gb.mk' (Gb.start hmok')
  | setCheckQuorum b =>
    simp only [applyOp] at h
    cases h
    exact Gb.mk' (Gb.start hmok')
  | adjustMaxInflight id cap =>
    simp only [applyOp] at h
    obtain ⟨raft, hx, hr⟩ := CV.okRes_ok h
    rw [hr]
    unfold Raft.adjustMaxInflightMsgs at hx
    split at hx
    · cases hx; exact Gb.start hmok'
    · rename_i pr hg
      split at hx
      · cases hx
        exact (Gb.start hmok').setPrs (mfun_set _ _ _ (fun old ho => by
          rw [hg] at ho; cases ho; rfl)) rfl
      · cases hx
  | maybeFreeInflightBuffers =>
    simp only [applyOp] at h
    cases h
    exact mapProgress_gb hmok' (fun _ pr => { pr with ins := pr.ins.maybeFreeBuffer }) (fun _ _ => rfl)
  | enableGroupCommit b =>
    simp only [applyOp] at h
    obtain ⟨raft, hx, hr⟩ := CV.okRes_ok h
    rw [hr]
    exact enableGroupCommit_gb hA hmok' hx
  | assignCommitGroups v =>
    simp only [applyOp] at h
    obtain ⟨raft, hx, hr⟩ := CV.okRes_ok h
    rw [hr]
    exact assignCommitGroups_gb hA hmok' hx
  | clearCommitGroup =>
    simp only [applyOp] at h
    cases h
    exact mapProgress_gb hmok' (fun _ pr => { pr with commitGroupId := 0 }) (fun _ _ => rfl)
  | checkGroupCommitConsistent =>
    simp only [applyOp] at h
    split at h
    · cases h; exact Gb.start hmok'
    · cases h; exact Gb.start hmok'
    · cases h
    · cases h
  | setMaxApplyUnpersistedLogLimit x =>
    simp only [applyOp] at h
    cases h
    exact relog_gb' hmok' rfl rfl rfl rfl rfl rfl (Nat.le_refl _)
  | setMaxCommittedSizePerReady x =>
    simp only [applyOp] at h
    cases h
    exact Gb.mk' (Gb.start hmok')
  | onEntriesFetched to term aggr =>
    rcases CV.onEntriesFetched_ok h with h | ⟨-, hld, -, raft, hx, h⟩
    · cases h; exact Gb.start hmok'
    · cases h
      rcases hx with hx | hx
      · exact (Gb.start hmok').sf hA (sendAppendAggressively_sfb hx SFb.rfl) (.inl hld)
      · exact (Gb.start hmok').sf hA (sendAppend_sfb hx SFb.rfl) (.inl hld)


/-- the leader-side queue clause of `Gb`, unfolded -/
theorem Gb.qlk' {A : Nat → Nat → Nat → Prop} {a r : Raft} {m : Message}
    (h : Gb A a m r) :
    ∀ x ∈ r.msgs, lkT x.msgType = true → x ∈ a.msgs ∨ LkOK A r x ∨
      (r.state = .leader ∧ x.commit ≤ r.raftLog.committed ∧
        ∃ y ∈ a.msgs, BatOf y x) := h.qlk

end CB
end Raft
end RaftModel
