import RaftModel.ConfChange

/-!
Helper lemmas for C12 (configuration-change algebra): sorted-list sets, the effect of an
`IncrChangeMap`, the loop invariant of `Changer::apply`, counting (pigeonhole) lemmas for quorum
overlap, and the step lemmas used by the `restore` round trip.
-/
namespace RaftProofs.ConfChange
open RaftModel

/-! ## sorted duplicate-free lists as sets -/

/-- the representation invariant of a `NatSet` -/
def Sorted (s : List Nat) : Prop := s.Pairwise (· < ·)

theorem Sorted.nodup {s : List Nat} (h : Sorted s) : s.Nodup :=
  List.Pairwise.imp (fun hab => Nat.ne_of_lt hab) h

theorem sorted_nil : Sorted [] := List.Pairwise.nil

theorem mem_insert {x y : Nat} {s : List Nat} : y ∈ NatSet.insert x s ↔ y = x ∨ y ∈ s := by
  induction s with
  | nil => simp [NatSet.insert]
  | cons a s ih =>
    simp only [NatSet.insert]
    split
    · simp
    · split
      · subst_vars; simp
      · simp [ih]
        constructor
        · rintro (h | h | h) <;> simp [h]
        · rintro (h | h | h) <;> simp [h]

theorem sorted_insert {x : Nat} {s : List Nat} (h : Sorted s) : Sorted (NatSet.insert x s) := by
  induction s with
  | nil => simp [NatSet.insert, Sorted]
  | cons a s ih =>
    simp only [NatSet.insert]
    have h' := List.pairwise_cons.mp h
    split
    · rename_i hxa
      refine List.pairwise_cons.mpr ⟨?_, h⟩
      intro b hb
      rcases List.mem_cons.mp hb with hb | hb
      · subst hb; exact hxa
      · exact Nat.lt_trans hxa (h'.1 b hb)
    · split
      · exact h
      · rename_i h1 h2
        refine List.pairwise_cons.mpr ⟨?_, ih h'.2⟩
        intro b hb
        rcases mem_insert.mp hb with hb | hb
        · subst hb; omega
        · exact h'.1 b hb

theorem mem_erase {x y : Nat} {s : List Nat} : y ∈ NatSet.erase x s ↔ y ∈ s ∧ y ≠ x := by
  simp [NatSet.erase]

theorem sorted_erase {x : Nat} {s : List Nat} (h : Sorted s) : Sorted (NatSet.erase x s) :=
  List.Pairwise.filter _ h

/-- two sorted lists with the same members are equal -/
theorem sorted_ext {a b : List Nat} (ha : Sorted a) (hb : Sorted b)
    (h : ∀ x, x ∈ a ↔ x ∈ b) : a = b := by
  induction a generalizing b with
  | nil =>
    cases b with
    | nil => rfl
    | cons y b => exact absurd ((h y).mpr (by simp)) (by simp)
  | cons x a ih =>
    cases b with
    | nil => exact absurd ((h x).mp (by simp)) (by simp)
    | cons y b =>
      have ha' := List.pairwise_cons.mp ha
      have hb' := List.pairwise_cons.mp hb
      have hxy : x = y := by
        have h1 := (h x).mp (by simp)
        have h2 := (h y).mpr (by simp)
        rcases List.mem_cons.mp h1 with h1 | h1
        · exact h1
        · rcases List.mem_cons.mp h2 with h2 | h2
          · exact h2.symm
          · have := ha'.1 y h2
            have := hb'.1 x h1
            omega
      subst hxy
      congr 1
      apply ih ha'.2 hb'.2
      intro z
      constructor
      · intro hz
        have := (h z).mp (List.mem_cons_of_mem _ hz)
        rcases List.mem_cons.mp this with h1 | h1
        · subst h1; exact absurd (ha'.1 z hz) (Nat.lt_irrefl _)
        · exact h1
      · intro hz
        have := (h z).mpr (List.mem_cons_of_mem _ hz)
        rcases List.mem_cons.mp this with h1 | h1
        · subst h1; exact absurd (hb'.1 z hz) (Nat.lt_irrefl _)
        · exact h1

theorem insert_of_mem {x : Nat} {s : List Nat} (hs : Sorted s) (hx : x ∈ s) : NatSet.insert x s = s :=
  sorted_ext (sorted_insert hs) hs (fun y => by
    rw [mem_insert]; constructor
    · rintro (h | h)
      · subst h; exact hx
      · exact h
    · exact Or.inr)

theorem erase_of_not_mem {x : Nat} {s : List Nat} (hx : x ∉ s) : NatSet.erase x s = s := by
  simp only [NatSet.erase]
  apply List.filter_eq_self.mpr
  intro a ha
  simp
  intro h; subst h; exact hx ha

theorem mem_union {y : Nat} {a b : List Nat} : y ∈ NatSet.union a b ↔ y ∈ a ∨ y ∈ b := by
  simp only [NatSet.union]
  induction b generalizing a with
  | nil => simp
  | cons x b ih =>
    simp only [List.foldl_cons, ih, mem_insert, List.mem_cons]
    constructor
    · rintro ((h | h) | h) <;> simp [h]
    · rintro (h | h | h) <;> simp [h]

theorem sorted_union {a b : List Nat} (ha : Sorted a) : Sorted (NatSet.union a b) := by
  simp only [NatSet.union]
  induction b generalizing a with
  | nil => simpa using ha
  | cons x b ih => exact ih (sorted_insert ha)

theorem mem_ofList {y : Nat} {l : List Nat} : y ∈ NatSet.ofList l ↔ y ∈ l := by
  have := @mem_union y [] l
  simpa [NatSet.union, NatSet.ofList] using this

theorem sorted_ofList {l : List Nat} : Sorted (NatSet.ofList l) :=
  @sorted_union [] l sorted_nil

theorem union_nil_left {b : List Nat} (hb : Sorted b) : NatSet.union [] b = b :=
  sorted_ext (sorted_union sorted_nil) hb (fun x => by simp [mem_union])

/-! ## counting: duplicate-free sublists, pigeonhole, majorities -/

/-- a duplicate-free list all of whose elements occur in `B` is no longer than `B` -/
theorem length_le_of_nodup_subset {A B : List Nat} (hA : A.Nodup) (h : ∀ x ∈ A, x ∈ B) :
    A.length ≤ B.length := by
  induction A generalizing B with
  | nil => simp
  | cons a A ih =>
    have hA' := List.nodup_cons.mp hA
    have haB : a ∈ B := h a (by simp)
    have : A.length ≤ (B.erase a).length := by
      apply ih hA'.2
      intro x hx
      have hxa : x ≠ a := fun e => hA'.1 (e ▸ hx)
      exact (List.mem_erase_of_ne hxa).mpr (h x (List.mem_cons_of_mem _ hx))
    rw [List.length_erase_of_mem haB] at this
    have : 0 < B.length := List.length_pos_of_mem haB
    simp only [List.length_cons]
    omega

theorem length_filter_add_filter_not (p : Nat → Bool) (l : List Nat) :
    (l.filter p).length + (l.filter (fun x => !p x)).length = l.length := by
  induction l with
  | nil => rfl
  | cons a l ih =>
    simp only [List.filter_cons]
    cases p a <;> simp <;> omega

/-- pigeonhole: two predicates that together hold more often than `U` is long meet on `U` -/
theorem pigeonhole (U : List Nat) (p q : Nat → Bool)
    (h : U.length < (U.filter p).length + (U.filter q).length) :
    ∃ x ∈ U, p x = true ∧ q x = true := by
  induction U with
  | nil => simp at h
  | cons a U ih =>
    by_cases hpq : p a = true ∧ q a = true
    · exact ⟨a, by simp, hpq⟩
    · have : U.length < (U.filter p).length + (U.filter q).length := by
        simp only [List.filter_cons, List.length_cons] at h
        cases hp : p a <;> cases hq : q a <;> simp [hp, hq] at h hpq <;> omega
      obtain ⟨x, hx, hpx⟩ := ih this
      exact ⟨x, List.mem_cons_of_mem _ hx, hpx⟩

/-- `util::majority` -/
def majority (n : Nat) : Nat := n / 2 + 1

/-- `q` contains a majority of the (duplicate-free) voter list `v` -/
def HasMajority (q v : List Nat) : Prop :=
  majority v.length ≤ (v.filter (fun x => decide (x ∈ q))).length

instance (q v : List Nat) : Decidable (HasMajority q v) := by
  unfold HasMajority; exact inferInstance

/-- **Majorities of the same voter set intersect** (counting form): any two sets that each contain
`n/2+1` of the `n` voters share a voter. -/
theorem majorities_intersect {v q₁ q₂ : List Nat}
    (h₁ : HasMajority q₁ v) (h₂ : HasMajority q₂ v) : ∃ x ∈ v, x ∈ q₁ ∧ x ∈ q₂ := by
  unfold HasMajority majority at h₁ h₂
  have := pigeonhole v (fun x => decide (x ∈ q₁)) (fun x => decide (x ∈ q₂)) (by omega)
  simpa using this

/-- the same for explicit sub-lists: two duplicate-free sub-lists of `v`, each of size ≥ `|v|/2+1`,
share an element -/
theorem majorities_intersect_sublists {v q₁ q₂ : List Nat}
    (hn₁ : q₁.Nodup) (hn₂ : q₂.Nodup) (hs₁ : ∀ x ∈ q₁, x ∈ v) (hs₂ : ∀ x ∈ q₂, x ∈ v)
    (h₁ : majority v.length ≤ q₁.length) (h₂ : majority v.length ≤ q₂.length) :
    ∃ x, x ∈ q₁ ∧ x ∈ q₂ := by
  have c₁ : q₁.length ≤ (v.filter (fun x => decide (x ∈ q₁))).length :=
    length_le_of_nodup_subset hn₁ (fun x hx => by simp [hs₁ x hx, hx])
  have c₂ : q₂.length ≤ (v.filter (fun x => decide (x ∈ q₂))).length :=
    length_le_of_nodup_subset hn₂ (fun x hx => by simp [hs₂ x hx, hx])
  obtain ⟨x, _, hx⟩ := @majorities_intersect v q₁ q₂ (by unfold HasMajority; omega) (by unfold HasMajority; omega)
  exact ⟨x, hx⟩

/-- **±1-member version**: if the duplicate-free voter lists `v` and `v'` differ by at most one
member (symmetric difference ≤ 1), a majority of `v` and a majority of `v'` share a voter of `v`. -/
theorem majorities_intersect_symmdiff {v v' q₁ q₂ : List Nat} (hv : v.Nodup) (hv' : v'.Nodup)
    (hd : NatSet.symmDiffCount v' v ≤ 1)
    (h₁ : HasMajority q₁ v) (h₂ : HasMajority q₂ v') : ∃ x ∈ v, x ∈ q₁ ∧ x ∈ q₂ := by
  unfold HasMajority majority at h₁ h₂
  unfold NatSet.symmDiffCount at hd
  -- sizes: |v| ≤ |v'| + |v \ v'|  and  |v'| ≤ |v| + |v' \ v|
  have s1 := length_filter_add_filter_not (fun x => decide (x ∈ v')) v
  have s2 := length_filter_add_filter_not (fun x => decide (x ∈ v)) v'
  have i1 : (v.filter (fun x => decide (x ∈ v'))).length ≤ v'.length :=
    length_le_of_nodup_subset (List.Nodup.sublist List.filter_sublist hv) (fun x hx => by simpa using (List.mem_filter.mp hx).2)
  have i2 : (v'.filter (fun x => decide (x ∈ v))).length ≤ v.length :=
    length_le_of_nodup_subset (List.Nodup.sublist List.filter_sublist hv') (fun x hx => by simpa using (List.mem_filter.mp hx).2)
  have i5 : (v.filter (fun x => decide (x ∈ v'))).length ≤ (v'.filter (fun x => decide (x ∈ v))).length :=
    length_le_of_nodup_subset (List.Nodup.sublist List.filter_sublist hv) (fun x hx => by
      simp only [List.mem_filter, decide_eq_true_eq] at hx ⊢; exact ⟨hx.2, hx.1⟩)
  have i6 : (v'.filter (fun x => decide (x ∈ v))).length ≤ (v.filter (fun x => decide (x ∈ v'))).length :=
    length_le_of_nodup_subset (List.Nodup.sublist List.filter_sublist hv') (fun x hx => by
      simp only [List.mem_filter, decide_eq_true_eq] at hx ⊢; exact ⟨hx.2, hx.1⟩)
  -- members of q₂ among v' split into those in v and those outside v
  have s3 := length_filter_add_filter_not (fun x => decide (x ∈ v)) (v'.filter (fun x => decide (x ∈ q₂)))
  have i3 : ((v'.filter (fun x => decide (x ∈ q₂))).filter (fun x => decide (x ∈ v))).length
      ≤ (v.filter (fun x => decide (x ∈ q₂))).length := by
    apply length_le_of_nodup_subset
    · exact List.Nodup.sublist List.filter_sublist (List.Nodup.sublist List.filter_sublist hv')
    · intro x hx
      simp only [List.mem_filter, decide_eq_true_eq] at hx ⊢
      exact ⟨hx.2, hx.1.2⟩
  have i4 : ((v'.filter (fun x => decide (x ∈ q₂))).filter (fun x => !decide (x ∈ v))).length
      ≤ (v'.filter (fun x => !decide (x ∈ v))).length := by
    apply length_le_of_nodup_subset
    · exact List.Nodup.sublist List.filter_sublist (List.Nodup.sublist List.filter_sublist hv')
    · intro x hx
      simp only [List.mem_filter] at hx ⊢
      exact ⟨hx.1.1, hx.2⟩
  have := pigeonhole v (fun x => decide (x ∈ q₁)) (fun x => decide (x ∈ q₂)) (by omega)
  simpa using this

end RaftProofs.ConfChange

namespace RaftProofs.ConfChange
open RaftModel

/-! ## the key set an `IncrChangeMap` stands for -/

/-- base key set with the pending changes applied -/
def eff (m : IncrChangeMap) : NatSet := applyChanges m.base m.changes

theorem applyChanges_append (p : NatSet) (a b : MapChange) :
    applyChanges p (a ++ b) = applyChanges (applyChanges p a) b := by
  simp [applyChanges, List.foldl_append]

theorem eff_push_add (m : IncrChangeMap) (id : Nat) : eff (m.push id .add) = NatSet.insert id (eff m) := by
  simp [eff, IncrChangeMap.push, applyChanges_append]; simp [applyChanges]

theorem eff_push_remove (m : IncrChangeMap) (id : Nat) : eff (m.push id .remove) = NatSet.erase id (eff m) := by
  simp [eff, IncrChangeMap.push, applyChanges_append]; simp [applyChanges]

theorem base_push (m : IncrChangeMap) (id : Nat) (ty : MapChangeType) : (m.push id ty).base = m.base := rfl

theorem sorted_applyChanges {p : NatSet} (hp : Sorted p) (ch : MapChange) : Sorted (applyChanges p ch) := by
  induction ch generalizing p with
  | nil => exact hp
  | cons c ch ih =>
    simp only [applyChanges, List.foldl_cons]
    cases c.2
    · exact ih (sorted_insert hp)
    · exact ih (sorted_erase hp)

private theorem contains_aux (base : NatSet) (id : Nat) (l : MapChange) (b : Bool)
    (hb : b = true ↔ id ∈ base) :
    (match l.find? (fun c => c.1 == id) with
      | some (_, .remove) => false
      | some (_, .add) => true
      | none => b) = true ↔ id ∈ applyChanges base l.reverse := by
  induction l with
  | nil => simpa [applyChanges] using hb
  | cons c l ih =>
    obtain ⟨i, ty⟩ := c
    simp only [List.reverse_cons, applyChanges_append, List.find?_cons]
    by_cases hi : i = id
    · subst hi
      cases ty <;> simp [applyChanges, mem_insert, mem_erase]
    · have : (i == id) = false := by simpa using hi
      simp only [this]
      rw [ih]
      cases ty <;> simp [applyChanges, mem_insert, mem_erase, Ne.symm hi]

/-- `IncrChangeMap::contains` is membership in the key set with the pending changes applied -/
theorem contains_iff (m : IncrChangeMap) (id : Nat) : m.contains id = true ↔ id ∈ eff m := by
  have := contains_aux m.base id m.changes.reverse (decide (id ∈ m.base)) (by simp)
  rw [List.reverse_reverse] at this
  exact this

theorem contains_false_iff (m : IncrChangeMap) (id : Nat) : m.contains id = false ↔ id ∉ eff m := by
  rw [← contains_iff]; simp

/-! ## the loop invariant of `Changer::apply` -/

/-- configuration `cfg` and key set `P` are consistent (everything `check_invariants` looks at, plus
exact tracking, plus `learners_next ∩ incoming = ∅`, plus "id 0 is never a member") -/
structure LI (cfg : Configuration) (P : NatSet) : Prop where
  sInc : Sorted cfg.incoming
  sOut : Sorted cfg.outgoing
  sL : Sorted cfg.learners
  sLN : Sorted cfg.learnersNext
  sP : Sorted P
  exact : ∀ x, x ∈ P ↔ x ∈ cfg.incoming ∨ x ∈ cfg.outgoing ∨ x ∈ cfg.learners ∨ x ∈ cfg.learnersNext
  lInc : ∀ x, x ∈ cfg.learners → x ∉ cfg.incoming
  lOut : ∀ x, x ∈ cfg.learners → x ∉ cfg.outgoing
  lnOut : ∀ x, x ∈ cfg.learnersNext → x ∈ cfg.outgoing
  lnInc : ∀ x, x ∈ cfg.learnersNext → x ∉ cfg.incoming
  zero : 0 ∉ P

/-- what one change does, in terms of membership -/
def StepSpec (cfg : Configuration) (cc : ConfChangeSingle) (cfg' : Configuration) : Prop :=
  cfg'.outgoing = cfg.outgoing ∧ cfg'.autoLeave = cfg.autoLeave ∧
  if cc.nodeId = 0 then cfg' = cfg else
  match cc.ctype with
  | .addNode =>
    (∀ x, x ∈ cfg'.incoming ↔ x = cc.nodeId ∨ x ∈ cfg.incoming) ∧
    (∀ x, x ∈ cfg'.learners ↔ x ∈ cfg.learners ∧ x ≠ cc.nodeId) ∧
    (∀ x, x ∈ cfg'.learnersNext ↔ x ∈ cfg.learnersNext ∧ x ≠ cc.nodeId)
  | .removeNode =>
    (∀ x, x ∈ cfg'.incoming ↔ x ∈ cfg.incoming ∧ x ≠ cc.nodeId) ∧
    (∀ x, x ∈ cfg'.learners ↔ x ∈ cfg.learners ∧ x ≠ cc.nodeId) ∧
    (∀ x, x ∈ cfg'.learnersNext ↔ x ∈ cfg.learnersNext ∧ x ≠ cc.nodeId)
  | .addLearnerNode =>
    (∀ x, x ∈ cfg'.incoming ↔ x ∈ cfg.incoming ∧ x ≠ cc.nodeId) ∧
    (∀ x, x ∈ cfg'.learners ↔ x ∈ cfg.learners ∨ (x = cc.nodeId ∧ cc.nodeId ∉ cfg.outgoing)) ∧
    (∀ x, x ∈ cfg'.learnersNext ↔ x ∈ cfg.learnersNext ∨ (x = cc.nodeId ∧ cc.nodeId ∈ cfg.outgoing))

theorem makeVoter_spec {cfg : Configuration} {prs : IncrChangeMap} (h : LI cfg (eff prs)) (id : Nat)
    (hid : id ≠ 0) :
    LI (makeVoter cfg prs id).1 (eff (makeVoter cfg prs id).2) ∧
    (makeVoter cfg prs id).2.base = prs.base ∧
    StepSpec cfg ⟨.addNode, id⟩ (makeVoter cfg prs id).1 := by
  obtain ⟨h1, h2, h3, h4, h5, h6, h7, h8, h9, h10, h11⟩ := h
  by_cases hc : id ∈ eff prs
  · have hc' := (contains_iff prs id).mpr hc
    simp only [makeVoter, hc', StepSpec, Bool.not_true, Bool.false_eq_true, ↓reduceIte, hid]
    refine ⟨⟨sorted_insert h1, h2, sorted_erase h3, sorted_erase h4, h5, ?_, ?_, ?_, ?_, ?_, h11⟩, ?_, ?_⟩
    all_goals first | rfl | grind [mem_insert, mem_erase]
  · have hc' := (contains_false_iff prs id).mpr hc
    simp only [makeVoter, hc', initProgress, StepSpec, Bool.not_false, ↓reduceIte, hid, eff_push_add, base_push]
    refine ⟨⟨sorted_insert h1, h2, h3, h4, sorted_insert h5, ?_, ?_, ?_, ?_, ?_, ?_⟩, ?_, ?_⟩
    all_goals first | rfl | grind [mem_insert, mem_erase]

theorem makeLearner_spec {cfg : Configuration} {prs : IncrChangeMap} (h : LI cfg (eff prs)) (id : Nat)
    (hid : id ≠ 0) :
    LI (makeLearner cfg prs id).1 (eff (makeLearner cfg prs id).2) ∧
    (makeLearner cfg prs id).2.base = prs.base ∧
    StepSpec cfg ⟨.addLearnerNode, id⟩ (makeLearner cfg prs id).1 := by
  obtain ⟨h1, h2, h3, h4, h5, h6, h7, h8, h9, h10, h11⟩ := h
  by_cases hc : id ∈ eff prs
  · have hc' := (contains_iff prs id).mpr hc
    by_cases hl : id ∈ cfg.learners
    · simp only [makeLearner, hc', hl, StepSpec, Bool.not_true, Bool.false_eq_true, ↓reduceIte, hid,
        decide_true]
      refine ⟨⟨h1, h2, h3, h4, h5, h6, h7, h8, h9, h10, h11⟩, ?_, ?_⟩
      all_goals first | rfl | grind [mem_insert, mem_erase]
    · by_cases ho : id ∈ cfg.outgoing
      · simp only [makeLearner, hc', hl, ho, StepSpec, Bool.not_true, Bool.false_eq_true, ↓reduceIte, hid,
          decide_true, decide_false]
        refine ⟨⟨sorted_erase h1, h2, sorted_erase h3, sorted_insert (sorted_erase h4), h5, ?_, ?_, ?_, ?_, ?_, h11⟩, ?_, ?_⟩
        all_goals first | rfl | grind [mem_insert, mem_erase]
      · simp only [makeLearner, hc', hl, ho, StepSpec, Bool.not_true, Bool.false_eq_true, ↓reduceIte, hid,
          decide_false]
        refine ⟨⟨sorted_erase h1, h2, sorted_insert (sorted_erase h3), sorted_erase h4, h5, ?_, ?_, ?_, ?_, ?_, h11⟩, ?_, ?_⟩
        all_goals first | rfl | grind [mem_insert, mem_erase]
  · have hc' := (contains_false_iff prs id).mpr hc
    simp only [makeLearner, hc', initProgress, StepSpec, Bool.not_false, ↓reduceIte, hid, eff_push_add, base_push,
      Bool.not_true, Bool.false_eq_true]
    refine ⟨⟨h1, h2, sorted_insert h3, h4, sorted_insert h5, ?_, ?_, ?_, ?_, ?_, ?_⟩, ?_, ?_⟩
    all_goals first | rfl | grind [mem_insert, mem_erase]

theorem removeNode_spec {cfg : Configuration} {prs : IncrChangeMap} (h : LI cfg (eff prs)) (id : Nat)
    (hid : id ≠ 0) :
    LI (removeNode cfg prs id).1 (eff (removeNode cfg prs id).2) ∧
    (removeNode cfg prs id).2.base = prs.base ∧
    StepSpec cfg ⟨.removeNode, id⟩ (removeNode cfg prs id).1 := by
  obtain ⟨h1, h2, h3, h4, h5, h6, h7, h8, h9, h10, h11⟩ := h
  by_cases hc : id ∈ eff prs
  · have hc' := (contains_iff prs id).mpr hc
    by_cases ho : id ∈ cfg.outgoing
    · simp only [removeNode, hc', ho, StepSpec, Bool.not_true, Bool.false_eq_true, ↓reduceIte, hid,
        decide_true]
      refine ⟨⟨sorted_erase h1, h2, sorted_erase h3, sorted_erase h4, h5, ?_, ?_, ?_, ?_, ?_, h11⟩, ?_, ?_⟩
      all_goals first | rfl | grind [mem_insert, mem_erase]
    · simp only [removeNode, hc', ho, StepSpec, Bool.not_true, Bool.false_eq_true, ↓reduceIte, hid,
        decide_false, Bool.not_false, eff_push_remove, base_push]
      refine ⟨⟨sorted_erase h1, h2, sorted_erase h3, sorted_erase h4, sorted_erase h5, ?_, ?_, ?_, ?_, ?_, ?_⟩, ?_, ?_⟩
      all_goals first | rfl | grind [mem_insert, mem_erase]
  · have hc' := (contains_false_iff prs id).mpr hc
    simp only [removeNode, hc', StepSpec, Bool.not_false, ↓reduceIte, hid]
    refine ⟨⟨h1, h2, h3, h4, h5, h6, h7, h8, h9, h10, h11⟩, ?_, ?_⟩
    all_goals first | rfl | grind [mem_insert, mem_erase]

/-- one iteration of `Changer::apply` keeps the loop invariant, leaves the base map alone and has the
membership effect `StepSpec` -/
theorem applyOne_spec {cfg : Configuration} {prs : IncrChangeMap} (h : LI cfg (eff prs))
    (cc : ConfChangeSingle) :
    LI (applyOne (cfg, prs) cc).1 (eff (applyOne (cfg, prs) cc).2) ∧
    (applyOne (cfg, prs) cc).2.base = prs.base ∧
    StepSpec cfg cc (applyOne (cfg, prs) cc).1 := by
  obtain ⟨ty, id⟩ := cc
  by_cases hid : id = 0
  · subst hid
    simp [applyOne, StepSpec, h]
  · cases ty
    · simpa [applyOne, hid] using makeVoter_spec h id hid
    · simpa [applyOne, hid] using removeNode_spec h id hid
    · simpa [applyOne, hid] using makeLearner_spec h id hid

theorem applyFold_spec {cfg : Configuration} {prs : IncrChangeMap} (h : LI cfg (eff prs))
    (ccs : List ConfChangeSingle) :
    LI (ccs.foldl applyOne (cfg, prs)).1 (eff (ccs.foldl applyOne (cfg, prs)).2) ∧
    (ccs.foldl applyOne (cfg, prs)).2.base = prs.base ∧
    (ccs.foldl applyOne (cfg, prs)).1.outgoing = cfg.outgoing ∧
    (ccs.foldl applyOne (cfg, prs)).1.autoLeave = cfg.autoLeave := by
  induction ccs generalizing cfg prs with
  | nil => exact ⟨h, rfl, rfl, rfl⟩
  | cons cc ccs ih =>
    obtain ⟨h1, h2, h3, h4, _⟩ := applyOne_spec h cc
    have := @ih (applyOne (cfg, prs) cc).1 (applyOne (cfg, prs) cc).2 h1
    simp only [List.foldl_cons]
    refine ⟨this.1, this.2.1.trans h2, this.2.2.1.trans h3, this.2.2.2.trans h4⟩

/-! ## the tracker invariant and the exact outcome of the three changer methods -/

/-- the invariant of a tracker: `LI` plus "not joint ⇒ no staged learners, no auto-leave" -/
def CfgInv (t : Tracker) : Prop :=
  LI t.conf t.progress ∧ (t.conf.outgoing = [] → t.conf.learnersNext = [] ∧ t.conf.autoLeave = false)

theorem eff_base (P : NatSet) : eff { changes := [], base := P } = P := rfl

theorem checkInvariantsB_of_LI {cfg : Configuration} {prs : IncrChangeMap} (h : LI cfg (eff prs))
    (hj : cfg.outgoing = [] → cfg.learnersNext = [] ∧ cfg.autoLeave = false) :
    checkInvariantsB cfg prs = true := by
  obtain ⟨h1, h2, h3, h4, h5, h6, h7, h8, h9, h10, h11⟩ := h
  simp only [checkInvariantsB, Bool.and_eq_true, List.all_eq_true, contains_iff, Bool.or_eq_true,
    Bool.not_eq_true', decide_eq_true_eq, decide_eq_false_iff_not, joint, List.isEmpty_iff]
  refine ⟨⟨⟨⟨?_, ?_⟩, ?_⟩, ?_⟩, ?_⟩
  · intro x hx; exact (h6 x).mpr (Or.inl hx)
  · intro x hx; exact (h6 x).mpr (Or.inr (Or.inl hx))
  · intro x hx; exact ⟨⟨(h6 x).mpr (Or.inr (Or.inr (Or.inl hx))), h8 x hx⟩, h7 x hx⟩
  · intro x hx; exact ⟨(h6 x).mpr (Or.inr (Or.inr (Or.inr hx))), h9 x hx⟩
  · by_cases ho : cfg.outgoing = []
    · right; simpa using hj ho
    · left; simpa using ho

theorem checkAndCopy_ok {t : Tracker} (h : CfgInv t) :
    checkAndCopy t = .ok (t.conf, { changes := [], base := t.progress }) := by
  have := @checkInvariantsB_of_LI t.conf { changes := [], base := t.progress } h.1 h.2
  simp [checkAndCopy, checkInvariants, this]

theorem eq_nil_of_subset_nil {l o : List Nat} (h : ∀ x, x ∈ l → x ∈ o) (ho : o = []) : l = [] := by
  subst ho
  cases l with
  | nil => rfl
  | cons a l => exact absurd (h a (by simp)) (by simp)

/-- from a consistent tracker, `simple` fails only for the three documented reasons -/
theorem simple_eq {t : Tracker} (h : CfgInv t) (ccs : List ConfChangeSingle) :
    simple t ccs =
      if joint t.conf then .error .simpleInJoint
      else
        let st := ccs.foldl applyOne (t.conf, { changes := [], base := t.progress })
        if st.1.incoming.isEmpty then .error .removedAll
        else if NatSet.symmDiffCount st.1.incoming t.conf.incoming > 1 then .error .multiVoter
        else .ok (st.1, st.2.changes) := by
  unfold simple
  by_cases hj : joint t.conf = true
  · simp [hj]
  · simp only [hj, Bool.false_eq_true, ↓reduceIte, checkAndCopy_ok h, applyAll]
    obtain ⟨f1, _, f3, f4⟩ := @applyFold_spec t.conf { changes := [], base := t.progress } h.1 ccs
    have ho : t.conf.outgoing = [] := by simpa [joint] using hj
    have hck : checkInvariantsB (ccs.foldl applyOne (t.conf, { changes := [], base := t.progress })).1
        (ccs.foldl applyOne (t.conf, { changes := [], base := t.progress })).2 = true := by
      apply checkInvariantsB_of_LI f1
      intro _
      exact ⟨eq_nil_of_subset_nil f1.lnOut (f3.trans ho), f4.trans (h.2 ho).2⟩
    generalize ccs.foldl applyOne (t.conf, { changes := [], base := t.progress }) = st at *
    by_cases he : st.1.incoming.isEmpty = true
    · simp [he]
    · by_cases hs : NatSet.symmDiffCount st.1.incoming t.conf.incoming > 1
      · simp [he, hs]
      · simp [he, hs, checkInvariants, hck]

theorem enterJoint_eq {t : Tracker} (h : CfgInv t) (al : Bool) (ccs : List ConfChangeSingle) :
    enterJoint t al ccs =
      if joint t.conf then .error .alreadyJoint
      else if t.conf.incoming.isEmpty then .error .zeroVoterJoint
      else
        let st := ccs.foldl applyOne
          ({ t.conf with outgoing := t.conf.incoming }, { changes := [], base := t.progress })
        if st.1.incoming.isEmpty then .error .removedAll
        else .ok ({ st.1 with autoLeave := al }, st.2.changes) := by
  unfold enterJoint
  by_cases hj : joint t.conf = true
  · simp [hj]
  · have ho : t.conf.outgoing = [] := by simpa [joint] using hj
    simp only [hj, Bool.false_eq_true, ↓reduceIte, checkAndCopy_ok h, applyAll, ho,
      union_nil_left h.1.sInc]
    split
    · rfl
    · rename_i hne
      have hne' : t.conf.incoming ≠ [] := by simpa using hne
      obtain ⟨h1, h2, h3, h4, h5, h6, h7, h8, h9, h10, h11⟩ := h.1
      have hl : t.conf.learnersNext = [] := (h.2 ho).1
      have hLI : LI { t.conf with outgoing := t.conf.incoming } (eff { changes := [], base := t.progress }) := by
        refine ⟨h1, h1, h3, h4, h5, ?_, h7, ?_, ?_, h10, h11⟩
        · intro x; rw [eff_base, h6 x, ho]; simp
        · exact h7
        · intro x hx; rw [hl] at hx; simp at hx
      obtain ⟨f1, _, f3, f4⟩ := applyFold_spec hLI ccs
      have hck : checkInvariantsB
          { (ccs.foldl applyOne ({ t.conf with outgoing := t.conf.incoming }, { changes := [], base := t.progress })).1 with autoLeave := al }
          (ccs.foldl applyOne ({ t.conf with outgoing := t.conf.incoming }, { changes := [], base := t.progress })).2 = true := by
        apply checkInvariantsB_of_LI
        · exact ⟨f1.sInc, f1.sOut, f1.sL, f1.sLN, f1.sP, f1.exact, f1.lInc, f1.lOut, f1.lnOut, f1.lnInc, f1.zero⟩
        · intro hh
          exact absurd (f3.symm.trans hh) hne'
      generalize ccs.foldl applyOne ({ t.conf with outgoing := t.conf.incoming }, { changes := [], base := t.progress }) = st at *
      by_cases he : st.1.incoming.isEmpty = true
      · simp [he]
      · simp [he, checkInvariants, hck]

theorem mem_eff_leaveRemovals (cfg : Configuration) (os : List Nat) (prs : IncrChangeMap) (x : Nat) :
    x ∈ eff (os.foldl (fun prs id =>
      if !decide (id ∈ cfg.incoming) && !decide (id ∈ cfg.learners) then prs.push id .remove else prs) prs) ↔
    x ∈ eff prs ∧ ¬ (x ∈ os ∧ x ∉ cfg.incoming ∧ x ∉ cfg.learners) := by
  induction os generalizing prs with
  | nil => simp
  | cons o os ih =>
    simp only [List.foldl_cons, ih]
    by_cases c : o ∈ cfg.incoming <;> by_cases d : o ∈ cfg.learners <;>
      simp [c, d, eff_push_remove, mem_erase] <;> grind

theorem sorted_eff_leaveRemovals (cfg : Configuration) (os : List Nat) (prs : IncrChangeMap)
    (h : Sorted (eff prs)) :
    Sorted (eff (os.foldl (fun prs id =>
      if !decide (id ∈ cfg.incoming) && !decide (id ∈ cfg.learners) then prs.push id .remove else prs) prs)) := by
  induction os generalizing prs with
  | nil => exact h
  | cons o os ih =>
    simp only [List.foldl_cons]
    apply ih
    split
    · rw [eff_push_remove]; exact sorted_erase h
    · exact h

/-- the configuration `leave_joint` produces -/
def leaveCfg (c : Configuration) : Configuration :=
  { c with learners := NatSet.union c.learners c.learnersNext, learnersNext := [],
           outgoing := [], autoLeave := false }

/-- the pending progress changes `leave_joint` produces -/
def leavePrs (t : Tracker) : IncrChangeMap :=
  leaveRemovals { t.conf with learners := NatSet.union t.conf.learners t.conf.learnersNext, learnersNext := [] }
    { changes := [], base := t.progress }

theorem mem_eff_leavePrs (t : Tracker) (x : Nat) :
    x ∈ eff (leavePrs t) ↔
      x ∈ t.progress ∧ ¬ (x ∈ t.conf.outgoing ∧ x ∉ t.conf.incoming ∧
        x ∉ NatSet.union t.conf.learners t.conf.learnersNext) :=
  mem_eff_leaveRemovals
    { t.conf with learners := NatSet.union t.conf.learners t.conf.learnersNext, learnersNext := [] }
    t.conf.outgoing { changes := [], base := t.progress } x

theorem base_leaveRemovals (cfg : Configuration) (os : List Nat) (prs : IncrChangeMap) :
    (os.foldl (fun prs id =>
      if !decide (id ∈ cfg.incoming) && !decide (id ∈ cfg.learners) then prs.push id .remove else prs) prs).base
      = prs.base := by
  induction os generalizing prs with
  | nil => rfl
  | cons o os ih =>
    simp only [List.foldl_cons, ih]
    split <;> rfl

theorem leavePrs_base (t : Tracker) : (leavePrs t).base = t.progress :=
  base_leaveRemovals _ _ _

theorem leave_LI {t : Tracker} (h : CfgInv t) : LI (leaveCfg t.conf) (eff (leavePrs t)) := by
  obtain ⟨h1, h2, h3, h4, h5, h6, h7, h8, h9, h10, h11⟩ := h.1
  refine ⟨h1, sorted_nil, sorted_union h3, sorted_nil, ?_, ?_, ?_, ?_, ?_, ?_, ?_⟩
  · exact sorted_eff_leaveRemovals _ _ _ h5
  · intro x
    rw [mem_eff_leavePrs]
    simp only [leaveCfg, mem_union]
    grind
  · intro x; simp only [leaveCfg, mem_union]; grind
  · intro x; simp [leaveCfg]
  · intro x; simp [leaveCfg]
  · intro x; simp [leaveCfg]
  · rw [mem_eff_leavePrs]; grind

theorem leaveJoint_eq {t : Tracker} (h : CfgInv t) :
    leaveJoint t =
      if !joint t.conf then .error .notJoint
      else .ok (leaveCfg t.conf, (leavePrs t).changes) := by
  unfold leaveJoint
  by_cases hj : joint t.conf = true
  · have ho : t.conf.outgoing.isEmpty = false := by simpa [joint] using hj
    simp only [hj, Bool.not_true, Bool.false_eq_true, ↓reduceIte, checkAndCopy_ok h, ho]
    have := checkInvariantsB_of_LI (leave_LI h) (fun _ => ⟨rfl, rfl⟩)
    simp only [leaveCfg, leavePrs] at this
    simp [checkInvariants, this, leaveCfg, leavePrs]
  · simp [hj]

/-! ## preservation of the invariant -/

theorem progress_applyConf (t : Tracker) (cfg : Configuration) (prs : IncrChangeMap)
    (hb : prs.base = t.progress) : (t.applyConf cfg prs.changes).progress = eff prs := by
  simp [Tracker.applyConf, eff, hb]

/-- **`simple` preserves the invariant**, and what it returns has at least one voter and differs
from the old incoming voters by at most one member. -/
theorem simple_inv {t : Tracker} (h : CfgInv t) {ccs : List ConfChangeSingle}
    {cfg : Configuration} {ch : MapChange} (hr : simple t ccs = .ok (cfg, ch)) :
    CfgInv (t.applyConf cfg ch) ∧ cfg.incoming ≠ [] ∧
    NatSet.symmDiffCount cfg.incoming t.conf.incoming ≤ 1 ∧ cfg.outgoing = [] := by
  rw [simple_eq h] at hr
  by_cases hj : joint t.conf = true
  · simp [hj] at hr
  · have ho : t.conf.outgoing = [] := by simpa [joint] using hj
    obtain ⟨f1, f2, f3, f4⟩ := @applyFold_spec t.conf { changes := [], base := t.progress } h.1 ccs
    simp only [hj, Bool.false_eq_true, ↓reduceIte] at hr
    generalize ccs.foldl applyOne (t.conf, { changes := [], base := t.progress }) = st at *
    by_cases he : st.1.incoming.isEmpty = true
    · simp [he] at hr
    · by_cases hs : NatSet.symmDiffCount st.1.incoming t.conf.incoming > 1
      · simp [he, hs] at hr
      · simp only [he, hs, Bool.false_eq_true, ↓reduceIte, Except.ok.injEq, Prod.mk.injEq] at hr
        obtain ⟨rfl, rfl⟩ := hr
        refine ⟨⟨?_, ?_⟩, by simpa using he, by omega, f3.trans ho⟩
        · rw [show (t.applyConf st.1 st.2.changes).conf = st.1 from rfl, progress_applyConf t st.1 st.2 f2]
          exact f1
        · intro _
          exact ⟨eq_nil_of_subset_nil f1.lnOut (f3.trans ho), f4.trans (h.2 ho).2⟩

/-- **`enter_joint` preserves the invariant**; the result has at least one incoming voter, its
outgoing half is the old incoming half, and `auto_leave` is as requested. -/
theorem enterJoint_inv {t : Tracker} (h : CfgInv t) {al : Bool} {ccs : List ConfChangeSingle}
    {cfg : Configuration} {ch : MapChange} (hr : enterJoint t al ccs = .ok (cfg, ch)) :
    CfgInv (t.applyConf cfg ch) ∧ cfg.incoming ≠ [] ∧ cfg.outgoing = t.conf.incoming ∧
    t.conf.incoming ≠ [] ∧ t.conf.outgoing = [] ∧ cfg.autoLeave = al := by
  rw [enterJoint_eq h] at hr
  by_cases hj : joint t.conf = true
  · simp [hj] at hr
  · have ho : t.conf.outgoing = [] := by simpa [joint] using hj
    simp only [hj, Bool.false_eq_true, ↓reduceIte] at hr
    by_cases hz : t.conf.incoming.isEmpty = true
    · simp [hz] at hr
    · simp only [hz, Bool.false_eq_true, ↓reduceIte] at hr
      have hne : t.conf.incoming ≠ [] := by simpa using hz
      obtain ⟨h1, h2, h3, h4, h5, h6, h7, h8, h9, h10, h11⟩ := h.1
      have hl : t.conf.learnersNext = [] := (h.2 ho).1
      have hLI : LI { t.conf with outgoing := t.conf.incoming } (eff { changes := [], base := t.progress }) := by
        refine ⟨h1, h1, h3, h4, h5, ?_, h7, ?_, ?_, h10, h11⟩
        · intro x; rw [eff_base, h6 x, ho]; simp
        · exact h7
        · intro x hx; rw [hl] at hx; simp at hx
      obtain ⟨f1, f2, f3, f4⟩ := applyFold_spec hLI ccs
      generalize ccs.foldl applyOne ({ t.conf with outgoing := t.conf.incoming }, { changes := [], base := t.progress }) = st at *
      by_cases he : st.1.incoming.isEmpty = true
      · simp [he] at hr
      · simp only [he, Bool.false_eq_true, ↓reduceIte, Except.ok.injEq, Prod.mk.injEq] at hr
        obtain ⟨rfl, rfl⟩ := hr
        refine ⟨⟨?_, ?_⟩, by simpa using he, f3, hne, ho, rfl⟩
        · rw [progress_applyConf t _ st.2 f2]
          exact ⟨f1.sInc, f1.sOut, f1.sL, f1.sLN, f1.sP, f1.exact, f1.lInc, f1.lOut, f1.lnOut, f1.lnInc, f1.zero⟩
        · intro hh
          exact absurd (f3.symm.trans hh) hne

/-- **`leave_joint` preserves the invariant**; the incoming voters are untouched, the outgoing half
is dropped, the staged learners become learners. -/
theorem leaveJoint_inv {t : Tracker} (h : CfgInv t)
    {cfg : Configuration} {ch : MapChange} (hr : leaveJoint t = .ok (cfg, ch)) :
    CfgInv (t.applyConf cfg ch) ∧ cfg.incoming = t.conf.incoming ∧ cfg.outgoing = [] ∧
    t.conf.outgoing ≠ [] ∧ cfg.learnersNext = [] ∧ cfg.autoLeave = false ∧
    (∀ x, x ∈ cfg.learners ↔ x ∈ t.conf.learners ∨ x ∈ t.conf.learnersNext) := by
  rw [leaveJoint_eq h] at hr
  by_cases hj : joint t.conf = true
  · simp only [hj, Bool.not_true, Bool.false_eq_true, ↓reduceIte, Except.ok.injEq, Prod.mk.injEq] at hr
    obtain ⟨rfl, rfl⟩ := hr
    refine ⟨⟨?_, fun _ => ⟨rfl, rfl⟩⟩, rfl, rfl, by simpa [joint] using hj, rfl, rfl, ?_⟩
    · rw [progress_applyConf t _ (leavePrs t) (leavePrs_base t)]
      exact leave_LI h
    · intro x; simp [leaveCfg, mem_union]
  · simp [hj] at hr

/-! ## `restore`: step lemmas -/

theorem length_le_one_of_nodup_all_eq {l : List Nat} {v : Nat} (hn : l.Nodup) (h : ∀ x ∈ l, x = v) :
    l.length ≤ 1 := by
  match l, hn, h with
  | [], _, _ => simp
  | [_], _, _ => simp
  | a :: b :: l, hn, h =>
    have ha := h a (by simp)
    have hb := h b (by simp)
    have := (List.nodup_cons.mp hn).1
    subst ha hb
    simp at this

theorem symmDiffCount_self (a : List Nat) : NatSet.symmDiffCount a a = 0 := by
  simp [NatSet.symmDiffCount]

theorem symmDiffCount_insert_le {a b : List Nat} {v : Nat} (ha : Sorted a)
    (h : ∀ x, x ∈ a ↔ x = v ∨ x ∈ b) : NatSet.symmDiffCount a b ≤ 1 := by
  unfold NatSet.symmDiffCount
  have h1 : (a.filter (fun x => !decide (x ∈ b))).length ≤ 1 := by
    apply @length_le_one_of_nodup_all_eq _ v (List.Nodup.sublist List.filter_sublist ha.nodup)
    intro x hx
    simp only [List.mem_filter, Bool.not_eq_true', decide_eq_false_iff_not] at hx
    rcases (h x).mp hx.1 with e | e
    · exact e
    · exact absurd e hx.2
  have h2 : b.filter (fun x => !decide (x ∈ a)) = [] := by
    apply List.filter_eq_nil_iff.mpr
    intro x hx
    simp [(h x).mpr (Or.inr hx)]
  rw [h2]; simp; exact h1

/-- trackers satisfying the invariant are determined by the members of their four sets and the flag -/
theorem tracker_ext {t₁ t₂ : Tracker} (h₁ : CfgInv t₁) (h₂ : CfgInv t₂)
    (hi : ∀ x, x ∈ t₁.conf.incoming ↔ x ∈ t₂.conf.incoming)
    (ho : ∀ x, x ∈ t₁.conf.outgoing ↔ x ∈ t₂.conf.outgoing)
    (hl : ∀ x, x ∈ t₁.conf.learners ↔ x ∈ t₂.conf.learners)
    (hn : ∀ x, x ∈ t₁.conf.learnersNext ↔ x ∈ t₂.conf.learnersNext)
    (ha : t₁.conf.autoLeave = t₂.conf.autoLeave) : t₁ = t₂ := by
  obtain ⟨⟨i1, o1, l1, n1, a1⟩, p1⟩ := t₁
  obtain ⟨⟨i2, o2, l2, n2, a2⟩, p2⟩ := t₂
  have e1 := sorted_ext h₁.1.sInc h₂.1.sInc hi
  have e2 := sorted_ext h₁.1.sOut h₂.1.sOut ho
  have e3 := sorted_ext h₁.1.sL h₂.1.sL hl
  have e4 := sorted_ext h₁.1.sLN h₂.1.sLN hn
  simp only at e1 e2 e3 e4 ha
  subst e1 e2 e3 e4 ha
  have e5 : p1 = p2 := sorted_ext h₁.1.sP h₂.1.sP (fun x => by
    rw [h₁.1.exact x, h₂.1.exact x])
  subst e5
  rfl

theorem restoreLoop_append (t : Tracker) (a b : List ConfChangeSingle) :
    restoreLoop t (a ++ b) =
      match restoreLoop t a with
      | .error e => .error e
      | .ok t' => restoreLoop t' b := by
  induction a generalizing t with
  | nil => rfl
  | cons c a ih =>
    simp only [List.cons_append, restoreLoop]
    cases simple t [c] with
    | error e => rfl
    | ok r => obtain ⟨cfg, ch⟩ := r; exact ih _

/-- `restoreLoop` keeps the invariant -/
theorem restoreLoop_inv {t t' : Tracker} (h : CfgInv t) {ccs : List ConfChangeSingle}
    (hr : restoreLoop t ccs = .ok t') : CfgInv t' := by
  induction ccs generalizing t with
  | nil => simp only [restoreLoop, Except.ok.injEq] at hr; subst hr; exact h
  | cons c ccs ih =>
    simp only [restoreLoop] at hr
    cases hs : simple t [c] with
    | error e => simp [hs] at hr
    | ok r =>
      obtain ⟨cfg, ch⟩ := r
      simp only [hs] at hr
      exact ih (simple_inv h hs).1 hr

/-- one `simple(&[add v])` step of `restore` on a non-joint tracker -/
theorem simple_addVoter {t : Tracker} (h : CfgInv t) (ho : t.conf.outgoing = []) {v : Nat} (hv : v ≠ 0) :
    ∃ cfg ch, simple t [⟨.addNode, v⟩] = .ok (cfg, ch) ∧
      (∀ x, x ∈ cfg.incoming ↔ x = v ∨ x ∈ t.conf.incoming) ∧
      (∀ x, x ∈ cfg.learners ↔ x ∈ t.conf.learners ∧ x ≠ v) := by
  have hj : joint t.conf = false := by simp [joint, ho]
  obtain ⟨f1, _, sp⟩ := @applyOne_spec t.conf { changes := [], base := t.progress } h.1 ⟨.addNode, v⟩
  simp only [StepSpec, hv, ↓reduceIte] at sp
  obtain ⟨_, _, s1, s2, _⟩ := sp
  have hne : (applyOne (t.conf, { changes := [], base := t.progress }) ⟨.addNode, v⟩).1.incoming.isEmpty = false := by
    cases hh : (applyOne (t.conf, { changes := [], base := t.progress }) ⟨.addNode, v⟩).1.incoming with
    | nil => have := (s1 v).mpr (Or.inl rfl); rw [hh] at this; simp at this
    | cons a l => rfl
  have hsd := symmDiffCount_insert_le f1.sInc s1
  rw [simple_eq h]
  simp only [hj, Bool.false_eq_true, ↓reduceIte, List.foldl_cons, List.foldl_nil]
  have hgt : ¬ NatSet.symmDiffCount (applyOne (t.conf, { changes := [], base := t.progress }) ⟨.addNode, v⟩).1.incoming t.conf.incoming > 1 := by omega
  refine ⟨(applyOne (t.conf, { changes := [], base := t.progress }) ⟨.addNode, v⟩).1,
    (applyOne (t.conf, { changes := [], base := t.progress }) ⟨.addNode, v⟩).2.changes, ?_, s1, s2⟩
  simp only [hne, Bool.false_eq_true, ↓reduceIte, hgt]

/-- one `simple(&[add-learner l])` step of `restore` on a non-joint tracker, `l` not a voter -/
theorem simple_addLearner {t : Tracker} (h : CfgInv t) (ho : t.conf.outgoing = [])
    (hne : t.conf.incoming ≠ []) {l : Nat} (hl : l ≠ 0) (hli : l ∉ t.conf.incoming) :
    ∃ cfg ch, simple t [⟨.addLearnerNode, l⟩] = .ok (cfg, ch) ∧
      cfg.incoming = t.conf.incoming ∧
      (∀ x, x ∈ cfg.learners ↔ x ∈ t.conf.learners ∨ x = l) := by
  have hj : joint t.conf = false := by simp [joint, ho]
  obtain ⟨f1, _, sp⟩ := @applyOne_spec t.conf { changes := [], base := t.progress } h.1 ⟨.addLearnerNode, l⟩
  simp only [StepSpec, hl, ↓reduceIte, ho] at sp
  obtain ⟨_, _, s1, s2, _⟩ := sp
  have hinc : (applyOne (t.conf, { changes := [], base := t.progress }) ⟨.addLearnerNode, l⟩).1.incoming = t.conf.incoming :=
    sorted_ext f1.sInc h.1.sInc (fun x => by
      rw [s1 x]; constructor
      · exact fun hx => hx.1
      · exact fun hx => ⟨hx, fun e => hli (e ▸ hx)⟩)
  have hne' : (applyOne (t.conf, { changes := [], base := t.progress }) ⟨.addLearnerNode, l⟩).1.incoming.isEmpty = false := by
    rw [hinc]; cases hh : t.conf.incoming with
    | nil => exact absurd hh hne
    | cons a l => rfl
  rw [simple_eq h]
  simp only [hj, Bool.false_eq_true, ↓reduceIte, List.foldl_cons, List.foldl_nil]
  have hgt : ¬ NatSet.symmDiffCount (applyOne (t.conf, { changes := [], base := t.progress }) ⟨.addLearnerNode, l⟩).1.incoming t.conf.incoming > 1 := by
    rw [hinc, symmDiffCount_self]; omega
  refine ⟨(applyOne (t.conf, { changes := [], base := t.progress }) ⟨.addLearnerNode, l⟩).1,
    (applyOne (t.conf, { changes := [], base := t.progress }) ⟨.addLearnerNode, l⟩).2.changes, ?_, hinc, ?_⟩
  · simp only [hne', Bool.false_eq_true, ↓reduceIte, hgt]
  · intro x; rw [s2 x]; simp

/-- the first loop of `restore` (and the voter part of the single loop): adding voters one by one -/
theorem restoreLoop_addVoters {t : Tracker} (h : CfgInv t) (ho : t.conf.outgoing = [])
    (vs : List Nat) (hz : 0 ∉ vs) :
    ∃ t', restoreLoop t (vs.map (fun id => (⟨.addNode, id⟩ : ConfChangeSingle))) = .ok t' ∧
      CfgInv t' ∧ t'.conf.outgoing = [] ∧
      (∀ x, x ∈ t'.conf.incoming ↔ x ∈ t.conf.incoming ∨ x ∈ vs) ∧
      (∀ x, x ∈ t'.conf.learners ↔ x ∈ t.conf.learners ∧ x ∉ vs) := by
  induction vs generalizing t with
  | nil => exact ⟨t, rfl, h, ho, by simp, by simp⟩
  | cons v vs ih =>
    have hv : v ≠ 0 := fun e => hz (by simp [e])
    have hz' : 0 ∉ vs := fun e => hz (List.mem_cons_of_mem _ e)
    obtain ⟨cfg, ch, hs, s1, s2⟩ := simple_addVoter h ho hv
    obtain ⟨hi, _, _, ho'⟩ := simple_inv h hs
    obtain ⟨t', hr, hi', ho'', m1, m2⟩ := @ih (t.applyConf cfg ch) hi ho' hz'
    refine ⟨t', ?_, hi', ho'', ?_, ?_⟩
    · simp only [List.map_cons, restoreLoop, hs]; exact hr
    · intro x; rw [m1 x]; simp only [Tracker.applyConf, s1 x, List.mem_cons]; grind
    · intro x; rw [m2 x]; simp only [Tracker.applyConf, s2 x, List.mem_cons]; grind

/-- the learner part of the single loop of `restore` (non-joint ConfState) -/
theorem restoreLoop_addLearners {t : Tracker} (h : CfgInv t) (ho : t.conf.outgoing = [])
    (hne : t.conf.incoming ≠ []) (ls : List Nat) (hz : 0 ∉ ls) (hd : ∀ l ∈ ls, l ∉ t.conf.incoming) :
    ∃ t', restoreLoop t (ls.map (fun id => (⟨.addLearnerNode, id⟩ : ConfChangeSingle))) = .ok t' ∧
      CfgInv t' ∧ t'.conf.outgoing = [] ∧ t'.conf.incoming = t.conf.incoming ∧
      (∀ x, x ∈ t'.conf.learners ↔ x ∈ t.conf.learners ∨ x ∈ ls) := by
  induction ls generalizing t with
  | nil => exact ⟨t, rfl, h, ho, rfl, by simp⟩
  | cons l ls ih =>
    have hl : l ≠ 0 := fun e => hz (by simp [e])
    have hz' : 0 ∉ ls := fun e => hz (List.mem_cons_of_mem _ e)
    obtain ⟨cfg, ch, hs, s1, s2⟩ := simple_addLearner h ho hne hl (hd l (by simp))
    obtain ⟨hi, _, _, ho'⟩ := simple_inv h hs
    have hinc : (t.applyConf cfg ch).conf.incoming = t.conf.incoming := s1
    obtain ⟨t', hr, hi', ho'', m1, m2⟩ := @ih (t.applyConf cfg ch) hi ho' (by rw [hinc]; exact hne) hz'
      (fun l' hl' => by rw [hinc]; exact hd l' (List.mem_cons_of_mem _ hl'))
    refine ⟨t', ?_, hi', ho'', m1.trans hinc, ?_⟩
    · simp only [List.map_cons, restoreLoop, hs]; exact hr
    · intro x; rw [m2 x]; simp only [Tracker.applyConf, s2 x, List.mem_cons]; grind

/-! ## `restore`: the batches of the `enter_joint` change list -/

theorem fold_removes {cfg : Configuration} {prs : IncrChangeMap} (h : LI cfg (eff prs))
    (ids : List Nat) (hz : 0 ∉ ids) :
    (∀ x, x ∈ ((ids.map (fun id => (⟨.removeNode, id⟩ : ConfChangeSingle))).foldl applyOne (cfg, prs)).1.incoming ↔
      x ∈ cfg.incoming ∧ x ∉ ids) ∧
    (∀ x, x ∈ ((ids.map (fun id => (⟨.removeNode, id⟩ : ConfChangeSingle))).foldl applyOne (cfg, prs)).1.learners ↔
      x ∈ cfg.learners ∧ x ∉ ids) ∧
    (∀ x, x ∈ ((ids.map (fun id => (⟨.removeNode, id⟩ : ConfChangeSingle))).foldl applyOne (cfg, prs)).1.learnersNext ↔
      x ∈ cfg.learnersNext ∧ x ∉ ids) := by
  induction ids generalizing cfg prs with
  | nil => simp
  | cons id ids ih =>
    have hid : id ≠ 0 := fun e => hz (by simp [e])
    have hz' : 0 ∉ ids := fun e => hz (List.mem_cons_of_mem _ e)
    obtain ⟨f1, _, sp⟩ := applyOne_spec h ⟨.removeNode, id⟩
    simp only [StepSpec, hid, ↓reduceIte] at sp
    obtain ⟨_, _, s1, s2, s3⟩ := sp
    obtain ⟨m1, m2, m3⟩ := @ih (applyOne (cfg, prs) ⟨.removeNode, id⟩).1 (applyOne (cfg, prs) ⟨.removeNode, id⟩).2 f1 hz'
    simp only [List.map_cons, List.foldl_cons, List.mem_cons]
    refine ⟨fun x => ?_, fun x => ?_, fun x => ?_⟩
    · rw [m1 x, s1 x]; grind
    · rw [m2 x, s2 x]; grind
    · rw [m3 x, s3 x]; grind

theorem fold_adds {cfg : Configuration} {prs : IncrChangeMap} (h : LI cfg (eff prs))
    (ids : List Nat) (hz : 0 ∉ ids) :
    (∀ x, x ∈ ((ids.map (fun id => (⟨.addNode, id⟩ : ConfChangeSingle))).foldl applyOne (cfg, prs)).1.incoming ↔
      x ∈ cfg.incoming ∨ x ∈ ids) ∧
    (∀ x, x ∈ ((ids.map (fun id => (⟨.addNode, id⟩ : ConfChangeSingle))).foldl applyOne (cfg, prs)).1.learners ↔
      x ∈ cfg.learners ∧ x ∉ ids) ∧
    (∀ x, x ∈ ((ids.map (fun id => (⟨.addNode, id⟩ : ConfChangeSingle))).foldl applyOne (cfg, prs)).1.learnersNext ↔
      x ∈ cfg.learnersNext ∧ x ∉ ids) := by
  induction ids generalizing cfg prs with
  | nil => simp
  | cons id ids ih =>
    have hid : id ≠ 0 := fun e => hz (by simp [e])
    have hz' : 0 ∉ ids := fun e => hz (List.mem_cons_of_mem _ e)
    obtain ⟨f1, _, sp⟩ := applyOne_spec h ⟨.addNode, id⟩
    simp only [StepSpec, hid, ↓reduceIte] at sp
    obtain ⟨_, _, s1, s2, s3⟩ := sp
    obtain ⟨m1, m2, m3⟩ := @ih (applyOne (cfg, prs) ⟨.addNode, id⟩).1 (applyOne (cfg, prs) ⟨.addNode, id⟩).2 f1 hz'
    simp only [List.map_cons, List.foldl_cons, List.mem_cons]
    refine ⟨fun x => ?_, fun x => ?_, fun x => ?_⟩
    · rw [m1 x, s1 x]; grind
    · rw [m2 x, s2 x]; grind
    · rw [m3 x, s3 x]; grind

theorem fold_addLearners {cfg : Configuration} {prs : IncrChangeMap} (h : LI cfg (eff prs))
    (ids : List Nat) (hz : 0 ∉ ids) :
    (∀ x, x ∈ ((ids.map (fun id => (⟨.addLearnerNode, id⟩ : ConfChangeSingle))).foldl applyOne (cfg, prs)).1.incoming ↔
      x ∈ cfg.incoming ∧ x ∉ ids) ∧
    (∀ x, x ∈ ((ids.map (fun id => (⟨.addLearnerNode, id⟩ : ConfChangeSingle))).foldl applyOne (cfg, prs)).1.learners ↔
      x ∈ cfg.learners ∨ (x ∈ ids ∧ x ∉ cfg.outgoing)) ∧
    (∀ x, x ∈ ((ids.map (fun id => (⟨.addLearnerNode, id⟩ : ConfChangeSingle))).foldl applyOne (cfg, prs)).1.learnersNext ↔
      x ∈ cfg.learnersNext ∨ (x ∈ ids ∧ x ∈ cfg.outgoing)) := by
  induction ids generalizing cfg prs with
  | nil => simp
  | cons id ids ih =>
    have hid : id ≠ 0 := fun e => hz (by simp [e])
    have hz' : 0 ∉ ids := fun e => hz (List.mem_cons_of_mem _ e)
    obtain ⟨f1, _, sp⟩ := applyOne_spec h ⟨.addLearnerNode, id⟩
    simp only [StepSpec, hid, ↓reduceIte] at sp
    obtain ⟨so, _, s1, s2, s3⟩ := sp
    obtain ⟨m1, m2, m3⟩ := @ih (applyOne (cfg, prs) ⟨.addLearnerNode, id⟩).1 (applyOne (cfg, prs) ⟨.addLearnerNode, id⟩).2 f1 hz'
    simp only [List.map_cons, List.foldl_cons, List.mem_cons]
    refine ⟨fun x => ?_, fun x => ?_, fun x => ?_⟩
    · rw [m1 x, s1 x]; grind
    · rw [m2 x, s2 x, so]; grind
    · rw [m3 x, s3 x, so]; grind

abbrev ccsOf (ty : ConfChangeType) (ids : List Nat) : List ConfChangeSingle :=
  ids.map (fun id => (⟨ty, id⟩ : ConfChangeSingle))

/-- the whole change list `restore` hands to `enter_joint`, from any consistent loop state -/
theorem fold_restore_joint {cfg : Configuration} {prs : IncrChangeMap} (h : LI cfg (eff prs))
    (os vs ls ns : List Nat) (hzo : 0 ∉ os) (hzv : 0 ∉ vs) (hzl : 0 ∉ ls) (hzn : 0 ∉ ns) :
    ∃ st, (ccsOf .removeNode os ++ ccsOf .addNode vs ++ ccsOf .addLearnerNode ls ++
            ccsOf .addLearnerNode ns).foldl applyOne (cfg, prs) = st ∧
      LI st.1 (eff st.2) ∧ st.2.base = prs.base ∧ st.1.outgoing = cfg.outgoing ∧
      (∀ x, x ∈ st.1.incoming ↔ ((x ∈ cfg.incoming ∧ x ∉ os) ∨ x ∈ vs) ∧ x ∉ ls ∧ x ∉ ns) ∧
      (∀ x, x ∈ st.1.learners ↔
        ((x ∈ cfg.learners ∧ x ∉ os ∧ x ∉ vs) ∨ (x ∈ ls ∧ x ∉ cfg.outgoing)) ∨ (x ∈ ns ∧ x ∉ cfg.outgoing)) ∧
      (∀ x, x ∈ st.1.learnersNext ↔
        ((x ∈ cfg.learnersNext ∧ x ∉ os ∧ x ∉ vs) ∨ (x ∈ ls ∧ x ∈ cfg.outgoing)) ∨ (x ∈ ns ∧ x ∈ cfg.outgoing)) := by
  simp only [List.foldl_append]
  -- removes
  obtain ⟨a1, a2, a3, _⟩ := applyFold_spec h (ccsOf .removeNode os)
  obtain ⟨ra, rb, rc⟩ := fold_removes h os hzo
  generalize (ccsOf .removeNode os).foldl applyOne (cfg, prs) = st1 at *
  obtain ⟨c1, p1⟩ := st1
  -- adds
  obtain ⟨b1, b2, b3, _⟩ := applyFold_spec a1 (ccsOf .addNode vs)
  obtain ⟨sa, sb, sc⟩ := fold_adds a1 vs hzv
  generalize (ccsOf .addNode vs).foldl applyOne (c1, p1) = st2 at *
  obtain ⟨c2, p2⟩ := st2
  -- learners
  obtain ⟨d1, d2, d3, _⟩ := applyFold_spec b1 (ccsOf .addLearnerNode ls)
  obtain ⟨ta, tb, tc⟩ := fold_addLearners b1 ls hzl
  generalize (ccsOf .addLearnerNode ls).foldl applyOne (c2, p2) = st3 at *
  obtain ⟨c3, p3⟩ := st3
  -- learners_next
  obtain ⟨e1, e2, e3, _⟩ := applyFold_spec d1 (ccsOf .addLearnerNode ns)
  obtain ⟨ua, ub, uc⟩ := fold_addLearners d1 ns hzn
  generalize (ccsOf .addLearnerNode ns).foldl applyOne (c3, p3) = st4 at *
  obtain ⟨c4, p4⟩ := st4
  simp only at *
  refine ⟨_, rfl, e1, ?_, ?_, fun x => ?_, fun x => ?_, fun x => ?_⟩
  · rw [e2, d2, b2, a2]
  · rw [e3, d3, b3, a3]
  · rw [ua x, ta x, sa x, ra x]; grind
  · rw [ub x, tb x, sb x, rb x, d3, b3, a3]; grind
  · rw [uc x, tc x, sc x, rc x, d3, b3, a3]; grind

/-! ## `restore (to_conf_state c) = c` -/

theorem eqWithoutOrder_iff {l r : List Nat} : eqWithoutOrder l r = true ↔ ∀ x, x ∈ l ↔ x ∈ r := by
  simp only [eqWithoutOrder, Bool.and_eq_true, List.all_eq_true, decide_eq_true_eq]
  constructor
  · rintro ⟨h1, h2⟩ x; exact ⟨h1 x, h2 x⟩
  · intro h; exact ⟨fun x => (h x).mp, fun x => (h x).mpr⟩

/-- what `conf_state_eq` decides: equal as sets, field by field -/
theorem confStateEq_iff {a b : ConfState} :
    confStateEq a b = true ↔
      (∀ x, x ∈ a.voters ↔ x ∈ b.voters) ∧ (∀ x, x ∈ a.learners ↔ x ∈ b.learners) ∧
      (∀ x, x ∈ a.votersOutgoing ↔ x ∈ b.votersOutgoing) ∧
      (∀ x, x ∈ a.learnersNext ↔ x ∈ b.learnersNext) ∧ a.autoLeave = b.autoLeave := by
  unfold confStateEq
  split
  · rename_i h
    obtain ⟨h1, h2, h3, h4, h5⟩ := h
    simp [h1, h2, h3, h4, h5]
  · simp only [Bool.and_eq_true, eqWithoutOrder_iff, beq_iff_eq]
    constructor
    · rintro ⟨⟨⟨⟨h1, h2⟩, h3⟩, h4⟩, h5⟩; exact ⟨h1, h2, h3, h4, h5⟩
    · rintro ⟨h1, h2, h3, h4, h5⟩; exact ⟨⟨⟨⟨h1, h2⟩, h3⟩, h4⟩, h5⟩

theorem enter_LI {t : Tracker} (h : CfgInv t) (ho : t.conf.outgoing = []) :
    LI { t.conf with outgoing := t.conf.incoming } (eff { changes := [], base := t.progress }) := by
  obtain ⟨h1, h2, h3, h4, h5, h6, h7, h8, h9, h10, h11⟩ := h.1
  have hl : t.conf.learnersNext = [] := (h.2 ho).1
  refine ⟨h1, h1, h3, h4, h5, ?_, h7, ?_, ?_, h10, h11⟩
  · intro x; rw [eff_base, h6 x, ho]; simp
  · exact h7
  · intro x hx; rw [hl] at hx; simp at hx

theorem isEmpty_false_of_mem {l : List Nat} {x : Nat} (h : x ∈ l) : l.isEmpty = false := by
  cases l with
  | nil => simp at h
  | cons a l => rfl

theorem exists_mem_of_ne_nil {l : List Nat} (h : l ≠ []) : ∃ x, x ∈ l := by
  cases l with
  | nil => exact absurd rfl h
  | cons a l => exact ⟨a, by simp⟩

theorem map_isEmpty_ccs (ty : ConfChangeType) (ids : List Nat) :
    (ids.map (fun id => (⟨ty, id⟩ : ConfChangeSingle))).isEmpty = ids.isEmpty := by
  cases ids <;> rfl

/-- **Restoring the `ConfState` of a consistent tracker reproduces the tracker**, whatever the order
(and multiplicity) in which the `ConfState` lists its ids. -/
theorem restore_roundtrip {t : Tracker} (h : CfgInv t) (hv : t.conf.incoming ≠ [] ∨ t = Tracker.empty)
    (cs : ConfState) (hcs : confStateEq cs t.conf.toConfState = true) :
    restore Tracker.empty cs = .ok t := by
  obtain ⟨eV, eL, eO, eN, eA⟩ := confStateEq_iff.mp hcs
  simp only [Configuration.toConfState] at eV eL eO eN eA
  obtain ⟨h1, h2, h3, h4, h5, h6, h7, h8, h9, h10, h11⟩ := h.1
  have z : ∀ x, (x ∈ t.conf.incoming ∨ x ∈ t.conf.outgoing ∨ x ∈ t.conf.learners ∨ x ∈ t.conf.learnersNext) → x ≠ 0 :=
    fun x hx e => h11 (e ▸ (h6 x).mpr hx)
  have zV : 0 ∉ cs.voters := fun hx => z 0 (Or.inl ((eV 0).mp hx)) rfl
  have zO : 0 ∉ cs.votersOutgoing := fun hx => z 0 (Or.inr (Or.inl ((eO 0).mp hx))) rfl
  have zL : 0 ∉ cs.learners := fun hx => z 0 (Or.inr (Or.inr (Or.inl ((eL 0).mp hx)))) rfl
  have zN : 0 ∉ cs.learnersNext := fun hx => z 0 (Or.inr (Or.inr (Or.inr ((eN 0).mp hx)))) rfl
  have hE : CfgInv Tracker.empty := by
    refine ⟨⟨sorted_nil, sorted_nil, sorted_nil, sorted_nil, sorted_nil, ?_, ?_, ?_, ?_, ?_, ?_⟩, fun _ => ⟨rfl, rfl⟩⟩ <;>
      simp [Tracker.empty]
  simp only [restore, toConfChangeSingle, map_isEmpty_ccs]
  by_cases ho : t.conf.outgoing = []
  · -- non-joint
    have hcO : cs.votersOutgoing = [] := eq_nil_of_subset_nil (fun x hx => (eO x).mp hx) ho
    have hcN : cs.learnersNext = [] :=
      eq_nil_of_subset_nil (fun x hx => (eN x).mp hx) (h.2 ho).1
    simp only [hcO, hcN, List.isEmpty_nil, ↓reduceIte, List.map_nil, List.nil_append, List.append_nil]
    rw [restoreLoop_append]
    obtain ⟨t1, r1, i1, o1, m1, m1'⟩ := restoreLoop_addVoters hE rfl cs.voters zV
    rw [r1]
    simp only
    by_cases hne : t.conf.incoming = []
    · -- the empty tracker
      have ht : t = Tracker.empty := by
        rcases hv with hv | hv
        · exact absurd hne hv
        · exact hv
      subst ht
      have hcV : cs.voters = [] := eq_nil_of_subset_nil (fun x hx => (eV x).mp hx) rfl
      have hcL : cs.learners = [] := eq_nil_of_subset_nil (fun x hx => (eL x).mp hx) rfl
      rw [hcV] at r1
      simp only [List.map_nil, restoreLoop, Except.ok.injEq] at r1
      subst r1
      simp [hcL, restoreLoop]
    · obtain ⟨w, hw⟩ := exists_mem_of_ne_nil hne
      have hne1 : t1.conf.incoming ≠ [] := by
        intro e
        have := (m1 w).mpr (Or.inr ((eV w).mpr hw))
        rw [e] at this; simp at this
      have hd : ∀ l ∈ cs.learners, l ∉ t1.conf.incoming := by
        intro l hl hl1
        rcases (m1 l).mp hl1 with e | e
        · simp [Tracker.empty] at e
        · exact h7 l ((eL l).mp hl) ((eV l).mp e)
      obtain ⟨t2, r2, i2, o2, m2, m2'⟩ := restoreLoop_addLearners i1 o1 hne1 cs.learners zL hd
      rw [r2]
      congr 1
      apply tracker_ext i2 h
      · intro x; rw [m2, m1 x, ← eV x]; simp [Tracker.empty]
      · intro x; rw [o2, ho]
      · intro x; rw [m2' x, m1' x, ← eL x]; simp [Tracker.empty]
      · intro x; rw [(i2.2 o2).1, (h.2 ho).1]
      · rw [(i2.2 o2).2, (h.2 ho).2]
  · -- joint
    obtain ⟨wo, hwo⟩ := exists_mem_of_ne_nil ho
    have hne : t.conf.incoming ≠ [] := by
      rcases hv with hv | hv
      · exact hv
      · subst hv; exact absurd rfl ho
    obtain ⟨wi, hwi⟩ := exists_mem_of_ne_nil hne
    have hcO : cs.votersOutgoing.isEmpty = false := isEmpty_false_of_mem ((eO wo).mpr hwo)
    simp only [hcO, Bool.false_eq_true, ↓reduceIte]
    obtain ⟨t1, r1, i1, o1, m1, m1'⟩ := restoreLoop_addVoters hE rfl cs.votersOutgoing zO
    rw [r1]
    simp only
    have hinc1 : ∀ x, x ∈ t1.conf.incoming ↔ x ∈ t.conf.outgoing := by
      intro x; rw [m1 x, ← eO x]; simp [Tracker.empty]
    have hl1 : t1.conf.learners = [] :=
      eq_nil_of_subset_nil (fun x hx => ((m1' x).mp hx).1) rfl
    have hn1 : t1.conf.learnersNext = [] := (i1.2 o1).1
    have hj1 : joint t1.conf = false := by simp [joint, o1]
    have hne1 : t1.conf.incoming.isEmpty = false := isEmpty_false_of_mem ((hinc1 wo).mpr hwo)
    obtain ⟨st, hst, f1, f2, f3, fi, fl, fn⟩ :=
      fold_restore_joint (enter_LI i1 o1) cs.votersOutgoing cs.voters cs.learners cs.learnersNext zO zV zL zN
    simp only [hl1, hn1, List.not_mem_nil, false_and, false_or] at fi fl fn
    have hi4 : ∀ x, x ∈ st.1.incoming ↔ x ∈ t.conf.incoming := by
      intro x; rw [fi x, hinc1 x, eO x, eV x, eL x, eN x]
      constructor
      · rintro ⟨(⟨ha, hb⟩ | hh), _, _⟩
        · exact absurd ha hb
        · exact hh
      · intro hx
        exact ⟨Or.inr hx, fun hl => h7 x hl hx, fun hn => h10 x hn hx⟩
    have hne4 : st.1.incoming.isEmpty = false := isEmpty_false_of_mem ((hi4 wi).mpr hwi)
    have henter : enterJoint t1 cs.autoLeave
        (ccsOf .removeNode cs.votersOutgoing ++ ccsOf .addNode cs.voters ++
          ccsOf .addLearnerNode cs.learners ++ ccsOf .addLearnerNode cs.learnersNext) =
        .ok ({ st.1 with autoLeave := cs.autoLeave }, st.2.changes) := by
      rw [enterJoint_eq i1]
      simp only [hj1, Bool.false_eq_true, ↓reduceIte, hne1, hst, hne4]
    have henter' := henter
    simp only [ccsOf] at henter'
    rw [henter']
    simp only
    congr 1
    have i2 := (enterJoint_inv i1 henter).1
    apply tracker_ext i2 h
    · exact hi4
    · intro x
      show x ∈ st.1.outgoing ↔ _
      rw [f3]; exact hinc1 x
    · intro x
      show x ∈ st.1.learners ↔ _
      rw [fl x]
      simp only [hinc1, eL, eN]
      constructor
      · rintro (⟨hh, _⟩ | ⟨hh, hh'⟩)
        · exact hh
        · exact absurd (h9 x hh) hh'
      · intro hx; exact Or.inl ⟨hx, h8 x hx⟩
    · intro x
      show x ∈ st.1.learnersNext ↔ _
      rw [fn x]
      simp only [hinc1, eL, eN]
      constructor
      · rintro (⟨hh, hh'⟩ | ⟨hh, _⟩)
        · exact absurd hh' (h8 x hh)
        · exact hh
      · intro hx; exact Or.inr ⟨hx, h9 x hx⟩
    · exact eA

theorem restoreLoop_nonempty {t t' : Tracker} (h : CfgInv t) {ccs : List ConfChangeSingle}
    (hr : restoreLoop t ccs = .ok t') : t'.conf.incoming ≠ [] ∨ t' = t := by
  induction ccs generalizing t with
  | nil => simp only [restoreLoop, Except.ok.injEq] at hr; exact Or.inr hr.symm
  | cons c ccs ih =>
    simp only [restoreLoop] at hr
    cases hs : simple t [c] with
    | error e => simp [hs] at hr
    | ok r =>
      obtain ⟨cfg, ch⟩ := r
      simp only [hs] at hr
      obtain ⟨hi, hne, _⟩ := simple_inv h hs
      rcases ih hi hr with h' | h'
      · exact Or.inl h'
      · subst h'; exact Or.inl hne

/-- `restore` establishes the invariant (from a consistent tracker, in particular the empty one), and
what it builds has a voter unless nothing was done -/
theorem restore_inv {t0 t : Tracker} (h : CfgInv t0) {cs : ConfState} (hr : restore t0 cs = .ok t) :
    CfgInv t ∧ (t.conf.incoming ≠ [] ∨ t = t0) := by
  simp only [restore, toConfChangeSingle] at hr
  simp only [map_isEmpty_ccs] at hr
  by_cases hc : cs.votersOutgoing.isEmpty = true
  · simp only [hc, ↓reduceIte] at hr
    exact ⟨restoreLoop_inv h hr, restoreLoop_nonempty h hr⟩
  · have hc' : cs.votersOutgoing.isEmpty = false := by simpa using hc
    simp only [hc', Bool.false_eq_true, ↓reduceIte] at hr
    cases h1 : restoreLoop t0 (cs.votersOutgoing.map (fun id => ({ ctype := .addNode, nodeId := id } : ConfChangeSingle))) with
    | error e => rw [h1] at hr; simp at hr
    | ok t1 =>
      rw [h1] at hr
      simp only at hr
      have i1 := restoreLoop_inv h h1
      generalize (cs.votersOutgoing.map (fun id => ({ ctype := .removeNode, nodeId := id } : ConfChangeSingle)) ++
        cs.voters.map (fun id => ({ ctype := .addNode, nodeId := id } : ConfChangeSingle)) ++
        cs.learners.map (fun id => ({ ctype := .addLearnerNode, nodeId := id } : ConfChangeSingle)) ++
        cs.learnersNext.map (fun id => ({ ctype := .addLearnerNode, nodeId := id } : ConfChangeSingle))) = ccs at hr
      cases he : enterJoint t1 cs.autoLeave ccs with
      | error e => rw [he] at hr; simp at hr
      | ok r =>
        obtain ⟨cfg, ch⟩ := r
        rw [he] at hr
        simp only [Except.ok.injEq] at hr
        subst hr
        have := enterJoint_inv i1 he
        exact ⟨this.1, Or.inl this.2.1⟩

end RaftProofs.ConfChange
