import RaftProofs.ClusterRead4L

/-!
Cluster-level ReadIndex safety for **forwarded** reads, part 4M:
* `pend_src`: where a pending request comes from — filed locally (`req.from = 0`, a `RegAt` step) or a
  delivered `MsgReadIndex` whose `from` made a forwarding `read_index` call with that context;
* `rir_prov`: **provenance of the `MsgReadIndexResp` messages** — each was queued by a call that released
  a pending request (`RirOk`: `index` / `entries` / `to` are those of the request, and a joint quorum
  has acknowledged a request that is not before it in the queue);
* `quorum_no_higher` (copy of `RaftProofs/ClusterReadM.lean`) and `rel_bound`: **whenever a registered
  request is released, its read index covers every commit index of every state up to the registration
  step**.
-/
namespace RaftModel
namespace Cluster
namespace R4
open Node Raft Raft.CC Raft.RD.R4 RaftProps.C02 RaftProps.C05

variable {cfg : JointConfig} {c0 : Nat} {h : List Sys}

/-! ### where a pending request comes from -/

/-- a request filed under `K` with `req.from = frm`, pending in `h[k]`: filed by a `read_index` call
that registered `K` (`frm = 0`), or by a delivered `MsgReadIndex` of node `frm`, which made a
forwarding `read_index(K)` call -/
def PSrc (h : List Sys) (k : Nat) (K : Bytes) (frm : Nat) : Prop :=
  (frm = 0 ∧ ∃ n i, n < k ∧ RegAt h n i K) ∨ (∃ n, n < k ∧ FwdAt h n frm K)

theorem PSrc.mono {k k' : Nat} {K : Bytes} {frm : Nat} (hs : PSrc h k K frm) (hle : k ≤ k') :
    PSrc h k' K frm := by
  rcases hs with ⟨g0, n, i, g1, g2⟩ | ⟨n, g1, g2⟩
  · exact .inl ⟨g0, n, i, by omega, g2⟩
  · exact .inr ⟨n, by omega, g2⟩

theorem pend_src (H : RdHypF cfg c0 h) : ∀ (k : Nat) (s : Sys), h[k]? = some s →
    ∀ v st, s.node v = some st → ∀ K rs, (K, rs) ∈ st.raft.readOnly.pendingReadIndex →
      PSrc h k K rs.req.frm := by
  have H3 := H.toHyp3w
  have H2 := H3.toHyp2w
  refine hist_induct h _ ?_ ?_
  · intro s h0 v st hv K rs hm
    have hinit := hist_init H2.hist s h0
    obtain ⟨c, store, rnd, _, hb⟩ := hinit.2 v st hv
    rw [(boot_fresh c store rnd st hb).1] at hm; cases hm
  · intro n a b ha hb ih
    have up : ∀ v st, a.node v = some st → ∀ K rs, (K, rs) ∈ st.raft.readOnly.pendingReadIndex →
        PSrc h (n + 1) K rs.req.frm := fun v st hv K rs hm => (ih v st hv K rs hm).mono (Nat.le_succ n)
    have wrap : ∀ (k : Nat) (st' : NState),
        (∀ K rs, (K, rs) ∈ st'.raft.readOnly.pendingReadIndex → PSrc h (n + 1) K rs.req.frm) →
        ∀ v stv, (a.setNode k st').node v = some stv → ∀ K rs,
          (K, rs) ∈ stv.raft.readOnly.pendingReadIndex → PSrc h (n + 1) K rs.req.frm := by
      intro k st' key v stv hv K rs hm
      rcases node_cases hv with ⟨e1, e2⟩ | ⟨_, e2⟩
      · subst e1; subst e2; exact key K rs hm
      · exact up v stv e2 K rs hm
    have keepCase : ∀ (k : Nat) (st : NState) (r' : Raft), a.node k = some st → RS st.raft r' →
        ∀ K rs, (K, rs) ∈ r'.readOnly.pendingReadIndex → PSrc h (n + 1) K rs.req.frm := by
      intro k st r' hk hs K rs hm
      rcases RS.ro_cases hs with ⟨g1, _⟩ | ⟨g1, _⟩
      · rw [g1] at hm; exact up k st hk K rs hm
      · rw [g1] at hm; cases hm
    cases rd_step H3 ha hb with
    | call k st st' m hk hbe hm ho hrir =>
      subst hbe
      apply wrap
      intro K rs hmem
      obtain ⟨_, ⟨rs0, g1, g2, _⟩, _⟩ := ho.pend K rs hmem
      rw [g2]; exact up k st hk K rs0 g1
    | read k st st' K' rnd res hk hbe hcall ho =>
      subst hbe
      apply wrap
      cases ho with
      | frame hf => rw [hf.ro]; exact up k st hk
      | fwd hfo hlead hcore hmsgs =>
        have e1 : st'.raft.readOnly = st.raft.readOnly := congrArg RCore.ro hcore
        rw [e1]; exact up k st hk
      | now hs =>
        exfalso
        rcases hs with c | c
        · rw [not_singleton H2 (mem_of_get ha) hk] at c; cases c
        · exact c (H.safe a (mem_of_get ha) k st hk)
      | reg hl hc ro hadd hcore hmsgs =>
        have e1 : st'.raft.readOnly = ro := congrArg RCore.ro hcore
        rw [e1]
        rcases addRequest_spec hadd with ⟨q1, _⟩ | ⟨q1, _, q3, _⟩
        · rw [q1]; exact up k st hk
        · intro K rs hmem
          rw [q3] at hmem
          rcases List.mem_append.1 hmem with g | g
          · exact up k st hk K rs g
          · rw [List.mem_singleton] at g
            injection g with g1 g2
            subst g1; subst g2
            refine .inl ⟨rfl, n, k, Nat.lt_succ_self n, a, _, st, st', rnd, res, ha, hb, hk, hcall, rfl,
              q1, ?_⟩
            rw [e1, q3]
            exact ⟨_, List.mem_append_right _ (List.mem_singleton.2 rfl)⟩
    | ri k st st' m rnd res hk hbe hm hto hty hcall ho =>
      subst hbe
      apply wrap
      cases ho with
      | keep hs _ => exact keepCase k st _ hk hs
      | fwd r1 hs hfo hcore y hmsgs hy =>
        have e1 : st'.raft.readOnly = r1.readOnly := congrArg RCore.ro hcore
        rw [e1]
        exact keepCase k st r1 hk hs
      | now hs =>
        exfalso
        rcases hs with c | c
        · rw [not_singleton H2 (mem_of_get ha) hk] at c; cases c
        · exact c (H.safe a (mem_of_get ha) k st hk)
      | reg hl hc ro hadd hcore hmsgs =>
        have e1 : st'.raft.readOnly = ro := congrArg RCore.ro hcore
        rw [e1]
        obtain ⟨en, hen, hcase⟩ := addRequest_specD hadd
        rcases hcase with ⟨q1, _⟩ | ⟨q1, _, q3, _⟩
        · rw [q1]; exact up k st hk
        · intro K rs hmem
          rw [q3] at hmem
          rcases List.mem_append.1 hmem with g | g
          · exact up k st hk K rs g
          · rw [List.mem_singleton] at g
            injection g with g1 g2
            subst g1; subst g2
            obtain ⟨n', f, ctx, p1, p2, p3, p4⟩ := (ri_prov H n a ha).net m hm hty
            have : ctx = en.data := by
              unfold reqCtx at p3
              rw [hen] at p3
              injection p3 with p3
              exact p3.symm
            subst this
            subst p4
            exact .inr ⟨n', by omega, p2⟩
    | send k st st' hk hbe hst =>
      subst hbe
      intro v stv hv K rs hm
      have hv' : (a.setNode k st').node v = some stv := hv
      rcases node_cases hv' with ⟨e1, e2⟩ | ⟨_, e2⟩
      · subst e1; subst e2
        rw [hst] at hm
        exact up v st hk K rs hm
      · exact up v stv e2 K rs hm
    | restart k st st' hk hbe hf hq =>
      subst hbe
      apply wrap
      intro K rs hm
      rw [hf.1] at hm; cases hm

/-! ### provenance of `MsgReadIndexResp` -/

/-- the `MsgReadIndexResp` `y` was queued by a call of a step before index `k` that released a pending
request -/
def RirSrc (cfg : JointConfig) (h : List Sys) (k : Nat) (y : Message) : Prop :=
  ∃ n a v st m, n < k ∧ h[n]? = some a ∧ a.node v = some st ∧
    (m.msgType = .msgHup ∨ (m ∈ a.net ∧ m.to = v)) ∧ RirOk cfg st.raft m y

theorem RirSrc.mono {k k' : Nat} {y : Message} (hs : RirSrc cfg h k y) (hle : k ≤ k') :
    RirSrc cfg h k' y := by
  obtain ⟨n, a, v, st, m, h1, h2⟩ := hs
  exact ⟨n, a, v, st, m, by omega, h2⟩

structure RirProv (cfg : JointConfig) (h : List Sys) (k : Nat) (s : Sys) : Prop where
  q : ∀ v st, s.node v = some st → ∀ x ∈ st.raft.msgs, x.msgType = .msgReadIndexResp →
    RirSrc cfg h k x
  net : ∀ x ∈ s.net, x.msgType = .msgReadIndexResp → RirSrc cfg h k x

theorem rir_prov (H : Hyp3w cfg c0 h)
    (safe : ∀ s ∈ h, ∀ i st, s.node i = some st → st.raft.readOnly.option = .safe) :
    ∀ (k : Nat) (s : Sys), h[k]? = some s → RirProv cfg h k s := by
  have H2 := H.toHyp2w
  refine hist_induct h _ ?_ ?_
  · intro s h0
    have hinit := hist_init H2.hist s h0
    refine ⟨fun v st hv x hx => ?_, fun x hx => ?_⟩
    · rw [init_queue hinit v st hv] at hx; cases hx
    · rw [hinit.1] at hx; cases hx
  · intro n a b ha hb ih
    have upq : ∀ v st, a.node v = some st → ∀ x ∈ st.raft.msgs, x.msgType = .msgReadIndexResp →
        RirSrc cfg h (n + 1) x := fun v st hv x hx hty => (ih.q v st hv x hx hty).mono (Nat.le_succ n)
    have upn : ∀ x ∈ a.net, x.msgType = .msgReadIndexResp → RirSrc cfg h (n + 1) x :=
      fun x hx hty => (ih.net x hx hty).mono (Nat.le_succ n)
    have old : ∀ (k : Nat) (st : NState) (r1 : Raft), a.node k = some st → RS st.raft r1 →
        ∀ x ∈ r1.msgs, x.msgType = .msgReadIndexResp → RirSrc cfg h (n + 1) x := by
      intro k st r1 hk hs x hx hty
      have : x ∈ rdOf r1.msgs := mem_rdOf.2 ⟨hx, by unfold isRd; rw [hty]; rfl⟩
      rw [hs.rd] at this
      exact upq k st hk x (mem_rdOf.1 this).1 hty
    have wrap : ∀ (k : Nat) (st' : NState),
        (∀ x ∈ st'.raft.msgs, x.msgType = .msgReadIndexResp → RirSrc cfg h (n + 1) x) →
        RirProv cfg h (n + 1) (a.setNode k st') := by
      intro k st' key
      refine ⟨fun v stv hv x hx hty => ?_, upn⟩
      rcases node_cases hv with ⟨e1, e2⟩ | ⟨_, e2⟩
      · subst e1; subst e2; exact key x hx hty
      · exact upq v stv e2 x hx hty
    cases rd_step H ha hb with
    | call k st st' m hk hbe hm ho hrir =>
      subst hbe
      apply wrap
      intro x hx hty
      rcases ho.msgs x hx with c | c | c | c | c
      · exact upq k st hk x c hty
      · rw [hty] at c; cases c
      · rw [c.1] at hty; cases hty
      · rw [c.1] at hty; cases hty
      · exact ⟨n, a, k, st, m, Nat.lt_succ_self n, ha, hk, hm, c⟩
    | read k st st' K' rnd res hk hbe hcall ho =>
      subst hbe
      apply wrap
      intro x hx hty
      cases ho with
      | frame hf => exact old k st st'.raft hk hf.toRS x hx hty
      | fwd hfo hlead hcore hmsgs =>
        rw [hmsgs] at hx
        rcases List.mem_append.1 hx with c | c
        · exact upq k st hk x c hty
        · exfalso
          rw [List.mem_singleton.1 c, (sendFill_ri st.raft
            { msgType := .msgReadIndex, to := st.raft.leaderId, entries := [{ data := K' }] } rfl).1] at hty
          cases hty
      | now hs =>
        exfalso
        rcases hs with c | c
        · rw [not_singleton H2 (mem_of_get ha) hk] at c; cases c
        · exact c (safe a (mem_of_get ha) k st hk)
      | reg hl hc ro hadd hcore hmsgs =>
        rcases hmsgs x hx with c | ⟨c, _⟩
        · exact upq k st hk x c hty
        · rw [c] at hty; cases hty
    | ri k st st' m rnd res hk hbe hm hto hty' hcall ho =>
      subst hbe
      apply wrap
      intro x hx hty
      cases ho with
      | keep hs _ => exact old k st st'.raft hk hs x hx hty
      | fwd r1 hs hfo hcore y hmsgs hy =>
        rw [hmsgs] at hx
        rcases List.mem_append.1 hx with c | c
        · exact old k st r1 hk hs x c hty
        · exfalso
          rw [List.mem_singleton.1 c, hy.1] at hty; cases hty
      | now hs =>
        exfalso
        rcases hs with c | c
        · rw [not_singleton H2 (mem_of_get ha) hk] at c; cases c
        · exact c (safe a (mem_of_get ha) k st hk)
      | reg hl hc ro hadd hcore hmsgs =>
        rcases hmsgs x hx with c | ⟨c, _⟩
        · exact upq k st hk x c hty
        · rw [c] at hty; cases hty
    | send k st st' hk hbe hst =>
      subst hbe
      refine ⟨fun v stv hv x hx hty => ?_, fun x hx hty => ?_⟩
      · have hv' : (a.setNode k st').node v = some stv := hv
        rcases node_cases hv' with ⟨e1, e2⟩ | ⟨_, e2⟩
        · subst e1; subst e2
          rw [hst] at hx; cases hx
        · exact upq v stv e2 x hx hty
      · have hx' : x ∈ a.net ++ st.raft.msgs := hx
        rcases List.mem_append.1 hx' with c | c
        · exact upn x c hty
        · exact upq k st hk x c hty
    | restart k st st' hk hbe hf hq =>
      subst hbe
      apply wrap
      intro x hx
      rw [hq] at hx; cases hx

/-! ### the quorum behind a release -/

/-- the acknowledgements behind an answer: `u` is the answering node `v`, or a heartbeat response of
`u` with a late context for the term `t` (or without term) is in `net` -/
def Backer (h : List Sys) (n0 : Nat) (net : List Message) (v t u : Nat) : Prop :=
  u = v ∨ ∃ y ∈ net, y.msgType = .msgHeartbeatResponse ∧ y.frm = u ∧ Late h n0 y.context ∧
    (y.term = t ∨ y.term = 0)

/-- **whoever has such a quorum behind it is not superseded**: a term led at or before `h[n0]` is not
above the term of a node that, later, has a joint quorum of backers -/
theorem quorum_no_higher (H : Hyp3w cfg c0 h)
    (safe : ∀ s ∈ h, ∀ i st, s.node i = some st → st.raft.readOnly.option = .safe)
    {n0 n : Nat} {s0 a : Sys} (hn0 : h[n0]? = some s0)
    (ha : h[n]? = some a) (hle : n0 ≤ n) {v : Nat} {st : NState} (hva : a.node v = some st)
    {Q : List Nat} (hQ : IsJointQuorum cfg Q)
    (hQb : ∀ u ∈ Q, Backer h n0 a.net v st.raft.term u)
    {n1 : Nat} {s1 : Sys} (hn1 : h[n1]? = some s1) (hle1 : n1 ≤ n0) {l' t' : Nat}
    (hl' : leads s1 l' t') : t' ≤ st.raft.term := by
  have H2 := H.toHyp2w
  obtain ⟨_, Q', hQ', hQg⟩ :=
    C02_cluster_leader_has_quorum cfg h H2.hist H2.fix s1 (mem_of_get hn1) l' t' hl'
  obtain ⟨u, _, hu, hu'⟩ := joint_quorums_intersect cfg Q Q' (.inl H2.ne) hQ hQ'
  have hfloor : TermFloor s0 u t' := by
    rcases hQg u hu' with e | ⟨g, hg, g1, g2, g3, _, g5⟩
    · rw [e]
      exact (leader_floor H2 (mem_of_get hn1) hl').later H2.hist hn1 hn0 hle1
    · obtain ⟨stu, q1, q2, q3⟩ := C06_cluster_grant_durable h H2.hist n1 n0 s1 s0 hn1 hn0 hle1 g hg g1 g2
      rw [g3] at q1
      rw [g5] at q2 q3
      refine ⟨stu, q1, ?_, ?_⟩
      · rcases q3 with c | ⟨c, _⟩ <;> omega
      · rcases q2 with c | ⟨c, _⟩ <;> omega
  rcases hQb u hu with e | ⟨y, hy, y1, y2, y3, y4⟩
  · rw [e] at hfloor
    obtain ⟨st2, q1, q2, _⟩ := hfloor.later H2.hist hn0 ha hle
    rw [hva] at q1; cases q1
    exact q2
  · have := (hbr_floor H safe hn0 n a ha).net y hy y1 y3 t' (by rw [y2]; exact hfloor)
    rcases y4 with c | c <;> omega

/-- **the release of a registered request**: if, in `h[n]`, node `v` holds the request `ctx`
(registered by the step `n0` on `i0`) pending and a joint quorum has acknowledged a request `Kack` that is
not before `ctx` in the queue (acknowledgements as seen by a call with input `m`), then `v = i0`,
`n0 < n`, and the recorded read index is at least the commit index of every node in every state up to
the registration step -/
theorem rel_bound (H : RdHypF2 cfg c0 h) {n0 i0 : Nat} {ctx : Bytes} (hreg : Reg h n0 i0 ctx)
    {n : Nat} {a : Sys} (ha : h[n]? = some a) {v : Nat} {st : NState} (hva : a.node v = some st)
    {m : Message} (hm : m.msgType = .msgHup ∨ (m ∈ a.net ∧ m.to = v))
    {rs0 : ReadIndexStatus} {Kack : Bytes} {acks : List Nat} {p i : Nat}
    (c1 : (ctx, rs0) ∈ st.raft.readOnly.pendingReadIndex)
    (c5 : st.raft.readOnly.readIndexQueue[p]? = some ctx)
    (c6 : st.raft.readOnly.readIndexQueue[i]? = some Kack) (c7 : p ≤ i)
    (c8 : Tracker.hasQuorum cfg acks = true) (c9 : ∀ u ∈ acks, AckOk st.raft m Kack u) :
    v = i0 ∧ n0 < n ∧ ∀ nf sf, nf ≤ n0 → h[nf]? = some sf →
      ∀ u stu, sf.node u = some stu → stu.raft.raftLog.committed ≤ rs0.index := by
  have Hw := H.toHyp3w
  have H3 := Hw.toHyp3a
  have H2 := H3.toHyp2w
  have PA := pend_ok Hw H.safe n a ha
  have TA := tgt_inv H hreg n a ha
  obtain ⟨t1, t2⟩ := TA.pend v st hva rs0 c1
  have hLk : Late h n0 Kack := TA.behind v st hva p i Kack c5 c7 c6
  have hafter : n0 < n := occ_after H hreg ha (.inl ⟨v, st, hva, .inl ⟨rs0, c1⟩⟩)
  have hQ : IsJointQuorum cfg acks := (RaftProps.C11.hasQuorum_iff cfg acks).1 c8
  have hQb : ∀ u ∈ acks, Backer h n0 a.net v st.raft.term u := by
    intro u hu
    rcases c9 u hu with d | d | ⟨rsA, d1, d2⟩
    · exact .inl (d.trans (node_ok H2 ha hva).id)
    · right
      rcases hm with q | ⟨q, _⟩
      · rw [d.1] at q; cases q
      · exact ⟨m, q, d.1, d.2.1, by rw [d.2.2.1]; exact hLk, d.2.2.2⟩
    · rcases PA.acks v st hva Kack rsA d1 u d2 with e | ⟨y, y1, y2, y3, y4, y5⟩
      · exact .inl e
      · exact .inr ⟨y, y1, y2, y3, by rw [y4]; exact hLk, y5⟩
  obtain ⟨s0, hn0⟩ : ∃ s0, h[n0]? = some s0 := by
    obtain ⟨a0, _, _, q1, _⟩ := hreg.step
    exact ⟨a0, q1⟩
  refine ⟨t1, hafter, fun nf sf hle hnf => ?_⟩
  exact good_ofA H3 hnf (t2.mono hle) (fun n1 s1 l' t' hn1 hle1 hl' =>
    quorum_no_higher Hw H.safe hn0 ha (by omega) hva hQ hQb hn1 (by omega) hl')

end R4
end Cluster
end RaftModel
