import RaftProofs.ClusterCommit5Q
import RaftProofs.ClusterSnap7A
import RaftProofs.ClusterSnap7D

/-! SCRIPTED COPY (C01n, `RaftProps/C01n.gen/copy_pw.py` + `patches_pw.py`) of `RaftProofs/ClusterCommit5Q.lean`
into the nested namespace `RaftModel.Raft.PB.F`: the per-call relation of the batching layer with the
two extra facts `fi` / `qf` (anchors of new appends are not below the snapshot point). -/

namespace RaftModel
namespace Raft
namespace PB
namespace F
open CP RaftProps.C13

theorem PWb.grow {a r : Raft} {l : RaftLog} (hl : LogGrow r.raftLog l) (h0 : PWb a r) :
    PWb a { r with raftLog := l } := by
  refine ⟨hl.inv, fun hs => ?_, fun hs p hp => ?_, fun x hx hty => ?_,
    fun x hx hty => ?_, h0.sn, Nat.le_trans h0.fi hl.first, h0.qf⟩
  · rcases h0.po hs with c | c
    · exact .inl c
    · exact .inr (c.mono hl.last)
  · exact Nat.le_trans (h0.rd hs p hp) hl.commit
  · rcases h0.qa x hx hty with c | c | c
    · exact .inl c
    · exact .inr (.inl c)
    · exact .inr (.inr (Nat.le_trans c hl.last))
  · rcases h0.qr x hx hty with c | c
    · exact .inl c
    · exact .inr (Nat.le_trans c hl.commit)

/-- replacing the pending reads -/
theorem PWb.ro {a r : Raft} {ro : ReadOnly} (h0 : PWb a r)
    (hr : r.state = .leader → ∀ p ∈ ro.pendingReadIndex, p.2.index ≤ r.raftLog.committed) :
    PWb a { r with readOnly := ro } :=
  ⟨h0.inv, h0.po, hr, h0.qa, h0.qr, h0.sn, h0.fi, h0.qf⟩

theorem maybeCommit_lw {a r r' : Raft} {b : Bool} (h : r.maybeCommit = .ok (r', b))
    (h0 : LWb a r) : LWb a r' := by
  unfold Raft.maybeCommit at h
  split at h
  · cases h
  · cases h
  · split at h
    · cases h
    · cases h
    · rename_i log hm
      cases h
      have h1 : PWb a { r with raftLog := log } := h0.1.log (c05_maybeCommit_same hm)
      refine ⟨?_, h0.2⟩
      exact PWb.prs h1 (fun hs => (h1.po hs).imp (fun x => x)
        (fun c => c.modify _ _ (fun pr hp => hp.updateCommitted _)))
    · cases h; exact h0

theorem appendEntry_lw {a r r' : Raft} {es : List Entry} {b : Bool}
    (h : r.appendEntry es = .ok (r', b)) (h0 : LWb a r) : LWb a r' := by
  obtain ⟨l, u, he⟩ := appendEntry_shape h
  have hg : LogGrow r.raftLog r'.raftLog := by
    rcases appendEntry_cases h0.1.inv h0.2 h with ⟨_, c⟩ | ⟨_, _, c, _⟩ | ⟨_, c, _⟩
    · rw [c]; exact ⟨h0.1.inv, Nat.le_refl _, Nat.le_refl _, Nat.le_refl _⟩
    · exact ⟨c.inv h0.1.inv, Nat.le_of_eq c.last.symm, c.commit, by
        rw [(c.inv h0.1.inv).firstIndex_abs, h0.1.inv.firstIndex_abs, c.abs]; exact Nat.le_refl _⟩
    · exact ⟨c.inv, by rw [c.last]; omega, c.commit, by
        rw [c.inv.firstIndex_abs, h0.1.inv.firstIndex_abs, c.abs]; exact Nat.le_refl _⟩
  have hl : r'.raftLog = l := by rw [he]
  rw [hl] at hg
  rw [he]
  exact ⟨PWb.mk' (r := { r with raftLog := l }) (h0.1.grow hg), h0.2⟩

/-- queueing a `MsgReadIndexResp` whose index is at most the commit index -/
theorem send_rir_lw {a r r' : Raft} {m : Message} (h : r.send m = .ok r')
    (hm : m.msgType = .msgReadIndexResp) (hi : m.index ≤ r.raftLog.committed) (h0 : LWb a r) :
    LWb a r' := by
  refine ⟨?_, (send_frame h Frame.rfl).state.trans h0.2⟩
  rw [send_eq r r' m h]
  refine h0.1.push _ (fun hc => ?_) (fun _ => ?_)
    (fun hc => by rw [sendFill_msgType, hm] at hc; cases hc)
  · rw [sendFill_msgType, hm] at hc; cases hc
  · rw [sendFill_index]; exact hi

theorem handleReadyReadIndex_lw {a r r' : Raft} {req : Message} {i : Nat} {om : Option Message}
    (h : r.handleReadyReadIndex req i = .ok (r', om)) (h0 : LWb a r) :
    LWb a r' ∧ r'.raftLog = r.raftLog ∧
      ∀ m', om = some m' → m'.msgType = .msgReadIndexResp ∧ m'.index = i := by
  unfold Raft.handleReadyReadIndex at h
  split at h
  · split at h
    · cases h
    · cases h; exact ⟨LWb.mk' h0, rfl, fun _ hc => by cases hc⟩
  · cases h; exact ⟨h0, rfl, fun _ hc => by cases hc; exact ⟨rfl, rfl⟩⟩

theorem respondReadStates_lw {a r r' : Raft} {rss : List ReadIndexStatus}
    (h : r.respondReadStates rss = .ok r') (h0 : LWb a r)
    (hr : ∀ rs ∈ rss, rs.index ≤ r.raftLog.committed) : LWb a r' := by
  unfold Raft.respondReadStates at h
  have key : ∀ (l : List ReadIndexStatus) (acc : Res Raft),
      l.foldl (fun (acc : Res Raft) rs =>
        acc.bind (fun r =>
          (r.handleReadyReadIndex rs.req rs.index).bind (fun (r, om) =>
            match om with
            | some m => r.send m
            | none => .ok r))) acc = .ok r' →
      (∀ rs ∈ l, rs.index ≤ r.raftLog.committed) →
      (∀ r1, acc = .ok r1 → LWb a r1 ∧ r1.raftLog = r.raftLog) →
      LWb a r' ∧ r'.raftLog = r.raftLog := by
    intro l
    induction l with
    | nil => intro acc h _ h1; exact h1 r' h
    | cons rs rest ih =>
      intro acc h hl h1
      simp only [List.foldl_cons] at h
      refine ih _ h (fun x hx => hl x (List.mem_cons_of_mem _ hx)) ?_
      intro r2 h2
      cases acc with
      | err e => cases h2
      | panic s => cases h2
      | ok r0 =>
        obtain ⟨g0, gl⟩ := h1 r0 rfl
        change (r0.handleReadyReadIndex rs.req rs.index).bind _ = _ at h2
        rw [Res.bind_eq_ok_iff] at h2
        obtain ⟨⟨r3, om⟩, h3, h4⟩ := h2
        obtain ⟨g3, gl3, gm⟩ := handleReadyReadIndex_lw h3 g0
        dsimp only at h4
        split at h4
        · rename_i m'
          obtain ⟨t1, t2⟩ := gm m' rfl
          have hi : m'.index ≤ r3.raftLog.committed := by
            rw [t2, gl3, gl]; exact hl rs List.mem_cons_self
          refine ⟨send_rir_lw h4 t1 hi g3, ?_⟩
          rw [send_eq _ _ _ h4]
          exact gl3.trans gl
        · cases h4; exact ⟨g3, gl3.trans gl⟩
  exact (key rss (.ok r) h hr (fun r1 e => by cases e; exact ⟨h0, rfl⟩)).1

/-- after `reset` the progress and read-only clauses hold whatever the role -/
theorem reset_pwp {a r : Raft} (t : Nat) (h0 : PWb a r) (st : StateRole) :
    PWPb a st (r.reset t).raftLog (r.reset t).prs (r.reset t).readOnly (r.reset t).msgs := by
  rw [reset_raftLog, reset_msgs]
  refine ⟨h0.inv, fun _ => .inr (reset_pall r t h0.inv), fun _ p hp => ?_, h0.qa, h0.qr,
    h0.sn, h0.fi, h0.qf⟩
  rw [reset_readOnly] at hp; cases hp

theorem reset_pw {a r : Raft} (t : Nat) (h0 : PWb a r) : PWb a (r.reset t) := reset_pwp t h0 _

theorem becomeFollower_pw {a r : Raft} (t l : Nat) (h0 : PWb a r) :
    PWb a (r.becomeFollower t l) := by
  have h1 : PWb a (r.reset t) := reset_pw t h0
  have h2 := h1.log (c05_limit_same (r.reset t).raftLog 0)
  have hs : (r.becomeFollower t l).state ≠ .leader := by
    rw [(RaftProps.C16.becomeFollower_proj r t l).1]; intro hc; cases hc
  exact ⟨h2.inv, fun h => absurd h hs, fun h => absurd h hs, h2.qa, h2.qr, h2.sn, h2.fi, h2.qf⟩

theorem becomeCandidate_pw {a r r' : Raft} (h : r.becomeCandidate = .ok r') (h0 : PWb a r) :
    PWb a r' ∧ r'.state = .candidate := by
  unfold Raft.becomeCandidate at h
  split at h
  · cases h
  · split at h
    · cases h
    · cases h
      have h1 := reset_pwp (r.term + 1) h0 .candidate
      exact ⟨h1, rfl⟩

theorem becomePreCandidate_pw {a r r' : Raft} (h : r.becomePreCandidate = .ok r') (h0 : PWb a r) :
    PWb a r' ∧ r'.state = .preCandidate := by
  unfold Raft.becomePreCandidate at h
  split at h
  · cases h
  · cases h
    refine ⟨?_, rfl⟩
    exact ⟨h0.inv, (fun hc => by cases hc), (fun hc => by cases hc), h0.qa, h0.qr, h0.sn, h0.fi, h0.qf⟩

theorem becomeLeader_lw {a r r' : Raft} (h : r.becomeLeader = .ok r') (h0 : PWb a r) :
    LWb a r' := by
  unfold Raft.becomeLeader at h
  split at h
  · cases h
  · simp only [] at h
    split at h
    · cases h
    · split at h
      · cases h
      · rename_i pr hpr
        have h1 := reset_pwp r.term h0 .leader
        -- the leader state before the empty entry is appended
        have h2 : LWb a { (r.reset r.term) with state := .leader } := ⟨h1, rfl⟩
        have hp : PQ (r.reset r.term) pr.becomeReplicate := by
          rcases h1.po rfl with c | c
          · exact .inl c
          · exact .inr (c.get hpr).becomeReplicate
        have h3 := h2.setPr (id := (r.reset r.term).id) hp
        split at h
        · rename_i r2 happ
          cases h
          exact appendEntry_lw happ (LWb.mk' h3)
        · cases h
        · cases h
        · cases h

theorem checkQuorumActive_lw {a r r' : Raft} {b : Bool} (h : r.checkQuorumActive = (r', b))
    (h0 : LWb a r) : LWb a r' := by
  unfold Raft.checkQuorumActive at h
  split at h
  rename_i prs b' hq
  cases h
  refine ⟨PWb.prs h0.1 (fun hs => ?_), h0.2⟩
  unfold ProgressTracker.quorumRecentlyActive at hq
  simp only [Prod.mk.injEq] at hq
  rw [← hq.1]
  rcases h0.1.po hs with c | c
  · exact .inl c
  · right
    intro p hp
    simp only [List.mem_map] at hp
    obtain ⟨q, hq', rfl⟩ := hp
    split <;> exact (c q hq').congr rfl rfl rfl

theorem handleAppendResponseAccepted_lw {a r r' : Raft} {m : Message} {pr : Progress} {op : Bool}
    (h : r.handleAppendResponseAccepted m pr op = .ok r') (h0 : LWb a r) (hp : PQ r pr) :
    LWb a r' := by
  unfold Raft.handleAppendResponseAccepted at h
  rw [Res.bind_eq_ok_iff] at h
  obtain ⟨pr1, h1, h2⟩ := h
  have hp1 : PQ r pr1 := by
    rcases hp with c | c
    · exact .inl c
    · right
      split at h1
      · cases h1; exact c.becomeReplicate
      · rename_i hs
        exact absurd hs c.2.2
      · split at h1
        · cases h1; exact c.congr rfl rfl rfl
        · cases h1
  have h3 : LWb a { r with prs := r.prs.set m.frm pr1 } := h0.setPr hp1
  lwf_auto h2 [maybeCommit_lw, bcastAppend_lw, sendAppend_lw, sendAppendAggressively_lw,
    sendTimeoutNow_lw]

theorem handleAppendResponse_lw {a r r' : Raft} {m : Message}
    (h : r.handleAppendResponse m = .ok r') (h0 : LWb a r)
    (hB : m.reject = false → m.index ≤ r.raftLog.lastIndex) : LWb a r' := by
  unfold Raft.handleAppendResponse at h
  rw [Res.bind_eq_ok_iff] at h
  obtain ⟨npi, _, h⟩ := h
  split at h
  · cases h; exact h0
  · rename_i pr hg
    have hp0 : PQ r pr := h0.getPr hg
    have hp2 : PQ r (({ pr with recentActive := true } : Progress).updateCommitted m.commit) :=
      hp0.imp (fun c => (c.congr (pr' := { pr with recentActive := true }) rfl rfl rfl).updateCommitted _)
    simp only [] at h
    split at h
    · -- rejected
      split at h
      · cases h
      · cases h
      · rename_i pr3 hd
        have hp3 : PQ r pr3 := hp2.imp (fun c => c.maybeDecrTo hd)
        have hp4 : PQ r (if pr3.state = .replicate then pr3.becomeProbe else pr3) := by
          split
          · exact hp3.imp (fun c => c.becomeProbe)
          · exact hp3
        exact sendAppend_lw h (h0.setPr hp4)
      · rename_i pr3 hd
        cases h
        exact h0.setPr (hp2.imp (fun c => c.maybeDecrTo hd))
    · rename_i hrej
      have hrej' : m.reject = false := by simpa using hrej
      split at h
      · cases h
      · cases h
      · rename_i pr3 hu
        cases h
        exact h0.setPr (hp2.imp (fun c => c.maybeUpdate (hB hrej') hu))
      · rename_i pr3 hu
        exact handleAppendResponseAccepted_lw h h0 (hp2.imp (fun c => c.maybeUpdate (hB hrej') hu))

theorem handleHeartbeatResponse_lw {a r r' : Raft} {m : Message}
    (h : r.handleHeartbeatResponse m = .ok r') (h0 : LWb a r) : LWb a r' := by
  unfold Raft.handleHeartbeatResponse at h
  split at h
  · cases h; exact h0
  · rename_i pr hg
    have hp0 : PQ r pr := h0.getPr hg
    simp only [] at h
    rw [Res.bind_eq_ok_iff] at h
    obtain ⟨pr2, h1, h⟩ := h
    have hp2 : PQ r pr2 := by
      refine hp0.imp (fun c => ?_)
      have c1 : POk r.raftLog.lastIndex
          (({ (pr.updateCommitted m.commit) with recentActive := true } : Progress).resume) :=
        (c.updateCommitted m.commit).congr rfl rfl rfl
      split at h1
      · split at h1
        · cases h1; exact c1.congr rfl rfl rfl
        · cases h1
      · cases h1; exact c1
    rw [Res.bind_eq_ok_iff] at h
    obtain ⟨r1, h2, h⟩ := h
    have g1 : LWb a r1 := by
      split at h2
      · rw [Res.bind_eq_ok_iff] at h2
        obtain ⟨⟨r2, pr3⟩, h3, h4⟩ := h2
        cases h4
        obtain ⟨k1, k2⟩ := sendAppendPr_lw h3 h0 hp2
        exact k1.setPr k2
      · cases h2; exact h0.setPr hp2
    split at h
    · cases h; exact g1
    · have g2 : LWb a { r1 with readOnly := (r1.readOnly.recvAck m.frm m.context).1 } := by
        refine ⟨g1.1.ro (fun hs p hp => ?_), g1.2⟩
        obtain ⟨q, hq, he⟩ := recvAck_index _ _ _ p hp
        rw [← he]; exact g1.1.rd hs q hq
      split at h
      · cases h; exact g2
      · split at h
        · rw [Res.bind_eq_ok_iff] at h
          obtain ⟨⟨ro2, rss⟩, h5, h6⟩ := h
          obtain ⟨s1, s2⟩ := advance_sub h5
          have g3 : LWb a { r1 with readOnly := ro2 } := by
            refine ⟨g1.1.ro (fun hs p hp => g2.1.rd hs p (s1 p hp)), g1.2⟩
          refine respondReadStates_lw h6 g3 (fun rs hrs => ?_)
          obtain ⟨k, hk⟩ := s2 rs hrs
          exact g2.1.rd g2.2 (k, rs) hk
        · cases h; exact g2

theorem sendAppendPrSet_lw {a r r' : Raft} {to : Nat} {pr : Progress}
    (hg : r.prs.get to = some pr)
    (h : (r.sendAppendPr to pr).bind
      (fun (r, pr) => Res.ok { r with prs := r.prs.set to pr }) = .ok r') (h0 : LWb a r) :
    LWb a r' := by
  rw [Res.bind_eq_ok_iff] at h
  obtain ⟨⟨r2, pr3⟩, h3, h4⟩ := h
  cases h4
  obtain ⟨k1, k2⟩ := sendAppendPr_lw h3 h0 (h0.getPr hg)
  exact k1.setPr k2

theorem handleTransferLeader_lw {a r r' : Raft} {m : Message}
    (h : r.handleTransferLeader m = .ok r') (h0 : LWb a r) : LWb a r' := by
  unfold Raft.handleTransferLeader at h
  repeat' (first | split at h | (simp only at h; split at h))
  all_goals first
    | (cases h; exact h0)
    | (cases h; done)
    | exact sendTimeoutNow_lw h (LWb.mk' h0)
    | exact sendAppendPrSet_lw (by assumption) h (LWb.mk' h0)
    | exact sendTimeoutNow_lw h (LWb.mk' (r := r.abortLeaderTransfer) (LWb.mk' h0))
    | exact sendAppendPrSet_lw (by assumption) h (LWb.mk' (r := r.abortLeaderTransfer) (LWb.mk' h0))

theorem handleSnapshotStatus_lw {a r : Raft} {m : Message} (h0 : LWb a r) :
    LWb a (r.handleSnapshotStatus m) := by
  unfold Raft.handleSnapshotStatus
  split
  · exact h0
  · rename_i pr hg
    split
    · exact h0
    · rename_i hs
      have hs' : pr.state = .snapshot := by
        cases hst : pr.state <;> simp_all
      refine h0.setPr ?_
      rcases h0.getPr hg with c | c
      · exact .inl c
      · exact absurd hs' c.2.2

theorem handleUnreachable_lw {a r : Raft} {m : Message} (h0 : LWb a r) :
    LWb a (r.handleUnreachable m) := by
  unfold Raft.handleUnreachable
  split
  · exact h0
  · rename_i pr hg
    split
    · exact h0.setPr (PQ.imp (h0.getPr hg) (fun c => c.becomeProbe))
    · exact h0

theorem filterProposalEntry_lw {a r r' : Raft} {i : Nat} {e e' : Entry}
    (h : r.filterProposalEntry i e = some (r', e')) (h0 : LWb a r) : LWb a r' := by
  unfold Raft.filterProposalEntry at h
  lwf_auto h [LWb.mk']

theorem filterProposal_lw {a : Raft} : ∀ (es : List Entry) (r r' : Raft) (i : Nat)
    (oes : Option (List Entry)), r.filterProposal i es = (r', oes) → LWb a r → LWb a r' := by
  intro es
  induction es with
  | nil => intro r r' i oes h h0; simp [Raft.filterProposal] at h; rw [← h.1]; exact h0
  | cons e es ih =>
    intro r r' i oes h h0
    unfold Raft.filterProposal at h
    split at h
    · cases h; exact h0
    · rename_i r1 e1 h1
      have h2 := filterProposalEntry_lw h1 h0
      split at h
      · rename_i r2 es2 h3
        cases h; exact ih _ _ _ _ h3 h2
      · rename_i r2 h3
        cases h; exact ih _ _ _ _ h3 h2

theorem answerNow_lw {a r r' : Raft} {m : Message} {e : Option RaftError}
    (h : (r.handleReadyReadIndex m r.raftLog.committed).bind (fun (r, om) =>
          match om with
          | some m' => (r.send m').bind (fun r => Res.ok (r, (none : Option RaftError)))
          | none => .ok (r, none)) = .ok (r', e)) (h0 : LWb a r) : LWb a r' := by
  rw [Res.bind_eq_ok_iff] at h
  obtain ⟨⟨r1, om⟩, h1, h2⟩ := h
  obtain ⟨g1, gl, gm⟩ := handleReadyReadIndex_lw h1 h0
  dsimp only at h2
  split at h2
  · rename_i m'
    rw [Res.bind_eq_ok_iff] at h2
    obtain ⟨r2, h3, h4⟩ := h2
    cases h4
    obtain ⟨t1, t2⟩ := gm m' rfl
    exact send_rir_lw h3 t1 (by rw [t2, gl]; exact Nat.le_refl _) g1
  · cases h2; exact g1

theorem stepLeader_pw {a r r' : Raft} {m : Message} {e : Option RaftError}
    (h : r.stepLeader m = .ok (r', e)) (h0 : LWb a r)
    (hB : m.msgType = .msgAppendResponse → m.reject = false → m.index ≤ r.raftLog.lastIndex) :
    PWb a r' := by
  unfold Raft.stepLeader at h
  split at h
  · -- MsgBeat
    rw [Res.bind_eq_ok_iff] at h
    obtain ⟨r1, h1, h2⟩ := h
    cases h2
    exact (bcastHeartbeat_lw h1 h0).1
  · -- MsgCheckQuorum
    split at h
    rename_i r1 active hq
    have g1 := checkQuorumActive_lw hq h0
    split at h
    · cases h; exact becomeFollower_pw _ _ g1.1
    · cases h; exact g1.1
  · -- MsgPropose
    split at h
    · cases h
    · split at h
      · cases h; exact h0.1
      · split at h
        · cases h; exact h0.1
        · split at h
          · rename_i r1 hf
            cases h
            exact (filterProposal_lw _ _ _ _ _ hf h0).1
          · rename_i r1 es hf
            have g1 := filterProposal_lw _ _ _ _ _ hf h0
            split at h
            · rename_i r2 ha
              cases h; exact (appendEntry_lw ha g1).1
            · rename_i r2 ha
              rw [Res.bind_eq_ok_iff] at h
              obtain ⟨r3, h3, h4⟩ := h
              cases h4
              exact (bcastAppend_lw h3 (appendEntry_lw ha g1)).1
            · cases h
            · cases h
  · -- MsgReadIndex
    split at h
    · cases h
    · cases h
    · cases h; exact h0.1
    · simp only [] at h
      split at h
      · exact (answerNow_lw h h0).1
      · split at h
        · split at h
          · cases h
          · rename_i e0 he0
            rw [Res.bind_eq_ok_iff] at h
            obtain ⟨ro, h1, h2⟩ := h
            rw [Res.bind_eq_ok_iff] at h2
            obtain ⟨r2, h3, h4⟩ := h2
            cases h4
            have g1 : LWb a { r with readOnly := ro } := by
              refine ⟨h0.1.ro (fun hs p hp => ?_), h0.2⟩
              rcases addRequest_index h1 p hp with c | c
              · exact h0.1.rd hs p c
              · rw [c]; exact Nat.le_refl _
            exact (bcastHeartbeatWithCtx_lw h3 g1).1
        · exact (answerNow_lw h h0).1
  · -- MsgAppendResponse
    rename_i hty
    rw [Res.bind_eq_ok_iff] at h
    obtain ⟨r1, h1, h2⟩ := h
    cases h2
    exact (handleAppendResponse_lw h1 h0 (hB hty)).1
  · -- MsgHeartbeatResponse
    rw [Res.bind_eq_ok_iff] at h
    obtain ⟨r1, h1, h2⟩ := h
    cases h2
    exact (handleHeartbeatResponse_lw h1 h0).1
  · cases h; exact (handleSnapshotStatus_lw h0).1
  · cases h; exact (handleUnreachable_lw h0).1
  · rw [Res.bind_eq_ok_iff] at h
    obtain ⟨r1, h1, h2⟩ := h
    cases h2
    exact (handleTransferLeader_lw h1 h0).1
  · cases h; exact h0.1

end F
end PB
end Raft
end RaftModel
