import RaftProofs.ClusterCommitW

/-!
Cluster-level commit safety, part X: every `MsgAppend` queued by a call is a slice of the logical log
the call ends with (`call_q`; `call_lstep` of the Log Matching layer only says "of the log before or
after the call").
-/
namespace RaftModel
namespace Raft
namespace CC
open Node

/-- every queued `MsgAppend` was queued in `a` or is a sub-log of the logical log of `r` -/
def QF (a r : Raft) : Prop :=
  ∀ x ∈ r.msgs, x.msgType = .msgAppend → x ∈ a.msgs ∨ SubW x r.raftLog.abs

/-- how a call changes the logical log (no compaction, no snapshot): not at all, a leader appended
entries of its term, or the input was a `MsgAppend` -/
def LogRel (a r : Raft) (m : Message) : Prop :=
  r.raftLog.abs = a.raftLog.abs ∨ (∃ es, Appended a r es) ∨ m.msgType = .msgAppend

/-- both facts about a call -/
structure QL (a r : Raft) (m : Message) : Prop where
  q : QF a r
  l : LogRel a r m

theorem QL.of_same {a r : Raft} {m : Message} (h : ∀ x ∈ r.msgs, x ∈ a.msgs)
    (hl : r.raftLog.abs = a.raftLog.abs) : QL a r m := ⟨fun x hx _ => .inl (h x hx), .inl hl⟩

theorem QL.of_k0 {a r : Raft} {m : Message} (h : K0 a r) : QL a r m := ⟨h.qs.q, .inl h.abs⟩

theorem step_qf {r r' : Raft} {m : Message} {e : Option RaftError} (hinv : r.raftLog.Inv)
    (hnb : r.batchAppend = false) (hms : m.msgType ≠ .msgSnapshot)
    (hlk : ∀ x ∈ r'.msgs, x.msgType = .msgAppend → x ∈ r.msgs ∨ r'.state = .leader)
    (h : r.step m = .ok (r', e)) : QL r r' m := by
  rcases step_k hinv hnb h with c | ⟨_, _, _, _, es, _, c⟩ | ⟨_, _, c⟩ | ⟨hm, hr, r0, c1, c2, c3⟩ |
    ⟨hm, hr, c⟩
  · exact QL.of_k0 c
  · exact ⟨c.qs.q, .inr (.inl ⟨_, c.app⟩)⟩
  · exact ⟨c.qs.q, .inr (.inl ⟨_, c.app⟩)⟩
  · refine ⟨fun x hx hty => ?_, .inr (.inr hm)⟩
    rcases hlk x hx hty with g | g
    · exact .inl g
    · have hst : r'.state = .follower := by
        have := handleAppendEntries_frame c3 Frame.rfl
        rw [this.state]; exact c2
      rw [hst] at g; cases g
  · exact absurd hm hms

theorem QL.rebase {a a' r : Raft} {m : Message} (h : QL a' r m) (hm : a'.msgs = a.msgs)
    (hl : a'.raftLog = a.raftLog) (hs : a'.state = a.state) (ht : a'.term = a.term) : QL a r m := by
  refine ⟨fun x hx hty => by rw [← hm]; exact h.q x hx hty, ?_⟩
  rcases h.l with c | ⟨es, c⟩ | c
  · exact .inl (by rw [← hl]; exact c)
  · exact .inr (.inl ⟨es, ⟨c.ne, by rw [← hl]; exact c.abs, by rw [← hl]; exact c.contig, c.terms,
      by rw [← hl]; exact c.last, c.inv, by rw [← hl]; exact c.commit, c.leader⟩⟩)
  · exact .inr (.inr c)

theorem QL.retag {a r : Raft} {m m' : Message} (h : QL a r m) (hm : m.msgType ≠ .msgAppend) :
    QL a r m' :=
  ⟨h.q, h.l.imp (fun g => g) (fun g => g.imp (fun g => g) (fun g => absurd g hm))⟩

theorem tick_qf {r r' : Raft} {b : Bool} {m : Message} (hinv : r.raftLog.Inv) (hnb : r.batchAppend = false)
    (hlk : ∀ x ∈ r'.msgs, x.msgType = .msgAppend → x ∈ r.msgs ∨ r'.state = .leader)
    (h : r.tick = .ok (r', b)) : QL r r' m := by
  by_cases hs : r.state = .leader
  · exact QL.of_k0 (tick_leader_k hinv hnb hs h)
  · have hel : r.tickElection = .ok (r', b) := by
      unfold Raft.tick at h
      cases hst : r.state <;> rw [hst] at h <;> first | exact h | exact absurd hst hs
    unfold Raft.tickElection at hel
    simp only at hel
    split at hel
    · cases hel; exact QL.of_same (fun _ hx => hx) rfl
    · obtain ⟨r3, h3, hel⟩ := Res.bind_eq_ok hel
      cases hel
      unfold Raft.stepIgnore at h3
      obtain ⟨⟨r1, e⟩, hs1, h3⟩ := Res.bind_eq_ok h3
      cases h3
      have := step_qf (r := { r with electionElapsed := 0 }) hinv hnb (by intro hc; cases hc) hlk hs1
      exact (this.retag (by intro hc; cases hc)).rebase rfl rfl rfl rfl

/-- `stabilize` keeps the logical log (no pending snapshot) -/
theorem stabilize_abs {st st' : NState} {res : OpRes} (hinv : st.raft.raftLog.Inv)
    (hsn : st.raft.raftLog.unstable.snapshot = none) (h : Node.stabilize st = .ok (res, st')) :
    st'.raft.raftLog.abs = st.raft.raftLog.abs ∧ st'.raft.msgs = st.raft.msgs := by
  unfold Node.stabilize at h
  simp only [] at h
  split at h
  · rename_i l hl0
    have hl : st.raft.raftLog.stabilise = .ok l := hl0
    cases h
    obtain ⟨l2, e2, _, a2, _⟩ := RaftProps.C14.stabilise_ok hinv hsn
    rw [hl] at e2
    cases e2
    exact ⟨a2, rfl⟩
  · cases h
  · cases h

theorem nodeCommitApply_ql {st st' : NState} {m : Message} {k : Nat} {res : OpRes}
    (hinv : st.raft.raftLog.Inv) (h : Node.commitApply st k = .ok (res, st')) :
    QL st.raft st'.raft m := by
  unfold Node.commitApply at h
  simp only [] at h
  split at h
  · rename_i r2 hb
    obtain ⟨r1, h1, h2⟩ := Res.bind_eq_ok hb
    have hr1 : r1.raftLog = st.raft.raftLog ∧ r1.msgs = st.raft.msgs ∧ r1.state = st.raft.state ∧
        r1.term = st.raft.term := by
      have hred : ∀ ents, (st.raft.reduceUncommittedSize ents).raftLog = st.raft.raftLog ∧
          (st.raft.reduceUncommittedSize ents).msgs = st.raft.msgs ∧
          (st.raft.reduceUncommittedSize ents).state = st.raft.state ∧
          (st.raft.reduceUncommittedSize ents).term = st.raft.term := by
        intro ents
        unfold Raft.reduceUncommittedSize
        split <;> exact ⟨rfl, rfl, rfl, rfl⟩
      split at h1
      · split at h1
        · cases h1; exact hred _
        · cases h1; exact ⟨rfl, rfl, rfl, rfl⟩
        · cases h1
      · cases h1; exact ⟨rfl, rfl, rfl, rfl⟩
    obtain ⟨e1, e2, e3, e4⟩ := hr1
    have hinv1 : r1.raftLog.Inv := by rw [e1]; exact hinv
    unfold Raft.commitApply at h2
    have hq2 : QL r1 r2 m := by
      rcases commitApplyInternal_k hinv1 h2 with c | ⟨es, c⟩
      · exact QL.of_k0 c
      · exact ⟨c.qs.q, .inr (.inl ⟨es, c.app⟩)⟩
    have hq : QL st.raft r2 m := hq2.rebase e2 e1 e3 e4
    cases h
    split
    · exact ⟨hq.q, hq.l.imp (fun g => g) (fun g => g.imp (fun ⟨es, c⟩ => ⟨es, ⟨c.ne, c.abs, c.contig,
        c.terms, c.last, by
          exact (Inv_store_core c.inv ({ r2.raftLog.store with
            hardState := { r2.raftLog.store.hardState with commit := k },
            confState := st.appCs }) rfl rfl).1, c.commit, c.leader⟩⟩) (fun g => g))⟩
    · exact hq
  · cases h
  · cases h

/-- **every `MsgAppend` queued by a call is a slice of the log the call ends with** -/
theorem call_q (st st' : NState) (rnd : Option Nat) (op : NodeOp) (res : OpRes)
    (hinv : st.raft.raftLog.Inv) (hnb : st.raft.batchAppend = false)
    (hop : op ≠ .drain ∧ ∀ m, op ≠ .rstep m)
    (hms : ∀ m, op = .step m → m.msgType ≠ .msgSnapshot)
    (hnc : ∀ j, op ≠ .compact j) (hsn : st.raft.raftLog.unstable.snapshot = none)
    (hlk : ∀ x ∈ st'.raft.msgs, x.msgType = .msgAppend → x ∈ st.raft.msgs ∨ st'.raft.state = .leader)
    (h : Node.call st rnd op = .ok (res, st')) : QL st.raft st'.raft (CV.opMsg op) := by
  unfold Node.call at h
  have hinv' : ({ st.raft with nextRand := rnd } : Raft).raftLog.Inv := hinv
  have hnb' : ({ st.raft with nextRand := rnd } : Raft).batchAppend = false := hnb
  refine QL.rebase (a' := ({ st.raft with nextRand := rnd } : Raft)) ?_ rfl rfl rfl rfl
  have loc1 : ∀ (mm : Message) (raft : Raft) (e : Option RaftError), mm.msgType ≠ .msgSnapshot →
      st'.raft = raft → ({ st.raft with nextRand := rnd } : Raft).step mm = .ok (raft, e) →
      QL ({ st.raft with nextRand := rnd } : Raft) st'.raft mm := by
    intro mm raft e h1 hr hx
    rw [hr]
    exact step_qf hinv' hnb' h1 (by rw [← hr]; exact hlk) hx
  have locI : ∀ (mm : Message) (raft : Raft), mm.msgType ≠ .msgSnapshot →
      st'.raft = raft → ({ st.raft with nextRand := rnd } : Raft).stepIgnore mm = .ok raft →
      QL ({ st.raft with nextRand := rnd } : Raft) st'.raft mm := by
    intro mm raft h1 hr hx
    unfold Raft.stepIgnore at hx
    obtain ⟨⟨r1, e⟩, hs, hx⟩ := Res.bind_eq_ok hx
    cases hx
    exact loc1 mm _ e h1 hr hs
  cases op with
  | tick =>
    simp only [applyOp] at h
    split at h
    · rename_i raft b heq
      cases h
      exact tick_qf hinv' hnb' hlk heq
    · cases h
    · cases h
  | step m =>
    simp only [applyOp] at h
    obtain ⟨raft, e, hx, hr⟩ := CV.unitRes_ok h
    unfold RawNode.step at hx
    split at hx
    · cases hx; rw [hr]; exact QL.of_same (fun _ hx => hx) rfl
    · split at hx
      · exact loc1 m raft e (hms m rfl) hr hx
      · cases hx; rw [hr]; exact QL.of_same (fun _ hx => hx) rfl
  | rstep m => exact absurd rfl (hop.2 m)
  | propose c d =>
    simp only [applyOp] at h
    obtain ⟨raft, e, hx, hr⟩ := CV.unitRes_ok h
    exact (loc1 _ raft e (by intro hc; cases hc) hr hx).retag (by intro hc; cases hc)
  | proposeCc t c d =>
    simp only [applyOp] at h
    obtain ⟨raft, e, hx, hr⟩ := CV.unitRes_ok h
    exact (loc1 _ raft e (by intro hc; cases hc) hr hx).retag (by intro hc; cases hc)
  | readIndex c =>
    simp only [applyOp] at h
    obtain ⟨raft, hx, hr⟩ := CV.okRes_ok h
    exact (locI _ raft (by intro hc; cases hc) hr hx).retag (by intro hc; cases hc)
  | transferLeader x =>
    simp only [applyOp] at h
    obtain ⟨raft, hx, hr⟩ := CV.okRes_ok h
    exact (locI _ raft (by intro hc; cases hc) hr hx).retag (by intro hc; cases hc)
  | campaign =>
    simp only [applyOp] at h
    obtain ⟨raft, e, hx, hr⟩ := CV.unitRes_ok h
    exact (loc1 _ raft e (by intro hc; cases hc) hr hx).retag (by intro hc; cases hc)
  | ping =>
    simp only [applyOp] at h
    obtain ⟨raft, hx, hr⟩ := CV.okRes_ok h
    rw [hr]
    exact QL.of_k0 (ping_k hx K.rfl hinv' hnb')
  | requestSnapshot =>
    simp only [applyOp] at h
    obtain ⟨raft, e, hx, hr⟩ := CV.unitRes_ok h
    rw [hr]
    exact QL.of_k0 (requestSnapshot_k hx K.rfl hinv' hnb')
  | reportUnreachable x =>
    simp only [applyOp] at h
    obtain ⟨raft, hx, hr⟩ := CV.okRes_ok h
    exact (locI _ raft (by intro hc; cases hc) hr hx).retag (by intro hc; cases hc)
  | reportSnapshot x f =>
    simp only [applyOp] at h
    obtain ⟨raft, hx, hr⟩ := CV.okRes_ok h
    exact (locI _ raft (by intro hc; cases hc) hr hx).retag (by intro hc; cases hc)
  | applyConfChange cc =>
    simp only [applyOp] at h
    split at h
    · rename_i raft cs heq
      cases h
      exact QL.of_k0 (applyConfChange_k heq K.rfl hinv' hnb')
    · rename_i raft e heq
      cases h
      exact QL.of_k0 (applyConfChange_k heq K.rfl hinv' hnb')
    · cases h
    · cases h
  | stabilize =>
    simp only [applyOp] at h
    obtain ⟨e1, e2⟩ := stabilize_abs (st := { st with raft := { st.raft with nextRand := rnd } })
      hinv' hsn h
    exact QL.of_same (fun x hx => by rw [e2] at hx; exact hx) e1
  | onPersistEntries i t =>
    simp only [applyOp] at h
    obtain ⟨raft, hx, hr⟩ := CV.okRes_ok h
    rw [hr]
    exact QL.of_k0 (onPersistEntries_k hinv' hnb' hx)
  | persistSnap =>
    simp only [applyOp] at h
    unfold Node.persistSnap at h
    simp only [] at h
    have hsn' : ({ st.raft with nextRand := rnd } : Raft).raftLog.unstable.snapshot = none := hsn
    rw [hsn'] at h
    simp only [] at h
    cases h
    exact QL.of_same (fun _ hx => hx) rfl
  | commitApply k =>
    simp only [applyOp] at h
    exact nodeCommitApply_ql (st := { st with raft := { st.raft with nextRand := rnd } }) hinv' h
  | compact k => exact absurd rfl (hnc k)
  | drain => exact absurd rfl hop.1
  | triggerSnap =>
    simp only [applyOp] at h
    cases h; exact QL.of_same (fun _ hx => hx) rfl
  | triggerLog b =>
    simp only [applyOp] at h
    cases h; exact QL.of_same (fun _ hx => hx) rfl
  | setPriority p =>
    simp only [applyOp] at h
    cases h; exact QL.of_same (fun _ hx => hx) rfl
  | setBatchAppend b =>
    simp only [applyOp] at h
    cases h; exact QL.of_same (fun _ hx => hx) rfl
  | skipBcastCommit b =>
    simp only [applyOp] at h
    cases h; exact QL.of_same (fun _ hx => hx) rfl
  | setCheckQuorum b =>
    simp only [applyOp] at h
    cases h; exact QL.of_same (fun _ hx => hx) rfl
  | adjustMaxInflight id cap =>
    simp only [applyOp] at h
    obtain ⟨raft, hx, hr⟩ := CV.okRes_ok h
    rw [hr]
    exact QL.of_k0 (adjustMaxInflightMsgs_k hx K.rfl hinv' hnb')
  | maybeFreeInflightBuffers =>
    simp only [applyOp] at h
    cases h; exact QL.of_same (fun _ hx => hx) rfl
  | enableGroupCommit b =>
    simp only [applyOp] at h
    obtain ⟨raft, hx, hr⟩ := CV.okRes_ok h
    rw [hr]
    exact QL.of_k0 (enableGroupCommit_k hx K.rfl hinv' hnb')
  | assignCommitGroups v =>
    simp only [applyOp] at h
    obtain ⟨raft, hx, hr⟩ := CV.okRes_ok h
    rw [hr]
    exact QL.of_k0 (assignCommitGroups_k hx K.rfl hinv' hnb')
  | clearCommitGroup =>
    simp only [applyOp] at h
    cases h; exact QL.of_same (fun _ hx => hx) rfl
  | checkGroupCommitConsistent =>
    simp only [applyOp] at h
    split at h
    · cases h; exact QL.of_same (fun _ hx => hx) rfl
    · cases h; exact QL.of_same (fun _ hx => hx) rfl
    · cases h
    · cases h
  | setMaxApplyUnpersistedLogLimit x =>
    simp only [applyOp] at h
    cases h; exact QL.of_same (fun _ hx => hx) rfl
  | setMaxCommittedSizePerReady x =>
    simp only [applyOp] at h
    cases h; exact QL.of_same (fun _ hx => hx) rfl
  | onEntriesFetched to term aggr =>
    rcases CV.onEntriesFetched_ok h with h | ⟨-, -, -, raft, hx, h⟩
    · cases h; exact QL.of_same (fun _ hx => hx) rfl
    · cases h
      rcases hx with hx | hx
      · exact QL.of_k0 (sendAppendAggressively_k hx K.rfl hinv' hnb')
      · exact QL.of_k0 (sendAppend_k hx K.rfl hinv' hnb')

end CC
end Raft
end RaftModel
