import RaftProofs.ClusterCommit5A

/-! Commit layer without `batch_append = false`, part B: `SFb` through the broadcast loops, the read-index helpers and the leader-side handlers that never move `matched` or the commit index (copy of `ClusterCommitC`). -/
namespace RaftModel
namespace Raft
namespace CB
open CC

theorem foldl_sfb {α : Type} {a r' : Raft} (step : Res Raft → α → Res Raft)
    (hstep : ∀ acc x r1, step acc x = .ok r1 → ∃ r0, acc = .ok r0 ∧ (SFb a r0 → SFb a r1)) :
    ∀ (l : List α) (acc : Res Raft), l.foldl step acc = .ok r' →
      (∀ r, acc = .ok r → SFb a r) → SFb a r' := by
  intro l
  induction l with
  | nil => intro acc h h0; exact h0 r' h
  | cons x rest ih =>
    intro acc h h0
    simp only [List.foldl_cons] at h
    refine ih (step acc x) h ?_
    intro r1 h1
    obtain ⟨r0, e0, hf⟩ := hstep acc x r1 h1
    exact hf (h0 r0 e0)

/-- the loop over the peers: `f` runs on the progress entry of `id` and keeps its `matched` -/
theorem forEachPeer_sfb {a r r' : Raft} {f : Raft → Nat → Progress → Res (Raft × Progress)}
    (hf : ∀ r id pr r' pr', f r id pr = .ok (r', pr') → r.prs.get id = some pr → id ≠ r.id →
      SFb a r → SFb a r' ∧ pr'.matched = pr.matched)
    (h : r.forEachPeer f = .ok r') (h0 : SFb a r) : SFb a r' := by
  unfold Raft.forEachPeer at h
  refine foldl_sfb _ ?_ _ _ h (by intro r1 e; cases e; exact h0)
  intro acc id r1 h1
  cases acc with
  | err e => cases h1
  | panic s => cases h1
  | ok r0 =>
    refine ⟨r0, rfl, fun h0 => ?_⟩
    change (if id = r0.id then Res.ok r0 else _) = _ at h1
    split at h1
    · cases h1; exact h0
    · rename_i hne
      split at h1
      · cases h1; exact h0
      · rename_i pr hg
        obtain ⟨⟨r2, pr2⟩, h2, h3⟩ := Res.bind_eq_ok h1
        cases h3
        obtain ⟨g1, g2⟩ := hf _ _ _ _ _ h2 hg hne h0
        exact h0.writeBack g1 hg g2

theorem bcastAppend_sfb {a r r' : Raft}
    (h : r.bcastAppend = .ok r') (h0 : SFb a r) : SFb a r' := by
  unfold Raft.bcastAppend at h
  exact forEachPeer_sfb (fun r id pr r' pr' h _ _ h0 => sendAppendPr_sfb h h0) h h0

theorem bcastHeartbeatWithCtx_sfb {a r r' : Raft} {ctx : Option Bytes}
    (h : r.bcastHeartbeatWithCtx ctx = .ok r') (h0 : SFb a r) : SFb a r' := by
  unfold Raft.bcastHeartbeatWithCtx at h
  refine forEachPeer_sfb (fun r id pr r' pr' h hg hne h0 => ?_) h h0
  obtain ⟨r2, h2, h3⟩ := Res.bind_eq_ok h
  cases h3
  exact ⟨sendHeartbeat_sfb h2 (mfun_of_get hg) hne h0, rfl⟩

theorem bcastHeartbeat_sfb {a r r' : Raft} (h : r.bcastHeartbeat = .ok r') (h0 : SFb a r) :
    SFb a r' := by
  unfold Raft.bcastHeartbeat at h
  exact bcastHeartbeatWithCtx_sfb h h0

theorem ping_sfb {a r r' : Raft} (h : r.ping = .ok r') (h0 : SFb a r) : SFb a r' := by
  unfold Raft.ping at h
  split at h
  · exact bcastHeartbeat_sfb h h0
  · cases h; exact h0

macro "sfb_pre" h:ident : tactic =>
  `(tactic| (frame_dec $h:ident <;> (iterate 2 (try (apply SFb.mk')))))

macro "sfb_auto" h:ident "[" ls:Lean.Parser.Tactic.SolveByElim.arg,* "]" : tactic =>
  `(tactic| (sfb_pre $h:ident <;> (solve_by_elim (maxDepth := 14) [SFb.rfl, $ls,*, SFb.mk'])))

theorem handleReadyReadIndex_sfb {a r r' : Raft} {req : Message} {i : Nat} {om : Option Message}
    (h : r.handleReadyReadIndex req i = .ok (r', om)) (h0 : SFb a r) :
    SFb a r' ∧ ∀ m', om = some m' → m'.msgType = .msgReadIndexResp ∧ m'.frm = 0 := by
  unfold Raft.handleReadyReadIndex at h
  split at h
  · split at h
    · cases h
    · cases h
      exact ⟨SFb.mk' h0, fun _ hc => by cases hc⟩
  · cases h
    exact ⟨h0, fun _ hc => by cases hc; exact ⟨rfl, rfl⟩⟩

theorem respondReadStates_sfb {a r r' : Raft} {rss : List ReadIndexStatus}
    (h : r.respondReadStates rss = .ok r') (h0 : SFb a r) : SFb a r' := by
  unfold Raft.respondReadStates at h
  refine foldl_sfb _ ?_ _ _ h (by intro r1 e; cases e; exact h0)
  intro acc rs r1 h1
  cases acc with
  | err e => cases h1
  | panic s => cases h1
  | ok r0 =>
    refine ⟨r0, rfl, fun h0 => ?_⟩
    change (r0.handleReadyReadIndex rs.req rs.index).bind _ = _ at h1
    rw [Res.bind_eq_ok_iff] at h1
    obtain ⟨⟨r2, om⟩, h2, h3⟩ := h1
    obtain ⟨hk, hty⟩ := handleReadyReadIndex_sfb h2 h0
    cases om with
    | none => cases h3; exact hk
    | some m' =>
      obtain ⟨t1, t2⟩ := hty _ rfl
      exact send_sfb h3 (sent_other r2 m' t2 (by rw [t1]; rfl) (by rw [t1]; decide)
        (by rw [t1]; decide)) hk

theorem checkQuorumActive_sfb {a r r' : Raft} {b : Bool} (h : r.checkQuorumActive = (r', b))
    (h0 : SFb a r) : SFb a r' := by
  unfold Raft.checkQuorumActive at h
  split at h
  rename_i prs b' hq
  cases h
  unfold ProgressTracker.quorumRecentlyActive at hq
  cases hq
  refine ⟨?_, h0.q⟩
  rw [← h0.core]
  have : mfun ({ r.prs with progress := r.prs.progress.map (fun p =>
      if p.1 = r.id then (p.1, { p.2 with recentActive := true })
      else (p.1, { p.2 with recentActive := false })) } : ProgressTracker) = mfun r.prs := by
    have := mfun_mapProgress r (fun j pr => if j = r.id then { pr with recentActive := true }
      else { pr with recentActive := false }) (fun j pr => by split <;> rfl)
    rw [← this]
    unfold mapProgress mfun ProgressTracker.get
    dsimp only
    congr 2
    funext j
    congr 2
    apply List.map_congr_left
    intro p _
    split <;> rfl
  unfold score
  dsimp only
  rw [this]

theorem handleHeartbeatResponse_sfb {a r r' : Raft} {m : Message}
    (h : r.handleHeartbeatResponse m = .ok r') (h0 : SFb a r) : SFb a r' := by
  unfold Raft.handleHeartbeatResponse at h
  split at h
  · cases h; exact h0
  · rename_i pr hg
    simp only [] at h
    obtain ⟨pr1, hp1, h⟩ := Res.bind_eq_ok h
    have hm1 : pr1.matched = pr.matched := by
      split at hp1
      · split at hp1
        · cases hp1; exact updateCommitted_matched _ _
        · cases hp1
      · cases hp1; exact updateCommitted_matched _ _
    obtain ⟨r1, hr1, h⟩ := Res.bind_eq_ok h
    have h1 : SFb a r1 := by
      split at hr1
      · obtain ⟨⟨r2, pr2⟩, h2, h3⟩ := Res.bind_eq_ok hr1
        cases h3
        obtain ⟨g1, g2⟩ := sendAppendPr_sfb h2 h0
        exact h0.writeBack g1 hg (g2.trans hm1)
      · cases hr1
        exact h0.writeBack h0 hg hm1
    sfb_auto h [respondReadStates_sfb]

theorem handleTransferLeader_sfb {a r r' : Raft} {m : Message}
    (h : r.handleTransferLeader m = .ok r') (h0 : SFb a r) : SFb a r' := by
  unfold Raft.handleTransferLeader at h
  split at h
  · cases h; exact h0
  · simp only [] at h
    split at h
    · cases h; exact h0
    · have cont : ∀ r0 : Raft, SFb a r0 →
          (if m.frm = r0.id then Res.ok r0
           else
            match ({ r0 with electionElapsed := 0, leadTransferee := some m.frm } : Raft).prs.get m.frm with
            | none => Res.panic "raft.handle_transfer_leader.unwrap"
            | some pr =>
              if pr.matched = ({ r0 with electionElapsed := 0, leadTransferee := some m.frm } : Raft).raftLog.lastIndex
              then ({ r0 with electionElapsed := 0, leadTransferee := some m.frm } : Raft).sendTimeoutNow m.frm
              else (({ r0 with electionElapsed := 0, leadTransferee := some m.frm } : Raft).sendAppendPr m.frm pr).bind
                (fun x => .ok { x.1 with prs := x.1.prs.set m.frm x.2 })) = .ok r' → SFb a r' := by
        intro r0 hr0 hc
        split at hc
        · cases hc; exact hr0
        · have hr0' : SFb a ({ r0 with electionElapsed := 0, leadTransferee := some m.frm } : Raft) :=
            SFb.mk' hr0
          split at hc
          · cases hc
          · rename_i pr hg
            split at hc
            · exact sendTimeoutNow_sfb hc hr0'
            · obtain ⟨⟨r2, pr2⟩, h2, h3⟩ := Res.bind_eq_ok hc
              cases h3
              obtain ⟨g1, g2⟩ := sendAppendPr_sfb h2 hr0'
              exact hr0'.writeBack g1 hg g2
      split at h
      · split at h
        · cases h; exact h0
        · exact cont _ (SFb.mk' h0) h
      · exact cont _ h0 h

theorem handleSnapshotStatus_sfb {a r : Raft} {m : Message} (h0 : SFb a r) :
    SFb a (r.handleSnapshotStatus m) := by
  unfold Raft.handleSnapshotStatus
  split
  · exact h0
  · rename_i pr hg
    split
    · exact h0
    · refine h0.setPr (fun old ho => ?_)
      rw [hg] at ho; cases ho
      split
      · exact becomeProbe_matched _
      · exact becomeProbe_matched _

theorem handleUnreachable_sfb {a r : Raft} {m : Message} (h0 : SFb a r) :
    SFb a (r.handleUnreachable m) := by
  unfold Raft.handleUnreachable
  split
  · exact h0
  · rename_i pr hg
    split
    · refine h0.setPr (fun old ho => ?_)
      rw [hg] at ho; cases ho
      exact becomeProbe_matched _
    · exact h0

theorem filterProposalEntry_sfb {a r r' : Raft} {i : Nat} {e e' : Entry}
    (h : r.filterProposalEntry i e = some (r', e')) (h0 : SFb a r) : SFb a r' := by
  unfold Raft.filterProposalEntry at h
  sfb_auto h [SFb.rfl]

theorem filterProposal_sfb {a : Raft} : ∀ (es : List Entry) (r r' : Raft) (i : Nat)
    (o : Option (List Entry)), r.filterProposal i es = (r', o) → SFb a r → SFb a r' := by
  intro es
  induction es with
  | nil => intro r r' i o h h0; simp only [filterProposal] at h; cases h; exact h0
  | cons e es ih =>
    intro r r' i o h h0
    simp only [filterProposal] at h
    split at h
    · cases h; exact h0
    · rename_i r1 e1 he
      have h1 := filterProposalEntry_sfb he h0
      split at h
      · rename_i r2 es2 hf
        cases h; exact ih _ _ _ _ hf h1
      · rename_i r2 hf
        cases h; exact ih _ _ _ _ hf h1


end CB
end Raft
end RaftModel
